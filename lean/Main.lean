import Syzgy.Model.Driver
import Syzgy.Model.QueryDriver
import Syzgy.Model.SearchDriver
import Syzgy.Model.LshDriver
import Syzgy.Model.Distance

open Syzgy

def step (d : DState) (line : String) : DState × String :=
  let toks := (line.trimAscii.toString.splitOn " ").filter (· ≠ "")
  match storageStep d toks with
  | some r => r
  | none =>
    match Syzgy.Query.queryStep toks with
    | some out => (d, out)
    | none =>
      match searchStep toks with
      | some out => (d, out)
      | none =>
        match Syzgy.Lsh.lshStep toks with
        | some out => (d, out)
        | none =>
          match distStep toks with
          | some out => (d, out)
          | none => (d, "bad-op")

partial def loop (hin hout : IO.FS.Stream) (d : DState) : IO Unit := do
  let line ← hin.getLine
  if line.isEmpty then return ()
  let (d', out) := step d line
  hout.putStrLn out
  hout.flush
  loop hin hout d'

def main : IO Unit := do
  loop (← IO.getStdin) (← IO.getStdout) {}
