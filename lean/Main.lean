import Syzgy.Model.Driver
import Syzgy.Model.QueryDriver
import Syzgy.Model.SearchDriver
import Syzgy.Model.LshDriver
import Syzgy.Model.Distance
import Syzgy.Model.RestDriver

open Syzgy

structure AllState where
  d : DState := {}
  rest : Syzgy.Rest.Server := []

def step (d : DState) (line : String) : DState × String :=
  let toks := (line.trimAscii.toString.splitOn " ").filter (· ≠ "")
  match storageStep d toks with
  | some r => r
  | none =>
    match Syzgy.Query.queryStep toks with
    | some out => (d, out)
    | none =>
      match searchStep toks with
      | some out => (d, out)
      | none =>
        match Syzgy.Lsh.lshStep toks with
        | some out => (d, out)
        | none =>
          match distStep toks with
          | some out => (d, out)
          | none => (d, "bad-op")

def stepAll (a : AllState) (line : String) : AllState × String :=
  let toks := (line.trimAscii.toString.splitOn " ").filter (· ≠ "")
  match Syzgy.Rest.restStep a.rest toks with
  | some (r, out) => ({ a with rest := r }, out)
  | none =>
    let (d', out) := step a.d line
    ({ a with d := d' }, out)

partial def loop (hin hout : IO.FS.Stream) (a : AllState) : IO Unit := do
  let line ← hin.getLine
  if line.isEmpty then return ()
  let (a', out) := stepAll a line
  hout.putStrLn out
  hout.flush
  loop hin hout a'

def main : IO Unit := do
  loop (← IO.getStdin) (← IO.getStdout) {}
