import Syzgy.Model.Query.Eval
/-!
# The documented filter language (reference semantics for C13)

`Expr` is the language of the README: comparisons of a path with a literal, string operators,
IN / NOT IN, EXISTS / DOES NOT EXIST, AND / OR / NOT. `denote` is its meaning on a JSON value;
`WellTyped` says the compared fields are present with the operand types the operator expects.
`ast` is the tree the parser is expected to build and `render` a canonical text.
-/
namespace Syzgy.Query

inductive Path
  | field (name : Bytes)
  | dot (p : Path) (name : Bytes)
  | index (p : Path) (lit : Bytes)       -- `p[lit]`, lit a decimal literal
  | length (p : Path)                    -- `p.length`
deriving DecidableEq, Repr

inductive Lit
  | num (lit : Bytes)
  | str (s : Bytes)
  | bool (b : Bool)
  | null
deriving DecidableEq, Repr

inductive Cmp | eq | ne | lt | le | gt | ge
deriving DecidableEq, Repr

inductive StrOp | contains | startsWith | endsWith | matches
deriving DecidableEq, Repr

inductive Expr
  | cmp (op : Cmp) (p : Path) (l : Lit)
  | strop (op : StrOp) (p : Path) (s : Bytes)
  | inList (p : Path) (items : List Lit)
  | notInList (p : Path) (items : List Lit)
  | exists (p : Path)
  | notExists (p : Path)
  | and (a b : Expr)
  | or (a b : Expr)
  | not (a : Expr)
  | group (a : Expr)                     -- `( a )`: parentheses the grammar does not need
deriving Repr

variable {N : Type}

/-- the value at a path, `none` when the path is not present -/
def lookup (ops : NumOps N) (doc : J N) : Path → Option (J N)
  | .field name => match doc with
    | .obj kvs => lookupKey name kvs
    | _ => none
  | .dot p name => match lookup ops doc p with
    | some (.obj kvs) => lookupKey name kvs
    | some (.arr items) => if name = b!"length" then some (.num (ops.ofNat items.length)) else none
    | _ => none
  | .index p lit => match lookup ops doc p with
    | some (.arr items) =>
      let i := ops.roundToInt (ops.parse lit)
      if i < 0 ∨ i ≥ items.length then none else items[i.toNat]?
    | _ => none
  | .length p => match lookup ops doc p with     -- `p.length`: sugar for the field step `length`
    | some (.obj kvs) => lookupKey b!"length" kvs
    | some (.arr items) => some (.num (ops.ofNat items.length))
    | _ => none

def litVal (ops : NumOps N) : Lit → J N
  | .num lit => .num (ops.parse lit)
  | .str s => .str s
  | .bool b => .bool b
  | .null => .null

/-- ordering of two values of the same ordered type -/
def ordered (ops : NumOps N) (op : Cmp) (a b : J N) : Bool :=
  let (lt, eq) : Bool × Bool := match a, b with
    | .num x, .num y => (ops.lt x y, ops.eq x y)
    | .str x, .str y => (bytesLt x y, x == y)
    | _, _ => (false, false)
  match op with
  | .lt => lt
  | .le => lt || eq
  | .gt => !lt && !eq
  | .ge => !lt
  | .eq => eq
  | .ne => !eq

/-- meaning of an expression on a document -/
def denote (ops : NumOps N) (rx : RegexOracle) (doc : J N) : Expr → Bool
  | .cmp op p l =>
    match lookup ops doc p with
    | none => false
    | some v =>
      match op with
      | .eq => deepEq ops v (litVal ops l)
      | .ne => !deepEq ops v (litVal ops l)
      | _ => ordered ops op v (litVal ops l)
  | .strop op p s =>
    match lookup ops doc p with
    | some (.str v) =>
      (match op with
       | .contains => isInfix s v
       | .startsWith => s.isPrefixOf v
       | .endsWith => s.reverse.isPrefixOf v.reverse
       | .matches => (rx s v).getD false)
    | _ => false
  | .inList p items =>
    match lookup ops doc p with
    | some v => items.any fun l => deepEq ops v (litVal ops l)
    | none => false
  | .notInList p items =>
    match lookup ops doc p with
    | some v => !(items.any fun l => deepEq ops v (litVal ops l))
    | none => false
  | .exists p => (lookup ops doc p).isSome
  | .notExists p => !(lookup ops doc p).isSome
  | .and a b => denote ops rx doc a && denote ops rx doc b
  | .or a b => denote ops rx doc a || denote ops rx doc b
  | .not a => !denote ops rx doc a
  | .group a => denote ops rx doc a

def litOrdered : Lit → Bool
  | .num _ => true
  | .str _ => true
  | _ => false

/-- the compared fields are present with the operand types the operator expects -/
def wellTyped (ops : NumOps N) (rx : RegexOracle) (doc : J N) : Expr → Bool
  | .cmp op p l =>
    match lookup ops doc p with
    | none => false
    | some v =>
      match op with
      | .eq | .ne => true
      | _ => (match v, l with
        | .num _, .num _ => true
        | .str _, .str _ => true
        | _, _ => false)
  | .strop op p s =>
    match lookup ops doc p with
    | some (.str v) => (match op with | .matches => (rx s v).isSome | _ => true)
    | _ => false
  | .inList p items | .notInList p items => (lookup ops doc p).isSome && items.all litOrdered
  | .exists _ | .notExists _ => true
  | .and a b | .or a b => wellTyped ops rx doc a && wellTyped ops rx doc b
  | .not a => wellTyped ops rx doc a
  | .group a => wellTyped ops rx doc a

/-! ## the tree the parser builds for an expression -/

def Path.ast : Path → Node
  | .field name => .ident name
  | .dot p name => .expr p.ast b!"." (.ident name)
  | .index p lit => .expr p.ast b!"[]" (.value (.num lit))
  | .length p => .expr p.ast b!"." (.ident b!"length")

def Lit.value : Lit → Value
  | .num lit => .num lit
  | .str s => .str s
  | .bool b => .bool b
  | .null => .null

def Cmp.text : Cmp → Bytes
  | .eq => b!"==" | .ne => b!"!=" | .lt => b!"<" | .le => b!"<=" | .gt => b!">" | .ge => b!">="

def StrOp.text : StrOp → Bytes
  | .contains => b!"CONTAINS" | .startsWith => b!"STARTS_WITH" | .endsWith => b!"ENDS_WITH" | .matches => b!"MATCHES"

def Expr.ast : Expr → Node
  | .cmp op p l => .expr p.ast op.text (.value l.value)
  | .strop op p s => .expr p.ast op.text (.value (.str s))
  | .inList p items => .expr p.ast b!"IN" (.array (items.map Lit.value))
  | .notInList p items => .expr p.ast b!"NOT_IN" (.array (items.map Lit.value))
  | .exists p => .func b!"EXISTS" (.cons p.ast .nil)
  | .notExists p => .func b!"DOES_NOT_EXIST" (.cons p.ast .nil)
  | .and a b => .expr a.ast b!"AND" b.ast
  | .or a b => .expr a.ast b!"OR" b.ast
  | .not a => .not a.ast
  | .group a => a.ast

end Syzgy.Query
