import Mathlib.Analysis.InnerProductSpace.PiL2
import Mathlib.Analysis.SpecialFunctions.Trigonometric.Inverse
import Syzgy.Model.Distance
/-!
The model's distance formulas evaluated in exact real arithmetic (C06): the Euclidean formula is
a metric (triangle inequality); the cosine formula is invariant under positive scaling and gives 1
for opposite vectors.
-/
namespace Syzgy.DistReal
open Real

/-- exact real arithmetic as an instance of the model's arithmetic -/
noncomputable def realArith : Arith ℝ where
  zero := 0
  one := 1
  negOne := -1
  two := 2
  pi := π
  add := (· + ·)
  sub := (· - ·)
  mul := (· * ·)
  div := (· / ·)
  neg := fun x => -x
  sqrt := Real.sqrt
  acos := Real.arccos
  round := fun x => x
  ofNat := fun n => (n : ℝ)
  toNat := fun _ => 0
  lt := fun a b => decide (a < b)
  eq := fun a b => decide (a = b)

theorem foldl_add_eq_sum (f : ℝ × ℝ → ℝ) (l : List (ℝ × ℝ)) (s : ℝ) :
    l.foldl (fun s p => s + f p) s = s + (l.map f).sum := by
  induction l generalizing s with
  | nil => simp
  | cons p ps ih => simp [ih, add_assoc]

/-- the model's Euclidean formula on `n`-vectors is the Euclidean norm of the difference -/
theorem euclid_ofFn (n : ℕ) (a b : Fin n → ℝ) :
    euclid realArith (List.ofFn a) (List.ofFn b) = Real.sqrt (∑ i, (a i - b i) ^ 2) := by
  unfold euclid
  show Real.sqrt (((List.ofFn a).zip (List.ofFn b)).foldl (fun s p => s + (p.1 - p.2) * (p.1 - p.2)) 0) = _
  rw [foldl_add_eq_sum (fun p => (p.1 - p.2) * (p.1 - p.2)), zero_add]
  congr 1
  have hz : (List.ofFn a).zip (List.ofFn b) = List.ofFn (fun i => (a i, b i)) := by
    apply List.ext_getElem
    · simp
    · intro i h1 h2; simp
  rw [hz, List.map_ofFn, List.sum_ofFn]
  apply Finset.sum_congr rfl
  intro i _
  simp [pow_two]

/-- **triangle inequality** of the Euclidean formula, every dimension -/
theorem euclid_triangle (n : ℕ) (a b c : Fin n → ℝ) :
    euclid realArith (List.ofFn a) (List.ofFn c) ≤
      euclid realArith (List.ofFn a) (List.ofFn b) + euclid realArith (List.ofFn b) (List.ofFn c) := by
  rw [euclid_ofFn, euclid_ofFn, euclid_ofFn]
  have h := dist_triangle (WithLp.toLp 2 a : EuclideanSpace ℝ (Fin n)) (WithLp.toLp 2 b) (WithLp.toLp 2 c)
  simp only [EuclideanSpace.dist_eq, Real.dist_eq, sq_abs] at h
  exact h

theorem sums_foldl (l : List (ℝ × ℝ)) (s : Sums ℝ) :
    l.foldl (fun s p => ({ dot := s.dot + p.1 * p.2, m1 := s.m1 + p.1 * p.1, m2 := s.m2 + p.2 * p.2 } : Sums ℝ)) s =
      { dot := s.dot + (l.map (fun p => p.1 * p.2)).sum, m1 := s.m1 + (l.map (fun p => p.1 * p.1)).sum,
        m2 := s.m2 + (l.map (fun p => p.2 * p.2)).sum } := by
  induction l generalizing s with
  | nil => simp
  | cons p ps ih => simp [ih, add_assoc]

theorem sums_ofFn (n : ℕ) (a b : Fin n → ℝ) :
    sums realArith (List.ofFn a) (List.ofFn b) =
      { dot := ∑ i, a i * b i, m1 := ∑ i, a i * a i, m2 := ∑ i, b i * b i } := by
  unfold sums
  have hz : (List.ofFn a).zip (List.ofFn b) = List.ofFn (fun i => (a i, b i)) := by
    apply List.ext_getElem
    · simp
    · intro i h1 h2; simp
  rw [hz]
  show (List.ofFn fun i => (a i, b i)).foldl (fun s p => ({ dot := s.dot + p.1 * p.2, m1 := s.m1 + p.1 * p.1, m2 := s.m2 + p.2 * p.2 } : Sums ℝ)) ⟨0, 0, 0⟩ = _
  rw [sums_foldl]
  simp only [zero_add, List.map_ofFn, List.sum_ofFn]
  rfl

/-- the cosine quotient computed by the model on real vectors -/
noncomputable def cosQ (n : ℕ) (a b : Fin n → ℝ) : ℝ :=
  (∑ i, a i * b i) / (Real.sqrt (∑ i, a i * a i) * Real.sqrt (∑ i, b i * b i))

theorem angular_ofFn (n : ℕ) (a b : Fin n → ℝ) :
    angular realArith (List.ofFn a) (List.ofFn b) =
      if (∑ i, a i * a i) = 0 ∨ (∑ i, b i * b i) = 0 then 1
      else Real.arccos (clampUnit realArith (cosQ n a b)) / π := by
  unfold angular cosArg
  rw [sums_ofFn]
  simp only
  by_cases h : (∑ i, a i * a i) = 0 ∨ (∑ i, b i * b i) = 0
  · have : (realArith.eq (∑ i, a i * a i) realArith.zero || realArith.eq (∑ i, b i * b i) realArith.zero) = true := by
      rcases h with h | h <;> simp [realArith, h]
    rw [if_pos this, if_pos h]; rfl
  · have : ¬ ((realArith.eq (∑ i, a i * a i) realArith.zero || realArith.eq (∑ i, b i * b i) realArith.zero) = true) := by
      push_neg at h
      simp [realArith, h.1, h.2]
    rw [if_neg this, if_neg h]; rfl

/-- **scale invariance**: multiplying the first vector by any `k > 0` does not change the cosine distance -/
theorem angular_scale (n : ℕ) (a b : Fin n → ℝ) (k : ℝ) (hk : 0 < k) :
    angular realArith (List.ofFn (fun i => k * a i)) (List.ofFn b) = angular realArith (List.ofFn a) (List.ofFn b) := by
  rw [angular_ofFn, angular_ofFn]
  have hm : (∑ i, k * a i * (k * a i)) = k ^ 2 * ∑ i, a i * a i := by
    rw [Finset.mul_sum]; apply Finset.sum_congr rfl; intro i _; ring
  have hd : (∑ i, k * a i * b i) = k * ∑ i, a i * b i := by
    rw [Finset.mul_sum]; apply Finset.sum_congr rfl; intro i _; ring
  have hz : (∑ i, k * a i * (k * a i)) = 0 ↔ (∑ i, a i * a i) = 0 := by
    rw [hm]; constructor
    · intro h; rcases mul_eq_zero.mp h with h | h
      · exact absurd (pow_eq_zero_iff (by norm_num) |>.mp h) (ne_of_gt hk)
      · exact h
    · intro h; rw [h, mul_zero]
  have hq : cosQ n (fun i => k * a i) b = cosQ n a b := by
    unfold cosQ
    rw [hm, hd, Real.sqrt_mul (by positivity), Real.sqrt_sq (le_of_lt hk)]
    have hk0 : k ≠ 0 := ne_of_gt hk
    rw [mul_assoc, mul_div_mul_left _ _ hk0]
  simp only [hz, hq]

/-- **opposite vectors are at distance 1** (any non-zero `a`, `b = -k·a` with `k > 0`) -/
theorem angular_opposite (n : ℕ) (a : Fin n → ℝ) (k : ℝ) (hk : 0 < k) (ha : (∑ i, a i * a i) ≠ 0) :
    angular realArith (List.ofFn a) (List.ofFn (fun i => -(k * a i))) = 1 := by
  rw [angular_ofFn]
  have hm : (∑ i, -(k * a i) * -(k * a i)) = k ^ 2 * ∑ i, a i * a i := by
    rw [Finset.mul_sum]; apply Finset.sum_congr rfl; intro i _; ring
  have hd : (∑ i, a i * -(k * a i)) = -(k * ∑ i, a i * a i) := by
    rw [Finset.mul_sum, ← Finset.sum_neg_distrib]; apply Finset.sum_congr rfl; intro i _; ring
  have hpos : 0 < ∑ i, a i * a i := by
    have : 0 ≤ ∑ i, a i * a i := Finset.sum_nonneg (fun i _ => mul_self_nonneg (a i))
    exact lt_of_le_of_ne this (Ne.symm ha)
  have hnz : ¬ ((∑ i, a i * a i) = 0 ∨ (∑ i, -(k * a i) * -(k * a i)) = 0) := by
    rw [hm]; push_neg; exact ⟨ha, by positivity⟩
  rw [if_neg hnz]
  have hq : cosQ n a (fun i => -(k * a i)) = -1 := by
    unfold cosQ
    rw [hm, hd, Real.sqrt_mul (by positivity), Real.sqrt_sq (le_of_lt hk)]
    have hs : Real.sqrt (∑ i, a i * a i) * (k * Real.sqrt (∑ i, a i * a i)) = k * ∑ i, a i * a i := by
      rw [mul_comm k, ← mul_assoc, Real.mul_self_sqrt (le_of_lt hpos)]; ring
    rw [hs, neg_div, div_self (by positivity)]
  rw [hq]
  have hc : clampUnit realArith (-1) = -1 := by
    unfold clampUnit
    simp [realArith]
  rw [hc, Real.arccos_neg_one, div_self Real.pi_ne_zero]


/-- **far side of a hyperplane**: for a unit normal `n`, a query `q` and a document `v` on opposite
    sides of the hyperplane `{x | n·x = b}` (or on it), the Euclidean distance between them is at least
    the query's distance `|n·q - b|` to the hyperplane — the geometric fact behind pruning far-side
    leaves (`Lsh.FarSound`) -/
theorem euclid_far_side (d : ℕ) (n q v : Fin d → ℝ) (b : ℝ) (hn : ∑ i, n i ^ 2 = 1)
    (hopp : (∑ i, n i * q i - b) * (∑ i, n i * v i - b) ≤ 0) :
    |∑ i, n i * q i - b| ≤ euclid realArith (List.ofFn q) (List.ofFn v) := by
  rw [euclid_ofFn]
  apply Real.abs_le_sqrt
  have hcs := Finset.sum_mul_sq_le_sq_mul_sq Finset.univ n (fun i => q i - v i)
  rw [hn, one_mul] at hcs
  have hdiff : ∑ i, n i * (q i - v i) = (∑ i, n i * q i - b) - (∑ i, n i * v i - b) := by
    simp only [mul_sub, Finset.sum_sub_distrib]; ring
  rw [hdiff] at hcs
  nlinarith [hcs, hopp, sq_nonneg (∑ i, n i * v i - b)]

end Syzgy.DistReal
