import Mathlib.Tactic.Linarith
import Mathlib.Tactic.Positivity
import Mathlib.Tactic.FieldSimp
import Mathlib.Tactic.Ring
import Mathlib.Algebra.Order.Floor.Ring
import Mathlib.Data.Rat.Floor
import Syzgy.Model.Distance
/-!
The quantizer over exact rational arithmetic (C12), and its identification with the model's
`quantizeF` / `dequantizeF` instantiated at the exact arithmetic `ratArith`.
-/
namespace Syzgy.QuantRat

/-- `math.Round` on a non-negative argument: floor (y + 1/2) -/
def roundNN (y : ℚ) : ℤ := ⌊y + 1/2⌋

def clamp (x : ℚ) : ℚ := max (-1) (min 1 x)

/-- code of x for `M = 2^b - 1` levels -/
def q (M : ℕ) (x : ℚ) : ℤ := roundNN ((clamp x + 1) / 2 * M)

def deq (M : ℕ) (k : ℤ) : ℚ := (k : ℚ) / M * 2 - 1

theorem clamp_mono {x y : ℚ} (h : x ≤ y) : clamp x ≤ clamp y := by
  unfold clamp; exact max_le_max le_rfl (min_le_min le_rfl h)

theorem clamp_range (x : ℚ) : -1 ≤ clamp x ∧ clamp x ≤ 1 := by
  unfold clamp
  constructor
  · exact le_max_left _ _
  · exact max_le (by norm_num) (min_le_left _ _)

theorem q_mono (M : ℕ) {x y : ℚ} (h : x ≤ y) : q M x ≤ q M y := by
  unfold q roundNN
  apply Int.floor_mono
  have := clamp_mono h
  have hM : (0 : ℚ) ≤ M := by positivity
  nlinarith

theorem q_deq (M : ℕ) (hM : 0 < M) (k : ℤ) (h0 : 0 ≤ k) (h1 : k ≤ M) : q M (deq M k) = k := by
  have hMq : (0 : ℚ) < M := by exact_mod_cast hM
  have hk0 : (0 : ℚ) ≤ k := by exact_mod_cast h0
  have hk1 : (k : ℚ) ≤ M := by exact_mod_cast h1
  have hd : deq M k = (k : ℚ) / M * 2 - 1 := rfl
  have hr1 : (k : ℚ) / M ≤ 1 := by rw [div_le_one hMq]; exact hk1
  have hr0 : 0 ≤ (k : ℚ) / M := by positivity
  have hc : clamp (deq M k) = deq M k := by
    unfold clamp
    rw [hd, min_eq_right (by linarith), max_eq_right (by linarith)]
  unfold q roundNN
  rw [hc, hd]
  have : ((k : ℚ) / M * 2 - 1 + 1) / 2 * M = k := by field_simp; ring
  rw [this]
  rw [Int.floor_eq_iff]
  constructor <;> push_cast <;> linarith

/-- the code is always one of the `M+1` levels (clamping) -/
theorem q_range (M : ℕ) (x : ℚ) : 0 ≤ q M x ∧ q M x ≤ M := by
  obtain ⟨h0, h1⟩ := clamp_range x
  have hM : (0 : ℚ) ≤ M := by positivity
  unfold q roundNN
  constructor
  · apply Int.floor_nonneg.mpr
    have : 0 ≤ (clamp x + 1) / 2 * M := by apply mul_nonneg <;> linarith
    linarith
  · rw [Int.floor_le_iff]
    push_cast
    have : (clamp x + 1) / 2 * M ≤ 1 * M := by apply mul_le_mul_of_nonneg_right <;> linarith
    linarith

/-- values outside [-1, 1] are stored as the end levels -/
theorem q_clamped (M : ℕ) (x : ℚ) : (1 ≤ x → q M x = M) ∧ (x ≤ -1 → q M x = 0) := by
  constructor
  · intro hx
    have hc : clamp x = 1 := by unfold clamp; rw [min_eq_left hx]; norm_num
    unfold q roundNN
    rw [hc, Int.floor_eq_iff]
    constructor <;> push_cast <;> linarith
  · intro hx
    have hc : clamp x = -1 := by
      unfold clamp
      rw [min_eq_right (by linarith)]
      exact max_eq_left hx
    unfold q roundNN
    rw [hc, Int.floor_eq_iff]
    constructor <;> push_cast <;> norm_num

/-- error bound: within one half step, for x in [-1, 1] -/
theorem err_bound (M : ℕ) (hM : 0 < M) (x : ℚ) (hx0 : -1 ≤ x) (hx1 : x ≤ 1) :
    |deq M (q M x) - x| ≤ 1 / M := by
  have hMq : (0 : ℚ) < M := by exact_mod_cast hM
  have hc : clamp x = x := by
    unfold clamp; rw [min_eq_right hx1, max_eq_right hx0]
  unfold q roundNN deq
  rw [hc]
  set y : ℚ := (x + 1) / 2 * M with hy
  have hf1 : (⌊y + 1/2⌋ : ℚ) ≤ y + 1/2 := Int.floor_le _
  have hf2 : y + 1/2 < (⌊y + 1/2⌋ : ℚ) + 1 := Int.lt_floor_add_one _
  have hx : x = y / M * 2 - 1 := by rw [hy]; field_simp; ring
  rw [abs_le]
  constructor
  · rw [hx]
    have : (⌊y + 1/2⌋ : ℚ) / M * 2 - 1 - (y / M * 2 - 1) = ((⌊y + 1/2⌋ : ℚ) - y) * 2 / M := by
      generalize (⌊y + 1/2⌋ : ℚ) = f
      field_simp; ring
    rw [this, neg_le, ← neg_div, div_le_div_iff_of_pos_right hMq]
    linarith
  · rw [hx]
    have : (⌊y + 1/2⌋ : ℚ) / M * 2 - 1 - (y / M * 2 - 1) = ((⌊y + 1/2⌋ : ℚ) - y) * 2 / M := by
      generalize (⌊y + 1/2⌋ : ℚ) = f
      field_simp; ring
    rw [this, div_le_div_iff_of_pos_right hMq]
    linarith

/-- nearest level: no other level is closer to x than the stored one (x in [-1,1]) -/
theorem nearest_level (M : ℕ) (hM : 0 < M) (x : ℚ) (hx0 : -1 ≤ x) (hx1 : x ≤ 1) (k : ℤ) :
    |deq M (q M x) - x| ≤ |deq M k - x| := by
  have hMq : (0 : ℚ) < M := by exact_mod_cast hM
  have hc : clamp x = x := by unfold clamp; rw [min_eq_right hx1, max_eq_right hx0]
  set y : ℚ := (x + 1) / 2 * M with hy
  have hx : x = y / M * 2 - 1 := by rw [hy]; field_simp; ring
  have hq : q M x = ⌊y + 1/2⌋ := by unfold q roundNN; rw [hc]
  have hf1 : (⌊y + 1/2⌋ : ℚ) ≤ y + 1/2 := Int.floor_le _
  have hf2 : y + 1/2 < (⌊y + 1/2⌋ : ℚ) + 1 := Int.lt_floor_add_one _
  have key : ∀ j : ℤ, deq M j - x = ((j : ℚ) - y) * (2 / M) := by
    intro j; unfold deq; rw [hx]; field_simp; ring
  rw [hq, key, key, abs_mul, abs_mul]
  apply mul_le_mul_of_nonneg_right _ (abs_nonneg _)
  -- |f - y| ≤ 1/2 ≤ |k - y| unless k = f
  by_cases hk : k = ⌊y + 1/2⌋
  · rw [hk]
  · have h1 : |(⌊y + 1/2⌋ : ℚ) - y| ≤ 1/2 := by rw [abs_le]; constructor <;> linarith
    have h2 : (1:ℚ)/2 ≤ |(k : ℚ) - y| := by
      rcases lt_or_gt_of_ne hk with h | h
      · have : (k : ℚ) + 1 ≤ (⌊y + 1/2⌋ : ℚ) := by exact_mod_cast Int.add_one_le_iff.mpr h
        rw [le_abs]; right; linarith
      · have : (⌊y + 1/2⌋ : ℚ) + 1 ≤ (k : ℚ) := by exact_mod_cast Int.add_one_le_iff.mpr h
        rw [le_abs]; left; linarith
    linarith

end Syzgy.QuantRat

namespace Syzgy.QuantRat

/-- exact rational arithmetic as an instance of the model's arithmetic (`sqrt`, `acos` unused here) -/
def ratArith : Arith ℚ where
  zero := 0
  one := 1
  negOne := -1
  two := 2
  pi := 3
  add := (· + ·)
  sub := (· - ·)
  mul := (· * ·)
  div := (· / ·)
  neg := fun x => -x
  sqrt := id
  acos := id
  round := fun x => ((⌊x + 1/2⌋ : ℤ) : ℚ)
  ofNat := fun n => (n : ℚ)
  toNat := fun x => ⌊x⌋.toNat
  lt := fun a b => decide (a < b)
  eq := fun a b => decide (a = b)

/-- the model's `quantize` evaluated in exact arithmetic is the mathematical quantizer `q` -/
theorem quantizeF_rat (bits : ℕ) (x : ℚ) : quantizeF ratArith bits x = (q (2 ^ bits - 1) x).toNat := by
  have hv : (if ratArith.lt x ratArith.negOne = true then ratArith.negOne
      else if ratArith.lt ratArith.one x = true then ratArith.one else x) = clamp x := by
    unfold clamp
    by_cases h1 : x < -1
    · have : ratArith.lt x ratArith.negOne = true := by simp [ratArith, h1]
      rw [if_pos this, min_eq_right (by linarith), max_eq_left (by linarith)]; rfl
    · have n1 : ¬ (ratArith.lt x ratArith.negOne = true) := by simp [ratArith, h1]
      rw [if_neg n1]
      by_cases h2 : 1 < x
      · have : ratArith.lt ratArith.one x = true := by simp [ratArith, h2]
        rw [if_pos this, min_eq_left (by linarith)]
        show (1 : ℚ) = max (-1) 1
        norm_num
      · have n2 : ¬ (ratArith.lt ratArith.one x = true) := by simp [ratArith, h2]
        rw [if_neg n2, min_eq_right (by linarith), max_eq_right (by linarith)]
  unfold quantizeF
  simp only [hv]
  unfold q roundNN
  show ⌊((⌊(clamp x + 1) / 2 * ((2 ^ bits - 1 : ℕ) : ℚ) + 1 / 2⌋ : ℤ) : ℚ)⌋.toNat = _
  rw [Int.floor_intCast]

theorem dequantizeF_rat (bits : ℕ) (k : ℕ) : dequantizeF ratArith bits k = deq (2 ^ bits - 1) k := by
  unfold dequantizeF deq
  simp [ratArith]

end Syzgy.QuantRat
