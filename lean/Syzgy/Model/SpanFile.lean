import Syzgy.Model.Codec
import Syzgy.Model.FreeMap
/-!
# spanfile.go — the byte-level executable model (level **B**)

State = file bytes + id→offset index + free map + next sequence number, maintained
incrementally exactly as the Go code does. Every mutating operation also returns
the file images after each storage step (`grow`, `writeAt`, `markFreed`) — these are
the crash images of C07.
-/
namespace Syzgy

structure SF where
  file : Bytes
  index : List (Bytes × Nat)
  free : List Sp
  seq : Nat
deriving Repr

def idxGet (ix : List (Bytes × Nat)) (k : Bytes) : Option Nat :=
  match ix.find? (fun e => e.1 == k) with
  | some e => some e.2
  | none => none

def idxDel (ix : List (Bytes × Nat)) (k : Bytes) : List (Bytes × Nat) :=
  ix.filter (fun e => !(e.1 == k))

def idxSet (ix : List (Bytes × Nat)) (k : Bytes) (v : Nat) : List (Bytes × Nat) :=
  (k, v) :: idxDel ix k

def zeros (n : Nat) : Bytes := List.replicate n 0

/-- overwrite `data` at `off` (caller guarantees it fits) -/
def splice (file : Bytes) (off : Nat) (data : Bytes) : Bytes :=
  file.take off ++ data ++ file.drop (off + data.length)

/-- `int(float64(cur) * 0.05)`: exact evaluation of the binary64 product and truncation.
    `0.05` is the double `3602879701896397 / 2^56`. -/
def fivePercent (cur : Nat) : Nat :=
  let p := cur * 3602879701896397
  let bl := Nat.log2 p + 1
  if p = 0 then 0
  else if bl ≤ 53 then p / 2 ^ 56
  else
    let sh := bl - 53
    let q := p / 2 ^ sh
    let r := p % 2 ^ sh
    let half := 2 ^ (sh - 1)
    let q' := if r > half ∨ (r = half ∧ q % 2 = 1) then q + 1 else q
    -- value = q' * 2^(sh-56)
    if sh ≥ 56 then q' * 2 ^ (sh - 56) else q' / 2 ^ (56 - sh)

/-- growth rule of `allocateSpan` -/
def expandBy (cur size : Nat) : Nat := max (max 4096 size) (fivePercent cur)

structure Alloc where
  offset : Nat
  remaining : Nat
  file : Bytes
  free : List Sp
  grew : Bool

/-- `allocateSpan(size)` -/
def allocateSpan (file : Bytes) (free : List Sp) (size : Nat) : Alloc :=
  match getFreeRange free size with
  | some (start, remaining, free') =>
    { offset := start, remaining := remaining, file := file, free := free', grew := false }
  | none =>
    let cur := file.length
    let e := expandBy cur size
    { offset := cur, remaining := e - size, file := file ++ zeros e,
      free := markFree free (cur + size) (e - size), grew := true }

def setLengthField (span : Bytes) (l : Nat) : Bytes :=
  span.take 4 ++ be32 (l % 4294967296) ++ span.drop 8

/-- result of a mutating storage operation: new state and the crash images (file after each
    storage step, in order; the last image is the final file) -/
structure Mut where
  st : SF
  images : List (String × Bytes)

/-- first half of `WriteRecord`: serialize, allocate (growing the file when nothing fits), pad or
    add a FREE header for the remainder, checksum, and store the bytes with one `writeAt` -/
structure Placed where
  offset : Nat
  file : Bytes
  free : List Sp
  images : List (String × Bytes)

def placeSpan (file : Bytes) (free : List Sp) (seqNum : Nat) (rid : Bytes) (streams : List Stream) : Outcome Placed :=
  let span0 := serializeSpan seqNum rid streams
  let a := allocateSpan file free (span0.length + 4)
  let imgs0 : List (String × Bytes) := if a.grew then [("grow", a.file)] else []
  let padded := decide (0 < a.remaining) && decide (a.remaining < minSpanLength)
  let free1 := if padded then markUsed a.free (a.offset + span0.length + 4) a.remaining else a.free
  let span1 := if padded then
      let sp := span0 ++ zeros a.remaining
      setLengthField sp (sp.length + 4)
    else span0
  let span2 := span1 ++ be32 (checksum span1)
  let span3 := if a.remaining ≥ minSpanLength then span2 ++ be32 freeMagic ++ be32 (a.remaining % 4294967296) else span2
  if a.offset + span3.length > a.file.length then .panic "writeAt: offset out of bounds" else
  let file1 := splice a.file a.offset span3
  .ok { offset := a.offset, file := file1, free := free1, images := imgs0 ++ [("writeAt", file1)] }

/-- `markSpanAsFreed(offset)` + `freeMap.markFree(offset, length)`: the length is read from the span's
    own header, then the magic is overwritten -/
def retireSpan (file : Bytes) (free : List Sp) (off : Nat) : Outcome (Bytes × List Sp) :=
  match rd32At file (off + 4) with
  | none => .err "record too short to contain length"
  | some len =>
    if off + 4 > file.length then .panic "markSpanAsFreed: slice bounds" else
    .ok (splice file off (be32 freeMagic), markFree free off len)

/-- `SpanFile.WriteRecord(recordID, dataStreams)` -/
def writeRecord (s : SF) (rid : Bytes) (streams : List Stream) : Outcome Mut :=
  let seq' := (s.seq + 1) % 4294967296
  match placeSpan s.file s.free s.seq rid streams with
  | .panic m => .panic m
  | .err m => .err m
  | .ok p =>
    match idxGet s.index rid with
    | some old =>
      match retireSpan p.file p.free old with
      | .panic m => .panic m
      | .err m => .err m
      | .ok (file2, free2) =>
        .ok { st := { file := file2, index := idxSet s.index rid p.offset, free := free2, seq := seq' },
              images := p.images ++ [("markFreed", file2)] }
    | none =>
      .ok { st := { file := p.file, index := idxSet s.index rid p.offset, free := p.free, seq := seq' },
            images := p.images }

/-- `SpanFile.RemoveRecord(recordID)` -/
def removeRecord (s : SF) (rid : Bytes) : Outcome Mut :=
  match idxGet s.index rid with
  | none => .err "record not found"
  | some off =>
    match retireSpan s.file s.free off with
    | .panic m => .panic m
    | .err m => .err m
    | .ok (file1, free1) =>
      .ok { st := { s with file := file1, free := free1, index := idxDel s.index rid },
            images := [("markFreed", file1)] }

/-- `SpanFile.ReadRecord(recordID)` -/
def readRecord (s : SF) (rid : Bytes) : Outcome Span :=
  match idxGet s.index rid with
  | none => .err "record not found"
  | some off =>
    if off ≥ s.file.length then .err "offset out of bounds" else parseSpan (s.file.drop off)

/-- accumulator of `scanFile`; `patches` are the stores issued through the mapping while scanning
    (writable modes only): freeing superseded spans, giving a zero tail a FREE header -/
structure ScanAcc where
  index : List (Bytes × Nat)
  seqs : List (Bytes × Nat)
  free : List Sp
  highest : Nat
  patches : List (Nat × Bytes) := []

/-- `freeSuperseded(offset)` -/
def freeSuperseded (file : Bytes) (ro : Bool) (acc : ScanAcc) (off : Nat) : ScanAcc :=
  if ro then acc else
  match rd32At file (off + 4) with
  | none => acc
  | some len => { acc with patches := acc.patches ++ [(off, be32 freeMagic)], free := markFree acc.free off len }

/-- what `scanFile` does with a checksum-valid parsed active span found at `off` -/
def scanActive (file : Bytes) (ro : Bool) (acc : ScanAcc) (off : Nat) (seq : Nat) (rid : Bytes) : ScanAcc :=
  let highest := if seq > acc.highest then seq else acc.highest
  match idxGet acc.seqs rid with
  | none => { acc with highest := highest, seqs := idxSet acc.seqs rid seq, index := idxSet acc.index rid off }
  | some e =>
    if seq > e then
      let acc1 := match idxGet acc.index rid with
        | some old => freeSuperseded file ro acc old
        | none => acc
      { acc1 with highest := highest, seqs := idxSet acc1.seqs rid seq, index := idxSet acc1.index rid off }
    else freeSuperseded file ro { acc with highest := highest } off

/-- `scanFile` loop; `rest = file.drop off`; fuel bounds the number of spans -/
def scanLoop (file : Bytes) (ro : Bool) (fileSize : Nat) : Nat → Nat → Bytes → ScanAcc → Outcome (ScanAcc × Nat)
  | 0, off, _, acc => .ok (acc, off)
  | fuel+1, off, rest, acc =>
    if off ≥ fileSize then .ok (acc, off) else
    if off + minSpanLength > fileSize then .ok (acc, off) else
    match rd32 rest, rd32 (rest.drop 4) with
    | some magic, some len =>
      if magic = 0 then
        let patches := if ro then acc.patches
          else acc.patches ++ [(off, be32 freeMagic ++ be32 ((fileSize - off) % 4294967296))]
        .ok ({ acc with free := markFree acc.free off (fileSize - off), patches := patches }, fileSize)
      else if off + len > fileSize then .ok (acc, off)
      else if magic = activeMagic then
        let spanData := rest.take len
        if !verifyChecksum spanData then
          if len = 0 then .err "length is 0; can't continue"
          else scanLoop file ro fileSize fuel (off + len) (rest.drop len) acc
        else
          match parseSpan spanData with
          | .panic m => .panic m
          | .err _ => scanLoop file ro fileSize fuel (off + len) (rest.drop len) acc
          | .ok span =>
            let acc' := scanActive file ro acc off span.seq span.rid
            if len = 0 then .err "length is 0; can't continue"
            else scanLoop file ro fileSize fuel (off + len) (rest.drop len) acc'
      else
        let acc' := if magic = freeMagic then { acc with free := markFree acc.free off len } else acc
        if len = 0 then .err "length is 0; can't continue"
        else scanLoop file ro fileSize fuel (off + len) (rest.drop len) acc'
    | _, _ => .ok (acc, off)

def applyPatches (file : Bytes) (patches : List (Nat × Bytes)) : Bytes :=
  patches.foldl (fun f p => splice f p.1 p.2) file

/-- `scanFile`; `ro` = the file was opened `ReadOnly` (nothing is written to the mapping) -/
def scanFile (file : Bytes) (ro : Bool := false) : Outcome SF :=
  match scanLoop file ro file.length (file.length + 1) 0 file { index := [], seqs := [], free := [], highest := 0 } with
  | .ok (acc, off) =>
    .ok { file := applyPatches file acc.patches, index := acc.index, free := markFree acc.free off (file.length - off),
          seq := (acc.highest + 1) % 4294967296 }
  | .err m => .err m
  | .panic m => .panic m

inductive FileMode | createIfNotExists | readWrite | readOnly | createAndOverwrite
deriving DecidableEq, Repr

def FileMode.ofCode : Nat → Option FileMode
  | 0 => some .createIfNotExists | 1 => some .readWrite | 2 => some .readOnly | 3 => some .createAndOverwrite
  | _ => none

/-- the 15-byte span written into an empty file by `OpenFile` -/
def initialSpan : Bytes :=
  let b := serializeSpan 0 [] []
  b ++ be32 (checksum b)

/-- `OpenFile(filename, mode)`; `existing = none` when the file does not exist -/
def openFile (existing : Option Bytes) (mode : FileMode) : Outcome SF :=
  match existing, mode with
  | none, .readWrite => .err "open: no such file"
  | none, .readOnly => .err "open: no such file"
  | _, _ =>
    let before : Bytes := match mode with
      | .createAndOverwrite => []
      | _ => existing.getD []
    if before.isEmpty ∧ mode = .readOnly then .err "mmap: empty file" else
    let file := if before.isEmpty then initialSpan else before
    if !before.isEmpty ∧ before.length < 4 then .err "EOF reading magic" else
    if !before.isEmpty ∧ rd32 before ≠ some activeMagic ∧ rd32 before ≠ some freeMagic then
      .err "invalid magic number"
    else scanFile file (decide (mode = .readOnly))

end Syzgy
