import Syzgy.Model.Basic
/-!
# query/lexer.go

The Go lexer keeps `position`, `readPosition` and `ch`; `readChar` maintains
`readPosition = position + 1` and `ch = input[position]` (0 at and beyond the end), so the
state is the single number `pos`. A NUL byte in the input is indistinguishable from end of input,
exactly as in the Go code. Slices `input[a:b]` are bounds-explicit: out of range is `panic`.
-/
namespace Syzgy.Query

inductive TokType
  | identifier | string | number | boolean | null | operator | parenthesis
  | leftParen | rightParen | comma | equal | notEqual | greater | greaterEqual | less | lessEqual
  | and | or | not | in | notIn | exists | doesNotExist | contains | startsWith | endsWith | matches
  | length | any | all | eof | leftBracket | rightBracket | colon | dot | arrayStar
deriving DecidableEq, Repr

structure Token where
  type : TokType
  lit : Bytes
deriving DecidableEq, Repr

/-- `l.ch` when the lexer is at `pos` -/
def chAt (inp : ByteArray) (pos : Nat) : UInt8 := if h : pos < inp.size then inp[pos] else 0

def isLetter (c : UInt8) : Bool := (97 ≤ c && c ≤ 122) || (65 ≤ c && c ≤ 90) || c == 95
def isDigit (c : UInt8) : Bool := 48 ≤ c && c ≤ 57
def isHexDigit (c : UInt8) : Bool := isDigit c || (97 ≤ c && c ≤ 102) || (65 ≤ c && c ≤ 70)
def isWs (c : UInt8) : Bool := c == 32 || c == 9 || c == 10 || c == 13

/-- advance while `p` holds for the current character (all Go loops of this shape stop at the end
    of input because `ch = 0` there and no loop predicate accepts 0) -/
def skipWhile (inp : ByteArray) (p : UInt8 → Bool) (pos : Nat) : Nat :=
  if h : pos < inp.size then (if p inp[pos] then skipWhile inp p (pos + 1) else pos) else pos
termination_by inp.size - pos

/-- `input[a:b]` -/
def slice (inp : ByteArray) (a b : Nat) : Outcome Bytes :=
  if a ≤ b ∧ b ≤ inp.size then .ok ((inp.extract a b).toList) else .panic "slice bounds out of range"

def str (s : String) : Bytes := s.toUTF8.toList

/-- `string(byte)`: the UTF-8 encoding of the code point -/
def runeBytes (c : UInt8) : Bytes :=
  if c < 128 then [c] else [(192 + c.toNat / 64).toUInt8, (128 + c.toNat % 64).toUInt8]

def lookupIdentifier (b : Bytes) : TokType :=
  if b = b!"AND" then .and else if b = b!"OR" then .or else if b = b!"NOT" then .not
  else if b = b!"IN" then .in else if b = b!"DOES NOT EXIST" then .doesNotExist
  else if b = b!"EXISTS" then .exists else if b = b!"CONTAINS" then .contains
  else if b = b!"STARTS_WITH" then .startsWith else if b = b!"ENDS_WITH" then .endsWith
  else if b = b!"MATCHES" then .matches else if b = b!"LENGTH" then .length
  else if b = b!"ANY" then .any else if b = b!"ALL" then .all else if b = b!"null" then .null
  else if b = b!"true" ∨ b = b!"false" then .boolean else .identifier

/-- `readIdentifierOrKeyword`, started at `pos` -/
def readIdentifierOrKeyword (inp : ByteArray) (pos : Nat) : Outcome (Bytes × Nat) :=
  let idc := fun c => isLetter c || isDigit c
  let p1 := skipWhile inp idc pos
  match slice inp pos p1 with
  | .panic m => .panic m
  | .err m => .err m
  | .ok first =>
    let fallback : Outcome (Bytes × Nat) :=
      -- position reset to `pos`, then `readIdentifier` again
      let p6 := skipWhile inp idc pos
      match slice inp pos p6 with
      | .ok w => .ok (w, p6)
      | .err m => .err m
      | .panic m => .panic m
    if first = b!"DOES" ∧ chAt inp p1 = 32 then
      let p2 := p1 + 1
      if chAt inp p2 = 78 then
        let p3 := skipWhile inp isLetter p2
        match slice inp p2 p3 with
        | .panic m => .panic m
        | .err m => .err m
        | .ok w =>
          if w = b!"NOT" ∧ chAt inp p3 = 32 then
            let p4 := p3 + 1
            let p5 := skipWhile inp isLetter p4
            match slice inp p4 p5 with
            | .panic m => .panic m
            | .err m => .err m
            | .ok w2 => if w2 = b!"EXIST" then .ok (b!"DOES NOT EXIST", p5) else fallback
          else fallback
      else fallback
    else fallback

/-- digits / one dot loop of `readNumber` -/
def numLoop (inp : ByteArray) (pos : Nat) (isFloat : Bool) : Nat :=
  if h : pos < inp.size then
    let c := inp[pos]
    if isDigit c then numLoop inp (pos + 1) isFloat
    else if c == 46 && !isFloat then numLoop inp (pos + 1) true
    else pos
  else pos
termination_by inp.size - pos

/-- `readNumber`, started at `pos` -/
def readNumber (inp : ByteArray) (pos : Nat) : Outcome (Bytes × Nat) :=
  let isHex := chAt inp pos == 48 && (chAt inp (pos + 1) == 120 || chAt inp (pos + 1) == 88)
  let p1 := if isHex then skipWhile inp isHexDigit (pos + 2) else numLoop inp pos false
  let p2 :=
    if !isHex && (chAt inp p1 == 101 || chAt inp p1 == 69) then
      let q := p1 + 1
      let q := if chAt inp q == 43 || chAt inp q == 45 then q + 1 else q
      skipWhile inp isDigit q
    else p1
  match slice inp pos p2 with
  | .ok w => .ok (w, p2)
  | .err m => .err m
  | .panic m => .panic m

/-- body loop of `readString`; `pos` is the position of the character just read -/
def strLoop (inp : ByteArray) (quote : UInt8) (pos : Nat) (acc : Bytes) : Bytes × Nat :=
  if h : pos < inp.size then
    let c := inp[pos]
    if c == quote || c == 0 then (acc.reverse, pos)
    else if c == 92 then
      let e := chAt inp (pos + 1)
      let acc' :=
        if e == 110 then 10 :: acc else if e == 116 then 9 :: acc else if e == 114 then 13 :: acc
        else if e == 92 then 92 :: acc else if e == 34 then 34 :: acc
        else if e == 0 then acc else e :: 92 :: acc
      if h2 : pos + 1 < inp.size then strLoop inp quote (pos + 2) acc' else (acc'.reverse, pos + 2)
    else strLoop inp quote (pos + 1) (c :: acc)
  else (acc.reverse, pos)
termination_by inp.size - pos

/-- `readString(quote)` with the lexer standing on the opening quote at `pos` -/
def readString (inp : ByteArray) (quote : UInt8) (pos : Nat) : Bytes × Nat :=
  let (s, p) := strLoop inp quote (pos + 1) []
  if chAt inp p == quote then (s, p + 1) else (s, p)

/-- `Lexer.NextToken()` from lexer position `pos`; returns the token and the new position -/
def nextToken (inp : ByteArray) (pos : Nat) : Outcome (Token × Nat) :=
  let pos := skipWhile inp isWs pos
  let c := chAt inp pos
  let one (t : TokType) : Outcome (Token × Nat) := .ok ({ type := t, lit := runeBytes c }, pos + 1)
  let two (t : TokType) : Outcome (Token × Nat) := .ok ({ type := t, lit := runeBytes c ++ runeBytes (chAt inp (pos + 1)) }, pos + 2)
  if c == 0 then .ok ({ type := .eof, lit := [] }, pos)
  else if c == 40 then one .leftParen
  else if c == 41 then one .rightParen
  else if c == 44 then one .comma
  else if c == 61 then (if chAt inp (pos + 1) == 61 then two .equal else one .operator)
  else if c == 33 then (if chAt inp (pos + 1) == 61 then two .notEqual else .ok ({ type := .identifier, lit := [] }, pos + 1))
  else if c == 62 then (if chAt inp (pos + 1) == 61 then two .greaterEqual else one .greater)
  else if c == 60 then (if chAt inp (pos + 1) == 61 then two .lessEqual else one .less)
  else if c == 91 then
    (if chAt inp (pos + 1) == 42 && chAt inp (pos + 2) == 93 then .ok ({ type := .arrayStar, lit := b!"[*]" }, pos + 3)
     else one .leftBracket)
  else if c == 93 then one .rightBracket
  else if c == 58 then one .colon
  else if c == 46 then one .dot
  else if c == 34 || c == 39 then
    let (s, p) := readString inp c pos
    .ok ({ type := .string, lit := s }, p)
  else if isLetter c then
    match readIdentifierOrKeyword inp pos with
    | .ok (w, p) => .ok ({ type := lookupIdentifier w, lit := w }, p)
    | .err m => .err m
    | .panic m => .panic m
  else if isDigit c then
    match readNumber inp pos with
    | .ok (w, p) => .ok ({ type := .number, lit := w }, p)
    | .err m => .err m
    | .panic m => .panic m
  else one .operator

/-- all tokens up to and including EOF (used by the `lex` correspondence stream) -/
def lexAll (inp : ByteArray) : Nat → Nat → List Token → Outcome (List Token)
  | 0, _, acc => .ok acc.reverse
  | fuel+1, pos, acc =>
    match nextToken inp pos with
    | .ok (t, p) => if t.type = .eof then .ok (t :: acc).reverse else lexAll inp fuel p (t :: acc)
    | .err m => .err m
    | .panic m => .panic m

end Syzgy.Query
