import Syzgy.Model.Query.Parser
/-!
# query/compiler.go — `CompileExpression`, `evaluateOperation`, `evaluateFunction`,
`CreateFilterFunction`, and `BuildFilter`'s wrapper (errors reject).

Numbers are an abstract type `N` with the operations the evaluator uses (`NumOps`); the
driver instantiates it with binary64. Regular expressions are an oracle.
-/
namespace Syzgy.Query

structure NumOps (N : Type) where
  eq : N → N → Bool
  lt : N → N → Bool
  ofNat : Nat → N
  ofInt : Int → N
  roundToInt : N → Int          -- `int(math.Round(x))`
  truncToInt : N → Int          -- `int64(x)`
  parse : Bytes → N             -- `strconv.ParseFloat(lit, 64)` on accepted literals

/-- run-time values of the evaluator (`interface{}`): JSON values plus Go `int` (from LENGTH) -/
inductive J (N : Type)
  | null
  | bool (b : Bool)
  | num (n : N)
  | int (i : Int)
  | str (s : Bytes)
  | arr (l : List (J N))
  | obj (kvs : List (Bytes × J N))

variable {N : Type}

mutual
/-- `reflect.DeepEqual` on evaluator values -/
def deepEq (ops : NumOps N) : J N → J N → Bool
  | .null, .null => true
  | .bool a, .bool b => a == b
  | .num a, .num b => ops.eq a b
  | .int a, .int b => a == b
  | .str a, .str b => a == b
  | .arr a, .arr b => deepEqList ops a b
  | .obj a, .obj b => a.length == b.length && deepEqObj ops a b
  | _, _ => false
def deepEqList (ops : NumOps N) : List (J N) → List (J N) → Bool
  | [], [] => true
  | a :: as, b :: bs => deepEq ops a b && deepEqList ops as bs
  | _, _ => false
/-- every key of `a` is in `b` with a deep-equal value (keys are unique, lengths equal) -/
def deepEqObj (ops : NumOps N) : List (Bytes × J N) → List (Bytes × J N) → Bool
  | [], _ => true
  | (k, v) :: rest, b =>
    (match lookupKey k b with
     | some w => deepEq ops v w
     | none => false) && deepEqObj ops rest b
def lookupKey : Bytes → List (Bytes × J N) → Option (J N)
  | _, [] => none
  | k, (k', v) :: rest => if k = k' then some v else lookupKey k rest
end

def bytesLt : Bytes → Bytes → Bool
  | [], [] => false
  | [], _ :: _ => true
  | _ :: _, [] => false
  | a :: r, b :: s => if a < b then true else if b < a then false else bytesLt r s

def isInfix (needle : Bytes) : Bytes → Bool
  | [] => needle.isEmpty
  | h@(_ :: t) => needle.isPrefixOf h || isInfix needle t

/-- regular-expression oracle: `regexp.MatchString(pattern, s)`; `none` = invalid pattern -/
abbrev RegexOracle := Bytes → Bytes → Option Bool

def cmpOp (op : Bytes) (lt eq : Bool) : Option Bool :=
  if op = b!">" then some (!lt && !eq) else if op = b!">=" then some (!lt)
  else if op = b!"<" then some lt else if op = b!"<=" then some (lt || eq) else none

/-- `compareValues` -/
def compareValues (ops : NumOps N) (op : Bytes) (l r : J N) : Except String (J N) :=
  match l with
  | .int a =>
    let rb : Option Int := match r with
      | .int b => some b
      | .num b => some (ops.truncToInt b)
      | _ => none
    match rb with
    | some b => match cmpOp op (decide (a < b)) (decide (a = b)) with
      | some v => .ok (.bool v)
      | none => .error "unsupported comparison"
    | none => .error "cannot convert to int64"
  | .num a =>
    let rb : Option N := match r with
      | .num b => some b
      | .int b => some (ops.ofInt b)
      | _ => none
    match rb with
    | some b => match cmpOp op (ops.lt a b) (ops.eq a b) with
      | some v => .ok (.bool v)
      | none => .error "unsupported comparison"
    | none => .error "cannot convert to float64"
  | .str a =>
    match r with
    | .str b => match cmpOp op (bytesLt a b) (a == b) with
      | some v => .ok (.bool v)
      | none => .error "unsupported comparison"
    | _ => .error "cannot compare string with non-string"
  | _ => .error "unsupported comparison"

def strOp (f : Bytes → Bytes → Bool) (l r : J N) : Except String (J N) :=
  match l, r with
  | .str a, .str b => .ok (.bool (f a b))
  | _, _ => .error "operation requires string operands"

def toFloat (ops : NumOps N) : J N → Option N
  | .num n => some n
  | .int i => some (ops.ofInt i)
  | _ => none

/-- `evaluateOperation(operator, left, right)` -/
def evaluateOperation (ops : NumOps N) (rx : RegexOracle) (op : Bytes) (l r : J N) : Except String (J N) :=
  if op = b!"==" then .ok (.bool (deepEq ops l r))
  else if op = b!"!=" then .ok (.bool (!deepEq ops l r))
  else if op = b!">" ∨ op = b!">=" ∨ op = b!"<" ∨ op = b!"<=" then compareValues ops op l r
  else if op = b!"AND" then
    match l, r with
    | .bool a, .bool b => .ok (.bool (a && b))
    | _, _ => .error "AND operation requires boolean operands"
  else if op = b!"OR" then
    match l with
    | .bool true => .ok (.bool true)
    | .bool false => match r with
      | .bool b => .ok (.bool b)
      | _ => .error "OR operation requires boolean operands"
    | _ => .error "OR operation requires boolean operands"
  else if op = b!"NOT" then
    match r with
    | .bool b => .ok (.bool (!b))
    | _ => .error "NOT operation requires a boolean operand"
  else if op = b!"IN" then
    match r with
    | .arr items => .ok (.bool (items.any (deepEq ops l)))
    | _ => .error "IN operator requires a list on the right side"
  else if op = b!"NOT_IN" then
    match r with
    | .arr items => .ok (.bool (!items.any (deepEq ops l)))
    | _ => .error "IN operator requires a list on the right side"
  else if op = b!"CONTAINS" then strOp (fun a b => isInfix b a) l r
  else if op = b!"STARTS_WITH" then strOp (fun a b => b.isPrefixOf a) l r
  else if op = b!"ENDS_WITH" then strOp (fun a b => b.reverse.isPrefixOf a.reverse) l r
  else if op = b!"MATCHES" then
    match l, r with
    | .str a, .str b => match rx b a with
      | some m => .ok (.bool m)
      | none => .error "invalid regex pattern"
    | _, _ => .error "MATCHES operation requires string operands"
  else if op = b!"." then
    match l with
    | .obj kvs => match r with
      | .str k => match lookupKey k kvs with
        | some v => .ok v
        | none => .error "key not found in map"
      | _ => .error "right operand of '.' must be a string identifier"
    | .arr items => match r with
      | .str k => if k = b!"length" then .ok (.num (ops.ofNat items.length)) else .error "invalid operation on array"
      | _ => .error "right operand of '.' must be a string identifier"
    | _ => .error "left operand of '.' must be a map or array"
  else if op = b!"[]" then
    match l with
    | .arr items => match toFloat ops r with
      | some f =>
        let i := ops.roundToInt f
        if i < 0 ∨ i ≥ items.length then .ok .null else
        match items[i.toNat]? with
        | some v => .ok v
        | none => .ok .null
      | none => .error "right operand of '[]' must be a number"
    | _ => .error "left operand of '[]' must be an array"
  else .error "unsupported operator"

def valueOf (ops : NumOps N) : Value → J N
  | .str s => .str s
  | .num lit => .num (ops.parse lit)
  | .bool b => .bool b
  | .null => .null

/-- the field name when the right operand of `.` is an identifier node -/
def dotName : Node → Option Bytes
  | .ident name => some name
  | _ => none

mutual
/-- `resolvePath(node, data)`: the value at a path and whether the path is present -/
def resolvePath (ops : NumOps N) (rx : RegexOracle) (data : J N) : Node → Option (J N)
  | .ident name =>
    match data with
    | .obj kvs => lookupKey name kvs
    | _ => none
  | .expr l op r =>
    if op = b!"." then
      match resolvePath ops rx data l with
      | none => none
      | some lv =>
        match dotName r with
        | some field =>
          match lv with
          | .obj kvs => lookupKey field kvs
          | .arr items => if field = b!"length" then some (.num (ops.ofNat items.length)) else none
          | _ => none
        | none => none
    else if op = b!"[]" then
      match resolvePath ops rx data l with
      | none => none
      | some lv =>
        match lv with
        | .arr items =>
          match eval ops rx data r with
          | .ok iv =>
            match toFloat ops iv with
            | some f =>
              let i := ops.roundToInt f
              if i < 0 ∨ i ≥ items.length then none else items[i.toNat]?
            | none => none
          | .error _ => none
        | _ => none
    else
      match eval ops rx data (.expr l op r) with
      | .ok v => some v
      | .error _ => none
  | n =>
    match eval ops rx data n with
    | .ok v => some v
    | .error _ => none
termination_by n => (sizeOf n, 1)

/-- the closure returned by `CompileExpression(node)` applied to `data` -/
def eval (ops : NumOps N) (rx : RegexOracle) (data : J N) : Node → Except String (J N)
  | .expr l op r =>
    match eval ops rx data l with
    | .error e => .error e
    | .ok lv =>
      let rv : Except String (J N) :=
        if op = b!"." then
          match dotName r with
          | some name => .ok (.str name)
          | none => .error "right side of '.' must be an identifier"
        else eval ops rx data r
      match rv with
      | .error e => .error e
      | .ok rv => evaluateOperation ops rx op lv rv
  | .not r =>
    match eval ops rx data r with
    | .error e => .error e
    | .ok rv => evaluateOperation ops rx b!"NOT" .null rv
  | .ident name =>
    match data with
    | .obj kvs => .ok ((lookupKey name kvs).getD .null)
    | .arr _ => .error "cannot use dot notation on array"
    | _ => .error "cannot access field"
  | .value v => .ok (valueOf ops v)
  | .func name args =>
    if name = b!"EXISTS" ∨ name = b!"DOES_NOT_EXIST" then
      match args with
      | .cons a .nil =>
        let present := (resolvePath ops rx data a).isSome
        .ok (.bool (if name = b!"EXISTS" then present else !present))
      | _ => .error "function requires exactly one argument"
    else if name = b!"LENGTH" then
      match args with
      | .cons a .nil =>
        match eval ops rx data a with
        | .error e => .error e
        | .ok (.str s) => .ok (.int s.length)
        | .ok (.arr l) => .ok (.int l.length)
        | .ok (.obj kvs) => .ok (.int kvs.length)
        | .ok _ => .error "LENGTH function not supported for type"
      | _ => .error "LENGTH function requires exactly one argument"
    else .error "unsupported function"
  | .param name =>
    match data with
    | .obj kvs => match lookupKey name kvs with
      | some v => .ok v
      | none => .error "parameter not provided"
    | _ => .error "parameters not provided"
  | .array elems => .ok (.arr (elems.map (valueOf ops)))
termination_by n => (sizeOf n, 0)
end

/-- the `FilterFn` built by `BuildFilter`: `data = none` when the metadata is not valid JSON -/
def applyFilter (ops : NumOps N) (rx : RegexOracle) (ast : Node) (data : Option (J N)) : Bool :=
  match data with
  | none => false
  | some d =>
    match eval ops rx d ast with
    | .ok (.bool b) => b
    | _ => false

end Syzgy.Query
