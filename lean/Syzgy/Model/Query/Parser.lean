import Syzgy.Model.Query.Lexer
/-!
# query/parser.go — recursive descent with one token of look-ahead, tokens pulled lazily

Every function takes `fuel` (structural recursion); `.err "fuel"` is a distinguished outcome that
the theorems show / the correspondence observes never to occur for `fuel = parseFuel input`.
-/
namespace Syzgy.Query

inductive Value
  | str (b : Bytes)
  | num (lit : Bytes)      -- the literal text; its float64 value is `strconv.ParseFloat` (oracle)
  | bool (b : Bool)
  | null
deriving DecidableEq, Repr

mutual
inductive Node
  | expr (left : Node) (op : Bytes) (right : Node)
  | not (right : Node)                       -- ExpressionNode{Left: nil, Operator: "NOT"}
  | ident (name : Bytes)
  | value (v : Value)
  | func (name : Bytes) (args : NodeList)
  | param (name : Bytes)
  | array (elems : List Value)
inductive NodeList
  | nil
  | cons (h : Node) (t : NodeList)
end

def NodeList.toList : NodeList → List Node
  | .nil => []
  | .cons h t => h :: t.toList

def NodeList.ofList : List Node → NodeList
  | [] => .nil
  | h :: t => .cons h (NodeList.ofList t)

/-- a token source: lexer position ↦ next token and new position (`Lexer.NextToken`) -/
abbrev TokSrc := Nat → Outcome (Token × Nat)

structure PS where
  cur : Token
  peek : Token
  pos : Nat          -- lexer position after `peek`

/-- `Parser.nextToken()` -/
def advance (nx : TokSrc) (s : PS) : Outcome PS :=
  match nx s.pos with
  | .ok (t, p) => .ok { cur := s.peek, peek := t, pos := p }
  | .err m => .err m
  | .panic m => .panic m

/-- `NewParser(lexer)` -/
def newParser (nx : TokSrc) : Outcome PS := do
  let eofTok : Token := { type := .identifier, lit := [] }   -- zero Token
  let s0 : PS := { cur := eofTok, peek := eofTok, pos := 0 }
  let s1 ← advance nx s0
  advance nx s1

def isComparisonOperator (t : TokType) : Bool :=
  t == .equal || t == .notEqual || t == .greater || t == .greaterEqual || t == .less || t == .lessEqual ||
  t == .in || t == .notIn || t == .contains || t == .startsWith || t == .endsWith || t == .matches ||
  t == .exists || t == .doesNotExist

/-- validity oracle for number literals: `strconv.ParseFloat(lit, 64)` succeeds -/
abbrev NumOK := Bytes → Bool

def expect (nx : TokSrc) (s : PS) (t : TokType) (msg : String) : Outcome PS :=
  if s.cur.type = t then advance nx s else .err msg

def parseNumber (nx : TokSrc) (nok : NumOK) (s : PS) : Outcome (Node × PS) :=
  if nok s.cur.lit then do
    let s' ← advance nx s
    pure (.value (.num s.cur.lit), s')
  else .err "could not parse number"

/-- `parseArrayElement` / element loop of `parseArrayLiteral` -/
def parseArrayElems (nx : TokSrc) (nok : NumOK) : Nat → PS → List Value → Outcome (List Value × PS)
  | 0, _, _ => .err "fuel"
  | fuel+1, s, acc =>
    -- parse one element
    let one : Outcome (Value × PS) :=
      if s.cur.type = .number then
        (if nok s.cur.lit then do let s' ← advance nx s; pure (.num s.cur.lit, s') else .err "could not parse number")
      else if s.cur.type = .string then do let s' ← advance nx s; pure (.str s.cur.lit, s')
      else .err "expected number or string in array"
    match one with
    | .err m => .err m
    | .panic m => .panic m
    | .ok (v, s1) =>
      if s1.cur.type = .comma then
        match advance nx s1 with
        | .ok s2 => parseArrayElems nx nok fuel s2 (v :: acc)
        | .err m => .err m
        | .panic m => .panic m
      else .ok ((v :: acc).reverse, s1)

/-- `parseArrayLiteral` (current token is `[`) -/
def parseArrayLiteral (nx : TokSrc) (nok : NumOK) (fuel : Nat) (s : PS) : Outcome (Node × PS) := do
  let s1 ← advance nx s
  let (elems, s2) ← (if s1.cur.type ≠ .rightBracket then parseArrayElems nx nok fuel s1 [] else pure ([], s1))
  let s3 ← expect nx s2 .rightBracket "expected ']'"
  pure (.array elems, s3)

/-- `parseIn(expr)` -/
def parseIn (nx : TokSrc) (nok : NumOK) (fuel : Nat) (e : Node) (s : PS) : Outcome (Node × PS) := do
  let op := s.cur.type
  let s1 ← advance nx s
  let (isNotIn, s2) ← (if op = .not ∧ s1.cur.type = .in then do let s' ← advance nx s1; pure (true, s') else pure (false, s1))
  if s2.cur.type ≠ .leftBracket then .err "expected '[' after IN/NOT IN" else
  let (arr, s3) ← parseArrayLiteral nx nok fuel s2
  pure (.expr e (if isNotIn then b!"NOT_IN" else b!"IN") arr, s3)

mutual
/-- `parseOr` (= `parseExpression`, = `Parse` up to the end-of-input check) -/
def parseOr (nx : TokSrc) (nok : NumOK) : Nat → PS → Outcome (Node × PS)
  | 0, _ => .err "fuel"
  | fuel+1, s =>
    match parseAnd nx nok fuel s with
    | .ok (l, s1) => orLoop nx nok fuel l s1
    | e => e

def orLoop (nx : TokSrc) (nok : NumOK) : Nat → Node → PS → Outcome (Node × PS)
  | 0, _, _ => .err "fuel"
  | fuel+1, l, s =>
    if s.cur.type = .or then
      match advance nx s with
      | .ok s1 =>
        match parseAnd nx nok fuel s1 with
        | .ok (r, s2) => orLoop nx nok fuel (.expr l b!"OR" r) s2
        | e => e
      | .err m => .err m
      | .panic m => .panic m
    else .ok (l, s)

def parseAnd (nx : TokSrc) (nok : NumOK) : Nat → PS → Outcome (Node × PS)
  | 0, _ => .err "fuel"
  | fuel+1, s =>
    match parseComparison nx nok fuel s with
    | .ok (l, s1) => andLoop nx nok fuel l s1
    | e => e

def andLoop (nx : TokSrc) (nok : NumOK) : Nat → Node → PS → Outcome (Node × PS)
  | 0, _, _ => .err "fuel"
  | fuel+1, l, s =>
    if s.cur.type = .and then
      match advance nx s with
      | .ok s1 =>
        match parseComparison nx nok fuel s1 with
        | .ok (r, s2) => andLoop nx nok fuel (.expr l b!"AND" r) s2
        | e => e
      | .err m => .err m
      | .panic m => .panic m
    else .ok (l, s)

def parseComparison (nx : TokSrc) (nok : NumOK) : Nat → PS → Outcome (Node × PS)
  | 0, _ => .err "fuel"
  | fuel+1, s =>
    match parseNot nx nok fuel s with
    | .ok (l, s1) =>
      if isComparisonOperator s1.cur.type then
        match advance nx s1 with
        | .ok s2 =>
          match parseNot nx nok fuel s2 with
          | .ok (r, s3) => .ok (.expr l s1.cur.lit r, s3)
          | e => e
        | .err m => .err m
        | .panic m => .panic m
      else .ok (l, s1)
    | e => e

def parseNot (nx : TokSrc) (nok : NumOK) : Nat → PS → Outcome (Node × PS)
  | 0, _ => .err "fuel"
  | fuel+1, s =>
    if s.cur.type = .not then
      match advance nx s with
      | .ok s1 =>
        match parsePrimary nx nok fuel s1 with
        | .ok (e, s2) => .ok (.not e, s2)
        | e => e
      | .err m => .err m
      | .panic m => .panic m
    else parsePrimary nx nok fuel s

def parsePrimary (nx : TokSrc) (nok : NumOK) : Nat → PS → Outcome (Node × PS)
  | 0, _ => .err "fuel"
  | fuel+1, s =>
    match s.cur.type with
    | .identifier => parseIdentifierOrFunction nx nok fuel s
    | .number => parseNumber nx nok s
    | .string =>
      match advance nx s with
      | .ok s1 => .ok (.value (.str s.cur.lit), s1)
      | .err m => .err m
      | .panic m => .panic m
    | .boolean =>
      match advance nx s with
      | .ok s1 => .ok (.value (.bool (s.cur.lit == b!"true")), s1)
      | .err m => .err m
      | .panic m => .panic m
    | .null =>
      match advance nx s with
      | .ok s1 => .ok (.value .null, s1)
      | .err m => .err m
      | .panic m => .panic m
    | .leftParen =>
      match advance nx s with
      | .ok s1 =>
        match parseOr nx nok fuel s1 with
        | .ok (e, s2) =>
          match expect nx s2 .rightParen "expected ')'" with
          | .ok s3 => .ok (e, s3)
          | .err m => .err m
          | .panic m => .panic m
        | e => e
      | .err m => .err m
      | .panic m => .panic m
    | .leftBracket => parseArrayLiteral nx nok fuel s
    | .colon =>
      match advance nx s with
      | .ok s1 =>
        if s1.cur.type = .identifier then
          match advance nx s1 with
          | .ok s2 => .ok (.param s1.cur.lit, s2)
          | .err m => .err m
          | .panic m => .panic m
        else .err "expected identifier after ':'"
      | .err m => .err m
      | .panic m => .panic m
    | _ => .err "unexpected token"

def parseIdentifierOrFunction (nx : TokSrc) (nok : NumOK) : Nat → PS → Outcome (Node × PS)
  | 0, _ => .err "fuel"
  | fuel+1, s =>
    -- parseIdentifier: the current token is an identifier (checked by the caller's switch)
    match advance nx s with
    | .ok s1 =>
      match accessLoop nx nok fuel (.ident s.cur.lit) s1 with
      | .ok (e, s2) =>
        if s2.cur.type = .in ∨ s2.cur.type = .not then parseIn nx nok fuel e s2
        else if s2.cur.type = .leftParen then parseFunction nx nok fuel e s2
        else if s2.cur.type = .exists then
          match advance nx s2 with
          | .ok s3 => .ok (.func b!"EXISTS" (.cons e .nil), s3)
          | .err m => .err m
          | .panic m => .panic m
        else if s2.cur.type = .doesNotExist then
          match advance nx s2 with
          | .ok s3 => .ok (.func b!"DOES_NOT_EXIST" (.cons e .nil), s3)
          | .err m => .err m
          | .panic m => .panic m
        else .ok (e, s2)
      | e => e
    | .err m => .err m
    | .panic m => .panic m

/-- the `[index]` / `.field` loop of `parseArrayAccessOrIdentifier` -/
def accessLoop (nx : TokSrc) (nok : NumOK) : Nat → Node → PS → Outcome (Node × PS)
  | 0, _, _ => .err "fuel"
  | fuel+1, e, s =>
    if s.cur.type = .leftBracket then
      match advance nx s with
      | .ok s1 =>
        match parseOr nx nok fuel s1 with
        | .ok (ix, s2) =>
          match expect nx s2 .rightBracket "expected ']'" with
          | .ok s3 => accessLoop nx nok fuel (.expr e b!"[]" ix) s3
          | .err m => .err m
          | .panic m => .panic m
        | e => e
      | .err m => .err m
      | .panic m => .panic m
    else if s.cur.type = .dot then
      match advance nx s with
      | .ok s1 =>
        if s1.cur.type = .identifier then
          match advance nx s1 with
          | .ok s2 => accessLoop nx nok fuel (.expr e b!"." (.ident s1.cur.lit)) s2
          | .err m => .err m
          | .panic m => .panic m
        else .err "expected identifier after '.'"
      | .err m => .err m
      | .panic m => .panic m
    else .ok (e, s)

/-- `parseFunction(expr)` (current token is `(`) -/
def parseFunction (nx : TokSrc) (nok : NumOK) : Nat → Node → PS → Outcome (Node × PS)
  | 0, _, _ => .err "fuel"
  | fuel+1, e, s =>
    match advance nx s with
    | .ok s1 =>
      match e with
      | .ident name =>
        if s1.cur.type ≠ .rightParen then
          match parseOr nx nok fuel s1 with
          | .ok (a, s2) =>
            match argLoop nx nok fuel [a] s2 with
            | .ok (args, s3) =>
              match expect nx s3 .rightParen "expected ')' after function arguments" with
              | .ok s4 => .ok (.func name (NodeList.ofList args), s4)
              | .err m => .err m
              | .panic m => .panic m
            | .err m => .err m
            | .panic m => .panic m
          | .err m => .err m
          | .panic m => .panic m
        else
          match advance nx s1 with
          | .ok s2 => .ok (.func name .nil, s2)
          | .err m => .err m
          | .panic m => .panic m
      | _ => .err "expected function name"
    | .err m => .err m
    | .panic m => .panic m

def argLoop (nx : TokSrc) (nok : NumOK) : Nat → List Node → PS → Outcome (List Node × PS)
  | 0, _, _ => .err "fuel"
  | fuel+1, acc, s =>
    if s.cur.type = .comma then
      match advance nx s with
      | .ok s1 =>
        match parseOr nx nok fuel s1 with
        | .ok (a, s2) => argLoop nx nok fuel (acc ++ [a]) s2
        | .err m => .err m
        | .panic m => .panic m
      | .err m => .err m
      | .panic m => .panic m
    else .ok (acc, s)
end

def parseFuel (size : Nat) : Nat := 16 * size + 64

/-- `Parser.Parse()` on a parser over token source `nx` -/
def parseSrc (nx : TokSrc) (nok : NumOK) (fuel : Nat) : Outcome Node :=
  match newParser nx with
  | .ok s =>
    match parseOr nx nok fuel s with
    | .ok (e, s1) => if s1.cur.type = .eof then .ok e else .err "unexpected token after expression"
    | .err m => .err m
    | .panic m => .panic m
  | .err m => .err m
  | .panic m => .panic m

/-- `Parser.Parse()` on `NewParser(NewLexer(input))` -/
def parse (inp : ByteArray) (nok : NumOK) : Outcome Node :=
  parseSrc (nextToken inp) nok (parseFuel inp.size)

end Syzgy.Query
