import Syzgy.Model.Basic
/-!
# collection.go `Search`: the `consider` callback, exact K-nearest / radius scan, listing pages

Distances are `Nat`: the float64 bit pattern of a non-negative, non-NaN distance (bit patterns of
non-negative doubles are ordered like their values). The result heap (`container/heap` with
`Less = Priority >`) is an abstract max-priority queue, modelled as a list kept in descending
order; which of several equal maxima `Pop` removes is not specified by the model's theorems
(ties at the cut-off may be broken either way).
-/
namespace Syzgy

structure Cand where
  id : Nat
  dist : Nat
  acc : Bool        -- filter accepts the document
deriving DecidableEq, Repr

def insDesc (x : Cand) : List Cand → List Cand
  | [] => [x]
  | a :: r => if a.dist ≤ x.dist then x :: a :: r else a :: insDesc x r

def topGt (h : List Cand) (d : Nat) : Bool :=
  match h with
  | [] => false
  | top :: _ => decide (top.dist > d)

/-- K branch of `consider` (`args.K > 0`, no radius) for an accepted document:
    `if Len <= K { if Len < K || pq[0].Priority > distance { Push; if Len > K { Pop } } }` -/
def considerK (K : Nat) (h : List Cand) (c : Cand) : List Cand :=
  if !c.acc then h
  else if h.length ≤ K then
    if decide (h.length < K) || topGt h c.dist then
      let h' := insDesc c h
      if h'.length > K then h'.tail else h'
    else h
  else h

/-- radius branch of `consider` (`args.Radius > 0`) -/
def considerR (R : Nat) (h : List Cand) (c : Cand) : List Cand :=
  if c.acc && decide (c.dist ≤ R) then insDesc c h else h

/-- exact K-nearest: scan in visiting order, read the heap out back to front -/
def exactKnn (K : Nat) (cands : List Cand) : List Cand := (cands.foldl (considerK K) []).reverse

def exactRadius (R : Nat) (cands : List Cand) : List Cand := (cands.foldl (considerR R) []).reverse

/-- listing branch (`K = 0 ∧ Radius = 0`): sorted ids with their accept bits -/
def listLoop (off lim : Nat) : List (Nat × Bool) → Nat → List Nat → List Nat
  | [], _, out => out.reverse
  | (id, ok) :: rest, seen, out =>
    if !ok then listLoop off lim rest seen out
    else
      let seen := seen + 1
      if off > 0 ∧ seen ≤ off then listLoop off lim rest seen out
      else
        let out := id :: out
        if lim > 0 ∧ out.length ≥ lim then out.reverse else listLoop off lim rest seen out

def listing (off lim : Nat) (items : List (Nat × Bool)) : List Nat := listLoop off lim items 0 []

end Syzgy
