import Syzgy.Spec.Filter
/-!
# Driver commands for the query language (lex / filter / denote)

Wire encodings (no spaces inside a field; items separated by `;`):
* JSON value, prefix form: `n` `t` `f` `d<16 hex digits of the float64 bits>` `s<hex>`
  `a<count>;item…` `o<count>;<keyhex>;value;…`; the word `INVALID` = metadata is not JSON.
* number table `lithex=bits|lithex=x,…` (`x` = `ParseFloat` fails), regex table
  `pathex:subjecthex=t|f|x,…`; `-` = empty.
* expression, prefix form, see `decExpr`.
-/
namespace Syzgy.Query

def hexNat (s : String) : Option Nat :=
  s.toList.foldl (fun acc c => match acc, hexVal c with
    | some v, some d => some (v * 16 + d)
    | _, _ => none) (some 0)

def fbits (s : String) : Option Float := (hexNat s).map fun n => Float.ofBits n.toUInt64

def floatOps (numtab : List (Bytes × Option Float)) : NumOps Float where
  eq := fun a b => a == b
  lt := fun a b => a < b
  ofNat := Float.ofNat
  ofInt := Float.ofInt
  roundToInt := fun x =>
    let r := x.round
    if r.isNaN || r >= 9223372036854775808.0 || r < -9223372036854775808.0 then -9223372036854775808
    else r.toInt64.toInt
  truncToInt := fun x =>
    if x.isNaN || x >= 9223372036854775808.0 || x < -9223372036854775808.0 then -9223372036854775808
    else x.toInt64.toInt
  parse := fun lit => match numtab.find? (fun e => e.1 == lit) with
    | some (_, some f) => f
    | _ => 0.0

def decNumTab (s : String) : Option (List (Bytes × Option Float)) :=
  if s = "-" then some [] else
  (s.splitOn ",").mapM fun e =>
    match e.splitOn "=" with
    | [k, v] => do
      let kb ← ofHex k
      if v = "x" then pure (kb, none) else do
        let f ← fbits v
        pure (kb, some f)
    | _ => none

def decRxTab (s : String) : Option (List (Bytes × Bytes × Option Bool)) :=
  if s = "-" then some [] else
  (s.splitOn ",").mapM fun e =>
    match e.splitOn "=" with
    | [k, v] =>
      match k.splitOn ":" with
      | [p, subj] => do
        let pb ← ofHex p
        let sb ← ofHex subj
        let r : Option Bool := if v = "t" then some true else if v = "f" then some false else none
        pure (pb, sb, r)
      | _ => none
    | _ => none

def rxOracle (tab : List (Bytes × Bytes × Option Bool)) : RegexOracle := fun p s =>
  match tab.find? (fun e => e.1 == p && e.2.1 == s) with
  | some (_, _, r) => r
  | none => none

/-- decode one JSON value from the item list -/
def decJ : Nat → List String → Option (J Float × List String)
  | 0, _ => none
  | _, [] => none
  | fuel+1, t :: rest =>
    if t = "n" then some (.null, rest)
    else if t = "t" then some (.bool true, rest)
    else if t = "f" then some (.bool false, rest)
    else
      let tag := t.take 1
      let body := (t.drop 1).toString
      if tag == "d" then (fbits body).map fun f => (.num f, rest)
      else if tag == "s" then (ofHex (if body = "" then "-" else body)).map fun b => (.str b, rest)
      else if tag == "a" then
        match body.toNat? with
        | none => none
        | some n =>
          let rec items (k : Nat) (fuel2 : Nat) (rest : List String) (acc : List (J Float)) : Option (List (J Float) × List String) :=
            match k, fuel2 with
            | 0, _ => some (acc.reverse, rest)
            | _, 0 => none
            | k+1, f2+1 => match decJ fuel rest with
              | some (v, r) => items k f2 r (v :: acc)
              | none => none
          (items n (n + 1) rest []).map fun (l, r) => (.arr l, r)
      else if tag == "o" then
        match body.toNat? with
        | none => none
        | some n =>
          let rec kvs (k : Nat) (fuel2 : Nat) (rest : List String) (acc : List (Bytes × J Float)) : Option (List (Bytes × J Float) × List String) :=
            match k, fuel2, rest with
            | 0, _, rest => some (acc.reverse, rest)
            | _, 0, _ => none
            | _, _, [] => none
            | k+1, f2+1, key :: r1 =>
              match ofHex (if key = "" then "-" else key), decJ fuel r1 with
              | some kb, some (v, r2) => kvs k f2 r2 ((kb, v) :: acc)
              | _, _ => none
          (kvs n (n + 1) rest []).map fun (l, r) => (.obj l, r)
      else none

def decDoc (s : String) : Option (Option (J Float)) :=
  if s = "INVALID" then some none else
  match decJ 10000 (s.splitOn ";") with
  | some (v, []) => some (some v)
  | _ => none

def decBytes (s : String) : Option Bytes := ofHex (if s = "" then "-" else s)

/-- path: `F<hex>` | `D;<path>;<hex>` | `I;<path>;<lithex>` | `L;<path>` -/
def decPath : Nat → List String → Option (Path × List String)
  | 0, _ => none
  | _, [] => none
  | fuel+1, t :: rest =>
    if t.take 1 == "F" then (decBytes (t.drop 1).toString).map fun b => (.field b, rest)
    else if t = "D" then
      match decPath fuel rest with
      | some (p, k :: r) => (decBytes k).map fun b => (.dot p b, r)
      | _ => none
    else if t = "I" then
      match decPath fuel rest with
      | some (p, k :: r) => (decBytes k).map fun b => (.index p b, r)
      | _ => none
    else if t = "L" then (decPath fuel rest).map fun (p, r) => (.length p, r)
    else none

/-- literal: `N<lithex>` | `S<hex>` | `T` | `U` (false) | `Z` (null) -/
def decLit (t : String) : Option Lit :=
  if t = "T" then some (.bool true) else if t = "U" then some (.bool false) else if t = "Z" then some .null
  else if t.take 1 == "N" then (decBytes (t.drop 1).toString).map .num
  else if t.take 1 == "S" then (decBytes (t.drop 1).toString).map .str
  else none

def decCmp (t : String) : Option Cmp :=
  if t = "eq" then some .eq else if t = "ne" then some .ne else if t = "lt" then some .lt
  else if t = "le" then some .le else if t = "gt" then some .gt else if t = "ge" then some .ge else none

def decStrOp (t : String) : Option StrOp :=
  if t = "contains" then some .contains else if t = "startswith" then some .startsWith
  else if t = "endswith" then some .endsWith else if t = "matches" then some .matches else none

def takeLits : Nat → List String → List Lit → Option (List Lit × List String)
  | 0, rest, acc => some (acc.reverse, rest)
  | _+1, [], _ => none
  | k+1, t :: rest, acc => match decLit t with
    | some l => takeLits k rest (l :: acc)
    | none => none

/-- expression: `C;<cmp>;<path>;<lit>` | `O;<strop>;<path>;<hex>` | `IN;<path>;<n>;lits…` |
    `NI;…` | `E;<path>` | `X;<path>` | `A;e;e` | `R;e;e` | `!;e` -/
def decExpr : Nat → List String → Option (Expr × List String)
  | 0, _ => none
  | _, [] => none
  | fuel+1, t :: rest =>
    if t = "C" then
      match rest with
      | c :: r1 => match decCmp c, decPath 1000 r1 with
        | some op, some (p, l :: r2) => (decLit l).map fun lit => (.cmp op p lit, r2)
        | _, _ => none
      | _ => none
    else if t = "O" then
      match rest with
      | c :: r1 => match decStrOp c, decPath 1000 r1 with
        | some op, some (p, l :: r2) => (decBytes l).map fun s => (.strop op p s, r2)
        | _, _ => none
      | _ => none
    else if t = "IN" ∨ t = "NI" then
      match decPath 1000 rest with
      | some (p, n :: r1) => match n.toNat? with
        | some k => (takeLits k r1 []).map fun (ls, r2) => ((if t = "IN" then .inList p ls else .notInList p ls), r2)
        | none => none
      | _ => none
    else if t = "E" then (decPath 1000 rest).map fun (p, r) => (.exists p, r)
    else if t = "X" then (decPath 1000 rest).map fun (p, r) => (.notExists p, r)
    else if t = "A" ∨ t = "R" then
      match decExpr fuel rest with
      | some (a, r1) => match decExpr fuel r1 with
        | some (b, r2) => some ((if t = "A" then .and a b else .or a b), r2)
        | none => none
      | none => none
    else if t = "!" then (decExpr fuel rest).map fun (a, r) => (.not a, r)
    else none

def tokName (t : TokType) : String := (reprStr t).replace "Syzgy.Query.TokType." ""

def queryStep (toks : List String) : Option String :=
  match toks with
  | ["lex", hex] =>
    match ofHex hex with
    | none => some "bad-op"
    | some b =>
      let inp := ByteArray.mk b.toArray
      match lexAll inp (inp.size + 2) 0 [] with
      | .ok ts => some ("toks " ++ " ".intercalate (ts.map fun t => tokName t.type ++ ":" ++ toHexW t.lit))
      | .err m => some ("err " ++ m)
      | .panic _ => some "panic"
  | ["filter", hex, numtab, rxtab, doc] =>
    match ofHex hex, decNumTab numtab, decRxTab rxtab, decDoc doc with
    | some b, some nt, some rt, some d =>
      let inp := ByteArray.mk b.toArray
      let nok : NumOK := fun lit => match nt.find? (fun e => e.1 == lit) with
        | some (_, some _) => true
        | _ => false
      match parse inp nok with
      | .panic _ => some "panic"
      | .err m => some (if m = "fuel" then "fuel" else "builderr")
      | .ok ast => some (if applyFilter (floatOps nt) (rxOracle rt) ast d then "true" else "false")
    | _, _, _, _ => some "bad-op"
  | ["denote", e, numtab, rxtab, doc] =>
    match decExpr 10000 (e.splitOn ";"), decNumTab numtab, decRxTab rxtab, decDoc doc with
    | some (ex, []), some nt, some rt, some (some d) =>
      let ops := floatOps nt
      let rx := rxOracle rt
      if wellTyped ops rx d ex then
        let viaAst := applyFilter ops rx ex.ast (some d)
        some ((if denote ops rx d ex then "true" else "false") ++ " ast=" ++ (if viaAst then "true" else "false"))
      else some "illtyped"
    | _, _, _, _ => some "bad-op"
  | _ => none

end Syzgy.Query
