import Syzgy.Model.Collection
/-!
# Line-protocol driver state machine (storage part)
One request line in, one reply line out. Used by `Main.lean`.
-/
namespace Syzgy

def fnv1a (b : Bytes) : UInt64 :=
  b.foldl (fun h x => (h ^^^ x.toUInt64) * 0x100000001b3) 0xcbf29ce484222325

def bytesLe : Bytes → Bytes → Bool
  | [], _ => true
  | _ :: _, [] => false
  | a :: r, b :: s => if a < b then true else if b < a then false else bytesLe r s

def insertBy {α} (le : α → α → Bool) (x : α) : List α → List α
  | [] => [x]
  | a :: r => if le x a then x :: a :: r else a :: insertBy le x r

def sortBy {α} (le : α → α → Bool) (l : List α) : List α := l.foldr (insertBy le) []

def joinWith (sep : String) : List String → String
  | [] => "-"
  | l => sep.intercalate l

def parseNatList (s : String) : Option (List Nat) :=
  if s = "-" then some [] else (s.splitOn ",").mapM String.toNat?

def outcomeTag {α} : Outcome α → String
  | .ok _ => "ok"
  | .err _ => "err"
  | .panic _ => "panic"

structure DState where
  disk : Option Bytes := none
  coll : Option Coll := none
  images : List (String × Bytes) := []

def stLine (c : Coll) : String :=
  let idx := sortBy (fun a b => bytesLe a.1 b.1) c.sf.index
  "st len=" ++ toString c.sf.file.length ++ " h=" ++ toString (fnv1a c.sf.file).toNat ++
  " seq=" ++ toString c.sf.seq ++
  " idx=" ++ joinWith ";" (idx.map fun e => toHexW e.1 ++ "@" ++ toString e.2) ++
  " fm=" ++ joinWith ";" (c.sf.free.map fun s => toString s.start ++ ":" ++ toString s.len)

def applyMut (d : DState) (r : Outcome (Coll × Mut)) : DState × String :=
  match r with
  | .ok (c, m) => ({ d with coll := some c, disk := some c.sf.file, images := m.images }, "ok")
  | .err _ => (d, "err")
  | .panic _ => (d, "panic")

def storageStep (d : DState) (toks : List String) : Option (DState × String) :=
  match toks with
  | "new" :: mode :: metric :: dim :: quant :: nameHex :: jsonTab =>
    match mode.toNat? >>= FileMode.ofCode, metric.toNat?, dim.toNat?, quant.toNat?, ofHex nameHex with
    | some mode, some metric, some dim, some quant, some name =>
      -- oracle table for `json.Unmarshal` of the options record: `<blobhex>=<m>,<d>,<q>` or `<blobhex>=err`
      let tab : List (Bytes × Option Cfg) := jsonTab.filterMap fun e =>
        match e.splitOn "=" with
        | [k, v] =>
          match ofHex k with
          | none => none
          | some kb =>
            if v = "err" then some (kb, none) else
            match v.splitOn "," with
            | [a, b, c] => match a.toNat?, b.toNat?, c.toNat? with
              | some a, some b, some c => some (kb, some { metric := a, dim := b, quant := c })
              | _, _, _ => none
            | _ => none
        | _ => none
      let needed : Option Bytes :=
        -- which blob would be decoded? (only when the file exists and its header record is readable)
        let fileExists : Bool := decide (mode ≠ .createAndOverwrite) && (match d.disk with | some b => !b.isEmpty | none => false)
        if !fileExists then none else
        match openFile d.disk mode with
        | .ok sf => match readRecord sf [] with
          | .ok header => match header.streams with
            | s0 :: _ => some s0.data
            | [] => none
          | _ => none
        | _ => none
      let inTab (b : Bytes) : Bool := (tab.find? (fun e => e.1 == b)).isSome
      -- the extractor is trusted only on a blob that is byte-for-byte what this code writes
      let selfWritten (b : Bytes) : Bool := match decodeOpts b with
        | some c => encodeOpts name c == b
        | none => false
      match needed with
      | some blob =>
        if !inTab blob && !selfWritten blob then some (d, "need-json " ++ toHexW blob) else
        let dec : Bytes → Cfg → Option Cfg := fun b _ => match tab.find? (fun e => e.1 == b) with
          | some (_, r) => r
          | none => decodeOpts b
        match newCollection d.disk name { metric := metric, dim := dim, quant := quant } mode dec with
        | .ok c => some ({ d with coll := some c, disk := some c.sf.file, images := [] }, "ok")
        | .err m =>
          let disk' := match openFile d.disk mode with
            | .ok sf => some sf.file
            | _ => d.disk
          some ({ d with coll := none, disk := disk' }, "err " ++ m)
        | .panic m => some ({ d with coll := none }, "panic " ++ m)
      | none =>
      match newCollection d.disk name { metric := metric, dim := dim, quant := quant } mode with
      | .ok c => some ({ d with coll := some c, disk := some c.sf.file, images := [] }, "ok")
      | .err m =>
        -- a failed create may still have created/initialised the file
        let disk' := match openFile d.disk mode with
          | .ok sf => some sf.file
          | _ => d.disk
        some ({ d with coll := none, disk := disk' }, "err " ++ m)
      | .panic m => some ({ d with coll := none }, "panic " ++ m)
    | _, _, _, _, _ => some (d, "bad-op")
  | ["add", id, codes, mdHex] =>
    match d.coll, id.toNat?, parseNatList codes, ofHex mdHex with
    | some c, some id, some codes, some md => some (applyMut d (addDocument c id codes md))
    | _, _, _, _ => some (d, "bad-op")
  | ["upd", id, mdHex] =>
    match d.coll, id.toNat?, ofHex mdHex with
    | some c, some id, some md => some (applyMut d (updateDocument c id md))
    | _, _, _ => some (d, "bad-op")
  | ["del", id] =>
    match d.coll, id.toNat? with
    | some c, some id => some (applyMut d (removeDocument c id))
    | _, _ => some (d, "bad-op")
  | ["get", id] =>
    match d.coll, id.toNat? with
    | some c, some id =>
      match getDocument c id with
      | .ok doc => some (d, "doc " ++ toHexW doc.md ++ " " ++ joinWith "," (doc.codes.map toString))
      | .err _ => some (d, "err")
      | .panic _ => some (d, "panic")
    | _, _ => some (d, "bad-op")
  | ["ids"] =>
    match d.coll with
    | some c => some (d, "ids " ++ joinWith "," ((getAllIDs c).map toString))
    | none => some (d, "bad-op")
  | ["count"] =>
    match d.coll with
    | some c => some (d, "n " ++ toString (getCount c))
    | none => some (d, "bad-op")
  | ["close"] =>
    match d.coll with
    | some c => some ({ d with coll := none, disk := some c.sf.file }, "ok")
    | none => some (d, "bad-op")
  | ["st"] =>
    match d.coll with
    | some c => some (d, stLine c)
    | none => some (d, "bad-op")
  | ["filehex"] =>
    match d.coll with
    | some c => some (d, "file " ++ toHexW c.sf.file)
    | none => some (d, "bad-op")
  | ["disk", hex] =>
    if hex = "none" then some ({ d with disk := none, coll := none }, "ok") else
    match ofHex hex with
    | some b => some ({ d with disk := some b, coll := none }, "ok")
    | none => some (d, "bad-op")
  | ["enc", quant, codes] =>
    match quant.toNat?, parseNatList codes with
    | some q, some cs => some (d, "bytes " ++ toHexW (encodeCodes q cs))
    | _, _ => some (d, "bad-op")
  | ["dec", quant, dim, hex] =>
    match quant.toNat?, dim.toNat?, ofHex hex with
    | some q, some n, some b =>
      match decodeCodes q n b with
      | .ok cs => some (d, "codes " ++ joinWith "," (cs.map toString))
      | .err _ => some (d, "err")
      | .panic _ => some (d, "panic")
    | _, _, _ => some (d, "bad-op")
  | ["images"] =>
    some (d, "img " ++ joinWith ";" (d.images.map fun (l, b) => l ++ ":" ++ toString b.length ++ ":" ++ toString (fnv1a b).toNat))
  | ["useimage", k] =>
    match k.toNat? with
    | some k =>
      match d.images[k]? with
      | some (_, b) => some ({ d with disk := some b, coll := none }, "ok")
      | none => some (d, "bad-op")
    | none => some (d, "bad-op")
  | _ => none

end Syzgy
