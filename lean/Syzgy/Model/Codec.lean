import Syzgy.Model.Basic
/-!
# Span codec: 7-bit length codes, CRC-32, serializeSpan / parseSpan / getStream

Transliteration of `write7Code`, `read7Code`, `lengthOf7Code`, `serializeSpan`,
`parseSpan`, `SpanReader.getStream`, `calculateChecksum`, `verifyChecksum` in
spanfile.go. The branch bounds of the two 7-code functions are parameters
(`Codec.bounds`), regenerated from the source into `Generated/Facts.lean`.
-/
namespace Syzgy

/-- branch bounds of `write7Code` / `lengthOf7Code` (`n < bound k` ⇒ k+1 bytes) -/
def bounds7 : List Nat :=
  [0x7f, 0x3fff, 0x1fffff, 0xfffffff, 0x7ffffffff, 0x3ffffffffff, 0x1ffffffffffff, 0xffffffffffffff]

/-- number of bytes chosen for `n` by a bound table: index of first bound above `n`, else `dflt` -/
def pick7 : List Nat → Nat → Nat → Nat → Nat
  | [], _, k, dflt => if k = 0 then dflt else dflt
  | b :: bs, n, k, dflt => if n < b then k + 1 else pick7 bs n (k + 1) dflt

/-- `lengthOf7Code` restricted to the table (values ≥ the last bound get `tbl.length+1`) -/
def len7 (n : Nat) : Nat := pick7 bounds7 n 0 (bounds7.length + 1)

/-- the `k` bytes `(n>>7(k-1))&0x7f|0x80, …, n&0x7f` -/
def enc7k : Nat → Nat → Bytes
  | 0, _ => []
  | 1, n => [(n % 128).toUInt8]
  | k+2, n => ((n / 2 ^ (7 * (k+1))) % 128 + 128).toUInt8 :: enc7k (k+1) n

/-- `write7Code(nil, n)` -/
def enc7 (n : Nat) : Bytes := enc7k (len7 n) n

/-- `read7Code` on the remaining bytes: returns value and number of bytes consumed -/
def dec7Aux : Bytes → Nat → Nat → Option (Nat × Nat)
  | [], _, _ => none
  | d :: rest, acc, used =>
    let acc' := (acc * 128 + d.toNat % 128) % 18446744073709551616
    if d.toNat < 128 then some (acc', used + 1) else dec7Aux rest acc' (used + 1)

def dec7 (b : Bytes) : Option (Nat × Nat) := dec7Aux b 0 0

/-- `read7Code(buf, off)`: value and new offset -/
def dec7At (b : Bytes) (off : Nat) : Option (Nat × Nat) :=
  match dec7 (b.drop off) with
  | some (v, used) => some (v, off + used)
  | none => none

/-! ## CRC-32 (IEEE, reflected), bit-serial on `BitVec 32` -/

namespace Crc
def poly : BitVec 32 := 0xEDB88320#32
def mask (b : Bool) : BitVec 32 := if b then poly else 0#32
def step0 (s : BitVec 32) : BitVec 32 := (s >>> 1) ^^^ mask (s.getLsbD 0)
def bit (b : Bool) : BitVec 32 := if b then 1#32 else 0#32
def step (s : BitVec 32) (b : Bool) : BitVec 32 := step0 (s ^^^ bit b)
def feed (s : BitVec 32) (bs : List Bool) : BitVec 32 := bs.foldl step s
/-- bits of a byte, least significant first (the order the reflected CRC consumes them) -/
def byteBits (x : UInt8) : List Bool := (List.range 8).map fun i => x.toNat.testBit i
def bitsOf (b : Bytes) : List Bool := b.flatMap byteBits
def allOnes : BitVec 32 := 0xFFFFFFFF#32
/-- register after the message, before the final complement -/
def reg (b : Bytes) : BitVec 32 := feed allOnes (bitsOf b)
def crc32 (b : Bytes) : Nat := (reg b ^^^ allOnes).toNat
end Crc

/-- fast byte-wise form used by the driver: 8 register steps with the byte xored in first -/
def crcByte (s : BitVec 32) (x : UInt8) : BitVec 32 :=
  let s := s ^^^ BitVec.ofNat 32 x.toNat
  Crc.step0 (Crc.step0 (Crc.step0 (Crc.step0 (Crc.step0 (Crc.step0 (Crc.step0 (Crc.step0 s)))))))

/-- `crc32.ChecksumIEEE` (byte-wise evaluation; `Lemmas/Crc.lean` proves it equal to `Crc.crc32`) -/
def checksum (b : Bytes) : Nat := ((b.foldl crcByte Crc.allOnes) ^^^ Crc.allOnes).toNat

/-- `verifyChecksum(data)` -/
def verifyChecksum (data : Bytes) : Bool :=
  let l := data.length
  if l < 4 then false
  else
    match rd32At data (l - 4) with
    | some expected => checksum (data.take (l - 4)) == expected
    | none => false

/-! ## Spans -/

structure Stream where
  id : Nat
  data : Bytes
deriving Repr, DecidableEq, BEq

structure Span where
  length : Nat          -- the Length field as read (parse) / computed (serialize)
  seq : Nat
  rid : Bytes
  streams : List Stream
deriving Repr, DecidableEq

def streamBytes (s : Stream) : Bytes :=
  (s.id % 256).toUInt8 :: (enc7 s.data.length ++ s.data)

def streamLen (s : Stream) : Nat := 1 + len7 s.data.length + s.data.length

/-- the `length` computed by `serializeSpan` (includes 4 checksum bytes) -/
def spanLength (seq : Nat) (rid : Bytes) (streams : List Stream) : Nat :=
  4 + 4 + len7 seq + len7 rid.length + rid.length + 1 + 4 + (streams.map streamLen).sum

/-- `serializeSpan` for an active span: everything except the checksum -/
def serializeSpan (seq : Nat) (rid : Bytes) (streams : List Stream) : Bytes :=
  be32 activeMagic ++ be32 (spanLength seq rid streams % 4294967296) ++
    enc7 seq ++ enc7 rid.length ++ rid ++ [(streams.length % 256).toUInt8] ++
    streams.flatMap streamBytes

/-- parse `n` data streams from the remaining bytes `rest` (Go loop of `parseSpan`; the Go cursor
    `at` is `len(data) - rest.length`). Returns the streams and the remaining bytes. -/
def parseStreams : Nat → Bytes → List Stream → Outcome (List Stream × Bytes)
  | 0, rest, acc => .ok (acc.reverse, rest)
  | n+1, rest, acc =>
    match rest with
    | [] => .err "data too short to contain all streams"
    | sid :: r1 =>
      match dec7 r1 with
      | none => .err "buffer too short to read unsigned value"
      | some (slen, used) =>
        let r2 := r1.drop used
        if slen ≥ 9223372036854775808 then .panic "slice bounds (negative length)" else
        if slen > r2.length then .err "data too short for stream data" else
        parseStreams n (r2.drop slen) ({ id := sid.toNat, data := r2.take slen } :: acc)

/-- `parseSpan(data)` -/
def parseSpan (data : Bytes) : Outcome Span :=
  if data.length < minSpanLength then .err "data too short to be a valid span" else
  match rd32 data, rd32 (data.drop 4) with
  | some magic, some l =>
    if magic ≠ activeMagic then .err "invalid magic number" else
    if l > data.length then .err "data too short for span length" else
    if !verifyChecksum (data.take l) then .err "checksum failed" else
    match dec7 (data.drop 8) with
    | none => .err "buffer too short to read unsigned value"
    | some (seq, u1) =>
      let r1 := data.drop (8 + u1)
      match dec7 r1 with
      | none => .err "buffer too short to read unsigned value"
      | some (idlen, u2) =>
        let r2 := r1.drop u2
        if idlen ≥ 9223372036854775808 ∨ idlen > r2.length then .panic "slice bounds out of range (record id)" else
        let rid := r2.take idlen
        match r2.drop idlen with
        | [] => .panic "index out of range (stream count)"
        | ns :: r3 =>
          match parseStreams ns.toNat r3 [] with
          | .ok (streams, r4) =>
            if r4.length < 4 then .err "data too short for checksum" else
            .ok { length := l, seq := seq % 4294967296, rid := rid, streams := streams }
          | .err m => .err m
          | .panic m => .panic m
  | _, _ => .err "record too short to contain length"

/-- skip/find loop of `SpanReader.getStream` -/
def findStream (want : Nat) : Nat → Bytes → Outcome Bytes
  | 0, _ => .err "stream not found"
  | n+1, rest =>
    match rest with
    | [] => .err "data too short to contain all streams"
    | sid :: r1 =>
      match dec7 r1 with
      | none => .err "buffer too short to read unsigned value"
      | some (slen, used) =>
        let r2 := r1.drop used
        if slen ≥ 9223372036854775808 then .panic "slice bounds (negative length)" else
        if slen > r2.length then .err "data too short for stream data" else
        if sid.toNat = want then .ok (r2.take slen)
        else findStream want n (r2.drop slen)

/-- `SpanReader.getStream(id)` on `data = file[offset:]` -/
def getStream (data : Bytes) (want : Nat) : Outcome Bytes :=
  match dec7 (data.drop 8) with
  | none => .err "buffer too short to read unsigned value"
  | some (_, u1) =>
    let r1 := data.drop (8 + u1)
    match dec7 r1 with
    | none => .err "buffer too short to read unsigned value"
    | some (idlen, u2) =>
      -- `at += int(idLength)` (no bounds check); the next index expression panics when out of range
      if idlen ≥ 9223372036854775808 then .panic "index out of range (negative)" else
      match (r1.drop u2).drop idlen with
      | [] => .panic "index out of range (stream count)"
      | ns :: r3 => findStream want ns.toNat r3

end Syzgy
