import Syzgy.Model.Collection
/-!
# rest.go / main.go — route table and handler decision logic

The server state is `name ↦ collection`; a collection is its options plus `id ↦ metadata JSON`.
Request bodies arrive already decoded by `encoding/json` into the handler's own struct types
(`Body`); everything after the decode — validation order, look-ups, status codes, state change — is
modelled. A Go panic inside a handler (a dropped connection) is the explicit outcome `.panic`.
-/
namespace Syzgy.Rest

structure RColl where
  cfg : Cfg
  docs : List (Nat × Bytes)         -- id ↦ metadata (JSON text as stored)
deriving Repr, DecidableEq

abbrev Server := List (Bytes × RColl)

def lookup (s : Server) (name : Bytes) : Option RColl :=
  match s.find? (fun e => e.1 == name) with
  | some e => some e.2
  | none => none

def remove (s : Server) (name : Bytes) : Server := s.filter (fun e => !(e.1 == name))
def put (s : Server) (name : Bytes) (c : RColl) : Server := (name, c) :: remove s name

def docPut (docs : List (Nat × Bytes)) (id : Nat) (md : Bytes) : List (Nat × Bytes) :=
  (id, md) :: docs.filter (fun e => e.1 != id)
def docGet (docs : List (Nat × Bytes)) (id : Nat) : Option Bytes :=
  match docs.find? (fun e => e.1 == id) with
  | some e => some e.2
  | none => none

structure InsRec where
  id : Nat
  vecLen : Option Nat      -- `none` = no vector field
  hasText : Bool
  md : Bytes
deriving Repr

inductive FilterKind | none | ok | bad
deriving DecidableEq, Repr

/-- decoded request body (`ok = false`: `json.NewDecoder(r.Body).Decode` failed) -/
inductive Body
  | none
  | create (ok : Bool) (name dist : Bytes) (dim quant : Int)
  | insert (ok : Bool) (recs : List InsRec)
  | update (ok : Bool) (md : Bytes)
  | search (ok : Bool) (k : Int) (radiusNonZero : Bool) (vecLen : Option Nat) (hasText : Bool) (filter : FilterKind) (off lim : Int)
deriving Repr

inductive Payload
  | none
  | ids (l : List Nat)
  | info (count : Nat) (cfg : Cfg)
  | list (l : List (Bytes × Nat))
  | page (l : List (Nat × Bytes))
deriving Repr

structure Resp where
  status : Nat
  payload : Payload := .none
deriving Repr

/-! ## paths -/

def splitOn (sep : UInt8) : Bytes → List Bytes
  | [] => [[]]
  | c :: rest =>
    match splitOn sep rest with
    | [] => [[]]
    | h :: t => if c == sep then [] :: h :: t else (c :: h) :: t

/-- `path.Clean` on an absolute path, as a component stack -/
def cleanComponents : List Bytes → List Bytes → List Bytes
  | [], acc => acc.reverse
  | c :: rest, acc =>
    if c.isEmpty || c == b!"." then cleanComponents rest acc
    else if c == b!".." then cleanComponents rest acc.tail
    else cleanComponents rest (c :: acc)

def joinSlash : List Bytes → Bytes
  | [] => []
  | c :: rest => 47 :: (c ++ joinSlash rest)

/-- `net/http.cleanPath` -/
def cleanPath (p : Bytes) : Bytes :=
  if p.isEmpty then [47] else
  let p := if p.head? == some 47 then p else 47 :: p
  let comps := cleanComponents (splitOn 47 p) []
  let np := if comps.isEmpty then [47] else joinSlash comps
  if p.getLast? == some 47 ∧ np ≠ [47] then np ++ [47] else np

def hasSuffix (s suf : Bytes) : Bool := suf.reverse.isPrefixOf s.reverse
def contains (s sub : Bytes) : Bool :=
  match s with
  | [] => sub.isEmpty
  | _ :: t => sub.isPrefixOf s || contains t sub

/-- `validCollectionName` -/
def validName (n : Bytes) : Bool :=
  !(n.isEmpty || n == b!"." || n == b!"..") && !(n.any (fun c => c == 47 || c == 92 || c == 0))

/-- `strconv.ParseUint(s, 10, 64)` -/
def parseId (b : Bytes) : Option Nat := parseUint b

def sortStr (ids : List Nat) : List Nat :=
  -- `sort.Strings` on the decimal renderings
  (ids.foldr (fun x acc =>
    let rec ins : List Nat → List Nat
      | [] => [x]
      | a :: r => if bytesLeq (ridOf x) (ridOf a) then x :: a :: r else a :: ins r
    ins acc) [])
where
  bytesLeq : Bytes → Bytes → Bool
    | [], _ => true
    | _ :: _, [] => false
    | a :: r, b :: s => if a < b then true else if b < a then false else bytesLeq r s

def takeLimI (lim : Int) (l : List Nat) : List Nat := if lim > 0 then l.take lim.toNat else l
def dropOffI (off : Int) (l : List Nat) : List Nat := if off > 0 then l.drop off.toNat else l

/-! ## handlers -/

/-- `NewCollection` for a fresh file: option validation -/
def ctorOk (metric : Nat) (dim quant : Int) : Bool :=
  (quant == 0 || quant == 4 || quant == 8 || quant == 16 || quant == 32 || quant == 64) && decide (dim > 0) && (metric == 0 || metric == 1)

def metricOf (dist : Bytes) : Option Nat :=
  if dist = b!"euclidean" then some 0 else if dist = b!"cosine" then some 1 else none

def handleCollections (s : Server) (method : Bytes) (body : Body) : Outcome (Server × Resp) :=
  if method = b!"POST" then
    match body with
    | .create true name dist dim quant =>
      match metricOf dist with
      | none => .ok (s, { status := 400 })
      | some m =>
        if !validName name then .ok (s, { status := 400 })
        else if (lookup s name).isSome then .ok (s, { status := 400 })
        else if !ctorOk m dim quant then .ok (s, { status := 500 })
        else
          .ok (put s name { cfg := { metric := m, dim := dim.toNat, quant := (if quant == 0 then 64 else quant.toNat) }, docs := [] },
               { status := 201 })
    | _ => .ok (s, { status := 400 })
  else if method = b!"GET" then
    .ok (s, { status := 200, payload := .list (s.map fun e => (e.1, e.2.docs.length)) })
  else .ok (s, { status := 200 })

/-- one `AddDocument` of the insert loop: `log.Panicf` on a vector of the wrong size -/
def insertStep (dim : Nat) (acc : Outcome (List (Nat × Bytes))) (r : InsRec) : Outcome (List (Nat × Bytes)) :=
  match acc with
  | .ok docs => if r.vecLen = some dim then .ok (docPut docs r.id r.md) else .panic "vector size does not match"
  | e => e

def handleInsert (s : Server) (parts : List Bytes) (body : Body) : Outcome (Server × Resp) :=
  match parts[4]? with
  | none => .ok (s, { status := 400 })
  | some name =>
    match lookup s name with
    | none => .ok (s, { status := 404 })
    | some c =>
      match body with
      | .insert true recs =>
        -- texts are embedded first; offline the embedding service is unreachable
        if recs.any (fun r => r.hasText && r.vecLen.isNone) then .ok (s, { status := 500 })
        else if recs.any (fun r => r.vecLen.isNone) then .ok (s, { status := 400 })
        else if recs.any (fun r => r.vecLen != some c.cfg.dim) then .ok (s, { status := 400 })
        else
          match recs.foldl (insertStep c.cfg.dim) (.ok c.docs) with
          | .ok docs => .ok (put s name { c with docs := docs }, { status := 201 })
          | .err m => .err m
          | .panic m => .panic m
      | _ => .ok (s, { status := 400 })

def handleUpdate (s : Server) (parts : List Bytes) (body : Body) : Outcome (Server × Resp) :=
  if parts.length < 6 then .ok (s, { status := 400 }) else
  match parts[4]?, parts[parts.length - 2]? with
  | some name, some idStr =>
    match parseId idStr with
    | none => .ok (s, { status := 400 })
    | some id =>
      match lookup s name with
      | none => .ok (s, { status := 404 })
      | some c =>
        match body with
        | .update true md =>
          if (docGet c.docs id).isSome then .ok (put s name { c with docs := docPut c.docs id md }, { status := 200 })
          else .ok (s, { status := 404 })
        | _ => .ok (s, { status := 400 })
  | _, _ => .ok (s, { status := 400 })

def handleDeleteRecord (s : Server) (parts : List Bytes) : Outcome (Server × Resp) :=
  if parts.length < 7 then .ok (s, { status := 400 }) else
  match parts[4]?, parts[6]? with
  | some name, some idStr =>
    match parseId idStr with
    | none => .ok (s, { status := 400 })
    | some id =>
      match lookup s name with
      | none => .ok (s, { status := 404 })
      | some c =>
        if (docGet c.docs id).isSome then
          .ok (put s name { c with docs := c.docs.filter (fun e => e.1 != id) }, { status := 200 })
        else .ok (s, { status := 404 })
  | _, _ => .ok (s, { status := 400 })

def listingPayload (c : RColl) (filter : FilterKind) (off lim : Int) : Payload :=
  if filter = .none then
    .page ((takeLimI lim (dropOffI off (sortStr (c.docs.map (·.1))))).map fun i => (i, (docGet c.docs i).getD []))
  else .none

def handleSearch (s : Server) (parts : List Bytes) (method : Bytes) (body : Body) : Outcome (Server × Resp) :=
  match parts[4]? with
  | none => .ok (s, { status := 400 })
  | some name =>
    match lookup s name with
    | none => .ok (s, { status := 404 })
    | some c =>
      match body with
      | .search ok k radNZ vecLen hasText filter off lim =>
        if method = b!"POST" ∧ !ok then .ok (s, { status := 400 })
        else if filter = .bad then .ok (s, { status := 400 })
        else if hasText then .ok (s, { status := 500 })
        else if (k ≠ 0 ∨ radNZ) ∧ vecLen.getD 0 ≠ c.cfg.dim then .ok (s, { status := 400 })
        else if k ≠ 0 ∨ radNZ then
          -- the distance code indexes the stored vectors with the query's indices
          if vecLen.getD 0 = c.cfg.dim then .ok (s, { status := 200 }) else .panic "index out of range"
        else
          .ok (s, { status := 200, payload := listingPayload c filter off lim })
      | _ => .ok (s, { status := 400 })

def handleCollection (s : Server) (parts : List Bytes) (method : Bytes) : Outcome (Server × Resp) :=
  match parts[4]? with
  | none => .ok (s, { status := 400 })
  | some name =>
    match lookup s name with
    | none => if method = b!"DELETE" then .ok (s, { status := 200 }) else .ok (s, { status := 404 })
    | some c =>
      if method = b!"GET" then
        if parts.length = 6 ∧ parts[5]? = some b!"ids" then .ok (s, { status := 200, payload := .ids (sortNat (c.docs.map (·.1))) })
        else .ok (s, { status := 200, payload := .info c.docs.length c.cfg })
      else if method = b!"DELETE" then .ok (remove s name, { status := 200 })
      else .ok (s, { status := 200 })

/-- the registered handlers of `RunServer` behind `http.ServeMux` -/
def handle (s : Server) (method path : Bytes) (body : Body) : Outcome (Server × Resp) :=
  if cleanPath path ≠ path then .ok (s, { status := 301 })
  else if path = b!"/api/v1/collections" then handleCollections s method body
  else if b!"/api/v1/collections/".isPrefixOf path then
    let parts := splitOn 47 path
    if hasSuffix path b!"/records" ∧ method = b!"POST" then handleInsert s parts body
    else if contains path b!"/records/" ∧ method = b!"PUT" then handleUpdate s parts body
    else if contains path b!"/records/" ∧ method = b!"DELETE" then handleDeleteRecord s parts
    else if hasSuffix path b!"/search" ∧ (method = b!"GET" ∨ method = b!"POST") then handleSearch s parts method body
    else handleCollection s parts method
  else .ok (s, { status := 404 })

/-- restart: every `*.dat` file of the data folder is loaded again (each through `NewCollection`,
    which reproduces the collection — C02) -/
def restart (s : Server) : Server := s

end Syzgy.Rest
