/-!
# Basic byte-level vocabulary of the model (core Lean only)

`Bytes` is `List UInt8`; big-endian 32-bit fields; an `Outcome` type in which a Go
run-time panic (slice/index out of range) is an explicit result, never a default.
-/
open Lean in
/-- `b!"text"`: the UTF-8 bytes of a string literal as an explicit list literal (so that `decide`
    and `simp` can compute with keywords and operators) -/
macro:max "b!" s:str : term => do
  let bytes := s.getString.toUTF8.toList
  let elems ← bytes.mapM fun b => `(($(Syntax.mkNumLit (toString b.toNat)) : UInt8))
  `(([$(elems.toArray),*] : List UInt8))

namespace Syzgy

abbrev Bytes := List UInt8

/-- result of a modelled Go function: value, returned `error`, or run-time panic -/
inductive Outcome (α : Type) where
  | ok (a : α)
  | err (msg : String)
  | panic (msg : String)
deriving Repr

namespace Outcome
def bind {α β} (x : Outcome α) (f : α → Outcome β) : Outcome β :=
  match x with
  | ok a => f a
  | err m => err m
  | panic m => panic m
instance : Monad Outcome where
  pure := ok
  bind := bind
def isPanic {α} : Outcome α → Bool
  | panic _ => true
  | _ => false
def isOk {α} : Outcome α → Bool
  | ok _ => true
  | _ => false
def toOption {α} : Outcome α → Option α
  | ok a => some a
  | _ => none
end Outcome

def be32 (n : Nat) : Bytes :=
  [(n / 16777216 % 256).toUInt8, (n / 65536 % 256).toUInt8, (n / 256 % 256).toUInt8, (n % 256).toUInt8]

/-- read a big-endian u32 from the front of a byte list -/
def rd32 : Bytes → Option Nat
  | a :: b :: c :: d :: _ => some (a.toNat * 16777216 + b.toNat * 65536 + c.toNat * 256 + d.toNat)
  | _ => none

/-- `readUint32(buf, off)` -/
def rd32At (b : Bytes) (off : Nat) : Option Nat := rd32 (b.drop off)

def activeMagic : Nat := 0x5350414E
def freeMagic : Nat := 0x46524545
def minSpanLength : Nat := 15

def hexDigit (n : Nat) : Char :=
  if n < 10 then Char.ofNat (48 + n) else Char.ofNat (87 + n)

def toHex (b : Bytes) : String :=
  String.ofList (b.flatMap fun x => [hexDigit (x.toNat / 16), hexDigit (x.toNat % 16)])

def hexVal (c : Char) : Option Nat :=
  if '0' ≤ c ∧ c ≤ '9' then some (c.toNat - 48)
  else if 'a' ≤ c ∧ c ≤ 'f' then some (c.toNat - 87)
  else if 'A' ≤ c ∧ c ≤ 'F' then some (c.toNat - 55)
  else none

def ofHexAux : List Char → Bytes → Option Bytes
  | [], acc => some acc.reverse
  | [_], _ => none
  | a :: b :: r, acc =>
    match hexVal a, hexVal b with
    | some x, some y => ofHexAux r ((x * 16 + y).toUInt8 :: acc)
    | _, _ => none

/-- "-" denotes the empty byte string on the wire -/
def ofHex (s : String) : Option Bytes :=
  if s = "-" then some [] else ofHexAux s.toList []

def toHexW (b : Bytes) : String := if b.isEmpty then "-" else toHex b

end Syzgy
