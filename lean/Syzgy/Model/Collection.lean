import Syzgy.Model.SpanFile
/-!
# collection.go — the document store part (vectors as quantization codes)

`AddDocument`, `UpdateDocument`, `removeDocument`, `GetDocument`, `GetAllIDs`,
`GetDocumentCount`, `NewCollection` (open / create / reopen), `encodeDocument`,
`decodeVector`, `getVectorSize`. Floating point enters only through `quantize`,
which is applied by the caller: this layer stores and returns *codes*.
-/
namespace Syzgy

structure Cfg where
  metric : Nat
  dim : Nat
  quant : Nat
deriving DecidableEq, Repr

def digitsAux : Nat → Nat → List UInt8 → List UInt8
  | 0, _, acc => acc
  | fuel+1, n, acc =>
    let acc' := (48 + n % 10).toUInt8 :: acc
    if n / 10 = 0 then acc' else digitsAux fuel (n / 10) acc'

/-- `fmt.Sprintf("%d", id)` -/
def ridOf (id : Nat) : Bytes := digitsAux (id + 1) id []

/-- `strconv.ParseUint(s, 10, 64)` -/
def parseUint (b : Bytes) : Option Nat :=
  if b.isEmpty then none else
  let r := b.foldl (fun (acc : Option Nat) c =>
    match acc with
    | none => none
    | some v => if 48 ≤ c.toNat ∧ c.toNat ≤ 57 then some (v * 10 + (c.toNat - 48)) else none) (some 0)
  match r with
  | some v => if v < 18446744073709551616 then some v else none
  | none => none

/-- `getVectorSize`; `none` = `panic("Unsupported quantization level")` -/
def getVectorSize (quant dim : Nat) : Option Nat :=
  if quant = 4 then some ((dim + 1) / 2)
  else if quant = 8 then some dim
  else if quant = 16 then some (dim * 2)
  else if quant = 32 then some (dim * 4)
  else if quant = 64 then some (dim * 8)
  else none

def beN : Nat → Nat → Bytes
  | 0, _ => []
  | k+1, n => ((n / 256 ^ k) % 256).toUInt8 :: beN k n

def rdN : Nat → Bytes → Nat → Option Nat
  | 0, _, acc => some acc
  | k+1, b, acc => match b with
    | [] => none
    | x :: r => rdN k r (acc * 256 + x.toNat)

def pack4 : List Nat → Bytes
  | [] => []
  | [a] => [((a * 16) % 256).toUInt8]
  | a :: b :: r => (((a * 16) % 256) ||| (b % 16)).toUInt8 :: pack4 r

/-- the byte layout of `encodeDocument` for a list of codes -/
def encodeCodes (quant : Nat) (codes : List Nat) : Bytes :=
  if quant = 4 then pack4 codes
  else if quant = 8 then codes.map (fun c => (c % 256).toUInt8)
  else if quant = 16 then codes.flatMap (beN 2)
  else if quant = 32 then codes.flatMap (beN 4)
  else codes.flatMap (beN 8)

def unpack4 : Nat → Bytes → Outcome (List Nat)
  | 0, _ => .ok []
  | 1, b => match b with
    | [] => .panic "index out of range"
    | x :: _ => .ok [x.toNat / 16]
  | n+2, b => match b with
    | [] => .panic "index out of range"
    | x :: r => match unpack4 n r with
      | .ok l => .ok (x.toNat / 16 :: x.toNat % 16 :: l)
      | e => e

def unpackN (w : Nat) : Nat → Bytes → Outcome (List Nat)
  | 0, _ => .ok []
  | n+1, b => match rdN w b 0 with
    | none => .panic "index out of range"
    | some v => match unpackN w n (b.drop w) with
      | .ok l => .ok (v :: l)
      | e => e

/-- `decodeVector` up to `dequantize`: the codes; unsupported widths leave every code 0 -/
def decodeCodes (quant dim : Nat) (data : Bytes) : Outcome (List Nat) :=
  if quant = 4 then unpack4 dim data
  else if quant = 8 then unpackN 1 dim data
  else if quant = 16 then unpackN 2 dim data
  else if quant = 32 then unpackN 4 dim data
  else if quant = 64 then unpackN 8 dim data
  else .ok (List.replicate dim 0)

structure Coll where
  sf : SF
  cfg : Cfg
  readOnly : Bool := false
deriving Repr

structure Doc where
  md : Bytes
  codes : List Nat
deriving Repr, DecidableEq

def strBytes (s : String) : Bytes := s.toUTF8.toList

/-- decimal rendering of a number, as `encoding/json` writes an `int` (the digits `fmt.Sprintf("%d")` gives) -/
def natStr (n : Nat) : Bytes := ridOf n

/-- `json.Marshal(options)` for a plain-ASCII name -/
def encodeOpts (name : Bytes) (c : Cfg) : Bytes :=
  b!"{\"name\":\"" ++ name ++ b!"\",\"distance_method\":" ++ natStr c.metric ++
  b!",\"dimension_count\":" ++ natStr c.dim ++ b!",\"quantization\":" ++ natStr c.quant ++ b!"}"

def findAfter (key : Bytes) : Bytes → Option Bytes
  | [] => none
  | b@(_ :: r) => if key.isPrefixOf b then some (b.drop key.length) else findAfter key r

def leadingNat (b : Bytes) : Option Nat :=
  let ds := b.takeWhile (fun c => 48 ≤ c.toNat ∧ c.toNat ≤ 57)
  if ds.isEmpty then none else some (ds.foldl (fun v c => v * 10 + (c.toNat - 48)) 0)

/-- the three integer fields of the options record (`json.Unmarshal` is trusted; this is the
    field extraction the driver needs) -/
def decodeOpts (b : Bytes) : Option Cfg :=
  match findAfter (b!"\"distance_method\":") b, findAfter (b!"\"dimension_count\":") b,
        findAfter (b!"\"quantization\":") b with
  | some m, some d, some q =>
    match leadingNat m, leadingNat d, leadingNat q with
    | some m, some d, some q => some { metric := m, dim := d, quant := q }
    | _, _, _ => none
  | _, _, _ => none

/-- the reads performed by the index rebuild of `NewCollection` (`decodeDocument` on every record
    whose id parses): any failure there is a `log.Panicf` -/
def rebuildCheck (sf : SF) (cfg : Cfg) : Outcome Unit :=
  sf.index.foldl (fun acc e =>
    match acc with
    | .ok () =>
      if e.1.isEmpty then .ok () else
      match parseUint e.1 with
      | none => .ok ()
      | some _ =>
        let data := sf.file.drop e.2
        match getStream data 1 with
        | .ok vec =>
          match decodeCodes cfg.quant cfg.dim vec with
          | .ok _ =>
            (match getStream data 0 with
             | .ok _ => .ok ()
             | _ => .panic "Failed to read metadata")
          | _ => .panic "index out of range (decodeVector)"
        | _ => .panic "Failed to read vector data"
    | e => e) (.ok ())

/-- `NewCollection(options)`; `dec blob callerOptions` is `json.Unmarshal(blob, &options)` (by default
    the field extractor `decodeOpts`; the driver can be given encoding/json's answer as an oracle);
    the LSH forest itself is modelled separately (`Model/Lsh.lean`).
    `existing` is the file on disk. -/
def newCollection (existing : Option Bytes) (name : Bytes) (opts : Cfg) (mode : FileMode)
    (dec : Bytes → Cfg → Option Cfg := fun b _ => decodeOpts b) : Outcome Coll :=
  let fileExists : Bool := decide (mode ≠ .createAndOverwrite) && (match existing with | some b => !b.isEmpty | none => false)
  match openFile existing mode with
  | .err m => .err ("failed to open file: " ++ m)
  | .panic m => .panic m
  | .ok sf =>
    let r : Outcome (SF × Cfg) :=
      if fileExists then
        match readRecord sf [] with
        | .err m => .err ("failed to read header: " ++ m)
        | .panic m => .panic m
        | .ok header =>
          match header.streams with
          | [] => .panic "index out of range [0] (header has no streams)"
          | s0 :: _ =>
            match dec s0.data opts with
            | none => .err "failed to unmarshal options"
            | some cfg => .ok (sf, cfg)
      else
        let opts := if opts.quant = 0 then { opts with quant := 64 } else opts
        match writeRecord sf [] [{ id := 0, data := encodeOpts name opts }] with
        | .ok m => .ok (m.st, opts)
        | .err m => .err ("failed to write options: " ++ m)
        | .panic m => .panic m
    match r with
    | .err m => .err m
    | .panic m => .panic m
    | .ok (sf, cfg) =>
      if cfg.metric ≠ 0 ∧ cfg.metric ≠ 1 then .err "unsupported distance method"
      else
        match (if fileExists then rebuildCheck sf cfg else .ok ()) with
        | .ok () => .ok { sf := sf, cfg := cfg, readOnly := mode = .readOnly }
        | .err m => .err m
        | .panic m => .panic m

/-- `getDocument(id)` -/
def getDocument (c : Coll) (id : Nat) : Outcome Doc :=
  match readRecord c.sf (ridOf id) with
  | .err m => .err m
  | .panic m => .panic m
  | .ok span =>
    match span.streams with
    | s0 :: s1 :: _ =>
      match decodeCodes c.cfg.quant c.cfg.dim s1.data with
      | .ok codes => .ok { md := s0.data, codes := codes }
      | .err m => .err m
      | .panic m => .panic m
    | _ => .panic "index out of range (DataStreams)"

/-- `AddDocument(id, vector, metadata)` with `codes = vector.map quantize` -/
def addDocument (c : Coll) (id : Nat) (codes : List Nat) (md : Bytes) : Outcome (Coll × Mut) :=
  if codes.length ≠ c.cfg.dim then .panic "vector size does not match the expected number of dimensions" else
  match getVectorSize c.cfg.quant codes.length with
  | none => .panic "Unsupported quantization level"
  | some _ =>
    match writeRecord c.sf (ridOf id) [{ id := 0, data := md }, { id := 1, data := encodeCodes c.cfg.quant codes }] with
    | .ok m => .ok ({ c with sf := m.st }, m)
    | .err m => .panic ("Failed to write record: " ++ m)
    | .panic m => .panic m

/-- `UpdateDocument(id, newMetadata)` -/
def updateDocument (c : Coll) (id : Nat) (md : Bytes) : Outcome (Coll × Mut) :=
  match readRecord c.sf (ridOf id) with
  | .err m => .err m
  | .panic m => .panic m
  | .ok span =>
    match span.streams with
    | _ :: s1 :: _ =>
      match writeRecord c.sf (ridOf id) [{ id := 0, data := md }, { id := 1, data := s1.data }] with
      | .ok m => .ok ({ c with sf := m.st }, m)
      | .err m => .err m
      | .panic m => .panic m
    | _ => .panic "index out of range (DataStreams)"

/-- `removeDocument(id)` (storage part) -/
def removeDocument (c : Coll) (id : Nat) : Outcome (Coll × Mut) :=
  match removeRecord c.sf (ridOf id) with
  | .ok m => .ok ({ c with sf := m.st }, m)
  | .err m => .err m
  | .panic m => .panic m

def insertNat (x : Nat) : List Nat → List Nat
  | [] => [x]
  | a :: r => if x ≤ a then x :: a :: r else a :: insertNat x r

def sortNat (l : List Nat) : List Nat := l.foldr insertNat []

/-- `GetAllIDs()` -/
def getAllIDs (c : Coll) : List Nat :=
  sortNat (c.sf.index.filterMap fun e => if e.1.isEmpty then none else parseUint e.1)

/-- `GetDocumentCount()` -/
def getCount (c : Coll) : Int := (c.sf.index.length : Int) - 1

end Syzgy
