import Syzgy.Model.SpanFile
/-!
# Segment view of a data file (specification level **S**)

A well-formed file is the rendering of a list of segments: active spans (with padding and
checksum) and FREE spans (header + arbitrary old bytes). `wellFormedFile` is the executable
grammar predicate of C09.
-/
namespace Syzgy

/-- the fields between the 8-byte header and the padding -/
def spanBody (seq : Nat) (rid : Bytes) (streams : List Stream) : Bytes :=
  enc7 seq ++ enc7 rid.length ++ rid ++ [(streams.length % 256).toUInt8] ++ streams.flatMap streamBytes

/-- bytes of an active span before its checksum -/
def actPre (seq : Nat) (rid : Bytes) (streams : List Stream) (pad : Nat) : Bytes :=
  be32 activeMagic ++ be32 ((8 + (spanBody seq rid streams).length + pad + 4) % 4294967296) ++
    spanBody seq rid streams ++ zeros pad

/-- complete bytes of an active span -/
def actBytes (seq : Nat) (rid : Bytes) (streams : List Stream) (pad : Nat) : Bytes :=
  actPre seq rid streams pad ++ be32 (checksum (actPre seq rid streams pad))

inductive Seg where
  | act (seq : Nat) (rid : Bytes) (streams : List Stream) (pad : Nat)
  | free (junk : Bytes)          -- FREE header followed by `junk` (whatever was there before)
deriving Repr

def Seg.bytes : Seg → Bytes
  | .act seq rid streams pad => actBytes seq rid streams pad
  | .free junk => be32 freeMagic ++ be32 ((8 + junk.length) % 4294967296) ++ junk

def Seg.size : Seg → Nat
  | .act seq rid streams pad => 8 + (spanBody seq rid streams).length + pad + 4
  | .free junk => 8 + junk.length

def render (segs : List Seg) : Bytes := segs.flatMap Seg.bytes

/-- per-stream side conditions under which the codec round-trips -/
def StreamOK (s : Stream) : Prop := s.id < 256 ∧ s.data.length < 9223372036854775808

/-- side conditions of a segment: sizes fit the 32-bit length field, counts fit their bytes -/
def Seg.OK : Seg → Prop
  | .act seq rid streams pad =>
    seq < 4294967296 ∧ rid.length < 9223372036854775808 ∧ streams.length < 256 ∧
    (∀ s ∈ streams, StreamOK s) ∧ pad < minSpanLength ∧
    8 + (spanBody seq rid streams).length + pad + 4 < 4294967296
  | .free junk => minSpanLength ≤ 8 + junk.length ∧ 8 + junk.length < 4294967296

end Syzgy
