import Syzgy.Model.Lsh
import Syzgy.Model.SearchDriver
/-!
Driver commands for the LSH index:
* `lsh <searchK> <K> <Rbits> <maxRbits> <forest> <cands> <hptab>` — search over a dumped forest
* `lshins <threshold> <tree> <id> <handle> <sidetab> <choose>` — one `insert`
* `lshdel <tree> <id> <handle> <sidetab>` — one `remove`
Tree encoding (items separated by `;`): `L<n>;id…` | `N<hp>;left;right`; forest = trees joined by `|`.
-/
namespace Syzgy.Lsh

def decTree : Nat → List String → Option (Tree × List String)
  | 0, _ => none
  | _, [] => none
  | fuel+1, t :: rest =>
    if t.take 1 == "L" then
      match (t.drop 1).toString.toNat? with
      | none => none
      | some n =>
        let ids := (rest.take n).mapM String.toNat?
        if rest.length < n then none else ids.map fun l => (.leaf l, rest.drop n)
    else if t.take 1 == "N" then
      match (t.drop 1).toString.toNat? with
      | none => none
      | some h =>
        match decTree fuel rest with
        | none => none
        | some (l, r1) =>
          match decTree fuel r1 with
          | none => none
          | some (r, r2) => some (.node h l r, r2)
    else none

def decTreeStr (s : String) : Option Tree :=
  match decTree 100000 (s.splitOn ";") with
  | some (t, []) => some t
  | _ => none

def encTree : Tree → List String
  | .leaf ids => ("L" ++ toString ids.length) :: ids.map toString
  | .node h l r => ("N" ++ toString h) :: (encTree l ++ encTree r)

def decForest (s : String) : Option (List Tree) := (s.splitOn "|").mapM decTreeStr

/-- `a:b=c` triples -/
def decTab (s : String) : Option (List (Nat × Nat × Nat)) :=
  if s = "-" then some [] else
  (s.splitOn ",").mapM fun e =>
    match e.splitOn "=" with
    | [k, v] => match k.splitOn ":" with
      | [a, b] => do pure ((← a.toNat?), (← b.toNat?), (← v.toNat?))
      | _ => none
    | _ => none

def lshStep (toks : List String) : Option String :=
  match toks with
  | ["lsh", sk, k, r, maxr, forest, cands, hptab] =>
    match sk.toNat?, k.toNat?, r.toNat?, maxr.toNat?, decForest forest, decCands cands, decTab hptab with
    | some sk, some k, some r, some maxr, some f, some cs, some ht =>
      let lookup : Nat → Option Cand := fun id => cs.find? (fun c => c.id == id)
      let hpDist : H → Nat := fun h => match ht.find? (fun e => e.1 == h) with
        | some (_, d, _) => d
        | none => 0
      let hpRight : H → Bool := fun h => match ht.find? (fun e => e.1 == h) with
        | some (_, _, b) => b == 1
        | none => false
      let (res, n) := search sk k r maxr f lookup hpDist hpRight
      some (resLine res ++ " n=" ++ toString n)
    | _, _, _, _, _, _, _ => some "bad-op"
  | ["lshins", thr, tree, id, handle, sidetab, choose] =>
    match thr.toNat?, decTreeStr tree, id.toNat?, handle.toNat?, decTab sidetab with
    | some thr, some t, some id, some hd, some st =>
      let side : H → Nat → Bool := fun h v => match st.find? (fun e => e.1 == h && e.2.1 == v) with
        | some (_, _, b) => b == 1
        | none => false
      let ch : List Nat → Option H := fun _ => choose.toNat?
      -- stored vector handle of a live id is the id itself; the inserted document is stored under `hd`
      let store : Nat → Option Nat := fun i => if i = id then some hd else some i
      match insert thr side ch store id hd t with
      | .ok t' => some ("tree " ++ ";".intercalate (encTree t'))
      | .err m => some ("err " ++ m)
      | .panic _ => some "panic"
    | _, _, _, _, _ => some "bad-op"
  | ["lshdel", tree, id, handle, sidetab] =>
    match decTreeStr tree, id.toNat?, handle.toNat?, decTab sidetab with
    | some t, some id, some hd, some st =>
      let side : H → Nat → Bool := fun h v => match st.find? (fun e => e.1 == h && e.2.1 == v) with
        | some (_, _, b) => b == 1
        | none => false
      some ("tree " ++ ";".intercalate (encTree (remove side id hd t)))
    | _, _, _, _ => some "bad-op"
  | _ => none

end Syzgy.Lsh
