/-!
# collection.go — `euclideanDistance`, `angularDistance`; quantization.go — `quantize`, `dequantize`

Generic over the arithmetic (`Arith F`): the driver instantiates it with binary64 (`Float`), the
theorems quantify over every arithmetic satisfying the stated laws (`Props/C06.lean`).
-/
namespace Syzgy

structure Arith (F : Type) where
  zero : F
  one : F
  negOne : F
  two : F
  pi : F
  add : F → F → F
  sub : F → F → F
  mul : F → F → F
  div : F → F → F
  neg : F → F
  sqrt : F → F
  acos : F → F
  round : F → F                 -- `math.Round`
  ofNat : Nat → F               -- `float64(n)`
  toNat : F → Nat               -- `uint64(x)` for x ≥ 0
  lt : F → F → Bool             -- IEEE `<` (false on NaN)
  eq : F → F → Bool             -- IEEE `==`

variable {F : Type}

/-- `euclideanDistance(vec1, vec2)` (equal lengths) -/
def euclid (A : Arith F) (a b : List F) : F :=
  A.sqrt ((a.zip b).foldl (fun s p => A.add s (A.mul (A.sub p.1 p.2) (A.sub p.1 p.2))) A.zero)

structure Sums (F : Type) where
  dot : F
  m1 : F
  m2 : F

def sums (A : Arith F) (a b : List F) : Sums F :=
  (a.zip b).foldl (fun s p => { dot := A.add s.dot (A.mul p.1 p.2), m1 := A.add s.m1 (A.mul p.1 p.1),
                                m2 := A.add s.m2 (A.mul p.2 p.2) }) { dot := A.zero, m1 := A.zero, m2 := A.zero }

/-- clamp to [-1, 1]: `if c > 1 { c = 1 } else if c < -1 { c = -1 }` -/
def clampUnit (A : Arith F) (c : F) : F :=
  if A.lt A.one c then A.one else if A.lt c A.negOne then A.negOne else c

/-- the argument passed to `math.Acos` by `angularDistance`; `none` when a magnitude is zero
    (the function then returns 1.0) -/
def cosArg (A : Arith F) (a b : List F) : Option F :=
  let s := sums A a b
  if A.eq s.m1 A.zero || A.eq s.m2 A.zero then none
  else some (clampUnit A (A.div s.dot (A.mul (A.sqrt s.m1) (A.sqrt s.m2))))

/-- `angularDistance(vec1, vec2)` -/
def angular (A : Arith F) (a b : List F) : F :=
  match cosArg A a b with
  | none => A.one
  | some c => A.div (A.acos c) A.pi

/-- `quantize(value, bits)` for bits ∈ {4, 8, 16}: the code -/
def quantizeF (A : Arith F) (bits : Nat) (x : F) : Nat :=
  let v := if A.lt x A.negOne then A.negOne else if A.lt A.one x then A.one else x
  let maxInt := 2 ^ bits - 1
  A.toNat (A.round (A.mul (A.div (A.add v A.one) A.two) (A.ofNat maxInt)))

/-- `dequantize(code, bits)` for bits ∈ {4, 8, 16} -/
def dequantizeF (A : Arith F) (bits : Nat) (k : Nat) : F :=
  A.sub (A.mul (A.div (A.ofNat k) (A.ofNat (2 ^ bits - 1))) A.two) A.one

/-- binary64 instance used by the driver -/
def floatArith : Arith Float where
  zero := 0.0
  one := 1.0
  negOne := -1.0
  two := 2.0
  pi := 3.141592653589793
  add := (· + ·)
  sub := (· - ·)
  mul := (· * ·)
  div := (· / ·)
  neg := fun x => -x
  sqrt := Float.sqrt
  acos := Float.acos
  round := Float.round
  ofNat := Float.ofNat
  toNat := fun x => x.toUInt64.toNat
  lt := fun a b => a < b
  eq := fun a b => a == b

def parseBitsList (s : String) : Option (List Float) :=
  if s = "-" then some [] else
  (s.splitOn ",").mapM fun t => t.toNat?.map fun n => Float.ofBits n.toUInt64

def distStep (toks : List String) : Option String :=
  match toks with
  | ["euclid", a, b] =>
    match parseBitsList a, parseBitsList b with
    | some x, some y => some ("f " ++ toString (euclid floatArith x y).toBits.toNat)
    | _, _ => some "bad-op"
  | ["cosarg", a, b] =>
    match parseBitsList a, parseBitsList b with
    | some x, some y =>
      match cosArg floatArith x y with
      | none => some "zero"
      | some c => some ("f " ++ toString c.toBits.toNat)
    | _, _ => some "bad-op"
  | ["quant", bits, x] =>
    match bits.toNat?, x.toNat? with
    | some b, some n => some ("code " ++ toString (quantizeF floatArith b (Float.ofBits n.toUInt64)))
    | _, _ => some "bad-op"
  | ["dequant", bits, k] =>
    match bits.toNat?, k.toNat? with
    | some b, some k => some ("f " ++ toString (dequantizeF floatArith b k).toBits.toNat)
    | _, _ => some "bad-op"
  | ["tof32", x] =>
    match x.toNat? with
    | some n => some ("f " ++ toString (Float.ofBits n.toUInt64).toFloat32.toFloat.toBits.toNat ++ " b32 " ++ toString (Float.ofBits n.toUInt64).toFloat32.toBits.toNat)
    | none => some "bad-op"
  | _ => none

end Syzgy
