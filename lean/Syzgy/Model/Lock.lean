/-!
# Lock protocol of the collection (C10)

Threads run lock programs over a hierarchy of locks with Go `sync.RWMutex` semantics: a pending
`Lock()` (announced writer) blocks new `RLock()`s. `compile` flattens the regenerated per-method lock
table (calls inlined) into such programs.
-/
namespace Syzgy.Lock

inductive Mode | R | W
deriving DecidableEq, Repr

inductive Act
  | acq (l : Nat) (m : Mode)
  | rel (l : Nat) (m : Mode)
  | tau
deriving DecidableEq, Repr

structure Thread where
  prog : List Act
  held : List (Nat × Mode)
  announced : Option Nat          -- a `Lock()` call that has announced itself and waits for readers
deriving Repr

abbrev Cfg := List Thread

def holds (c : Cfg) (l : Nat) : Prop := ∃ t ∈ c, ∃ m, (l, m) ∈ t.held
def writerHolds (c : Cfg) (l : Nat) : Prop := ∃ t ∈ c, (l, Mode.W) ∈ t.held
def writerWaiting (c : Cfg) (l : Nat) : Prop := ∃ t ∈ c, t.announced = some l

/-- thread `t` (a member of `c`) can take a step -/
def enabled (c : Cfg) (t : Thread) : Prop :=
  match t.prog with
  | [] => False
  | .tau :: _ => True
  | .rel _ _ :: _ => True
  | .acq l .R :: _ => ¬ writerHolds c l ∧ ¬ writerWaiting c l
  | .acq l .W :: _ => t.announced ≠ some l ∨ ¬ holds c l

/-- static discipline of the remaining program relative to what is held: acquisitions strictly
    upwards in the hierarchy (in particular never of a lock already held), releases only of held
    locks, everything released at the end -/
def Disc : List (Nat × Mode) → List Act → Prop
  | held, [] => held = []
  | held, .acq l m :: p => (∀ h ∈ held, h.1 < l) ∧ Disc ((l, m) :: held) p
  | held, .rel l m :: p => (l, m) ∈ held ∧ Disc (held.erase (l, m)) p
  | held, .tau :: p => Disc held p

/-- executable form of `Disc` -/
def discB : List (Nat × Mode) → List Act → Bool
  | held, [] => held.isEmpty
  | held, .acq l m :: p => held.all (fun h => decide (h.1 < l)) && discB ((l, m) :: held) p
  | held, .rel l m :: p => held.contains (l, m) && discB (held.erase (l, m)) p
  | held, .tau :: p => discB held p

/-- one row of the regenerated table: (kind, lock, callee);
    kind 0 RLock, 1 Lock, 2 RUnlock, 3 Unlock, 4 call -/
abbrev Row := List (Nat × Nat × Nat)

/-- inline calls (bounded depth: the call graph of the lock table is acyclic) -/
def compile (table : List Row) : Nat → Row → List Act
  | 0, _ => [.tau]
  | fuel+1, row =>
    row.flatMap fun (kind, lock, callee) =>
      if kind = 0 then [.acq lock .R]
      else if kind = 1 then [.acq lock .W]
      else if kind = 2 then [.rel lock .R]
      else if kind = 3 then [.rel lock .W]
      else match table[callee]? with
        | some r => compile table fuel r
        | none => [.tau]

def compileMethod (table : List Row) (i : Nat) : List Act :=
  match table[i]? with
  | some r => compile table 8 r
  | none => []

end Syzgy.Lock
