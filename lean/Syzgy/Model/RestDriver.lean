import Syzgy.Model.Rest
import Syzgy.Model.Driver
/-! Driver commands for the REST model: `rest <METHOD> <pathhex> <body…>`, `restreset`, `restrestart`. -/
namespace Syzgy.Rest

def decOptNat (s : String) : Option (Option Nat) := if s = "-" then some none else s.toNat?.map some

def decInsRecs : Nat → List String → List InsRec → Option (List InsRec)
  | 0, [], acc => some acc.reverse
  | 0, _, _ => none
  | n+1, id :: vl :: ht :: md :: rest, acc =>
    match id.toNat?, decOptNat vl, ofHex md with
    | some id, some vl, some md => decInsRecs n rest ({ id := id, vecLen := vl, hasText := ht == "1", md := md } :: acc)
    | _, _, _ => none
  | _, _, _ => none

def decBody : List String → Option Body
  | ["-"] => some .none
  | ["C", ok, name, dist, dim, quant] =>
    match ofHex name, ofHex dist, dim.toInt?, quant.toInt? with
    | some n, some d, some dm, some q => some (.create (ok == "1") n d dm q)
    | _, _, _, _ => none
  | "I" :: ok :: n :: rest =>
    match n.toNat? with
    | some n => (decInsRecs n rest []).map fun r => .insert (ok == "1") r
    | none => none
  | ["U", ok, md] => (ofHex md).map fun m => .update (ok == "1") m
  | ["S", ok, k, radnz, vl, ht, filter, off, lim] =>
    match k.toInt?, decOptNat vl, off.toInt?, lim.toInt? with
    | some k, some vl, some off, some lim =>
      let f : FilterKind := if filter = "o" then .ok else if filter = "b" then .bad else .none
      some (.search (ok == "1") k (radnz == "1") vl (ht == "1") f off lim)
    | _, _, _, _ => none
  | _ => none

def joinNats (l : List Nat) : String := if l.isEmpty then "-" else ",".intercalate (l.map toString)

def encPayload : Payload → String
  | .none => "-"
  | .ids l => "ids " ++ joinNats l
  | .info n c => "info " ++ toString n ++ " " ++ toString c.metric ++ " " ++ toString c.dim ++ " " ++ toString c.quant
  | .list l =>
    let items := sortBy (fun a b => bytesLe a.1 b.1) l
    "list " ++ (if items.isEmpty then "-" else ",".intercalate (items.map fun e => toHexW e.1 ++ ":" ++ toString e.2))
  | .page l => "page " ++ (if l.isEmpty then "-" else ",".intercalate (l.map fun e => toString e.1 ++ ":" ++ toHexW e.2))

def restStep (s : Server) (toks : List String) : Option (Server × String) :=
  match toks with
  | ["restreset"] => some ([], "ok")
  | ["restrestart"] => some (restart s, "ok")
  | "rest" :: method :: pathHex :: body =>
    match ofHex pathHex, decBody body with
    | some path, some b =>
      match handle s method.toUTF8.toList path b with
      | .ok (s', r) => some (s', "status " ++ toString r.status ++ " " ++ encPayload r.payload)
      | .err m => some (s, "err " ++ m)
      | .panic _ => some (s, "panic")
    | _, _ => some (s, "bad-op")
  | _ => none

end Syzgy.Rest
