import Syzgy.Model.Search
/-!
# lshtree.go — insert / split / remove / search over a forest, with geometry and randomness as oracles

* a hyperplane is an opaque identifier `H := Nat`; `side h v` (which side of `h` the vector `v` is on)
  is an oracle — any function of (hyperplane, vector). Theorems quantify over all of them, i.e. over
  every random choice of hyperplanes and over floating point.
* `choose ids` is the split oracle: `none` = "do not split now" (the two sampled vectors were about
  equal), `some h` = split with the fresh hyperplane `h`.
* `store id` is the stored vector of a live document (`none` = not live: `getDocument` fails).
-/
namespace Syzgy.Lsh

abbrev H := Nat

inductive Tree where
  | leaf (ids : List Nat)
  | node (h : H) (l r : Tree)
deriving Repr, DecidableEq

variable {V : Type}

def Tree.ids : Tree → List Nat
  | .leaf ids => ids
  | .node _ l r => l.ids ++ r.ids

/-- `split(node)` once the hyperplane has been chosen: partition by the *stored* vectors -/
def splitLeaf (side : H → V → Bool) (store : Nat → Option V) (ids : List Nat) (h : H) : Outcome Tree :=
  if ids.all (fun i => (store i).isSome) then
    let onRight := fun i => match store i with
      | some v => side h v
      | none => false
    let l := ids.filter (fun i => !onRight i)
    let r := ids.filter onRight
    if l.isEmpty || r.isEmpty then .ok (.leaf ids) else .ok (.node h (.leaf l) (.leaf r))
  else .panic "error getting document"

/-- `tree.insert(node, docid, vector)` -/
def insert (threshold : Nat) (side : H → V → Bool) (choose : List Nat → Option H) (store : Nat → Option V)
    (id : Nat) (v : V) : Tree → Outcome Tree
  | .leaf ids =>
    let ids' := ids ++ [id]
    if ids'.length > threshold then
      match choose ids' with
      | some h => splitLeaf side store ids' h
      | none => .ok (.leaf ids')
    else .ok (.leaf ids')
  | .node h l r =>
    if side h v then
      match insert threshold side choose store id v r with
      | .ok r' => .ok (.node h l r')
      | e => e
    else
      match insert threshold side choose store id v l with
      | .ok l' => .ok (.node h l' r)
      | e => e

/-- `tree.remove(node, docid, vector)` (an emptied leaf stays) -/
def remove (side : H → V → Bool) (id : Nat) (v : V) : Tree → Tree
  | .leaf ids => .leaf (ids.erase id)
  | .node h l r => if side h v then .node h l (remove side id v r) else .node h (remove side id v l) r

/-! ## search -/

/-- binary max-heap on a list, exactly `container/heap` with `Less(i,j) = prio i > prio j` -/
structure PQItem where
  node : Tree
  prio : Int

def swap (a : Array PQItem) (i j : Nat) : Array PQItem :=
  if h : i < a.size ∧ j < a.size then (a.set i a[j]).set j a[i] (by simp; exact h.2) else a

/-- `heap.up(j)` -/
def up (a : Array PQItem) : Nat → Nat → Array PQItem
  | 0, _ => a
  | fuel+1, j =>
    if j = 0 then a else
    let i := (j - 1) / 2
    match a[i]?, a[j]? with
    | some x, some y => if i = j ∨ ¬ (y.prio > x.prio) then a else up (swap a i j) fuel i
    | _, _ => a

/-- `heap.down(i0, n)` -/
def down (a : Array PQItem) (n : Nat) : Nat → Nat → Array PQItem
  | 0, _ => a
  | fuel+1, i =>
    let j1 := 2 * i + 1
    if j1 ≥ n then a else
    let j2 := j1 + 1
    let j := match a[j1]?, a[j2]? with
      | some x, some y => if j2 < n ∧ y.prio > x.prio then j2 else j1
      | _, _ => j1
    match a[j]?, a[i]? with
    | some x, some y => if ¬ (x.prio > y.prio) then a else down (swap a i j) n fuel j
    | _, _ => a

def hpush (a : Array PQItem) (x : PQItem) : Array PQItem :=
  let a := a.push x
  up a a.size (a.size - 1)

def hpop (a : Array PQItem) : Option (PQItem × Array PQItem) :=
  if a.size = 0 then none else
  let n := a.size - 1
  let a := swap a 0 n
  let a := down a n (n + 1) 0
  match a[n]? with
  | some x => some (x, a.pop)
  | none => none

inductive Signal | stop | accepted | checked | ignored
deriving DecidableEq, Repr

/-- state of `Search` shared between `consider` calls: result heap + points searched -/
structure SState where
  heap : List Cand          -- descending
  searched : Nat
deriving Repr

/-- `consider(docid, radius)`: `lookup id` = the candidate (true distance, filter verdict) of a live
    document, `none` if `getDocument` fails. `K = 0` selects the radius mode with `R`. -/
def consider (K R : Nat) (lookup : Nat → Option Cand) (st : SState) (id : Nat) (radius : Nat) : Signal × Nat × SState :=
  match lookup id with
  | none => (.stop, radius, st)
  | some c =>
    let st := { st with searched := st.searched + 1 }
    if !c.acc then (.ignored, radius, st)
    else if R > 0 then
      if c.dist ≤ R then (.accepted, radius, { st with heap := insDesc c st.heap }) else (.checked, radius, st)
    else if K > 0 then
      if st.heap.length ≤ K ∧ (decide (st.heap.length < K) || topGt st.heap c.dist) then
        let h' := insDesc c st.heap
        let h'' := if h'.length > K then h'.tail else h'
        (.accepted, (match h'' with | top :: _ => top.dist | [] => radius), { st with heap := h'' })
      else (.checked, radius, st)
    else (.checked, radius, st)

structure LoopSt where
  pq : Array PQItem
  visited : List Nat
  kCounter : Nat
  accepted : Bool
  radius : Nat
  st : SState
  stopped : Bool := false

/-- the `for _, id := range node.ids` loop of a leaf -/
def visitLeaf (K R : Nat) (lookup : Nat → Option Cand) : List Nat → LoopSt → LoopSt
  | [], s => s
  | id :: rest, s =>
    if s.visited.contains id then visitLeaf K R lookup rest s else
    let s := { s with visited := id :: s.visited }
    match consider K R lookup s.st id s.radius with
    | (.stop, _, _) => { s with stopped := true }
    | (.accepted, rad, st) => visitLeaf K R lookup rest { s with kCounter := 0, accepted := true, radius := rad, st := st }
    | (.checked, rad, st) => visitLeaf K R lookup rest { s with kCounter := (if s.accepted then s.kCounter + 1 else s.kCounter), radius := rad, st := st }
    | (.ignored, rad, st) => visitLeaf K R lookup rest { s with radius := rad, st := st }

/-- priorities are signed distances to a hyperplane, as order-preserving integers; `hpDist h`/`hpRight h`
    are the oracle's answers for the query vector -/
def searchLoop (searchK K R : Nat) (lookup : Nat → Option Cand) (hpDist : H → Nat) (hpRight : H → Bool) :
    Nat → LoopSt → LoopSt
  | 0, s => s
  | fuel+1, s =>
    if s.stopped then s else
    match hpop s.pq with
    | none => s
    | some (item, pq') =>
      let s := { s with pq := pq' }
      let isLeaf := match item.node with | .leaf _ => true | _ => false
      if item.prio < 0 ∧ (-item.prio) > (s.radius : Int) ∧ isLeaf = true then searchLoop searchK K R lookup hpDist hpRight fuel s
      else if s.kCounter ≥ searchK then s
      else
        match item.node with
        | .leaf ids => searchLoop searchK K R lookup hpDist hpRight fuel (visitLeaf K R lookup ids s)
        | .node h l r =>
          let d : Int := hpDist h
          let pq'' := if hpRight h then hpush (hpush s.pq { node := r, prio := d }) { node := l, prio := -d }
                      else hpush (hpush s.pq { node := l, prio := d }) { node := r, prio := -d }
          searchLoop searchK K R lookup hpDist hpRight fuel { s with pq := pq'' }

def Tree.size : Tree → Nat
  | .leaf _ => 1
  | .node _ l r => 1 + l.size + r.size

/-- `lshTree.search` + result extraction: the results in ascending order and `pointsSearched` -/
def search (searchK K R : Nat) (maxRadius : Nat) (forest : List Tree) (lookup : Nat → Option Cand)
    (hpDist : H → Nat) (hpRight : H → Bool) : List Cand × Nat :=
  let pq := forest.foldl (fun a t => hpush a { node := t, prio := 0 }) #[]
  let fuel := (forest.map Tree.size).sum + 1
  let s0 : LoopSt := { pq := pq, visited := [], kCounter := 0, accepted := false,
                       radius := (if R > 0 then R else maxRadius), st := { heap := [], searched := 0 } }
  let s := searchLoop searchK K R lookup hpDist hpRight fuel s0
  (s.st.heap.reverse, s.st.searched)

end Syzgy.Lsh
