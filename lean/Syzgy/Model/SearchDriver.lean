import Syzgy.Model.Search
/-! Driver commands: `knn K cands`, `radius R cands`, `list off lim items`. -/
namespace Syzgy

def decCands (s : String) : Option (List Cand) :=
  if s = "-" then some [] else
  (s.splitOn ",").mapM fun e =>
    match e.splitOn ":" with
    | [i, d, a] => do
      let i ← i.toNat?
      let d ← d.toNat?
      pure { id := i, dist := d, acc := a == "1" }
    | _ => none

def decItems (s : String) : Option (List (Nat × Bool)) :=
  if s = "-" then some [] else
  (s.splitOn ",").mapM fun e =>
    match e.splitOn ":" with
    | [i, a] => do
      let i ← i.toNat?
      pure (i, a == "1")
    | _ => none

def resLine (l : List Cand) : String :=
  "res " ++ (if l.isEmpty then "-" else ",".intercalate (l.map fun c => toString c.id ++ ":" ++ toString c.dist))

def searchStep (toks : List String) : Option String :=
  match toks with
  | ["knn", k, cands] =>
    match k.toNat?, decCands cands with
    | some k, some cs => some (resLine (exactKnn k cs))
    | _, _ => some "bad-op"
  | ["radius", r, cands] =>
    match r.toNat?, decCands cands with
    | some r, some cs => some (resLine (exactRadius r cs))
    | _, _ => some "bad-op"
  | ["list", off, lim, items] =>
    match off.toNat?, lim.toNat?, decItems items with
    | some off, some lim, some its =>
      let l := listing off lim its
      some ("res " ++ (if l.isEmpty then "-" else ",".intercalate (l.map toString)))
    | _, _, _ => some "bad-op"
  | _ => none

end Syzgy
