import Syzgy.Model.Basic
/-!
# freemap.go — `markFree`, `markUsed`, `getFreeRange`
-/
namespace Syzgy

structure Sp where
  start : Nat
  len : Nat
deriving DecidableEq, Repr

def Sp.stop (s : Sp) : Nat := s.start + s.len

/-- insertion used to model `sort.Slice` by start (input order kept among equal starts) -/
def insertByStart (x : Sp) : List Sp → List Sp
  | [] => [x]
  | a :: r => if x.start ≤ a.start then x :: a :: r else a :: insertByStart x r

def sortByStart (l : List Sp) : List Sp := l.foldr insertByStart []

/-- the merge loop of `markFree`; the last merged region is carried as the head -/
def mergePass : List Sp → List Sp
  | [] => []
  | [a] => [a]
  | a :: b :: r =>
    if a.stop < b.start then a :: mergePass (b :: r)
    else mergePass ({ start := a.start, len := b.stop - a.start } :: r)
termination_by l => l.length

/-- `freeMap.markFree(start, length)` -/
def markFree (fm : List Sp) (start len : Nat) : List Sp :=
  if len = 0 then fm else mergePass (sortByStart (fm ++ [{ start := start, len := len }]))

/-- `freeMap.markUsed(start, length)` -/
def markUsed : List Sp → Nat → Nat → List Sp
  | fm, start, len =>
    if len = 0 then fm else go fm [] start len
where
  go : List Sp → List Sp → Nat → Nat → List Sp
  | [], acc, _, _ => acc.reverse
  | s :: rest, acc, start, len =>
    if s.start ≤ start ∧ start + len ≤ s.start + s.len then
      if start = s.start then
        let s' : Sp := { start := s.start + len, len := s.len - len }
        if s'.len = 0 then acc.reverse ++ rest else acc.reverse ++ s' :: rest
      else if start + len = s.start + s.len then
        let s' : Sp := { start := s.start, len := s.len - len }
        if s'.len = 0 then acc.reverse ++ rest else acc.reverse ++ s' :: rest
      else
        -- middle: the tail piece is appended at the end, the head piece stays in place
        let s' : Sp := { start := s.start, len := start - s.start }
        let tailPiece : Sp := { start := start + len, len := s.start + s.len - (start + len) }
        if s'.len = 0 then acc.reverse ++ rest ++ [tailPiece] else acc.reverse ++ s' :: rest ++ [tailPiece]
    else go rest (s :: acc) start len

/-- `freeMap.getFreeRange(length)`: first fit; returns start, remaining, new map -/
def getFreeRange (fm : List Sp) (len : Nat) : Option (Nat × Nat × List Sp) :=
  if len = 0 then none else go fm [] len
where
  go : List Sp → List Sp → Nat → Option (Nat × Nat × List Sp)
  | [], _, _ => none
  | s :: rest, acc, len =>
    if s.len ≥ len then
      let s' : Sp := { start := s.start + len, len := s.len - len }
      some (s.start, s.len - len, if s'.len = 0 then acc.reverse ++ rest else acc.reverse ++ s' :: rest)
    else go rest (s :: acc) len

end Syzgy
