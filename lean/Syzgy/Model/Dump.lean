import Syzgy.Model.Basic
/-!
# dump.go — `ExportJSON` / `ImportJSON` at the level of records

A record is (id, codes, metadata). Export writes each stored component `deq k` with `fmt`; import
parses it and `AddDocument` quantizes it again. `fmt`/`parse` (strconv) and the JSON layer
(`encoding/json`, which preserves JSON equality of metadata) are parameters.
-/
namespace Syzgy

structure Rec where
  id : Nat
  codes : List Nat
  md : Bytes
deriving DecidableEq, Repr

structure ExpRec (T : Type) where
  id : Nat
  comps : List T      -- the printed vector components
  md : Bytes

variable {F T : Type}

def exportRecs (deq : Nat → F) (fmt : F → T) (docs : List Rec) : List (ExpRec T) :=
  docs.map fun d => { id := d.id, comps := d.codes.map (fun k => fmt (deq k)), md := d.md }

/-- `none` when a printed component does not parse (import fails) -/
def importRecs (q : F → Nat) (parse : T → Option F) (recs : List (ExpRec T)) : Option (List Rec) :=
  recs.mapM fun r => do
    let vs ← r.comps.mapM parse
    pure { id := r.id, codes := vs.map q, md := r.md }

end Syzgy
