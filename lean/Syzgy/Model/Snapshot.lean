import Syzgy.Model.Basic
/-!
# Provenance of values crossing the API (C11)

A byte value handed to the caller is either a private `copy` or a `view` of a generation of the
file mapping. A view reads whatever the file holds *now*, and faults once that generation has been
unmapped (growth remaps, `Close` unmaps). `Api.retProv` records, per API and field, which of the two
the code returns; it is tied to the source by regenerated facts.
-/
namespace Syzgy.Snapshot

inductive Prov
  | copy
  | view (gen off len : Nat)
deriving DecidableEq, Repr

structure Val where
  prov : Prov
  bytes : Bytes            -- content at the moment the call returned
deriving Repr

/-- memory: the current content of each mapping generation, `none` once unmapped -/
abbrev Mem := Nat → Option Bytes

/-- what the caller sees when it reads a held value later -/
def observe (mem : Mem) (v : Val) : Outcome Bytes :=
  match v.prov with
  | .copy => .ok v.bytes
  | .view gen off len =>
    match mem gen with
    | none => .panic "fault: mapping generation unmapped"
    | some file => .ok ((file.drop off).take len)

inductive Api | getDocument | searchExact | searchDefault | searchListing
deriving DecidableEq, Repr

inductive Field | metadata | vector
deriving DecidableEq, Repr

/-- provenance of each returned field, as the code builds it: `getDocument` copies the metadata and
    decodes the vector into a fresh slice; exact and default search go through `getDocument`; the
    listing branch copies the stream it read -/
def retProv : Api → Field → Prov
  | _, _ => .copy

end Syzgy.Snapshot
