import Syzgy.Generated.Facts
/-!
Tie: route table of `RunServer`, the status codes each handler can answer (in source order), the
collection-name validator and the constructor's option validation — as they are in /repo now.
-/
namespace Syzgy.Tie.Rest

theorem restRoutes : Facts.restRoutes = some ["strings.HasSuffix(r.URL.Path, \"/records\") && r.Method == http.MethodPost => server.handleInsertRecord(w, r)", "strings.Contains(r.URL.Path, \"/records/\") && r.Method == http.MethodPut => server.handleUpdateMetadata(w, r)", "strings.Contains(r.URL.Path, \"/records/\") && r.Method == http.MethodDelete => server.handleDeleteRecord(w, r)", "strings.HasSuffix(r.URL.Path, \"/search\") && (r.Method == http.MethodGet || r.Method == http.MethodPost) => server.handleSearchRecords(w, r)", "Handle \"/api/v1/collections\"", "Handle \"/api/v1/collections/\"", "Handle \"/\""] := rfl

theorem status_of_handleCollections : Facts.status_handleCollections = some ["StatusBadRequest", "StatusBadRequest", "StatusBadRequest", "StatusBadRequest", "StatusInternalServerError", "StatusCreated"] := rfl

theorem status_of_handleCollection : Facts.status_handleCollection = some ["StatusBadRequest", "StatusOK", "StatusNotFound", "StatusOK"] := rfl

theorem status_of_handleInsertRecord : Facts.status_handleInsertRecord = some ["StatusBadRequest", "StatusNotFound", "StatusBadRequest", "StatusInternalServerError", "StatusBadRequest", "StatusBadRequest", "StatusInternalServerError", "StatusCreated"] := rfl

theorem status_of_handleUpdateMetadata : Facts.status_handleUpdateMetadata = some ["StatusBadRequest", "StatusBadRequest", "StatusNotFound", "StatusBadRequest", "StatusInternalServerError", "StatusNotFound", "StatusOK"] := rfl

theorem status_of_handleDeleteRecord : Facts.status_handleDeleteRecord = some ["StatusBadRequest", "StatusBadRequest", "StatusNotFound", "StatusNotFound", "StatusOK"] := rfl

theorem status_of_handleSearchRecords : Facts.status_handleSearchRecords = some ["StatusBadRequest", "StatusNotFound", "StatusBadRequest", "StatusMethodNotAllowed", "StatusBadRequest", "StatusInternalServerError", "StatusBadRequest"] := rfl

theorem validCollectionName : Facts.validCollectionName = some "{ if name == \"\" || name == \".\" || name == \"..\" { return false } return !strings.ContainsAny(name, \"/\\\\\\x00\") }" := rfl

theorem createValidatesName : Facts.createValidatesName = some 1 := rfl

theorem constructorValidation : Facts.constructorValidation = some "{ switch options.Quantization { case 0, 4, 8, 16, 32, 64: default: return nil, fmt.Errorf(\"unsupported quantization %d (supported: 4, 8, 16, 32, 64)\", options.Quantization) } if options.DimensionCount <= 0 { return nil, fmt.Errorf(\"dimension count must be positive, got %d\", options.DimensionCount) } if options.DistanceMethod != Euclidean && options.DistanceMethod != Cosine { return nil, fmt.Errorf(\"unsupported distance method\") } }" := rfl

/-- record ids in request paths are parsed as unsigned 64-bit decimals (the model's `parseId`) -/
theorem rest_id_parsers : Facts.restIdParsers = some ["rest.go:handleDeleteRecord: strconv.ParseUint(parts[6], 10, 64)",
    "rest.go:handleUpdateMetadata: strconv.ParseUint(parts[len(parts)-2], 10, 64)"] := rfl

end Syzgy.Tie.Rest
