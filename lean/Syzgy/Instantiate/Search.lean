import Syzgy.Generated.Facts
/-! Tie: branch structure of `consider`, heap directions, listing branch order, LSH parameters. -/
namespace Syzgy.Tie.Search

/-- the if-chain of `consider`: error → filter → radius(<=) → radius → K → Len<=K → Len<K || top>d → Len>K → exhaustive -/
theorem consider_structure : Facts.considerConds = some ["err != nil", "args.Filter != nil && !args.Filter(doc.ID, doc.Metadata)",
    "args.Radius > 0 && distance <= args.Radius", "args.Radius > 0", "args.K > 0", "resultsPQ.Len() <= args.K",
    "resultsPQ.Len() < args.K || (*resultsPQ)[0].Priority > distance", "resultsPQ.Len() > args.K",
    "args.K == 0 && args.Radius == 0"] := rfl

/-- both priority queues are max-heaps -/
theorem heap_directions : Facts.resultLess = some "pq[i].Priority > pq[j].Priority" ∧
    Facts.nodeLess = some "pq[i].priority > pq[j].priority" := ⟨rfl, rfl⟩

/-- listing: filter → count → skip (offset) → append → stop (limit) -/
theorem listing_structure : Facts.listingConds = some ["err != nil", "args.Filter != nil && !args.Filter(id, metadata)",
    "args.Offset > 0 && pointsSearched <= args.Offset", "args.Limit > 0 && len(results) >= args.Limit"] := rfl

theorem lsh_parameters : Facts.lshThreshold = some 100 ∧ Facts.lshTrees = some 5 ∧ Facts.searchK = some 200 ∧
    Facts.signalEnum = some ["StopSearch", "PointAccepted", "PointChecked", "PointIgnored"] := ⟨rfl, rfl, rfl, rfl⟩

/-- a K-nearest traversal starts with an unbounded radius (so `hpDist h ≤ maxRadius` of
    `C04.knn_finds_something` holds for every non-NaN distance), and prunes only far-side leaves -/
theorem lsh_initial_radius : Facts.lshInitialRadius = some "math.Inf(1)" ∧
    Facts.lshPruneCondition = some "item.priority < 0 && -item.priority > radius && node.isLeaf()" := ⟨rfl, rfl⟩

/-- the glue between `Search` and the document store that `Lemmas/CollSearch.lean` models
    (`candOfEntry`, `listItem`): `consider` reads the document through `getDocument`, measures the
    distance to the *stored* vector and reports the stored id and metadata; the exact scan skips keys
    that do not parse; the listing ignores the parse error; both iterations skip the header record,
    and the sorted one orders the keys with `sort.Strings` (a function of the key set only) -/
theorem search_glue :
    Facts.considerGlue = some ["doc, err := c.getDocument(docid)", "pointsSearched++",
      "distance := c.distance(args.Vector, doc.Vector)",
      "SearchResult{ID: doc.ID, Metadata: doc.Metadata, Distance: distance}"] ∧
    Facts.exactScanBody = some ["id, err := strconv.ParseUint(recordID, 10, 64)", "if err != nil { return nil }",
      "consider(id, math.MaxFloat64)", "return nil"] ∧
    Facts.listingIdStmt = some ["id, _ := strconv.ParseUint(recordID, 10, 64)"] ∧
    Facts.iterateShape = some ["IterateRecords: range db.index", "IterateRecords: if recordID == \"\"",
      "IterateSortedRecords: range db.index", "IterateSortedRecords: if recordID != \"\"",
      "IterateSortedRecords: sort.Strings(recordIDs)", "IterateSortedRecords: range recordIDs"] := ⟨rfl, rfl, rfl, rfl⟩

/-- what each document operation does to the index, in source order (`Lemmas/LshRun.istep`): an
    overwrite takes the old point out by the vector `getDocument` returns before the record is written,
    the new point goes in after the write, routed by the vector as stored; a removal takes the point out
    before the record is removed; a metadata update makes no index call -/
theorem index_glue : Facts.indexGlue = some
    ["AddDocument: getDocument; removePoint(id, old.Vector); WriteRecord; addPoint(id, decodeVector(encodedVector, c.DimensionCount, c.Quantization))",
     "UpdateDocument: ReadRecord; WriteRecord",
     "removeDocument: getDocument; removePoint(id, doc.Vector); RemoveRecord"] := rfl

/-- the index rebuild of `NewCollection` (`C05.index_after_reopen`): every record whose key parses is decoded and
    inserted under its stored vector; the one new forest is what both `c.index` (searched) and `c.lshTree`
    (maintained) refer to, and no other function ever re-assigns either field -/
theorem index_rebuild :
    Facts.rebuildBody = some ["id, err := strconv.ParseUint(recordID, 10, 64)", "if err != nil { return nil }",
      "doc := c.decodeDocument(sr, id)", "c.lshTree.addPoint(id, doc.Vector)", "return nil"] ∧
    Facts.indexFields = some ["lshTree := newLSHTree(c, 100, 5)", "c.index = lshTree", "c.lshTree = lshTree"] ∧
    Facts.indexReassigned = some [] := ⟨rfl, rfl, rfl⟩

end Syzgy.Tie.Search
