import Syzgy.Generated.Facts
/-! Tie: keyword table, comparison-operator set, parser call chain and operator list of query/*.go. -/
namespace Syzgy.Tie.Query

theorem keywords : Facts.keywords = some ["AND=>TokenAnd", "OR=>TokenOr", "NOT=>TokenNot", "IN=>TokenIN",
    "DOES NOT EXIST=>TokenDOESNOTEXIST", "EXISTS=>TokenEXISTS", "CONTAINS=>TokenCONTAINS", "STARTS_WITH=>TokenSTARTSWITH",
    "ENDS_WITH=>TokenENDSWITH", "MATCHES=>TokenMATCHES", "LENGTH=>TokenLENGTH", "ANY=>TokenANY", "ALL=>TokenALL",
    "null=>TokenNull", "true=>TokenBoolean", "false=>TokenBoolean"] := rfl

theorem comparison_tokens : Facts.comparisonTokens = some ["TokenEqual", "TokenNotEqual", "TokenGreater", "TokenGreaterEqual",
    "TokenLess", "TokenLessEqual", "TokenIN", "TokenNOTIN", "TokenCONTAINS", "TokenSTARTSWITH", "TokenENDSWITH", "TokenMATCHES",
    "TokenEXISTS", "TokenDOESNOTEXIST"] := rfl

/-- precedence: Parse → parseExpression → parseOr → parseAnd → parseComparison → parseNot → parsePrimary -/
theorem parser_chain : Facts.parserChain = some ["Parse->parseExpression", "parseExpression->parseOr", "parseOr->parseAnd",
    "parseAnd->parseComparison", "parseComparison->parseNot", "parseNot->parsePrimary"] := rfl

/-- `Parse` checks for the end-of-input token (C15) -/
theorem parse_checks_eof : Facts.parseChecksEOF = some 1 := rfl

theorem eval_operators : Facts.evalOperators = some ["==", "!=", ">", ">=", "<", "<=", "AND", "OR", "NOT", "IN", "NOT_IN",
    "CONTAINS", "STARTS_WITH", "ENDS_WITH", "MATCHES", ".", "[]"] := rfl

/-- no unchecked `x.(T)` in the evaluator (C14: a wrong dynamic type is an error, not a panic) -/
theorem eval_assertions_checked : Facts.evalUncheckedAssertions = some [] := rfl

/-- the filter package is pure: it imports only formatting, JSON, reflection, regular expressions, math and string
    libraries (no clock, random source, file or network) and declares no package-level variable, so the
    answer of a built filter depends only on the filter text and the metadata bytes (C14) -/
theorem query_is_pure : Facts.queryImports = some ["encoding/json", "fmt", "log", "math", "reflect", "regexp", "strconv", "strings"] ∧
    Facts.queryGlobals = some [] := ⟨rfl, rfl⟩

end Syzgy.Tie.Query
