import Syzgy.Generated.Facts
import Syzgy.Model.SpanFile
/-!
# Tie: the storage model's constants and rule shapes are those of /repo's current source.
`Generated/Facts.lean` is rewritten by `tools/extract` on every run; each theorem below fails
to check when the corresponding source fact changes.
-/
namespace Syzgy.Tie.Storage

theorem magics : Facts.activeMagic = some activeMagic ∧ Facts.freeMagic = some freeMagic ∧
    Facts.minSpanLength = some minSpanLength := by decide

/-- `write7Code` branches on exactly the model's bounds and appends 1..9 bytes -/
theorem write7_table : Facts.write7Bounds = some bounds7 ∧ Facts.write7Counts = some [1, 2, 3, 4, 5, 6, 7, 8, 9] := by decide

/-- `lengthOf7Code` uses the same bounds (plus the 2^63-1 case) and returns 1..10 -/
theorem length7_table : Facts.length7Bounds = some (bounds7 ++ [9223372036854775807]) ∧
    Facts.length7Returns = some [1, 2, 3, 4, 5, 6, 7, 8, 9, 10] := by decide

theorem growth_rule : Facts.growthQuantum = some 4096 ∧ Facts.growthFactor = some "0.05" := ⟨rfl, rfl⟩

theorem remainder_rule : Facts.remainderConds = some ["remaining > 0 && remaining < minSpanLength",
    "remaining > 0 && remaining < minSpanLength", "remaining >= minSpanLength"] := rfl

/-- order of storage steps inside `WriteRecord` / `RemoveRecord` (C07's crash points) -/
theorem step_order : Facts.writeRecordSteps = some ["allocateSpan", "writeAt", "markSpanAsFreed", "addFreeSpan"] ∧
    Facts.removeRecordSteps = some ["markSpanAsFreed", "addFreeSpan"] := ⟨rfl, rfl⟩

theorem scan_rules : Facts.scanDuplicateRule = some "!exists || span.SequenceNumber > existingSequence" ∧
    Facts.scanVerifiesChecksum = some 1 := ⟨rfl, rfl⟩

theorem freemap_rules :
    Facts.markFreeMergeCond = some "len(merged) == 0 || merged[len(merged)-1].start+merged[len(merged)-1].length < s.start" ∧
    Facts.getFreeRangeFitCond = some "s.length >= length" := ⟨rfl, rfl⟩

theorem vector_size_table : Facts.vectorSizeTable = some ["4 => (dimensions + 1) / 2", "8 => dimensions",
    "16 => dimensions * 2", "32 => dimensions * 4", "64 => dimensions * 8"] := rfl

theorem nothing_missing : Facts.missing = some [] := rfl

end Syzgy.Tie.Storage
