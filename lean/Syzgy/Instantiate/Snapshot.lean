import Syzgy.Generated.Facts
/-! Tie: `getDocument` and the listing branch of `Search` copy the metadata out of the mapping. -/
namespace Syzgy.Tie.Snapshot

theorem getDocument_copies : Facts.getDocumentBody = some [
    "span, err := c.spanfile.ReadRecord(fmt.Sprintf(\"%d\", id))",
    "metadata := make([]byte, len(span.DataStreams[0].Data))",
    "copy(metadata, span.DataStreams[0].Data)",
    "vector := decodeVector(span.DataStreams[1].Data, c.DimensionCount, c.Quantization)",
    "return &Document{ ID: id, Vector: vector, Metadata: metadata, }, nil"] := rfl

theorem listing_copies : Facts.listingMetadataStmts = some [
    "metadata, err := sr.getStream(0)",
    "metadataCopy := make([]byte, len(metadata))",
    "copy(metadataCopy, metadata)",
    "results = append(results, SearchResult{ ID: id, Metadata: metadataCopy, })"] := rfl

/-- exact and default search build their results from `getDocument` (the `consider` closure) -/
theorem consider_uses_getDocument : Facts.considerConds.map (fun l => l.head?) = some (some "err != nil") := rfl

end Syzgy.Tie.Snapshot
