import Syzgy.Generated.Facts
/-! Tie: `getDocument` and the listing branch of `Search` copy the metadata out of the mapping. -/
namespace Syzgy.Tie.Snapshot

theorem getDocument_copies : Facts.getDocumentBody = some [
    "span, err := c.spanfile.ReadRecord(fmt.Sprintf(\"%d\", id))",
    "metadata := make([]byte, len(span.DataStreams[0].Data))",
    "copy(metadata, span.DataStreams[0].Data)",
    "vector := decodeVector(span.DataStreams[1].Data, c.DimensionCount, c.Quantization)",
    "return &Document{ ID: id, Vector: vector, Metadata: metadata, }, nil"] := rfl

theorem listing_copies : Facts.listingMetadataStmts = some [
    "metadata, err := sr.getStream(0)",
    "metadataCopy := make([]byte, len(metadata))",
    "copy(metadataCopy, metadata)",
    "results = append(results, SearchResult{ ID: id, Metadata: metadataCopy, })"] := rfl

/-- exact and default search build their results from `getDocument` (the `consider` closure) -/
theorem consider_uses_getDocument : Facts.considerConds.map (fun l => l.head?) = some (some "err != nil") := rfl

/-- the caller's slices are not retained: every statement of `AddDocument` / `UpdateDocument` that mentions a parameter slice
    (or the local document and stream list built from it) and every statement of `WriteRecord` that mentions the streams:
    a length check, local literals, `encodeDocument`, `serializeSpan` — which copies into a fresh byte slice — and nothing
    that stores them in the collection or the span file -/
theorem caller_slices_not_retained : Facts.callerSliceUses = some ["AddDocument: if len(vector) != c.DimensionCount { log.Panicf(\"vector size does not match the expected number of dimensions: expected %d, got %d\", c.DimensionCount, len(vecto", "AddDocument: doc := &Document{ Vector: vector, Metadata: metadata, ID: id, }", "AddDocument: encodedVector := encodeDocument(doc, c.Quantization)", "AddDocument: dataStreams := []DataStream{ {StreamID: 0, Data: metadata}, {StreamID: 1, Data: encodedVector}, }", "AddDocument: err := c.spanfile.WriteRecord(fmt.Sprintf(\"%d\", id), dataStreams)", "UpdateDocument: dataStreams := []DataStream{ {StreamID: 0, Data: newMetadata}, {StreamID: 1, Data: span.DataStreams[1].Data}, }", "UpdateDocument: err = c.spanfile.WriteRecord(fmt.Sprintf(\"%d\", id), dataStreams)", "WriteRecord: span := &Span{ MagicNumber: activeMagic, SequenceNumber: sequenceNumber, RecordID: recordID, DataStreams: dataStreams, }", "WriteRecord: spanBytes, err := serializeSpan(span)"] := rfl

/-- the caller's slices are not modified: `normalizeVector` is the only function of the package that writes through a
    slice parameter (element assignment, `copy` into it, `binary.…Put…` on it), its only call site hands it a vector
    the callee has just allocated, and `Search` hands the query vector to the (read-only) distance function and index
    search only — besides printing the argument struct -/
theorem caller_slices_not_modified :
    Facts.paramSliceWriters = some ["normalizeVector:vector"] ∧
    Facts.sliceWriterCalls = some ["randomNormalizedVector: normalizeVector(vector)"] ∧
    Facts.searchVectorUses = some ["distance := c.distance(args.Vector, doc.Vector)", "c.index.search(args.Vector, radius, consider)", "args passed whole: log.Printf(\"Search called with %+v\", args)"] :=
  ⟨rfl, rfl, rfl⟩

end Syzgy.Tie.Snapshot
