import Syzgy.Generated.Facts
import Syzgy.Lemmas.Lock
/-!
Tie: the lock programs of the public Collection methods, regenerated from the source (ordered
Lock/RLock/Unlock/RUnlock incl. deferred releases, calls inlined), satisfy the static discipline
`Disc` (balanced, never re-entrant, Collection.mutex before SpanFile.fileMutex).
-/
namespace Syzgy.Tie.Lock
open Syzgy.Lock

theorem method_names : Facts.lockMethodNames = some ["GetDocumentCount", "ComputeStats", "GetOptions", "GetAllIDs",
    "computeAverageDistance", "Close", "AddDocument", "GetDocument", "getDocument", "UpdateDocument", "removeDocument",
    "Search", "spanfile.WriteRecord", "spanfile.RemoveRecord", "spanfile.ReadRecord", "spanfile.Close",
    "spanfile.IterateRecords", "spanfile.IterateSortedRecords", "spanfile.GetStats"] := rfl

def table : List Row := Facts.lockTable.getD []

/-- the public operations of the property: GetDocumentCount, ComputeStats, GetOptions, GetAllIDs, Close,
    AddDocument, GetDocument, UpdateDocument, removeDocument, Search -/
def publicMethods : List Nat := [0, 1, 2, 3, 5, 6, 7, 9, 10, 11]

/-- **every public method's lock program is disciplined** -/
theorem public_methods_disciplined : ∀ i ∈ publicMethods, Disc [] (compileMethod table i) := by
  intro i hi
  rw [← discB_iff]
  revert i
  decide

/-- mutators take the collection lock in write mode, readers in read mode (first action) -/
theorem lock_modes :
    (compileMethod table 6).head? = some (.acq 0 .W) ∧ (compileMethod table 9).head? = some (.acq 0 .W) ∧
    (compileMethod table 10).head? = some (.acq 0 .W) ∧ (compileMethod table 5).head? = some (.acq 0 .W) ∧
    (compileMethod table 7).head? = some (.acq 0 .R) ∧ (compileMethod table 3).head? = some (.acq 0 .R) ∧
    (compileMethod table 0).head? = some (.acq 0 .R) ∧ (compileMethod table 11).head? = some (.acq 0 .R) ∧
    (compileMethod table 1).head? = some (.acq 0 .R) := by decide

/-- the seeded random source shared by the per-tree insert goroutines is synchronised, and
    `addPoint` starts exactly one goroutine per tree (each writing only its own root slot) -/
theorem fanout_facts : Facts.treeRandSynchronised = some 1 ∧ Facts.addPointGoStmts = some 1 ∧
    Facts.treeRandSource = some "myRandom.ThreadsafeNew()" := ⟨rfl, rfl, rfl⟩

/-- **every public method is one critical section of the collection lock**: its first statement takes
    `c.mutex` and its second defers the release, so everything the method does happens inside -/
theorem one_critical_section : Facts.publicMethodHeads = some
    ["GetDocumentCount: c.mutex.RLock(); defer c.mutex.RUnlock()", "ComputeStats: c.mutex.RLock(); defer c.mutex.RUnlock()",
     "GetOptions: c.mutex.RLock(); defer c.mutex.RUnlock()", "GetAllIDs: c.mutex.RLock(); defer c.mutex.RUnlock()",
     "Close: c.mutex.Lock(); defer c.mutex.Unlock()", "AddDocument: c.mutex.Lock(); defer c.mutex.Unlock()",
     "GetDocument: c.mutex.RLock(); defer c.mutex.RUnlock()", "UpdateDocument: c.mutex.Lock(); defer c.mutex.Unlock()",
     "removeDocument: c.mutex.Lock(); defer c.mutex.Unlock()", "Search: c.mutex.RLock(); defer c.mutex.RUnlock()"] := rfl

/-- **readers do not write**: in the functions that run under the read lock (the reading public methods,
    `getDocument`, `computeAverageDistance`, the span-file read and iteration functions, `getStream`,
    `lshTree.search`) no assignment or increment targets anything reachable from the receiver and no
    mutating method is called (`Lin.Call.WF`) -/
theorem readers_do_not_write : Facts.readerWrites = some [] := rfl

end Syzgy.Tie.Lock
