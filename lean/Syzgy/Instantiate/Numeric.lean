import Syzgy.Generated.Facts
/-! Tie: statement shapes of `quantize`, `dequantize`, `euclideanDistance`, `angularDistance`. -/
namespace Syzgy.Tie.Numeric

theorem quantize_shape : Facts.quantizeShape = some ["uint64(math.Float32bits(float32(value)))", "math.Float64bits(value)",
    "if value < -1", "value = -1", "if value > 1", "value = 1", "maxInt := (1 << bits) - 1",
    "quantizedValue := (value + 1) / 2 * float64(maxInt)", "uint64(math.Round(quantizedValue))"] := rfl

theorem dequantize_shape : Facts.dequantizeShape = some ["float64(math.Float32frombits(uint32(value)))",
    "math.Float64frombits(value)", "maxInt := (1 << bits) - 1", "(float64(value)/float64(maxInt))*2 - 1"] := rfl

theorem euclidean_shape : Facts.euclideanDistanceShape = some ["sum := 0.0", "range vec1", "diff := vec1[i] - vec2[i]",
    "sum += diff * diff", "return math.Sqrt(sum)"] := rfl

/-- includes the clamp to [-1, 1] before `Acos` -/
theorem angular_shape : Facts.angularDistanceShape = some ["dotProduct, magnitude1, magnitude2 := 0.0, 0.0, 0.0", "range vec1",
    "dotProduct += vec1[i] * vec2[i]", "magnitude1 += vec1[i] * vec1[i]", "magnitude2 += vec2[i] * vec2[i]",
    "if magnitude1 == 0 || magnitude2 == 0", "return 1.0",
    "cosine := dotProduct / (math.Sqrt(magnitude1) * math.Sqrt(magnitude2))", "if cosine > 1", "cosine = 1",
    "if cosine < -1", "cosine = -1", "return math.Acos(cosine) / math.Pi"] := rfl

theorem vector_size_table : Facts.vectorSizeTable = some ["4 => (dimensions + 1) / 2", "8 => dimensions",
    "16 => dimensions * 2", "32 => dimensions * 4", "64 => dimensions * 8"] := rfl

end Syzgy.Tie.Numeric

namespace Syzgy.Tie.Dump
/-- ExportJSON prints vector components in the shortest form that parses back to the same float64 -/
theorem export_format : Facts.exportVectorLoop = some "{\n\tif j > 0 {\n\t\tfmt.Fprint(w, \", \")\n\t}\n\n\tfmt.Fprint(w, strconv.FormatFloat(v, 'g', -1, 64))\n}" := rfl
/-- ids travel as unsigned decimals: `ExportJSON` prints the `uint64` id with `%d`, `ImportJSON` decodes it into a `uint64`
    field and hands id, vector and metadata to `AddDocument` unchanged -/
theorem import_record : Facts.importRecord = some ["field ID uint64 `json:\"id\"`", "field Vector []float64 `json:\"vector\"`",
      "field Metadata json.RawMessage `json:\"metadata\"`", "collection.AddDocument(doc.ID, doc.Vector, doc.Metadata)"] ∧
    Facts.exportIdStmts = some ["fmt.Fprintf(w, \" \\\"id\\\": %d,\\n\", id)"] := ⟨rfl, rfl⟩
end Syzgy.Tie.Dump
