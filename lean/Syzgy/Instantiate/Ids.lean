import Syzgy.Generated.Facts
/-!
Tie: how a document id becomes a record key and back (the model: `ridOf` = decimal rendering of the unsigned id,
`parseUint` = `strconv.ParseUint(s, 10, 64)`; `C01.record_id_parses_back`, `record_ids_distinct`).
-/
namespace Syzgy.Tie.Ids

/-- every record call of the document operations renders the id with `fmt.Sprintf("%d", id)` on the unsigned id; the
    header record has the empty key -/
theorem record_keys : Facts.recordKeyExprs = some
    ["AddDocument: WriteRecord(fmt.Sprintf(\"%d\", id))", "NewCollection: ReadRecord(\"\")", "NewCollection: WriteRecord(\"\")",
     "UpdateDocument: ReadRecord(fmt.Sprintf(\"%d\", id))", "UpdateDocument: WriteRecord(fmt.Sprintf(\"%d\", id))",
     "getDocument: ReadRecord(fmt.Sprintf(\"%d\", id))", "removeDocument: RemoveRecord(fmt.Sprintf(\"%d\", id))"] := rfl

/-- `GetAllIDs` parses keys back as unsigned 64-bit decimals -/
theorem get_all_ids_parser : Facts.getAllIDsParser = some ["collection.go:GetAllIDs: strconv.ParseUint(recordID, 10, 64)"] := rfl

end Syzgy.Tie.Ids
