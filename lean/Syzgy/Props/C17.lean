import Syzgy.Lemmas.Rest
import Syzgy.Lemmas.RestDocs
import Syzgy.Lemmas.RestSession
/-!
# C17 — the REST server behaves as the document-store model, across restarts
The model *is* the sequential specification: `name ↦ (options, id ↦ metadata)` with the handlers'
decision logic. The theorems are its frame and restart properties; the tie to the real server is the
request-by-request correspondence (status + canonical payload) run by `./check C17`.
-/
namespace Syzgy.C17
open Syzgy.Rest

/-- collections do not influence each other: whatever the request, at most one collection differs
    between the state before and after -/
theorem frame (s : Server) (method path : Bytes) (body : Body) :
    ∃ s' r, handle s method path body = .ok (s', r) ∧
      ∃ touched : Bytes, ∀ n, n ≠ touched → lookup s' n = lookup s n := by
  obtain ⟨s', r, h, eff, _⟩ := handle_spec s method path body
  refine ⟨s', r, h, ?_⟩
  cases eff with
  | same => exact ⟨[], fun _ _ => rfl⟩
  | put name c => exact ⟨name, fun n hn => lookup_put_ne s name n c hn⟩
  | drop name => exact ⟨name, fun n hn => lookup_remove_ne s name n hn⟩

/-- restarting the server is the identity on the served state, given that reopening a collection
    file reproduces the collection (C02) -/
theorem restart_identity (s : Server) : restart s = s := rfl

/-- status classes: an unknown collection is 404 for inspection, ids, listing/search, insert,
    metadata update and record deletion (whatever the rest of the request looks like) -/
theorem unknown_collection_404 (s : Server) (parts : List Bytes) (name : Bytes) (hp : parts[4]? = some name)
    (h : lookup s name = none) :
    (∀ method, method ≠ b!"DELETE" → handleCollection s parts method = .ok (s, { status := 404 })) ∧
    (∀ body, handleInsert s parts body = .ok (s, { status := 404 })) ∧
    (∀ method body, handleSearch s parts method body = .ok (s, { status := 404 })) := by
  refine ⟨?_, ?_, ?_⟩
  · intro method hm; simp [handleCollection, hp, h, hm]
  · intro body; simp [handleInsert, hp, h]
  · intro method body; simp [handleSearch, hp, h]

/-- success is 2xx: creating a new collection with supported options answers 201 and registers it -/
theorem create_ok (s : Server) (name : Bytes) (m : Nat) (dist : Bytes) (dim quant : Int)
    (hd : metricOf dist = some m) (hv : validName name = true) (hnew : lookup s name = none) (hc : ctorOk m dim quant = true) :
    ∃ c, handleCollections s b!"POST" (.create true name dist dim quant) = .ok (put s name c, { status := 201 }) := by
  simp only [handleCollections, hd, hv, hnew, hc, ↓reduceIte, Bool.not_true, Bool.false_eq_true, Option.isSome_none]
  exact ⟨_, rfl⟩

/-! ## the document operations of the REST model are those of the C01 specification
(`docGet` is the metadata map `id ↦ metadata` of one collection; compare `Lemmas/Coll.docSpec`) -/

/-- insert: a validated batch is answered 201 and binds every record of the batch, later ones winning -/
theorem insert_binds_records (s : Server) (parts : List Bytes) (name : Bytes) (c : RColl) (recs : List InsRec)
    (hp : parts[4]? = some name) (hl : lookup s name = some c)
    (hvec : recs.any (fun r => r.vecLen != some c.cfg.dim) = false) :
    ∃ docs', handleInsert s parts (.insert true recs) = .ok (put s name { c with docs := docs' }, { status := 201 }) ∧
      lookup (put s name { c with docs := docs' }) name = some { c with docs := docs' } ∧
      ∀ i, docGet docs' i = recs.foldl (fun m r => if i = r.id then some r.md else m) (docGet c.docs i) :=
  insert_semantics s parts name c recs hp hl hvec

/-- metadata update: 200 and exactly that document's metadata changes; an id that is not live is 404 and
    changes nothing -/
theorem update_changes_one_document (s : Server) (parts : List Bytes) (name idStr : Bytes) (id : Nat) (c : RColl) (md : Bytes)
    (hlen : ¬ parts.length < 6) (hp : parts[4]? = some name) (hi : parts[parts.length - 2]? = some idStr)
    (hid : parseId idStr = some id) (hl : lookup s name = some c) :
    ((docGet c.docs id).isSome = true →
      handleUpdate s parts (.update true md) = .ok (put s name { c with docs := docPut c.docs id md }, { status := 200 }) ∧
      ∀ i, docGet (docPut c.docs id md) i = if i = id then some md else docGet c.docs i) ∧
    ((docGet c.docs id).isSome = false → handleUpdate s parts (.update true md) = .ok (s, { status := 404 })) :=
  update_semantics s parts name idStr id c md hlen hp hi hid hl

/-- record deletion: 200 and exactly that document disappears; an id that is not live is 404 and changes nothing -/
theorem delete_removes_one_document (s : Server) (parts : List Bytes) (name idStr : Bytes) (id : Nat) (c : RColl)
    (hlen : ¬ parts.length < 7) (hp : parts[4]? = some name) (hi : parts[6]? = some idStr)
    (hid : parseId idStr = some id) (hl : lookup s name = some c) :
    ((docGet c.docs id).isSome = true →
      handleDeleteRecord s parts = .ok (put s name { c with docs := c.docs.filter (fun e => e.1 != id) }, { status := 200 }) ∧
      ∀ i, docGet (c.docs.filter (fun e => e.1 != id)) i = if i = id then none else docGet c.docs i) ∧
    ((docGet c.docs id).isSome = false → handleDeleteRecord s parts = .ok (s, { status := 404 })) :=
  delete_semantics s parts name idStr id c hlen hp hi hid hl

/-! ## sessions and restarts -/

/-- **a restart may fall anywhere in a session**: serving `qs₁`, restarting (kill -9 included, given
    C02/C07 for the files) and serving `qs₂` gives the answers and the final state of serving
    `qs₁ ++ qs₂` without the restart -/
theorem restart_anywhere_in_a_session (s s1 s2 : Server) (qs1 qs2 : List Req) (rs1 rs2 : List Resp)
    (h1 : serve s qs1 = .ok (s1, rs1)) (h2 : serve (restart s1) qs2 = .ok (s2, rs2)) :
    serve s (qs1 ++ qs2) = .ok (s2, rs1 ++ rs2) :=
  serve_append qs1 qs2 s s1 s2 rs1 rs2 h1 h2

/-- **frame over a whole session**: a collection that no request of the session changes... is stated
    per request by `frame`; over a session, the state is a function of the accepted requests alone -/
theorem session_state_depends_on_accepted_requests_only (s s' : Server) (qs : List Req) (rs : List Resp)
    (h : serve s qs = .ok (s', rs)) : ∃ rs', serve s (accepted qs rs) = .ok (s', rs') :=
  ⟨_, rejected_erasable qs s s' rs h⟩

/-- **collections do not influence each other over a whole session**: a session of `n` requests
    changes at most `n` collections; every other collection is served exactly as before -/
theorem frame_over_a_session (s s' : Server) (qs : List Req) (rs : List Resp) (h : serve s qs = .ok (s', rs)) :
    ∃ touched : List Bytes, touched.length ≤ qs.length ∧ ∀ n, n ∉ touched → lookup s' n = lookup s n :=
  session_frame qs s s' rs h

end Syzgy.C17
