import Syzgy.Lemmas.LshSound
import Syzgy.Lemmas.LshComplete
import Syzgy.Lemmas.LshLeaf
import Syzgy.Lemmas.LshRun
/-!
# C04 — approximate search is sound
-/
namespace Syzgy.C04
open Syzgy.Lsh

/-- For **every** forest (any shape, any id lists, ids repeated across or inside trees, dead ids),
    every priority/side oracle (every choice of hyperplanes, any floating-point geometry), every
    `search_k`, K and radius: the result of the default-precision search is sorted by non-decreasing
    distance, free of duplicates, contains only live documents accepted by the filter, each with its
    own true distance (the candidate `lookup` returns for that id), only within-radius entries in
    radius mode, and at most K entries in K mode. No index invariant is needed. -/
theorem lsh_sound (searchK K R maxRadius : Nat) (forest : List Tree) (lookup : Nat → Option Cand)
    (hlk : ∀ id c, lookup id = some c → c.id = id) (hpDist : H → Nat) (hpRight : H → Bool) :
    let res := (search searchK K R maxRadius forest lookup hpDist hpRight).1
    List.Pairwise (fun a b => a.dist ≤ b.dist) res ∧ (res.map (·.id)).Nodup ∧
    (∀ c ∈ res, lookup c.id = some c ∧ c.acc = true ∧ (R > 0 → c.dist ≤ R)) ∧ (R = 0 → res.length ≤ K) :=
  search_sound searchK K R maxRadius forest lookup hlk hpDist hpRight

/-- **A K-nearest search returns at least one result whenever some live document passes the filter.**
    For every forest shape (any depth, ids repeated across trees), every hyperplane oracle, every
    early-stop budget `search_k > 0` and every K > 0: if every listed id is live (the index invariant of
    C05) and some listed document passes the filter, the default-precision search returns a non-empty
    list. `hprio` says that no hyperplane distance exceeds the initial radius; the implementation starts
    with +Inf (regenerated fact `Tie.Search.lsh_initial_radius`), so it holds for every non-NaN distance.
    (With the former initial radius `MaxFloat64` the hypothesis failed for overflowing distances, and so
    did the implementation: fixed in /repo 93c5d62.) -/
theorem knn_finds_something (searchK K maxRadius : Nat) (hK : 0 < K) (hsK : 0 < searchK) (forest : List Tree)
    (lookup : Nat → Option Cand) (hpDist : H → Nat) (hpRight : H → Bool) (hprio : ∀ h, hpDist h ≤ maxRadius)
    (hlive : ∀ t ∈ forest, ∀ id ∈ t.ids, ∃ c, lookup id = some c)
    (hmatch : ∃ t ∈ forest, ∃ id ∈ t.ids, ∃ c, lookup id = some c ∧ c.acc = true) :
    (search searchK K 0 maxRadius forest lookup hpDist hpRight).1 ≠ [] :=
  search_nonempty searchK K maxRadius hK hsK forest lookup hpDist hpRight hprio hlive hmatch

/-- **On collections small enough for one leaf per tree the default-precision search gives the exact
    search's answer.** Every tree is a single leaf listing the live ids in its own order (the index
    invariant of C05 before any split: up to 100 documents). For every K > 0, every `search_k > 0` and
    every order in which the exact scan may visit the documents, the two results have the same length
    and the same distances position by position; the default-precision result *is* the exact scan over
    one of the leaves' orders (`single_leaf_scan`), so ids can differ only among equal distances. -/
theorem single_leaf_equals_exact (searchK K maxRadius : Nat) (hK : 0 < K) (hsK : 0 < searchK) (leaves : List (List Nat))
    (hne : leaves ≠ []) (live : List Nat) (hnd : live.Nodup) (hperm : ∀ l ∈ leaves, l.Perm live)
    (lookup : Nat → Option Cand) (cand : Nat → Cand) (hlk : ∀ id ∈ live, lookup id = some (cand id))
    (hpDist : H → Nat) (hpRight : H → Bool) (order : List Nat) (ho : order.Perm live) :
    (search searchK K 0 maxRadius (leaves.map Tree.leaf) lookup hpDist hpRight).1.map (·.dist) =
      (exactKnn K (order.map cand)).map (·.dist) :=
  single_leaf_exact searchK K maxRadius hK hsK leaves hne live hnd hperm lookup cand hlk hpDist hpRight order ho

/-- **a collection that never held more than `threshold` documents has one leaf per tree**: for every history
    of AddDocument / UpdateDocument / removal during which the number of live documents stays within the
    leaf threshold (100 in the code, regenerated fact `lsh_parameters`), each tree of the index is a single
    leaf listing exactly the live ids — the hypothesis of `single_leaf_equals_exact` -/
theorem small_collection_has_single_leaves {V : Type} (threshold : Nat) (side : H → V → Bool) (choose : List Nat → Option H)
    (ops : List (IOp V))
    (hsm : SmallRun threshold side choose { store := fun _ => none, live := [], tree := .leaf [] } ops) :
    ∃ s' ids, irun threshold side choose { store := fun _ => none, live := [], tree := .leaf [] } ops = .ok s' ∧
      s'.tree = .leaf ids ∧ ids.Perm s'.live ∧ s'.live.Nodup ∧ (∀ i, i ∈ s'.live ↔ s'.store i ≠ none) := by
  have h0 : IInv side ({ store := fun _ => none, live := [], tree := .leaf [] } : IState V) :=
    ⟨⟨List.Perm.refl _, trivial, by simp⟩, List.nodup_nil, fun i => by simp⟩
  obtain ⟨s', ids, e, h, hl, hp⟩ := small_run_single_leaf threshold side choose ops _ h0 [] rfl hsm
  exact ⟨s', ids, e, hl, hp, h.nodup, h.exact⟩

/-- the distances of an exact K-nearest answer do not depend on the order the documents are visited in -/
theorem exact_answer_is_order_independent (K : Nat) (c1 c2 : List Cand) (hp : c1.Perm c2) :
    (exactKnn K c1).map (·.dist) = (exactKnn K c2).map (·.dist) := knn_dists_unique K c1 c2 hp

/-- the node queue (a transliteration of `container/heap`) neither loses nor duplicates a node -/
theorem node_queue_is_a_multiset (a : Array PQItem) (x : PQItem) :
    (hpush a x).Perm (a.push x) ∧
    ((a.size = 0 ∧ hpop a = none) ∨ (∃ y a', hpop a = some (y, a') ∧ a.Perm (a'.push y))) :=
  ⟨hpush_perm a x, hpop_spec a⟩

/-- sanity: a forest with a duplicated and a dead id (7) still yields a sound result -/
example :
    ((search 200 2 0 1000 [.leaf [1, 2, 2, 7], .leaf [2, 1]]
      (fun i => if i = 1 then some ⟨1, 30, true⟩ else if i = 2 then some ⟨2, 10, true⟩ else none)
      (fun _ => 0) (fun _ => false)).1.map (·.id)) = [2, 1] := by decide

end Syzgy.C04
