import Syzgy.Lemmas.LshSound
/-!
# C04 — approximate search is sound
-/
namespace Syzgy.C04
open Syzgy.Lsh

/-- For **every** forest (any shape, any id lists, ids repeated across or inside trees, dead ids),
    every priority/side oracle (every choice of hyperplanes, any floating-point geometry), every
    `search_k`, K and radius: the result of the default-precision search is sorted by non-decreasing
    distance, free of duplicates, contains only live documents accepted by the filter, each with its
    own true distance (the candidate `lookup` returns for that id), only within-radius entries in
    radius mode, and at most K entries in K mode. No index invariant is needed. -/
theorem lsh_sound (searchK K R maxRadius : Nat) (forest : List Tree) (lookup : Nat → Option Cand)
    (hlk : ∀ id c, lookup id = some c → c.id = id) (hpDist : H → Nat) (hpRight : H → Bool) :
    let res := (search searchK K R maxRadius forest lookup hpDist hpRight).1
    List.Pairwise (fun a b => a.dist ≤ b.dist) res ∧ (res.map (·.id)).Nodup ∧
    (∀ c ∈ res, lookup c.id = some c ∧ c.acc = true ∧ (R > 0 → c.dist ≤ R)) ∧ (R = 0 → res.length ≤ K) :=
  search_sound searchK K R maxRadius forest lookup hlk hpDist hpRight

/-- sanity: a forest with a duplicated and a dead id (7) still yields a sound result -/
example :
    ((search 200 2 0 1000 [.leaf [1, 2, 2, 7], .leaf [2, 1]]
      (fun i => if i = 1 then some ⟨1, 30, true⟩ else if i = 2 then some ⟨2, 10, true⟩ else none)
      (fun _ => 0) (fun _ => false)).1.map (·.id)) = [2, 1] := by decide

end Syzgy.C04
