import Syzgy.Lemmas.Pack
import Syzgy.Math.QuantRat
/-!
# C12 — quantization contract
Exact-arithmetic theorems are about the model's own `quantizeF` / `dequantizeF` instantiated at ℚ
(`quantizeF_rat` identifies it with the mathematical quantizer). Binary64 adds at most the float
slack recorded in DESIGN.md; it is compared bit-for-bit with the model on every code and breakpoint.
-/
namespace Syzgy.C12
open Syzgy.QuantRat

theorem levels_pos (bits : ℕ) (hb : 0 < bits) : 0 < 2 ^ bits - 1 := by
  have : 2 ^ 1 ≤ 2 ^ bits := Nat.pow_le_pow_right (by omega) hb
  omega

/-- the stored level is the nearest of the `M+1` evenly spaced levels, for x in [-1, 1] -/
theorem stored_is_nearest (bits : ℕ) (hb : 0 < bits) (x : ℚ) (hx0 : -1 ≤ x) (hx1 : x ≤ 1) (k : ℤ) :
    |deq (2 ^ bits - 1) (q (2 ^ bits - 1) x) - x| ≤ |deq (2 ^ bits - 1) k - x| :=
  nearest_level _ (levels_pos bits hb) x hx0 hx1 k

/-- error at most `1/(2^b - 1)` on [-1, 1] -/
theorem error_bound (bits : ℕ) (hb : 0 < bits) (x : ℚ) (hx0 : -1 ≤ x) (hx1 : x ≤ 1) :
    |deq (2 ^ bits - 1) (q (2 ^ bits - 1) x) - x| ≤ 1 / ((2 ^ bits - 1 : ℕ) : ℚ) :=
  err_bound _ (levels_pos bits hb) x hx0 hx1

/-- out-of-range components are stored as the end levels; every code is a valid level -/
theorem clamped (bits : ℕ) (x : ℚ) :
    (1 ≤ x → q (2 ^ bits - 1) x = ((2 ^ bits - 1 : ℕ) : ℤ)) ∧ (x ≤ -1 → q (2 ^ bits - 1) x = 0) ∧
    (0 ≤ q (2 ^ bits - 1) x ∧ q (2 ^ bits - 1) x ≤ ((2 ^ bits - 1 : ℕ) : ℤ)) :=
  ⟨(q_clamped _ x).1, (q_clamped _ x).2, q_range _ x⟩

/-- storing is monotone -/
theorem monotone (bits : ℕ) {x y : ℚ} (h : x ≤ y) : q (2 ^ bits - 1) x ≤ q (2 ^ bits - 1) y := q_mono _ h

/-- idempotent: storing a retrieved value retrieves the same value -/
theorem idempotent (bits : ℕ) (hb : 0 < bits) (k : ℕ) (hk : k ≤ 2 ^ bits - 1) :
    q (2 ^ bits - 1) (deq (2 ^ bits - 1) k) = k :=
  q_deq _ (levels_pos bits hb) k (by positivity) (by exact_mod_cast hk)

/-- these are statements about the model's code: `quantizeF` at exact arithmetic *is* `q` -/
theorem model_is_q (bits : ℕ) (x : ℚ) : quantizeF ratArith bits x = (q (2 ^ bits - 1) x).toNat :=
  quantizeF_rat bits x

theorem model_is_deq (bits k : ℕ) : dequantizeF ratArith bits k = deq (2 ^ bits - 1) k := dequantizeF_rat bits k

/-- bit packing: for every width 4/8/16/32/64, every dimension (odd ones under 4-bit packing
    included) and every in-range code list, the decoded vector is the encoded one — components are
    independent of their neighbours in the packed byte -/
theorem packing_roundtrip (quant : ℕ) (hq : quant = 4 ∨ quant = 8 ∨ quant = 16 ∨ quant = 32 ∨ quant = 64)
    (codes : List ℕ) (hc : ∀ c ∈ codes, c < 2 ^ quant) (tail : Bytes) :
    decodeCodes quant codes.length (encodeCodes quant codes ++ tail) = .ok codes :=
  decode_encode quant hq codes hc tail

/-- `getVectorSize` is exactly the encoded length -/
theorem vector_size (quant : ℕ) (codes : List ℕ) (n : ℕ) (h : getVectorSize quant codes.length = some n) :
    (encodeCodes quant codes).length = n := encode_length quant codes n h

/-- other widths are rejected -/
theorem other_widths_rejected (quant dim : ℕ) (h : quant ≠ 4 ∧ quant ≠ 8 ∧ quant ≠ 16 ∧ quant ≠ 32 ∧ quant ≠ 64) :
    getVectorSize quant dim = none := by
  simp [getVectorSize, h.1, h.2.1, h.2.2.1, h.2.2.2.1, h.2.2.2.2]

example : decodeCodes 4 3 (encodeCodes 4 [15, 0, 9]) = .ok [15, 0, 9] :=
  packing_roundtrip 4 (Or.inl rfl) [15, 0, 9] (by decide) []

end Syzgy.C12
