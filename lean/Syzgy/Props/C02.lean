import Syzgy.Lemmas.Scan
/-!
# C02 — durability across close / reopen
-/
namespace Syzgy.C02

/-- Opening a file that consists of well-formed segments (plus an optional zero tail) never fails
    and reconstructs index, free map and sequence number as the segment-level fold — whatever
    the segments are (any number, any ids, any payload sizes). -/
theorem open_reconstructs (segs : List Seg) (hok : ∀ s ∈ segs, s.OK) (z : Nat) :
    let A := scanSegs 0 segs { index := [], seqs := [], free := [], highest := 0 }
    scanFile (render segs ++ zeros z) =
      .ok { file := render segs ++ zeros z, index := A.index,
            free := markFree A.free (segsSize segs) z, seq := (A.highest + 1) % 4294967296 } :=
  scanFile_render segs hok z

end Syzgy.C02
