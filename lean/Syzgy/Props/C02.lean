import Syzgy.Lemmas.Scan
import Syzgy.Lemmas.Refine
import Syzgy.Lemmas.Reopen
import Syzgy.Lemmas.CrashColl
import Syzgy.Lemmas.Opts
/-!
# C02 — durability across close / reopen
-/
namespace Syzgy.C02

/-- Opening a file that consists of well-formed segments (plus an optional zero tail) never fails,
    in any mode, and reconstructs index, free map and sequence number as the segment-level fold —
    whatever the segments are (any number, any ids, any payload sizes). The only stores issued are
    the fold's patches (superseded versions) and the FREE header of a zero tail, and none when the
    file is opened read-only. -/
theorem open_reconstructs (segs : List Seg) (hok : ∀ s ∈ segs, s.OK) (z : Nat) (ro : Bool) :
    let file := render segs ++ zeros z
    let A := scanSegs file ro 0 segs { index := [], seqs := [], free := [], highest := 0 }
    scanFile file ro =
      .ok { file := applyPatches file (A.patches ++ tailPatch ro (segsSize segs) z), index := A.index,
            free := markFree A.free (segsSize segs) z, seq := (A.highest + 1) % 4294967296 } :=
  scanFile_render segs hok z ro

/-- Reopening a quiescent file (a gap-free chain in which every record id is active at most once):
    no byte of the file changes, in read-only and writable modes alike; the index is exactly
    `{id ↦ offset}` of the active segments, the free map the FREE segments, and the sequence counter
    is above every stored sequence number. The reopen options play no role. -/
theorem reopen_quiescent (segs : List Seg) (hok : ∀ s ∈ segs, s.OK) (hnd : (actRids segs).Nodup) (ro : Bool) :
    scanFile (render segs) ro =
      .ok { file := render segs, index := indexRev 0 segs [], free := freeFold 0 segs [],
            seq := (maxSeq segs 0 + 1) % 4294967296 } :=
  scanFile_quiescent segs hok hnd ro

/-- read-only open never stores through the mapping, whatever the file contains -/
theorem readonly_no_store (file : Bytes) (acc : ScanAcc) (off : Nat) :
    (freeSuperseded file true acc off).patches = acc.patches := by
  simp [freeSuperseded]

/-- **Close and reopen after any history.** Any state reached from a state that satisfies the invariant by
    any operation sequence can be reopened, read-only or writable: not one byte of the file changes,
    the rebuilt index and free map satisfy the invariant again, and the reopened file stands for the
    same store — every document written and not removed since is there with the streams last written,
    no removed or superseded version comes back. -/
theorem reopen_after_any_history (ops : List Op) (s : SF) (segs : List Seg) (h : Rep s segs) (hf : FitsAll s ops) (ro : Bool) :
    ∃ segs' s', Rep (ops.foldl applyOp s) segs' ∧
      scanFile (ops.foldl applyOp s).file ro = .ok s' ∧ s'.file = (ops.foldl applyOp s).file ∧ Rep s' segs' ∧
      ∀ r, docOf r segs' = ops.foldl specStep (fun r => docOf r segs) r := by
  obtain ⟨segs', h1, h2⟩ := run_refines ops s segs h hf
  obtain ⟨s', h3, h4, h5⟩ := reopen_refines _ segs' h1 ro
  exact ⟨segs', s', h1, h3, h4, h5, h2⟩


/-- **Close and reopen a collection after any history of document operations.** For every sequence of
    `AddDocument` / `UpdateDocument` / `removeDocument` from a collection that satisfies the invariant,
    `NewCollection` on the resulting file — in every mode that keeps the file, with any caller options,
    given that the header record decodes to the creation options (the `encoding/json` oracle) —
    succeeds (the index rebuild reads every record without failing), changes no byte, keeps the
    creation options, and the reopened collection answers `GetDocument` and `GetAllIDs` exactly as the
    specification says: every document added and not removed since is there with its last metadata and
    vector codes, no removed document comes back. -/
theorem reopen_collection_after_any_history (ops : List DocOp) (c : Coll) (segs : List Seg) (docs : DocStore)
    (h : CRep2 c segs docs) (hf : DocFitsAll2 c docs ops) (name : Bytes) (opts : Cfg) (mode : FileMode)
    (hmode : mode ≠ .createAndOverwrite) (dec : Bytes → Cfg → Option Cfg) (s0 : Stream) (more : List Stream)
    (hh : docOf [] segs = some (s0 :: more)) (hdec : dec s0.data opts = some c.cfg)
    (hmetric : c.cfg.metric = 0 ∨ c.cfg.metric = 1) :
    ∃ c', newCollection (some (ops.foldl applyDocOp c).sf.file) name opts mode dec = .ok c' ∧ c'.cfg = c.cfg ∧
      c'.sf.file = (ops.foldl applyDocOp c).sf.file ∧
      (∀ id, getDocument c' id = match ops.foldl docSpec docs id with
        | none => .err "record not found"
        | some d => .ok d) ∧
      (∀ id, id ∈ getAllIDs c' ↔ ops.foldl docSpec docs id ≠ none) :=
  reopen_after_doc_history ops c segs docs h hf name opts mode hmode dec s0 more hh hdec hmetric

/-- the index rebuild at open never fails on a collection that satisfies the invariant -/
theorem rebuild_never_fails (c : Coll) (segs : List Seg) (docs : DocStore) (h : CRep2 c segs docs) :
    rebuildCheck c.sf c.cfg = .ok () := rebuildCheck_ok c segs docs h

/-- the options record the constructor writes decodes (field extractor of the model) to the options it was
    written from, for every collection name without a double quote -/
theorem options_record_round_trip (name : Bytes) (c : Cfg) (hn : (34 : UInt8) ∉ name) :
    decodeOpts (encodeOpts name c) = some c :=
  decodeOpts_encodeOpts name c hn

/-- **a created collection reopens identically, whatever is passed when reopening** — no oracle left: create a
    collection with supported options, run any history of document operations (within the format's
    limits), then open the file again in any mode that keeps it (`CreateIfNotExists`, `ReadWrite`,
    `ReadOnly`) with *any* options `opts'` (none, conflicting ones): the constructor succeeds, changes no
    byte, the collection has the options it was **created** with, every document reads back as the
    specification says, and the ids are the specification's ids -/
theorem created_collection_reopens_identically (name : Bytes) (opts : Cfg) (hq : Supported opts.quant)
    (hm : opts.metric = 0 ∨ opts.metric = 1) (hlen : (encodeOpts name opts).length < 1000000000)
    (hname : (34 : UInt8) ∉ name) (ops : List DocOp) :
    ∃ c, newCollection none name opts .createIfNotExists = .ok c ∧
      (DocFitsAll2 c (fun _ => none) ops → ∀ (opts' : Cfg) (mode : FileMode), mode ≠ .createAndOverwrite →
        ∃ c', newCollection (some (ops.foldl applyDocOp c).sf.file) name opts' mode = .ok c' ∧ c'.cfg = opts ∧
          c'.sf.file = (ops.foldl applyDocOp c).sf.file ∧
          (∀ id, getDocument c' id = match ops.foldl docSpec (fun _ => none) id with
            | none => .err "record not found"
            | some d => .ok d) ∧
          (∀ id, id ∈ getAllIDs c' ↔ ops.foldl docSpec (fun _ => none) id ≠ none)) := by
  obtain ⟨c, segs, h1, h2, h3, _, h5⟩ := new_collection_inv name opts hq hm hlen
  refine ⟨c, h1, ?_⟩
  intro hf opts' mode hmode
  obtain ⟨c', e1, e2, e3, e4, e5⟩ := reopen_after_doc_history ops c segs _ h3 hf name opts' mode hmode
    (fun b _ => decodeOpts b) { id := 0, data := encodeOpts name opts } [] h5
    (by rw [h2]; exact decodeOpts_encodeOpts name opts hname) (by rw [h2]; exact hm)
  exact ⟨c', e1, by rw [e2, h2], e3, e4, e5⟩

/-- **only create-and-overwrite discards data**: in that mode the constructor gives the newly created collection whatever
    the file held; every other mode is covered by `created_collection_reopens_identically` -/
theorem overwrite_mode_discards (existing : Option Bytes) (name : Bytes) (opts : Cfg) (dec : Bytes → Cfg → Option Cfg) :
    newCollection existing name opts .createAndOverwrite dec = newCollection none name opts .createIfNotExists dec :=
  overwrite_discards existing name opts dec

end Syzgy.C02
