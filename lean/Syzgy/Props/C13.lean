import Syzgy.Lemmas.EvalDenote
import Syzgy.Lemmas.ParseSpec
import Syzgy.Lemmas.LexSpec
/-!
# C13 — metadata filters mean what the documented language says
-/
namespace Syzgy.C13
open Syzgy.Query

variable {N : Type} (ops : NumOps N) (rx : RegexOracle)

/-- For every expression of the documented language and every JSON document in which the compared
    fields are present with the operand types the operator expects, the evaluator applied to the
    tree the parser builds for that expression returns exactly the documented meaning. Holds for
    every number arithmetic (`ops`) and every regular-expression engine (`rx`). -/
theorem eval_denote (doc : J N) (e : Expr) (hw : wellTyped ops rx doc e = true) :
    eval ops rx doc e.ast = .ok (.bool (denote ops rx doc e)) :=
  Syzgy.Query.eval_denote ops rx doc e hw

/-- the filter function (errors reject) therefore accepts a well-typed document exactly when the
    expression is true -/
theorem filter_accepts_iff (doc : J N) (e : Expr) (hw : wellTyped ops rx doc e = true) :
    applyFilter ops rx e.ast (some doc) = denote ops rx doc e := by
  simp [applyFilter, Syzgy.Query.eval_denote ops rx doc e hw]

/-- EXISTS is true exactly when the path is present, DOES NOT EXIST is its negation — for every
    path (top-level, nested, indexed) and every document, with no typing hypothesis -/
theorem exists_iff_present (doc : J N) (p : Path) :
    eval ops rx doc (Expr.exists p).ast = .ok (.bool (lookup ops doc p).isSome) ∧
    eval ops rx doc (Expr.notExists p).ast = .ok (.bool (!(lookup ops doc p).isSome)) := by
  constructor <;> simp [Expr.ast, eval, resolve_path]

/-- IN is membership and NOT IN its negation -/
theorem in_is_membership (doc : J N) (p : Path) (items : List Lit) (v : J N) (hp : lookup ops doc p = some v) :
    denote ops rx doc (.inList p items) = items.any (fun l => deepEq ops v (litVal ops l)) ∧
    denote ops rx doc (.notInList p items) = !denote ops rx doc (.inList p items) := by
  simp [denote, hp]

/-- **The parser builds the documented tree.** For every expression of the documented language — any
    nesting of AND / OR / NOT, comparisons, string operators, IN / NOT IN lists, EXISTS / DOES NOT EXIST,
    paths with fields, indexes and `.length` — the parser run on its canonical token sequence
    (parentheses only where precedence requires them) returns exactly `e.ast` and consumes every token.
    `nok` is the number-literal oracle (`strconv.ParseFloat`); `e.OK` says the literals are valid and list
    items are numbers or strings. The lexer (text to tokens) is tied by correspondence, not proved. -/
theorem parser_builds_documented_tree (nok : NumOK) (e : Expr) (he : e.OK nok) (fuel : Nat) (hf : e.need + 2 ≤ fuel) :
    parseSrc (listSrc (e.toks 0)) nok fuel = .ok e.ast :=
  parse_canonical nok e he fuel hf

/-- **end to end on tokens**: the filter built from the canonical tokens of a well-typed expression
    accepts a document exactly when the expression is true of it -/
theorem canonical_filter_is_denote (nok : NumOK) (doc : J N) (e : Expr) (he : e.OK nok) (fuel : Nat)
    (hf : e.need + 2 ≤ fuel) (hw : wellTyped ops rx doc e = true) :
    ∃ n, parseSrc (listSrc (e.toks 0)) nok fuel = .ok n ∧ applyFilter ops rx n (some doc) = denote ops rx doc e :=
  ⟨e.ast, parse_canonical nok e he fuel hf, filter_accepts_iff ops rx doc e hw⟩

/-- **the lexer reads a spelled-out token sequence back**: for every sequence of lexable tokens (names,
    keywords, decimal literals, string literals without NUL between double quotes or — for the strings `sq`
    selects, which then contain no `'` — between single quotes, the punctuation of the language) written with
    arbitrary white space in front of the first token, between two tokens either white space or nothing
    where the second cannot be mistaken for a continuation of the first (`user.name`, `tags[0]`,
    `a==1`: `FollowOK`), and arbitrary white space at the end, `NextToken` called repeatedly serves exactly those
    tokens and then end-of-input for ever (`SimSrc … (listSrc tokens) positions`) -/
theorem lexer_reads_spelled_tokens (sq : Token → Bool) (items : List (Bytes × Token)) (trail : Bytes)
    (hok : SpellOK sq items) (htrail : isWsList trail) :
    SimSrc (nextToken (ofList (spell sq items ++ trail))) (listSrc (items.map (·.2))) (posOf sq items trail) :=
  lexes sq items trail hok htrail

/-- **from text to tree**: any spelling of the canonical tokens of an expression, with arbitrary white
    space (spaces, tabs, newlines) and either kind of quotes, parses — lexer, lazy token pulling, parser, end-of-input check and the
    model's fuel included — to the documented tree -/
theorem text_parses_to_documented_tree (sq : Token → Bool) (nok : NumOK) (e : Expr) (he : e.OK nok)
    (items : List (Bytes × Token)) (trail : Bytes) (htoks : items.map (·.2) = e.toks 0) (hok : SpellOK sq items)
    (htrail : isWsList trail) :
    parse (ofList (spell sq items ++ trail)) nok = .ok e.ast :=
  parse_text sq nok e he items trail htoks hok htrail

/-- every expression whose field names are names (not keywords), whose number literals are decimal literals
    and whose strings contain no NUL byte has such a spelling: its canonical text, tokens separated by
    single spaces -/
theorem canonical_text_parses (nok : NumOK) (e : Expr) (he : e.OK nok) (hl : e.Lex) :
    parse (ofList e.text) nok = .ok e.ast :=
  parse_canonical_text nok e he hl

/-- the same with any choice of strings written between single quotes, provided those contain no `'`
    (`status == 'active'`, the README's other spelling) -/
theorem canonical_text_parses_either_quote (sq : Token → Bool) (nok : NumOK) (e : Expr) (he : e.OK nok) (hl : e.Lex)
    (hq : e.QuotesOK sq) :
    parse (ofList (e.textQ sq)) nok = .ok e.ast ∧ parse (ofList (e.tightTextQ sq)) nok = .ok e.ast :=
  ⟨parse_canonical_textQ sq nok e he hl hq, parse_tight_textQ sq nok e he hl hq⟩

/-- … and its tight text, with a space only where two tokens would otherwise run together
    (`user.name == "x" AND tags[0] >= 2`) -/
theorem tight_text_parses (nok : NumOK) (e : Expr) (he : e.OK nok) (hl : e.Lex) :
    parse (ofList e.tightText) nok = .ok e.ast :=
  parse_tight_text nok e he hl

/-- **end to end on text**: the filter built from the canonical text of a well-typed expression accepts a
    document exactly when the expression is true of it — `BuildFilter(text)(doc) = ⟦e⟧(doc)` -/
theorem filter_from_text_is_denote (nok : NumOK) (doc : J N) (e : Expr) (he : e.OK nok) (hl : e.Lex)
    (hw : wellTyped ops rx doc e = true) :
    ∃ n, parse (ofList e.text) nok = .ok n ∧ applyFilter ops rx n (some doc) = denote ops rx doc e :=
  ⟨e.ast, parse_canonical_text nok e he hl, filter_accepts_iff ops rx doc e hw⟩

/-- AND binds tighter than OR: the canonical text of `x OR (y AND z)` has no parentheses, that of
    `(x OR y) AND z` needs them; with `parser_builds_documented_tree` both parse back to the tree they came from -/
theorem and_binds_tighter_than_or (x y z : Expr) :
    (Expr.or x (Expr.and y z)).toks 0 = x.toks 0 ++ [tk .or b!"OR"] ++ (y.toks 1 ++ [tk .and b!"AND"] ++ z.toks 2) ∧
    (Expr.and (Expr.or x y) z).toks 0 =
      (lp :: ((x.toks 0 ++ [tk .or b!"OR"] ++ y.toks 1) ++ [rp])) ++ [tk .and b!"AND"] ++ z.toks 2 :=
  and_binds_tighter x y z

/-- AND and OR chains associate to the left -/
theorem chains_are_left_associative (x y z : Expr) :
    (Expr.and (Expr.and x y) z).toks 0 = x.toks 1 ++ [tk .and b!"AND"] ++ y.toks 2 ++ [tk .and b!"AND"] ++ z.toks 2 ∧
    (Expr.or (Expr.or x y) z).toks 0 = x.toks 0 ++ [tk .or b!"OR"] ++ y.toks 1 ++ [tk .or b!"OR"] ++ z.toks 1 :=
  chains_associate_left x y z

/-- non-vacuity: a concrete well-typed pair (`age >= 18 AND name STARTS_WITH 'J'` on a document
    with both fields), over integers as the number type -/
def intOps : NumOps Int where
  eq := fun a b => a == b
  lt := fun a b => decide (a < b)
  ofNat := fun n => n
  ofInt := fun i => i
  roundToInt := fun i => i
  truncToInt := fun i => i
  parse := fun _ => 18

example : wellTyped intOps (fun _ _ => none)
    (.obj [(b!"age", .num 21), (b!"name", .str b!"Jo")])
    (.and (.cmp .ge (.field b!"age") (.num b!"18")) (.strop .startsWith (.field b!"name") b!"J")) = true := by decide

/-- non-vacuity of the text theorems: the expression above is spellable, and its canonical text is
    `age >= 18 AND name STARTS_WITH "J"` -/
example : (Expr.and (.cmp .ge (.field b!"age") (.num b!"18")) (.strop .startsWith (.field b!"name") b!"J")).Lex := by
  refine ⟨⟨⟨word_of_list _ (by decide) (by decide), by decide, by decide⟩, ⟨[49, 56], [], by simp, by decide, by simp, Or.inl rfl⟩⟩,
    ⟨⟨word_of_list _ (by decide) (by decide), by decide, by decide⟩, by decide⟩⟩

example : (Expr.and (.cmp .ge (.field b!"age") (.num b!"18")) (.strop .startsWith (.field b!"name") b!"J")).text =
    b!"age >= 18 AND name STARTS_WITH \"J\"" := by decide

/-- parentheses the grammar does not need are allowed anywhere (`Expr.group`): the README's
    `(status == "active" AND age >= 18) OR role == "admin"` is the tight text of such an expression -/
example : (Expr.or (.group (.and (.cmp .eq (.field b!"status") (.str b!"active")) (.cmp .ge (.field b!"age") (.num b!"18"))))
      (.cmp .eq (.field b!"role") (.str b!"admin"))).tightText =
    b!"(status==\"active\"AND age>=18)OR role==\"admin\"" := by decide

/-- … and with single quotes: `status=='active'AND age>=18` -/
example : (Expr.and (.cmp .eq (.field b!"status") (.str b!"active")) (.cmp .ge (.field b!"age") (.num b!"18"))).tightTextQ (fun _ => true) =
    b!"status=='active'AND age>=18" := by decide

example : (Expr.and (.cmp .eq (.field b!"status") (.str b!"active")) (.cmp .ge (.field b!"age") (.num b!"18"))).QuotesOK (fun _ => true) := by
  unfold Expr.QuotesOK; decide

/-- the tight text of a nested-path expression has no spaces around `.`, `[`, `]` -/
example : (Expr.and (.cmp .eq (.dot (.field b!"user") b!"name") (.str b!"x")) (.cmp .ge (.index (.field b!"tags") b!"0") (.num b!"2"))).tightText =
    b!"user.name==\"x\"AND tags[0]>=2" := by decide

end Syzgy.C13
