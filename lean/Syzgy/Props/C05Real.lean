import Syzgy.Math.DistReal
/-!
# C05 — the geometry behind pruning, in exact real arithmetic (Mathlib)
-/
namespace Syzgy.C05
open Syzgy.DistReal

/-- For the Euclidean metric with a unit normal (as `split` draws it): a document on the other side of a
    hyperplane from the query is at least as far from the query as the hyperplane is. This is the
    hypothesis `FarSound` of `C05.covering_radius_complete`, over the reals; in binary64 it holds up to
    rounding, which is why the harness evaluates the covering-radius clause with a radius enlarged by
    one part in 10^7. -/
theorem far_side_geometry (d : ℕ) (n q v : Fin d → ℝ) (b : ℝ) (hn : ∑ i, n i ^ 2 = 1)
    (hopp : (∑ i, n i * q i - b) * (∑ i, n i * v i - b) ≤ 0) :
    |∑ i, n i * q i - b| ≤ euclid realArith (List.ofFn q) (List.ofFn v) :=
  euclid_far_side d n q v b hn hopp

end Syzgy.C05
