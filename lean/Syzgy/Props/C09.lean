import Syzgy.Lemmas.FreeMap
import Syzgy.Lemmas.Scan
import Syzgy.Lemmas.Refine
import Syzgy.Lemmas.Reuse
/-!
# C09 — well-formed span chain, reuse of freed space
-/
namespace Syzgy.C09

/-- the free map has a canonical form: two maps of non-empty, gap-separated regions that cover the
    same bytes are equal (so "free map = maximal free runs of the file" is a statement about coverage) -/
theorem free_map_canonical (x y : List Sp) (hx : Good x) (hy : Good y) (hc : ∀ p, covers x p ↔ covers y p) : x = y :=
  good_unique x y hx hy hc

/-- freeing a region keeps the map canonical (adjacent regions are merged) and adds exactly its bytes -/
theorem mark_free (fm : List Sp) (start len : Nat) (hg : Good fm) (hlen : 0 < len)
    (hd : ∀ s ∈ fm, s.disj ({ start := start, len := len } : Sp)) :
    Good (markFree fm start len) ∧
    ∀ p, covers (markFree fm start len) p ↔ (covers fm p ∨ (start ≤ p ∧ p < start + len)) :=
  markFree_spec fm start len hg hlen hd

/-- allocation is first-fit, keeps the map canonical and removes exactly the allocated bytes -/
theorem allocate_from_map (fm : List Sp) (n st rem : Nat) (fm' : List Sp) (hn : 0 < n) (hg : Good fm)
    (h : getFreeRange fm n = some (st, rem, fm')) :
    (∃ pre s post, fm = pre ++ s :: post ∧ (∀ t ∈ pre, t.len < n) ∧ n ≤ s.len ∧ st = s.start ∧ rem = s.len - n) ∧
    Good fm' ∧ ∀ p, covers fm' p ↔ (covers fm p ∧ ¬ (st ≤ p ∧ p < st + n)) :=
  getFreeRange_spec fm n st rem fm' hn hg h

/-- **growth clause**: `allocateSpan` extends the file exactly when no region of the free map can
    hold the record; otherwise the file length is unchanged -/
theorem grows_iff_nothing_fits (file : Bytes) (free : List Sp) (size : Nat) (hs : 0 < size) :
    ((allocateSpan file free size).file.length > file.length ↔ ∀ s ∈ free, s.len < size) ∧
    ((∃ s ∈ free, size ≤ s.len) → (allocateSpan file free size).file = file) := by
  unfold allocateSpan
  cases h : getFreeRange free size with
  | none =>
    have hnone := (getFreeRange_none_iff free size hs).mp h
    refine ⟨⟨fun _ => hnone, fun _ => ?_⟩, ?_⟩
    · simp only [List.length_append, zeros, List.length_replicate, expandBy]
      omega
    · rintro ⟨s, hs1, hs2⟩
      have := hnone s hs1; omega
  | some r =>
    obtain ⟨st, rem, fm'⟩ := r
    refine ⟨⟨fun hgt => by simp at hgt, fun hall => ?_⟩, fun _ => rfl⟩
    have := (getFreeRange_none_iff free size hs).mpr hall
    rw [this] at h; cases h

/-- the quiescent file is a gap-free chain: scanning a rendered segment list with distinct record ids
    consumes it exactly (no trailing bytes, nothing rewritten) and indexes every active segment —
    see `C02.reopen_quiescent` -/
theorem chain_is_walked (segs : List Seg) (hok : ∀ s ∈ segs, s.OK) (hnd : (actRids segs).Nodup) :
    ∃ sf, scanFile (render segs) = .ok sf ∧ sf.file = render segs ∧ sf.index = indexRev 0 segs [] :=
  ⟨_, scanFile_quiescent segs hok hnd false, rfl, rfl⟩

/-- **Well-formed chain and exact free map in every reachable state.** After any operation sequence the
    file is the rendering of well-formed segments (each at least one minimal span long, with valid
    checksum on active ones), no id is active twice, and the free map is exactly the list of maximal
    runs of FREE segments — canonical, covering each FREE byte once and no active byte. -/
theorem chain_and_free_map_invariant (ops : List Op) (s : SF) (segs : List Seg) (h : Rep s segs) (hf : FitsAll s ops) :
    ∃ segs', (ops.foldl applyOp s).file = render segs' ∧ (∀ x ∈ segs', x.OK) ∧ (actRids segs').Nodup ∧
      (ops.foldl applyOp s).free = runsOf segs' ∧ Good (runsOf segs') ∧
      ∀ p, covers (runsOf segs') p ↔ freeAt 0 segs' p := by
  obtain ⟨segs', h1, _⟩ := run_refines ops s segs h hf
  obtain ⟨g, c⟩ := runsOf_good segs' h1.lay.ok
  exact ⟨segs', h1.lay.file, h1.lay.ok, h1.nodup, h1.lay.free, g, c⟩

/-- **a write reuses free space or grows, and says which.** On a state that satisfies the invariant, a
    write either replaces a block `R` of FREE segments by the new active segment (plus at most one FREE
    segment for the remainder, or padding below one minimal span) of exactly the same total size, or —
    only when `R` is empty and lies at the end of the file — appends to the file. Nothing outside the
    block changes. -/
theorem write_places_span (file : Bytes) (free : List Sp) (segs : List Seg) (seq : Nat) (rid : Bytes) (st : List Stream)
    (h : Lay file free segs) (hnew : NewOK seq rid st)
    (hbig : file.length + expandBy file.length (Seg.act seq rid st 0).size < 4294967296) :
    ∃ A R B pad F imgs, segs = A ++ R ++ B ∧ (∀ x ∈ R, x.isFree = true) ∧ (∀ x ∈ F, x.isFree = true) ∧
      pad < minSpanLength ∧
      placeSpan file free seq rid st = .ok
        { offset := segsSize A, file := render (A ++ (.act seq rid st pad :: F) ++ B),
          free := runsOf (A ++ (.act seq rid st pad :: F) ++ B), images := imgs } ∧
      (∀ x ∈ A ++ (.act seq rid st pad :: F) ++ B, x.OK) ∧
      (segsSize (.act seq rid st pad :: F) = segsSize R ∨ B = []) ∧
      (imgs = [("writeAt", render (A ++ (.act seq rid st pad :: F) ++ B))] ∨
       ∃ z, GrowOK file.length z ∧
        imgs = [("grow", file ++ zeros z), ("writeAt", render (A ++ (.act seq rid st pad :: F) ++ B))]) :=
  place_spec file free segs seq rid st h hnew hbig

/-- **a write that fits into some free region leaves the file length alone** — in any state, no invariant needed -/
theorem write_into_free_region_does_not_grow (s : SF) (rid : Bytes) (st : List Stream) (m : Mut)
    (h : writeRecord s rid st = .ok m) (r : Sp) (hr : r ∈ s.free) (hfit : (Seg.act s.seq rid st 0).size ≤ r.len) :
    m.st.file.length = s.file.length :=
  write_no_growth s rid st m h r hr hfit

/-- **freed space is reused (overwrite)**: on a state satisfying the invariant, an overwrite releases the
    span of the superseded version (the one active span of that id), and the next write of any record
    whose span is no longer than the released one does not grow the file. Rewriting a document with
    content of the same size therefore alternates between two places: the file can grow again only
    when the record itself gets longer (its sequence number crosses a 7-bit length boundary: four
    times in 2³² writes). -/
theorem superseded_space_is_reused (s : SF) (segs : List Seg) (h : Rep s segs) (rid : Bytes) (st : List Stream)
    (hnew : NewOK s.seq rid st)
    (hbig : s.file.length + expandBy s.file.length (Seg.act s.seq rid st 0).size < 4294967296)
    (hold : docOf rid segs ≠ none) :
    ∃ m q t p, writeRecord s rid st = .ok m ∧ Seg.act q rid t p ∈ segs ∧
      ∀ rid2 st2 m2, writeRecord m.st rid2 st2 = .ok m2 →
        (Seg.act m.st.seq rid2 st2 0).size ≤ (Seg.act q rid t p).size →
        m2.st.file.length = m.st.file.length :=
  Syzgy.superseded_space_is_reused s segs h rid st hnew hbig hold

/-- **freed space is reused (removal)** -/
theorem removed_space_is_reused (s : SF) (segs : List Seg) (h : Rep s segs) (rid : Bytes) (hd : docOf rid segs ≠ none) :
    ∃ m q t p, removeRecord s rid = .ok m ∧ Seg.act q rid t p ∈ segs ∧
      ∀ rid2 st2 m2, writeRecord m.st rid2 st2 = .ok m2 →
        (Seg.act m.st.seq rid2 st2 0).size ≤ (Seg.act q rid t p).size →
        m2.st.file.length = m.st.file.length :=
  Syzgy.removed_space_is_reused s segs h rid hd

example : Good [⟨0, 15⟩, ⟨106, 4005⟩] := by
  refine ⟨by intro s hs; simp at hs; rcases hs with rfl | rfl <;> decide, by simp [Sp.stop]⟩

end Syzgy.C09
