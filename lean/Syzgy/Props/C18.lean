import Syzgy.Lemmas.Rest
import Syzgy.Lemmas.RestSession
/-!
# C18 — every request gets a response; rejected requests change nothing
-/
namespace Syzgy.C18
open Syzgy.Rest

/-- **every request is answered**: for every state, method, path and decoded body the handler
    model returns a response — the outcome is never a Go panic (a dropped connection). The wrong
    vector sizes that make `AddDocument` / the distance code panic are representable in the model
    (`insertStep`, `handleSearch`), so this is a theorem about the validation order, not a convention. -/
theorem handler_no_panic (s : Server) (method path : Bytes) (body : Body) :
    ∃ s' r, handle s method path body = .ok (s', r) := by
  obtain ⟨s', r, h, _, _⟩ := handle_spec s method path body
  exact ⟨s', r, h⟩

/-- **a request answered with 3xx/4xx/5xx leaves every collection unchanged** — in particular a
    batch insert with one bad record stores none of its records -/
theorem reject_is_noop (s s' : Server) (method path : Bytes) (body : Body) (r : Resp)
    (h : handle s method path body = .ok (s', r)) (hr : r.status ≥ 300) : s' = s := by
  obtain ⟨s2, r2, h2, _, hno⟩ := handle_spec s method path body
  rw [h] at h2
  cases h2
  exact hno hr

/-- the constructor model rejects unsupported options: quantization ∉ {0 (default), 4, 8, 16, 32, 64},
    non-positive dimension, unknown metric -/
theorem ctor_validates (metric : Nat) (dim quant : Int) :
    ctorOk metric dim quant = true →
      (quant = 0 ∨ quant = 4 ∨ quant = 8 ∨ quant = 16 ∨ quant = 32 ∨ quant = 64) ∧ dim > 0 ∧ (metric = 0 ∨ metric = 1) := by
  intro h
  simp only [ctorOk, Bool.and_eq_true, Bool.or_eq_true, beq_iff_eq, decide_eq_true_eq] at h
  obtain ⟨⟨hq, hd⟩, hm⟩ := h
  refine ⟨?_, hd, hm⟩
  rcases hq with ((((h | h) | h) | h) | h) | h <;> simp [h]

/-- the unguarded insert loop *does* panic on a wrong-size vector (what the validation prevents) -/
example : (insertStep 3 (.ok []) { id := 1, vecLen := some 2, hasText := false, md := [] }).isPanic = true := rfl

/-! ## any session of requests (`Lemmas/RestSession.lean`) -/

/-- **every request of every session is answered**: whatever the earlier requests of the session did
    to the served state, no handler outcome is a panic (a dropped connection) or an error; there is
    one response per request -/
theorem every_request_of_every_session_answered (s : Server) (qs : List Req) :
    ∃ s' rs, serve s qs = .ok (s', rs) ∧ rs.length = qs.length :=
  serve_total qs s

/-- **rejected requests leave no trace in any session**: erasing from a session the requests that were
    answered with a status ≥ 300 gives a session with the same final state whose answers are exactly
    the remaining answers — no later response depends on a rejected request -/
theorem rejected_requests_can_be_erased (s s' : Server) (qs : List Req) (rs : List Resp)
    (h : serve s qs = .ok (s', rs)) : serve s (accepted qs rs) = .ok (s', acceptedResps rs) :=
  rejected_erasable qs s s' rs h

/-- a session in which every request is rejected ends in the state it started from -/
theorem session_of_rejections_is_noop (s s' : Server) (qs : List Req) (rs : List Resp)
    (h : serve s qs = .ok (s', rs)) (hall : ∀ r ∈ rs, r.status ≥ 300) : s' = s :=
  all_rejected_is_noop qs s s' rs h hall

/-- non-vacuity: a session with one rejected request (unknown route, 404) between nothing else -/
example : ∃ rs, serve [] [{ method := b!"GET", path := b!"/nope", body := .none }] = .ok ([], rs) ∧
    (∀ r ∈ rs, r.status ≥ 300) := ⟨[{ status := 404 }], rfl, by simp⟩

/-- non-vacuity with accepted and rejected requests in one session: create (201), unknown route (404),
    the same create again (rejected): only the first request survives the erasure -/
example :
    let q1 : Req := { method := b!"POST", path := b!"/api/v1/collections", body := .create true b!"c1" b!"cosine" 3 8 }
    let q2 : Req := { method := b!"GET", path := b!"/nope", body := .none }
    ∃ s' rs, serve [] [q1, q2, q1] = .ok (s', rs) ∧ rs.map Resp.status = [201, 404, 400] ∧ accepted [q1, q2, q1] rs = [q1] := by
  intro q1 q2
  refine ⟨_, _, rfl, ?_, ?_⟩ <;> rfl

end Syzgy.C18
