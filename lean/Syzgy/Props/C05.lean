import Syzgy.Lemmas.LshInv
import Syzgy.Lemmas.LshRadius
import Syzgy.Lemmas.LshRun
/-!
# C05 — the ANN index refers to exactly the live documents

`TreeInv side store live t`: the leaf ids of `t` are a permutation of the live ids (none missing,
none dead, none twice), every id lies on the side of every hyperplane above it that its *stored*
vector routes to, and every live id has a stored vector. All theorems hold for **every** side
oracle (every choice of hyperplanes, any floating-point geometry), every split decision and every
leaf threshold.
-/
namespace Syzgy.C05
open Syzgy.Lsh

variable {V : Type}

def update (store : Nat → Option V) (id : Nat) (v : V) : Nat → Option V :=
  fun i => if i = id then some v else store i

/-- AddDocument on a fresh id -/
theorem add_fresh (threshold : Nat) (side : H → V → Bool) (choose : List Nat → Option H)
    (store : Nat → Option V) (live : List Nat) (id : Nat) (v : V) (t : Tree)
    (inv : TreeInv side store live t) (hfresh : id ∉ live) :
    ∃ t', insert threshold side choose (update store id v) id v t = .ok t' ∧
      TreeInv side (update store id v) (live ++ [id]) t' := by
  have hne : ∀ i ∈ t.ids, i ≠ id := fun i hi h => hfresh (h ▸ inv.perm.mem_iff.mp hi)
  have hsame : ∀ i ∈ t.ids, store i = update store id v i := fun i hi => by simp [update, hne i hi]
  have hr := routed_congr side store (update store id v) t hsame inv.routed
  have hst : ∀ i ∈ t.ids, (update store id v i).isSome = true := fun i hi => by
    rw [← hsame i hi]; exact inv.stored i (inv.perm.mem_iff.mp hi)
  obtain ⟨t', e, p, r⟩ := insert_inv threshold side choose (update store id v) id v t (by simp [update]) hst hr
  refine ⟨t', e, ⟨p.trans (inv.perm.append_right _), r, ?_⟩⟩
  intro i hi
  rcases List.mem_append.mp hi with h | h
  · by_cases hi' : i = id
    · simp [update, hi']
    · simp only [update, hi', ↓reduceIte]; exact inv.stored i h
  · simp at h; simp [update, h]

/-- removal of a live document (down to and including the last one) -/
theorem remove_live (side : H → V → Bool) (store : Nat → Option V) (live : List Nat) (id : Nat) (v : V) (t : Tree)
    (inv : TreeInv side store live t) (hid : store id = some v) :
    TreeInv side store (live.erase id) (remove side id v t) :=
  remove_inv side store live id v t hid inv

/-- AddDocument on an existing id with a (possibly) different vector: the old point is removed by its
    stored vector, the new one inserted under the new stored vector -/
theorem add_overwrite (threshold : Nat) (side : H → V → Bool) (choose : List Nat → Option H)
    (store : Nat → Option V) (live : List Nat) (id : Nat) (vOld vNew : V) (t : Tree)
    (inv : TreeInv side store live t) (hnd : live.Nodup) (hold : store id = some vOld) :
    ∃ t', insert threshold side choose (update store id vNew) id vNew (remove side id vOld t) = .ok t' ∧
      TreeInv side (update store id vNew) (live.erase id ++ [id]) t' :=
  add_fresh threshold side choose store (live.erase id) id vNew (remove side id vOld t)
    (remove_live side store live id vOld t inv hold) (hnd.not_mem_erase)

/-- metadata update leaves store vectors and the tree unchanged: nothing to prove beyond identity -/
theorem update_metadata (side : H → V → Bool) (store : Nat → Option V) (live : List Nat) (t : Tree)
    (inv : TreeInv side store live t) : TreeInv side store live t := inv

/-- rebuild on open: inserting all live documents (in any order) into an empty tree -/
theorem rebuild (threshold : Nat) (side : H → V → Bool) (choose : List Nat → Option H)
    (store : Nat → Option V) (docs : List Nat) (hst : ∀ i ∈ docs, (store i).isSome = true) :
    ∀ (t : Tree) (live : List Nat), TreeInv side store live t → (∀ i ∈ live, i ∉ docs) → docs.Nodup →
      ∃ t', docs.foldlM (fun t i => match store i with
          | some v => insert threshold side choose store i v t
          | none => .panic "unreachable") t = .ok t' ∧ TreeInv side store (live ++ docs) t' := by
  induction docs with
  | nil => intro t live inv _ _; exact ⟨t, rfl, by simpa using inv⟩
  | cons d ds ih =>
    intro t live inv hdisj hnd
    have hd := hst d (by simp)
    cases hs : store d with
    | none => simp [hs] at hd
    | some v =>
      have hst' : ∀ i ∈ t.ids, (store i).isSome = true := fun i hi => inv.stored i (inv.perm.mem_iff.mp hi)
      obtain ⟨t1, e, p, r⟩ := insert_inv threshold side choose store d v t hs hst' inv.routed
      have inv1 : TreeInv side store (live ++ [d]) t1 :=
        ⟨p.trans (inv.perm.append_right _), r, fun i hi => by
          rcases List.mem_append.mp hi with h | h
          · exact inv.stored i h
          · simp at h; subst h; simp [hs]⟩
      have hnd' := List.nodup_cons.mp hnd
      obtain ⟨t', e', inv'⟩ := ih (fun i hi => hst i (by simp [hi])) t1 (live ++ [d]) inv1
        (by
          intro i hi
          rcases List.mem_append.mp hi with h | h
          · exact fun hm => hdisj i h (by simp [hm])
          · simp at h; subst h; exact hnd'.1) hnd'.2
      refine ⟨t', ?_, by simpa [List.append_assoc] using inv'⟩
      simp only [List.foldlM_cons, hs, e]
      exact e'

/-- consequences of the invariant: the tree never references a dead id and never misses a live one -/
theorem no_dead_no_missing (side : H → V → Bool) (store : Nat → Option V) (live : List Nat) (t : Tree)
    (inv : TreeInv side store live t) :
    (∀ i ∈ t.ids, (store i).isSome = true) ∧ (∀ i ∈ live, i ∈ t.ids) ∧ (live.Nodup → t.ids.Nodup) :=
  ⟨fun i hi => inv.stored i (inv.perm.mem_iff.mp hi), fun i hi => inv.perm.mem_iff.mpr hi,
   fun h => inv.perm.nodup_iff.mpr h⟩

/-- inserting into an emptied collection works: the empty leaf satisfies the invariant -/
theorem empty_inv (side : H → V → Bool) (store : Nat → Option V) : TreeInv side store [] (.leaf []) :=
  ⟨List.Perm.refl _, trivial, by simp⟩

/-- non-vacuity: a two-document tree over `V = Nat` that satisfies the invariant -/
example : TreeInv (fun _ v => decide (v > 5)) (fun i => if i = 1 then some 3 else if i = 2 then some 9 else none)
    [1, 2] (.node 0 (.leaf [1]) (.leaf [2])) := by
  refine ⟨by simp [Tree.ids], ⟨?_, ?_, trivial, trivial⟩, ?_⟩
  · intro i hi; simp [Tree.ids] at hi; subst hi; exact ⟨3, by simp, by decide⟩
  · intro i hi; simp [Tree.ids] at hi; subst hi; exact ⟨9, by simp, by decide⟩
  · intro i hi; simp at hi; rcases hi with rfl | rfl <;> simp


/-- **Covering-radius completeness.** If every listed id is live and within the radius of the query (the
    radius covers the collection) and, at every node, the hyperplane lies within the radius (always so
    for the cosine metric with radius 1, where hyperplane distances are at most 0.5) or far-side
    documents are at least the hyperplane's distance away (`C05.far_side_geometry` for the
    Euclidean metric), then the default-precision radius search returns every listed document that
    passes the filter — for every forest shape, `search_k > 0` and K. Together with `TreeInv` (listed
    ids = live ids) and `C04.lsh_sound` (each once, sorted, true distances) this is the observable
    consequence stated in the property. -/
theorem covering_radius_complete (searchK K R maxRadius : Nat) (hR : 0 < R) (hsK : 0 < searchK) (forest : List Tree)
    (lookup : Nat → Option Cand) (hpDist : H → Nat) (hpRight : H → Bool)
    (hlive : ∀ t ∈ forest, ∀ id ∈ t.ids, ∃ c, lookup id = some c ∧ c.dist ≤ R)
    (hgeo : ∀ t ∈ forest, FarSound R lookup hpDist hpRight t) :
    ∀ t ∈ forest, ∀ id ∈ t.ids, ∀ c, lookup id = some c → c.acc = true →
      c ∈ (search searchK K R maxRadius forest lookup hpDist hpRight).1 :=
  radius_complete searchK K R maxRadius hR hsK forest lookup hpDist hpRight hlive hgeo

/-- **After any history** of inserts, overwrites with a different vector, metadata updates and removals
    (down to the empty collection and up again), each tree of the index satisfies the invariant with
    respect to the stored vectors: its ids are exactly the live ids, each once, routed by the stored
    vector — for every side oracle, split rule and leaf threshold. `istep` is what `AddDocument`,
    `removeDocument` and `UpdateDocument` do to a tree (call order regenerated from the source:
    `Tie.Search.index_glue`). -/
theorem index_after_any_history (threshold : Nat) (side : H → V → Bool) (choose : List Nat → Option H)
    (ops : List (IOp V)) :
    ∃ s', irun threshold side choose { store := fun _ => none, live := [], tree := .leaf [] } ops = .ok s' ∧
      TreeInv side s'.store s'.live s'.tree ∧ s'.live.Nodup ∧ (∀ i, i ∈ s'.live ↔ s'.store i ≠ none) ∧
      s'.store = ops.foldl ispec (fun _ => none) ∧ s'.tree.ids.Perm s'.live := by
  have h0 : IInv side ({ store := fun _ => none, live := [], tree := .leaf [] } : IState V) :=
    ⟨empty_inv side _, List.nodup_nil, fun i => by simp⟩
  obtain ⟨s', e, h, hs⟩ := irun_inv threshold side choose ops _ h0
  exact ⟨s', e, h.inv, h.nodup, h.exact, hs, h.inv.perm⟩

/-- the same from any state that satisfies the invariant, e.g. the rebuilt index after a reopen (`rebuild`) -/
theorem index_history_from (threshold : Nat) (side : H → V → Bool) (choose : List Nat → Option H)
    (ops : List (IOp V)) (s : IState V) (h : IInv side s) :
    ∃ s', irun threshold side choose s ops = .ok s' ∧ IInv side s' ∧ s'.store = ops.foldl ispec s.store :=
  irun_inv threshold side choose ops s h

/-- **reopen**: the index rebuilt by `NewCollection` — every live document inserted, in whatever order the
    record index is iterated — satisfies the full invariant again, so `index_history_from` covers every
    history that continues after a reopen -/
theorem index_after_reopen (threshold : Nat) (side : H → V → Bool) (choose : List Nat → Option H)
    (store : Nat → Option V) (docs : List Nat) (hnd : docs.Nodup) (hex : ∀ i, i ∈ docs ↔ store i ≠ none) :
    ∃ t', docs.foldlM (fun t i => match store i with
        | some v => insert threshold side choose store i v t
        | none => .panic "unreachable") (.leaf []) = .ok t' ∧
      IInv side { store := store, live := docs, tree := t' } := by
  have hst : ∀ i ∈ docs, (store i).isSome = true := by
    intro i hi
    have := (hex i).mp hi
    cases h : store i with
    | none => exact absurd h this
    | some v => rfl
  obtain ⟨t', e, inv⟩ := rebuild threshold side choose store docs hst (.leaf []) [] (empty_inv side store) (by simp) hnd
  exact ⟨t', e, ⟨by simpa using inv, hnd, hex⟩⟩

end Syzgy.C05
