import Syzgy.Lemmas.Rest
/-!
# C19 — collection names cannot reach outside the data folder
-/
namespace Syzgy.C19
open Syzgy.Rest

/-- for every accepted name the collection file is the direct child `name.dat` of the data folder
    (lexical `filepath.Join` / `Clean` on components) -/
theorem confined (folder : List Bytes) (hf : ∀ c ∈ folder, Proper c) (name : Bytes) (hv : validName name = true) :
    cleanComponents (folder ++ splitOn 47 (name ++ b!".dat")) [] = folder ++ [name ++ b!".dat"] :=
  Syzgy.Rest.confined folder hf name hv

/-- a create request registers a collection only under a valid name: after any request every
    collection of the server has a valid name if that was so before -/
theorem names_stay_valid (s : Server) (method path : Bytes) (body : Body) (s' : Server) (r : Resp)
    (h : handle s method path body = .ok (s', r)) (hs : ∀ e ∈ s, validName e.1 = true) :
    ∀ e ∈ s', validName e.1 = true := by
  -- new names enter the state only through the create handler, which validates; all other handlers
  -- re-`put` a name that was looked up in the state, or remove one
  unfold handle at h
  split at h
  · cases h; exact hs
  split at h
  · unfold handleCollections at h
    repeat' split at h
    all_goals first
      | (cases h; exact hs)
      | (cases h
         intro e he
         simp only [put, List.mem_cons] at he
         rcases he with rfl | he
         · simp_all
         · exact hs e (List.mem_filter.mp he).1)
  split at h
  · have hput : ∀ (name : Bytes) (c c' : RColl), lookup s name = some c → ∀ e ∈ put s name c', validName e.1 = true := by
      intro name c c' hl e he
      simp only [put, List.mem_cons] at he
      rcases he with rfl | he
      · unfold lookup at hl
        cases hf : s.find? (fun e => e.1 == name) with
        | none => rw [hf] at hl; cases hl
        | some x =>
          have hm := List.mem_of_find?_eq_some hf
          have hp := List.find?_some hf
          have : x.1 = name := by simpa using hp
          rw [← this]; exact hs x hm
      · exact hs e (List.mem_filter.mp he).1
    have hrem : ∀ name, ∀ e ∈ remove s name, validName e.1 = true := fun name e he => hs e (List.mem_filter.mp he).1
    simp only at h
    split at h
    · unfold handleInsert at h
      repeat' split at h
      all_goals first
        | (cases h; exact hs)
        | (cases h; exact hput _ _ _ ‹_›)
        | cases h
    · split at h
      · unfold handleUpdate at h
        repeat' split at h
        all_goals first
          | (cases h; exact hs)
          | (cases h; exact hput _ _ _ ‹_›)
      · split at h
        · unfold handleDeleteRecord at h
          repeat' split at h
          all_goals first
            | (cases h; exact hs)
            | (cases h; exact hput _ _ _ ‹_›)
        · split at h
          · unfold handleSearch at h
            repeat' split at h
            all_goals first
              | (cases h; exact hs)
              | cases h
          · unfold handleCollection at h
            repeat' split at h
            all_goals first
              | (cases h; exact hs)
              | (cases h; exact hrem _)
  · cases h; exact hs

/-- the names the property lists are rejected -/
theorem dangerous_names_rejected :
    validName b!"../x" = false ∧ validName b!"a/b" = false ∧ validName b!".." = false ∧ validName b!"." = false ∧
    validName [] = false ∧ validName b!"/etc/passwd" = false ∧ validName b!"a\\b" = false ∧ validName [97, 0, 98] = false :=
  rejected_names

end Syzgy.C19
