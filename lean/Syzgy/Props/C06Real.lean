import Syzgy.Math.DistReal
/-!
# C06 (continued) — the distance formulas in exact real arithmetic
These say the *formulas* the code evaluates are the right ones; binary64 deviates from them by
rounding only (the exact, rounding-free laws are in `Props/C06.lean`).
-/
namespace Syzgy.C06
open Syzgy.DistReal

/-- the Euclidean formula satisfies the triangle inequality, for every dimension -/
theorem euclid_triangle_real (n : ℕ) (a b c : Fin n → ℝ) :
    euclid realArith (List.ofFn a) (List.ofFn c) ≤
      euclid realArith (List.ofFn a) (List.ofFn b) + euclid realArith (List.ofFn b) (List.ofFn c) :=
  euclid_triangle n a b c

/-- the cosine distance is unchanged by positive scaling of an argument -/
theorem cosine_scale_invariant_real (n : ℕ) (a b : Fin n → ℝ) (k : ℝ) (hk : 0 < k) :
    angular realArith (List.ofFn (fun i => k * a i)) (List.ofFn b) = angular realArith (List.ofFn a) (List.ofFn b) :=
  angular_scale n a b k hk

/-- the cosine distance of opposite vectors is 1 -/
theorem cosine_opposite_real (n : ℕ) (a : Fin n → ℝ) (k : ℝ) (hk : 0 < k) (ha : (∑ i, a i * a i) ≠ 0) :
    angular realArith (List.ofFn a) (List.ofFn (fun i => -(k * a i))) = 1 :=
  angular_opposite n a k hk ha

end Syzgy.C06
