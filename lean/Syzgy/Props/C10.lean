import Syzgy.Lemmas.Lock
/-!
# C10 — concurrent use: deadlock freedom and mutual exclusion of the lock protocol

Machine: any number of threads, each running a sequence of calls whose lock programs satisfy the
static discipline `Disc` (checked for the regenerated programs in `Instantiate/Lock.lean`); locks
have Go `sync.RWMutex` semantics including writer preference.
-/
namespace Syzgy.C10
open Syzgy.Lock

/-- **deadlock freedom**: in every reachable configuration in which some thread still has work to
    do, some thread can take a step — for every number of threads and every choice of disciplined
    programs -/
theorem deadlock_free (progs : List (List Act)) (hd : ∀ p ∈ progs, Disc [] p) (c : Cfg)
    (r : Reach (progs.map (fun p => ⟨p, [], none⟩)) c) (hlive : ∃ t ∈ c, t.prog ≠ []) :
    ∃ t ∈ c, enabled c t :=
  Syzgy.Lock.deadlock_free progs hd c r hlive

/-- a thread may issue any number of calls one after the other: sequences of disciplined programs
    are disciplined -/
theorem call_sequences (calls : List (List Act)) (h : ∀ p ∈ calls, Disc [] p) : Disc [] calls.flatten :=
  Disc_flatten calls h

/-- **mutual exclusion**: in every reachable configuration a thread that holds a lock in write mode
    is the only holder of that lock — mutators are atomic with respect to every other call, readers
    only overlap with readers (the basis of linearizability: each call takes effect at a point while
    it holds the collection lock) -/
theorem mutual_exclusion (progs : List (List Act)) (c : Cfg)
    (r : Reach (progs.map (fun p => ⟨p, [], none⟩)) c) : Excl c :=
  excl_reach _ c (excl_init progs) r

/-- the defect shape that was repaired: re-acquiring a held read lock while a writer waits is a
    stuck configuration -/
theorem reentrant_read_lock_is_stuck :
    ¬ ∃ t ∈ [stuckReader, stuckWriter], enabled [stuckReader, stuckWriter] t := reentrant_deadlock

/-- non-vacuity: AddDocument's shape is disciplined, the old ComputeStats shape is not -/
example : Disc [] [.acq 0 .W, .acq 1 .W, .tau, .rel 1 .W, .rel 0 .W] := by simp [Disc, List.erase]
example : ¬ Disc [] [.acq 0 .R, .acq 0 .R, .rel 0 .R, .rel 0 .R] := by simp [Disc]

end Syzgy.C10
