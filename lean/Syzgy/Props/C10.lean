import Syzgy.Lemmas.Lock
import Syzgy.Lemmas.Linearize
/-!
# C10 — concurrent use: deadlock freedom and mutual exclusion of the lock protocol

Machine: any number of threads, each running a sequence of calls whose lock programs satisfy the
static discipline `Disc` (checked for the regenerated programs in `Instantiate/Lock.lean`); locks
have Go `sync.RWMutex` semantics including writer preference.
-/
namespace Syzgy.C10
open Syzgy.Lock

/-- **deadlock freedom**: in every reachable configuration in which some thread still has work to
    do, some thread can take a step — for every number of threads and every choice of disciplined
    programs -/
theorem deadlock_free (progs : List (List Act)) (hd : ∀ p ∈ progs, Disc [] p) (c : Cfg)
    (r : Reach (progs.map (fun p => ⟨p, [], none⟩)) c) (hlive : ∃ t ∈ c, t.prog ≠ []) :
    ∃ t ∈ c, enabled c t :=
  Syzgy.Lock.deadlock_free progs hd c r hlive

/-- a thread may issue any number of calls one after the other: sequences of disciplined programs
    are disciplined -/
theorem call_sequences (calls : List (List Act)) (h : ∀ p ∈ calls, Disc [] p) : Disc [] calls.flatten :=
  Disc_flatten calls h

/-- **mutual exclusion**: in every reachable configuration a thread that holds a lock in write mode
    is the only holder of that lock — mutators are atomic with respect to every other call, readers
    only overlap with readers (the basis of linearizability: each call takes effect at a point while
    it holds the collection lock) -/
theorem mutual_exclusion (progs : List (List Act)) (c : Cfg)
    (r : Reach (progs.map (fun p => ⟨p, [], none⟩)) c) : Excl c :=
  excl_reach _ c (excl_init progs) r

/-- the defect shape that was repaired: re-acquiring a held read lock while a writer waits is a
    stuck configuration -/
theorem reentrant_read_lock_is_stuck :
    ¬ ∃ t ∈ [stuckReader, stuckWriter], enabled [stuckReader, stuckWriter] t := reentrant_deadlock

/-- non-vacuity: AddDocument's shape is disciplined, the old ComputeStats shape is not -/
example : Disc [] [.acq 0 .W, .acq 1 .W, .tau, .rel 1 .W, .rel 0 .W] := by simp [Disc, List.erase]
example : ¬ Disc [] [.acq 0 .R, .acq 0 .R, .rel 0 .R, .rel 0 .R] := by simp [Disc]

/-! ## linearizability

Machine (`Lemmas/Linearize.lean`): any number of threads, each issuing any sequence of calls; a call is
one critical section of the collection lock, in write or read mode, consisting of any number of atomic
micro-steps on the shared state and a call-local state; threads interleave at micro-step granularity
under reader/writer exclusion (every schedule of a plain reader/writer lock, hence in particular every
schedule of Go's writer-preferring `sync.RWMutex`). That the public methods have this shape — lock
first, unlock deferred, readers never write — is regenerated from the source (`Tie.Lock.one_critical_section`,
`readers_do_not_write`). -/

/-- **Linearizability**: for every thread count, every program of calls and every interleaving, the final
    state is that of running the calls atomically, one at a time, in lock-acquisition order; every call
    returned what it returns in that serial run; each thread's calls keep their program order -/
theorem linearizable {S L Ret : Type} (σ0 : S) (progs : Nat → List (Lin.Call S L Ret)) (hwf : ∀ i, ∀ c ∈ progs i, c.WF)
    (k : Lin.Conf S L Ret) (r : Lin.Reach (Lin.initConf σ0 progs) k) (hdone : Lin.Done k) :
    k.σ = (Lin.replay σ0 k.log).1 ∧ (∀ i, (k.thr i).results = Lin.retsOf σ0 k.log i) ∧
    (∀ i, Lin.callsOf k.log i = progs i) :=
  Lin.linearizable σ0 progs hwf k r hdone

/-- at every moment of every execution the results returned so far are those of the serial run, a writer
    inside its critical section is alone, and outside writers' critical sections the shared state is
    the serial state -/
theorem linearizable_at_every_moment {S L Ret : Type} (σ0 : S) (progs : Nat → List (Lin.Call S L Ret))
    (hwf : ∀ i, ∀ c ∈ progs i, c.WF) (k : Lin.Conf S L Ret) (r : Lin.Reach (Lin.initConf σ0 progs) k) :
    (∀ i, (k.thr i).results <+: Lin.retsOf σ0 k.log i) ∧ ((∀ i, ¬ Lin.writing k i) → k.σ = (Lin.replay σ0 k.log).1) ∧
    (∀ i, Lin.writing k i → ∀ j, j ≠ i → (k.thr j).cur = none) :=
  Lin.linearizable_at_every_moment σ0 progs hwf k r

/-- the serial order extends real time: a call enters it at its lock acquisition (between invocation and
    response) and the order only ever grows at the end -/
theorem serial_order_extends_real_time {S L Ret : Type} (k k' : Lin.Conf S L Ret) (r : Lin.Reach k k') :
    k.log <+: k'.log :=
  Lin.log_grows k k' r

/-- non-vacuity: a non-atomic read-modify-write as a writer call and an observer as a reader call are well-formed -/
example : (⟨true, [fun _ s => (s, s), fun l _ => (l, l + 1)], 0, id⟩ : Lin.Call Nat Nat Nat).WF ∧
    (⟨false, [fun _ s => (s, s)], 0, id⟩ : Lin.Call Nat Nat Nat).WF := by
  constructor
  · intro h; cases h
  · intro _ f hf l s
    simp at hf; subst hf; rfl

end Syzgy.C10
