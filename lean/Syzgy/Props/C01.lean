import Syzgy.Lemmas.Scan
/-!
# C01 — document store fidelity (property theorems only; helper lemmas live in `Lemmas/`)
-/
namespace Syzgy.C01

/-- every length below 2^63 round-trips through the 7-bit length code, whatever follows it -/
theorem code7_roundtrip (n : Nat) (h : n < 9223372036854775808) (rest : Bytes) :
    dec7 (enc7 n ++ rest) = some (n, len7 n) := dec7_enc7 n h rest

/-- a record written as an active span (any padding, any trailing bytes) parses back to exactly
    the sequence number, record id and data streams that were written -/
theorem span_roundtrip (seq : Nat) (rid : Bytes) (streams : List Stream) (pad : Nat) (rest : Bytes)
    (hok : Seg.OK (.act seq rid streams pad)) :
    parseSpan (actBytes seq rid streams pad ++ rest) =
      .ok { length := 8 + (spanBody seq rid streams).length + pad + 4, seq := seq, rid := rid, streams := streams } :=
  parseSpan_actBytes seq rid streams pad rest hok

/-- non-vacuity: a concrete record with 2 streams and 3 bytes of padding meets the side conditions -/
example : Seg.OK (.act 7 [49, 50] [{ id := 0, data := [1, 2, 3] }, { id := 1, data := [9] }] 3) := by
  refine ⟨by decide, by decide, by decide, ?_, by decide, by decide⟩
  intro s hs
  simp at hs
  rcases hs with rfl | rfl <;> exact ⟨by decide, by decide⟩

end Syzgy.C01
