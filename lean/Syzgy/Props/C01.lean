import Syzgy.Lemmas.Scan
import Syzgy.Lemmas.Refine
import Syzgy.Lemmas.Coll
import Syzgy.Lemmas.CollIds
/-!
# C01 — document store fidelity (property theorems only; helper lemmas live in `Lemmas/`)
-/
namespace Syzgy.C01

/-- every length below 2^63 round-trips through the 7-bit length code, whatever follows it -/
theorem code7_roundtrip (n : Nat) (h : n < 9223372036854775808) (rest : Bytes) :
    dec7 (enc7 n ++ rest) = some (n, len7 n) := dec7_enc7 n h rest

/-- a record written as an active span (any padding, any trailing bytes) parses back to exactly
    the sequence number, record id and data streams that were written -/
theorem span_roundtrip (seq : Nat) (rid : Bytes) (streams : List Stream) (pad : Nat) (rest : Bytes)
    (hok : Seg.OK (.act seq rid streams pad)) :
    parseSpan (actBytes seq rid streams pad ++ rest) =
      .ok { length := 8 + (spanBody seq rid streams).length + pad + 4, seq := seq, rid := rid, streams := streams } :=
  parseSpan_actBytes seq rid streams pad rest hok

/-- non-vacuity: a concrete record with 2 streams and 3 bytes of padding meets the side conditions -/
example : Seg.OK (.act 7 [49, 50] [{ id := 0, data := [1, 2, 3] }, { id := 1, data := [9] }] 3) := by
  refine ⟨by decide, by decide, by decide, ?_, by decide, by decide⟩
  intro s hs
  simp at hs
  rcases hs with rfl | rfl <;> exact ⟨by decide, by decide⟩

/-- **The span file refines the abstract store, for every operation sequence.** Starting from any state
    that satisfies the representation invariant (`Rep`: gap-free chain of well-formed segments, each id
    active once, index = offsets of the active segments, free map = maximal FREE runs), after any
    sequence of `WriteRecord` / `RemoveRecord` calls — fresh ids, overwrites, removals of stored and of
    unknown ids, with space reuse, padding, remainders and file growth wherever the free map sends them —
    the invariant holds again and the store the file stands for is the fold of the specification
    (`specStep`: a write binds the id to exactly the streams given, a removal unbinds it, nothing else
    changes). `FitsAll` is the format's own limit: each record and the grown file fit 32-bit lengths. -/
theorem store_refines (ops : List Op) (s : SF) (segs : List Seg) (h : Rep s segs) (hf : FitsAll s ops) :
    ∃ segs', Rep (ops.foldl applyOp s) segs' ∧
      ∀ r, docOf r segs' = ops.foldl specStep (fun r => docOf r segs) r :=
  run_refines ops s segs h hf

/-- `ReadRecord` in any reachable state answers what the specification holds: exactly the streams last
    written under the id, or "record not found" when the id was never written or was removed since -/
theorem read_is_spec (ops : List Op) (s : SF) (segs : List Seg) (h : Rep s segs) (hf : FitsAll s ops) (rid : Bytes) :
    match ops.foldl specStep (fun r => docOf r segs) rid with
    | none => readRecord (ops.foldl applyOp s) rid = .err "record not found"
    | some st => ∃ sp, readRecord (ops.foldl applyOp s) rid = .ok sp ∧ sp.rid = rid ∧ sp.streams = st :=
  read_after_run ops s segs h hf rid

/-- no operation on a state that satisfies the invariant panics; the only refusal is the removal of an
    id that is not stored, and it changes nothing -/
theorem step_total (s : SF) (segs : List Seg) (h : Rep s segs) (op : Op) (hf : Fits s op) :
    (∃ m, stepSF s op = .ok m) ∨ (∃ rid, op = .remove rid ∧ docOf rid segs = none ∧ stepSF s op = .err "record not found") := by
  rcases step_refines s segs h op hf with ⟨m, _, h1, _⟩ | h2
  · exact Or.inl ⟨m, h1⟩
  · exact Or.inr h2

/-- a newly created file satisfies the invariant and stands for the store that holds only the header
    record (the empty id) -/
theorem new_file_is_rep :
    ∃ s0, openFile none .createIfNotExists = .ok s0 ∧ Rep s0 [.act 0 [] [] 0] ∧
      ∀ r, docOf r [.act 0 [] [] 0] = if r = [] then some [] else none :=
  init_refines

/-- **The collection refines a finite map from document ids to documents, for every operation sequence.**
    From any collection state that satisfies the collection invariant `CRep` (span-file invariant + the
    record under the decimal rendering of each id is exactly that document's metadata bytes and packed
    codes), any sequence of `AddDocument` (fresh id or overwrite), `UpdateDocument`, `removeDocument`
    leaves a state that satisfies `CRep` for the fold of the specification: an add binds the id to
    exactly the document given, an update replaces the metadata and keeps the stored vector, a removal
    unbinds the id, operations on absent ids are refused and change nothing, no other document is
    touched. -/
theorem documents_refine (ops : List DocOp) (c : Coll) (segs : List Seg) (docs : DocStore) (h : CRep c segs docs)
    (hf : DocFitsAll c docs ops) :
    ∃ segs', CRep (ops.foldl applyDocOp c) segs' (ops.foldl docSpec docs) :=
  doc_run_refines ops c segs docs h hf

/-- `GetDocument` in any reachable state returns the document of the specification — the metadata
    byte-for-byte and every vector component as its stored quantization code — or "record not found" -/
theorem get_document_is_spec (ops : List DocOp) (c : Coll) (segs : List Seg) (docs : DocStore) (h : CRep c segs docs)
    (hf : DocFitsAll c docs ops) (id : Nat) :
    getDocument (ops.foldl applyDocOp c) id = match ops.foldl docSpec docs id with
      | none => .err "record not found"
      | some d => .ok d :=
  get_after_run ops c segs docs h hf id

/-- a newly created collection satisfies the invariant and holds no document -/
theorem new_collection_is_empty (name : Bytes) (opts : Cfg) (hq : Supported opts.quant)
    (hm : opts.metric = 0 ∨ opts.metric = 1) (hlen : (encodeOpts name opts).length < 1000000000) :
    ∃ c segs, newCollection none name opts .createIfNotExists = .ok c ∧ c.cfg = opts ∧ CRep c segs (fun _ => none) :=
  new_collection_rep name opts hq hm hlen

/-- **GetAllIDs and GetDocumentCount in every reachable state.** After any sequence of document
    operations on `uint64` ids, `GetAllIDs` lists exactly the ids the specification binds — ascending,
    each once — and `GetDocumentCount` is their number (the header record is not counted). -/
theorem ids_and_count_are_spec (ops : List DocOp) (c : Coll) (segs : List Seg) (docs : DocStore) (h : CRep2 c segs docs)
    (hf : DocFitsAll2 c docs ops) :
    (∀ id, id ∈ getAllIDs (ops.foldl applyDocOp c) ↔ ops.foldl docSpec docs id ≠ none) ∧
    (getAllIDs (ops.foldl applyDocOp c)).Pairwise (· ≤ ·) ∧ (getAllIDs (ops.foldl applyDocOp c)).Nodup ∧
    getCount (ops.foldl applyDocOp c) = ((getAllIDs (ops.foldl applyDocOp c)).length : Int) :=
  listing_after_run ops c segs docs h hf

/-- a newly created collection satisfies the extended invariant (so the theorem above applies to every
    history that starts with creation) -/
theorem new_collection_lists_nothing (name : Bytes) (opts : Cfg) (hq : Supported opts.quant)
    (hm : opts.metric = 0 ∨ opts.metric = 1) (hlen : (encodeOpts name opts).length < 1000000000) :
    ∃ c segs, newCollection none name opts .createIfNotExists = .ok c ∧ c.cfg = opts ∧ CRep2 c segs (fun _ => none) :=
  new_collection_rep2 name opts hq hm hlen

/-- record ids are the decimal renderings of the ids: parsing one gives the id back, for every `uint64` -/
theorem record_id_parses_back (id : Nat) (h : id < 18446744073709551616) : parseUint (ridOf id) = some id :=
  parseUint_ridOf id h

/-- distinct ids are stored under distinct record ids, none of them the header's -/
theorem record_ids_distinct (a b : Nat) : (ridOf a = ridOf b → a = b) ∧ ridOf a ≠ [] :=
  ⟨ridOf_inj, ridOf_ne_nil a⟩

/-- non-vacuity: a concrete write fits a new file, so `FitsAll` is satisfiable from the initial state -/
example : NewOK 1 [49] [{ id := 0, data := [123, 125] }, { id := 1, data := [0, 0, 128, 63] }] := by
  refine ⟨by decide, by decide, by decide, ?_, by decide⟩
  intro s hs
  simp at hs
  rcases hs with rfl | rfl <;> exact ⟨by decide, by decide⟩

end Syzgy.C01
