import Syzgy.Model.Distance
/-!
# C06 — distances are well-defined numbers obeying the metric laws

The theorems hold for **every** arithmetic `A : Arith F` that satisfies the stated laws. The laws
are facts of IEEE-754 binary64 (they are the trusted base of this property and are re-checked on
every operand the correspondence run touches); none mentions rounding *error*, so the statements
below are exact (bit-for-bit symmetric, exactly zero, never NaN).
-/
namespace Syzgy.C06

variable {F : Type} (A : Arith F)

/-! ## Euclidean -/

/-- `(x - y)² = (y - x)²`, exactly (IEEE: `x - y = -(y - x)` and `(-t)·(-t) = t·t`) -/
def SqDiffSymm : Prop := ∀ x y : F, A.mul (A.sub x y) (A.sub x y) = A.mul (A.sub y x) (A.sub y x)

theorem foldl_zip_swap (f : F → F → F → F) (h : ∀ s x y, f s x y = f s y x) (a b : List F) (s : F) :
    (a.zip b).foldl (fun s p => f s p.1 p.2) s = (b.zip a).foldl (fun s p => f s p.1 p.2) s := by
  induction a generalizing b s with
  | nil => cases b <;> rfl
  | cons x xs ih =>
    cases b with
    | nil => rfl
    | cons y ys => simp only [List.zip_cons_cons, List.foldl_cons]; rw [h]; exact ih ys _

/-- Euclidean distance is **exactly** symmetric, for all vectors of any dimension -/
theorem euclid_symm (h : SqDiffSymm A) (a b : List F) : euclid A a b = euclid A b a := by
  unfold euclid
  congr 1
  exact foldl_zip_swap (fun s x y => A.add s (A.mul (A.sub x y) (A.sub x y))) (fun s x y => by rw [h x y]) a b A.zero

/-- IEEE facts about zero: `x - x = 0` for the (finite) components, `0·0 = 0`, `0+0 = 0`, `√0 = 0` -/
structure ZeroLaws (a : List F) : Prop where
  sub_self : ∀ x ∈ a, A.sub x x = A.zero
  mul_zero : A.mul A.zero A.zero = A.zero
  add_zero : A.add A.zero A.zero = A.zero
  sqrt_zero : A.sqrt A.zero = A.zero

/-- the distance of a vector to itself is **exactly** zero -/
theorem euclid_self (a : List F) (h : ZeroLaws A a) : euclid A a a = A.zero := by
  unfold euclid
  have : (a.zip a).foldl (fun s p => A.add s (A.mul (A.sub p.1 p.2) (A.sub p.1 p.2))) A.zero = A.zero := by
    have gen : ∀ l : List F, (∀ x ∈ l, A.sub x x = A.zero) →
        (l.zip l).foldl (fun s p => A.add s (A.mul (A.sub p.1 p.2) (A.sub p.1 p.2))) A.zero = A.zero := by
      intro l hl
      induction l with
      | nil => rfl
      | cons x xs ih =>
        simp only [List.zip_cons_cons, List.foldl_cons]
        rw [hl x (by simp), h.mul_zero, h.add_zero]
        exact ih (fun y hy => hl y (by simp [hy]))
    exact gen a h.sub_self
  rw [this, h.sqrt_zero]

/-- `NN x`: x is a number (not NaN) and non-negative (possibly +∞). Closure facts of IEEE. -/
structure NNLaws (NN : F → Prop) (Num : F → Prop) : Prop where
  zero : NN A.zero
  sq : ∀ t, Num t → NN (A.mul t t)
  add : ∀ x y, NN x → NN y → NN (A.add x y)
  sqrt : ∀ x, NN x → NN (A.sqrt x)

/-- the Euclidean distance is a non-negative number, never NaN, whenever the component differences
    are numbers (true for all finite inputs) -/
theorem euclid_nonneg (NN Num : F → Prop) (h : NNLaws A NN Num) (a b : List F)
    (hd : ∀ p ∈ a.zip b, Num (A.sub p.1 p.2)) : NN (euclid A a b) := by
  unfold euclid
  apply h.sqrt
  have gen : ∀ (l : List (F × F)) (s : F), NN s → (∀ p ∈ l, Num (A.sub p.1 p.2)) →
      NN (l.foldl (fun s p => A.add s (A.mul (A.sub p.1 p.2) (A.sub p.1 p.2))) s) := by
    intro l
    induction l with
    | nil => intro s hs _; exact hs
    | cons p ps ih =>
      intro s hs hl
      simp only [List.foldl_cons]
      exact ih _ (h.add _ _ hs (h.sq _ (hl p (by simp)))) (fun q hq => hl q (by simp [hq]))
  exact gen _ _ h.zero hd

/-! ## cosine -/

/-- cosine distance is **exactly** symmetric when multiplication commutes -/
theorem angular_symm (hmul : ∀ x y : F, A.mul x y = A.mul y x) (a b : List F) : angular A a b = angular A b a := by
  have hs : sums A a b = { dot := (sums A b a).dot, m1 := (sums A b a).m2, m2 := (sums A b a).m1 } := by
    unfold sums
    have gen : ∀ (a b : List F) (s : Sums F),
        (a.zip b).foldl (fun s p => ({ dot := A.add s.dot (A.mul p.1 p.2), m1 := A.add s.m1 (A.mul p.1 p.1), m2 := A.add s.m2 (A.mul p.2 p.2) } : Sums F)) s =
        let r := (b.zip a).foldl (fun s p => ({ dot := A.add s.dot (A.mul p.1 p.2), m1 := A.add s.m1 (A.mul p.1 p.1), m2 := A.add s.m2 (A.mul p.2 p.2) } : Sums F)) { dot := s.dot, m1 := s.m2, m2 := s.m1 }
        { dot := r.dot, m1 := r.m2, m2 := r.m1 } := by
      intro a
      induction a with
      | nil => intro b s; cases b <;> rfl
      | cons x xs ih =>
        intro b s
        cases b with
        | nil => rfl
        | cons y ys =>
          simp only [List.zip_cons_cons, List.foldl_cons]
          rw [ih ys]
          simp only [hmul x y]
    exact gen a b _
  unfold angular cosArg
  simp only [hs]
  rw [Bool.or_comm, hmul (A.sqrt (sums A b a).m2) (A.sqrt (sums A b a).m1)]

/-- `c` is a number in `[-1, 1]` as far as the two comparisons of the clamp can tell -/
def InUnit (Num : F → Prop) (c : F) : Prop := Num c ∧ A.lt A.one c = false ∧ A.lt c A.negOne = false

/-- the clamp puts every number into `[-1, 1]` -/
theorem clamp_in_unit (Num : F → Prop) (c : F) (hc : Num c)
    (h1 : InUnit A Num A.one) (hm1 : InUnit A Num A.negOne) : InUnit A Num (clampUnit A c) := by
  unfold clampUnit
  split
  · exact h1
  · split
    · exact hm1
    · rename_i ha hb
      exact ⟨hc, by simpa using ha, by simpa using hb⟩

/-- range facts of `Acos` and of the final division by π (IEEE / libm):
    on `[-1,1]` Acos returns a number in `[0, π]`; dividing such a number by π gives a number in `[0,1]` -/
structure RangeLaws (Num : F → Prop) (In01 : F → Prop) (In0Pi : F → Prop) : Prop where
  one_unit : InUnit A Num A.one
  negOne_unit : InUnit A Num A.negOne
  acos : ∀ c, InUnit A Num c → In0Pi (A.acos c)
  div_pi : ∀ x, In0Pi x → In01 (A.div x A.pi)
  one01 : In01 A.one

/-- with the clamp, the cosine distance is a number in `[0, 1]` — never NaN — for all vectors whose
    cosine quotient is a number (all finite inputs whose squared norms do not overflow) -/
theorem angular_in_range (Num In01 In0Pi : F → Prop) (h : RangeLaws A Num In01 In0Pi) (a b : List F)
    (hq : Num (A.div (sums A a b).dot (A.mul (A.sqrt (sums A a b).m1) (A.sqrt (sums A a b).m2)))) :
    In01 (angular A a b) := by
  unfold angular cosArg
  simp only
  by_cases hz : (A.eq (sums A a b).m1 A.zero || A.eq (sums A a b).m2 A.zero) = true
  · simp only [hz, ↓reduceIte]
    exact h.one01
  · simp only [hz]
    exact h.div_pi _ (h.acos _ (clamp_in_unit A Num _ hq h.one_unit h.negOne_unit))

/-- a zero vector is at distance exactly 1 from everything -/
theorem angular_zero (a b : List F) (hz : A.eq (sums A a b).m1 A.zero = true ∨ A.eq (sums A a b).m2 A.zero = true) :
    angular A a b = A.one := by
  unfold angular cosArg
  simp only
  have : (A.eq (sums A a b).m1 A.zero || A.eq (sums A a b).m2 A.zero) = true := by
    rcases hz with h | h <;> simp [h]
  simp [this]

/-- non-vacuity: exact rational-free toy arithmetic on `Int` (sqrt/acos = identity) satisfies the
    Euclidean laws, so the hypotheses are consistent -/
def intArith : Arith Int where
  zero := 0
  one := 1
  negOne := -1
  two := 2
  pi := 3
  add := (· + ·)
  sub := (· - ·)
  mul := (· * ·)
  div := (· / ·)
  neg := fun x => -x
  sqrt := id
  acos := id
  round := id
  ofNat := fun n => n
  toNat := Int.toNat
  lt := fun a b => decide (a < b)
  eq := fun a b => a == b

example : SqDiffSymm intArith := by
  intro x y
  show (x - y) * (x - y) = (y - x) * (y - x)
  have : y - x = -(x - y) := by omega
  rw [this, Int.neg_mul_neg]

example : ZeroLaws intArith [3, -4] := ⟨by intro x _; show x - x = 0; omega, rfl, rfl, rfl⟩

end Syzgy.C06
