import Syzgy.Lemmas.Knn
import Syzgy.Lemmas.CollSearch
/-!
# C03 — exact search returns precisely the nearest matching documents
Candidates are given in *any* visiting order (Go map order); `acc` is the filter's verdict;
distances are totally ordered (no NaN: that is C06).
-/
namespace Syzgy.C03

@[reducible] def Asc (l : List Cand) : Prop := List.Pairwise (fun a b => a.dist ≤ b.dist) l

/-- K-nearest, precision "exact": the result together with some remainder is a permutation of the
    accepted candidates (so every entry is an accepted candidate with its own distance, and no
    candidate is reported twice), it is sorted by non-decreasing distance, has `min K m` entries,
    and every reported distance is ≤ every unreported one (ties at the cut-off either way). -/
theorem exact_knn (K : Nat) (cands : List Cand) :
    ∃ rest, (exactKnn K cands ++ rest).Perm (cands.filter (·.acc)) ∧ Asc (exactKnn K cands) ∧
      (exactKnn K cands).length = min K (cands.filter (·.acc)).length ∧
      ∀ x ∈ exactKnn K cands, ∀ y ∈ rest, x.dist ≤ y.dist := by
  obtain ⟨rest, inv⟩ := exact_knn_heap K cands
  refine ⟨rest, ?_, ?_, ?_, ?_⟩
  · exact ((List.reverse_perm _).append_right rest).trans inv.perm
  · unfold Asc exactKnn
    rw [List.pairwise_reverse]
    exact inv.desc
  · simpa [exactKnn] using inv.len
  · intro x hx y hy
    exact inv.low x (by simpa [exactKnn] using hx) y hy

/-- radius search, precision "exact": exactly the accepted candidates within the radius, each once,
    in non-decreasing distance order -/
theorem exact_radius (R : Nat) (cands : List Cand) :
    (exactRadius R cands).Perm (cands.filter (fun c => c.acc && decide (c.dist ≤ R))) ∧ Asc (exactRadius R cands) := by
  obtain ⟨hd, hp⟩ := radius_fold R cands [] (by simp)
  constructor
  · exact (List.reverse_perm _).trans (by simpa using hp)
  · unfold Asc exactRadius
    rw [List.pairwise_reverse]
    exact hd

/-- no document is returned twice when the visited ids are distinct -/
theorem knn_ids_distinct (K : Nat) (cands : List Cand) (h : (cands.map (·.id)).Nodup) :
    ((exactKnn K cands).map (·.id)).Nodup := by
  obtain ⟨rest, hp, _⟩ := exact_knn K cands
  have hsub : ((exactKnn K cands).map (·.id)).Sublist (((exactKnn K cands ++ rest)).map (·.id)) := by
    rw [List.map_append]; exact List.sublist_append_left _ _
  have hnd : ((exactKnn K cands ++ rest).map (·.id)).Nodup := by
    have := (hp.map (·.id)).nodup_iff.mpr ((List.filter_sublist.map _).nodup h)
    exact this
  exact hsub.nodup hnd

/-- the documents an exact search has to choose from, in the abstract store: one candidate per live id,
    with the distance to its stored vector, accepted by the filter on its current metadata -/
def wanted (c : Coll) (docs : DocStore) (dist : List Nat → Nat) (flt : Nat → Bytes → Bool) : List Cand :=
  (specCands docs dist flt (getAllIDs c)).filter (·.acc)

/-- **exact K-nearest search on a collection** that represents the store `docs` (`CRep2`: reached by any
    history of document operations, see `C01.documents_refine`), whatever order `vis` the index map is
    visited in, any distance function of the stored codes and any filter: the result is sorted, has
    `min K m` entries, together with a remainder it is a permutation of the `m` accepted live
    documents, nothing unreported is closer than anything reported, every entry is a live document
    with its true distance whose current metadata pass the filter, and no id is reported twice -/
theorem exact_search_on_collection (c : Coll) (segs : List Seg) (docs : DocStore) (h : CRep2 c segs docs)
    (dist : List Nat → Nat) (flt : Nat → Bytes → Bool) (vis : List (Bytes × Nat)) (hv : vis.Perm c.sf.index) (K : Nat) :
    ∃ rest, (exactKnn K (exactCands c dist flt vis) ++ rest).Perm (wanted c docs dist flt) ∧
      Asc (exactKnn K (exactCands c dist flt vis)) ∧
      (exactKnn K (exactCands c dist flt vis)).length = min K (wanted c docs dist flt).length ∧
      (∀ x ∈ exactKnn K (exactCands c dist flt vis), ∀ y ∈ rest, x.dist ≤ y.dist) ∧
      (∀ x ∈ exactKnn K (exactCands c dist flt vis), ∃ d, docs x.id = some d ∧ x.dist = dist d.codes ∧ flt x.id d.md = true) ∧
      ((exactKnn K (exactCands c dist flt vis)).map (·.id)).Nodup := by
  have hc := exactCands_spec c segs docs h dist flt vis hv
  have hf : ((exactCands c dist flt vis).filter (·.acc)).Perm (wanted c docs dist flt) := hc.filter _
  obtain ⟨rest, h1, h2, h3, h4⟩ := exact_knn K (exactCands c dist flt vis)
  refine ⟨rest, h1.trans hf, h2, by rw [h3, hf.length_eq], h4, ?_, ?_⟩
  · intro x hx
    have hm : x ∈ wanted c docs dist flt := (h1.trans hf).mem_iff.mp (List.mem_append_left _ hx)
    unfold wanted at hm
    rw [List.mem_filter, specCands_mem] at hm
    obtain ⟨⟨_, d, hd, e1, e2⟩, hacc⟩ := hm
    exact ⟨d, hd, e1, by rw [← e2]; exact hacc⟩
  · apply knn_ids_distinct
    have hids : ((exactCands c dist flt vis).map (·.id)).Perm (getAllIDs c) := by
      have := hc.map (·.id)
      rwa [specCands_ids docs dist flt (getAllIDs c) (fun id hid => (allIDs_mem c segs docs h id).mp hid)] at this
    exact hids.nodup_iff.mpr (allIDs_sorted_nodup c segs docs h).2

/-- **exact radius search on a collection**: exactly the accepted live documents within the radius, each
    once, sorted by distance -/
theorem exact_radius_on_collection (c : Coll) (segs : List Seg) (docs : DocStore) (h : CRep2 c segs docs)
    (dist : List Nat → Nat) (flt : Nat → Bytes → Bool) (vis : List (Bytes × Nat)) (hv : vis.Perm c.sf.index) (R : Nat) :
    (exactRadius R (exactCands c dist flt vis)).Perm
        ((specCands docs dist flt (getAllIDs c)).filter (fun x => x.acc && decide (x.dist ≤ R))) ∧
      Asc (exactRadius R (exactCands c dist flt vis)) := by
  obtain ⟨h1, h2⟩ := exact_radius R (exactCands c dist flt vis)
  exact ⟨h1.trans ((exactCands_spec c segs docs h dist flt vis hv).filter _), h2⟩

/-- **PercentSearched = 100**: the exact scan calls `consider` successfully once per live document — the
    number of candidates equals `GetDocumentCount`, which is what `pointsSearched / numRecords` compares -/
theorem exact_scan_visits_every_document (c : Coll) (segs : List Seg) (docs : DocStore) (h : CRep2 c segs docs)
    (dist : List Nat → Nat) (flt : Nat → Bytes → Bool) (vis : List (Bytes × Nat)) (hv : vis.Perm c.sf.index) :
    ((exactCands c dist flt vis).length : Int) = getCount c := by
  have h1 := (exactCands_spec c segs docs h dist flt vis hv).length_eq
  have h2 := congrArg List.length (specCands_ids docs dist flt (getAllIDs c) (fun id hid => (allIDs_mem c segs docs h id).mp hid))
  rw [List.length_map] at h2
  rw [count_spec c segs docs h, h1, h2]

/-- … after **any history** of document operations on a collection (each operation fitting the file
    bounds): the exact search answers from the final abstract store -/
theorem exact_search_after_any_history (ops : List DocOp) (c : Coll) (segs : List Seg) (docs : DocStore)
    (h : CRep2 c segs docs) (hf : DocFitsAll2 c docs ops)
    (dist : List Nat → Nat) (flt : Nat → Bytes → Bool) (vis : List (Bytes × Nat))
    (hv : vis.Perm (ops.foldl applyDocOp c).sf.index) (K : Nat) :
    ∃ rest, (exactKnn K (exactCands (ops.foldl applyDocOp c) dist flt vis) ++ rest).Perm
        (wanted (ops.foldl applyDocOp c) (ops.foldl docSpec docs) dist flt) ∧
      ∀ x ∈ exactKnn K (exactCands (ops.foldl applyDocOp c) dist flt vis),
        ∃ d, ops.foldl docSpec docs x.id = some d ∧ x.dist = dist d.codes ∧ flt x.id d.md = true := by
  obtain ⟨segs', h'⟩ := doc_run_refines2 ops c segs docs h hf
  obtain ⟨rest, h1, _, _, _, h5, _⟩ := exact_search_on_collection _ segs' _ h' dist flt vis hv K
  exact ⟨rest, h1, h5⟩

/-- non-vacuity / sanity: K = 2 over four candidates, one rejected by the filter -/
example : (exactKnn 2 [⟨1, 50, true⟩, ⟨2, 10, true⟩, ⟨3, 5, false⟩, ⟨4, 30, true⟩]).map (·.id) = [2, 4] := by decide

end Syzgy.C03
