import Syzgy.Lemmas.Knn
/-!
# C03 — exact search returns precisely the nearest matching documents
Candidates are given in *any* visiting order (Go map order); `acc` is the filter's verdict;
distances are totally ordered (no NaN: that is C06).
-/
namespace Syzgy.C03

@[reducible] def Asc (l : List Cand) : Prop := List.Pairwise (fun a b => a.dist ≤ b.dist) l

/-- K-nearest, precision "exact": the result together with some remainder is a permutation of the
    accepted candidates (so every entry is an accepted candidate with its own distance, and no
    candidate is reported twice), it is sorted by non-decreasing distance, has `min K m` entries,
    and every reported distance is ≤ every unreported one (ties at the cut-off either way). -/
theorem exact_knn (K : Nat) (cands : List Cand) :
    ∃ rest, (exactKnn K cands ++ rest).Perm (cands.filter (·.acc)) ∧ Asc (exactKnn K cands) ∧
      (exactKnn K cands).length = min K (cands.filter (·.acc)).length ∧
      ∀ x ∈ exactKnn K cands, ∀ y ∈ rest, x.dist ≤ y.dist := by
  obtain ⟨rest, inv⟩ := exact_knn_heap K cands
  refine ⟨rest, ?_, ?_, ?_, ?_⟩
  · exact ((List.reverse_perm _).append_right rest).trans inv.perm
  · unfold Asc exactKnn
    rw [List.pairwise_reverse]
    exact inv.desc
  · simpa [exactKnn] using inv.len
  · intro x hx y hy
    exact inv.low x (by simpa [exactKnn] using hx) y hy

/-- radius search, precision "exact": exactly the accepted candidates within the radius, each once,
    in non-decreasing distance order -/
theorem exact_radius (R : Nat) (cands : List Cand) :
    (exactRadius R cands).Perm (cands.filter (fun c => c.acc && decide (c.dist ≤ R))) ∧ Asc (exactRadius R cands) := by
  obtain ⟨hd, hp⟩ := radius_fold R cands [] (by simp)
  constructor
  · exact (List.reverse_perm _).trans (by simpa using hp)
  · unfold Asc exactRadius
    rw [List.pairwise_reverse]
    exact hd

/-- no document is returned twice when the visited ids are distinct -/
theorem knn_ids_distinct (K : Nat) (cands : List Cand) (h : (cands.map (·.id)).Nodup) :
    ((exactKnn K cands).map (·.id)).Nodup := by
  obtain ⟨rest, hp, _⟩ := exact_knn K cands
  have hsub : ((exactKnn K cands).map (·.id)).Sublist (((exactKnn K cands ++ rest)).map (·.id)) := by
    rw [List.map_append]; exact List.sublist_append_left _ _
  have hnd : ((exactKnn K cands ++ rest).map (·.id)).Nodup := by
    have := (hp.map (·.id)).nodup_iff.mpr ((List.filter_sublist.map _).nodup h)
    exact this
  exact hsub.nodup hnd

/-- non-vacuity / sanity: K = 2 over four candidates, one rejected by the filter -/
example : (exactKnn 2 [⟨1, 50, true⟩, ⟨2, 10, true⟩, ⟨3, 5, false⟩, ⟨4, 30, true⟩]).map (·.id) = [2, 4] := by decide

end Syzgy.C03
