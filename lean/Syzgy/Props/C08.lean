import Syzgy.Lemmas.Crc
import Syzgy.Lemmas.Dead
import Syzgy.Lemmas.Scan
/-!
# C08 — no silent corruption
-/
namespace Syzgy.C08
open Syzgy.Crc

/-- the checksum the code computes (`crc32.ChecksumIEEE`, modelled byte-wise) is the bit-serial
    reflected CRC-32 whose algebra the theorems below use -/
theorem checksum_is_crc32 (b : Bytes) : checksum b = crc32 b := checksum_eq_crc32 b

/-- the CRC register is GF(2)-linear in (state, message) -/
theorem crc_linear (s t : BitVec 32) (as bs : List Bool) (h : as.length = bs.length) :
    feed (s ^^^ t) (List.zipWith (· ^^ ·) as bs) = feed s as ^^^ feed t bs := feed_xor s t as bs h

/-- **burst detection inside the covered bytes**: xoring into the checksum-covered bytes of a span
    any error pattern whose set bits fit into 32 consecutive bits (CRC bit order) — in particular any
    single-bit flip and any byte-aligned burst of up to 4 bytes — changes the checksum, for a message
    of any length. -/
theorem crc_burst (m e : Bytes) (h : m.length = e.length) (pre post : Nat) (w : List Bool)
    (hw : w.length ≤ 32) (hne : ∃ b ∈ w, b = true)
    (he : bitsOf e = List.replicate pre false ++ w ++ List.replicate post false) :
    checksum (xorBytes m e) ≠ checksum m :=
  burst_changes_checksum m e h pre post w hw hne he

/-- **damage confined to the stored checksum** is always detected: a span image verifies iff the
    stored value is the checksum of what precedes it -/
theorem crc_field (pre : Bytes) (c : Nat) (hc : c < 4294967296) :
    verifyChecksum (pre ++ be32 c) = true ↔ c = checksum pre := verify_iff pre c hc

/-- a span whose covered bytes were hit by such a burst no longer verifies (so `scanFile` skips it and
    `ReadRecord` refuses it): the stored checksum is unchanged, the computed one is not -/
theorem damaged_span_rejected (m e : Bytes) (h : m.length = e.length) (pre post : Nat) (w : List Bool)
    (hw : w.length ≤ 32) (hne : ∃ b ∈ w, b = true)
    (he : bitsOf e = List.replicate pre false ++ w ++ List.replicate post false) :
    verifyChecksum (xorBytes m e ++ be32 (checksum m)) = false := by
  have := crc_field (xorBytes m e) (checksum m) (checksum_lt m)
  have hne' := crc_burst m e h pre post w hw hne he
  cases hv : verifyChecksum (xorBytes m e ++ be32 (checksum m)) with
  | false => rfl
  | true => exact absurd (this.mp hv).symm hne'

/-- `parseSpan` (used by `ReadRecord`) re-verifies: it returns only spans whose image verifies -/
theorem read_reverifies (data : Bytes) (sp : Span) (h : parseSpan data = .ok sp) :
    verifyChecksum (data.take sp.length) = true := by
  unfold parseSpan at h
  by_cases h15 : data.length < minSpanLength
  · rw [if_pos h15] at h; cases h
  · rw [if_neg h15] at h
    cases hm : rd32 data with
    | none => rw [hm] at h; cases h
    | some magic =>
      cases hl : rd32 (data.drop 4) with
      | none => rw [hm, hl] at h; cases h
      | some l =>
        rw [hm, hl] at h
        simp only at h
        by_cases c1 : magic ≠ activeMagic
        · rw [if_pos c1] at h; cases h
        · rw [if_neg c1] at h
          by_cases c2 : l > data.length
          · rw [if_pos c2] at h; cases h
          · rw [if_neg c2] at h
            by_cases c3 : (!verifyChecksum (data.take l)) = true
            · rw [if_pos c3] at h; cases h
            · rw [if_neg c3] at h
              have hv : verifyChecksum (data.take l) = true := by simpa using c3
              have hlen : sp.length = l := by
                repeat' split at h
                all_goals first
                  | (cases h; rfl)
                  | cases h
              rw [hlen]; exact hv

/-- **PROVED NEGATIVE (known finding)**: the burst guarantee does *not* extend across the boundary
    between the covered bytes and the stored checksum. For every span, the contiguous 4-byte pattern
    `61 d8 f4 ee` over the last two covered bytes and the first two checksum bytes is undetected. -/
theorem crc_straddle_undetected (pre : Bytes) (a b : UInt8) :
    verifyChecksum (xorBytes (pre ++ [a, b] ++ be32 (checksum (pre ++ [a, b])))
      (zeros pre.length ++ [0x61, 0xd8] ++ [0xf4, 0xee, 0, 0])) = true :=
  straddle_undetected pre a b

/-- opening never panics on a file of well-formed segments whatever their content (see C07/C02);
    a file whose first bytes are not a known magic number is rejected with an error -/
theorem bad_magic_rejected (file : Bytes) (h4 : 4 ≤ file.length)
    (hm : rd32 file ≠ some activeMagic ∧ rd32 file ≠ some freeMagic) (mode : FileMode) (hmode : mode ≠ .createAndOverwrite) :
    ∃ m, openFile (some file) mode = .err m := by
  have hne : file.isEmpty = false := by
    cases file with
    | nil => simp at h4
    | cons a r => rfl
  unfold openFile
  have hlt : ¬ (file.length < 4) := by omega
  cases mode <;> simp_all <;> (split <;> exact ⟨_, rfl⟩)


/-- **Damage confined to one record's payload or checksum loses at most that document.** In a file of
    well-formed segments with distinct ids, replace the bytes of one active span by any image of the same
    length with intact magic and length field whose checksum fails. Opening succeeds in every mode and
    stores nothing; the damaged record is "not found"; every other record reads back exactly the
    streams written for it; an id never written stays "not found" (nothing is fabricated). -/
theorem payload_damage_loses_only_that_record (A B : List Seg) (seq : Nat) (rid : Bytes) (st : List Stream) (pad : Nat)
    (hok : ∀ s ∈ A ++ .act seq rid st pad :: B, s.OK) (hnd : (actRids (A ++ .act seq rid st pad :: B)).Nodup)
    (d : Bytes) (hd : Damaged d) (hlen : d.length = (Seg.act seq rid st pad).size) (ro : Bool) :
    ∃ s', scanFile (render A ++ (d ++ render B)) ro = .ok s' ∧ s'.file = render A ++ (d ++ render B) ∧
      readRecord s' rid = .err "record not found" ∧
      (∀ r st', r ≠ rid → docOf r (A ++ .act seq rid st pad :: B) = some st' →
        ∃ sp, readRecord s' r = .ok sp ∧ sp.rid = r ∧ sp.streams = st') ∧
      (∀ r, docOf r (A ++ .act seq rid st pad :: B) = none → readRecord s' r = .err "record not found") :=
  damaged_record_only A B seq rid st pad hok hnd d hd hlen ro

/-- every burst of up to 32 bits in the payload or padding of a span produces such a damaged image
    (the hypothesis `Damaged` of the theorem above), for every record and every burst position -/
theorem payload_burst_is_damage (seq : Nat) (rid : Bytes) (st : List Stream) (pad : Nat)
    (hs : (Seg.act seq rid st pad).OK) (e' : Bytes) (hlen : e'.length = (spanBody seq rid st).length + pad)
    (pre post : Nat) (w : List Bool) (hw : w.length ≤ 32) (hne : ∃ b ∈ w, b = true)
    (he : bitsOf (zeros 8 ++ e') = List.replicate pre false ++ w ++ List.replicate post false) :
    Damaged (xorBytes (actPre seq rid st pad) (zeros 8 ++ e') ++ be32 (checksum (actPre seq rid st pad))) ∧
    (xorBytes (actPre seq rid st pad) (zeros 8 ++ e') ++ be32 (checksum (actPre seq rid st pad))).length =
      (Seg.act seq rid st pad).size :=
  burst_in_payload_damaged seq rid st pad hs e' hlen pre post w hw hne he

end Syzgy.C08
