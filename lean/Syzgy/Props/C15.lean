import Syzgy.Model.Query.Parser
import Syzgy.Lemmas.ParseSpec
import Syzgy.Lemmas.LexSpec
/-!
# C15 — a filter is accepted only if its whole text is one expression
-/
namespace Syzgy.C15
open Syzgy.Query

/-- whatever the token source, an accepted parse stopped exactly at the end-of-input token:
    nothing after a complete expression is ignored -/
theorem accepted_only_at_eof (nx : TokSrc) (nok : NumOK) (fuel : Nat) (e : Node)
    (h : parseSrc nx nok fuel = .ok e) :
    ∃ s s1, newParser nx = .ok s ∧ parseOr nx nok fuel s = .ok (e, s1) ∧ s1.cur.type = .eof := by
  unfold parseSrc at h
  cases hs : newParser nx with
  | err m => rw [hs] at h; simp at h
  | panic m => rw [hs] at h; simp at h
  | ok s =>
    rw [hs] at h
    simp only at h
    cases hp : parseOr nx nok fuel s with
    | err m => rw [hp] at h; simp at h
    | panic m => rw [hp] at h; simp at h
    | ok r =>
      obtain ⟨e', s1⟩ := r
      rw [hp] at h
      simp only at h
      by_cases heof : s1.cur.type = .eof
      · rw [if_pos heof] at h
        cases h
        exact ⟨s, s1, rfl, hp, heof⟩
      · rw [if_neg heof] at h; simp at h

/-- the `null` literal is consumed like any other literal: after it, the parser stands on the
    token that follows (so `x == null AND B` reaches the `AND`) -/
theorem null_is_consumed (nx : TokSrc) (nok : NumOK) (fuel : Nat) (s s1 : PS)
    (hcur : s.cur.type = .null) (hadv : advance nx s = .ok s1) :
    parsePrimary nx nok (fuel + 1) s = .ok (.value .null, s1) ∧ s1.cur = s.peek := by
  constructor
  · unfold parsePrimary
    simp [hcur, hadv]
  · unfold advance at hadv
    cases h : nx s.pos with
    | ok r => obtain ⟨t, p⟩ := r; rw [h] at hadv; cases hadv; rfl
    | err m => rw [h] at hadv; simp at hadv
    | panic m => rw [h] at hadv; simp at hadv


/-- **`A J` is rejected**: the canonical tokens of any expression followed by a token that cannot continue
    it (a literal, an identifier, a closing bracket, a comma, ... — anything but AND, OR or a comparison
    operator) are refused with "unexpected token after expression", whatever follows -/
theorem expression_then_junk_is_rejected (nok : Query.NumOK) (e : Query.Expr) (he : e.OK nok) (j : Query.Token)
    (J : List Query.Token) (hj : Query.isComparisonOperator j.type = false) (hand : j.type ≠ .and) (hor : j.type ≠ .or)
    (heof : j.type ≠ .eof) (fuel : Nat) (hf : e.need + 2 ≤ fuel) :
    Query.parseSrc (Query.listSrc (e.toks 0 ++ j :: J)) nok fuel = .err "unexpected token after expression" :=
  Query.trailing_rejected nok e he j J hj hand hor heof fuel hf

/-- **a condition after `null` counts**: `x == null AND B` parses to the conjunction of both -/
theorem null_then_and (nok : Query.NumOK) (p : Query.Path) (hp : p.numsOK nok) (B : Query.Expr) (hB : B.OK nok) (fuel : Nat)
    (hf : (Query.Expr.and (.cmp .eq p .null) B).need + 2 ≤ fuel) :
    Query.parseSrc (Query.listSrc ((Query.Expr.and (.cmp .eq p .null) B).toks 0)) nok fuel =
      .ok (.expr (.expr p.ast b!"==" (.value .null)) b!"AND" B.ast) :=
  Query.parse_canonical nok (.and (.cmp .eq p .null) B) (show (Query.Expr.cmp .eq p .null).OK nok ∧ B.OK nok from ⟨⟨hp, by intro lit h; cases h⟩, hB⟩) fuel hf

/-- **the same on text**: any spelling (white space between tokens, or none where two tokens cannot run
    together; either kind of quotes) of the canonical tokens of an expression followed
    by a token that cannot continue it — a literal, a name, a lower-case `and`, a closing bracket, a
    second expression — and by anything else lexable, is refused with "unexpected token after expression" -/
theorem text_then_junk_is_rejected (nok : Query.NumOK) (e : Query.Expr) (he : e.OK nok) (j : Query.Token)
    (J : List Query.Token) (hj : Query.isComparisonOperator j.type = false) (hand : j.type ≠ .and) (hor : j.type ≠ .or)
    (heof : j.type ≠ .eof) (sq : Query.Token → Bool) (items : List (Bytes × Query.Token)) (trail : Bytes)
    (htoks : items.map (·.2) = e.toks 0 ++ j :: J) (hok : Query.SpellOK sq items) (htrail : Query.isWsList trail) :
    Query.parse (Query.ofList (Query.spell sq items ++ trail)) nok = .err "unexpected token after expression" := by
  rw [Query.parse_spelled sq items trail hok htrail nok, htoks]
  apply Query.trailing_rejected nok e he j J hj hand hor heof
  have hlex : ∀ t ∈ e.toks 0, Query.Lexable t := by
    intro t ht
    have hm : t ∈ items.map (·.2) := by rw [htoks]; simp [ht]
    obtain ⟨x, hx, rfl⟩ := List.mem_map.mp hm
    obtain ⟨a, b, e'⟩ := List.append_of_mem hx
    exact (hok.1 a x.1 x.2 b e').2.1
  have h1 := e.need_le_text 0 hlex
  have h2 := Query.textLen_le_spell sq items
  rw [htoks, Query.textLen_append] at h2
  simp only [Query.parseFuel, List.length_append]
  omega

/-- a lower-case `and` is a name, not the connective: it is lexable as an identifier and so is covered by
    `text_then_junk_is_rejected` -/
example : Query.Lexable (Query.tk .identifier b!"and") :=
  ⟨Query.word_of_list _ (by decide) (by decide), by decide, by decide⟩

end Syzgy.C15
