import Syzgy.Model.Dump
import Syzgy.Lemmas.DumpColl
/-!
# C20 — export followed by import reproduces the collection
-/
namespace Syzgy.C20

variable {F T : Type}

theorem mapM_parse_fmt (deq : Nat → F) (fmt : F → T) (parse : T → Option F) (codes : List Nat)
    (h : ∀ k ∈ codes, parse (fmt (deq k)) = some (deq k)) :
    (codes.map (fun k => fmt (deq k))).mapM parse = some (codes.map deq) := by
  induction codes with
  | nil => rfl
  | cons k ks ih =>
    simp only [List.map_cons, List.mapM_cons, h k (by simp), ih (fun x hx => h x (by simp [hx]))]
    rfl

/-- If printing a stored component and parsing it back is the identity (`parse ∘ fmt = id` on the
    stored values) and storing is idempotent (`q (deq k) = k`, C12), then import ∘ export returns
    every record with the same id, the same stored vector and the same metadata — for every
    collection and every quantization. -/
theorem roundtrip (deq : Nat → F) (q : F → Nat) (fmt : F → T) (parse : T → Option F) (docs : List Rec)
    (hfmt : ∀ d ∈ docs, ∀ k ∈ d.codes, parse (fmt (deq k)) = some (deq k))
    (hidem : ∀ d ∈ docs, ∀ k ∈ d.codes, q (deq k) = k) :
    importRecs q parse (exportRecs deq fmt docs) = some docs := by
  induction docs with
  | nil => rfl
  | cons d ds ih =>
    have hd := mapM_parse_fmt deq fmt parse d.codes (hfmt d (by simp))
    have hq : (d.codes.map deq).map q = d.codes := by
      rw [List.map_map]
      have : ∀ k ∈ d.codes, (q ∘ deq) k = id k := fun k hk => hidem d (by simp) k hk
      rw [List.map_congr_left this, List.map_id]
    have ih' := ih (fun x hx => hfmt x (by simp [hx])) (fun x hx => hidem x (by simp [hx]))
    simp only [importRecs, exportRecs, List.map_cons, List.mapM_cons] at ih' ⊢
    simp only [hd]
    rw [ih']
    simp only [Option.bind_eq_bind, Option.bind_some, Option.pure_def, hq]

/-- the weaker hypothesis that suffices: the printed form only has to *re-quantize* to the same
    code (true of six-decimal printing for b ≤ 16, false for b = 32/64 — the defect fixed by
    printing the shortest round-trip form) -/
theorem roundtrip_requantize (deq : Nat → F) (q : F → Nat) (fmt : F → T) (parse : T → Option F) (codes : List Nat)
    (h : ∀ k ∈ codes, ∃ v, parse (fmt (deq k)) = some v ∧ q v = k) :
    ∃ vs, (codes.map (fun k => fmt (deq k))).mapM parse = some vs ∧ vs.map q = codes := by
  induction codes with
  | nil => exact ⟨[], rfl, rfl⟩
  | cons k ks ih =>
    obtain ⟨v, hv, hq⟩ := h k (by simp)
    obtain ⟨vs, hvs, hqs⟩ := ih (fun x hx => h x (by simp [hx]))
    refine ⟨v :: vs, ?_, by simp [hq, hqs]⟩
    simp only [List.map_cons, List.mapM_cons, hv, hvs]
    rfl

/-- **on collections**: `ExportJSON` walks `collRecs c` (every listed id with the document `getDocument` returns); when
    import reads those records back unchanged (`roundtrip`), adding them one by one to a newly created collection with the
    same options yields a collection that represents the same abstract store: same ids, byte-identical metadata,
    identical stored codes, for every quantization -/
theorem import_of_export_is_the_same_store (c : Coll) (segs : List Seg) (docs : DocStore) (h : CRep2 c segs docs)
    (name : Bytes) (hm : c.cfg.metric = 0 ∨ c.cfg.metric = 1) (hlen : (encodeOpts name c.cfg).length < 1000000000) :
    ∃ c0, newCollection none name c.cfg .createIfNotExists = .ok c0 ∧ c0.cfg = c.cfg ∧
      (DocFitsAll2 c0 (fun _ => none) (importOps (collRecs c)) →
        ∃ segs', CRep2 ((importOps (collRecs c)).foldl applyDocOp c0) segs' docs) :=
  import_export_collection c segs docs h name hm hlen

/-- … and the records read back are the records exported, under the hypotheses of `roundtrip` -/
theorem exported_records_read_back (deq : Nat → F) (q : F → Nat) (fmt : F → T) (parse : T → Option F) (c : Coll)
    (hfmt : ∀ d ∈ collRecs c, ∀ k ∈ d.codes, parse (fmt (deq k)) = some (deq k))
    (hidem : ∀ d ∈ collRecs c, ∀ k ∈ d.codes, q (deq k) = k) :
    importRecs q parse (exportRecs deq fmt (collRecs c)) = some (collRecs c) :=
  roundtrip deq q fmt parse (collRecs c) hfmt hidem

/-- non-vacuity: identity printing over `Nat` -/
example : importRecs (fun v : Nat => v) (fun t : Nat => some t) (exportRecs (fun k => k) (fun v => v)
    [{ id := 7, codes := [1, 2], md := [123, 125] }]) = some [{ id := 7, codes := [1, 2], md := [123, 125] }] := by
  decide

end Syzgy.C20
