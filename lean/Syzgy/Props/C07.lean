import Syzgy.Lemmas.Scan
/-!
# C07 — crash between storage steps

Crash granularity is one storage call. The crash images of an operation are the files after each
proper prefix of its storage steps (`writeRecord`/`removeRecord` return them; the regenerated step
order is tied in `Instantiate/Storage.lean`). The theorems below are about what recovery
(`scanFile` in a writable mode) does with such an image, expressed on segments.
-/
namespace Syzgy.C07

/-- Recovery never fails and never panics on a file made of well-formed segments followed by any
    zero tail (the image left by a crash after file growth), in any mode. -/
theorem recovery_succeeds (segs : List Seg) (hok : ∀ s ∈ segs, s.OK) (z : Nat) (ro : Bool) :
    ∃ sf, scanFile (render segs ++ zeros z) ro = .ok sf :=
  ⟨_, scanFile_render segs hok z ro⟩

/-- A zero tail of at least one minimal span is given a FREE header by a writable open, so the
    recovered file is again a gap-free chain (no record can later be appended behind zeros). -/
theorem zero_tail_becomes_free_span (off z : Nat) (h : minSpanLength ≤ z) :
    tailPatch false off z = [(off, be32 freeMagic ++ be32 (z % 4294967296))] := by
  have : ¬ (z < minSpanLength) := by omega
  simp [tailPatch, this]

/-- When the scan meets a second active span for an id that is already indexed, exactly one of the
    two is released — the one with the lower sequence number — so after recovery an id is active
    at most once (no zombie), and the indexed version is the newer one. -/
theorem superseded_span_is_freed (file : Bytes) (acc : ScanAcc) (off seq e old : Nat) (rid : Bytes)
    (hseq : idxGet acc.seqs rid = some e) (hidx : idxGet acc.index rid = some old) :
    (seq > e → scanActive file false acc off seq rid =
        let acc1 := freeSuperseded file false acc old
        { acc1 with highest := (if seq > acc.highest then seq else acc.highest),
                    seqs := idxSet acc1.seqs rid seq, index := idxSet acc1.index rid off }) ∧
    (¬ seq > e → scanActive file false acc off seq rid =
        freeSuperseded file false { acc with highest := (if seq > acc.highest then seq else acc.highest) } off) := by
  constructor
  · intro h; simp [scanActive, hseq, hidx, h]
  · intro h; simp [scanActive, hseq, h]

/-- releasing a span = one 4-byte store of the FREE magic at its offset + the region added to the free map -/
theorem free_superseded_effect (file : Bytes) (acc : ScanAcc) (off len : Nat) (h : rd32At file (off + 4) = some len) :
    freeSuperseded file false acc off =
      { acc with patches := acc.patches ++ [(off, be32 freeMagic)], free := markFree acc.free off len } := by
  simp [freeSuperseded, h]

end Syzgy.C07
