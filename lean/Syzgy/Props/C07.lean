import Syzgy.Lemmas.Scan
import Syzgy.Lemmas.Crash
import Syzgy.Lemmas.CrashColl
import Syzgy.Lemmas.Opts
/-!
# C07 — crash between storage steps

Crash granularity is one storage call. The crash images of an operation are the files after each
proper prefix of its storage steps (`writeRecord`/`removeRecord` return them; the regenerated step
order is tied in `Instantiate/Storage.lean`). The theorems below are about what recovery
(`scanFile` in a writable mode) does with such an image, expressed on segments.
-/
namespace Syzgy.C07

/-- Recovery never fails and never panics on a file made of well-formed segments followed by any
    zero tail (the image left by a crash after file growth), in any mode. -/
theorem recovery_succeeds (segs : List Seg) (hok : ∀ s ∈ segs, s.OK) (z : Nat) (ro : Bool) :
    ∃ sf, scanFile (render segs ++ zeros z) ro = .ok sf :=
  ⟨_, scanFile_render segs hok z ro⟩

/-- A zero tail of at least one minimal span is given a FREE header by a writable open, so the
    recovered file is again a gap-free chain (no record can later be appended behind zeros). -/
theorem zero_tail_becomes_free_span (off z : Nat) (h : minSpanLength ≤ z) :
    tailPatch false off z = [(off, be32 freeMagic ++ be32 (z % 4294967296))] := by
  have : ¬ (z < minSpanLength) := by omega
  simp [tailPatch, this]

/-- When the scan meets a second active span for an id that is already indexed, exactly one of the
    two is released — the one with the lower sequence number — so after recovery an id is active
    at most once (no zombie), and the indexed version is the newer one. -/
theorem superseded_span_is_freed (file : Bytes) (acc : ScanAcc) (off seq e old : Nat) (rid : Bytes)
    (hseq : idxGet acc.seqs rid = some e) (hidx : idxGet acc.index rid = some old) :
    (seq > e → scanActive file false acc off seq rid =
        let acc1 := freeSuperseded file false acc old
        { acc1 with highest := (if seq > acc.highest then seq else acc.highest),
                    seqs := idxSet acc1.seqs rid seq, index := idxSet acc1.index rid off }) ∧
    (¬ seq > e → scanActive file false acc off seq rid =
        freeSuperseded file false { acc with highest := (if seq > acc.highest then seq else acc.highest) } off) := by
  constructor
  · intro h; simp [scanActive, hseq, hidx, h]
  · intro h; simp [scanActive, hseq, h]

/-- releasing a span = one 4-byte store of the FREE magic at its offset + the region added to the free map -/
theorem free_superseded_effect (file : Bytes) (acc : ScanAcc) (off len : Nat) (h : rd32At file (off + 4) = some len) :
    freeSuperseded file false acc off =
      { acc with patches := acc.patches ++ [(off, be32 freeMagic)], free := markFree acc.free off len } := by
  simp [freeSuperseded, h]

/-- **Crash at any storage step of a write, in any reachable state.** Let a state be reached from a state
    satisfying the invariants by any operation sequence. For the next `WriteRecord` — fresh id or
    overwrite, into free space or with file growth — and for each of its crash images (the file after
    `grow`, after `writeAt`, after `markFreed`): a writable open of the image succeeds, the recovered
    state satisfies the representation invariant (gap-free chain of checksummed segments, every id
    active at most once — no zombie —, index and free map exact), and the recovered store is the store
    before the write or the store after it. The written document therefore has its old or its new
    content and every other document is untouched. (`FitsAllW`: the format's 32-bit limits, and the
    32-bit sequence counter does not wrap.) -/
theorem crash_at_any_step_of_any_write (ops : List Op) (s : SF) (segs : List Seg) (h : Rep s segs)
    (hseq : SeqBelow s.seq segs) (hf : FitsAllW s ops) (rid : Bytes) (st : List Stream)
    (hfit : Fits (ops.foldl applyOp s) (.write rid st)) :
    ∃ m, writeRecord (ops.foldl applyOp s) rid st = .ok m ∧
      ∀ img ∈ m.images, ∃ s' segs', scanFile img.2 false = .ok s' ∧ Rep s' segs' ∧
        ((∀ r, docOf r segs' = ops.foldl specStep (fun r => docOf r segs) r) ∨
         (∀ r, docOf r segs' = (ops ++ [Op.write rid st]).foldl specStep (fun r => docOf r segs) r)) :=
  crash_after_any_history ops s segs h hseq hf rid st hfit

/-- the same for one write from a state that satisfies the invariants, and for a removal (whose only
    storage step is its last) -/
theorem crash_during_write (s : SF) (segs : List Seg) (h : Rep s segs) (hseq : SeqBelow s.seq segs)
    (rid : Bytes) (st : List Stream) (hnew : NewOK s.seq rid st)
    (hbig : s.file.length + expandBy s.file.length (Seg.act s.seq rid st 0).size < 4294967296) :
    ∃ m, writeRecord s rid st = .ok m ∧
      ∀ img ∈ m.images, ∃ s' segs', scanFile img.2 false = .ok s' ∧ Rep s' segs' ∧
        ((∀ r, docOf r segs' = docOf r segs) ∨ (∀ r, docOf r segs' = if r = rid then some st else docOf r segs)) :=
  write_crash_safe s segs h hseq rid st hnew hbig

theorem crash_during_remove (s : SF) (segs : List Seg) (h : Rep s segs) (rid : Bytes) (hd : docOf rid segs ≠ none) :
    ∃ m, removeRecord s rid = .ok m ∧
      ∀ img ∈ m.images, ∃ s' segs', scanFile img.2 false = .ok s' ∧ Rep s' segs' ∧
        (∀ r, docOf r segs' = if r = rid then none else docOf r segs) :=
  remove_crash_safe s segs h rid hd

/-- both versions active (the image after `writeAt` of an overwrite): recovery keeps the one with the higher
    sequence number wherever it lies in the file, releases the other, and the result is exactly the file
    the completed operation would have left -/
theorem recovery_keeps_newer (P Q T : List Seg) (sa sb : Nat) (rid : Bytes) (sta stb : List Stream) (pa pb : Nat)
    (hok : ∀ x ∈ P ++ .act sa rid sta pa :: Q ++ .act sb rid stb pb :: T, x.OK)
    (hnd : (actRids (P ++ Q ++ T)).Nodup) (hrid : rid ∉ actRids (P ++ Q ++ T)) :
    (sb > sa → ∃ s', scanFile (render (P ++ .act sa rid sta pa :: Q ++ .act sb rid stb pb :: T)) false = .ok s' ∧
      s'.file = render (P ++ .free (actJunk sa rid sta pa) :: Q ++ .act sb rid stb pb :: T) ∧
      Rep s' (P ++ .free (actJunk sa rid sta pa) :: Q ++ .act sb rid stb pb :: T)) ∧
    (¬ sb > sa → ∃ s', scanFile (render (P ++ .act sa rid sta pa :: Q ++ .act sb rid stb pb :: T)) false = .ok s' ∧
      s'.file = render (P ++ .act sa rid sta pa :: Q ++ .free (actJunk sb rid stb pb) :: T) ∧
      Rep s' (P ++ .act sa rid sta pa :: Q ++ .free (actJunk sb rid stb pb) :: T)) :=
  ⟨recover_second_wins P Q T sa sb rid sta stb pa pb hok hnd hrid, recover_first_wins P Q T sa sb rid sta stb pa pb hok hnd hrid⟩

/-- the invariants hold in a newly created file, so the theorems above apply to every history that
    starts with creation -/
theorem new_file_invariants : ∃ s0, openFile none .createIfNotExists = .ok s0 ∧ Rep s0 [.act 0 [] [] 0] ∧
    SeqBelow s0.seq [.act 0 [] [] 0] := init_seqBelow

/-! ## the same at the level of documents and `NewCollection` -/

/-- **Crash at any storage step of any document operation.** On a collection that satisfies its invariant
    (`CRep2`, `SeqBelow`) and represents the store `docs`: whenever `AddDocument` (new id or overwrite,
    with or without file growth), `UpdateDocument` or a removal runs, every one of its crash images
    reopens — `NewCollection` in a writable mode with any caller options succeeds, including the header
    read and the index rebuild over every record — as a collection with the creation options whose
    header is intact and which represents the store before the operation or the store after it: the
    affected document is entirely old or entirely new, every other document is untouched. -/
theorem crash_during_any_document_operation (c : Coll) (segs : List Seg) (docs : DocStore) (h : CRep2 c segs docs)
    (hseq : SeqBelow c.sf.seq segs) (op : DocOp) (hf : DocOpFits2 c docs op)
    (name : Bytes) (opts : Cfg) (mode : FileMode) (hmode : mode = .readWrite ∨ mode = .createIfNotExists)
    (dec : Bytes → Cfg → Option Cfg) (s0 : Stream) (more : List Stream)
    (hh : docOf [] segs = some (s0 :: more)) (hdec : dec s0.data opts = some c.cfg)
    (hmetric : c.cfg.metric = 0 ∨ c.cfg.metric = 1)
    (c1 : Coll) (m : Mut) (hstep : docStep c op = .ok (c1, m)) :
    ∀ img ∈ m.images, ∃ c' segs', newCollection (some img.2) name opts mode dec = .ok c' ∧ c'.cfg = c.cfg ∧
      docOf [] segs' = docOf [] segs ∧ (CRep2 c' segs' docs ∨ CRep2 c' segs' (docSpec docs op)) :=
  doc_crash_safe c segs docs h hseq op hf name opts mode hmode dec s0 more hh hdec hmetric c1 m hstep

/-- … **in every reachable state**: after any history of document operations (each within the format's
    32-bit limits, sequence counter not wrapping) -/
theorem crash_after_any_document_history (ops : List DocOp) (c : Coll) (segs : List Seg) (docs : DocStore)
    (h : CRep2 c segs docs) (hseq : SeqBelow c.sf.seq segs) (hf : DocFitsAllW c docs ops)
    (op : DocOp) (hop : DocOpFits2 (ops.foldl applyDocOp c) (ops.foldl docSpec docs) op)
    (name : Bytes) (opts : Cfg) (mode : FileMode) (hmode : mode = .readWrite ∨ mode = .createIfNotExists)
    (dec : Bytes → Cfg → Option Cfg) (s0 : Stream) (more : List Stream)
    (hh : docOf [] segs = some (s0 :: more)) (hdec : dec s0.data opts = some c.cfg)
    (hmetric : c.cfg.metric = 0 ∨ c.cfg.metric = 1)
    (c1 : Coll) (m : Mut) (hstep : docStep (ops.foldl applyDocOp c) op = .ok (c1, m)) :
    ∀ img ∈ m.images, ∃ c' segs', newCollection (some img.2) name opts mode dec = .ok c' ∧ c'.cfg = c.cfg ∧
      docOf [] segs' = docOf [] segs ∧
      (CRep2 c' segs' (ops.foldl docSpec docs) ∨ CRep2 c' segs' ((ops ++ [op]).foldl docSpec docs)) :=
  crash_after_any_doc_history ops c segs docs h hseq hf op hop name opts mode hmode dec s0 more hh hdec hmetric c1 m hstep

/-- **No older version comes back.** The collection recovered from a crash image satisfies the full
    invariant, so everything proved for collections applies to it: continuing with any operations
    (removing the affected document included) and reopening again yields exactly what the
    specification computes from the recovered store — a version superseded before the crash, or
    removed afterwards, cannot reappear. -/
theorem recovered_collection_continues (c : Coll) (segs : List Seg) (docs : DocStore) (h : CRep2 c segs docs)
    (hseq : SeqBelow c.sf.seq segs) (op : DocOp) (hf : DocOpFits2 c docs op)
    (name : Bytes) (opts : Cfg) (mode : FileMode) (hmode : mode = .readWrite ∨ mode = .createIfNotExists)
    (dec : Bytes → Cfg → Option Cfg) (s0 : Stream) (more : List Stream)
    (hh : docOf [] segs = some (s0 :: more)) (hdec : dec s0.data opts = some c.cfg)
    (hmetric : c.cfg.metric = 0 ∨ c.cfg.metric = 1)
    (c1 : Coll) (m : Mut) (hstep : docStep c op = .ok (c1, m)) :
    ∀ img ∈ m.images, ∃ c' D, newCollection (some img.2) name opts mode dec = .ok c' ∧ (D = docs ∨ D = docSpec docs op) ∧
      ∀ (ops2 : List DocOp) (segs' : List Seg), CRep2 c' segs' D → DocFitsAll2 c' D ops2 →
        ∀ mode2, mode2 ≠ .createAndOverwrite →
          ∃ c'', newCollection (some (ops2.foldl applyDocOp c').sf.file) name opts mode2 dec = .ok c'' ∧
            (∀ id, getDocument c'' id = match ops2.foldl docSpec D id with
              | none => .err "record not found"
              | some d => .ok d) ∧
            (∀ id, id ∈ getAllIDs c'' ↔ ops2.foldl docSpec D id ≠ none) := by
  intro img himg
  obtain ⟨c', segs', e1, e2, e3, e4⟩ :=
    doc_crash_safe c segs docs h hseq op hf name opts mode hmode dec s0 more hh hdec hmetric c1 m hstep img himg
  have key : ∀ D, CRep2 c' segs' D → ∀ (ops2 : List DocOp) (segs'' : List Seg), CRep2 c' segs'' D → DocFitsAll2 c' D ops2 →
        ∀ mode2, mode2 ≠ .createAndOverwrite →
          ∃ c'', newCollection (some (ops2.foldl applyDocOp c').sf.file) name opts mode2 dec = .ok c'' ∧
            (∀ id, getDocument c'' id = match ops2.foldl docSpec D id with
              | none => .err "record not found"
              | some d => .ok d) ∧
            (∀ id, id ∈ getAllIDs c'' ↔ ops2.foldl docSpec D id ≠ none) := by
    intro D hD ops2 _ _ hfits mode2 hm2
    obtain ⟨c'', g1, _, _, g4, g5⟩ := reopen_after_doc_history ops2 c' segs' D hD hfits name opts mode2 hm2 dec s0 more
      (by rw [e3]; exact hh) (by rw [e2]; exact hdec) (by rw [e2]; exact hmetric)
    exact ⟨c'', g1, g4, g5⟩
  rcases e4 with hD | hD
  · exact ⟨c', docs, e1, Or.inl rfl, key docs hD⟩
  · exact ⟨c', docSpec docs op, e1, Or.inr rfl, key _ hD⟩

/-- the invariants hold in a newly created collection, and its header holds the encoded options, so the
    theorems above apply to every history that starts with creation -/
theorem new_collection_invariants (name : Bytes) (opts : Cfg) (hq : Supported opts.quant)
    (hm : opts.metric = 0 ∨ opts.metric = 1) (hlen : (encodeOpts name opts).length < 1000000000) :
    ∃ c segs, newCollection none name opts .createIfNotExists = .ok c ∧ c.cfg = opts ∧
      CRep2 c segs (fun _ => none) ∧ SeqBelow c.sf.seq segs ∧
      docOf [] segs = some [{ id := 0, data := encodeOpts name opts }] :=
  new_collection_inv name opts hq hm hlen

/-- **from creation, with nothing assumed about decoding**: create a collection (supported options, a name
    without a double quote), run any history of document operations, start one more operation and let the
    process die after any of its storage steps: reopening the file in a writable mode with *any* caller
    options succeeds and yields a collection with the creation options that represents the store before
    that operation or the store after it -/
theorem created_collection_survives_crashes (name : Bytes) (opts : Cfg) (hq : Supported opts.quant)
    (hm : opts.metric = 0 ∨ opts.metric = 1) (hlen : (encodeOpts name opts).length < 1000000000)
    (hname : (34 : UInt8) ∉ name) (ops : List DocOp) (op : DocOp) :
    ∃ c, newCollection none name opts .createIfNotExists = .ok c ∧
      (DocFitsAllW c (fun _ => none) ops →
       DocOpFits2 (ops.foldl applyDocOp c) (ops.foldl docSpec (fun _ => none)) op →
       ∀ c1 m, docStep (ops.foldl applyDocOp c) op = .ok (c1, m) →
       ∀ (opts' : Cfg) (mode : FileMode), mode = .readWrite ∨ mode = .createIfNotExists →
       ∀ img ∈ m.images, ∃ c' segs', newCollection (some img.2) name opts' mode = .ok c' ∧ c'.cfg = opts ∧
         (CRep2 c' segs' (ops.foldl docSpec (fun _ => none)) ∨
          CRep2 c' segs' ((ops ++ [op]).foldl docSpec (fun _ => none)))) := by
  obtain ⟨c, segs, h1, h2, h3, h4, h5⟩ := new_collection_inv name opts hq hm hlen
  refine ⟨c, h1, ?_⟩
  intro hf hop c1 m hstep opts' mode hmode img himg
  obtain ⟨c', segs', e1, e2, _, e4⟩ := crash_after_any_doc_history ops c segs _ h3 h4 hf op hop name opts' mode hmode
    (fun b _ => decodeOpts b) { id := 0, data := encodeOpts name opts } [] h5
    (by rw [h2]; exact decodeOpts_encodeOpts name opts hname) (by rw [h2]; exact hm) c1 m hstep img himg
  exact ⟨c', segs', e1, by rw [e2, h2], e4⟩

end Syzgy.C07
