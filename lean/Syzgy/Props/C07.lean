import Syzgy.Lemmas.Scan
import Syzgy.Lemmas.Crash
/-!
# C07 — crash between storage steps

Crash granularity is one storage call. The crash images of an operation are the files after each
proper prefix of its storage steps (`writeRecord`/`removeRecord` return them; the regenerated step
order is tied in `Instantiate/Storage.lean`). The theorems below are about what recovery
(`scanFile` in a writable mode) does with such an image, expressed on segments.
-/
namespace Syzgy.C07

/-- Recovery never fails and never panics on a file made of well-formed segments followed by any
    zero tail (the image left by a crash after file growth), in any mode. -/
theorem recovery_succeeds (segs : List Seg) (hok : ∀ s ∈ segs, s.OK) (z : Nat) (ro : Bool) :
    ∃ sf, scanFile (render segs ++ zeros z) ro = .ok sf :=
  ⟨_, scanFile_render segs hok z ro⟩

/-- A zero tail of at least one minimal span is given a FREE header by a writable open, so the
    recovered file is again a gap-free chain (no record can later be appended behind zeros). -/
theorem zero_tail_becomes_free_span (off z : Nat) (h : minSpanLength ≤ z) :
    tailPatch false off z = [(off, be32 freeMagic ++ be32 (z % 4294967296))] := by
  have : ¬ (z < minSpanLength) := by omega
  simp [tailPatch, this]

/-- When the scan meets a second active span for an id that is already indexed, exactly one of the
    two is released — the one with the lower sequence number — so after recovery an id is active
    at most once (no zombie), and the indexed version is the newer one. -/
theorem superseded_span_is_freed (file : Bytes) (acc : ScanAcc) (off seq e old : Nat) (rid : Bytes)
    (hseq : idxGet acc.seqs rid = some e) (hidx : idxGet acc.index rid = some old) :
    (seq > e → scanActive file false acc off seq rid =
        let acc1 := freeSuperseded file false acc old
        { acc1 with highest := (if seq > acc.highest then seq else acc.highest),
                    seqs := idxSet acc1.seqs rid seq, index := idxSet acc1.index rid off }) ∧
    (¬ seq > e → scanActive file false acc off seq rid =
        freeSuperseded file false { acc with highest := (if seq > acc.highest then seq else acc.highest) } off) := by
  constructor
  · intro h; simp [scanActive, hseq, hidx, h]
  · intro h; simp [scanActive, hseq, h]

/-- releasing a span = one 4-byte store of the FREE magic at its offset + the region added to the free map -/
theorem free_superseded_effect (file : Bytes) (acc : ScanAcc) (off len : Nat) (h : rd32At file (off + 4) = some len) :
    freeSuperseded file false acc off =
      { acc with patches := acc.patches ++ [(off, be32 freeMagic)], free := markFree acc.free off len } := by
  simp [freeSuperseded, h]

/-- **Crash at any storage step of a write, in any reachable state.** Let a state be reached from a state
    satisfying the invariants by any operation sequence. For the next `WriteRecord` — fresh id or
    overwrite, into free space or with file growth — and for each of its crash images (the file after
    `grow`, after `writeAt`, after `markFreed`): a writable open of the image succeeds, the recovered
    state satisfies the representation invariant (gap-free chain of checksummed segments, every id
    active at most once — no zombie —, index and free map exact), and the recovered store is the store
    before the write or the store after it. The written document therefore has its old or its new
    content and every other document is untouched. (`FitsAllW`: the format's 32-bit limits, and the
    32-bit sequence counter does not wrap.) -/
theorem crash_at_any_step_of_any_write (ops : List Op) (s : SF) (segs : List Seg) (h : Rep s segs)
    (hseq : SeqBelow s.seq segs) (hf : FitsAllW s ops) (rid : Bytes) (st : List Stream)
    (hfit : Fits (ops.foldl applyOp s) (.write rid st)) :
    ∃ m, writeRecord (ops.foldl applyOp s) rid st = .ok m ∧
      ∀ img ∈ m.images, ∃ s' segs', scanFile img.2 false = .ok s' ∧ Rep s' segs' ∧
        ((∀ r, docOf r segs' = ops.foldl specStep (fun r => docOf r segs) r) ∨
         (∀ r, docOf r segs' = (ops ++ [Op.write rid st]).foldl specStep (fun r => docOf r segs) r)) :=
  crash_after_any_history ops s segs h hseq hf rid st hfit

/-- the same for one write from a state that satisfies the invariants, and for a removal (whose only
    storage step is its last) -/
theorem crash_during_write (s : SF) (segs : List Seg) (h : Rep s segs) (hseq : SeqBelow s.seq segs)
    (rid : Bytes) (st : List Stream) (hnew : NewOK s.seq rid st)
    (hbig : s.file.length + expandBy s.file.length (Seg.act s.seq rid st 0).size < 4294967296) :
    ∃ m, writeRecord s rid st = .ok m ∧
      ∀ img ∈ m.images, ∃ s' segs', scanFile img.2 false = .ok s' ∧ Rep s' segs' ∧
        ((∀ r, docOf r segs' = docOf r segs) ∨ (∀ r, docOf r segs' = if r = rid then some st else docOf r segs)) :=
  write_crash_safe s segs h hseq rid st hnew hbig

theorem crash_during_remove (s : SF) (segs : List Seg) (h : Rep s segs) (rid : Bytes) (hd : docOf rid segs ≠ none) :
    ∃ m, removeRecord s rid = .ok m ∧
      ∀ img ∈ m.images, ∃ s' segs', scanFile img.2 false = .ok s' ∧ Rep s' segs' ∧
        (∀ r, docOf r segs' = if r = rid then none else docOf r segs) :=
  remove_crash_safe s segs h rid hd

/-- both versions active (the image after `writeAt` of an overwrite): recovery keeps the one with the higher
    sequence number wherever it lies in the file, releases the other, and the result is exactly the file
    the completed operation would have left -/
theorem recovery_keeps_newer (P Q T : List Seg) (sa sb : Nat) (rid : Bytes) (sta stb : List Stream) (pa pb : Nat)
    (hok : ∀ x ∈ P ++ .act sa rid sta pa :: Q ++ .act sb rid stb pb :: T, x.OK)
    (hnd : (actRids (P ++ Q ++ T)).Nodup) (hrid : rid ∉ actRids (P ++ Q ++ T)) :
    (sb > sa → ∃ s', scanFile (render (P ++ .act sa rid sta pa :: Q ++ .act sb rid stb pb :: T)) false = .ok s' ∧
      s'.file = render (P ++ .free (actJunk sa rid sta pa) :: Q ++ .act sb rid stb pb :: T) ∧
      Rep s' (P ++ .free (actJunk sa rid sta pa) :: Q ++ .act sb rid stb pb :: T)) ∧
    (¬ sb > sa → ∃ s', scanFile (render (P ++ .act sa rid sta pa :: Q ++ .act sb rid stb pb :: T)) false = .ok s' ∧
      s'.file = render (P ++ .act sa rid sta pa :: Q ++ .free (actJunk sb rid stb pb) :: T) ∧
      Rep s' (P ++ .act sa rid sta pa :: Q ++ .free (actJunk sb rid stb pb) :: T)) :=
  ⟨recover_second_wins P Q T sa sb rid sta stb pa pb hok hnd hrid, recover_first_wins P Q T sa sb rid sta stb pa pb hok hnd hrid⟩

/-- the invariants hold in a newly created file, so the theorems above apply to every history that
    starts with creation -/
theorem new_file_invariants : ∃ s0, openFile none .createIfNotExists = .ok s0 ∧ Rep s0 [.act 0 [] [] 0] ∧
    SeqBelow s0.seq [.act 0 [] [] 0] := init_seqBelow

end Syzgy.C07
