import Syzgy.Lemmas.Knn
import Syzgy.Lemmas.CollSearch
/-!
# C16 — listing pages tile the filtered collection
`items` = the live ids in the fixed listing order with the filter's verdict for each.
-/
namespace Syzgy.C16

/-- the full filtered listing -/
def all (items : List (Nat × Bool)) : List Nat := (items.filter (·.2)).map (·.1)

/-- the page for `(offset, limit)` is exactly `[offset, offset+limit)` of the full listing
    (`limit = 0`: to the end) — for every collection, filter, offset and limit -/
theorem page_is_slice (off lim : Nat) (items : List (Nat × Bool)) :
    listing off lim items = takeLim lim ((all items).drop off) := by
  have := listLoop_spec off lim items 0 [] (by simp; omega) (by simp) (by simp)
  have hl : (if lim = 0 then 0 else lim) = lim := by split <;> omega
  simpa [listing, all, hl] using this

/-- consecutive pages cover every matching document once: page `[off, off+lim)` followed by the
    rest from `off+lim` is the listing from `off` -/
theorem pages_tile (off lim : Nat) (hlim : 0 < lim) (items : List (Nat × Bool)) :
    listing off lim items ++ listing (off + lim) 0 items = listing off 0 items := by
  rw [page_is_slice, page_is_slice, page_is_slice]
  have h : ¬ (lim = 0) := by omega
  simp only [takeLim, h, ↓reduceIte]
  rw [← List.drop_drop]
  exact List.take_append_drop lim _

/-- the order of the listing does not depend on offset or limit: every page is a contiguous
    sub-list (infix) of the one full listing -/
theorem page_infix (off lim : Nat) (items : List (Nat × Bool)) : (listing off lim items).IsInfix (all items) := by
  rw [page_is_slice]
  unfold takeLim
  split
  · exact (List.drop_suffix _ _).isInfix
  · exact List.IsInfix.trans (List.take_prefix _ _).isInfix (List.drop_suffix _ _).isInfix

/-- is the live document `id` accepted by the filter on its current metadata? -/
def accepted (docs : DocStore) (flt : Nat → Bytes → Bool) (id : Nat) : Bool :=
  match docs id with
  | some d => flt id d.md
  | none => false

theorem all_specItems (docs : DocStore) (flt : Nat → Bytes → Bool) (L : List Nat) :
    all (L.filterMap (specItem docs flt)) = L.filter (accepted docs flt) := by
  induction L with
  | nil => rfl
  | cons a r ih =>
    unfold all at ih ⊢
    cases hd : docs a with
    | none => simp [specItem, accepted, hd, ih]
    | some d =>
      cases hf : flt a d.md <;> simp [specItem, accepted, hd, hf, ih]

/-- **the listing on a collection** that represents the store `docs` (reached by any history, `CRep2`),
    with the keys visited in any order `vis` that is a function of the key set (`sort.Strings`): the full
    listing is the visited live ids accepted by the filter on their current metadata — every accepted
    live document exactly once — and the page for every `(offset, limit)` is the slice
    `[offset, offset+limit)` of that one listing -/
theorem collection_listing (c : Coll) (segs : List Seg) (docs : DocStore) (h : CRep2 c segs docs)
    (flt : Nat → Bytes → Bool) (vis : List (Bytes × Nat)) (hv : vis.Perm c.sf.index) (off lim : Nat) :
    all (listItems c flt vis) = (vis.filterMap idOfEntry).filter (accepted docs flt) ∧
    (all (listItems c flt vis)).Perm ((getAllIDs c).filter (accepted docs flt)) ∧
    (all (listItems c flt vis)).Nodup ∧
    listing off lim (listItems c flt vis) = takeLim lim ((all (listItems c flt vis)).drop off) := by
  obtain ⟨hp, hn⟩ := visited_ids c segs docs h vis hv
  have e : all (listItems c flt vis) = (vis.filterMap idOfEntry).filter (accepted docs flt) := by
    rw [listItems_spec c segs docs h flt vis hv, all_specItems]
  refine ⟨e, ?_, ?_, page_is_slice off lim _⟩
  · rw [e]; exact hp.filter _
  · rw [e]; exact hn.sublist List.filter_sublist
  
example : listing 1 2 [(1, true), (2, false), (3, true), (4, true), (5, true)] = [3, 4] := by decide

end Syzgy.C16
