import Syzgy.Lemmas.Knn
/-!
# C16 — listing pages tile the filtered collection
`items` = the live ids in the fixed listing order with the filter's verdict for each.
-/
namespace Syzgy.C16

/-- the full filtered listing -/
def all (items : List (Nat × Bool)) : List Nat := (items.filter (·.2)).map (·.1)

/-- the page for `(offset, limit)` is exactly `[offset, offset+limit)` of the full listing
    (`limit = 0`: to the end) — for every collection, filter, offset and limit -/
theorem page_is_slice (off lim : Nat) (items : List (Nat × Bool)) :
    listing off lim items = takeLim lim ((all items).drop off) := by
  have := listLoop_spec off lim items 0 [] (by simp; omega) (by simp) (by simp)
  have hl : (if lim = 0 then 0 else lim) = lim := by split <;> omega
  simpa [listing, all, hl] using this

/-- consecutive pages cover every matching document once: page `[off, off+lim)` followed by the
    rest from `off+lim` is the listing from `off` -/
theorem pages_tile (off lim : Nat) (hlim : 0 < lim) (items : List (Nat × Bool)) :
    listing off lim items ++ listing (off + lim) 0 items = listing off 0 items := by
  rw [page_is_slice, page_is_slice, page_is_slice]
  have h : ¬ (lim = 0) := by omega
  simp only [takeLim, h, ↓reduceIte]
  rw [← List.drop_drop]
  exact List.take_append_drop lim _

/-- the order of the listing does not depend on offset or limit: every page is a contiguous
    sub-list (infix) of the one full listing -/
theorem page_infix (off lim : Nat) (items : List (Nat × Bool)) : (listing off lim items).IsInfix (all items) := by
  rw [page_is_slice]
  unfold takeLim
  split
  · exact (List.drop_suffix _ _).isInfix
  · exact List.IsInfix.trans (List.take_prefix _ _).isInfix (List.drop_suffix _ _).isInfix

example : listing 1 2 [(1, true), (2, false), (3, true), (4, true), (5, true)] = [3, 4] := by decide

end Syzgy.C16
