import Syzgy.Model.Snapshot
/-!
# C11 — returned documents and results are private, stable snapshots
-/
namespace Syzgy.C11
open Syzgy.Snapshot

/-- every field of every value returned by GetDocument and by Search (all modes) is a private copy -/
theorem results_are_copies (a : Api) (f : Field) : retProv a f = .copy := by
  cases a <;> cases f <;> rfl

/-- a private copy reads the same bytes for ever: whatever later operations do to the file
    (overwrite, removal, reuse of the space), after any number of remaps and after Close -/
theorem snapshot_stable (v : Val) (h : v.prov = .copy) (mem : Mem) : observe mem v = .ok v.bytes := by
  simp [observe, h]

/-- hence every API result is stable under every future memory state -/
theorem api_results_stable (a : Api) (f : Field) (bytes : Bytes) (mem : Mem) :
    observe mem { prov := retProv a f, bytes := bytes } = .ok bytes :=
  snapshot_stable _ (results_are_copies a f) mem

/-- by contrast a view is *not* stable: it faults once its generation is gone (the repaired defect) -/
theorem view_faults_after_unmap (gen off len : Nat) (bytes : Bytes) (mem : Mem) (h : mem gen = none) :
    (observe mem { prov := .view gen off len, bytes := bytes }).isPanic = true := by
  simp [observe, h, Outcome.isPanic]

/-- … and changes when the file does -/
example : observe (fun _ => some [9, 9, 9]) { prov := .view 0 1 2, bytes := [1, 2] } = .ok [9, 9] := rfl

end Syzgy.C11
