import Syzgy.Props.C20
import Syzgy.Props.C12
/-!
# C20 with the quantizer of C12 plugged in
-/
namespace Syzgy.C20
open Syzgy.QuantRat

/-- **export ∘ import with the real quantizer (exact arithmetic)**: for b-bit quantization (b > 0; 4, 8 and 16 in
    the code), every list of records whose codes are in range, and every printing of components that parses back to
    the value printed (`strconv.FormatFloat(v, 'g', -1, 64)`, the shortest form that round-trips — a property of the
    Go library, behind `fmt`/`parse`), import ∘ export returns exactly the records: the hypothesis `hidem` of
    `roundtrip` is C12's `idempotent` -/
theorem roundtrip_quantized {T : Type} (bits : ℕ) (hb : 0 < bits) (fmt : ℚ → T) (parse : T → Option ℚ)
    (hrt : ∀ v, parse (fmt v) = some v) (docs : List Rec) (hc : ∀ d ∈ docs, ∀ k ∈ d.codes, k ≤ 2 ^ bits - 1) :
    importRecs (quantizeF ratArith bits) parse (exportRecs (dequantizeF ratArith bits) fmt docs) = some docs := by
  apply roundtrip
  · intro d _ k _; exact hrt _
  · intro d hd k hk
    rw [C12.model_is_q, C12.model_is_deq, C12.idempotent bits hb k (hc d hd k hk)]
    simp

end Syzgy.C20
