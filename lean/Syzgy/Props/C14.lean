import Syzgy.Lemmas.Parser
import Syzgy.Lemmas.LexProg
import Syzgy.Model.Query.Eval
/-!
# C14 — building and applying a filter never panics
Go run-time panics (slice / index out of range) are explicit outcomes of the model; these theorems
say they cannot occur, for **every** byte string.
-/
namespace Syzgy.C14
open Syzgy.Query

/-- the lexer returns a token from every position of every input (no slice out of range) -/
theorem lex_no_panic (inp : ByteArray) (pos : Nat) : ∃ tok pos', nextToken inp pos = .ok (tok, pos') := by
  obtain ⟨⟨t, p⟩, h⟩ := nextToken_ok inp pos
  exact ⟨t, p, h⟩

/-- parsing any text with any number-literal oracle ends in a tree or an error, never a panic -/
theorem parse_no_panic (inp : ByteArray) (nok : NumOK) : (parse inp nok).isPanic = false :=
  parse_NP inp nok

/-- the parser is panic-free over *any* panic-free token source (the parser itself has no partial
    operation) -/
theorem parser_no_panic (nx : TokSrc) (nok : NumOK) (hnx : ∀ p, (nx p).isPanic = false) (fuel : Nat) (s : PS) :
    (parseOr nx nok fuel s).isPanic = false :=
  (allNP nx nok hnx fuel).or_ s

/-- **the parser terminates on every input**: the model's recursion is driven by fuel `16 * |text| + 64`
    (one unit per nested call or loop iteration); for no text and no number oracle does it run out.
    The measure behind the proof: every token the lexer hands out other than EOF ends strictly behind
    the position it started from (`lexer_makes_progress`), every loop iteration and every descent into a
    nested expression consumes a token first, so depth and iteration count are at most 8 per
    remaining token. -/
theorem parser_terminates (inp : ByteArray) (nok : NumOK) : parse inp nok ≠ .err "fuel" :=
  parse_fuel inp nok

/-- every non-EOF token ends strictly behind the lexer position it was requested at, within the text -/
theorem lexer_makes_progress (inp : ByteArray) (pos : Nat) (t : Token) (p' : Nat)
    (h : nextToken inp pos = .ok (t, p')) : pos ≤ p' ∧ (t.type ≠ .eof → pos < p' ∧ pos < inp.size) :=
  nextToken_progress inp pos t p' h

/-- hence `BuildFilter`'s parse step has exactly two kinds of outcome for every text: a tree, or one
    of the parser's own error messages -/
theorem parse_returns_tree_or_error (inp : ByteArray) (nok : NumOK) :
    (∃ e, parse inp nok = .ok e) ∨ (∃ m, parse inp nok = .err m ∧ m ≠ "fuel") := by
  have h1 := parse_no_panic inp nok
  have h2 := parser_terminates inp nok
  cases h : parse inp nok with
  | ok e => exact Or.inl ⟨e, rfl⟩
  | err m => exact Or.inr ⟨m, rfl, by intro e; subst e; exact h2 h⟩
  | panic m => rw [h] at h1; simp [Outcome.isPanic] at h1

/-- applying a built filter is a total function of (tree, decoded metadata): it returns a boolean
    for every value, and `none` (metadata that is not JSON) rejects -/
theorem apply_total {N : Type} (ops : NumOps N) (rx : RegexOracle) (ast : Node) :
    applyFilter ops rx ast none = false ∧ ∀ d, ∃ b : Bool, applyFilter ops rx ast (some d) = b :=
  ⟨rfl, fun _ => ⟨_, rfl⟩⟩

end Syzgy.C14
