import Syzgy.Lemmas.Parser
import Syzgy.Model.Query.Eval
/-!
# C14 — building and applying a filter never panics
Go run-time panics (slice / index out of range) are explicit outcomes of the model; these theorems
say they cannot occur, for **every** byte string.
-/
namespace Syzgy.C14
open Syzgy.Query

/-- the lexer returns a token from every position of every input (no slice out of range) -/
theorem lex_no_panic (inp : ByteArray) (pos : Nat) : ∃ tok pos', nextToken inp pos = .ok (tok, pos') := by
  obtain ⟨⟨t, p⟩, h⟩ := nextToken_ok inp pos
  exact ⟨t, p, h⟩

/-- parsing any text with any number-literal oracle ends in a tree or an error, never a panic -/
theorem parse_no_panic (inp : ByteArray) (nok : NumOK) : (parse inp nok).isPanic = false :=
  parse_NP inp nok

/-- the parser is panic-free over *any* panic-free token source (the parser itself has no partial
    operation) -/
theorem parser_no_panic (nx : TokSrc) (nok : NumOK) (hnx : ∀ p, (nx p).isPanic = false) (fuel : Nat) (s : PS) :
    (parseOr nx nok fuel s).isPanic = false :=
  (allNP nx nok hnx fuel).or_ s

/-- applying a built filter is a total function of (tree, decoded metadata): it returns a boolean
    for every value, and `none` (metadata that is not JSON) rejects -/
theorem apply_total {N : Type} (ops : NumOps N) (rx : RegexOracle) (ast : Node) :
    applyFilter ops rx ast none = false ∧ ∀ d, ∃ b : Bool, applyFilter ops rx ast (some d) = b :=
  ⟨rfl, fun _ => ⟨_, rfl⟩⟩

end Syzgy.C14
