import Syzgy.Lemmas.LshSound
/-!
# Completeness side of the approximate search

The node priority queue (a transliteration of `container/heap`) loses and duplicates nothing; with an
index in which every listed id is live, a K-nearest search that has accepted nothing yet visits every
leaf, so it returns at least one result whenever some listed document passes the filter.
-/
namespace Syzgy.Lsh

theorem swap_perm' (a : Array PQItem) (i j : Nat) : (swap a i j).Perm a := by
  unfold swap
  split
  · rename_i h
    exact Array.swap_perm h.1 h.2
  · exact Array.Perm.refl _

theorem swap_size (a : Array PQItem) (i j : Nat) : (swap a i j).size = a.size := (swap_perm' a i j).size_eq

theorem up_perm (a : Array PQItem) (fuel j : Nat) : (up a fuel j).Perm a := by
  induction fuel generalizing a j with
  | zero => exact Array.Perm.refl _
  | succ f ih =>
    unfold up
    split
    · exact Array.Perm.refl _
    · simp only
      split
      · split
        · exact Array.Perm.refl _
        · exact (ih _ _).trans (swap_perm' _ _ _)
      · exact Array.Perm.refl _

theorem down_perm (a : Array PQItem) (n fuel i : Nat) : (down a n fuel i).Perm a := by
  induction fuel generalizing a i with
  | zero => exact Array.Perm.refl _
  | succ f ih =>
    unfold down
    simp only
    split
    · exact Array.Perm.refl _
    · split
      · split
        · exact Array.Perm.refl _
        · exact (ih _ _).trans (swap_perm' _ _ _)
      · exact Array.Perm.refl _

theorem hpush_perm (a : Array PQItem) (x : PQItem) : (hpush a x).Perm (a.push x) := by
  unfold hpush
  exact up_perm _ _ _

/-- `hpop` takes one element out and keeps the rest -/
theorem hpop_spec (a : Array PQItem) :
    (a.size = 0 ∧ hpop a = none) ∨ (∃ x a', hpop a = some (x, a') ∧ a.Perm (a'.push x)) := by
  unfold hpop
  by_cases h0 : a.size = 0
  · left; simp [h0]
  · right
    simp only [h0, ↓reduceIte]
    have hp : (down (swap a 0 (a.size - 1)) (a.size - 1) (a.size - 1 + 1) 0).Perm a :=
      (down_perm _ _ _ _).trans (swap_perm' _ _ _)
    have hs := hp.size_eq
    have hlt : a.size - 1 < (down (swap a 0 (a.size - 1)) (a.size - 1) (a.size - 1 + 1) 0).size := by omega
    rw [Array.getElem?_eq_getElem hlt]
    refine ⟨_, _, rfl, ?_⟩
    have hback : (down (swap a 0 (a.size - 1)) (a.size - 1) (a.size - 1 + 1) 0).back? =
        some ((down (swap a 0 (a.size - 1)) (a.size - 1) (a.size - 1 + 1) 0)[a.size - 1]) := by
      rw [Array.back?_eq_getElem?, hs, Array.getElem?_eq_getElem hlt]
    obtain ⟨ys, hys⟩ := Array.back?_eq_some_iff.mp hback
    have : (down (swap a 0 (a.size - 1)) (a.size - 1) (a.size - 1 + 1) 0).pop = ys := by
      rw [hys, Array.pop_push]
    rw [this]
    exact hp.symm.trans (Array.Perm.of_eq hys)


def pqIds (a : Array PQItem) : List Nat := a.toList.flatMap (fun x => x.node.ids)

def pqMeasure (a : Array PQItem) : Nat := (a.toList.map (fun x => x.node.size)).sum

theorem pqIds_perm {a b : Array PQItem} (h : a.Perm b) (id : Nat) : id ∈ pqIds a ↔ id ∈ pqIds b :=
  ((Array.perm_iff_toList_perm.mp h).flatMap_right _).mem_iff

theorem pqMeasure_perm {a b : Array PQItem} (h : a.Perm b) : pqMeasure a = pqMeasure b :=
  ((Array.perm_iff_toList_perm.mp h).map _).sum_nat

theorem pqIds_push (a : Array PQItem) (x : PQItem) (id : Nat) : id ∈ pqIds (a.push x) ↔ id ∈ pqIds a ∨ id ∈ x.node.ids := by
  simp [pqIds]

theorem pqMeasure_push (a : Array PQItem) (x : PQItem) : pqMeasure (a.push x) = pqMeasure a + x.node.size := by
  simp [pqMeasure]

theorem mem_perm_toList {a b : Array PQItem} (h : a.Perm b) (x : PQItem) : x ∈ a.toList ↔ x ∈ b.toList :=
  (Array.perm_iff_toList_perm.mp h).mem_iff

theorem Tree.size_pos (t : Tree) : 0 < t.size := by cases t <;> simp [Tree.size] <;> omega

/-! ## a K-nearest search that has accepted something keeps something -/

theorem consider_nonempty (K : Nat) (hK : 0 < K) (lookup : Nat → Option Cand) (st : SState) (id radius : Nat)
    (h : st.heap ≠ []) : (consider K 0 lookup st id radius).2.2.heap ≠ [] := by
  unfold consider
  split
  · exact h
  · rename_i c _
    simp only
    split
    · exact h
    · simp only [Nat.lt_irrefl, ↓reduceIte, hK]
      split
      · simp only
        split
        · rename_i hl
          intro hc
          have h1 := insDesc_length c st.heap
          have : (insDesc c st.heap).tail.length = 0 := by rw [hc]; rfl
          rw [List.length_tail] at this
          have : 0 < st.heap.length := List.length_pos_iff.mpr h
          omega
        · intro hc
          have h1 := insDesc_length c st.heap
          rw [hc] at h1
          simp at h1
      · exact h

theorem visitLeaf_nonempty (K : Nat) (hK : 0 < K) (lookup : Nat → Option Cand) (ids : List Nat) (s : LoopSt)
    (h : s.st.heap ≠ []) : (visitLeaf K 0 lookup ids s).st.heap ≠ [] := by
  induction ids generalizing s with
  | nil => exact h
  | cons id rest ih =>
    unfold visitLeaf
    split
    · exact ih s h
    · simp only
      have hc := consider_nonempty K hK lookup s.st id s.radius h
      rcases hcons : consider K 0 lookup s.st id s.radius with ⟨sig, rad, st'⟩
      rw [hcons] at hc
      cases sig with
      | stop => exact h
      | accepted => exact ih _ hc
      | checked => exact ih _ hc
      | ignored => exact ih _ hc

theorem searchLoop_nonempty (searchK K : Nat) (hK : 0 < K) (lookup : Nat → Option Cand) (hpDist : H → Nat) (hpRight : H → Bool)
    (fuel : Nat) (s : LoopSt) (h : s.st.heap ≠ []) :
    (searchLoop searchK K 0 lookup hpDist hpRight fuel s).st.heap ≠ [] := by
  induction fuel generalizing s with
  | zero => exact h
  | succ f ih =>
    unfold searchLoop
    simp only
    repeat' split
    all_goals first
      | exact h
      | exact ih _ h
      | exact ih _ (visitLeaf_nonempty K hK lookup _ _ h)


/-! ## nothing accepted yet: the traversal visits everything -/

/-- state of a K-nearest search that has accepted nothing so far -/
structure Pend (lookup : Nat → Option Cand) (maxRadius : Nat) (s : LoopSt) : Prop where
  notStopped : s.stopped = false
  notAcc : s.accepted = false
  k0 : s.kCounter = 0
  rad : s.radius = maxRadius
  heap : s.st.heap = []
  rejected : ∀ id ∈ s.visited, ∀ c, lookup id = some c → c.acc = false

theorem visitLeaf_pend (K : Nat) (hK : 0 < K) (lookup : Nat → Option Cand) (maxRadius : Nat) (ids : List Nat) (s : LoopSt)
    (hlive : ∀ id ∈ ids, ∃ c, lookup id = some c) (hp : Pend lookup maxRadius s) :
    (visitLeaf K 0 lookup ids s).st.heap ≠ [] ∨
    (Pend lookup maxRadius (visitLeaf K 0 lookup ids s) ∧ (visitLeaf K 0 lookup ids s).pq = s.pq ∧
      (∀ id ∈ ids, id ∈ (visitLeaf K 0 lookup ids s).visited) ∧
      (∀ id ∈ s.visited, id ∈ (visitLeaf K 0 lookup ids s).visited)) := by
  induction ids generalizing s with
  | nil => exact Or.inr ⟨hp, rfl, by simp, fun _ h => h⟩
  | cons id rest ih =>
    have hrest : ∀ x ∈ rest, ∃ c, lookup x = some c := fun x hx => hlive x (by simp [hx])
    unfold visitLeaf
    split
    · rename_i hv
      have hv' : id ∈ s.visited := by simpa using hv
      rcases ih s hrest hp with h | ⟨h1, h2, h3, h4⟩
      · exact Or.inl h
      · refine Or.inr ⟨h1, h2, ?_, h4⟩
        intro x hx
        rcases List.mem_cons.mp hx with rfl | hx
        · exact h4 _ hv'
        · exact h3 x hx
    · obtain ⟨c, hc⟩ := hlive id (by simp)
      simp only
      by_cases hacc : c.acc = true
      · -- accepted: the heap is non-empty from here on
        left
        have hcons : consider K 0 lookup s.st id s.radius =
            (.accepted, c.dist, { heap := [c], searched := s.st.searched + 1 }) := by
          simp only [consider, hc, hacc, Bool.not_true, Bool.false_eq_true, ↓reduceIte, Nat.lt_irrefl, hK, hp.heap,
            List.length_nil, Nat.zero_le, decide_true, Bool.true_or, and_self, insDesc]
          have : ¬ (1 > K) := by omega
          simp [this]
        rw [hcons]
        exact visitLeaf_nonempty K hK lookup rest _ (by simp)
      · have hacc' : c.acc = false := by simpa using hacc
        have hcons : consider K 0 lookup s.st id s.radius =
            (.ignored, s.radius, { s.st with searched := s.st.searched + 1 }) := by
          simp [consider, hc, hacc']
        rw [hcons]
        simp only
        have hp' : Pend lookup maxRadius { s with visited := id :: s.visited, radius := s.radius, st := { s.st with searched := s.st.searched + 1 } } := by
          refine ⟨hp.notStopped, hp.notAcc, hp.k0, hp.rad, hp.heap, ?_⟩
          intro x hx c' hc'
          rcases List.mem_cons.mp hx with rfl | hx
          · rw [hc] at hc'; cases hc'; exact hacc'
          · exact hp.rejected x hx c' hc'
        rcases ih _ hrest hp' with h | ⟨h1, h2, h3, h4⟩
        · exact Or.inl h
        · refine Or.inr ⟨h1, h2, ?_, ?_⟩
          · intro x hx
            rcases List.mem_cons.mp hx with rfl | hx
            · exact h4 _ (by simp)
            · exact h3 x hx
          · intro x hx
            exact h4 x (by simp [hx])


/-- the loop invariant of the phase in which nothing has been accepted: every id of the forest has been
    visited (and rejected by the filter) or still lies in a subtree waiting in the queue, queue
    priorities are within the initial radius, and the fuel covers the nodes in the queue -/
structure PendQ (lookup : Nat → Option Cand) (maxRadius : Nat) (all : List Nat) (fuel : Nat) (s : LoopSt) : Prop where
  pend : Pend lookup maxRadius s
  cover : ∀ id ∈ all, id ∈ s.visited ∨ id ∈ pqIds s.pq
  live : ∀ id ∈ pqIds s.pq, ∃ c, lookup id = some c
  prios : ∀ x ∈ s.pq.toList, -x.prio ≤ (maxRadius : Int)
  fuel : pqMeasure s.pq < fuel

theorem searchLoop_progress (searchK K : Nat) (hK : 0 < K) (hsK : 0 < searchK) (lookup : Nat → Option Cand) (maxRadius : Nat)
    (hpDist : H → Nat) (hpRight : H → Bool) (hprio : ∀ h, hpDist h ≤ maxRadius) (all : List Nat)
    (fuel : Nat) (s : LoopSt) (inv : PendQ lookup maxRadius all fuel s) :
    (searchLoop searchK K 0 lookup hpDist hpRight fuel s).st.heap ≠ [] ∨
    (∀ id ∈ all, ∀ c, lookup id = some c → c.acc = false) := by
  induction fuel generalizing s with
  | zero => have := inv.fuel; omega
  | succ f ih =>
    unfold searchLoop
    rw [if_neg (by simp [inv.pend.notStopped])]
    rcases hpop_spec s.pq with ⟨h0, hnone⟩ | ⟨item, pq', hsome, hperm⟩
    · -- the queue is empty: everything has been visited and rejected
      rw [hnone]
      right
      intro id hid c hc
      rcases inv.cover id hid with hv | hq
      · exact inv.pend.rejected id hv c hc
      · have : s.pq.toList = [] := by
          have := Array.size_eq_zero_iff.mp h0
          simp [this]
        simp [pqIds, this] at hq
    · rw [hsome]
      simp only
      have hitem_mem : item ∈ s.pq.toList := (mem_perm_toList hperm item).mpr (by simp)
      have hmeas : pqMeasure s.pq = pqMeasure pq' + item.node.size := by
        rw [pqMeasure_perm hperm, pqMeasure_push]
      have hids : ∀ id, id ∈ pqIds s.pq ↔ (id ∈ pqIds pq' ∨ id ∈ item.node.ids) := by
        intro id; rw [pqIds_perm hperm, pqIds_push]
      have hprios' : ∀ x ∈ pq'.toList, -x.prio ≤ (maxRadius : Int) := by
        intro x hx
        exact inv.prios x ((mem_perm_toList hperm x).mpr (by simp [hx]))
      cases hnode : item.node with
      | leaf ids =>
        simp only
        split
        · rename_i hcnd
          exfalso
          have := inv.prios item hitem_mem
          have h2 := hcnd.2.1
          rw [inv.pend.rad] at h2
          omega
        split
        · rename_i hk
          exfalso
          rw [inv.pend.k0] at hk
          omega
        have hlive : ∀ id ∈ ids, ∃ c, lookup id = some c := by
          intro id hid
          exact inv.live id ((hids id).mpr (Or.inr (by rw [hnode]; exact hid)))
        have hp0 : Pend lookup maxRadius { s with pq := pq' } :=
          ⟨inv.pend.notStopped, inv.pend.notAcc, inv.pend.k0, inv.pend.rad, inv.pend.heap, inv.pend.rejected⟩
        rcases visitLeaf_pend K hK lookup maxRadius ids { s with pq := pq' } hlive hp0 with h | ⟨h1, h2, h3, h4⟩
        · exact Or.inl (searchLoop_nonempty searchK K hK lookup hpDist hpRight f _ h)
        · apply ih
          refine ⟨h1, ?_, ?_, ?_, ?_⟩
          · intro id hid
            rcases inv.cover id hid with hv | hq
            · exact Or.inl (h4 id hv)
            · rcases (hids id).mp hq with hq | hq
              · right; rw [h2]; exact hq
              · left; rw [hnode] at hq; exact h3 id hq
          · intro id hid
            rw [h2] at hid
            exact inv.live id ((hids id).mpr (Or.inl hid))
          · rw [h2]; exact hprios'
          · rw [h2]
            have := inv.fuel
            have hsz : item.node.size = 1 := by rw [hnode]; rfl
            show pqMeasure pq' < f
            omega
      | node h l r =>
        simp only
        split
        · rename_i hcnd
          exfalso
          have := hcnd.2.2
          simp at this
        split
        · rename_i hk
          exfalso
          rw [inv.pend.k0] at hk
          omega
        apply ih
        have hq : ∀ x1 x2 : PQItem, (hpush (hpush pq' x1) x2).Perm ((pq'.push x1).push x2) := fun x1 x2 =>
          (hpush_perm _ _).trans (Array.Perm.push x2 (hpush_perm _ _))
        have hsz : item.node.size = 1 + l.size + r.size := by rw [hnode]; rfl
        have hidn : ∀ id, id ∈ item.node.ids ↔ (id ∈ l.ids ∨ id ∈ r.ids) := by
          intro id; rw [hnode]; simp [Tree.ids]
        have hd := hprio h
        by_cases hr : hpRight h = true
        · simp only [hr, ↓reduceIte]
          have hpm := hq { node := r, prio := (hpDist h : Int) } { node := l, prio := -(hpDist h : Int) }
          refine ⟨⟨inv.pend.notStopped, inv.pend.notAcc, inv.pend.k0, inv.pend.rad, inv.pend.heap, inv.pend.rejected⟩,
            ?_, ?_, ?_, ?_⟩
          · intro id hid
            rcases inv.cover id hid with hv | hq'
            · exact Or.inl hv
            · right
              simp only
              rw [pqIds_perm hpm, pqIds_push, pqIds_push]
              rcases (hids id).mp hq' with h1 | h1
              · exact Or.inl (Or.inl h1)
              · rcases (hidn id).mp h1 with h2 | h2
                · exact Or.inr h2
                · exact Or.inl (Or.inr h2)
          · intro id hid
            simp only at hid
            rw [pqIds_perm hpm, pqIds_push, pqIds_push] at hid
            apply inv.live id
            rw [hids id]
            rcases hid with (h1 | h1) | h1
            · exact Or.inl h1
            · exact Or.inr ((hidn id).mpr (Or.inr h1))
            · exact Or.inr ((hidn id).mpr (Or.inl h1))
          · intro x hx
            simp only at hx
            rw [mem_perm_toList hpm] at hx
            simp only [Array.toList_push, List.mem_append, List.mem_singleton] at hx
            rcases hx with (hx | rfl) | rfl
            · exact hprios' x hx
            · simp only; omega
            · simp only; omega
          · simp only
            rw [pqMeasure_perm hpm, pqMeasure_push, pqMeasure_push]
            have := inv.fuel
            simp only
            omega
        · simp only [hr, Bool.false_eq_true, ↓reduceIte]
          have hpm := hq { node := l, prio := (hpDist h : Int) } { node := r, prio := -(hpDist h : Int) }
          refine ⟨⟨inv.pend.notStopped, inv.pend.notAcc, inv.pend.k0, inv.pend.rad, inv.pend.heap, inv.pend.rejected⟩,
            ?_, ?_, ?_, ?_⟩
          · intro id hid
            rcases inv.cover id hid with hv | hq'
            · exact Or.inl hv
            · right
              simp only
              rw [pqIds_perm hpm, pqIds_push, pqIds_push]
              rcases (hids id).mp hq' with h1 | h1
              · exact Or.inl (Or.inl h1)
              · rcases (hidn id).mp h1 with h2 | h2
                · exact Or.inl (Or.inr h2)
                · exact Or.inr h2
          · intro id hid
            simp only at hid
            rw [pqIds_perm hpm, pqIds_push, pqIds_push] at hid
            apply inv.live id
            rw [hids id]
            rcases hid with (h1 | h1) | h1
            · exact Or.inl h1
            · exact Or.inr ((hidn id).mpr (Or.inl h1))
            · exact Or.inr ((hidn id).mpr (Or.inr h1))
          · intro x hx
            simp only at hx
            rw [mem_perm_toList hpm] at hx
            simp only [Array.toList_push, List.mem_append, List.mem_singleton] at hx
            rcases hx with (hx | rfl) | rfl
            · exact hprios' x hx
            · simp only; omega
            · simp only; omega
          · simp only
            rw [pqMeasure_perm hpm, pqMeasure_push, pqMeasure_push]
            have := inv.fuel
            simp only
            omega


theorem initPq_perm (forest : List Tree) (a : Array PQItem) :
    (forest.foldl (fun a t => hpush a { node := t, prio := 0 }) a).Perm
      (a ++ (forest.map (fun t => ({ node := t, prio := 0 } : PQItem))).toArray) := by
  induction forest generalizing a with
  | nil => simp
  | cons t ts ih =>
    simp only [List.foldl_cons, List.map_cons]
    refine (ih _).trans ?_
    have h1 := hpush_perm a { node := t, prio := 0 }
    have h2 : (hpush a { node := t, prio := 0 } ++ (ts.map (fun t => ({ node := t, prio := 0 } : PQItem))).toArray).Perm
        (a.push { node := t, prio := 0 } ++ (ts.map (fun t => ({ node := t, prio := 0 } : PQItem))).toArray) :=
      Array.Perm.append h1 (Array.Perm.refl _)
    refine h2.trans (Array.Perm.of_eq ?_)
    apply Array.ext'
    simp

/-- **a K-nearest search finds something whenever something matches.** In an index all of whose listed
    ids are live, for every forest shape, every hyperplane oracle and every early-stop budget
    `search_k > 0`: if some listed document passes the filter, the default-precision K-nearest search
    (K > 0) returns at least one result. (The early stop only counts after a first acceptance, and the
    radius stays at its initial value until then, so no subtree is pruned before a first acceptance.) -/
theorem search_nonempty (searchK K maxRadius : Nat) (hK : 0 < K) (hsK : 0 < searchK) (forest : List Tree)
    (lookup : Nat → Option Cand) (hpDist : H → Nat) (hpRight : H → Bool) (hprio : ∀ h, hpDist h ≤ maxRadius)
    (hlive : ∀ t ∈ forest, ∀ id ∈ t.ids, ∃ c, lookup id = some c)
    (hmatch : ∃ t ∈ forest, ∃ id ∈ t.ids, ∃ c, lookup id = some c ∧ c.acc = true) :
    (search searchK K 0 maxRadius forest lookup hpDist hpRight).1 ≠ [] := by
  let s0 : LoopSt :=
    { pq := forest.foldl (fun a t => hpush a { node := t, prio := 0 }) #[], visited := [], kCounter := 0,
      accepted := false, radius := maxRadius, st := { heap := [], searched := 0 } }
  have hperm := initPq_perm forest #[]
  simp only [Array.empty_append] at hperm
  have hids : ∀ id, id ∈ pqIds s0.pq ↔ ∃ t ∈ forest, id ∈ t.ids := by
    intro id
    rw [pqIds_perm hperm]
    simp only [pqIds, List.mem_flatMap, List.mem_map]
    constructor
    · rintro ⟨a, ⟨t, ht, rfl⟩, hi⟩
      exact ⟨t, ht, hi⟩
    · rintro ⟨t, ht, hi⟩
      exact ⟨_, ⟨t, ht, rfl⟩, hi⟩
  have hinv : PendQ lookup maxRadius (forest.flatMap Tree.ids) ((forest.map Tree.size).sum + 1) s0 := by
    refine ⟨⟨rfl, rfl, rfl, rfl, rfl, by simp [s0]⟩, ?_, ?_, ?_, ?_⟩
    · intro id hid
      right
      rw [hids]
      simpa using hid
    · intro id hid
      obtain ⟨t, ht, hi⟩ := (hids id).mp hid
      exact hlive t ht id hi
    · intro x hx
      rw [mem_perm_toList hperm] at hx
      simp only [List.mem_map] at hx
      obtain ⟨t, _, rfl⟩ := hx
      simp
    · rw [pqMeasure_perm hperm]
      simp only [pqMeasure, List.map_map]
      have : (fun x => x.node.size) ∘ (fun t => ({ node := t, prio := 0 } : PQItem)) = Tree.size := rfl
      rw [this]
      omega
  have := searchLoop_progress searchK K hK hsK lookup maxRadius hpDist hpRight hprio _ _ s0 hinv
  rcases this with h | h
  · intro hres
    apply h
    have : (search searchK K 0 maxRadius forest lookup hpDist hpRight).1 =
        (searchLoop searchK K 0 lookup hpDist hpRight ((forest.map Tree.size).sum + 1) s0).st.heap.reverse := by
      simp [search, s0]
    rw [this] at hres
    simpa using hres
  · obtain ⟨t, ht, id, hid, c, hc, hacc⟩ := hmatch
    have := h id (by simp only [List.mem_flatMap]; exact ⟨t, ht, hid⟩) c hc
    rw [hacc] at this
    cases this

end Syzgy.Lsh
