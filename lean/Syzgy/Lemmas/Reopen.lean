import Syzgy.Lemmas.CollIds
/-!
# Reopening a collection
-/
namespace Syzgy

/-- `SpanReader.getStream` on the bytes of a document record: stream 0 is the metadata, stream 1 the packed vector -/
theorem getStream_doc (seq : Nat) (rid : Bytes) (quant : Nat) (d : Doc) (pad : Nat) (rest : Bytes)
    (hok : Seg.OK (.act seq rid (docStreams quant d) pad)) :
    getStream (actBytes seq rid (docStreams quant d) pad ++ rest) 0 = .ok d.md ∧
    getStream (actBytes seq rid (docStreams quant d) pad ++ rest) 1 = .ok (encodeCodes quant d.codes) := by
  obtain ⟨hseq, hrid, hns, hstreams, hpad, hL⟩ := hok
  generalize hLdef : 8 + (spanBody seq rid (docStreams quant d)).length + pad + 4 = L at *
  have hLmod : L % 4294967296 = L := Nat.mod_eq_of_lt hL
  have hshape : actBytes seq rid (docStreams quant d) pad ++ rest =
      be32 activeMagic ++ (be32 L ++ (spanBody seq rid (docStreams quant d) ++
        (zeros pad ++ (be32 (checksum (actPre seq rid (docStreams quant d) pad)) ++ rest)))) := by
    simp only [actBytes, actPre, hLdef, hLmod, List.append_assoc]
  generalize htail : zeros pad ++ (be32 (checksum (actPre seq rid (docStreams quant d) pad)) ++ rest) = tail at *
  have hd8 : (actBytes seq rid (docStreams quant d) pad ++ rest).drop 8 = spanBody seq rid (docStreams quant d) ++ tail := by
    rw [hshape]
    have : (be32 activeMagic ++ be32 L).length = 8 := rfl
    rw [← List.append_assoc (be32 activeMagic), ← this, List.drop_left]
  have hseq1 : dec7 (spanBody seq rid (docStreams quant d) ++ tail) = some (seq, len7 seq) := by
    unfold spanBody; simp only [List.append_assoc]; exact dec7_enc7 seq (by omega) _
  have hdrop1 : (actBytes seq rid (docStreams quant d) pad ++ rest).drop (8 + len7 seq) =
      enc7 rid.length ++ rid ++ [((docStreams quant d).length % 256).toUInt8] ++ (docStreams quant d).flatMap streamBytes ++ tail := by
    rw [← List.drop_drop, hd8, spanBody_drop1]
  have hs0 := hstreams { id := 0, data := d.md } (by simp [docStreams])
  have hs1 := hstreams { id := 1, data := encodeCodes quant d.codes } (by simp [docStreams])
  have key : ∀ want, getStream (actBytes seq rid (docStreams quant d) pad ++ rest) want =
      findStream want 2 ((docStreams quant d).flatMap streamBytes ++ tail) := by
    intro want
    unfold getStream
    rw [hd8, hseq1]
    simp only
    rw [hdrop1]
    simp only [List.append_assoc]
    rw [dec7_enc7 _ hrid]
    simp only
    have hc : ¬ (rid.length ≥ 9223372036854775808) := by omega
    rw [if_neg hc, ← enc7_length, List.drop_left, List.drop_left]
    simp [docStreams]
  have hf0 : (docStreams quant d).flatMap streamBytes ++ tail =
      (0 : UInt8) :: (enc7 d.md.length ++ (d.md ++ ((1 : UInt8) :: (enc7 (encodeCodes quant d.codes).length ++
        (encodeCodes quant d.codes ++ tail))))) := by
    simp [docStreams, streamBytes, List.append_assoc]
  refine ⟨?_, ?_⟩
  · rw [key 0, hf0]
    simp only [findStream]
    rw [dec7_enc7 _ hs0.2]
    simp only
    rw [← enc7_length, List.drop_left]
    have h1 : ¬ (d.md.length ≥ 9223372036854775808) := by have := hs0.2; simp at this; omega
    have h2 : ¬ (d.md.length > (d.md ++ ((1 : UInt8) :: (enc7 (encodeCodes quant d.codes).length ++ (encodeCodes quant d.codes ++ tail)))).length) := by simp
    simp [h1, h2]
  · rw [key 1, hf0]
    simp only [findStream]
    rw [dec7_enc7 _ hs0.2]
    simp only
    rw [← enc7_length, List.drop_left]
    have h1 : ¬ (d.md.length ≥ 9223372036854775808) := by have := hs0.2; simp at this; omega
    have h2 : ¬ (d.md.length > (d.md ++ ((1 : UInt8) :: (enc7 (encodeCodes quant d.codes).length ++ (encodeCodes quant d.codes ++ tail)))).length) := by simp
    simp only [h1, h2, ↓reduceIte, List.drop_left]
    have hne : ¬ ((0 : UInt8).toNat = 1) := by decide
    simp only [hne, ↓reduceIte]
    rw [dec7_enc7 _ hs1.2]
    simp only
    rw [← enc7_length, List.drop_left]
    have h3 : ¬ ((encodeCodes quant d.codes).length ≥ 9223372036854775808) := by have := hs1.2; simp at this; omega
    have h4 : ¬ ((encodeCodes quant d.codes).length > (encodeCodes quant d.codes ++ tail).length) := by simp
    simp [h3, h4]


theorem idxGet_of_mem (ix : List (Bytes × Nat)) (h : KeysNodup ix) (e : Bytes × Nat) (he : e ∈ ix) :
    idxGet ix e.1 = some e.2 := by
  induction ix with
  | nil => simp at he
  | cons a r ih =>
    simp only [KeysNodup, List.map_cons, List.nodup_cons, List.mem_map, not_exists, not_and] at h
    obtain ⟨h1, h2⟩ := h
    rw [show a = (a.1, a.2) from rfl, idxGet_cons]
    rcases List.mem_cons.mp he with ha | hr
    · rw [ha]; simp
    · have : ¬ a.1 = e.1 := fun hk => h1 e hr hk.symm
      rw [if_neg this]
      exact ih h2 hr

/-- one step of the index rebuild of `NewCollection` (the body of the loop in `rebuildCheck`) -/
def rebuildStep (sf : SF) (cfg : Cfg) (acc : Outcome Unit) (e : Bytes × Nat) : Outcome Unit :=
  match acc with
  | .ok () =>
    if e.1.isEmpty then .ok () else
    match parseUint e.1 with
    | none => .ok ()
    | some _ =>
      let data := sf.file.drop e.2
      match getStream data 1 with
      | .ok vec =>
        match decodeCodes cfg.quant cfg.dim vec with
        | .ok _ =>
          (match getStream data 0 with
           | .ok _ => .ok ()
           | _ => .panic "Failed to read metadata")
        | _ => .panic "index out of range (decodeVector)"
      | _ => .panic "Failed to read vector data"
  | e => e

theorem rebuildCheck_eq (sf : SF) (cfg : Cfg) : rebuildCheck sf cfg = sf.index.foldl (rebuildStep sf cfg) (.ok ()) := rfl

theorem foldl_ok_of_steps {α : Type} (f : Outcome Unit → α → Outcome Unit) (l : List α)
    (h : ∀ e ∈ l, f (.ok ()) e = .ok ()) : l.foldl f (.ok ()) = .ok () := by
  induction l with
  | nil => rfl
  | cons a r ih =>
    simp only [List.foldl_cons, h a (by simp)]
    exact ih (fun e he => h e (by simp [he]))

/-- the index rebuild of `NewCollection` reads every document record without failing -/
theorem rebuildCheck_ok (c : Coll) (segs : List Seg) (docs : DocStore) (h : CRep2 c segs docs) :
    rebuildCheck c.sf c.cfg = .ok () := by
  rw [rebuildCheck_eq]
  apply foldl_ok_of_steps
  intro e he
  unfold rebuildStep
  rcases idOfEntry_spec c segs docs h e he with ⟨h0, _⟩ | ⟨id, hid, hr, _⟩
  · simp only [h0, List.isEmpty_nil, ↓reduceIte]
  · have hne : e.1.isEmpty = false := by rw [hr]; cases hx : ridOf id <;> simp_all [ridOf_ne_nil]
    have hi := idxGet_of_mem c.sf.index h.keys e he
    rw [hr] at hi
    obtain ⟨A, seq, st, pad, B, hsegs, hoff, _, _, hdoc⟩ := h.base.rep.at (ridOf id) e.2 hi
    have hst := h.base.stored id
    rw [hdoc] at hst
    cases hd : docs id with
    | none => rw [hd] at hst; cases hst
    | some d =>
      rw [hd] at hst
      simp only [Option.map_some, Option.some.injEq] at hst
      subst hst
      obtain ⟨hfile, hok, _⟩ := h.base.rep.lay
      have hA : ∀ x ∈ A, x.OK := fun x hx => hok x (by rw [hsegs]; simp [hx])
      have hs : (Seg.act seq (ridOf id) (docStreams c.cfg.quant d) pad).OK := hok _ (by rw [hsegs]; simp)
      have hdrop : c.sf.file.drop e.2 = actBytes seq (ridOf id) (docStreams c.cfg.quant d) pad ++ render B := by
        rw [hfile, hsegs, render_append, render_cons, hoff, List.drop_left' (render_length A hA)]
        rfl
      obtain ⟨g0, g1⟩ := getStream_doc seq (ridOf id) c.cfg.quant d pad (render B) hs
      obtain ⟨hlen, hcodes⟩ := h.base.ok id d hd
      have hdec := decode_encode c.cfg.quant h.base.supported d.codes hcodes []
      rw [List.append_nil, hlen] at hdec
      simp only [hr, parseUint_ridOf id hid, hdrop, g1, hdec, g0]
      split <;> rfl


theorem keys_indexRev (segs : List Seg) (off : Nat) (acc : List (Bytes × Nat)) :
    (indexRev off segs acc).map (·.1) = (actRids segs).reverse ++ acc.map (·.1) := by
  induction segs generalizing off acc with
  | nil => simp [indexRev, actRids]
  | cons s ss ih =>
    cases s with
    | act seq rid st pad => simp [indexRev, actRids, ih]
    | free junk => simp [indexRev, actRids, ih]

/-- **closing and reopening a collection.** In any mode that keeps the file (`CreateIfNotExists`,
    `ReadWrite`, `ReadOnly`), with any caller options: if the header record decodes to the creation
    options (the `encoding/json` oracle), `NewCollection` on the file of a collection that satisfies the
    invariant succeeds — the index rebuild reads every record without failing — changes no byte, and
    yields a collection with the creation options that satisfies the invariant for the same documents. -/
theorem reopen_collection (c : Coll) (segs : List Seg) (docs : DocStore) (h : CRep2 c segs docs)
    (name : Bytes) (opts : Cfg) (mode : FileMode) (hmode : mode ≠ .createAndOverwrite)
    (dec : Bytes → Cfg → Option Cfg) (s0 : Stream) (more : List Stream)
    (hh : docOf [] segs = some (s0 :: more)) (hdec : dec s0.data opts = some c.cfg)
    (hmetric : c.cfg.metric = 0 ∨ c.cfg.metric = 1) :
    ∃ c', newCollection (some c.sf.file) name opts mode dec = .ok c' ∧ c'.cfg = c.cfg ∧ c'.sf.file = c.sf.file ∧
      CRep2 c' segs docs := by
  obtain ⟨hfile, hok, _⟩ := h.base.rep.lay
  obtain ⟨s', hs1, hs2, hs3⟩ := reopen_refines c.sf segs h.base.rep (decide (mode = .readOnly))
  -- the file is not empty and starts with a span magic
  have hne : segs ≠ [] := by intro e; rw [e] at hh; simp [docOf] at hh
  obtain ⟨sg, ss, hsg⟩ := List.exists_cons_of_ne_nil hne
  have hsgok : sg.OK := hok sg (by rw [hsg]; simp)
  have hfl : 15 ≤ c.sf.file.length := by
    rw [hfile, render_length _ hok, hsg, segsSize_cons]
    have := Seg.size_ge sg hsgok
    simp only [minSpanLength] at this
    omega
  have hmagic : rd32 c.sf.file = some activeMagic ∨ rd32 c.sf.file = some freeMagic := by
    rw [hfile, hsg, render_cons, Seg.rd_magic]
    cases sg <;> simp
  have hopen : openFile (some c.sf.file) mode = .ok s' := by
    have hie : c.sf.file.isEmpty = false := by
      cases hf : c.sf.file with
      | nil => rw [hf] at hfl; simp at hfl
      | cons a r => rfl
    unfold openFile
    cases mode with
    | createAndOverwrite => exact absurd rfl hmode
    | createIfNotExists =>
      simp only [Option.getD_some, hie, Bool.false_eq_true, false_and, ↓reduceIte, Bool.not_false, true_and,
        reduceCtorEq, decide_false] at hs1 ⊢
      rw [if_neg (by omega), if_neg (by rcases hmagic with h | h <;> simp [h]), hs1]
    | readWrite =>
      simp only [Option.getD_some, hie, Bool.false_eq_true, false_and, ↓reduceIte, Bool.not_false, true_and,
        reduceCtorEq, decide_false] at hs1 ⊢
      rw [if_neg (by omega), if_neg (by rcases hmagic with h | h <;> simp [h]), hs1]
    | readOnly =>
      simp only [Option.getD_some, hie, Bool.false_eq_true, false_and, ↓reduceIte, Bool.not_false, true_and,
        decide_true] at hs1 ⊢
      rw [if_neg (by omega), if_neg (by rcases hmagic with h | h <;> simp [h]), hs1]
  -- the header
  obtain ⟨sp, hr1, _, hr3⟩ := (read_refines s' segs hs3 []).2 _ hh
  -- the reopened collection
  have hkeys : KeysNodup s'.index := by
    have hq := scanFile_quiescent segs hok h.base.rep.nodup (decide (mode = .readOnly))
    rw [← hfile, hs1] at hq
    cases hq
    unfold KeysNodup
    rw [keys_indexRev]
    simp only [List.map_nil, List.append_nil]
    exact (List.reverse_perm _).nodup_iff.mpr h.base.rep.nodup
  have hrep2 : CRep2 { sf := s', cfg := c.cfg, readOnly := decide (mode = .readOnly) } segs docs :=
    ⟨⟨hs3, h.base.supported, h.base.ok, h.base.stored⟩, hkeys, h.hdr, h.only⟩
  have hrb := rebuildCheck_ok _ segs docs hrep2
  refine ⟨{ sf := s', cfg := c.cfg, readOnly := decide (mode = .readOnly) }, ?_, rfl, hs2, hrep2⟩
  have hfe : (decide (mode ≠ .createAndOverwrite) && !c.sf.file.isEmpty) = true := by
    cases hf : c.sf.file with
    | nil => rw [hf] at hfl; simp at hfl
    | cons a r => simp [hmode]
  simp only [newCollection, hfe, hopen, ↓reduceIte, hr1, hr3, hdec]
  simp only at hrb
  rcases hmetric with hm | hm <;> simp [hm, hrb]


/-- no document operation touches the header record -/
theorem docStep_header (c : Coll) (segs : List Seg) (docs : DocStore) (h : CRep2 c segs docs) (op : DocOp)
    (hf : DocOpFits2 c docs op) (segs' : List Seg) (hrep : Rep (applyDocOp c op).sf segs') :
    docOf [] segs' = docOf [] segs := by
  have same : ∀ (hs : applyDocOp c op = c), docOf [] segs' = docOf [] segs := by
    intro hs
    rw [hs] at hrep
    exact rep_docOf_unique c.sf segs' segs hrep h.base.rep []
  have viaWrite : ∀ (id : Nat) (d : Doc) (c' : Coll) (m : Mut), DocFits c id d →
      addDocument c id d.codes d.md = .ok (c', m) → applyDocOp c op = c' → docOf [] segs' = docOf [] segs := by
    intro id d c' m hfit ha hap
    obtain ⟨hw, hsf⟩ := addDocument_sf c id d.codes d.md c' m ha
    rw [hap, hsf] at hrep
    have hnew := docStreams_newOK c.sf.seq h.base.rep.seq c.cfg.quant d id hfit.1
    have := write_docOf c.sf segs h.base.rep (ridOf id) (docStreams c.cfg.quant d) m hnew hfit.2 hw segs' hrep []
    rw [this, if_neg (fun e => ridOf_ne_nil id e.symm)]
  cases op with
  | add id d =>
    obtain ⟨c', m, _, h1, _, _⟩ := add_refines2 c segs docs h id hf.1 d hf.2.1 hf.2.2
    exact viaWrite id d c' m hf.2.2 h1 (by simp [applyDocOp, docStep, h1])
  | update id md =>
    cases hd : docs id with
    | none =>
      have := (update_refines c segs docs h.base id md).1 hd
      exact same (by simp [applyDocOp, docStep, this])
    | some d =>
      have hok : DocOK c.cfg { d with md := md } := h.base.ok id d hd
      obtain ⟨c', m, _, h1, _, _⟩ := add_refines2 c segs docs h id hf.1 { d with md := md } hok (hf.2 d hd)
      have hu := update_as_add c segs docs h.base id md d hd c' m h1
      exact viaWrite id { d with md := md } c' m (hf.2 d hd) h1 (by simp [applyDocOp, docStep, hu])
  | remove id =>
    cases hd : docs id with
    | none =>
      have := (removeDoc_refines c segs docs h.base id).1 hd
      exact same (by simp [applyDocOp, docStep, this])
    | some d =>
      obtain ⟨c', m, _, h1, _, _⟩ := remove_refines2 c segs docs h id (by simp [hd])
      obtain ⟨hw, hsf⟩ := removeDocument_sf c id c' m h1
      have hap : applyDocOp c (.remove id) = c' := by simp [applyDocOp, docStep, h1]
      rw [hap, hsf] at hrep
      have hne : docOf (ridOf id) segs ≠ none := by
        rw [h.base.stored id, hd]; simp
      obtain ⟨m2, segs2, e1, e2, e3, _⟩ := (remove_refines c.sf segs h.base.rep (ridOf id)).2 hne
      rw [hw] at e1; cases e1
      rw [rep_docOf_unique m.st segs' segs2 hrep e2 [], e3 [], if_neg (fun e => ridOf_ne_nil id e.symm)]

/-- the header record and the extended invariant after any sequence of document operations -/
theorem doc_run_header (ops : List DocOp) (c : Coll) (segs : List Seg) (docs : DocStore) (h : CRep2 c segs docs)
    (hf : DocFitsAll2 c docs ops) :
    ∃ segs', CRep2 (ops.foldl applyDocOp c) segs' (ops.foldl docSpec docs) ∧ docOf [] segs' = docOf [] segs ∧
      (ops.foldl applyDocOp c).cfg = c.cfg := by
  induction ops generalizing c segs docs with
  | nil => exact ⟨segs, h, rfl, rfl⟩
  | cons op ops ih =>
    obtain ⟨hf1, hf2⟩ := hf
    obtain ⟨segs1, h1⟩ := docStep_refines2 c segs docs h op hf1
    have hh := docStep_header c segs docs h op hf1 segs1 h1.base.rep
    have hcfg : (applyDocOp c op).cfg = c.cfg := by
      obtain ⟨_, _, e⟩ := docStep_refines c segs docs h.base op (by
        cases op with
        | add id d => exact ⟨hf1.2.1, hf1.2.2⟩
        | update id md => exact hf1.2
        | remove id => trivial)
      exact e
    obtain ⟨segs2, h2, h3, h4⟩ := ih _ segs1 _ h1 hf2
    exact ⟨segs2, h2, by rw [h3, hh], by rw [List.foldl_cons, h4, hcfg]⟩

/-- **close and reopen after any history, at the level of documents**: after any sequence of document
    operations, reopening the file (any mode that keeps it, any caller options, header decoding to the
    creation options) succeeds, changes no byte, and every `GetDocument`, `GetAllIDs` and
    `GetDocumentCount` answers as the specification says -/
theorem reopen_after_doc_history (ops : List DocOp) (c : Coll) (segs : List Seg) (docs : DocStore) (h : CRep2 c segs docs)
    (hf : DocFitsAll2 c docs ops) (name : Bytes) (opts : Cfg) (mode : FileMode) (hmode : mode ≠ .createAndOverwrite)
    (dec : Bytes → Cfg → Option Cfg) (s0 : Stream) (more : List Stream)
    (hh : docOf [] segs = some (s0 :: more)) (hdec : dec s0.data opts = some c.cfg)
    (hmetric : c.cfg.metric = 0 ∨ c.cfg.metric = 1) :
    ∃ c', newCollection (some (ops.foldl applyDocOp c).sf.file) name opts mode dec = .ok c' ∧ c'.cfg = c.cfg ∧
      c'.sf.file = (ops.foldl applyDocOp c).sf.file ∧
      (∀ id, getDocument c' id = match ops.foldl docSpec docs id with
        | none => .err "record not found"
        | some d => .ok d) ∧
      (∀ id, id ∈ getAllIDs c' ↔ ops.foldl docSpec docs id ≠ none) := by
  obtain ⟨segs', h1, h2, h3⟩ := doc_run_header ops c segs docs h hf
  obtain ⟨c', e1, e2, e3, e4⟩ := reopen_collection _ segs' _ h1 name opts mode hmode dec s0 more (by rw [h2]; exact hh)
    (by rw [h3]; exact hdec) (by rw [h3]; exact hmetric)
  exact ⟨c', e1, by rw [e2, h3], e3, fun id => get_refines c' segs' _ e4.base id, fun id => allIDs_mem c' segs' _ e4 id⟩

end Syzgy
