import Syzgy.Lemmas.Reopen
import Syzgy.Lemmas.Crash
namespace Syzgy

theorem freeSuperseded_index (file : Bytes) (ro : Bool) (acc : ScanAcc) (off : Nat) :
    (freeSuperseded file ro acc off).index = acc.index := by
  unfold freeSuperseded
  split
  · rfl
  · split <;> rfl

theorem scanActive_keys (file : Bytes) (ro : Bool) (acc : ScanAcc) (off seq : Nat) (rid : Bytes)
    (h : KeysNodup acc.index) : KeysNodup (scanActive file ro acc off seq rid).index := by
  unfold scanActive
  simp only
  split
  · exact keysNodup_idxSet _ _ _ h
  · split
    · split
      · simp only [freeSuperseded_index]; exact keysNodup_idxSet _ _ _ h
      · exact keysNodup_idxSet _ _ _ h
    · rw [freeSuperseded_index]; exact h

theorem scanLoop_keys (file : Bytes) (ro : Bool) (fileSize : Nat) (fuel off : Nat) (rest : Bytes) (acc : ScanAcc)
    (h : KeysNodup acc.index) (acc' : ScanAcc) (off' : Nat)
    (hs : scanLoop file ro fileSize fuel off rest acc = .ok (acc', off')) : KeysNodup acc'.index := by
  induction fuel generalizing off rest acc with
  | zero =>
    unfold scanLoop at hs
    injection hs with hs; injection hs with hs _; subst hs; exact h
  | succ f ih =>
    unfold scanLoop at hs
    simp only at hs
    repeat' split at hs
    all_goals first
      | (injection hs with hs; injection hs with hs _; subst hs; exact h)
      | (cases hs; done)
      | exact ih _ _ _ h hs
      | exact ih _ _ _ (scanActive_keys _ _ _ _ _ _ h) hs
      | exact ih _ _ { acc with free := markFree acc.free off _ } h hs

/-- the index a scan builds never lists a key twice, whatever the file holds -/
theorem scanFile_keys (file : Bytes) (ro : Bool) (s : SF) (h : scanFile file ro = .ok s) : KeysNodup s.index := by
  unfold scanFile at h
  split at h
  · rename_i acc off hl
    injection h with h; subst h
    exact scanLoop_keys _ _ _ _ _ _ _ (by simp [KeysNodup]) _ _ hl
  · cases h
  · cases h

/-- a file made of well-formed segments (at least one) and a zero tail passes `OpenFile`'s first checks -/
theorem render_opens (X : List Seg) (hX : ∀ x ∈ X, x.OK) (hne : X ≠ []) (z : Nat) (mode : FileMode)
    (hmode : mode ≠ .createAndOverwrite) :
    (render X ++ zeros z).isEmpty = false ∧
    openFile (some (render X ++ zeros z)) mode = scanFile (render X ++ zeros z) (decide (mode = .readOnly)) := by
  obtain ⟨sg, ss, hsg⟩ := List.exists_cons_of_ne_nil hne
  have hsgok : sg.OK := hX sg (by rw [hsg]; simp)
  have hfl : 15 ≤ (render X ++ zeros z).length := by
    rw [List.length_append, render_length _ hX, hsg, segsSize_cons]
    have := Seg.size_ge sg hsgok
    simp only [minSpanLength] at this
    omega
  have hmagic : rd32 (render X ++ zeros z) = some activeMagic ∨ rd32 (render X ++ zeros z) = some freeMagic := by
    rw [hsg, render_cons, List.append_assoc, Seg.rd_magic]
    cases sg <;> simp
  have hie : (render X ++ zeros z).isEmpty = false := by
    cases hf : render X ++ zeros z with
    | nil => rw [hf] at hfl; simp at hfl
    | cons a r => rfl
  refine ⟨hie, ?_⟩
  unfold openFile
  cases mode with
  | createAndOverwrite => exact absurd rfl hmode
  | createIfNotExists =>
    simp only [Option.getD_some, hie, Bool.false_eq_true, false_and, ↓reduceIte, Bool.not_false, true_and,
      reduceCtorEq, decide_false]
    rw [if_neg (by omega), if_neg (by rcases hmagic with h | h <;> simp [h])]
  | readWrite =>
    simp only [Option.getD_some, hie, Bool.false_eq_true, false_and, ↓reduceIte, Bool.not_false, true_and,
      reduceCtorEq, decide_false]
    rw [if_neg (by omega), if_neg (by rcases hmagic with h | h <;> simp [h])]
  | readOnly =>
    simp only [Option.getD_some, hie, Bool.false_eq_true, false_and, ↓reduceIte, Bool.not_false, true_and,
      decide_true]
    rw [if_neg (by omega), if_neg (by rcases hmagic with h | h <;> simp [h])]

/-- `NewCollection` on an existing file: once `OpenFile` has produced a state that satisfies the
    collection invariant and whose header decodes, the rest (header read, options, index rebuild) succeeds -/
theorem newCollection_of_open (f : Bytes) (hf : f.isEmpty = false) (s' : SF) (cfg : Cfg) (segs : List Seg) (docs : DocStore)
    (name : Bytes) (opts : Cfg) (mode : FileMode) (hmode : mode ≠ .createAndOverwrite)
    (hopen : openFile (some f) mode = .ok s')
    (h : CRep2 { sf := s', cfg := cfg, readOnly := decide (mode = .readOnly) } segs docs)
    (dec : Bytes → Cfg → Option Cfg) (s0 : Stream) (more : List Stream)
    (hh : docOf [] segs = some (s0 :: more)) (hdec : dec s0.data opts = some cfg)
    (hmetric : cfg.metric = 0 ∨ cfg.metric = 1) :
    newCollection (some f) name opts mode dec = .ok { sf := s', cfg := cfg, readOnly := decide (mode = .readOnly) } := by
  obtain ⟨sp, hr1, _, hr3⟩ := (read_refines s' segs h.base.rep []).2 _ hh
  have hrb := rebuildCheck_ok _ segs docs h
  have hfe : (decide (mode ≠ .createAndOverwrite) && !f.isEmpty) = true := by simp [hmode, hf]
  simp only [newCollection, hfe, hopen, ↓reduceIte, hr1, hr3, hdec]
  simp only at hrb
  rcases hmetric with hm | hm
  · simp [hm, hrb]
  · simp [hm, hrb]

/-- carrying the collection invariant over to a recovered span-file state whose records are described
    by `docs'` -/
theorem crep2_transfer (c : Coll) (segs : List Seg) (docs : DocStore) (h : CRep2 c segs docs)
    (s' : SF) (segs' : List Seg) (hrep : Rep s' segs') (hk : KeysNodup s'.index) (docs' : DocStore)
    (hok : ∀ i d, docs' i = some d → DocOK c.cfg d)
    (hst : ∀ i, docOf (ridOf i) segs' = (docs' i).map (docStreams c.cfg.quant))
    (hhdr : docOf [] segs' = docOf [] segs)
    (honly : ∀ r, docOf r segs' ≠ none → docOf r segs ≠ none ∨ ∃ id, id < 18446744073709551616 ∧ r = ridOf id)
    (c' : Coll) (hsf : c'.sf = s') (hcfg : c'.cfg = c.cfg) : CRep2 c' segs' docs' := by
  subst hsf
  rw [← hcfg] at hok hst
  refine ⟨⟨hrep, by rw [hcfg]; exact h.base.supported, hok, hst⟩, hk, ?_, ?_⟩
  · rw [mem_actRids_iff, hhdr, ← mem_actRids_iff]; exact h.hdr
  · intro r hr
    rw [mem_actRids_iff] at hr
    rcases honly r hr with h1 | h1
    · rw [← mem_actRids_iff] at h1; exact h.only r h1
    · exact Or.inr h1

theorem segs_ne_nil_of_docOf (r : Bytes) (segs : List Seg) (h : docOf r segs ≠ none) : segs ≠ [] := by
  intro e; rw [e] at h; exact h rfl

theorem rep_file_shape (s : SF) (segs : List Seg) (h : Rep s segs) :
    s.file = render segs ++ zeros 0 ∧ ∀ x ∈ segs, x.OK := by
  obtain ⟨hfile, hok, _⟩ := h.lay
  exact ⟨by rw [hfile]; simp [zeros], hok⟩

/-- every crash image of a write is a chain of well-formed segments followed by a zero tail -/
theorem write_images_shape (s : SF) (segs : List Seg) (h : Rep s segs) (rid : Bytes) (st : List Stream)
    (hnew : NewOK s.seq rid st)
    (hbig : s.file.length + expandBy s.file.length (Seg.act s.seq rid st 0).size < 4294967296) (hne : segs ≠ []) :
    ∃ m, writeRecord s rid st = .ok m ∧
      ∀ img ∈ m.images, ∃ X z, img.2 = render X ++ zeros z ∧ (∀ x ∈ X, x.OK) ∧ X ≠ [] := by
  obtain ⟨hfile, hok, _⟩ := h.lay
  by_cases hd : docOf rid segs = none
  · obtain ⟨m, segs', h1, h2, h3, _, himgs, _⟩ := write_fresh s segs h rid st hnew hbig hd
    refine ⟨m, h1, ?_⟩
    have hne' : segs' ≠ [] := segs_ne_nil_of_docOf rid segs' (by rw [h3 rid]; simp)
    obtain ⟨hf', hok'⟩ := rep_file_shape m.st segs' h2
    intro img himg
    rcases himgs with e | ⟨z, hz, e⟩
    · rw [e] at himg; simp at himg; subst himg
      exact ⟨segs', 0, hf', hok', hne'⟩
    · rw [e] at himg; simp at himg
      rcases himg with rfl | rfl
      · exact ⟨segs, z, by simp only; rw [hfile], hok, hne⟩
      · exact ⟨segs', 0, hf', hok', hne'⟩
  · obtain ⟨m, P, Q, T, sa, sta, pa, sb, stb, pb, h1, hokS1, _, _, hcase, himgs⟩ :=
      write_over_shape s segs h rid st hnew hbig hd
    refine ⟨m, h1, ?_⟩
    have hfinal : ∃ X z, m.st.file = render X ++ zeros z ∧ (∀ x ∈ X, x.OK) ∧ X ≠ [] := by
      rcases hcase with ⟨_, _, hRep⟩ | ⟨_, _, hRep⟩
      · obtain ⟨hf', hok'⟩ := rep_file_shape m.st _ hRep
        exact ⟨_, 0, hf', hok', by simp⟩
      · obtain ⟨hf', hok'⟩ := rep_file_shape m.st _ hRep
        exact ⟨_, 0, hf', hok', by simp⟩
    have hmid : ∃ X z, render (P ++ .act sa rid sta pa :: Q ++ .act sb rid stb pb :: T) = render X ++ zeros z ∧
        (∀ x ∈ X, x.OK) ∧ X ≠ [] := ⟨_, 0, by simp [zeros], hokS1, by simp⟩
    intro img himg
    rcases himgs with e | ⟨z, _, e⟩
    · rw [e] at himg; simp at himg
      rcases himg with rfl | rfl
      · simpa using hmid
      · exact hfinal
    · rw [e] at himg; simp at himg
      rcases himg with rfl | rfl | rfl
      · exact ⟨segs, z, by simp only; rw [hfile], hok, hne⟩
      · simpa using hmid
      · exact hfinal

/-- reopening one crash image as a collection, given what recovery makes of it at the span-file level -/
theorem reopen_image (c : Coll) (segs : List Seg) (docs : DocStore) (h : CRep2 c segs docs)
    (img : Bytes) (X : List Seg) (z : Nat) (himg : img = render X ++ zeros z) (hX : ∀ x ∈ X, x.OK) (hXne : X ≠ [])
    (s' : SF) (segs' : List Seg) (hscan : scanFile img false = .ok s') (hrep : Rep s' segs')
    (docs' : DocStore) (hok : ∀ i d, docs' i = some d → DocOK c.cfg d)
    (hst : ∀ i, docOf (ridOf i) segs' = (docs' i).map (docStreams c.cfg.quant))
    (hhdr : docOf [] segs' = docOf [] segs)
    (honly : ∀ r, docOf r segs' ≠ none → docOf r segs ≠ none ∨ ∃ id, id < 18446744073709551616 ∧ r = ridOf id)
    (name : Bytes) (opts : Cfg) (mode : FileMode) (hmode : mode = .readWrite ∨ mode = .createIfNotExists)
    (dec : Bytes → Cfg → Option Cfg) (s0 : Stream) (more : List Stream)
    (hh : docOf [] segs = some (s0 :: more)) (hdec : dec s0.data opts = some c.cfg)
    (hmetric : c.cfg.metric = 0 ∨ c.cfg.metric = 1) :
    ∃ c', newCollection (some img) name opts mode dec = .ok c' ∧ c'.cfg = c.cfg ∧ CRep2 c' segs' docs' := by
  have hm1 : mode ≠ .createAndOverwrite := by rcases hmode with e | e <;> rw [e] <;> decide
  have hm2 : decide (mode = .readOnly) = false := by rcases hmode with e | e <;> rw [e] <;> rfl
  obtain ⟨hie, hopen⟩ := render_opens X hX hXne z mode hm1
  rw [← himg, hm2, hscan] at hopen
  rw [← himg] at hie
  have hk := scanFile_keys img false s' hscan
  have hc := crep2_transfer c segs docs h s' segs' hrep hk docs' hok hst hhdr honly
    { sf := s', cfg := c.cfg, readOnly := decide (mode = .readOnly) } rfl rfl
  have hnc := newCollection_of_open img hie s' c.cfg segs' docs' name opts mode hm1 hopen hc dec s0 more
    (by rw [hhdr]; exact hh) hdec hmetric
  exact ⟨_, hnc, rfl, hc⟩

/-- **a crash at any storage step of `AddDocument`** (new id or overwrite, with or without file growth):
    every crash image reopens as a collection — `NewCollection` succeeds, including the header read and
    the index rebuild — with the creation options, and it represents the store before the call or the
    store after it -/
theorem add_crash_safe (c : Coll) (segs : List Seg) (docs : DocStore) (h : CRep2 c segs docs)
    (hseq : SeqBelow c.sf.seq segs) (id : Nat) (hid : id < 18446744073709551616) (d : Doc) (hd : DocOK c.cfg d)
    (hf : DocFits c id d)
    (name : Bytes) (opts : Cfg) (mode : FileMode) (hmode : mode = .readWrite ∨ mode = .createIfNotExists)
    (dec : Bytes → Cfg → Option Cfg) (s0 : Stream) (more : List Stream)
    (hh : docOf [] segs = some (s0 :: more)) (hdec : dec s0.data opts = some c.cfg)
    (hmetric : c.cfg.metric = 0 ∨ c.cfg.metric = 1) :
    ∃ c1 m, addDocument c id d.codes d.md = .ok (c1, m) ∧
      ∀ img ∈ m.images, ∃ c' segs', newCollection (some img.2) name opts mode dec = .ok c' ∧ c'.cfg = c.cfg ∧
        docOf [] segs' = docOf [] segs ∧ (CRep2 c' segs' docs ∨ CRep2 c' segs' (fun i => if i = id then some d else docs i)) := by
  have hnew := docStreams_newOK c.sf.seq h.base.rep.seq c.cfg.quant d id hf.1
  have hne : segs ≠ [] := segs_ne_nil_of_docOf [] segs (by rw [hh]; simp)
  obtain ⟨c1, m, _, ha, _, _⟩ := add_refines2 c segs docs h id hid d hd hf
  obtain ⟨hw, _⟩ := addDocument_sf c id d.codes d.md c1 m ha
  obtain ⟨m1, hw1, hsafe⟩ := write_crash_safe c.sf segs h.base.rep hseq (ridOf id) (docStreams c.cfg.quant d) hnew hf.2
  obtain ⟨m2, hw2, hshape⟩ := write_images_shape c.sf segs h.base.rep (ridOf id) (docStreams c.cfg.quant d) hnew hf.2 hne
  simp only [docStreams] at hw1 hw2
  rw [hw] at hw1 hw2
  cases hw1; cases hw2
  refine ⟨c1, m, ha, ?_⟩
  intro img himg
  obtain ⟨s', segs', hscan, hrep, hcases⟩ := hsafe img himg
  obtain ⟨X, z, hi, hX, hXne⟩ := hshape img himg
  rcases hcases with hold | hnewd
  · obtain ⟨c', e1, e2, e3⟩ := reopen_image c segs docs h img.2 X z hi hX hXne s' segs' hscan hrep docs h.base.ok
      (fun i => by rw [hold]; exact h.base.stored i) (hold []) (fun r hr => Or.inl (by rw [← hold]; exact hr))
      name opts mode hmode dec s0 more hh hdec hmetric
    exact ⟨c', segs', e1, e2, hold [], Or.inl e3⟩
  · obtain ⟨c', e1, e2, e3⟩ := reopen_image c segs docs h img.2 X z hi hX hXne s' segs' hscan hrep
      (fun i => if i = id then some d else docs i)
      (by intro i d' hi'; split at hi'
          · cases hi'; exact hd
          · exact h.base.ok i d' hi')
      (by intro i
          rw [hnewd (ridOf i)]
          by_cases hi' : i = id
          · subst hi'; simp
          · have : ridOf i ≠ ridOf id := fun e => hi' (ridOf_inj e)
            simp only [this, hi', ↓reduceIte]
            exact h.base.stored i)
      (by rw [hnewd [], if_neg (fun e => ridOf_ne_nil id e.symm)])
      (by intro r hr
          by_cases hrr : r = ridOf id
          · exact Or.inr ⟨id, hid, hrr⟩
          · rw [hnewd r, if_neg hrr] at hr; exact Or.inl hr)
      name opts mode hmode dec s0 more hh hdec hmetric
    exact ⟨c', segs', e1, e2, by rw [hnewd [], if_neg (fun e => ridOf_ne_nil id e.symm)], Or.inr e3⟩

/-- **a crash at any storage step of `UpdateDocument`** -/
theorem update_crash_safe (c : Coll) (segs : List Seg) (docs : DocStore) (h : CRep2 c segs docs)
    (hseq : SeqBelow c.sf.seq segs) (id : Nat) (hid : id < 18446744073709551616) (md : Bytes) (d : Doc)
    (hd : docs id = some d) (hf : DocFits c id { d with md := md })
    (name : Bytes) (opts : Cfg) (mode : FileMode) (hmode : mode = .readWrite ∨ mode = .createIfNotExists)
    (dec : Bytes → Cfg → Option Cfg) (s0 : Stream) (more : List Stream)
    (hh : docOf [] segs = some (s0 :: more)) (hdec : dec s0.data opts = some c.cfg)
    (hmetric : c.cfg.metric = 0 ∨ c.cfg.metric = 1) :
    ∃ c1 m, updateDocument c id md = .ok (c1, m) ∧
      ∀ img ∈ m.images, ∃ c' segs', newCollection (some img.2) name opts mode dec = .ok c' ∧ c'.cfg = c.cfg ∧
        docOf [] segs' = docOf [] segs ∧ (CRep2 c' segs' docs ∨ CRep2 c' segs' (fun i => if i = id then some { d with md := md } else docs i)) := by
  have hok : DocOK c.cfg { d with md := md } := h.base.ok id d hd
  obtain ⟨c1, m, ha, hall⟩ := add_crash_safe c segs docs h hseq id hid { d with md := md } hok hf name opts mode hmode
    dec s0 more hh hdec hmetric
  exact ⟨c1, m, update_as_add c segs docs h.base id md d hd c1 m ha, hall⟩

/-- **a crash at the storage step of a removal** (its only step is its last) -/
theorem remove_doc_crash_safe (c : Coll) (segs : List Seg) (docs : DocStore) (h : CRep2 c segs docs)
    (id : Nat) (hd : docs id ≠ none)
    (name : Bytes) (opts : Cfg) (mode : FileMode) (hmode : mode = .readWrite ∨ mode = .createIfNotExists)
    (dec : Bytes → Cfg → Option Cfg) (s0 : Stream) (more : List Stream)
    (hh : docOf [] segs = some (s0 :: more)) (hdec : dec s0.data opts = some c.cfg)
    (hmetric : c.cfg.metric = 0 ∨ c.cfg.metric = 1) :
    ∃ c1 m, removeDocument c id = .ok (c1, m) ∧
      ∀ img ∈ m.images, ∃ c' segs', newCollection (some img.2) name opts mode dec = .ok c' ∧ c'.cfg = c.cfg ∧
        docOf [] segs' = docOf [] segs ∧ CRep2 c' segs' (fun i => if i = id then none else docs i) := by
  obtain ⟨c1, m, _, hr, _, _⟩ := remove_refines2 c segs docs h id hd
  obtain ⟨hw, _⟩ := removeDocument_sf c id c1 m hr
  have hdo : docOf (ridOf id) segs ≠ none := by
    rw [h.base.stored id]; cases hx : docs id with
    | none => exact absurd hx hd
    | some d => simp
  obtain ⟨m1, segs1, hw1, hrep1, hdoc1, himgs, _⟩ := (remove_refines c.sf segs h.base.rep (ridOf id)).2 hdo
  rw [hw] at hw1; cases hw1
  refine ⟨c1, m, hr, ?_⟩
  intro img himg
  rw [himgs] at himg; simp at himg; subst himg
  obtain ⟨s', e1, _, e3⟩ := reopen_refines m.st segs1 hrep1 false
  obtain ⟨hf', hok'⟩ := rep_file_shape m.st segs1 hrep1
  have hne1 : segs1 ≠ [] := segs_ne_nil_of_docOf [] segs1 (by
    rw [hdoc1 [], if_neg (fun e => ridOf_ne_nil id e.symm), hh]; simp)
  obtain ⟨c', e1', e2', e3'⟩ := reopen_image c segs docs h m.st.file segs1 0 hf' hok' hne1 s' segs1 e1 e3
    (fun i => if i = id then none else docs i)
    (by intro i d' hi'; split at hi'
        · cases hi'
        · exact h.base.ok i d' hi')
    (by intro i
        rw [hdoc1 (ridOf i)]
        by_cases hi' : i = id
        · subst hi'; simp
        · have : ridOf i ≠ ridOf id := fun e => hi' (ridOf_inj e)
          simp only [this, hi', ↓reduceIte]
          exact h.base.stored i)
    (by rw [hdoc1 [], if_neg (fun e => ridOf_ne_nil id e.symm)])
    (by intro r hr'
        rw [hdoc1 r] at hr'
        split at hr'
        · exact absurd rfl hr'
        · exact Or.inl hr')
    name opts mode hmode dec s0 more hh hdec hmetric
  exact ⟨c', segs1, e1', e2', by rw [hdoc1 [], if_neg (fun e => ridOf_ne_nil id e.symm)], e3'⟩

/-- one document operation keeps the collection invariant *and* the sequence-number invariant, leaves the
    header record and the options alone -/
theorem docStep_inv (c : Coll) (segs : List Seg) (docs : DocStore) (h : CRep2 c segs docs)
    (hseq : SeqBelow c.sf.seq segs) (op : DocOp) (hf : DocOpFits2 c docs op) (hw : c.sf.seq + 1 < 4294967296) :
    ∃ segs', CRep2 (applyDocOp c op) segs' (docSpec docs op) ∧ SeqBelow (applyDocOp c op).sf.seq segs' ∧
      docOf [] segs' = docOf [] segs ∧ (applyDocOp c op).cfg = c.cfg := by
  have viaAdd : ∀ (id : Nat) (d : Doc), id < 18446744073709551616 → DocOK c.cfg d → DocFits c id d →
      ∃ c' m segs', addDocument c id d.codes d.md = .ok (c', m) ∧
        CRep2 c' segs' (fun i => if i = id then some d else docs i) ∧ SeqBelow c'.sf.seq segs' ∧
        docOf [] segs' = docOf [] segs ∧ c'.cfg = c.cfg := by
    intro id d hid hd hfit
    have hnew := docStreams_newOK c.sf.seq h.base.rep.seq c.cfg.quant d id hfit.1
    obtain ⟨c', m, _, ha, hcfg, _⟩ := add_refines2 c segs docs h id hid d hd hfit
    obtain ⟨hwr, hsf⟩ := addDocument_sf c id d.codes d.md c' m ha
    rcases seqBelow_step c.sf segs h.base.rep hseq (.write (ridOf id) (docStreams c.cfg.quant d)) ⟨hnew, hfit.2⟩ hw with
      ⟨m1, segs', h1, h2, h3, h4⟩ | ⟨rid, hop, _, _⟩
    · simp only [stepSF, docStreams] at h1
      rw [hwr] at h1; cases h1
      obtain ⟨off, hix⟩ := writeRecord_index c.sf _ _ m hwr
      have hdoc : ∀ r, docOf r segs' = if r = ridOf id then some (docStreams c.cfg.quant d) else docOf r segs := by
        intro r; rw [h4 r]; rfl
      refine ⟨c', m, segs', ha, ?_, by rw [hsf]; exact h3, ?_, hcfg⟩
      · refine crep2_transfer c segs docs h m.st segs' h2 (by rw [hix]; exact keysNodup_idxSet _ _ _ h.keys)
          (fun i => if i = id then some d else docs i) ?_ ?_ ?_ ?_ c' hsf hcfg
        · intro i d' hi'; split at hi'
          · cases hi'; exact hd
          · exact h.base.ok i d' hi'
        · intro i
          rw [hdoc (ridOf i)]
          by_cases hi' : i = id
          · subst hi'; simp
          · have : ridOf i ≠ ridOf id := fun e => hi' (ridOf_inj e)
            simp only [this, hi', ↓reduceIte]
            exact h.base.stored i
        · rw [hdoc [], if_neg (fun e => ridOf_ne_nil id e.symm)]
        · intro r hr
          by_cases hrr : r = ridOf id
          · exact Or.inr ⟨id, hid, hrr⟩
          · rw [hdoc r, if_neg hrr] at hr; exact Or.inl hr
      · rw [hdoc [], if_neg (fun e => ridOf_ne_nil id e.symm)]
    · cases hop
  cases op with
  | add id d =>
    obtain ⟨c', m, segs', ha, h1, h2, h3, h4⟩ := viaAdd id d hf.1 hf.2.1 hf.2.2
    have e : applyDocOp c (.add id d) = c' := by simp [applyDocOp, docStep, ha]
    rw [e]
    exact ⟨segs', h1, h2, h3, h4⟩
  | update id md =>
    cases hd : docs id with
    | none =>
      have herr := (update_refines c segs docs h.base id md).1 hd
      have e : docSpec docs (.update id md) = docs := by
        funext i; simp only [docSpec]; split
        · rename_i hi; subst hi; simp [hd]
        · rfl
      have e2 : applyDocOp c (.update id md) = c := by simp [applyDocOp, docStep, herr]
      rw [e, e2]
      exact ⟨segs, h, hseq, rfl, rfl⟩
    | some d =>
      have hok : DocOK c.cfg { d with md := md } := h.base.ok id d hd
      obtain ⟨c', m, segs', ha, h1, h2, h3, h4⟩ := viaAdd id { d with md := md } hf.1 hok (hf.2 d hd)
      have hu := update_as_add c segs docs h.base id md d hd c' m ha
      have e : docSpec docs (.update id md) = fun i => if i = id then some { d with md := md } else docs i := by
        funext i; simp only [docSpec]; split
        · simp [hd]
        · rfl
      have e2 : applyDocOp c (.update id md) = c' := by simp [applyDocOp, docStep, hu]
      rw [e, e2]
      exact ⟨segs', h1, h2, h3, h4⟩
  | remove id =>
    cases hd : docs id with
    | none =>
      have herr := (removeDoc_refines c segs docs h.base id).1 hd
      have e : docSpec docs (.remove id) = docs := by
        funext i; simp only [docSpec]; split
        · rename_i hi; subst hi; simp [hd]
        · rfl
      have e2 : applyDocOp c (.remove id) = c := by simp [applyDocOp, docStep, herr]
      rw [e, e2]
      exact ⟨segs, h, hseq, rfl, rfl⟩
    | some d =>
      obtain ⟨c', m, _, hr, hcfg, _⟩ := remove_refines2 c segs docs h id (by simp [hd])
      obtain ⟨hwr, hsf⟩ := removeDocument_sf c id c' m hr
      have hdo : docOf (ridOf id) segs ≠ none := by rw [h.base.stored id, hd]; simp
      rcases seqBelow_step c.sf segs h.base.rep hseq (.remove (ridOf id)) trivial hw with
        ⟨m1, segs', h1, h2, h3, h4⟩ | ⟨rid, hop, hnone, _⟩
      · simp only [stepSF] at h1
        rw [hwr] at h1; cases h1
        have hix := removeRecord_index c.sf _ m hwr
        have hdoc : ∀ r, docOf r segs' = if r = ridOf id then none else docOf r segs := by
          intro r; rw [h4 r]; rfl
        have e2 : applyDocOp c (.remove id) = c' := by simp [applyDocOp, docStep, hr]
        rw [e2]
        refine ⟨segs', ?_, by rw [hsf]; exact h3, ?_, hcfg⟩
        · refine crep2_transfer c segs docs h m.st segs' h2 (by rw [hix]; exact keysNodup_idxDel _ _ h.keys)
            (docSpec docs (.remove id)) ?_ ?_ ?_ ?_ c' hsf hcfg
          · intro i d' hi'
            simp only [docSpec] at hi'
            split at hi'
            · cases hi'
            · exact h.base.ok i d' hi'
          · intro i
            rw [hdoc (ridOf i)]
            simp only [docSpec]
            by_cases hi' : i = id
            · subst hi'; simp
            · have : ridOf i ≠ ridOf id := fun e => hi' (ridOf_inj e)
              simp only [this, hi', ↓reduceIte]
              exact h.base.stored i
          · rw [hdoc [], if_neg (fun e => ridOf_ne_nil id e.symm)]
          · intro r hr'
            rw [hdoc r] at hr'
            split at hr'
            · exact absurd rfl hr'
            · exact Or.inl hr'
        · rw [hdoc [], if_neg (fun e => ridOf_ne_nil id e.symm)]
      · cases hop
        exact absurd hnone hdo

/-- `DocFitsAll2` plus: the 32-bit sequence counter does not wrap during the run -/
def DocFitsAllW : Coll → DocStore → List DocOp → Prop
  | _, _, [] => True
  | c, m, op :: ops => DocOpFits2 c m op ∧ c.sf.seq + 1 < 4294967296 ∧ DocFitsAllW (applyDocOp c op) (docSpec m op) ops

/-- the invariants of every collection state reachable by document operations -/
theorem doc_run_inv (ops : List DocOp) (c : Coll) (segs : List Seg) (docs : DocStore) (h : CRep2 c segs docs)
    (hseq : SeqBelow c.sf.seq segs) (hf : DocFitsAllW c docs ops) :
    ∃ segs', CRep2 (ops.foldl applyDocOp c) segs' (ops.foldl docSpec docs) ∧
      SeqBelow (ops.foldl applyDocOp c).sf.seq segs' ∧ docOf [] segs' = docOf [] segs ∧
      (ops.foldl applyDocOp c).cfg = c.cfg := by
  induction ops generalizing c segs docs with
  | nil => exact ⟨segs, h, hseq, rfl, rfl⟩
  | cons op ops ih =>
    obtain ⟨hf1, hw, hf2⟩ := hf
    obtain ⟨segs1, h1, h2, h3, h4⟩ := docStep_inv c segs docs h hseq op hf1 hw
    obtain ⟨segs2, g1, g2, g3, g4⟩ := ih _ segs1 _ h1 h2 hf2
    exact ⟨segs2, g1, g2, by rw [g3, h3], by simp only [List.foldl_cons]; rw [g4, h4]⟩

/-- **a crash at any storage step of any document operation**: whenever the operation runs, each of
    its crash images reopens as a collection with the creation options that represents the store before
    the operation or the store after it -/
theorem doc_crash_safe (c : Coll) (segs : List Seg) (docs : DocStore) (h : CRep2 c segs docs)
    (hseq : SeqBelow c.sf.seq segs) (op : DocOp) (hf : DocOpFits2 c docs op)
    (name : Bytes) (opts : Cfg) (mode : FileMode) (hmode : mode = .readWrite ∨ mode = .createIfNotExists)
    (dec : Bytes → Cfg → Option Cfg) (s0 : Stream) (more : List Stream)
    (hh : docOf [] segs = some (s0 :: more)) (hdec : dec s0.data opts = some c.cfg)
    (hmetric : c.cfg.metric = 0 ∨ c.cfg.metric = 1)
    (c1 : Coll) (m : Mut) (hstep : docStep c op = .ok (c1, m)) :
    ∀ img ∈ m.images, ∃ c' segs', newCollection (some img.2) name opts mode dec = .ok c' ∧ c'.cfg = c.cfg ∧
      docOf [] segs' = docOf [] segs ∧ (CRep2 c' segs' docs ∨ CRep2 c' segs' (docSpec docs op)) := by
  cases op with
  | add id d =>
    obtain ⟨c1', m', ha, hall⟩ := add_crash_safe c segs docs h hseq id hf.1 d hf.2.1 hf.2.2 name opts mode hmode
      dec s0 more hh hdec hmetric
    simp only [docStep] at hstep
    rw [ha] at hstep; cases hstep
    exact hall
  | update id md =>
    simp only [docStep] at hstep
    cases hd : docs id with
    | none =>
      rw [(update_refines c segs docs h.base id md).1 hd] at hstep; cases hstep
    | some d =>
      obtain ⟨c1', m', ha, hall⟩ := update_crash_safe c segs docs h hseq id hf.1 md d hd (hf.2 d hd) name opts mode hmode
        dec s0 more hh hdec hmetric
      rw [ha] at hstep; cases hstep
      have e : docSpec docs (.update id md) = fun i => if i = id then some { d with md := md } else docs i := by
        funext i; simp only [docSpec]; split
        · simp [hd]
        · rfl
      rw [e]
      exact hall
  | remove id =>
    simp only [docStep] at hstep
    cases hd : docs id with
    | none =>
      rw [(removeDoc_refines c segs docs h.base id).1 hd] at hstep; cases hstep
    | some d =>
      obtain ⟨c1', m', ha, hall⟩ := remove_doc_crash_safe c segs docs h id (by simp [hd]) name opts mode hmode
        dec s0 more hh hdec hmetric
      rw [ha] at hstep; cases hstep
      intro img himg
      obtain ⟨c', segs', e1, e2, e3, e4⟩ := hall img himg
      exact ⟨c', segs', e1, e2, e3, Or.inr e4⟩

/-- **… in any reachable state**: after any history of document operations, a crash at any storage step
    of the next one leaves a file that reopens as the collection before or after that operation -/
theorem crash_after_any_doc_history (ops : List DocOp) (c : Coll) (segs : List Seg) (docs : DocStore)
    (h : CRep2 c segs docs) (hseq : SeqBelow c.sf.seq segs) (hf : DocFitsAllW c docs ops)
    (op : DocOp) (hop : DocOpFits2 (ops.foldl applyDocOp c) (ops.foldl docSpec docs) op)
    (name : Bytes) (opts : Cfg) (mode : FileMode) (hmode : mode = .readWrite ∨ mode = .createIfNotExists)
    (dec : Bytes → Cfg → Option Cfg) (s0 : Stream) (more : List Stream)
    (hh : docOf [] segs = some (s0 :: more)) (hdec : dec s0.data opts = some c.cfg)
    (hmetric : c.cfg.metric = 0 ∨ c.cfg.metric = 1)
    (c1 : Coll) (m : Mut) (hstep : docStep (ops.foldl applyDocOp c) op = .ok (c1, m)) :
    ∀ img ∈ m.images, ∃ c' segs', newCollection (some img.2) name opts mode dec = .ok c' ∧ c'.cfg = c.cfg ∧
      docOf [] segs' = docOf [] segs ∧ (CRep2 c' segs' (ops.foldl docSpec docs) ∨ CRep2 c' segs' ((ops ++ [op]).foldl docSpec docs)) := by
  obtain ⟨segs1, h1, h2, h3, h4⟩ := doc_run_inv ops c segs docs h hseq hf
  have := doc_crash_safe _ segs1 _ h1 h2 op hop name opts mode hmode dec s0 more (by rw [h3]; exact hh)
    (by rw [h4]; exact hdec) (by rw [h4]; exact hmetric) c1 m hstep
  intro img himg
  obtain ⟨c', segs', e1, e2, e3, e4⟩ := this img himg
  refine ⟨c', segs', e1, by rw [e2, h4], by rw [e3, h3], ?_⟩
  simpa [List.foldl_append] using e4

/-- **a newly created collection** satisfies every invariant the crash theorems start from: the
    collection invariant with no document, sequence numbers below the counter, and a header record
    holding the encoded creation options -/
theorem new_collection_inv (name : Bytes) (opts : Cfg) (hq : Supported opts.quant)
    (hm : opts.metric = 0 ∨ opts.metric = 1) (hlen : (encodeOpts name opts).length < 1000000000) :
    ∃ c segs, newCollection none name opts .createIfNotExists = .ok c ∧ c.cfg = opts ∧
      CRep2 c segs (fun _ => none) ∧ SeqBelow c.sf.seq segs ∧
      docOf [] segs = some [{ id := 0, data := encodeOpts name opts }] := by
  obtain ⟨s0, h0, hrep0, hseq0⟩ := init_seqBelow
  have hq0 : ¬ opts.quant = 0 := by rcases hq with h | h | h | h | h <;> omega
  have hopen : openFile none .createIfNotExists = scanFile initialSpan false := by
    unfold openFile
    simp only [Option.getD_none, List.isEmpty_nil, Bool.not_true, Bool.false_eq_true, false_and, true_and, ↓reduceIte,
      reduceCtorEq, decide_false]
  have hs1 : s0.seq = 1 := by
    have hq' := scanFile_quiescent [Seg.act 0 [] [] 0] hrep0.lay.ok (by simp [actRids]) false
    have hinit : initialSpan = render [Seg.act 0 [] [] 0] := by
      simp [initialSpan, render, Seg.bytes, actBytes, serializeSpan_eq]
    have h0' := h0
    rw [hopen, hinit, hq'] at h0'
    cases h0'
    simp [maxSeq]
  have hk0 : KeysNodup s0.index := scanFile_keys initialSpan false s0 (by rw [← hopen]; exact h0)
  have hfl : s0.file.length = 15 := by
    rw [hrep0.lay.file, render_length _ hrep0.lay.ok]
    simp [segsSize, Seg.size, spanBody, enc7, len7, pick7, bounds7, enc7k]
  have hsz : (Seg.act s0.seq [] [{ id := 0, data := encodeOpts name opts }] 0).size ≤ (encodeOpts name opts).length + 50 := by
    have hb : (spanBody s0.seq [] [{ id := 0, data := encodeOpts name opts }]).length =
        len7 s0.seq + len7 0 + 0 + 1 + (1 + len7 (encodeOpts name opts).length + (encodeOpts name opts).length + 0) := by
      simp [spanBody_length, streamLen]
    have l1 := len7_le s0.seq
    have l2 := len7_le 0
    have l3 := len7_le (encodeOpts name opts).length
    simp only [Seg.size, hb]
    omega
  have hnew : NewOK s0.seq [] [{ id := 0, data := encodeOpts name opts }] := by
    refine ⟨by omega, by simp, by simp, ?_, ?_⟩
    · intro s hs
      simp only [List.mem_cons, List.not_mem_nil, or_false] at hs
      subst hs
      exact ⟨by simp, by simp only; omega⟩
    · simp only [minSpanLength]; omega
  have hbig : s0.file.length + expandBy s0.file.length (Seg.act s0.seq [] [{ id := 0, data := encodeOpts name opts }] 0).size
      < 4294967296 := by
    rw [hfl]
    have h5 : fivePercent 15 = 0 := by decide
    simp only [expandBy, h5]
    omega
  rcases seqBelow_step s0 _ hrep0 hseq0 (.write [] [{ id := 0, data := encodeOpts name opts }]) ⟨hnew, hbig⟩ (by omega) with
    ⟨m, segs', h1, h2, h3, h4⟩ | ⟨rid, hop, _, _⟩
  · simp only [stepSF] at h1
    obtain ⟨off, hix⟩ := writeRecord_index s0 _ _ m h1
    have hdoc : ∀ r, docOf r segs' = if r = [] then some [{ id := 0, data := encodeOpts name opts }] else docOf r [Seg.act 0 [] [] 0] := by
      intro r; rw [h4 r]; rfl
    have hother : ∀ r, r ≠ [] → docOf r [Seg.act 0 [] [] 0] = none := by
      intro r hr
      simp only [docOf]
      rw [if_neg (fun e => hr e.symm)]
    refine ⟨{ sf := m.st, cfg := opts, readOnly := false }, segs', ?_, rfl, ⟨⟨h2, hq, (by intro _ _ h; cases h), ?_⟩, ?_, ?_, ?_⟩, h3, ?_⟩
    · simp only [newCollection, h0, hq0, ↓reduceIte, h1]
      rcases hm with hm | hm <;> simp [hm]
    · intro id
      rw [hdoc (ridOf id), if_neg (ridOf_ne_nil id), hother _ (ridOf_ne_nil id)]
      rfl
    · show KeysNodup m.st.index
      rw [hix]; exact keysNodup_idxSet _ _ _ hk0
    · rw [mem_actRids_iff, hdoc []]; simp
    · intro r hr
      rw [mem_actRids_iff, hdoc r] at hr
      by_cases hrr : r = []
      · exact Or.inl hrr
      · rw [if_neg hrr, hother r hrr] at hr; exact absurd rfl hr
    · rw [hdoc []]; simp
  · cases hop

end Syzgy
