import Syzgy.Model.Search
/-! Exact search: the bounded max-heap scan keeps the K smallest accepted candidates; the radius
    scan keeps exactly the accepted candidates within the radius; listing pages are drop/take. -/
namespace Syzgy

@[reducible] def Desc (l : List Cand) : Prop := List.Pairwise (fun a b => a.dist ≥ b.dist) l

theorem insDesc_perm (x : Cand) (l : List Cand) : (insDesc x l).Perm (x :: l) := by
  induction l with
  | nil => exact List.Perm.refl _
  | cons a r ih =>
    simp only [insDesc]; split
    · exact List.Perm.refl _
    · exact (List.Perm.cons a ih).trans (List.Perm.swap x a r)

theorem insDesc_mem (x y : Cand) (l : List Cand) : y ∈ insDesc x l ↔ y = x ∨ y ∈ l := by
  rw [(insDesc_perm x l).mem_iff]; simp

theorem insDesc_desc (x : Cand) (l : List Cand) (h : Desc l) : Desc (insDesc x l) := by
  induction l with
  | nil => simp [insDesc]
  | cons a r ih =>
    unfold Desc at *
    simp only [insDesc]; split
    · rename_i hle
      rw [List.pairwise_cons] at h ⊢
      refine ⟨?_, List.pairwise_cons.mpr h⟩
      intro y hy
      rcases List.mem_cons.mp hy with rfl | hy
      · exact hle
      · have := h.1 y hy; omega
    · rename_i hnle
      rw [List.pairwise_cons] at h ⊢
      refine ⟨?_, ih h.2⟩
      intro y hy
      rcases (insDesc_mem x y r).mp hy with rfl | hy
      · omega
      · exact h.1 y hy

theorem insDesc_length (x : Cand) (l : List Cand) : (insDesc x l).length = l.length + 1 := by
  simpa using (insDesc_perm x l).length_eq

/-- invariant of the K scan over the accepted candidates seen so far:
    `h` = heap, `rest` = accepted candidates seen and not kept -/
structure KInv (K : Nat) (seen h rest : List Cand) : Prop where
  perm : (h ++ rest).Perm seen
  desc : Desc h
  len : h.length = min K seen.length
  low : ∀ x ∈ h, ∀ y ∈ rest, x.dist ≤ y.dist

theorem considerK_step (K : Nat) (seen h rest : List Cand) (d : Cand) (hacc : d.acc = true)
    (inv : KInv K seen h rest) : ∃ rest', KInv K (seen ++ [d]) (considerK K h d) rest' := by
  have hlen := inv.perm.length_eq
  simp only [List.length_append] at hlen
  have hle : h.length ≤ K := by have := inv.len; omega
  unfold considerK
  simp only [hacc, Bool.not_true, Bool.false_eq_true, ↓reduceIte, hle]
  by_cases hlt : h.length < K
  · have hrest : rest = [] := by
      have := inv.len
      have : rest.length = 0 := by omega
      exact List.eq_nil_of_length_eq_zero this
    subst hrest
    have hp : h.Perm seen := by simpa using inv.perm
    have hls : h.length = seen.length := hp.length_eq
    simp only [hlt, decide_true, Bool.true_or, ↓reduceIte]
    have hl' : ¬ (insDesc d h).length > K := by rw [insDesc_length]; omega
    simp only [hl', ↓reduceIte]
    refine ⟨[], ⟨?_, insDesc_desc d h inv.desc, ?_, by simp⟩⟩
    · simp only [List.append_nil]
      exact (insDesc_perm d h).trans ((List.Perm.cons d hp).trans (List.perm_append_singleton d seen).symm)
    · rw [insDesc_length]; simp only [List.length_append, List.length_singleton]; omega
  · have hfull : h.length = K := by omega
    simp only [hlt, decide_false, Bool.false_or]
    cases h with
    | nil =>
      simp only [topGt, Bool.false_eq_true, ↓reduceIte]
      refine ⟨d :: rest, ⟨?_, inv.desc, by simp at hfull; simp [← hfull], by simp⟩⟩
      simp only [List.nil_append] at *
      exact (List.Perm.cons d inv.perm).trans (List.perm_append_singleton d seen).symm
    | cons top r =>
      have hd := List.pairwise_cons.mp inv.desc
      by_cases hgt : top.dist > d.dist
      · have hins : insDesc d (top :: r) = top :: insDesc d r := by
          simp only [insDesc]; rw [if_neg (by omega)]
        simp only [topGt, hgt, decide_true, ↓reduceIte, hins, List.length_cons, insDesc_length,
          List.tail_cons]
        have hk : r.length + 1 + 1 > K := by simp at hfull; omega
        simp only [hk, ↓reduceIte]
        refine ⟨top :: rest, ⟨?_, insDesc_desc d r hd.2, ?_, ?_⟩⟩
        · have p1 : (insDesc d r ++ top :: rest).Perm (d :: (top :: r ++ rest)) := by
            have := (insDesc_perm d r).append_right (top :: rest)
            refine this.trans ?_
            simp only [List.cons_append]
            refine List.Perm.cons d ?_
            exact List.perm_middle
          exact p1.trans ((List.Perm.cons d inv.perm).trans (List.perm_append_singleton d seen).symm)
        · rw [insDesc_length]; simp at hfull ⊢; omega
        · intro x hx y hy
          have hxle : x.dist ≤ top.dist := by
            rcases (insDesc_mem d x r).mp hx with rfl | hx
            · omega
            · exact hd.1 x hx
          rcases List.mem_cons.mp hy with rfl | hy
          · exact hxle
          · have := inv.low top (by simp) y hy; omega
      · simp only [topGt, hgt, decide_false, Bool.false_eq_true, ↓reduceIte]
        refine ⟨d :: rest, ⟨?_, inv.desc, ?_, ?_⟩⟩
        · have : ((top :: r) ++ d :: rest).Perm (d :: ((top :: r) ++ rest)) := List.perm_middle
          exact this.trans ((List.Perm.cons d inv.perm).trans (List.perm_append_singleton d seen).symm)
        · simp at hfull ⊢; omega
        · intro x hx y hy
          rcases List.mem_cons.mp hy with rfl | hy
          · rcases List.mem_cons.mp hx with rfl | hx
            · omega
            · have := hd.1 x hx; omega
          · exact inv.low x hx y hy

theorem considerK_rejected (K : Nat) (h : List Cand) (d : Cand) (hacc : d.acc = false) : considerK K h d = h := by
  simp [considerK, hacc]

theorem knn_fold (K : Nat) (cands : List Cand) : ∀ seen h rest, KInv K seen h rest →
    ∃ rest', KInv K (seen ++ cands.filter (·.acc)) (cands.foldl (considerK K) h) rest' := by
  induction cands with
  | nil => intro seen h rest inv; exact ⟨rest, by simpa using inv⟩
  | cons d ds ih =>
    intro seen h rest inv
    by_cases hacc : d.acc = true
    · obtain ⟨rest', inv'⟩ := considerK_step K seen h rest d hacc inv
      have := ih (seen ++ [d]) (considerK K h d) rest' inv'
      simpa [List.filter_cons, hacc, List.append_assoc] using this
    · have hacc' : d.acc = false := by simpa using hacc
      have := ih seen h rest inv
      simpa [List.filter_cons, hacc', considerK_rejected K h d hacc'] using this

/-- the heap after the K scan -/
theorem exact_knn_heap (K : Nat) (cands : List Cand) :
    ∃ rest, KInv K (cands.filter (·.acc)) (cands.foldl (considerK K) []) rest := by
  have := knn_fold K cands [] [] [] ⟨List.Perm.refl _, by simp, by simp, by simp⟩
  simpa using this

/-! ## radius -/

theorem radius_fold (R : Nat) (cands : List Cand) : ∀ h, Desc h →
    Desc (cands.foldl (considerR R) h) ∧
    (cands.foldl (considerR R) h).Perm (h ++ cands.filter (fun c => c.acc && decide (c.dist ≤ R))) := by
  induction cands with
  | nil => intro h hd; exact ⟨hd, by simp⟩
  | cons d ds ih =>
    intro h hd
    simp only [List.foldl_cons]
    by_cases hc : (d.acc && decide (d.dist ≤ R)) = true
    · have h1 : considerR R h d = insDesc d h := by simp [considerR, hc]
      rw [h1]
      obtain ⟨i1, i2⟩ := ih (insDesc d h) (insDesc_desc d h hd)
      refine ⟨i1, i2.trans ?_⟩
      simp only [List.filter_cons, hc, ↓reduceIte]
      have := (insDesc_perm d h).append_right (ds.filter (fun c => c.acc && decide (c.dist ≤ R)))
      exact this.trans (by simpa using (List.perm_middle (a := d) (l₁ := h)).symm)
    · have h1 : considerR R h d = h := by simp [considerR, hc]
      rw [h1]
      obtain ⟨i1, i2⟩ := ih h hd
      refine ⟨i1, ?_⟩
      simpa [List.filter_cons, hc] using i2

/-! ## listing -/

def takeLim (lim : Nat) (l : List Nat) : List Nat := if lim = 0 then l else l.take lim

theorem listLoop_spec (off lim : Nat) (items : List (Nat × Bool)) (seen : Nat) (out : List Nat)
    (hout : lim = 0 ∨ out.length < lim) (hseen : out ≠ [] → off ≤ seen) (hso : seen ≤ off → out = []) :
    listLoop off lim items seen out =
      out.reverse ++ takeLim (if lim = 0 then 0 else lim - out.length)
        (((items.filter (·.2)).map (·.1)).drop (off - seen)) := by
  induction items generalizing seen out with
  | nil => simp [listLoop, takeLim]
  | cons it rest ih =>
    obtain ⟨id, ok⟩ := it
    unfold listLoop
    cases ok with
    | false => simpa using ih seen out hout hseen hso
    | true =>
      simp only [Bool.not_true, Bool.false_eq_true, ↓reduceIte, List.filter_cons, List.map_cons]
      by_cases hskip : off > 0 ∧ seen + 1 ≤ off
      · rw [if_pos hskip]
        have hout0 : out = [] := hso (by omega)
        subst hout0
        rw [ih (seen + 1) [] hout (by simp) (by simp)]
        have : off - seen = (off - (seen + 1)) + 1 := by omega
        rw [this, List.drop_succ_cons]
      · rw [if_neg hskip]
        have hd0 : off - seen = 0 := by omega
        rw [hd0, List.drop_zero]
        by_cases hstop : lim > 0 ∧ (id :: out).length ≥ lim
        · rw [if_pos hstop]
          have hl : lim - out.length = 1 := by
            rcases hout with h | h
            · omega
            · simp at hstop; omega
          have hlim0 : ¬ (lim = 0) := by omega
          simp [takeLim, hlim0, hl]
        · rw [if_neg hstop]
          rw [ih (seen + 1) (id :: out) (by simp at hstop ⊢; omega) (by intro _; omega) (by intro h; omega)]
          have hd1 : off - (seen + 1) = 0 := by omega
          rw [hd1, List.drop_zero]
          by_cases hlim0 : lim = 0
          · simp [takeLim, hlim0]
          · have : lim - out.length = (lim - (id :: out).length) + 1 := by simp at hstop ⊢; omega
            simp only [takeLim, hlim0, ↓reduceIte]
            have h1 : ¬ (lim - out.length = 0) := by omega
            have h2 : ¬ (lim - (id :: out).length = 0) := by simp at hstop ⊢; omega
            simp only [h1, h2, ↓reduceIte, this, List.take_succ_cons]
            simp

end Syzgy
