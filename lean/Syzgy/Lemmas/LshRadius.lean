import Syzgy.Lemmas.LshComplete
/-!
# Covering-radius completeness of the approximate search

Geometry enters as one hypothesis (`FarSound`): a document on the far side of a hyperplane is at least
as far from the query as the hyperplane is. Under it, a radius search whose radius covers every listed
document prunes only empty leaves, never counts a miss, and so returns every accepted document.
-/
namespace Syzgy.Lsh

/-- at every node: the hyperplane is within the search radius (its far side is never pruned), or every
    document below the far child is at least the hyperplane's distance away from the query -/
def FarSound (R : Nat) (lookup : Nat → Option Cand) (hpDist : H → Nat) (hpRight : H → Bool) : Tree → Prop
  | .leaf _ => True
  | .node h l r =>
    (hpDist h ≤ R ∨ ∀ id ∈ (if hpRight h then l else r).ids, ∀ c, lookup id = some c → hpDist h ≤ c.dist) ∧
    FarSound R lookup hpDist hpRight l ∧ FarSound R lookup hpDist hpRight r

/-- local state of a covering radius search -/
structure RLoc (R : Nat) (lookup : Nat → Option Cand) (s : LoopSt) : Prop where
  notStopped : s.stopped = false
  k0 : s.kCounter = 0
  rad : s.radius = R
  kept : ∀ id ∈ s.visited, ∀ c, lookup id = some c → c.acc = true → c ∈ s.st.heap

theorem visitLeaf_radius (K R : Nat) (hR : 0 < R) (lookup : Nat → Option Cand) (ids : List Nat) (s : LoopSt)
    (hlive : ∀ id ∈ ids, ∃ c, lookup id = some c ∧ c.dist ≤ R) (hp : RLoc R lookup s) :
    RLoc R lookup (visitLeaf K R lookup ids s) ∧ (visitLeaf K R lookup ids s).pq = s.pq ∧
    (∀ id ∈ ids, id ∈ (visitLeaf K R lookup ids s).visited) ∧
    (∀ id ∈ s.visited, id ∈ (visitLeaf K R lookup ids s).visited) := by
  induction ids generalizing s with
  | nil => exact ⟨hp, rfl, by simp, fun _ h => h⟩
  | cons id rest ih =>
    have hrest : ∀ x ∈ rest, ∃ c, lookup x = some c ∧ c.dist ≤ R := fun x hx => hlive x (by simp [hx])
    unfold visitLeaf
    split
    · rename_i hv
      have hv' : id ∈ s.visited := by simpa using hv
      obtain ⟨h1, h2, h3, h4⟩ := ih s hrest hp
      refine ⟨h1, h2, ?_, h4⟩
      intro x hx
      rcases List.mem_cons.mp hx with rfl | hx
      · exact h4 _ hv'
      · exact h3 x hx
    · obtain ⟨c, hc, hd⟩ := hlive id (by simp)
      simp only
      by_cases hacc : c.acc = true
      · have hcons : consider K R lookup s.st id s.radius =
            (.accepted, s.radius, { heap := insDesc c s.st.heap, searched := s.st.searched + 1 }) := by
          simp [consider, hc, hacc, hR, hd]
        rw [hcons]
        simp only
        have hp' : RLoc R lookup { s with visited := id :: s.visited, kCounter := 0, accepted := true, radius := s.radius, st := { heap := insDesc c s.st.heap, searched := s.st.searched + 1 } } := by
          refine ⟨hp.notStopped, rfl, hp.rad, ?_⟩
          intro x hx c' hc' ha'
          simp only [insDesc_mem]
          rcases List.mem_cons.mp hx with rfl | hx
          · rw [hc] at hc'; cases hc'; exact Or.inl rfl
          · exact Or.inr (hp.kept x hx c' hc' ha')
        obtain ⟨h1, h2, h3, h4⟩ := ih _ hrest hp'
        refine ⟨h1, h2, ?_, ?_⟩
        · intro x hx
          rcases List.mem_cons.mp hx with rfl | hx
          · exact h4 _ (by simp)
          · exact h3 x hx
        · intro x hx
          exact h4 x (by simp [hx])
      · have hacc' : c.acc = false := by simpa using hacc
        have hcons : consider K R lookup s.st id s.radius =
            (.ignored, s.radius, { s.st with searched := s.st.searched + 1 }) := by
          simp [consider, hc, hacc']
        rw [hcons]
        simp only
        have hp' : RLoc R lookup { s with visited := id :: s.visited, radius := s.radius, st := { s.st with searched := s.st.searched + 1 } } := by
          refine ⟨hp.notStopped, hp.k0, hp.rad, ?_⟩
          intro x hx c' hc' ha'
          rcases List.mem_cons.mp hx with rfl | hx
          · rw [hc] at hc'; cases hc'; rw [hacc'] at ha'; cases ha'
          · exact hp.kept x hx c' hc' ha'
        obtain ⟨h1, h2, h3, h4⟩ := ih _ hrest hp'
        refine ⟨h1, h2, ?_, ?_⟩
        · intro x hx
          rcases List.mem_cons.mp hx with rfl | hx
          · exact h4 _ (by simp)
          · exact h3 x hx
        · intro x hx
          exact h4 x (by simp [hx])


structure RInv (R : Nat) (lookup : Nat → Option Cand) (hpDist : H → Nat) (hpRight : H → Bool) (all : List Nat)
    (fuel : Nat) (s : LoopSt) : Prop where
  loc : RLoc R lookup s
  cover : ∀ id ∈ all, id ∈ s.visited ∨ id ∈ pqIds s.pq
  live : ∀ id ∈ pqIds s.pq, ∃ c, lookup id = some c ∧ c.dist ≤ R
  far : ∀ x ∈ s.pq.toList, FarSound R lookup hpDist hpRight x.node ∧
    (x.prio < 0 → (-x.prio ≤ (R : Int) ∨ ∀ id ∈ x.node.ids, ∀ c, lookup id = some c → -x.prio ≤ (c.dist : Int)))
  fuel : pqMeasure s.pq < fuel

theorem searchLoop_radius (searchK K R : Nat) (hR : 0 < R) (hsK : 0 < searchK) (lookup : Nat → Option Cand)
    (hpDist : H → Nat) (hpRight : H → Bool) (all : List Nat)
    (fuel : Nat) (s : LoopSt) (inv : RInv R lookup hpDist hpRight all fuel s) :
    ∀ id ∈ all, ∀ c, lookup id = some c → c.acc = true →
      c ∈ (searchLoop searchK K R lookup hpDist hpRight fuel s).st.heap := by
  induction fuel generalizing s with
  | zero => have := inv.fuel; omega
  | succ f ih =>
    unfold searchLoop
    rw [if_neg (by simp [inv.loc.notStopped])]
    rcases hpop_spec s.pq with ⟨h0, hnone⟩ | ⟨item, pq', hsome, hperm⟩
    · rw [hnone]
      intro id hid c hc hacc
      rcases inv.cover id hid with hv | hq
      · exact inv.loc.kept id hv c hc hacc
      · have : s.pq.toList = [] := by
          have := Array.size_eq_zero_iff.mp h0
          simp [this]
        simp [pqIds, this] at hq
    · rw [hsome]
      simp only
      have hitem_mem : item ∈ s.pq.toList := (mem_perm_toList hperm item).mpr (by simp)
      have hmeas : pqMeasure s.pq = pqMeasure pq' + item.node.size := by
        rw [pqMeasure_perm hperm, pqMeasure_push]
      have hids : ∀ id, id ∈ pqIds s.pq ↔ (id ∈ pqIds pq' ∨ id ∈ item.node.ids) := by
        intro id; rw [pqIds_perm hperm, pqIds_push]
      have hfar' : ∀ x ∈ pq'.toList, FarSound R lookup hpDist hpRight x.node ∧
          (x.prio < 0 → (-x.prio ≤ (R : Int) ∨ ∀ id ∈ x.node.ids, ∀ c, lookup id = some c → -x.prio ≤ (c.dist : Int))) := by
        intro x hx
        exact inv.far x ((mem_perm_toList hperm x).mpr (by simp [hx]))
      have hloc' : RLoc R lookup { s with pq := pq' } :=
        ⟨inv.loc.notStopped, inv.loc.k0, inv.loc.rad, inv.loc.kept⟩
      obtain ⟨hfs, hfp⟩ := inv.far item hitem_mem
      cases hnode : item.node with
      | leaf ids =>
        simp only
        have hlive : ∀ id ∈ ids, ∃ c, lookup id = some c ∧ c.dist ≤ R := by
          intro id hid
          exact inv.live id ((hids id).mpr (Or.inr (by rw [hnode]; exact hid)))
        split
        · -- pruned: a far-side leaf beyond the radius holds no document within the radius, hence none at all
          rename_i hcnd
          apply ih
          refine ⟨hloc', ?_, ?_, hfar', ?_⟩
          · intro id hid
            rcases inv.cover id hid with hv | hq
            · exact Or.inl hv
            · rcases (hids id).mp hq with hq | hq
              · exact Or.inr hq
              · exfalso
                rw [hnode] at hq
                obtain ⟨c, hc, hd⟩ := hlive id hq
                have h2 := hcnd.2.1
                rw [inv.loc.rad] at h2
                rcases hfp hcnd.1 with h3 | h3
                · omega
                · have := h3 id (by rw [hnode]; exact hq) c hc
                  omega
          · intro id hid
            exact inv.live id ((hids id).mpr (Or.inl hid))
          · have := inv.fuel
            have hsz : item.node.size = 1 := by rw [hnode]; rfl
            show pqMeasure pq' < f
            omega
        split
        · rename_i hk
          exfalso
          rw [inv.loc.k0] at hk
          omega
        obtain ⟨h1, h2, h3, h4⟩ := visitLeaf_radius K R hR lookup ids { s with pq := pq' } hlive hloc'
        apply ih
        refine ⟨h1, ?_, ?_, ?_, ?_⟩
        · intro id hid
          rcases inv.cover id hid with hv | hq
          · exact Or.inl (h4 id hv)
          · rcases (hids id).mp hq with hq | hq
            · right; rw [h2]; exact hq
            · left; rw [hnode] at hq; exact h3 id hq
        · intro id hid
          rw [h2] at hid
          exact inv.live id ((hids id).mpr (Or.inl hid))
        · rw [h2]; exact hfar'
        · rw [h2]
          have := inv.fuel
          have hsz : item.node.size = 1 := by rw [hnode]; rfl
          show pqMeasure pq' < f
          omega
      | node h l r =>
        simp only
        split
        · rename_i hcnd
          exfalso
          have := hcnd.2.2
          simp at this
        split
        · rename_i hk
          exfalso
          rw [inv.loc.k0] at hk
          omega
        apply ih
        have hq : ∀ x1 x2 : PQItem, (hpush (hpush pq' x1) x2).Perm ((pq'.push x1).push x2) := fun x1 x2 =>
          (hpush_perm _ _).trans (Array.Perm.push x2 (hpush_perm _ _))
        have hsz : item.node.size = 1 + l.size + r.size := by rw [hnode]; rfl
        have hidn : ∀ id, id ∈ item.node.ids ↔ (id ∈ l.ids ∨ id ∈ r.ids) := by
          intro id; rw [hnode]; simp [Tree.ids]
        rw [hnode] at hfs
        obtain ⟨hfarh, hfl, hfr⟩ := hfs
        by_cases hr : hpRight h = true
        · simp only [hr, ↓reduceIte] at hfarh ⊢
          have hpm := hq { node := r, prio := (hpDist h : Int) } { node := l, prio := -(hpDist h : Int) }
          refine ⟨⟨inv.loc.notStopped, inv.loc.k0, inv.loc.rad, inv.loc.kept⟩, ?_, ?_, ?_, ?_⟩
          · intro id hid
            rcases inv.cover id hid with hv | hq'
            · exact Or.inl hv
            · right
              simp only
              rw [pqIds_perm hpm, pqIds_push, pqIds_push]
              rcases (hids id).mp hq' with h1 | h1
              · exact Or.inl (Or.inl h1)
              · rcases (hidn id).mp h1 with h2 | h2
                · exact Or.inr h2
                · exact Or.inl (Or.inr h2)
          · intro id hid
            simp only at hid
            rw [pqIds_perm hpm, pqIds_push, pqIds_push] at hid
            apply inv.live id
            rw [hids id]
            rcases hid with (h1 | h1) | h1
            · exact Or.inl h1
            · exact Or.inr ((hidn id).mpr (Or.inr h1))
            · exact Or.inr ((hidn id).mpr (Or.inl h1))
          · intro x hx
            simp only at hx
            rw [mem_perm_toList hpm] at hx
            simp only [Array.toList_push, List.mem_append, List.mem_singleton] at hx
            rcases hx with (hx | rfl) | rfl
            · exact hfar' x hx
            · exact ⟨hfr, fun hneg => by simp only at hneg; omega⟩
            · refine ⟨hfl, fun _ => ?_⟩
              rcases hfarh with h3 | h3
              · left; simp only; omega
              · right
                intro id hid c hc
                have := h3 id hid c hc
                simp only; omega
          · simp only
            rw [pqMeasure_perm hpm, pqMeasure_push, pqMeasure_push]
            have := inv.fuel
            simp only
            omega
        · simp only [hr, Bool.false_eq_true, ↓reduceIte] at hfarh ⊢
          have hpm := hq { node := l, prio := (hpDist h : Int) } { node := r, prio := -(hpDist h : Int) }
          refine ⟨⟨inv.loc.notStopped, inv.loc.k0, inv.loc.rad, inv.loc.kept⟩, ?_, ?_, ?_, ?_⟩
          · intro id hid
            rcases inv.cover id hid with hv | hq'
            · exact Or.inl hv
            · right
              simp only
              rw [pqIds_perm hpm, pqIds_push, pqIds_push]
              rcases (hids id).mp hq' with h1 | h1
              · exact Or.inl (Or.inl h1)
              · rcases (hidn id).mp h1 with h2 | h2
                · exact Or.inl (Or.inr h2)
                · exact Or.inr h2
          · intro id hid
            simp only at hid
            rw [pqIds_perm hpm, pqIds_push, pqIds_push] at hid
            apply inv.live id
            rw [hids id]
            rcases hid with (h1 | h1) | h1
            · exact Or.inl h1
            · exact Or.inr ((hidn id).mpr (Or.inl h1))
            · exact Or.inr ((hidn id).mpr (Or.inr h1))
          · intro x hx
            simp only at hx
            rw [mem_perm_toList hpm] at hx
            simp only [Array.toList_push, List.mem_append, List.mem_singleton] at hx
            rcases hx with (hx | rfl) | rfl
            · exact hfar' x hx
            · exact ⟨hfl, fun hneg => by simp only at hneg; omega⟩
            · refine ⟨hfr, fun _ => ?_⟩
              rcases hfarh with h3 | h3
              · left; simp only; omega
              · right
                intro id hid c hc
                have := h3 id hid c hc
                simp only; omega
          · simp only
            rw [pqMeasure_perm hpm, pqMeasure_push, pqMeasure_push]
            have := inv.fuel
            simp only
            omega

/-- **covering-radius completeness.** Every listed id is live and within the radius `R > 0` of the query
    (a radius that covers the collection), and at every node either the hyperplane lies within the radius or
    the geometry is sound (`FarSound`: documents on the far side are at least as far as the hyperplane). Then the default-precision radius
    search returns every listed document that passes the filter — for every forest shape, every
    `search_k > 0`, any K. (That each is returned once, in order, with its true distance, is `search_sound`.) -/
theorem radius_complete (searchK K R maxRadius : Nat) (hR : 0 < R) (hsK : 0 < searchK) (forest : List Tree)
    (lookup : Nat → Option Cand) (hpDist : H → Nat) (hpRight : H → Bool)
    (hlive : ∀ t ∈ forest, ∀ id ∈ t.ids, ∃ c, lookup id = some c ∧ c.dist ≤ R)
    (hgeo : ∀ t ∈ forest, FarSound R lookup hpDist hpRight t) :
    ∀ t ∈ forest, ∀ id ∈ t.ids, ∀ c, lookup id = some c → c.acc = true →
      c ∈ (search searchK K R maxRadius forest lookup hpDist hpRight).1 := by
  let s0 : LoopSt :=
    { pq := forest.foldl (fun a t => hpush a { node := t, prio := 0 }) #[], visited := [], kCounter := 0,
      accepted := false, radius := R, st := { heap := [], searched := 0 } }
  have hperm := initPq_perm forest #[]
  simp only [Array.empty_append] at hperm
  have hids : ∀ id, id ∈ pqIds s0.pq ↔ ∃ t ∈ forest, id ∈ t.ids := by
    intro id
    rw [pqIds_perm hperm]
    simp only [pqIds, List.mem_flatMap, List.mem_map]
    constructor
    · rintro ⟨a, ⟨t, ht, rfl⟩, hi⟩
      exact ⟨t, ht, hi⟩
    · rintro ⟨t, ht, hi⟩
      exact ⟨_, ⟨t, ht, rfl⟩, hi⟩
  have hinv : RInv R lookup hpDist hpRight (forest.flatMap Tree.ids) ((forest.map Tree.size).sum + 1) s0 := by
    refine ⟨⟨rfl, rfl, rfl, by simp [s0]⟩, ?_, ?_, ?_, ?_⟩
    · intro id hid
      right
      rw [hids]
      simpa using hid
    · intro id hid
      obtain ⟨t, ht, hi⟩ := (hids id).mp hid
      exact hlive t ht id hi
    · intro x hx
      rw [mem_perm_toList hperm] at hx
      simp only [List.mem_map] at hx
      obtain ⟨t, ht, rfl⟩ := hx
      exact ⟨hgeo t ht, fun hneg => by simp at hneg⟩
    · rw [pqMeasure_perm hperm]
      simp only [pqMeasure, List.map_map]
      have : (fun x => x.node.size) ∘ (fun t => ({ node := t, prio := 0 } : PQItem)) = Tree.size := rfl
      rw [this]
      omega
  have key := searchLoop_radius searchK K R hR hsK lookup hpDist hpRight _ _ s0 hinv
  intro t ht id hid c hc hacc
  have := key id (by simp only [List.mem_flatMap]; exact ⟨t, ht, hid⟩) c hc hacc
  have hres : (search searchK K R maxRadius forest lookup hpDist hpRight).1 =
      (searchLoop searchK K R lookup hpDist hpRight ((forest.map Tree.size).sum + 1) s0).st.heap.reverse := by
    simp [search, s0, hR]
  rw [hres]
  simpa using this

end Syzgy.Lsh
