/-!
# Linearizability of calls that are critical sections of one reader/writer lock

Any number of threads, each issuing a sequence of calls. A call is a critical section under the
collection lock — in write mode (`Lock`) or read mode (`RLock`) — made of any number of atomic
micro-steps that read and (writers only) change the shared state `S` and a call-local state `L`; its
result is a function of the final local state. Threads interleave at micro-step granularity, subject to
reader/writer exclusion. Theorem: every execution is equivalent to running the calls one at a time,
atomically, in the order in which they acquired the lock: same final state, same result for every
call; each thread's calls keep their program order, and the order extends real time (a call is placed
at its acquisition, which lies between its invocation and its response).
-/
namespace Syzgy.Lin

variable {S L Ret : Type}

structure Call (S L Ret : Type) where
  writer : Bool
  steps : List (L → S → L × S)
  init : L
  ret : L → Ret

def ReadOnlySteps (fs : List (L → S → L × S)) : Prop := ∀ f ∈ fs, ∀ l s, (f l s).2 = s

/-- a reader call does not change the shared state -/
def Call.WF (c : Call S L Ret) : Prop := c.writer = false → ReadOnlySteps c.steps

def runSteps : List (L → S → L × S) → L → S → L × S
  | [], l, s => (l, s)
  | f :: fs, l, s => runSteps fs (f l s).1 (f l s).2

/-- the call executed atomically -/
def Call.atomic (c : Call S L Ret) (s : S) : Ret × S :=
  (c.ret (runSteps c.steps c.init s).1, (runSteps c.steps c.init s).2)

structure Thr (S L Ret : Type) where
  todo : List (Call S L Ret)
  cur : Option (Call S L Ret × List (L → S → L × S) × L)
  results : List Ret

structure Conf (S L Ret : Type) where
  σ : S
  thr : Nat → Thr S L Ret
  log : List (Nat × Call S L Ret)

def upd (f : Nat → Thr S L Ret) (i : Nat) (t : Thr S L Ret) : Nat → Thr S L Ret := fun j => if j = i then t else f j

theorem upd_same (f : Nat → Thr S L Ret) (i : Nat) (t : Thr S L Ret) : upd f i t i = t := by simp [upd]
theorem upd_other (f : Nat → Thr S L Ret) (i j : Nat) (t : Thr S L Ret) (h : j ≠ i) : upd f i t j = f j := by simp [upd, h]

def writing (k : Conf S L Ret) (i : Nat) : Prop := ∃ c fs l, (k.thr i).cur = some (c, fs, l) ∧ c.writer = true

inductive Step : Conf S L Ret → Conf S L Ret → Prop
  | acqW (k : Conf S L Ret) (i : Nat) (c : Call S L Ret) (rest : List (Call S L Ret)) :
      (k.thr i).cur = none → (k.thr i).todo = c :: rest → c.writer = true → (∀ j, (k.thr j).cur = none) →
      Step k { σ := k.σ, thr := upd k.thr i { todo := rest, cur := some (c, c.steps, c.init), results := (k.thr i).results }, log := k.log ++ [(i, c)] }
  | acqR (k : Conf S L Ret) (i : Nat) (c : Call S L Ret) (rest : List (Call S L Ret)) :
      (k.thr i).cur = none → (k.thr i).todo = c :: rest → c.writer = false → (∀ j, ¬ writing k j) →
      Step k { σ := k.σ, thr := upd k.thr i { todo := rest, cur := some (c, c.steps, c.init), results := (k.thr i).results }, log := k.log ++ [(i, c)] }
  | micro (k : Conf S L Ret) (i : Nat) (c : Call S L Ret) (f : L → S → L × S) (fs : List (L → S → L × S)) (l : L) :
      (k.thr i).cur = some (c, f :: fs, l) →
      Step k { σ := (f l k.σ).2, thr := upd k.thr i { todo := (k.thr i).todo, cur := some (c, fs, (f l k.σ).1), results := (k.thr i).results }, log := k.log }
  | rel (k : Conf S L Ret) (i : Nat) (c : Call S L Ret) (l : L) :
      (k.thr i).cur = some (c, [], l) →
      Step k { σ := k.σ, thr := upd k.thr i { todo := (k.thr i).todo, cur := none, results := (k.thr i).results ++ [c.ret l] }, log := k.log }

inductive Reach (k0 : Conf S L Ret) : Conf S L Ret → Prop
  | refl : Reach k0 k0
  | step {k k' : Conf S L Ret} : Reach k0 k → Step k k' → Reach k0 k'

def initConf (σ0 : S) (progs : Nat → List (Call S L Ret)) : Conf S L Ret :=
  { σ := σ0, thr := fun i => { todo := progs i, cur := none, results := [] }, log := [] }

/-- the calls of a log run one at a time, atomically: final state and the result of each call -/
def replay : S → List (Nat × Call S L Ret) → S × List (Nat × Ret)
  | s, [] => (s, [])
  | s, (i, c) :: r => ((replay (c.atomic s).2 r).1, (i, (c.atomic s).1) :: (replay (c.atomic s).2 r).2)

theorem replay_append (s : S) (a b : List (Nat × Call S L Ret)) :
    replay s (a ++ b) = ((replay (replay s a).1 b).1, (replay s a).2 ++ (replay (replay s a).1 b).2) := by
  induction a generalizing s with
  | nil => simp [replay]
  | cons x a ih =>
    obtain ⟨i, c⟩ := x
    simp only [List.cons_append, replay, ih]

theorem runSteps_readonly (fs : List (L → S → L × S)) (h : ReadOnlySteps fs) (l : L) (s : S) : (runSteps fs l s).2 = s := by
  induction fs generalizing l s with
  | nil => rfl
  | cons f fs ih =>
    simp only [runSteps]
    rw [ih (fun g hg => h g (List.mem_cons_of_mem _ hg)), h f (List.mem_cons_self ..)]

/-- results the serial replay assigns to thread `i`, in order -/
def retsOf (σ0 : S) (log : List (Nat × Call S L Ret)) (i : Nat) : List Ret :=
  ((replay σ0 log).2.filter (fun p => p.1 = i)).map (·.2)

def callsOf (log : List (Nat × Call S L Ret)) (i : Nat) : List (Call S L Ret) :=
  (log.filter (fun p => p.1 = i)).map (·.2)

structure Inv (σ0 : S) (progs : Nat → List (Call S L Ret)) (k : Conf S L Ret) : Prop where
  wfTodo : ∀ i, ∀ c ∈ (k.thr i).todo, c.WF
  wfCur : ∀ i c fs l, (k.thr i).cur = some (c, fs, l) → c.writer = false → ReadOnlySteps fs
  excl : ∀ i, writing k i → ∀ j, j ≠ i → (k.thr j).cur = none
  prog : ∀ i, callsOf k.log i ++ (k.thr i).todo = progs i
  state : (∀ i, ¬ writing k i) → k.σ = (replay σ0 k.log).1
  idle : ∀ i, (k.thr i).cur = none → retsOf σ0 k.log i = (k.thr i).results
  busy : ∀ i c fs l, (k.thr i).cur = some (c, fs, l) →
    retsOf σ0 k.log i = (k.thr i).results ++ [c.ret (runSteps fs l k.σ).1] ∧
    (c.writer = true → (runSteps fs l k.σ).2 = (replay σ0 k.log).1)

theorem retsOf_append_same (σ0 : S) (log : List (Nat × Call S L Ret)) (i : Nat) (c : Call S L Ret) :
    retsOf σ0 (log ++ [(i, c)]) i = retsOf σ0 log i ++ [(c.atomic (replay σ0 log).1).1] := by
  simp [retsOf, replay_append, replay, List.filter_append]

theorem retsOf_append_other (σ0 : S) (log : List (Nat × Call S L Ret)) (i j : Nat) (c : Call S L Ret) (h : j ≠ i) :
    retsOf σ0 (log ++ [(i, c)]) j = retsOf σ0 log j := by
  have : ¬ i = j := fun e => h e.symm
  simp [retsOf, replay_append, replay, List.filter_append, this]

theorem callsOf_append_same (log : List (Nat × Call S L Ret)) (i : Nat) (c : Call S L Ret) :
    callsOf (log ++ [(i, c)]) i = callsOf log i ++ [c] := by
  simp [callsOf, List.filter_append]

theorem callsOf_append_other (log : List (Nat × Call S L Ret)) (i j : Nat) (c : Call S L Ret) (h : j ≠ i) :
    callsOf (log ++ [(i, c)]) j = callsOf log j := by
  have : ¬ i = j := fun e => h e.symm
  simp [callsOf, List.filter_append, this]

theorem replay_append_state (σ0 : S) (log : List (Nat × Call S L Ret)) (i : Nat) (c : Call S L Ret) :
    (replay σ0 (log ++ [(i, c)])).1 = (c.atomic (replay σ0 log).1).2 := by
  simp [replay_append, replay]

theorem init_inv (σ0 : S) (progs : Nat → List (Call S L Ret)) (hwf : ∀ i, ∀ c ∈ progs i, c.WF) :
    Inv σ0 progs (initConf σ0 progs) := by
  refine ⟨?_, ?_, ?_, ?_, ?_, ?_, ?_⟩
  · intro i c hc; exact hwf i c hc
  · intro i c fs l h; simp [initConf] at h
  · intro i ⟨c, fs, l, h, _⟩; simp [initConf] at h
  · intro i; simp [initConf, callsOf]
  · intro _; simp [initConf, replay]
  · intro i _; simp [initConf, retsOf, replay]
  · intro i c fs l h; simp [initConf] at h

theorem inv_step (σ0 : S) (progs : Nat → List (Call S L Ret)) (k k' : Conf S L Ret)
    (h : Inv σ0 progs k) (st : Step k k') : Inv σ0 progs k' := by
  cases st with
  | acqW i c rest hcur htodo hw hall =>
    have hnow : ∀ j, ¬ writing k j := fun j ⟨_, _, _, e, _⟩ => by rw [hall j] at e; cases e
    have hσ := h.state hnow
    have hcwf : c.WF := h.wfTodo i c (by rw [htodo]; simp)
    refine ⟨?_, ?_, ?_, ?_, ?_, ?_, ?_⟩
    · intro j c' hc'
      by_cases hj : j = i
      · subst hj; simp only [upd_same] at hc'; exact h.wfTodo j c' (by rw [htodo]; simp [hc'])
      · simp only [upd_other _ _ _ _ hj] at hc'; exact h.wfTodo j c' hc'
    · intro j c' fs l hc' hr
      by_cases hj : j = i
      · subst hj; simp only [upd_same, Option.some.injEq, Prod.mk.injEq] at hc'
        obtain ⟨rfl, rfl, rfl⟩ := hc'
        exact hcwf hr
      · simp only [upd_other _ _ _ _ hj] at hc'; rw [hall j] at hc'; cases hc'
    · intro j _ j' hj'
      by_cases hji : j' = i
      · subst hji
        -- then j ≠ i is the writer, but every other thread is idle
        rename_i hwj
        obtain ⟨c', fs, l, e, _⟩ := hwj
        have : j ≠ j' := fun e' => hj' e'.symm
        simp only [upd_other _ _ _ _ this] at e; rw [hall j] at e; cases e
      · simp only [upd_other _ _ _ _ hji]; exact hall j'
    · intro j
      by_cases hj : j = i
      · subst hj; simp only [upd_same, callsOf_append_same, List.append_assoc, List.singleton_append]
        rw [← htodo]; exact h.prog j
      · simp only [upd_other _ _ _ _ hj, callsOf_append_other _ _ _ _ hj]; exact h.prog j
    · intro hno
      exact absurd ⟨c, c.steps, c.init, by simp only [upd_same], hw⟩ (hno i)
    · intro j hj'
      by_cases hj : j = i
      · subst hj; simp only [upd_same] at hj'; cases hj'
      · simp only [upd_other _ _ _ _ hj] at hj' ⊢
        rw [retsOf_append_other _ _ _ _ _ hj]; exact h.idle j hj'
    · intro j c' fs l hc'
      by_cases hj : j = i
      · subst hj; simp only [upd_same, Option.some.injEq, Prod.mk.injEq] at hc'
        obtain ⟨rfl, rfl, rfl⟩ := hc'
        simp only [upd_same]
        rw [retsOf_append_same, h.idle j hcur, replay_append_state, ← hσ]
        exact ⟨rfl, fun _ => rfl⟩
      · simp only [upd_other _ _ _ _ hj] at hc'; rw [hall j] at hc'; cases hc'
  | acqR i c rest hcur htodo hr hnow =>
    have hσ := h.state hnow
    have hcwf : c.WF := h.wfTodo i c (by rw [htodo]; simp)
    have hro := hcwf hr
    have hsame : (replay σ0 (k.log ++ [(i, c)])).1 = (replay σ0 k.log).1 := by
      rw [replay_append_state]
      simp only [Call.atomic]
      exact runSteps_readonly _ hro _ _
    have hnow' : ∀ j, ¬ writing { σ := k.σ, thr := upd k.thr i { todo := rest, cur := some (c, c.steps, c.init), results := (k.thr i).results }, log := k.log ++ [(i, c)] } j := by
      intro j ⟨c', fs, l, e, hw'⟩
      by_cases hj : j = i
      · subst hj; simp only [upd_same, Option.some.injEq, Prod.mk.injEq] at e
        obtain ⟨rfl, _, _⟩ := e
        rw [hr] at hw'; cases hw'
      · simp only [upd_other _ _ _ _ hj] at e; exact hnow j ⟨c', fs, l, e, hw'⟩
    refine ⟨?_, ?_, ?_, ?_, ?_, ?_, ?_⟩
    · intro j c' hc'
      by_cases hj : j = i
      · subst hj; simp only [upd_same] at hc'; exact h.wfTodo j c' (by rw [htodo]; simp [hc'])
      · simp only [upd_other _ _ _ _ hj] at hc'; exact h.wfTodo j c' hc'
    · intro j c' fs l hc' hr'
      by_cases hj : j = i
      · subst hj; simp only [upd_same, Option.some.injEq, Prod.mk.injEq] at hc'
        obtain ⟨rfl, rfl, rfl⟩ := hc'
        exact hro
      · simp only [upd_other _ _ _ _ hj] at hc'; exact h.wfCur j c' fs l hc' hr'
    · intro j hwj; exact absurd hwj (hnow' j)
    · intro j
      by_cases hj : j = i
      · subst hj; simp only [upd_same, callsOf_append_same, List.append_assoc, List.singleton_append]
        rw [← htodo]; exact h.prog j
      · simp only [upd_other _ _ _ _ hj, callsOf_append_other _ _ _ _ hj]; exact h.prog j
    · intro _; rw [hsame]; exact hσ
    · intro j hj'
      by_cases hj : j = i
      · subst hj; simp only [upd_same] at hj'; cases hj'
      · simp only [upd_other _ _ _ _ hj] at hj' ⊢
        rw [retsOf_append_other _ _ _ _ _ hj]; exact h.idle j hj'
    · intro j c' fs l hc'
      by_cases hj : j = i
      · subst hj; simp only [upd_same, Option.some.injEq, Prod.mk.injEq] at hc'
        obtain ⟨rfl, rfl, rfl⟩ := hc'
        simp only [upd_same]
        rw [retsOf_append_same, h.idle j hcur, ← hσ]
        exact ⟨rfl, fun hw' => by rw [hr] at hw'; cases hw'⟩
      · simp only [upd_other _ _ _ _ hj] at hc' ⊢
        rw [retsOf_append_other _ _ _ _ _ hj, hsame]
        exact h.busy j c' fs l hc'
  | micro i c f fs l hcur =>
    by_cases hw : c.writer = true
    · -- a writer's micro-step: every other thread is idle
      have hothers := h.excl i ⟨c, f :: fs, l, hcur, hw⟩
      refine ⟨?_, ?_, ?_, ?_, ?_, ?_, ?_⟩
      · intro j c' hc'
        by_cases hj : j = i
        · subst hj; simp only [upd_same] at hc'; exact h.wfTodo j c' hc'
        · simp only [upd_other _ _ _ _ hj] at hc'; exact h.wfTodo j c' hc'
      · intro j c' fs' l' hc' hr'
        by_cases hj : j = i
        · subst hj; simp only [upd_same, Option.some.injEq, Prod.mk.injEq] at hc'
          obtain ⟨rfl, _, _⟩ := hc'
          rw [hw] at hr'; cases hr'
        · simp only [upd_other _ _ _ _ hj] at hc'; rw [hothers j hj] at hc'; cases hc'
      · intro j _ j' hj'
        by_cases hji : j' = i
        · subst hji
          rename_i hwj
          obtain ⟨c', fs', l', e, _⟩ := hwj
          have : j ≠ j' := fun e' => hj' e'.symm
          simp only [upd_other _ _ _ _ this] at e; rw [hothers j this] at e; cases e
        · simp only [upd_other _ _ _ _ hji]; exact hothers j' hji
      · intro j
        by_cases hj : j = i
        · subst hj; simp only [upd_same]; exact h.prog j
        · simp only [upd_other _ _ _ _ hj]; exact h.prog j
      · intro hno
        exact absurd ⟨c, fs, (f l k.σ).1, by simp only [upd_same], hw⟩ (hno i)
      · intro j hj'
        by_cases hj : j = i
        · subst hj; simp only [upd_same] at hj'; cases hj'
        · simp only [upd_other _ _ _ _ hj] at hj' ⊢; exact h.idle j hj'
      · intro j c' fs' l' hc'
        by_cases hj : j = i
        · subst hj; simp only [upd_same, Option.some.injEq, Prod.mk.injEq] at hc'
          obtain ⟨rfl, rfl, rfl⟩ := hc'
          simp only [upd_same]
          have := h.busy _ _ _ _ hcur
          simpa only [runSteps] using this
        · simp only [upd_other _ _ _ _ hj] at hc'; rw [hothers j hj] at hc'; cases hc'
    · -- a reader's micro-step leaves the shared state alone
      have hr : c.writer = false := by cases hc : c.writer <;> simp_all
      have hro := h.wfCur i c (f :: fs) l hcur hr
      have hσ : (f l k.σ).2 = k.σ := hro f (List.mem_cons_self ..) l k.σ
      have hwr : ∀ j, writing { σ := (f l k.σ).2, thr := upd k.thr i { todo := (k.thr i).todo, cur := some (c, fs, (f l k.σ).1), results := (k.thr i).results }, log := k.log } j ↔ writing k j := by
        intro j
        by_cases hj : j = i
        · subst hj
          constructor
          · rintro ⟨c', fs', l', e, hw'⟩
            simp only [upd_same, Option.some.injEq, Prod.mk.injEq] at e
            obtain ⟨rfl, _, _⟩ := e
            exact absurd hw' hw
          · rintro ⟨c', fs', l', e, hw'⟩
            rw [hcur] at e; simp only [Option.some.injEq, Prod.mk.injEq] at e
            obtain ⟨rfl, _, _⟩ := e
            exact absurd hw' hw
        · simp only [writing, upd_other _ _ _ _ hj]
      refine ⟨?_, ?_, ?_, ?_, ?_, ?_, ?_⟩
      · intro j c' hc'
        by_cases hj : j = i
        · subst hj; simp only [upd_same] at hc'; exact h.wfTodo j c' hc'
        · simp only [upd_other _ _ _ _ hj] at hc'; exact h.wfTodo j c' hc'
      · intro j c' fs' l' hc' hr'
        by_cases hj : j = i
        · subst hj; simp only [upd_same, Option.some.injEq, Prod.mk.injEq] at hc'
          obtain ⟨rfl, rfl, rfl⟩ := hc'
          exact fun g hg => hro g (List.mem_cons_of_mem _ hg)
        · simp only [upd_other _ _ _ _ hj] at hc'; exact h.wfCur j c' fs' l' hc' hr'
      · intro j hwj j' hj'
        have hwj' := (hwr j).mp hwj
        by_cases hji : j' = i
        · subst hji
          have := h.excl j hwj' j' hj'
          rw [hcur] at this; cases this
        · simp only [upd_other _ _ _ _ hji]; exact h.excl j hwj' j' hj'
      · intro j
        by_cases hj : j = i
        · subst hj; simp only [upd_same]; exact h.prog j
        · simp only [upd_other _ _ _ _ hj]; exact h.prog j
      · intro hno
        simp only [hσ]
        exact h.state (fun j hwj => hno j ((hwr j).mpr hwj))
      · intro j hj'
        by_cases hj : j = i
        · subst hj; simp only [upd_same] at hj'; cases hj'
        · simp only [upd_other _ _ _ _ hj] at hj' ⊢; exact h.idle j hj'
      · intro j c' fs' l' hc'
        by_cases hj : j = i
        · subst hj; simp only [upd_same, Option.some.injEq, Prod.mk.injEq] at hc'
          obtain ⟨rfl, rfl, rfl⟩ := hc'
          simp only [upd_same]
          have := h.busy _ _ _ _ hcur
          simpa only [runSteps] using this
        · simp only [upd_other _ _ _ _ hj] at hc' ⊢
          simp only [hσ]
          exact h.busy j c' fs' l' hc'
  | rel i c l hcur =>
    have hb := h.busy i c [] l hcur
    simp only [runSteps] at hb
    have hwr : ∀ j, j ≠ i → (writing { σ := k.σ, thr := upd k.thr i { todo := (k.thr i).todo, cur := none, results := (k.thr i).results ++ [c.ret l] }, log := k.log } j ↔ writing k j) := by
      intro j hj; simp only [writing, upd_other _ _ _ _ hj]
    have hnoti : ¬ writing { σ := k.σ, thr := upd k.thr i { todo := (k.thr i).todo, cur := none, results := (k.thr i).results ++ [c.ret l] }, log := k.log } i := by
      rintro ⟨c', fs', l', e, _⟩; simp only [upd_same] at e; cases e
    refine ⟨?_, ?_, ?_, ?_, ?_, ?_, ?_⟩
    · intro j c' hc'
      by_cases hj : j = i
      · subst hj; simp only [upd_same] at hc'; exact h.wfTodo j c' hc'
      · simp only [upd_other _ _ _ _ hj] at hc'; exact h.wfTodo j c' hc'
    · intro j c' fs' l' hc' hr'
      by_cases hj : j = i
      · subst hj; simp only [upd_same] at hc'; cases hc'
      · simp only [upd_other _ _ _ _ hj] at hc'; exact h.wfCur j c' fs' l' hc' hr'
    · intro j hwj j' hj'
      by_cases hj : j = i
      · subst hj; exact absurd hwj hnoti
      · have hwj' := (hwr j hj).mp hwj
        by_cases hji : j' = i
        · subst hji; simp only [upd_same]
        · simp only [upd_other _ _ _ _ hji]; exact h.excl j hwj' j' hj'
    · intro j
      by_cases hj : j = i
      · subst hj; simp only [upd_same]; exact h.prog j
      · simp only [upd_other _ _ _ _ hj]; exact h.prog j
    · intro hno
      by_cases hw : c.writer = true
      · exact hb.2 hw
      · apply h.state
        intro j hwj
        by_cases hj : j = i
        · subst hj
          obtain ⟨c', fs', l', e, hw'⟩ := hwj
          rw [hcur] at e; simp only [Option.some.injEq, Prod.mk.injEq] at e
          obtain ⟨rfl, _, _⟩ := e
          exact hw hw'
        · exact hno j ((hwr j hj).mpr hwj)
    · intro j hj'
      by_cases hj : j = i
      · subst hj; simp only [upd_same]; exact hb.1
      · simp only [upd_other _ _ _ _ hj] at hj' ⊢; exact h.idle j hj'
    · intro j c' fs' l' hc'
      by_cases hj : j = i
      · subst hj; simp only [upd_same] at hc'; cases hc'
      · simp only [upd_other _ _ _ _ hj] at hc' ⊢; exact h.busy j c' fs' l' hc'

theorem inv_reach (σ0 : S) (progs : Nat → List (Call S L Ret)) (hwf : ∀ i, ∀ c ∈ progs i, c.WF)
    (k : Conf S L Ret) (r : Reach (initConf σ0 progs) k) : Inv σ0 progs k := by
  induction r with
  | refl => exact init_inv σ0 progs hwf
  | step _ st ih => exact inv_step σ0 progs _ _ ih st

/-- reachability from an arbitrary configuration -/
theorem log_grows (k k' : Conf S L Ret) (r : Reach k k') : k.log <+: k'.log := by
  induction r with
  | refl => exact List.prefix_refl _
  | step _ st ih =>
    cases st with
    | acqW i c rest _ _ _ _ => exact ih.trans (List.prefix_append _ _)
    | acqR i c rest _ _ _ _ => exact ih.trans (List.prefix_append _ _)
    | micro i c f fs l _ => exact ih
    | rel i c l _ => exact ih

/-- every thread has finished its program -/
def Done (k : Conf S L Ret) : Prop := ∀ i, (k.thr i).todo = [] ∧ (k.thr i).cur = none

/-- **Linearizability.** For every number of threads, all programs of well-formed calls and every
    interleaving: at the end the shared state is the state after running the calls one at a time,
    atomically, in lock-acquisition order; every call returned exactly what it returns in that serial
    run; and each thread's calls appear in that order in program order. -/
theorem linearizable (σ0 : S) (progs : Nat → List (Call S L Ret)) (hwf : ∀ i, ∀ c ∈ progs i, c.WF)
    (k : Conf S L Ret) (r : Reach (initConf σ0 progs) k) (hdone : Done k) :
    k.σ = (replay σ0 k.log).1 ∧ (∀ i, (k.thr i).results = retsOf σ0 k.log i) ∧ (∀ i, callsOf k.log i = progs i) := by
  have inv := inv_reach σ0 progs hwf k r
  refine ⟨?_, ?_, ?_⟩
  · apply inv.state
    rintro i ⟨c, fs, l, e, _⟩
    rw [(hdone i).2] at e; cases e
  · intro i; exact (inv.idle i (hdone i).2).symm
  · intro i
    have := inv.prog i
    rw [(hdone i).1, List.append_nil] at this
    exact this

/-- … and at every moment of every execution: the results returned so far are the serial results
    (a prefix of them while a call is in progress), and whenever no writer is inside its critical section
    the shared state is the serial state of the calls that have acquired the lock so far -/
theorem linearizable_at_every_moment (σ0 : S) (progs : Nat → List (Call S L Ret)) (hwf : ∀ i, ∀ c ∈ progs i, c.WF)
    (k : Conf S L Ret) (r : Reach (initConf σ0 progs) k) :
    (∀ i, (k.thr i).results <+: retsOf σ0 k.log i) ∧ ((∀ i, ¬ writing k i) → k.σ = (replay σ0 k.log).1) ∧
    (∀ i, writing k i → ∀ j, j ≠ i → (k.thr j).cur = none) := by
  have inv := inv_reach σ0 progs hwf k r
  refine ⟨?_, inv.state, inv.excl⟩
  intro i
  cases hc : (k.thr i).cur with
  | none => rw [inv.idle i hc]; exact List.prefix_refl _
  | some x =>
    obtain ⟨c, fs, l⟩ := x
    rw [(inv.busy i c fs l hc).1]
    exact List.prefix_append _ _

/-- **the serial order extends real time**: a call enters the order when it acquires the lock — after its
    invocation, before its response — and the order only grows at the end, so whatever had acquired
    (in particular: had returned) by some moment precedes everything that acquires later -/
theorem serial_order_extends_real_time (k k' : Conf S L Ret) (r : Reach k k') : k.log <+: k'.log :=
  log_grows k k' r

end Syzgy.Lin
