import Syzgy.Lemmas.Rest
/-!
# Sessions of the REST handler model: any sequence of requests
`serve` threads the served state through a list of requests (what the real server does with the
requests of one client, one after the other). The single-request theorem `handle_spec` is lifted to
every request history: every request of every session is answered, and the requests answered with a
status ≥ 300 can be erased from the history without changing the final state or any other answer.
-/
namespace Syzgy.Rest

structure Req where
  method : Bytes
  path : Bytes
  body : Body

/-- the responses to a list of requests, in order, and the state after the last one; a Go panic or an
    error outcome of any handler would end the session (and is shown below never to happen) -/
def serve : Server → List Req → Outcome (Server × List Resp)
  | s, [] => .ok (s, [])
  | s, q :: qs =>
    match handle s q.method q.path q.body with
    | .ok (s', r) =>
      match serve s' qs with
      | .ok (s'', rs) => .ok (s'', r :: rs)
      | .err m => .err m
      | .panic m => .panic m
    | .err m => .err m
    | .panic m => .panic m

/-- the requests of a session that were answered with a status below 300, given the answers -/
def accepted : List Req → List Resp → List Req
  | q :: qs, r :: rs => if r.status ≥ 300 then accepted qs rs else q :: accepted qs rs
  | _, _ => []

/-- the answers with a status below 300 -/
def acceptedResps (rs : List Resp) : List Resp := rs.filter (fun r => !decide (r.status ≥ 300))

theorem serve_cons_ok (s s' s'' : Server) (q : Req) (qs : List Req) (r : Resp) (rs : List Resp)
    (h1 : handle s q.method q.path q.body = .ok (s', r)) (h2 : serve s' qs = .ok (s'', rs)) :
    serve s (q :: qs) = .ok (s'', r :: rs) := by
  simp only [serve, h1, h2]

/-- every session is answered request by request: no handler outcome is a panic or an error, whatever
    the earlier requests did to the state -/
theorem serve_total (qs : List Req) : ∀ s : Server, ∃ s' rs, serve s qs = .ok (s', rs) ∧ rs.length = qs.length := by
  induction qs with
  | nil => intro s; exact ⟨s, [], rfl, rfl⟩
  | cons q qs ih =>
    intro s
    obtain ⟨s1, r, h1, _, _⟩ := handle_spec s q.method q.path q.body
    obtain ⟨s2, rs, h2, hl⟩ := ih s1
    exact ⟨s2, r :: rs, serve_cons_ok s s1 s2 q qs r rs h1 h2, by simp [hl]⟩

/-- inversion of `serve` on a non-empty session -/
theorem serve_cons_inv (s s'' : Server) (q : Req) (qs : List Req) (rs0 : List Resp)
    (h : serve s (q :: qs) = .ok (s'', rs0)) :
    ∃ s' r rs, handle s q.method q.path q.body = .ok (s', r) ∧ serve s' qs = .ok (s'', rs) ∧ rs0 = r :: rs := by
  obtain ⟨s1, r, h1, _, _⟩ := handle_spec s q.method q.path q.body
  obtain ⟨s2, rs, h2, _⟩ := serve_total qs s1
  have := serve_cons_ok s s1 s2 q qs r rs h1 h2
  rw [this] at h
  cases h
  exact ⟨s1, r, rs, h1, h2, rfl⟩

/-- **rejected requests leave no trace**: for every session, erasing the requests that were answered
    with a status ≥ 300 gives a session with the same final state whose answers are exactly the
    remaining answers of the original session -/
theorem rejected_erasable (qs : List Req) : ∀ (s s' : Server) (rs : List Resp),
    serve s qs = .ok (s', rs) → serve s (accepted qs rs) = .ok (s', acceptedResps rs) := by
  induction qs with
  | nil =>
    intro s s' rs h
    simp only [serve] at h
    cases h
    rfl
  | cons q qs ih =>
    intro s s' rs0 h
    obtain ⟨s1, r, rs, h1, h2, rfl⟩ := serve_cons_inv s s' q qs rs0 h
    by_cases hr : r.status ≥ 300
    · obtain ⟨s2, r2, h3, _, hno⟩ := handle_spec s q.method q.path q.body
      rw [h1] at h3
      cases h3
      have hs : s1 = s := hno hr
      subst hs
      have := ih s1 s' rs h2
      simpa [accepted, acceptedResps, hr] using this
    · have := ih s1 s' rs h2
      have hc := serve_cons_ok s s1 s' q (accepted qs rs) r (acceptedResps rs) h1 this
      simpa [accepted, acceptedResps, hr] using hc

/-- a session made of rejected requests only ends in the state it started from -/
theorem all_rejected_is_noop (qs : List Req) : ∀ (s s' : Server) (rs : List Resp),
    serve s qs = .ok (s', rs) → (∀ r ∈ rs, r.status ≥ 300) → s' = s := by
  induction qs with
  | nil => intro s s' rs h _; simp only [serve] at h; cases h; rfl
  | cons q qs ih =>
    intro s s' rs0 h hall
    obtain ⟨s1, r, rs, h1, h2, rfl⟩ := serve_cons_inv s s' q qs rs0 h
    obtain ⟨s2, r2, h3, _, hno⟩ := handle_spec s q.method q.path q.body
    rw [h1] at h3
    cases h3
    have hs : s1 = s := hno (hall r (by simp))
    subst hs
    exact ih s1 s' rs h2 (fun x hx => hall x (by simp [hx]))

/-- sessions compose: serving `qs₁ ++ qs₂` is serving `qs₁` and then `qs₂` from the state reached
    (so a restart — the identity on the served state — may fall between any two requests) -/
theorem serve_append (qs1 qs2 : List Req) : ∀ (s s1 s2 : Server) (rs1 rs2 : List Resp),
    serve s qs1 = .ok (s1, rs1) → serve s1 qs2 = .ok (s2, rs2) → serve s (qs1 ++ qs2) = .ok (s2, rs1 ++ rs2) := by
  induction qs1 with
  | nil => intro s s1 s2 rs1 rs2 h1 h2; simp only [serve] at h1; cases h1; simpa using h2
  | cons q qs ih =>
    intro s s1 s2 rs0 rs2 h1 h2
    obtain ⟨sa, r, rs, ha, hb, rfl⟩ := serve_cons_inv s s1 q qs rs0 h1
    have := ih sa s1 s2 rs rs2 hb h2
    exact serve_cons_ok s sa s2 q (qs ++ qs2) r (rs ++ rs2) ha this

/-- **frame over a session**: a session of `n` requests changes at most `n` collections — there is a
    list of at most `n` names outside of which every collection is what it was before the session -/
theorem session_frame (qs : List Req) : ∀ (s s' : Server) (rs : List Resp), serve s qs = .ok (s', rs) →
    ∃ touched : List Bytes, touched.length ≤ qs.length ∧ ∀ n, n ∉ touched → lookup s' n = lookup s n := by
  induction qs with
  | nil => intro s s' rs h; simp only [serve] at h; cases h; exact ⟨[], by simp, fun _ _ => rfl⟩
  | cons q qs ih =>
    intro s s' rs0 h
    obtain ⟨s1, r, rs, h1, h2, rfl⟩ := serve_cons_inv s s' q qs rs0 h
    obtain ⟨s2, r2, h3, eff, _⟩ := handle_spec s q.method q.path q.body
    rw [h1] at h3
    cases h3
    obtain ⟨t, hl, ht⟩ := ih s1 s' rs h2
    cases eff with
    | same => exact ⟨t, by simp; omega, ht⟩
    | put name c =>
      refine ⟨name :: t, by simp; omega, fun n hn => ?_⟩
      simp only [List.mem_cons, not_or] at hn
      rw [ht n hn.2, lookup_put_ne s name n c hn.1]
    | drop name =>
      refine ⟨name :: t, by simp; omega, fun n hn => ?_⟩
      simp only [List.mem_cons, not_or] at hn
      rw [ht n hn.2, lookup_remove_ne s name n hn.1]

end Syzgy.Rest
