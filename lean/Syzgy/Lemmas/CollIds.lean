import Syzgy.Lemmas.Coll
import Syzgy.Lemmas.Crash
/-!
# GetAllIDs and GetDocumentCount
-/
namespace Syzgy

theorem digitsAux_digits (fuel n : Nat) (acc : Bytes) (hacc : ∀ c ∈ acc, 48 ≤ c.toNat ∧ c.toNat ≤ 57) :
    ∀ c ∈ digitsAux fuel n acc, 48 ≤ c.toNat ∧ c.toNat ≤ 57 := by
  induction fuel generalizing n acc with
  | zero => simpa [digitsAux] using hacc
  | succ f ih =>
    have hd : 48 ≤ ((48 + n % 10).toUInt8).toNat ∧ ((48 + n % 10).toUInt8).toNat ≤ 57 := by
      rw [toUInt8_toNat]; omega
    have hacc' : ∀ c ∈ (48 + n % 10).toUInt8 :: acc, 48 ≤ c.toNat ∧ c.toNat ≤ 57 := by
      intro c hc
      rcases List.mem_cons.mp hc with rfl | hc
      · exact hd
      · exact hacc c hc
    simp only [digitsAux]
    split
    · exact hacc'
    · exact ih _ _ hacc'

theorem parseUint_foldl (f : Option Nat → UInt8 → Option Nat)
    (hf : ∀ v c, 48 ≤ c.toNat ∧ c.toNat ≤ 57 → f (some v) c = some (v * 10 + (c.toNat - 48)))
    (l : Bytes) (hl : ∀ c ∈ l, 48 ≤ c.toNat ∧ c.toNat ≤ 57) (a : Nat) :
    l.foldl f (some a) = some (l.foldl (fun v c => v * 10 + (c.toNat - 48)) a) := by
  induction l generalizing a with
  | nil => rfl
  | cons x xs ih =>
    have hx := hl x (by simp)
    simp only [List.foldl_cons, hf a x hx]
    exact ih (fun c hc => hl c (by simp [hc])) _

/-- `ParseUint(Sprintf("%d", id)) = id` for every uint64 -/
theorem parseUint_ridOf (id : Nat) (h : id < 18446744073709551616) : parseUint (ridOf id) = some id := by
  have hne := ridOf_ne_nil id
  have hdig : ∀ c ∈ ridOf id, 48 ≤ c.toNat ∧ c.toNat ≤ 57 := digitsAux_digits _ _ [] (by simp)
  unfold parseUint
  have : (ridOf id).isEmpty = false := by cases hr : ridOf id <;> simp_all
  simp only [this, Bool.false_eq_true, ↓reduceIte]
  rw [parseUint_foldl _ (by intro v c hc; simp [hc]) _ hdig 0]
  have hv := decVal_ridOf id
  simp only [decVal] at hv
  simp [hv, h]


/-! ## the index as a list: one entry per key -/

def KeysNodup (ix : List (Bytes × Nat)) : Prop := (ix.map (·.1)).Nodup

theorem keysNodup_idxDel (ix : List (Bytes × Nat)) (k : Bytes) (h : KeysNodup ix) : KeysNodup (idxDel ix k) := by
  unfold KeysNodup idxDel at *
  exact (List.Sublist.map _ List.filter_sublist).nodup h

theorem keysNodup_idxSet (ix : List (Bytes × Nat)) (k : Bytes) (v : Nat) (h : KeysNodup ix) : KeysNodup (idxSet ix k v) := by
  have hd := keysNodup_idxDel ix k h
  unfold KeysNodup idxSet at *
  simp only [List.map_cons, List.nodup_cons]
  refine ⟨?_, hd⟩
  intro hm
  simp only [idxDel, List.mem_map, List.mem_filter] at hm
  obtain ⟨e, ⟨_, he⟩, hk⟩ := hm
  simp [hk] at he

theorem writeRecord_index (s : SF) (rid : Bytes) (st : List Stream) (m : Mut) (h : writeRecord s rid st = .ok m) :
    ∃ off, m.st.index = idxSet s.index rid off := by
  unfold writeRecord at h
  cases hp : placeSpan s.file s.free s.seq rid st with
  | panic e => rw [hp] at h; cases h
  | err e => rw [hp] at h; cases h
  | ok p =>
    rw [hp] at h
    simp only at h
    cases hi : idxGet s.index rid with
    | none =>
      rw [hi] at h
      cases h
      exact ⟨_, rfl⟩
    | some old =>
      rw [hi] at h
      simp only at h
      cases hr : retireSpan p.file p.free old with
      | panic e => rw [hr] at h; cases h
      | err e => rw [hr] at h; cases h
      | ok r =>
        obtain ⟨f2, fr2⟩ := r
        rw [hr] at h
        cases h
        exact ⟨_, rfl⟩

theorem removeRecord_index (s : SF) (rid : Bytes) (m : Mut) (h : removeRecord s rid = .ok m) :
    m.st.index = idxDel s.index rid := by
  unfold removeRecord at h
  cases hi : idxGet s.index rid with
  | none => rw [hi] at h; cases h
  | some off =>
    rw [hi] at h
    simp only at h
    cases hr : retireSpan s.file s.free off with
    | panic e => rw [hr] at h; cases h
    | err e => rw [hr] at h; cases h
    | ok r =>
      obtain ⟨f1, fr1⟩ := r
      rw [hr] at h
      cases h
      rfl

/-- index keys are exactly the active record ids -/
theorem key_mem_iff (s : SF) (segs : List Seg) (h : Rep s segs) (r : Bytes) :
    r ∈ s.index.map (·.1) ↔ r ∈ actRids segs := by
  have h1 : r ∉ actRids segs ↔ ∀ e ∈ s.index, e.1 ≠ r := by
    rw [← findAct_none_iff r 0 segs, ← h.index r, idxGet_none_iff]
  constructor
  · intro hm
    by_cases hr : r ∈ actRids segs
    · exact hr
    · exfalso
      simp only [List.mem_map] at hm
      obtain ⟨e, he, hk⟩ := hm
      exact (h1.mp hr) e he hk
  · intro hr
    by_cases hm : r ∈ s.index.map (·.1)
    · exact hm
    · exfalso
      apply (h1.mpr ?_) hr
      intro e he hk
      exact hm (by simp only [List.mem_map]; exact ⟨e, he, hk⟩)


/-! ## sorting -/

theorem insertNat_perm (x : Nat) (l : List Nat) : (insertNat x l).Perm (x :: l) := by
  induction l with
  | nil => exact List.Perm.refl _
  | cons a r ih =>
    simp only [insertNat]
    split
    · exact List.Perm.refl _
    · exact (List.Perm.cons a ih).trans (List.Perm.swap x a r)

theorem sortNat_perm (l : List Nat) : (sortNat l).Perm l := by
  induction l with
  | nil => exact List.Perm.refl _
  | cons a r ih =>
    simp only [sortNat, List.foldr_cons]
    exact (insertNat_perm a _).trans (List.Perm.cons a ih)

theorem insertNat_sorted (x : Nat) (l : List Nat) (h : l.Pairwise (· ≤ ·)) : (insertNat x l).Pairwise (· ≤ ·) := by
  induction l with
  | nil => simp [insertNat]
  | cons a r ih =>
    simp only [insertNat]
    rw [List.pairwise_cons] at h
    split
    · rename_i hx
      rw [List.pairwise_cons]
      refine ⟨?_, List.pairwise_cons.mpr h⟩
      intro y hy
      rcases List.mem_cons.mp hy with rfl | hy
      · exact hx
      · exact Nat.le_trans hx (h.1 y hy)
    · rename_i hx
      rw [List.pairwise_cons]
      refine ⟨?_, ih h.2⟩
      intro y hy
      rcases List.mem_cons.mp ((insertNat_perm x r).mem_iff.mp hy) with rfl | hy
      · omega
      · exact h.1 y hy

theorem sortNat_sorted (l : List Nat) : (sortNat l).Pairwise (· ≤ ·) := by
  induction l with
  | nil => simp [sortNat]
  | cons a r ih =>
    simp only [sortNat, List.foldr_cons]
    exact insertNat_sorted a _ ih

/-! ## the collection invariant with the structure `GetAllIDs` and `GetDocumentCount` rely on -/

structure CRep2 (c : Coll) (segs : List Seg) (docs : DocStore) : Prop where
  base : CRep c segs docs
  keys : KeysNodup c.sf.index
  hdr : [] ∈ actRids segs
  only : ∀ r ∈ actRids segs, r = [] ∨ ∃ id, id < 18446744073709551616 ∧ r = ridOf id

theorem keys_inj (ix : List (Bytes × Nat)) (h : KeysNodup ix) (e e' : Bytes × Nat) (he : e ∈ ix) (he' : e' ∈ ix)
    (hk : e.1 = e'.1) : e = e' := by
  induction ix with
  | nil => simp at he
  | cons a r ih =>
    simp only [KeysNodup, List.map_cons, List.nodup_cons, List.mem_map, not_exists, not_and] at h
    obtain ⟨h1, h2⟩ := h
    rcases List.mem_cons.mp he with ha | hr
    · rcases List.mem_cons.mp he' with ha' | hr'
      · rw [ha, ha']
      · exfalso; exact h1 e' hr' (by rw [← hk, ha])
    · rcases List.mem_cons.mp he' with ha' | hr'
      · exfalso; exact h1 e hr (by rw [hk, ha'])
      · exact ih h2 hr hr'

def idOfEntry (e : Bytes × Nat) : Option Nat := if e.1.isEmpty then none else parseUint e.1

theorem getAllIDs_eq (c : Coll) : getAllIDs c = sortNat (c.sf.index.filterMap idOfEntry) := rfl

/-- which entries of the index are documents -/
theorem idOfEntry_spec (c : Coll) (segs : List Seg) (docs : DocStore) (h : CRep2 c segs docs) (e : Bytes × Nat)
    (he : e ∈ c.sf.index) :
    (e.1 = [] ∧ idOfEntry e = none) ∨ (∃ id, id < 18446744073709551616 ∧ e.1 = ridOf id ∧ idOfEntry e = some id) := by
  have hk : e.1 ∈ actRids segs := (key_mem_iff c.sf segs h.base.rep e.1).mp (by simp only [List.mem_map]; exact ⟨e, he, rfl⟩)
  rcases h.only e.1 hk with h0 | ⟨id, hid, hr⟩
  · left; exact ⟨h0, by simp [idOfEntry, h0]⟩
  · right
    refine ⟨id, hid, hr, ?_⟩
    have hne : e.1.isEmpty = false := by rw [hr]; cases hx : ridOf id <;> simp_all [ridOf_ne_nil]
    simp [idOfEntry, hr, parseUint_ridOf id hid, ridOf_ne_nil]

/-- **GetAllIDs lists exactly the stored ids** -/
theorem allIDs_mem (c : Coll) (segs : List Seg) (docs : DocStore) (h : CRep2 c segs docs) (id : Nat) :
    id ∈ getAllIDs c ↔ docs id ≠ none := by
  rw [getAllIDs_eq, (sortNat_perm _).mem_iff, List.mem_filterMap]
  have hst := h.base.stored id
  constructor
  · rintro ⟨e, he, hf⟩
    rcases idOfEntry_spec c segs docs h e he with ⟨_, hn⟩ | ⟨id', _, hr, hs⟩
    · rw [hn] at hf; cases hf
    · rw [hs] at hf; cases hf
      have hk : ridOf id ∈ actRids segs :=
        (key_mem_iff c.sf segs h.base.rep _).mp (by simp only [List.mem_map]; exact ⟨e, he, hr⟩)
      have : docOf (ridOf id) segs ≠ none := by rw [Ne, docOf_none_iff]; exact fun hh => hh hk
      rw [hst] at this
      intro hd; rw [hd] at this; exact this rfl
  · intro hd
    have : docOf (ridOf id) segs ≠ none := by
      rw [hst]; cases hx : docs id with
      | none => exact absurd hx hd
      | some d => simp
    have hk : ridOf id ∈ actRids segs := by
      by_cases hm : ridOf id ∈ actRids segs
      · exact hm
      · exact absurd ((docOf_none_iff _ _).mpr hm) this
    have hkey := (key_mem_iff c.sf segs h.base.rep _).mpr hk
    simp only [List.mem_map] at hkey
    obtain ⟨e, he, hek⟩ := hkey
    refine ⟨e, he, ?_⟩
    rcases idOfEntry_spec c segs docs h e he with ⟨h0, _⟩ | ⟨id', _, hr, hs⟩
    · rw [hek] at h0; exact absurd h0 (ridOf_ne_nil id)
    · rw [hek] at hr
      rw [hs, ridOf_inj hr]

/-- **GetAllIDs is ascending and lists no id twice** -/
theorem allIDs_sorted_nodup (c : Coll) (segs : List Seg) (docs : DocStore) (h : CRep2 c segs docs) :
    (getAllIDs c).Pairwise (· ≤ ·) ∧ (getAllIDs c).Nodup := by
  refine ⟨sortNat_sorted _, ?_⟩
  rw [getAllIDs_eq]
  apply (sortNat_perm _).nodup_iff.mpr
  have hnd : c.sf.index.Nodup := by
    have := h.keys
    unfold KeysNodup at this
    exact (List.pairwise_map.mp this).imp (fun hne e => hne (congrArg Prod.fst e))
  -- distinct entries give distinct ids
  have key : ∀ (l : List (Bytes × Nat)), (∀ e ∈ l, e ∈ c.sf.index) → l.Nodup → (l.filterMap idOfEntry).Nodup := by
    intro l hl hn
    induction l with
    | nil => simp
    | cons a r ih =>
      rw [List.nodup_cons] at hn
      have ihr := ih (fun e he => hl e (by simp [he])) hn.2
      simp only [List.filterMap_cons]
      cases ha : idOfEntry a with
      | none => exact ihr
      | some id =>
        simp only
        rw [List.nodup_cons]
        refine ⟨?_, ihr⟩
        intro hm
        rw [List.mem_filterMap] at hm
        obtain ⟨e, he, hf⟩ := hm
        have hae : a = e := by
          apply keys_inj c.sf.index h.keys a e (hl a (by simp)) (hl e (by simp [he]))
          rcases idOfEntry_spec c segs docs h a (hl a (by simp)) with ⟨_, hn⟩ | ⟨i1, _, hr1, hs1⟩
          · rw [hn] at ha; cases ha
          · rcases idOfEntry_spec c segs docs h e (hl e (by simp [he])) with ⟨_, hn⟩ | ⟨i2, _, hr2, hs2⟩
            · rw [hn] at hf; cases hf
            · rw [hs1] at ha; rw [hs2] at hf
              cases ha; cases hf
              rw [hr1, hr2]
        subst hae
        exact hn.1 he
  exact key c.sf.index (fun e he => he) hnd


theorem length_filterMap_all {α β : Type} (f : α → Option β) (l : List α) (h : ∀ e ∈ l, ∃ b, f e = some b) :
    (l.filterMap f).length = l.length := by
  induction l with
  | nil => rfl
  | cons a r ih =>
    obtain ⟨b, hb⟩ := h a (by simp)
    simp [List.filterMap_cons, hb, ih (fun e he => h e (by simp [he]))]

/-- **GetDocumentCount is the number of ids GetAllIDs lists** -/
theorem count_spec (c : Coll) (segs : List Seg) (docs : DocStore) (h : CRep2 c segs docs) :
    getCount c = ((getAllIDs c).length : Int) := by
  have hk := (key_mem_iff c.sf segs h.base.rep []).mpr h.hdr
  simp only [List.mem_map] at hk
  obtain ⟨e0, he0, hk0⟩ := hk
  obtain ⟨pre, post, hsplit⟩ := List.append_of_mem he0
  have hother : ∀ e ∈ pre ++ post, ∃ b, idOfEntry e = some b := by
    intro e he
    have hein : e ∈ c.sf.index := by
      rw [hsplit]; simp only [List.mem_append, List.mem_cons] at he ⊢
      rcases he with h1 | h1
      · exact Or.inl h1
      · exact Or.inr (Or.inr h1)
    rcases idOfEntry_spec c segs docs h e hein with ⟨h0, _⟩ | ⟨id, _, _, hs⟩
    · -- a second entry with the empty key contradicts key uniqueness
      exfalso
      have heq := keys_inj c.sf.index h.keys e e0 hein he0 (by rw [h0, hk0])
      have hnd : c.sf.index.Nodup := by
        have := h.keys
        unfold KeysNodup at this
        exact (List.pairwise_map.mp this).imp (fun hne e => hne (congrArg Prod.fst e))
      rw [hsplit] at hnd
      subst heq
      rw [List.nodup_append] at hnd
      simp only [List.nodup_cons, List.mem_cons] at hnd
      rcases List.mem_append.mp he with h1 | h1
      · exact hnd.2.2 e h1 e (Or.inl rfl) rfl
      · exact hnd.2.1.1 h1
    · exact ⟨id, hs⟩
  have hlen : (getAllIDs c).length = pre.length + post.length := by
    rw [getAllIDs_eq, (sortNat_perm _).length_eq, hsplit, List.filterMap_append, List.filterMap_cons]
    have h0 : idOfEntry e0 = none := by simp [idOfEntry, hk0]
    rw [h0]
    simp only [List.length_append]
    rw [length_filterMap_all _ pre (fun e he => hother e (by simp [he])),
      length_filterMap_all _ post (fun e he => hother e (by simp [he]))]
  unfold getCount
  rw [hlen, hsplit]
  simp only [List.length_append, List.length_cons]
  omega


/-! ## the invariant is kept by every document operation -/

theorem mem_actRids_iff (r : Bytes) (segs : List Seg) : r ∈ actRids segs ↔ docOf r segs ≠ none := by
  rw [Ne, docOf_none_iff]; exact ⟨fun h hn => hn h, fun h => Classical.byContradiction fun hn => h hn⟩

theorem addDocument_sf (c : Coll) (id : Nat) (codes : List Nat) (md : Bytes) (c' : Coll) (m : Mut)
    (h : addDocument c id codes md = .ok (c', m)) :
    writeRecord c.sf (ridOf id) [{ id := 0, data := md }, { id := 1, data := encodeCodes c.cfg.quant codes }] = .ok m ∧
    c'.sf = m.st := by
  unfold addDocument at h
  split at h
  · cases h
  · split at h
    · cases h
    · split at h
      · rename_i m' hw
        cases h
        exact ⟨hw, rfl⟩
      · cases h
      · cases h

/-- what a write does to the set of active ids and to the header, from the two refinement views of one state -/
theorem write_docOf (s : SF) (segs : List Seg) (h : Rep s segs) (rid : Bytes) (st : List Stream) (m : Mut)
    (hnew : NewOK s.seq rid st) (hbig : s.file.length + expandBy s.file.length (Seg.act s.seq rid st 0).size < 4294967296)
    (hw : writeRecord s rid st = .ok m) (segs' : List Seg) (hrep : Rep m.st segs') :
    ∀ r, docOf r segs' = if r = rid then some st else docOf r segs := by
  have key : ∃ m2 segs2, writeRecord s rid st = .ok m2 ∧ Rep m2.st segs2 ∧
      ∀ r, docOf r segs2 = if r = rid then some st else docOf r segs := by
    by_cases hd : docOf rid segs = none
    · obtain ⟨m2, segs2, h1, h2, h3, _⟩ := write_fresh s segs h rid st hnew hbig hd
      exact ⟨m2, segs2, h1, h2, h3⟩
    · obtain ⟨m2, segs2, _, h1, h2, h3, _⟩ := write_over s segs h rid st hnew hbig hd
      exact ⟨m2, segs2, h1, h2, h3⟩
  obtain ⟨m2, segs2, h1, h2, h3⟩ := key
  rw [hw] at h1
  cases h1
  intro r
  rw [rep_docOf_unique m.st segs' segs2 hrep h2 r]
  exact h3 r

/-- **AddDocument keeps the extended invariant** (ids are `uint64`) -/
theorem add_refines2 (c : Coll) (segs : List Seg) (docs : DocStore) (h : CRep2 c segs docs) (id : Nat)
    (hid : id < 18446744073709551616) (d : Doc) (hd : DocOK c.cfg d) (hf : DocFits c id d) :
    ∃ c' m segs', addDocument c id d.codes d.md = .ok (c', m) ∧ c'.cfg = c.cfg ∧
      CRep2 c' segs' (fun i => if i = id then some d else docs i) := by
  obtain ⟨c', m, segs', h1, h2, h3⟩ := add_refines c segs docs h.base id d hd hf
  obtain ⟨hw, hsf⟩ := addDocument_sf c id d.codes d.md c' m h1
  have hnew := docStreams_newOK c.sf.seq h.base.rep.seq c.cfg.quant d id hf.1
  have hrep' : Rep m.st segs' := by rw [← hsf]; exact h3.rep
  have hdoc := write_docOf c.sf segs h.base.rep (ridOf id) (docStreams c.cfg.quant d) m hnew hf.2 hw segs' hrep'
  obtain ⟨off, hix⟩ := writeRecord_index c.sf _ _ m hw
  refine ⟨c', m, segs', h1, h2, ⟨h3, ?_, ?_, ?_⟩⟩
  · rw [hsf, hix]; exact keysNodup_idxSet _ _ _ h.keys
  · rw [mem_actRids_iff, hdoc [], if_neg (fun e => ridOf_ne_nil id e.symm), ← mem_actRids_iff]; exact h.hdr
  · intro r hr
    rw [mem_actRids_iff, hdoc r] at hr
    by_cases hrr : r = ridOf id
    · exact Or.inr ⟨id, hid, hrr⟩
    · rw [if_neg hrr, ← mem_actRids_iff] at hr
      exact h.only r hr

theorem removeDocument_sf (c : Coll) (id : Nat) (c' : Coll) (m : Mut) (h : removeDocument c id = .ok (c', m)) :
    removeRecord c.sf (ridOf id) = .ok m ∧ c'.sf = m.st := by
  unfold removeDocument at h
  split at h
  · rename_i m' hw
    cases h
    exact ⟨hw, rfl⟩
  · cases h
  · cases h

/-- **removeDocument keeps the extended invariant** -/
theorem remove_refines2 (c : Coll) (segs : List Seg) (docs : DocStore) (h : CRep2 c segs docs) (id : Nat) (hd : docs id ≠ none) :
    ∃ c' m segs', removeDocument c id = .ok (c', m) ∧ c'.cfg = c.cfg ∧
      CRep2 c' segs' (fun i => if i = id then none else docs i) := by
  obtain ⟨c', m, segs', h1, h2, h3⟩ := (removeDoc_refines c segs docs h.base id).2 hd
  obtain ⟨hw, hsf⟩ := removeDocument_sf c id c' m h1
  have hne : docOf (ridOf id) segs ≠ none := by
    rw [h.base.stored id]; cases hx : docs id with
    | none => exact absurd hx hd
    | some d => simp
  obtain ⟨m2, segs2, e1, e2, e3, _⟩ := (remove_refines c.sf segs h.base.rep (ridOf id)).2 hne
  rw [hw] at e1; cases e1
  have hrep' : Rep m.st segs' := by rw [← hsf]; exact h3.rep
  have hdoc : ∀ r, docOf r segs' = if r = ridOf id then none else docOf r segs := by
    intro r; rw [rep_docOf_unique m.st segs' segs2 hrep' e2 r]; exact e3 r
  have hix := removeRecord_index c.sf _ m hw
  refine ⟨c', m, segs', h1, h2, ⟨h3, ?_, ?_, ?_⟩⟩
  · rw [hsf, hix]; exact keysNodup_idxDel _ _ h.keys
  · rw [mem_actRids_iff, hdoc [], if_neg (fun e => ridOf_ne_nil id e.symm), ← mem_actRids_iff]; exact h.hdr
  · intro r hr
    rw [mem_actRids_iff, hdoc r] at hr
    by_cases hrr : r = ridOf id
    · rw [if_pos hrr] at hr; exact absurd rfl hr
    · rw [if_neg hrr, ← mem_actRids_iff] at hr
      exact h.only r hr


/-- on a stored document `UpdateDocument` is `AddDocument` with the stored codes and the new metadata -/
theorem update_as_add (c : Coll) (segs : List Seg) (docs : DocStore) (h : CRep c segs docs) (id : Nat) (md : Bytes) (d : Doc)
    (hd : docs id = some d) (c' : Coll) (m : Mut) (ha : addDocument c id d.codes md = .ok (c', m)) :
    updateDocument c id md = .ok (c', m) := by
  have hr := read_refines c.sf segs h.rep (ridOf id)
  have hs := h.stored id
  rw [hd] at hs
  obtain ⟨sp, e1, _, e3⟩ := hr.2 _ hs
  obtain ⟨hw, hsf⟩ := addDocument_sf c id d.codes md c' m ha
  simp only [updateDocument, e1, e3, Option.map_some, docStreams, hw]
  have : c' = { c with sf := m.st } := by
    unfold addDocument at ha
    split at ha
    · cases ha
    · split at ha
      · cases ha
      · split at ha
        · rename_i m' hw'
          cases ha
          rfl
        · cases ha
        · cases ha
  rw [this]

/-- **UpdateDocument keeps the extended invariant** -/
theorem update_refines2 (c : Coll) (segs : List Seg) (docs : DocStore) (h : CRep2 c segs docs) (id : Nat)
    (hid : id < 18446744073709551616) (md : Bytes) (d : Doc) (hd : docs id = some d) (hf : DocFits c id { d with md := md }) :
    ∃ c' m segs', updateDocument c id md = .ok (c', m) ∧ c'.cfg = c.cfg ∧
      CRep2 c' segs' (fun i => if i = id then some { d with md := md } else docs i) := by
  have hok : DocOK c.cfg { d with md := md } := h.base.ok id d hd
  obtain ⟨c', m, segs', h1, h2, h3⟩ := add_refines2 c segs docs h id hid { d with md := md } hok hf
  exact ⟨c', m, segs', update_as_add c segs docs h.base id md d hd c' m h1, h2, h3⟩

/-! ## every sequence of document operations, with the listing operations -/

def DocOpFits2 (c : Coll) (m : DocStore) : DocOp → Prop
  | .add id d => id < 18446744073709551616 ∧ DocOK c.cfg d ∧ DocFits c id d
  | .update id md => id < 18446744073709551616 ∧ ∀ d, m id = some d → DocFits c id { d with md := md }
  | .remove _ => True

def DocFitsAll2 : Coll → DocStore → List DocOp → Prop
  | _, _, [] => True
  | c, m, op :: ops => DocOpFits2 c m op ∧ DocFitsAll2 (applyDocOp c op) (docSpec m op) ops

theorem docStep_refines2 (c : Coll) (segs : List Seg) (docs : DocStore) (h : CRep2 c segs docs) (op : DocOp)
    (hf : DocOpFits2 c docs op) :
    ∃ segs', CRep2 (applyDocOp c op) segs' (docSpec docs op) := by
  cases op with
  | add id d =>
    obtain ⟨c', m, segs', h1, _, h3⟩ := add_refines2 c segs docs h id hf.1 d hf.2.1 hf.2.2
    exact ⟨segs', by simpa [applyDocOp, docStep, h1, docSpec] using h3⟩
  | update id md =>
    cases hd : docs id with
    | none =>
      have := (update_refines c segs docs h.base id md).1 hd
      refine ⟨segs, ?_⟩
      have e : docSpec docs (.update id md) = docs := by
        funext i; simp only [docSpec]; split
        · rename_i hi; subst hi; simp [hd]
        · rfl
      simpa [applyDocOp, docStep, this, e] using h
    | some d =>
      obtain ⟨c', m, segs', h1, _, h3⟩ := update_refines2 c segs docs h id hf.1 md d hd (hf.2 d hd)
      refine ⟨segs', ?_⟩
      have e : docSpec docs (.update id md) = fun i => if i = id then some { d with md := md } else docs i := by
        funext i; simp only [docSpec]; split
        · simp [hd]
        · rfl
      simpa [applyDocOp, docStep, h1, e] using h3
  | remove id =>
    cases hd : docs id with
    | none =>
      have := (removeDoc_refines c segs docs h.base id).1 hd
      refine ⟨segs, ?_⟩
      have e : docSpec docs (.remove id) = docs := by
        funext i; simp only [docSpec]; split
        · rename_i hi; subst hi; simp [hd]
        · rfl
      simpa [applyDocOp, docStep, this, e] using h
    | some d =>
      obtain ⟨c', m, segs', h1, _, h3⟩ := remove_refines2 c segs docs h id (by simp [hd])
      exact ⟨segs', by simpa [applyDocOp, docStep, h1, docSpec] using h3⟩

theorem doc_run_refines2 (ops : List DocOp) (c : Coll) (segs : List Seg) (docs : DocStore) (h : CRep2 c segs docs)
    (hf : DocFitsAll2 c docs ops) :
    ∃ segs', CRep2 (ops.foldl applyDocOp c) segs' (ops.foldl docSpec docs) := by
  induction ops generalizing c segs docs with
  | nil => exact ⟨segs, h⟩
  | cons op ops ih =>
    obtain ⟨hf1, hf2⟩ := hf
    obtain ⟨segs', h1⟩ := docStep_refines2 c segs docs h op hf1
    exact ih _ segs' _ h1 hf2

/-- **GetAllIDs and GetDocumentCount after any sequence of operations**: the ids listed are exactly the
    ids the specification binds, in ascending order, each once, and the count is their number -/
theorem listing_after_run (ops : List DocOp) (c : Coll) (segs : List Seg) (docs : DocStore) (h : CRep2 c segs docs)
    (hf : DocFitsAll2 c docs ops) :
    (∀ id, id ∈ getAllIDs (ops.foldl applyDocOp c) ↔ ops.foldl docSpec docs id ≠ none) ∧
    (getAllIDs (ops.foldl applyDocOp c)).Pairwise (· ≤ ·) ∧ (getAllIDs (ops.foldl applyDocOp c)).Nodup ∧
    getCount (ops.foldl applyDocOp c) = ((getAllIDs (ops.foldl applyDocOp c)).length : Int) := by
  obtain ⟨segs', h1⟩ := doc_run_refines2 ops c segs docs h hf
  obtain ⟨hs, hn⟩ := allIDs_sorted_nodup _ segs' _ h1
  exact ⟨allIDs_mem _ segs' _ h1, hs, hn, count_spec _ segs' _ h1⟩


/-- **a newly created collection** satisfies the extended invariant: the index has the header entry only -/
theorem new_collection_rep2 (name : Bytes) (opts : Cfg) (hq : Supported opts.quant)
    (hm : opts.metric = 0 ∨ opts.metric = 1) (hlen : (encodeOpts name opts).length < 1000000000) :
    ∃ c segs, newCollection none name opts .createIfNotExists = .ok c ∧ c.cfg = opts ∧ CRep2 c segs (fun _ => none) := by
  obtain ⟨c, segs, h1, h2, h3⟩ := new_collection_rep name opts hq hm hlen
  obtain ⟨s0, h0, hrep0, hdoc0⟩ := init_refines
  have hq0 : ¬ opts.quant = 0 := by rcases hq with h | h | h | h | h <;> omega
  have hx : ∃ m, writeRecord s0 [] [{ id := 0, data := encodeOpts name opts }] = .ok m ∧ c.sf = m.st := by
    have h1' := h1
    simp only [newCollection, h0, hq0, ↓reduceIte] at h1'
    cases hw : writeRecord s0 [] [{ id := 0, data := encodeOpts name opts }] with
    | ok m =>
      rw [hw] at h1'
      refine ⟨m, rfl, ?_⟩
      rcases hm with hm | hm <;> simp [hm] at h1' <;> rw [← h1']
    | err e => rw [hw] at h1'; simp at h1'
    | panic e => rw [hw] at h1'; simp at h1'
  obtain ⟨m, hw, hsf⟩ := hx
  obtain ⟨off, hix⟩ := writeRecord_index s0 _ _ m hw
  have hold : docOf [] [Seg.act 0 [] [] 0] ≠ none := by simp [hdoc0]
  -- the same write seen through the span-file refinement
  have hseq : s0.seq < 4294967296 := hrep0.seq
  have hdoc : ∀ r, docOf r segs = if r = [] then some [{ id := 0, data := encodeOpts name opts }] else docOf r [Seg.act 0 [] [] 0] := by
    have hrep' : Rep m.st segs := by rw [← hsf]; exact h3.rep
    -- `write_docOf` needs the size hypotheses; they are those of `new_collection_rep`
    have hfl : s0.file.length = 15 := by
      rw [hrep0.lay.file, render_length _ hrep0.lay.ok]
      simp [segsSize, Seg.size, spanBody, enc7, len7, pick7, bounds7, enc7k]
    have hb : (spanBody s0.seq [] [{ id := 0, data := encodeOpts name opts }]).length =
        len7 s0.seq + len7 0 + 0 + 1 + (1 + len7 (encodeOpts name opts).length + (encodeOpts name opts).length + 0) := by
      simp [spanBody_length, streamLen]
    have l1 := len7_le s0.seq
    have l2 := len7_le 0
    have l3 := len7_le (encodeOpts name opts).length
    have hsz : (Seg.act s0.seq [] [{ id := 0, data := encodeOpts name opts }] 0).size ≤ (encodeOpts name opts).length + 50 := by
      simp only [Seg.size, hb]; omega
    have hnew : NewOK s0.seq [] [{ id := 0, data := encodeOpts name opts }] := by
      refine ⟨hseq, by simp, by simp, ?_, ?_⟩
      · intro s hs
        simp only [List.mem_cons, List.not_mem_nil, or_false] at hs
        subst hs
        exact ⟨by simp, by simp only; omega⟩
      · simp only [minSpanLength]; omega
    have hbig : s0.file.length + expandBy s0.file.length (Seg.act s0.seq [] [{ id := 0, data := encodeOpts name opts }] 0).size
        < 4294967296 := by
      rw [hfl]
      have h5 : fivePercent 15 = 0 := by decide
      simp only [expandBy, h5]
      omega
    exact write_docOf s0 _ hrep0 [] _ m hnew hbig hw segs hrep'
  have hix0 : KeysNodup s0.index := by
    have hq' := scanFile_quiescent [Seg.act 0 [] [] 0] hrep0.lay.ok (by simp [actRids]) false
    have hinit : initialSpan = render [Seg.act 0 [] [] 0] := by
      simp [initialSpan, render, Seg.bytes, actBytes, serializeSpan_eq]
    have : openFile none .createIfNotExists = scanFile initialSpan false := by
      unfold openFile
      simp only [Option.getD_none, List.isEmpty_nil, Bool.not_true, Bool.false_eq_true, false_and, true_and, ↓reduceIte,
        reduceCtorEq, decide_false]
    rw [this, hinit, hq'] at h0
    cases h0
    simp [KeysNodup, indexRev]
  refine ⟨c, segs, h1, h2, ⟨h3, ?_, ?_, ?_⟩⟩
  · rw [hsf, hix]; exact keysNodup_idxSet _ _ _ hix0
  · rw [mem_actRids_iff, hdoc []]; simp
  · intro r hr
    rw [mem_actRids_iff, hdoc r] at hr
    by_cases hrr : r = []
    · exact Or.inl hrr
    · rw [if_neg hrr, hdoc0 r, if_neg hrr] at hr
      exact absurd rfl hr

end Syzgy
