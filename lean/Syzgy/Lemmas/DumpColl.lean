import Syzgy.Model.Dump
import Syzgy.Lemmas.CrashColl
namespace Syzgy

/-- the records `ExportJSON` walks: every listed id with the document `getDocument` returns for it -/
def collRecs (c : Coll) : List Rec :=
  (getAllIDs c).filterMap fun id =>
    match getDocument c id with
    | .ok d => some { id := id, codes := d.codes, md := d.md }
    | _ => none

/-- what `ImportJSON` does with the records it read: one `AddDocument` each, in order -/
def importOps (recs : List Rec) : List DocOp := recs.map fun r => DocOp.add r.id { md := r.md, codes := r.codes }

theorem collRecs_spec (c : Coll) (segs : List Seg) (docs : DocStore) (h : CRep2 c segs docs) :
    collRecs c = (getAllIDs c).filterMap (fun id => (docs id).map fun d => ({ id := id, codes := d.codes, md := d.md } : Rec)) := by
  unfold collRecs
  congr 1
  funext id
  rw [get_refines c segs docs h.base id]
  cases docs id <;> rfl

theorem fold_adds (recs : List Rec) (m : DocStore) (i : Nat) :
    (importOps recs).foldl docSpec m i =
      match (recs.reverse.find? (fun r => r.id = i)) with
      | some r => some { md := r.md, codes := r.codes }
      | none => m i := by
  induction recs generalizing m with
  | nil => rfl
  | cons r rs ih =>
    simp only [importOps, List.map_cons, List.foldl_cons] at ih ⊢
    rw [ih]
    simp only [List.reverse_cons, List.find?_append]
    cases hf : rs.reverse.find? (fun r => decide (r.id = i)) with
    | some x => simp
    | none =>
      simp only [Option.none_or, List.find?_cons, List.find?_nil, docSpec]
      by_cases hri : r.id = i
      · simp [hri]
      · have : ¬ i = r.id := fun e => hri e.symm
        simp [hri, this]

/-- importing the records of a collection into an empty store gives back the store -/
theorem import_of_export_store (c : Coll) (segs : List Seg) (docs : DocStore) (h : CRep2 c segs docs) :
    (importOps (collRecs c)).foldl docSpec (fun _ => none) = docs := by
  funext i
  rw [fold_adds, collRecs_spec c segs docs h]
  have hmem := allIDs_mem c segs docs h
  have hnd := (allIDs_sorted_nodup c segs docs h).2
  cases hd : docs i with
  | none =>
    -- no record carries an id that is not live
    have : ((getAllIDs c).filterMap (fun id => (docs id).map fun d => ({ id := id, codes := d.codes, md := d.md } : Rec))).reverse.find?
        (fun r => decide (r.id = i)) = none := by
      rw [List.find?_eq_none]
      intro r hr
      simp only [List.mem_reverse, List.mem_filterMap, Option.map_eq_some_iff] at hr
      obtain ⟨id, _, d, hd', rfl⟩ := hr
      simp only [decide_eq_true_eq]
      intro e; rw [e, hd] at hd'; cases hd'
    rw [this]
  | some d =>
    have hi : i ∈ getAllIDs c := (hmem i).mpr (by rw [hd]; simp)
    -- exactly one record carries id i, and it is the document
    have key : ∀ (l : List Nat), i ∈ l → l.Nodup →
        (l.filterMap (fun id => (docs id).map fun d => ({ id := id, codes := d.codes, md := d.md } : Rec))).reverse.find?
          (fun r => decide (r.id = i)) = some { id := i, codes := d.codes, md := d.md } := by
      intro l hl hn
      induction l with
      | nil => cases hl
      | cons a as ih =>
        rw [List.nodup_cons] at hn
        simp only [List.filterMap_cons]
        by_cases ha : a = i
        · subst ha
          simp only [hd, Option.map_some, List.reverse_cons, List.find?_append]
          have hnone : (as.filterMap (fun id => (docs id).map fun d => ({ id := id, codes := d.codes, md := d.md } : Rec))).reverse.find?
              (fun r => decide (r.id = a)) = none := by
            rw [List.find?_eq_none]
            intro r hr
            simp only [List.mem_reverse, List.mem_filterMap, Option.map_eq_some_iff] at hr
            obtain ⟨id, hid, d', _, rfl⟩ := hr
            simp only [decide_eq_true_eq]
            intro e; exact hn.1 (e ▸ hid)
          rw [hnone]; simp
        · have hl' : i ∈ as := by
            rcases List.mem_cons.mp hl with e | e
            · exact absurd e.symm ha
            · exact e
          have := ih hl' hn.2
          cases hda : docs a with
          | none => simpa [hda] using this
          | some da =>
            simp only [hda, Option.map_some, List.reverse_cons, List.find?_append, this, Option.some_or]
    rw [key _ hi hnd]

/-- **import ∘ export on collections**: the records `ExportJSON` walks, added one by one to a newly created collection with the
    same options, give a collection that represents the *same* abstract store — same ids, same metadata bytes, same stored codes -/
theorem import_export_collection (c : Coll) (segs : List Seg) (docs : DocStore) (h : CRep2 c segs docs)
    (name : Bytes) (hm : c.cfg.metric = 0 ∨ c.cfg.metric = 1) (hlen : (encodeOpts name c.cfg).length < 1000000000) :
    ∃ c0, newCollection none name c.cfg .createIfNotExists = .ok c0 ∧ c0.cfg = c.cfg ∧
      (DocFitsAll2 c0 (fun _ => none) (importOps (collRecs c)) →
        ∃ segs', CRep2 ((importOps (collRecs c)).foldl applyDocOp c0) segs' docs) := by
  obtain ⟨c0, segs0, h1, h2, h3⟩ := new_collection_rep2 name c.cfg h.base.supported hm hlen
  refine ⟨c0, h1, h2, ?_⟩
  intro hf
  obtain ⟨segs', h'⟩ := doc_run_refines2 (importOps (collRecs c)) c0 segs0 _ h3 hf
  rw [import_of_export_store c segs docs h] at h'
  exact ⟨segs', h'⟩

end Syzgy
