import Syzgy.Lemmas.Knn
import Syzgy.Model.Lsh
/-! Soundness of the approximate search: whatever the forest, the priorities and the sides, the
    result heap only ever holds live accepted candidates, each once, in order, within K / radius. -/
namespace Syzgy.Lsh

/-- what must hold of the shared search state at every moment -/
structure Sound (K R : Nat) (lookup : Nat → Option Cand) (visited : List Nat) (heap : List Cand) : Prop where
  desc : Desc heap
  valid : ∀ c ∈ heap, lookup c.id = some c ∧ c.acc = true ∧ (R > 0 → c.dist ≤ R)
  seen : ∀ c ∈ heap, c.id ∈ visited
  nodup : (heap.map (·.id)).Nodup
  bound : R = 0 → heap.length ≤ K

theorem desc_tail {l : List Cand} (h : Desc l) : Desc l.tail := by
  cases l with
  | nil => simp
  | cons a r => exact (List.pairwise_cons.mp h).2

theorem consider_sound (K R : Nat) (lookup : Nat → Option Cand) (hlk : ∀ id c, lookup id = some c → c.id = id)
    (visited : List Nat) (st : SState) (id radius : Nat) (hnew : id ∉ visited)
    (inv : Sound K R lookup visited st.heap) :
    Sound K R lookup (id :: visited) (consider K R lookup st id radius).2.2.heap := by
  have weaken : Sound K R lookup (id :: visited) st.heap :=
    ⟨inv.desc, inv.valid, fun c hc => List.mem_cons_of_mem _ (inv.seen c hc), inv.nodup, inv.bound⟩
  unfold consider
  cases hl : lookup id with
  | none => exact weaken
  | some c =>
    have hcid := hlk id c hl
    simp only
    by_cases hacc : c.acc = true
    · simp only [hacc, Bool.not_true, Bool.false_eq_true, ↓reduceIte]
      have hfresh : c.id ∉ st.heap.map (·.id) := by
        intro hm
        obtain ⟨x, hx, hxe⟩ := List.mem_map.mp hm
        have := inv.seen x hx
        rw [hxe, hcid] at this
        exact hnew this
      -- the heap with c inserted
      have ins : Desc (insDesc c st.heap) ∧
          (∀ x ∈ insDesc c st.heap, x = c ∨ x ∈ st.heap) ∧ ((insDesc c st.heap).map (·.id)).Nodup := by
        refine ⟨insDesc_desc c _ inv.desc, fun x hx => (insDesc_mem c x _).mp hx, ?_⟩
        have := ((insDesc_perm c st.heap).map (·.id)).nodup_iff.mpr
          (List.nodup_cons.mpr ⟨hfresh, inv.nodup⟩)
        exact this
      by_cases hR : R > 0
      · simp only [hR, ↓reduceIte]
        split
        · rename_i hle
          refine ⟨ins.1, ?_, ?_, ins.2.2, fun h => by omega⟩
          · intro x hx
            rcases ins.2.1 x hx with rfl | hx
            · exact ⟨by rw [hcid]; exact hl, hacc, fun _ => hle⟩
            · exact inv.valid x hx
          · intro x hx
            rcases ins.2.1 x hx with rfl | hx
            · rw [hcid]; simp
            · exact List.mem_cons_of_mem _ (inv.seen x hx)
        · exact weaken
      · have hR0 : R = 0 := by omega
        simp only [hR, ↓reduceIte]
        by_cases hK : K > 0
        · simp only [hK, ↓reduceIte]
          split
          · rename_i hcond
            -- h'' = insDesc or its tail
            have hsub : ∀ x ∈ (if (insDesc c st.heap).length > K then (insDesc c st.heap).tail else insDesc c st.heap),
                x ∈ insDesc c st.heap := by
              intro x hx
              split at hx
              · exact List.mem_of_mem_tail hx
              · exact hx
            refine ⟨?_, ?_, ?_, ?_, ?_⟩
            · simp only; split
              · exact desc_tail ins.1
              · exact ins.1
            · intro x hx
              rcases ins.2.1 x (hsub x hx) with rfl | hx'
              · exact ⟨by rw [hcid]; exact hl, hacc, fun h => by omega⟩
              · exact inv.valid x hx'
            · intro x hx
              rcases ins.2.1 x (hsub x hx) with rfl | hx'
              · rw [hcid]; simp
              · exact List.mem_cons_of_mem _ (inv.seen x hx')
            · simp only; split
              · exact (List.tail_sublist _).map _ |>.nodup ins.2.2
              · exact ins.2.2
            · intro _
              simp only
              have hl1 := insDesc_length c st.heap
              split
              · rename_i hgt
                rw [List.length_tail]; omega
              · omega
          · exact weaken
        · simp only [hK, ↓reduceIte]
          exact weaken
    · have hacc' : c.acc = false := by simpa using hacc
      simp only [hacc', Bool.not_false, ↓reduceIte]
      exact weaken

/-- lifting of `Sound` to the loop state -/
def SoundSt (K R : Nat) (lookup : Nat → Option Cand) (s : LoopSt) : Prop :=
  Sound K R lookup s.visited s.st.heap

theorem visitLeaf_sound (K R : Nat) (lookup : Nat → Option Cand) (hlk : ∀ id c, lookup id = some c → c.id = id)
    (ids : List Nat) (s : LoopSt) (inv : SoundSt K R lookup s) : SoundSt K R lookup (visitLeaf K R lookup ids s) := by
  induction ids generalizing s with
  | nil => exact inv
  | cons id rest ih =>
    unfold visitLeaf
    split
    · exact ih s inv
    · rename_i hnv
      have hnew : id ∉ s.visited := by simpa using hnv
      have hs := consider_sound K R lookup hlk s.visited s.st id s.radius hnew inv
      simp only
      generalize hc : consider K R lookup s.st id s.radius = res at hs
      obtain ⟨sig, rad, st'⟩ := res
      cases sig with
      | stop =>
        exact ⟨inv.desc, inv.valid, fun c hc => List.mem_cons_of_mem _ (inv.seen c hc), inv.nodup, inv.bound⟩
      | accepted => exact ih _ hs
      | checked => exact ih _ hs
      | ignored => exact ih _ hs

theorem searchLoop_sound (searchK K R : Nat) (lookup : Nat → Option Cand)
    (hlk : ∀ id c, lookup id = some c → c.id = id) (hpDist : H → Nat) (hpRight : H → Bool)
    (fuel : Nat) (s : LoopSt) (inv : SoundSt K R lookup s) :
    SoundSt K R lookup (searchLoop searchK K R lookup hpDist hpRight fuel s) := by
  induction fuel generalizing s with
  | zero => exact inv
  | succ f ih =>
    unfold searchLoop
    simp only
    repeat' split
    all_goals first
      | exact inv
      | exact ih _ inv
      | exact ih _ (visitLeaf_sound K R lookup hlk _ _ inv)

/-- **soundness of the default-precision search** for every forest, every priority/side oracle and
    every `search_k` -/
theorem search_sound (searchK K R maxRadius : Nat) (forest : List Tree) (lookup : Nat → Option Cand)
    (hlk : ∀ id c, lookup id = some c → c.id = id) (hpDist : H → Nat) (hpRight : H → Bool) :
    let res := (search searchK K R maxRadius forest lookup hpDist hpRight).1
    List.Pairwise (fun a b => a.dist ≤ b.dist) res ∧ (res.map (·.id)).Nodup ∧
    (∀ c ∈ res, lookup c.id = some c ∧ c.acc = true ∧ (R > 0 → c.dist ≤ R)) ∧ (R = 0 → res.length ≤ K) := by
  intro res
  let s0 : LoopSt :=
    { pq := forest.foldl (fun a t => hpush a { node := t, prio := 0 }) #[], visited := [], kCounter := 0,
      accepted := false, radius := (if R > 0 then R else maxRadius), st := { heap := [], searched := 0 } }
  have h0 : SoundSt K R lookup s0 := ⟨by simp [s0], by simp [s0], by simp [s0], by simp [s0], by simp [s0]⟩
  have hs := searchLoop_sound searchK K R lookup hlk hpDist hpRight ((forest.map Tree.size).sum + 1) s0 h0
  refine ⟨?_, ?_, ?_, ?_⟩
  · show List.Pairwise _ (List.reverse _)
    rw [List.pairwise_reverse]; exact hs.desc
  · show (List.map _ (List.reverse _)).Nodup
    rw [List.map_reverse]; exact (List.reverse_perm _).nodup_iff.mpr hs.nodup
  · intro c hc
    exact hs.valid c (by simpa [res, search] using hc)
  · intro h
    have := hs.bound h
    simpa [res, search] using this

end Syzgy.Lsh
