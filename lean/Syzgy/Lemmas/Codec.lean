import Syzgy.Model.Codec
/-! Helper lemmas for the span codec: u32 and 7-code round trips. -/
namespace Syzgy

theorem toUInt8_toNat (n : Nat) : (n.toUInt8).toNat = n % 256 := by
  simp [Nat.toUInt8, UInt8.toNat_ofNat']

theorem be32_length (n : Nat) : (be32 n).length = 4 := rfl

theorem rd32_be32 (n : Nat) (h : n < 4294967296) (rest : Bytes) : rd32 (be32 n ++ rest) = some n := by
  simp only [be32, rd32, List.cons_append, List.nil_append, toUInt8_toNat]
  congr 1
  omega

theorem len7_pos (n : Nat) : 0 < len7 n := by
  simp only [len7, bounds7, pick7]
  repeat' split
  all_goals omega

theorem len7_le (n : Nat) : len7 n ≤ 9 := by
  simp only [len7, bounds7, pick7, List.length]
  repeat' split
  all_goals omega

theorem lt_pow_len7 (n : Nat) (h : n < 9223372036854775808) : n < 128 ^ len7 n := by
  simp only [len7, bounds7, pick7, List.length]
  repeat' split
  all_goals (simp only [Nat.reducePow, Nat.reduceAdd]; omega)

theorem enc7k_length (k n : Nat) : (enc7k k n).length = k := by
  fun_induction enc7k k n with
  | case1 => rfl
  | case2 => rfl
  | case3 k n ih => simp [ih]

theorem enc7_length (n : Nat) : (enc7 n).length = len7 n := enc7k_length _ _

/-- decoding `k ≥ 1` bytes produced by `enc7k` -/
theorem dec7Aux_enc7k (k : Nat) (hk : 0 < k) (n acc used : Nat) (rest : Bytes)
    (hb : acc * 128 ^ k + n % 128 ^ k < 18446744073709551616) :
    dec7Aux (enc7k k n ++ rest) acc used = some (acc * 128 ^ k + n % 128 ^ k, used + k) := by
  fun_induction enc7k k n generalizing acc used with
  | case1 => omega
  | case2 n =>
    simp only [List.cons_append, List.nil_append, dec7Aux, toUInt8_toNat]
    have h1 : n % 128 % 256 = n % 128 := by omega
    rw [h1]
    have h2 : n % 128 % 128 = n % 128 := by omega
    simp only [h2, Nat.pow_one] at hb ⊢
    rw [Nat.mod_eq_of_lt hb]
    simp; omega
  | case3 k n ih =>
    have hp : (2:Nat) ^ (7 * (k + 1)) = 128 ^ (k + 1) := by
      rw [show (128:Nat) = 2 ^ 7 by rfl, ← Nat.pow_mul]
    simp only [List.cons_append, dec7Aux, toUInt8_toNat, hp]
    simp only [Nat.succ_eq_add_one] at hb
    generalize hq : n / 128 ^ (k + 1) % 128 = q
    have hq128 : q < 128 := by rw [← hq]; exact Nat.mod_lt _ (by omega)
    have hd : (q + 128) % 256 = q + 128 := by omega
    rw [hd]
    have hge : ¬ (q + 128 < 128) := by omega
    rw [if_neg hge]
    have hm : (q + 128) % 128 = q := by omega
    rw [hm]
    have hpow : (128:Nat) ^ (k + 1 + 1) = 128 ^ (k + 1) * 128 := by rw [Nat.pow_succ]
    have hsplit : n % (128 ^ (k + 1) * 128) = n % 128 ^ (k + 1) + 128 ^ (k + 1) * q := by
      rw [← hq, Nat.mod_mul]
    rw [hpow] at hb
    generalize hP : (128:Nat) ^ (k + 1) = P at *
    have hpos : 0 < P := by rw [← hP]; exact Nat.pow_pos (by omega)
    generalize hr : n % P = r at *
    have key : (acc * 128 + q) * P + r = acc * (P * 128) + (r + P * q) := by
      rw [Nat.add_mul, Nat.mul_assoc, Nat.mul_comm 128 P, Nat.mul_comm q P]; omega
    rw [hsplit] at hb
    have hsmall : acc * 128 + q < 18446744073709551616 := by
      have : (acc * 128 + q) * 1 ≤ (acc * 128 + q) * P := Nat.mul_le_mul_left _ hpos
      omega
    rw [Nat.mod_eq_of_lt hsmall]
    rw [ih (by omega) _ _ (by rw [key]; exact hb)]
    simp only [Nat.succ_eq_add_one]
    rw [key, hpow, hsplit]
    congr 2
    omega

theorem dec7_enc7 (n : Nat) (h : n < 9223372036854775808) (rest : Bytes) :
    dec7 (enc7 n ++ rest) = some (n, len7 n) := by
  unfold dec7 enc7
  have hlt := lt_pow_len7 n h
  have hmod : n % 128 ^ len7 n = n := Nat.mod_eq_of_lt hlt
  have := dec7Aux_enc7k (len7 n) (len7_pos n) n 0 0 rest (by rw [hmod]; omega)
  rw [this, hmod]; simp

end Syzgy
