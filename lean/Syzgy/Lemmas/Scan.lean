import Syzgy.Lemmas.Parse
/-! `scanFile` on a rendered segment list (optionally followed by a zero tail) is the
    segment-level fold `scanSegs`. -/
namespace Syzgy

/-- what `scanFile` does with one segment found at offset `off` -/
def scanStep (off : Nat) (acc : ScanAcc) : Seg → ScanAcc
  | .act seq rid _ _ =>
    let highest := if seq > acc.highest then seq else acc.highest
    let newer := match idxGet acc.seqs rid with
      | none => true
      | some e => decide (seq > e)
    if newer then { acc with highest := highest, seqs := idxSet acc.seqs rid seq, index := idxSet acc.index rid off }
    else { acc with highest := highest }
  | .free junk => { acc with free := markFree acc.free off (8 + junk.length) }

def scanSegs : Nat → List Seg → ScanAcc → ScanAcc
  | _, [], acc => acc
  | off, s :: ss, acc => scanSegs (off + s.size) ss (scanStep off acc s)

def segsSize (segs : List Seg) : Nat := (segs.map Seg.size).sum

theorem Seg.bytes_length (s : Seg) (h : s.OK) : s.bytes.length = s.size := by
  cases s with
  | act seq rid streams pad =>
    simp [Seg.bytes, Seg.size, actBytes, actPre, be32_length, zeros_length]; omega
  | free junk => simp [Seg.bytes, Seg.size, be32_length]; omega

theorem render_length (segs : List Seg) (h : ∀ s ∈ segs, s.OK) : (render segs).length = segsSize segs := by
  induction segs with
  | nil => rfl
  | cons s ss ih =>
    simp only [render, List.flatMap_cons, List.length_append, segsSize, List.map_cons, List.sum_cons]
    rw [Seg.bytes_length s (h s (by simp))]
    have := ih (fun x hx => h x (by simp [hx]))
    simp only [render, segsSize] at this
    rw [this]

theorem Seg.size_ge (s : Seg) (h : s.OK) : minSpanLength ≤ s.size := by
  cases s with
  | act seq rid streams pad =>
    have := len7_pos seq; have := len7_pos rid.length
    simp [Seg.size, spanBody, enc7_length, minSpanLength]; omega
  | free junk => exact h.1

theorem Seg.size_lt (s : Seg) (h : s.OK) : s.size < 4294967296 := by
  cases s with
  | act seq rid streams pad => exact h.2.2.2.2.2
  | free junk => exact h.2

theorem rd32_zeros (z : Nat) (h : 4 ≤ z) : rd32 (zeros z) = some 0 := by
  match z, h with
  | z+4, _ => simp [zeros, List.replicate_succ, rd32]

/-- header reads on the bytes of a segment followed by anything -/
theorem Seg.rd_magic (s : Seg) (t : Bytes) :
    rd32 (s.bytes ++ t) = some (match s with | .act .. => activeMagic | .free _ => freeMagic) := by
  cases s with
  | act seq rid streams pad =>
    simp only [Seg.bytes, actBytes, actPre, List.append_assoc]
    exact rd32_be32 _ (by decide) _
  | free junk =>
    simp only [Seg.bytes, List.append_assoc]
    exact rd32_be32 _ (by decide) _

theorem Seg.rd_len (s : Seg) (h : s.OK) (t : Bytes) : rd32 ((s.bytes ++ t).drop 4) = some s.size := by
  cases s with
  | act seq rid streams pad =>
    have hL := h.2.2.2.2.2
    simp only [Seg.bytes, actBytes, actPre, List.append_assoc, Seg.size]
    rw [List.drop_left' (be32_length activeMagic), Nat.mod_eq_of_lt hL]
    exact rd32_be32 _ hL _
  | free junk =>
    simp only [Seg.bytes, List.append_assoc, Seg.size]
    rw [List.drop_left' (be32_length freeMagic), Nat.mod_eq_of_lt h.2]
    exact rd32_be32 _ h.2 _

theorem markFree_zero (fm : List Sp) (off : Nat) : markFree fm off 0 = fm := by simp [markFree]

/-- the loop invariant: after scanning, index/highest agree with the segment fold and the
    free map agrees once the final `addFreeSpan(offset, fileSize-offset)` is applied -/
theorem scanLoop_render (segs : List Seg) (hok : ∀ s ∈ segs, s.OK) (z off fileSize fuel : Nat) (acc : ScanAcc)
    (hsize : fileSize = off + segsSize segs + z) (hfuel : segs.length < fuel) :
    ∃ acc' off', scanLoop fileSize fuel off (render segs ++ zeros z) acc = .ok (acc', off') ∧
      acc'.index = (scanSegs off segs acc).index ∧ acc'.highest = (scanSegs off segs acc).highest ∧
      markFree acc'.free off' (fileSize - off') = markFree (scanSegs off segs acc).free (off + segsSize segs) z := by
  induction segs generalizing off acc fuel with
  | nil =>
    cases fuel with
    | zero => simp at hfuel
    | succ f =>
      simp only [segsSize, List.map_nil, List.sum_nil, Nat.add_zero] at hsize
      simp only [render, List.flatMap_nil, List.nil_append, scanSegs, segsSize, List.map_nil, List.sum_nil, Nat.add_zero]
      unfold scanLoop
      by_cases h0 : off ≥ fileSize
      · have hz : z = 0 := by omega
        simp only [h0, ↓reduceIte]
        exact ⟨acc, off, rfl, rfl, rfl, by subst hz; congr 1; omega⟩
      · simp only [h0, ↓reduceIte]
        by_cases h15 : off + minSpanLength > fileSize
        · simp only [h15, ↓reduceIte]
          exact ⟨acc, off, rfl, rfl, rfl, by congr 1; omega⟩
        · simp only [h15, ↓reduceIte]
          have hz15 : 15 ≤ z := by simp only [minSpanLength] at h15; omega
          rw [rd32_zeros z (by omega)]
          have hd : (zeros z).drop 4 = zeros (z - 4) := by simp [zeros]
          rw [hd, rd32_zeros (z - 4) (by omega)]
          simp only [↓reduceIte]
          refine ⟨_, fileSize, rfl, rfl, rfl, ?_⟩
          simp only [Nat.sub_self, markFree_zero]
          congr 1; omega
  | cons s ss ih =>
    cases fuel with
    | zero => simp at hfuel
    | succ f =>
      have hs := hok s (by simp)
      have hss : ∀ x ∈ ss, x.OK := fun x hx => hok x (by simp [hx])
      have hsz : segsSize (s :: ss) = s.size + segsSize ss := by simp [segsSize]
      have hge := Seg.size_ge s hs
      have hlt := Seg.size_lt s hs
      have hrender : render (s :: ss) ++ zeros z = s.bytes ++ (render ss ++ zeros z) := by
        simp [render]
      unfold scanLoop
      have h0 : ¬ (off ≥ fileSize) := by simp only [minSpanLength] at hge; omega
      have h15 : ¬ (off + minSpanLength > fileSize) := by omega
      simp only [h0, h15, ↓reduceIte, hrender]
      rw [Seg.rd_magic, Seg.rd_len s hs]
      have htake : (s.bytes ++ (render ss ++ zeros z)).take s.size = s.bytes := by
        rw [← Seg.bytes_length s hs, List.take_left]
      have hdrop : (s.bytes ++ (render ss ++ zeros z)).drop s.size = render ss ++ zeros z := by
        rw [← Seg.bytes_length s hs, List.drop_left]
      have hfit : ¬ (off + s.size > fileSize) := by omega
      have hne : ¬ (s.size = 0) := by simp only [minSpanLength] at hge; omega
      have hrec := ih hss (off + s.size) f (scanStep off acc s) (by omega) (by simpa using hfuel)
      cases s with
      | act seq rid streams pad =>
        have hmz : ¬ (activeMagic = 0) := by decide
        simp only [hmz, ↓reduceIte, hfit, htake, hdrop, hne]
        have hver : verifyChecksum (Seg.bytes (.act seq rid streams pad)) = true := verify_append_crc _
        simp only [hver, Bool.not_true, Bool.false_eq_true, ↓reduceIte]
        have hp := parseSpan_actBytes seq rid streams pad [] hs
        simp only [List.append_nil] at hp
        simp only [Seg.bytes, hp]
        obtain ⟨acc', off', h1, h2, h3, h4⟩ := hrec
        refine ⟨acc', off', ?_, ?_, ?_, ?_⟩
        · rw [← h1]
          simp only [scanStep, Seg.size]
          rfl
        · simpa [scanSegs] using h2
        · simpa [scanSegs] using h3
        · simp only [scanSegs, hsz]; rw [h4]; congr 1; omega
      | free junk =>
        have hmz : ¬ (freeMagic = 0) := by decide
        have hma : ¬ (freeMagic = activeMagic) := by decide
        simp only [hmz, hma, ↓reduceIte, hfit, hdrop, hne]
        obtain ⟨acc', off', h1, h2, h3, h4⟩ := hrec
        refine ⟨acc', off', ?_, ?_, ?_, ?_⟩
        · rw [← h1]; rfl
        · simpa [scanSegs] using h2
        · simpa [scanSegs] using h3
        · simp only [scanSegs, hsz]; rw [h4]; congr 1; omega

/-- **scan ∘ render**: opening a file that is a rendered segment list plus a zero tail yields
    exactly the segment-level fold. -/
theorem scanFile_render (segs : List Seg) (hok : ∀ s ∈ segs, s.OK) (z : Nat) :
    let A := scanSegs 0 segs { index := [], seqs := [], free := [], highest := 0 }
    scanFile (render segs ++ zeros z) =
      .ok { file := render segs ++ zeros z, index := A.index,
            free := markFree A.free (segsSize segs) z, seq := (A.highest + 1) % 4294967296 } := by
  intro A
  unfold scanFile
  have hlen : (render segs ++ zeros z).length = 0 + segsSize segs + z := by
    simp [render_length segs hok, zeros_length]
  have hfuel : segs.length < (render segs ++ zeros z).length + 1 := by
    rw [hlen]
    have : segs.length ≤ segsSize segs := by
      clear hlen
      induction segs with
      | nil => simp [segsSize]
      | cons s ss ih =>
        have h1 := Seg.size_ge s (hok s (by simp))
        have h2 := ih (fun x hx => hok x (by simp [hx]))
        simp only [segsSize, List.map_cons, List.sum_cons, List.length_cons, minSpanLength] at *
        omega
    omega
  obtain ⟨acc', off', h1, h2, h3, h4⟩ := scanLoop_render segs hok z 0 _ _ { index := [], seqs := [], free := [], highest := 0 } hlen hfuel
  rw [h1]
  simp only [h2, h3, h4, Nat.zero_add]
  rfl

end Syzgy
