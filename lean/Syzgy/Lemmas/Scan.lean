import Syzgy.Lemmas.Parse
/-! `scanFile` on a rendered segment list (optionally followed by a zero tail) is the
    segment-level fold `scanSegs`. -/
namespace Syzgy

/-- what `scanFile` does with one segment found at offset `off` -/
def scanStep (file : Bytes) (ro : Bool) (off : Nat) (acc : ScanAcc) : Seg → ScanAcc
  | .act seq rid _ _ => scanActive file ro acc off seq rid
  | .free junk => { acc with free := markFree acc.free off (8 + junk.length) }

def scanSegs (file : Bytes) (ro : Bool) : Nat → List Seg → ScanAcc → ScanAcc
  | _, [], acc => acc
  | off, s :: ss, acc => scanSegs file ro (off + s.size) ss (scanStep file ro off acc s)

def segsSize (segs : List Seg) : Nat := (segs.map Seg.size).sum

theorem Seg.bytes_length (s : Seg) (h : s.OK) : s.bytes.length = s.size := by
  cases s with
  | act seq rid streams pad =>
    simp [Seg.bytes, Seg.size, actBytes, actPre, be32_length, zeros_length]; omega
  | free junk => simp [Seg.bytes, Seg.size, be32_length]; omega

theorem render_length (segs : List Seg) (h : ∀ s ∈ segs, s.OK) : (render segs).length = segsSize segs := by
  induction segs with
  | nil => rfl
  | cons s ss ih =>
    simp only [render, List.flatMap_cons, List.length_append, segsSize, List.map_cons, List.sum_cons]
    rw [Seg.bytes_length s (h s (by simp))]
    have := ih (fun x hx => h x (by simp [hx]))
    simp only [render, segsSize] at this
    rw [this]

theorem Seg.size_ge (s : Seg) (h : s.OK) : minSpanLength ≤ s.size := by
  cases s with
  | act seq rid streams pad =>
    have := len7_pos seq; have := len7_pos rid.length
    simp [Seg.size, spanBody, enc7_length, minSpanLength]; omega
  | free junk => exact h.1

theorem Seg.size_lt (s : Seg) (h : s.OK) : s.size < 4294967296 := by
  cases s with
  | act seq rid streams pad => exact h.2.2.2.2.2
  | free junk => exact h.2

theorem rd32_zeros (z : Nat) (h : 4 ≤ z) : rd32 (zeros z) = some 0 := by
  match z, h with
  | z+4, _ => simp [zeros, List.replicate_succ, rd32]

/-- header reads on the bytes of a segment followed by anything -/
theorem Seg.rd_magic (s : Seg) (t : Bytes) :
    rd32 (s.bytes ++ t) = some (match s with | .act .. => activeMagic | .free _ => freeMagic) := by
  cases s with
  | act seq rid streams pad =>
    simp only [Seg.bytes, actBytes, actPre, List.append_assoc]
    exact rd32_be32 _ (by decide) _
  | free junk =>
    simp only [Seg.bytes, List.append_assoc]
    exact rd32_be32 _ (by decide) _

theorem Seg.rd_len (s : Seg) (h : s.OK) (t : Bytes) : rd32 ((s.bytes ++ t).drop 4) = some s.size := by
  cases s with
  | act seq rid streams pad =>
    have hL := h.2.2.2.2.2
    simp only [Seg.bytes, actBytes, actPre, List.append_assoc, Seg.size]
    rw [List.drop_left' (be32_length activeMagic), Nat.mod_eq_of_lt hL]
    exact rd32_be32 _ hL _
  | free junk =>
    simp only [Seg.bytes, List.append_assoc, Seg.size]
    rw [List.drop_left' (be32_length freeMagic), Nat.mod_eq_of_lt h.2]
    exact rd32_be32 _ h.2 _

theorem markFree_zero (fm : List Sp) (off : Nat) : markFree fm off 0 = fm := by simp [markFree]

/-- the patch a zero tail of `z ≥ 15` bytes receives in the writable modes -/
def tailPatch (ro : Bool) (off z : Nat) : List (Nat × Bytes) :=
  if ro ∨ z < minSpanLength then [] else [(off, be32 freeMagic ++ be32 (z % 4294967296))]

/-- the loop invariant: after scanning, index/highest/patches agree with the segment fold and the
    free map agrees once the final `addFreeSpan(offset, fileSize-offset)` is applied -/
theorem scanLoop_render (file : Bytes) (ro : Bool) (segs : List Seg) (hok : ∀ s ∈ segs, s.OK) (z off fileSize fuel : Nat) (acc : ScanAcc)
    (hsize : fileSize = off + segsSize segs + z) (hfuel : segs.length < fuel) :
    ∃ acc' off', scanLoop file ro fileSize fuel off (render segs ++ zeros z) acc = .ok (acc', off') ∧
      acc'.index = (scanSegs file ro off segs acc).index ∧ acc'.highest = (scanSegs file ro off segs acc).highest ∧
      acc'.patches = (scanSegs file ro off segs acc).patches ++ tailPatch ro (off + segsSize segs) z ∧
      markFree acc'.free off' (fileSize - off') = markFree (scanSegs file ro off segs acc).free (off + segsSize segs) z := by
  induction segs generalizing off acc fuel with
  | nil =>
    cases fuel with
    | zero => simp at hfuel
    | succ f =>
      simp only [segsSize, List.map_nil, List.sum_nil, Nat.add_zero] at hsize
      simp only [render, List.flatMap_nil, List.nil_append, scanSegs, segsSize, List.map_nil, List.sum_nil, Nat.add_zero]
      unfold scanLoop
      by_cases h0 : off ≥ fileSize
      · have hz : z = 0 := by omega
        simp only [h0, ↓reduceIte]
        exact ⟨acc, off, rfl, rfl, rfl, by subst hz; simp [tailPatch, minSpanLength], by subst hz; congr 1; omega⟩
      · simp only [h0, ↓reduceIte]
        by_cases h15 : off + minSpanLength > fileSize
        · simp only [h15, ↓reduceIte]
          have hz15 : z < minSpanLength := by omega
          exact ⟨acc, off, rfl, rfl, rfl, by simp [tailPatch, hz15], by congr 1; omega⟩
        · simp only [h15, ↓reduceIte]
          have hz15 : 15 ≤ z := by simp only [minSpanLength] at h15; omega
          rw [rd32_zeros z (by omega)]
          have hd : (zeros z).drop 4 = zeros (z - 4) := by simp [zeros]
          rw [hd, rd32_zeros (z - 4) (by omega)]
          simp only [↓reduceIte]
          refine ⟨_, fileSize, rfl, rfl, rfl, ?_, ?_⟩
          · have hzz : fileSize - off = z := by omega
            have hn15 : ¬ (z < minSpanLength) := by simp only [minSpanLength]; omega
            cases ro <;> simp [tailPatch, hn15, hzz]
          · simp only [Nat.sub_self, markFree_zero]
            congr 1; omega
  | cons s ss ih =>
    cases fuel with
    | zero => simp at hfuel
    | succ f =>
      have hs := hok s (by simp)
      have hss : ∀ x ∈ ss, x.OK := fun x hx => hok x (by simp [hx])
      have hsz : segsSize (s :: ss) = s.size + segsSize ss := by simp [segsSize]
      have hge := Seg.size_ge s hs
      have hlt := Seg.size_lt s hs
      have hrender : render (s :: ss) ++ zeros z = s.bytes ++ (render ss ++ zeros z) := by
        simp [render]
      unfold scanLoop
      have h0 : ¬ (off ≥ fileSize) := by simp only [minSpanLength] at hge; omega
      have h15 : ¬ (off + minSpanLength > fileSize) := by omega
      simp only [h0, h15, ↓reduceIte, hrender]
      rw [Seg.rd_magic, Seg.rd_len s hs]
      have htake : (s.bytes ++ (render ss ++ zeros z)).take s.size = s.bytes := by
        rw [← Seg.bytes_length s hs, List.take_left]
      have hdrop : (s.bytes ++ (render ss ++ zeros z)).drop s.size = render ss ++ zeros z := by
        rw [← Seg.bytes_length s hs, List.drop_left]
      have hfit : ¬ (off + s.size > fileSize) := by omega
      have hne : ¬ (s.size = 0) := by simp only [minSpanLength] at hge; omega
      have hrec := ih hss (off + s.size) f (scanStep file ro off acc s) (by omega) (by simpa using hfuel)
      cases s with
      | act seq rid streams pad =>
        have hmz : ¬ (activeMagic = 0) := by decide
        simp only [hmz, ↓reduceIte, hfit, htake, hdrop, hne]
        have hver : verifyChecksum (Seg.bytes (.act seq rid streams pad)) = true := verify_append_crc _
        simp only [hver, Bool.not_true, Bool.false_eq_true, ↓reduceIte]
        have hp := parseSpan_actBytes seq rid streams pad [] hs
        simp only [List.append_nil] at hp
        simp only [Seg.bytes, hp]
        obtain ⟨acc', off', h1, h2, h3, h5, h4⟩ := hrec
        refine ⟨acc', off', ?_, ?_, ?_, ?_, ?_⟩
        · rw [← h1]
          simp only [scanStep, Seg.size]
        · simpa [scanSegs] using h2
        · simpa [scanSegs] using h3
        · simp only [scanSegs, hsz]; rw [h5]; congr 2; omega
        · simp only [scanSegs, hsz]; rw [h4]; congr 1; omega
      | free junk =>
        have hmz : ¬ (freeMagic = 0) := by decide
        have hma : ¬ (freeMagic = activeMagic) := by decide
        simp only [hmz, hma, ↓reduceIte, hfit, hdrop, hne]
        obtain ⟨acc', off', h1, h2, h3, h5, h4⟩ := hrec
        refine ⟨acc', off', ?_, ?_, ?_, ?_, ?_⟩
        · rw [← h1]; rfl
        · simpa [scanSegs] using h2
        · simpa [scanSegs] using h3
        · simp only [scanSegs, hsz]; rw [h5]; congr 2; omega
        · simp only [scanSegs, hsz]; rw [h4]; congr 1; omega

/-- **scan ∘ render**: opening a file that is a rendered segment list plus a zero tail yields
    exactly the segment-level fold; the stores issued while scanning are the fold's patches plus the
    FREE header of the tail. -/
theorem scanFile_render (segs : List Seg) (hok : ∀ s ∈ segs, s.OK) (z : Nat) (ro : Bool) :
    let file := render segs ++ zeros z
    let A := scanSegs file ro 0 segs { index := [], seqs := [], free := [], highest := 0 }
    scanFile file ro =
      .ok { file := applyPatches file (A.patches ++ tailPatch ro (segsSize segs) z), index := A.index,
            free := markFree A.free (segsSize segs) z, seq := (A.highest + 1) % 4294967296 } := by
  intro file A
  unfold scanFile
  have hlen : file.length = 0 + segsSize segs + z := by
    simp [file, render_length segs hok, zeros_length]
  have hfuel : segs.length < file.length + 1 := by
    rw [hlen]
    have : segs.length ≤ segsSize segs := by
      clear hlen
      induction segs with
      | nil => simp [segsSize]
      | cons s ss ih =>
        have h1 := Seg.size_ge s (hok s (by simp))
        have h2 := ih (fun x hx => hok x (by simp [hx]))
        simp only [segsSize, List.map_cons, List.sum_cons, List.length_cons, minSpanLength] at *
        omega
    omega
  obtain ⟨acc', off', h1, h2, h3, h5, h4⟩ := scanLoop_render file ro segs hok z 0 _ _ { index := [], seqs := [], free := [], highest := 0 } hlen hfuel
  rw [h1]
  simp only [h2, h3, h4, h5, Nat.zero_add]
  rfl

/-- segments with pairwise distinct record ids: the scan never meets a duplicate, issues no store
    for them, and indexes every active segment at its offset -/
theorem scanActive_fresh (file : Bytes) (ro : Bool) (acc : ScanAcc) (off seq : Nat) (rid : Bytes)
    (h : idxGet acc.seqs rid = none) :
    scanActive file ro acc off seq rid =
      { acc with highest := (if seq > acc.highest then seq else acc.highest), seqs := idxSet acc.seqs rid seq,
                 index := idxSet acc.index rid off } := by
  simp [scanActive, h]

end Syzgy

namespace Syzgy

theorem idxGet_none_iff (ix : List (Bytes × Nat)) (k : Bytes) : idxGet ix k = none ↔ ∀ e ∈ ix, e.1 ≠ k := by
  unfold idxGet
  cases h : ix.find? (fun e => e.1 == k) with
  | none =>
    simp only [true_iff]
    intro e he
    have := List.find?_eq_none.mp h e he
    simpa using this
  | some e =>
    simp only [reduceCtorEq, false_iff]
    intro hall
    have hm := List.mem_of_find?_eq_some h
    have hp := List.find?_some h
    exact hall e hm (by simpa using hp)

theorem idxDel_fresh (ix : List (Bytes × Nat)) (k : Bytes) (h : ∀ e ∈ ix, e.1 ≠ k) : idxDel ix k = ix := by
  unfold idxDel
  rw [List.filter_eq_self]
  intro e he
  simpa using h e he

/-- record ids of the active segments, in file order -/
def actRids : List Seg → List Bytes
  | [] => []
  | .act _ rid _ _ :: r => rid :: actRids r
  | .free _ :: r => actRids r

/-- (rid, offset) of the active segments, last one first (the order `scanFile` builds) -/
def indexRev : Nat → List Seg → List (Bytes × Nat) → List (Bytes × Nat)
  | _, [], acc => acc
  | off, .act seq rid st pad :: r, acc => indexRev (off + (Seg.act seq rid st pad).size) r ((rid, off) :: acc)
  | off, .free junk :: r, acc => indexRev (off + (Seg.free junk).size) r acc

def maxSeq : List Seg → Nat → Nat
  | [], m => m
  | .act seq _ _ _ :: r, m => maxSeq r (if seq > m then seq else m)
  | .free _ :: r, m => maxSeq r m

def freeFold : Nat → List Seg → List Sp → List Sp
  | _, [], fm => fm
  | off, .act seq rid st pad :: r, fm => freeFold (off + (Seg.act seq rid st pad).size) r fm
  | off, .free junk :: r, fm => freeFold (off + (Seg.free junk).size) r (markFree fm off (8 + junk.length))

/-- with pairwise distinct record ids the scan issues no store and indexes every active segment -/
theorem scanSegs_distinct (file : Bytes) (ro : Bool) (segs : List Seg) (off : Nat) (acc : ScanAcc)
    (hnd : (actRids segs).Nodup) (hfresh : ∀ r ∈ actRids segs, ∀ e ∈ acc.seqs, e.1 ≠ r)
    (hix : ∀ r ∈ actRids segs, ∀ e ∈ acc.index, e.1 ≠ r) :
    let A := scanSegs file ro off segs acc
    A.patches = acc.patches ∧ A.index = indexRev off segs acc.index ∧ A.highest = maxSeq segs acc.highest ∧
    A.free = freeFold off segs acc.free := by
  induction segs generalizing off acc with
  | nil => exact ⟨rfl, rfl, rfl, rfl⟩
  | cons s ss ih =>
    cases s with
    | free junk =>
      simp only [scanSegs, scanStep, indexRev, maxSeq, freeFold]
      exact ih _ _ (by simpa [actRids] using hnd) (by simpa [actRids] using hfresh) (by simpa [actRids] using hix)
    | act seq rid st pad =>
      simp only [actRids, List.nodup_cons] at hnd
      have hf : idxGet acc.seqs rid = none := (idxGet_none_iff _ _).mpr (fun e he => hfresh rid (by simp [actRids]) e he)
      simp only [scanSegs, scanStep, scanActive_fresh file ro acc off seq rid hf, indexRev, maxSeq, freeFold]
      have hdel : idxDel acc.index rid = acc.index := idxDel_fresh _ _ (fun e he => hix rid (by simp [actRids]) e he)
      have := ih (off + (Seg.act seq rid st pad).size)
        { acc with highest := (if seq > acc.highest then seq else acc.highest), seqs := idxSet acc.seqs rid seq,
                   index := idxSet acc.index rid off } hnd.2
        (by
          intro r hr e he
          simp only [idxSet, List.mem_cons] at he
          rcases he with rfl | he
          · intro h; simp only at h; subst h; exact hnd.1 hr
          · exact hfresh r (by simp [actRids, hr]) e (List.mem_filter.mp he).1)
        (by
          intro r hr e he
          simp only [idxSet, List.mem_cons] at he
          rcases he with rfl | he
          · intro h; simp only at h; subst h; exact hnd.1 hr
          · exact hix r (by simp [actRids, hr]) e (List.mem_filter.mp he).1)
      simpa [idxSet, hdel] using this

/-- **reopening a quiescent file**: a rendered segment list with pairwise distinct record ids is
    opened, in every mode, without a single store; the index is exactly the active segments, the
    free map the fold of the FREE segments, the next sequence number one above the highest. -/
theorem scanFile_quiescent (segs : List Seg) (hok : ∀ s ∈ segs, s.OK) (hnd : (actRids segs).Nodup) (ro : Bool) :
    scanFile (render segs) ro =
      .ok { file := render segs, index := indexRev 0 segs [], free := freeFold 0 segs [],
            seq := (maxSeq segs 0 + 1) % 4294967296 } := by
  have h := scanFile_render segs hok 0 ro
  simp only [zeros, List.replicate_zero, List.append_nil] at h
  obtain ⟨h1, h2, h3, h4⟩ := scanSegs_distinct (render segs) ro segs 0
    { index := [], seqs := [], free := [], highest := 0 } hnd (by simp) (by simp)
  rw [h]
  simp only [h1, h2, h3, h4, tailPatch, minSpanLength, Nat.zero_lt_succ, or_true, ↓reduceIte, List.append_nil,
    applyPatches, List.foldl_nil, markFree_zero]

end Syzgy
