import Syzgy.Model.Query.Parser
/-!
# The parser does not look at lexer positions

Two token sources that serve the same tokens, with positions related by a map `h`, drive every parser
function to the same result (positions mapped by `h`).
-/
namespace Syzgy.Query

def reloc (h : Nat → Nat) (s : PS) : PS := { cur := s.cur, peek := s.peek, pos := h s.pos }

def mapR {α : Type} (h : Nat → Nat) : Outcome (α × PS) → Outcome (α × PS)
  | .ok (a, s) => .ok (a, reloc h s)
  | .err m => .err m
  | .panic m => .panic m

def mapS (h : Nat → Nat) : Outcome PS → Outcome PS
  | .ok s => .ok (reloc h s)
  | .err m => .err m
  | .panic m => .panic m

/-- `nx1` at `h p` serves what `nx2` serves at `p` -/
def SimSrc (nx1 nx2 : TokSrc) (h : Nat → Nat) : Prop :=
  ∀ p, nx1 (h p) = match nx2 p with
    | .ok (t, q) => .ok (t, h q)
    | .err m => .err m
    | .panic m => .panic m

@[simp] theorem reloc_cur (h : Nat → Nat) (s : PS) : (reloc h s).cur = s.cur := rfl
@[simp] theorem reloc_peek (h : Nat → Nat) (s : PS) : (reloc h s).peek = s.peek := rfl
@[simp] theorem mapR_ok {α : Type} (h : Nat → Nat) (a : α) (s : PS) : mapR h (.ok (a, s)) = .ok (a, reloc h s) := rfl
@[simp] theorem mapR_err {α : Type} (h : Nat → Nat) (m : String) : mapR h (.err m : Outcome (α × PS)) = .err m := rfl
@[simp] theorem mapR_panic {α : Type} (h : Nat → Nat) (m : String) : mapR h (.panic m : Outcome (α × PS)) = .panic m := rfl
@[simp] theorem mapS_ok (h : Nat → Nat) (s : PS) : mapS h (.ok s) = .ok (reloc h s) := rfl
@[simp] theorem mapS_err (h : Nat → Nat) (m : String) : mapS h (.err m) = .err m := rfl
@[simp] theorem mapS_panic (h : Nat → Nat) (m : String) : mapS h (.panic m) = .panic m := rfl

section
variable (nx1 nx2 : TokSrc) (nok : NumOK) (h : Nat → Nat) (hs : SimSrc nx1 nx2 h)
include hs

theorem advance_sim (s : PS) : advance nx1 (reloc h s) = mapS h (advance nx2 s) := by
  unfold advance
  simp only [reloc]
  rw [hs s.pos]
  cases nx2 s.pos with
  | ok r => obtain ⟨t, q⟩ := r; rfl
  | err m => rfl
  | panic m => rfl

theorem expect_sim (s : PS) (t : TokType) (msg : String) : expect nx1 (reloc h s) t msg = mapS h (expect nx2 s t msg) := by
  unfold expect
  simp only [reloc_cur]
  by_cases hc : s.cur.type = t
  · simp only [hc, ↓reduceIte]; exact advance_sim nx1 nx2 h hs s
  · simp only [hc, ↓reduceIte]; rfl

theorem parseNumber_sim (s : PS) : parseNumber nx1 nok (reloc h s) = mapR h (parseNumber nx2 nok s) := by
  unfold parseNumber
  simp only [reloc_cur]
  by_cases hc : nok s.cur.lit = true
  · simp only [hc, ↓reduceIte, bind, Outcome.bind, advance_sim nx1 nx2 h hs s]
    cases advance nx2 s <;> rfl
  · simp only [hc]; rfl

theorem parseArrayElems_sim (fuel : Nat) (s : PS) (acc : List Value) :
    parseArrayElems nx1 nok fuel (reloc h s) acc = mapR h (parseArrayElems nx2 nok fuel s acc) := by
  induction fuel generalizing s acc with
  | zero => unfold parseArrayElems; rfl
  | succ f ih =>
    unfold parseArrayElems
    simp only [reloc_cur, bind, Outcome.bind, advance_sim nx1 nx2 h hs s]
    have tail : ∀ (v : Value) (s1 : PS),
        (if (reloc h s1).cur.type = TokType.comma then
            match advance nx1 (reloc h s1) with
            | .ok s2 => parseArrayElems nx1 nok f s2 (v :: acc)
            | .err m => .err m
            | .panic m => .panic m
          else Outcome.ok ((v :: acc).reverse, reloc h s1)) =
        mapR h (if s1.cur.type = TokType.comma then
            match advance nx2 s1 with
            | .ok s2 => parseArrayElems nx2 nok f s2 (v :: acc)
            | .err m => .err m
            | .panic m => .panic m
          else Outcome.ok ((v :: acc).reverse, s1)) := by
      intro v s1
      simp only [reloc_cur]
      by_cases hc : s1.cur.type = TokType.comma
      · simp only [hc, ↓reduceIte, advance_sim nx1 nx2 h hs s1]
        cases advance nx2 s1 with
        | ok s2 => exact ih s2 (v :: acc)
        | err m => rfl
        | panic m => rfl
      · simp only [hc, ↓reduceIte]; rfl
    by_cases h1 : s.cur.type = TokType.number
    · simp only [h1, ↓reduceIte]
      by_cases h2 : nok s.cur.lit = true
      · simp only [h2, ↓reduceIte]
        cases advance nx2 s with
        | ok s1 => exact tail _ s1
        | err m => rfl
        | panic m => rfl
      · simp only [h2]; rfl
    · simp only [h1, ↓reduceIte]
      by_cases h3 : s.cur.type = TokType.string
      · simp only [h3, ↓reduceIte]
        cases advance nx2 s with
        | ok s1 => exact tail _ s1
        | err m => rfl
        | panic m => rfl
      · simp only [h3, ↓reduceIte]; rfl

omit hs in
theorem ite_reloc {α : Type} (c : PS → Prop) [∀ s, Decidable (c s)] (hc : ∀ s, c (reloc h s) ↔ c s) (s : PS) (a b : α) :
    (if c (reloc h s) then a else b) = (if c s then a else b) := by
  by_cases hh : c s
  · rw [if_pos hh, if_pos ((hc s).mpr hh)]
  · rw [if_neg hh, if_neg (fun x => hh ((hc s).mp x))]

theorem parseArrayLiteral_sim (fuel : Nat) (s : PS) :
    parseArrayLiteral nx1 nok fuel (reloc h s) = mapR h (parseArrayLiteral nx2 nok fuel s) := by
  unfold parseArrayLiteral
  simp only [bind, Outcome.bind, advance_sim nx1 nx2 h hs s]
  cases advance nx2 s with
  | err m => rfl
  | panic m => rfl
  | ok s1 =>
    simp only [mapS_ok]
    by_cases hc : s1.cur.type ≠ TokType.rightBracket
    · rw [if_pos (show (reloc h s1).cur.type ≠ TokType.rightBracket from hc), if_pos hc,
        parseArrayElems_sim nx1 nx2 nok h hs fuel s1 []]
      cases parseArrayElems nx2 nok fuel s1 [] with
      | err m => rfl
      | panic m => rfl
      | ok r =>
        obtain ⟨elems, s2⟩ := r
        simp only [mapR_ok, expect_sim nx1 nx2 h hs s2]
        cases expect nx2 s2 TokType.rightBracket "expected ']'" <;> rfl
    · rw [if_neg (show ¬ (reloc h s1).cur.type ≠ TokType.rightBracket from hc), if_neg hc]
      simp only [pure, expect_sim nx1 nx2 h hs s1]
      cases expect nx2 s1 TokType.rightBracket "expected ']'" <;> rfl

theorem parseIn_sim (fuel : Nat) (e : Node) (s : PS) :
    parseIn nx1 nok fuel e (reloc h s) = mapR h (parseIn nx2 nok fuel e s) := by
  unfold parseIn
  simp only [bind, Outcome.bind, advance_sim nx1 nx2 h hs s]
  cases advance nx2 s with
  | err m => rfl
  | panic m => rfl
  | ok s1 =>
    simp only [mapS_ok]
    by_cases hc : s.cur.type = TokType.not ∧ s1.cur.type = TokType.in
    · rw [if_pos (show (reloc h s).cur.type = TokType.not ∧ (reloc h s1).cur.type = TokType.in from hc), if_pos hc]
      simp only [advance_sim nx1 nx2 h hs s1]
      cases advance nx2 s1 with
      | err m => rfl
      | panic m => rfl
      | ok s2 =>
        simp only [mapS_ok, pure]
        by_cases hb : s2.cur.type ≠ TokType.leftBracket
        · rw [if_pos (show (reloc h s2).cur.type ≠ TokType.leftBracket from hb), if_pos hb]; rfl
        · rw [if_neg (show ¬ (reloc h s2).cur.type ≠ TokType.leftBracket from hb), if_neg hb,
            parseArrayLiteral_sim nx1 nx2 nok h hs fuel s2]
          cases parseArrayLiteral nx2 nok fuel s2 with
          | err m => rfl
          | panic m => rfl
          | ok r => obtain ⟨arr, s3⟩ := r; rfl
    · rw [if_neg (show ¬ ((reloc h s).cur.type = TokType.not ∧ (reloc h s1).cur.type = TokType.in) from hc), if_neg hc]
      simp only [pure]
      by_cases hb : s1.cur.type ≠ TokType.leftBracket
      · rw [if_pos (show (reloc h s1).cur.type ≠ TokType.leftBracket from hb), if_pos hb]; rfl
      · rw [if_neg (show ¬ (reloc h s1).cur.type ≠ TokType.leftBracket from hb), if_neg hb,
          parseArrayLiteral_sim nx1 nx2 nok h hs fuel s1]
        cases parseArrayLiteral nx2 nok fuel s1 with
        | err m => rfl
        | panic m => rfl
        | ok r => obtain ⟨arr, s3⟩ := r; rfl

end

/-- all eleven mutually recursive parser functions commute with the position map -/
structure AllSim (nx1 nx2 : TokSrc) (nok : NumOK) (h : Nat → Nat) (f : Nat) : Prop where
  or_ : ∀ s, parseOr nx1 nok f (reloc h s) = mapR h (parseOr nx2 nok f s)
  orL : ∀ l s, orLoop nx1 nok f l (reloc h s) = mapR h (orLoop nx2 nok f l s)
  and_ : ∀ s, parseAnd nx1 nok f (reloc h s) = mapR h (parseAnd nx2 nok f s)
  andL : ∀ l s, andLoop nx1 nok f l (reloc h s) = mapR h (andLoop nx2 nok f l s)
  cmp : ∀ s, parseComparison nx1 nok f (reloc h s) = mapR h (parseComparison nx2 nok f s)
  not_ : ∀ s, parseNot nx1 nok f (reloc h s) = mapR h (parseNot nx2 nok f s)
  prim : ∀ s, parsePrimary nx1 nok f (reloc h s) = mapR h (parsePrimary nx2 nok f s)
  idf : ∀ s, parseIdentifierOrFunction nx1 nok f (reloc h s) = mapR h (parseIdentifierOrFunction nx2 nok f s)
  acc : ∀ e s, accessLoop nx1 nok f e (reloc h s) = mapR h (accessLoop nx2 nok f e s)
  fn : ∀ e s, parseFunction nx1 nok f e (reloc h s) = mapR h (parseFunction nx2 nok f e s)
  arg : ∀ a s, argLoop nx1 nok f a (reloc h s) = mapR h (argLoop nx2 nok f a s)

theorem allSim (nx1 nx2 : TokSrc) (nok : NumOK) (h : Nat → Nat) (hs : SimSrc nx1 nx2 h) : ∀ f, AllSim nx1 nx2 nok h f := by
  intro f
  induction f with
  | zero =>
    constructor <;> intros
    all_goals first
      | (unfold parseOr; rfl) | (unfold orLoop; rfl) | (unfold parseAnd; rfl) | (unfold andLoop; rfl)
      | (unfold parseComparison; rfl) | (unfold parseNot; rfl) | (unfold parsePrimary; rfl)
      | (unfold parseIdentifierOrFunction; rfl) | (unfold accessLoop; rfl) | (unfold parseFunction; rfl)
      | (unfold argLoop; rfl)
  | succ f ih =>
    have adv := advance_sim nx1 nx2 h hs
    have exp := expect_sim nx1 nx2 h hs
    constructor
    · -- parseOr
      intro s
      unfold parseOr
      rw [ih.and_ s]
      cases parseAnd nx2 nok f s with
      | err m => rfl
      | panic m => rfl
      | ok r => obtain ⟨l, s1⟩ := r; exact ih.orL l s1
    · -- orLoop
      intro l s
      unfold orLoop
      by_cases hc : s.cur.type = TokType.or
      · rw [if_pos (show (reloc h s).cur.type = TokType.or from hc), if_pos hc, adv s]
        cases advance nx2 s with
        | err m => rfl
        | panic m => rfl
        | ok s1 =>
          simp only [mapS_ok]
          rw [ih.and_ s1]
          cases parseAnd nx2 nok f s1 with
          | err m => rfl
          | panic m => rfl
          | ok r => obtain ⟨r, s2⟩ := r; exact ih.orL _ s2
      · rw [if_neg (show ¬ (reloc h s).cur.type = TokType.or from hc), if_neg hc]; rfl
    · -- parseAnd
      intro s
      unfold parseAnd
      rw [ih.cmp s]
      cases parseComparison nx2 nok f s with
      | err m => rfl
      | panic m => rfl
      | ok r => obtain ⟨l, s1⟩ := r; exact ih.andL l s1
    · -- andLoop
      intro l s
      unfold andLoop
      by_cases hc : s.cur.type = TokType.and
      · rw [if_pos (show (reloc h s).cur.type = TokType.and from hc), if_pos hc, adv s]
        cases advance nx2 s with
        | err m => rfl
        | panic m => rfl
        | ok s1 =>
          simp only [mapS_ok]
          rw [ih.cmp s1]
          cases parseComparison nx2 nok f s1 with
          | err m => rfl
          | panic m => rfl
          | ok r => obtain ⟨r, s2⟩ := r; exact ih.andL _ s2
      · rw [if_neg (show ¬ (reloc h s).cur.type = TokType.and from hc), if_neg hc]; rfl
    · -- parseComparison
      intro s
      unfold parseComparison
      rw [ih.not_ s]
      cases parseNot nx2 nok f s with
      | err m => rfl
      | panic m => rfl
      | ok r =>
        obtain ⟨l, s1⟩ := r
        simp only [mapR_ok]
        by_cases hc : isComparisonOperator s1.cur.type = true
        · rw [if_pos (show isComparisonOperator (reloc h s1).cur.type = true from hc), if_pos hc, adv s1]
          cases advance nx2 s1 with
          | err m => rfl
          | panic m => rfl
          | ok s2 =>
            simp only [mapS_ok]
            rw [ih.not_ s2]
            cases parseNot nx2 nok f s2 with
            | err m => rfl
            | panic m => rfl
            | ok r => obtain ⟨r, s3⟩ := r; rfl
        · rw [if_neg (show ¬ isComparisonOperator (reloc h s1).cur.type = true from hc), if_neg hc]; rfl
    · -- parseNot
      intro s
      unfold parseNot
      by_cases hc : s.cur.type = TokType.not
      · rw [if_pos (show (reloc h s).cur.type = TokType.not from hc), if_pos hc, adv s]
        cases advance nx2 s with
        | err m => rfl
        | panic m => rfl
        | ok s1 =>
          simp only [mapS_ok]
          rw [ih.prim s1]
          cases parsePrimary nx2 nok f s1 with
          | err m => rfl
          | panic m => rfl
          | ok r => obtain ⟨e, s2⟩ := r; rfl
      · rw [if_neg (show ¬ (reloc h s).cur.type = TokType.not from hc), if_neg hc]; exact ih.prim s
    · -- parsePrimary
      intro s
      unfold parsePrimary
      have hty : (reloc h s).cur.type = s.cur.type := rfl
      have hlit : (reloc h s).cur.lit = s.cur.lit := rfl
      rw [hty]
      cases hc : s.cur.type <;> simp only
      case identifier => exact ih.idf s
      case number => exact parseNumber_sim nx1 nx2 nok h hs s
      case string =>
        rw [adv s]; cases advance nx2 s <;> rfl
      case boolean =>
        rw [adv s]; cases advance nx2 s <;> rfl
      case null =>
        rw [adv s]; cases advance nx2 s <;> rfl
      case leftParen =>
        rw [adv s]
        cases advance nx2 s with
        | err m => rfl
        | panic m => rfl
        | ok s1 =>
          simp only [mapS_ok]
          rw [ih.or_ s1]
          cases parseOr nx2 nok f s1 with
          | err m => rfl
          | panic m => rfl
          | ok r =>
            obtain ⟨e, s2⟩ := r
            simp only [mapR_ok, exp s2]
            cases expect nx2 s2 TokType.rightParen "expected ')'" <;> rfl
      case leftBracket => exact parseArrayLiteral_sim nx1 nx2 nok h hs f s
      case colon =>
        rw [adv s]
        cases advance nx2 s with
        | err m => rfl
        | panic m => rfl
        | ok s1 =>
          simp only [mapS_ok]
          by_cases hi : s1.cur.type = TokType.identifier
          · rw [if_pos (show (reloc h s1).cur.type = TokType.identifier from hi), if_pos hi, adv s1]
            cases advance nx2 s1 <;> rfl
          · rw [if_neg (show ¬ (reloc h s1).cur.type = TokType.identifier from hi), if_neg hi]; rfl
      all_goals rfl
    · -- parseIdentifierOrFunction
      intro s
      unfold parseIdentifierOrFunction
      rw [adv s]
      cases advance nx2 s with
      | err m => rfl
      | panic m => rfl
      | ok s1 =>
        simp only [mapS_ok]
        rw [show (reloc h s).cur.lit = s.cur.lit from rfl, ih.acc _ s1]
        cases accessLoop nx2 nok f (.ident s.cur.lit) s1 with
        | err m => rfl
        | panic m => rfl
        | ok r =>
          obtain ⟨e, s2⟩ := r
          simp only [mapR_ok]
          by_cases h1 : s2.cur.type = TokType.in ∨ s2.cur.type = TokType.not
          · rw [if_pos (show (reloc h s2).cur.type = TokType.in ∨ (reloc h s2).cur.type = TokType.not from h1), if_pos h1]
            exact parseIn_sim nx1 nx2 nok h hs f e s2
          · rw [if_neg (show ¬ ((reloc h s2).cur.type = TokType.in ∨ (reloc h s2).cur.type = TokType.not) from h1), if_neg h1]
            by_cases h2 : s2.cur.type = TokType.leftParen
            · rw [if_pos (show (reloc h s2).cur.type = TokType.leftParen from h2), if_pos h2]
              exact ih.fn e s2
            · rw [if_neg (show ¬ (reloc h s2).cur.type = TokType.leftParen from h2), if_neg h2]
              by_cases h3 : s2.cur.type = TokType.exists
              · rw [if_pos (show (reloc h s2).cur.type = TokType.exists from h3), if_pos h3, adv s2]
                cases advance nx2 s2 <;> rfl
              · rw [if_neg (show ¬ (reloc h s2).cur.type = TokType.exists from h3), if_neg h3]
                by_cases h4 : s2.cur.type = TokType.doesNotExist
                · rw [if_pos (show (reloc h s2).cur.type = TokType.doesNotExist from h4), if_pos h4, adv s2]
                  cases advance nx2 s2 <;> rfl
                · rw [if_neg (show ¬ (reloc h s2).cur.type = TokType.doesNotExist from h4), if_neg h4]; rfl
    · -- accessLoop
      intro e s
      unfold accessLoop
      by_cases h1 : s.cur.type = TokType.leftBracket
      · rw [if_pos (show (reloc h s).cur.type = TokType.leftBracket from h1), if_pos h1, adv s]
        cases advance nx2 s with
        | err m => rfl
        | panic m => rfl
        | ok s1 =>
          simp only [mapS_ok]
          rw [ih.or_ s1]
          cases parseOr nx2 nok f s1 with
          | err m => rfl
          | panic m => rfl
          | ok r =>
            obtain ⟨ix, s2⟩ := r
            simp only [mapR_ok, exp s2]
            cases expect nx2 s2 TokType.rightBracket "expected ']'" with
            | err m => rfl
            | panic m => rfl
            | ok s3 => exact ih.acc _ s3
      · rw [if_neg (show ¬ (reloc h s).cur.type = TokType.leftBracket from h1), if_neg h1]
        by_cases h2 : s.cur.type = TokType.dot
        · rw [if_pos (show (reloc h s).cur.type = TokType.dot from h2), if_pos h2, adv s]
          cases advance nx2 s with
          | err m => rfl
          | panic m => rfl
          | ok s1 =>
            simp only [mapS_ok]
            by_cases h3 : s1.cur.type = TokType.identifier
            · rw [if_pos (show (reloc h s1).cur.type = TokType.identifier from h3), if_pos h3, adv s1]
              cases advance nx2 s1 with
              | err m => rfl
              | panic m => rfl
              | ok s2 => exact ih.acc _ s2
            · rw [if_neg (show ¬ (reloc h s1).cur.type = TokType.identifier from h3), if_neg h3]; rfl
        · rw [if_neg (show ¬ (reloc h s).cur.type = TokType.dot from h2), if_neg h2]; rfl
    · -- parseFunction
      intro e s
      unfold parseFunction
      rw [adv s]
      cases advance nx2 s with
      | err m => rfl
      | panic m => rfl
      | ok s1 =>
        simp only [mapS_ok]
        cases e <;> try rfl
        rename_i name
        simp only
        by_cases h1 : s1.cur.type ≠ TokType.rightParen
        · rw [if_pos (show (reloc h s1).cur.type ≠ TokType.rightParen from h1), if_pos h1, ih.or_ s1]
          cases parseOr nx2 nok f s1 with
          | err m => rfl
          | panic m => rfl
          | ok r =>
            obtain ⟨a, s2⟩ := r
            simp only [mapR_ok]
            rw [ih.arg [a] s2]
            cases argLoop nx2 nok f [a] s2 with
            | err m => rfl
            | panic m => rfl
            | ok r =>
              obtain ⟨args, s3⟩ := r
              simp only [mapR_ok, exp s3]
              cases expect nx2 s3 TokType.rightParen "expected ')' after function arguments" <;> rfl
        · rw [if_neg (show ¬ (reloc h s1).cur.type ≠ TokType.rightParen from h1), if_neg h1, adv s1]
          cases advance nx2 s1 <;> rfl
    · -- argLoop
      intro a s
      unfold argLoop
      by_cases hc : s.cur.type = TokType.comma
      · rw [if_pos (show (reloc h s).cur.type = TokType.comma from hc), if_pos hc, adv s]
        cases advance nx2 s with
        | err m => rfl
        | panic m => rfl
        | ok s1 =>
          simp only [mapS_ok]
          rw [ih.or_ s1]
          cases parseOr nx2 nok f s1 with
          | err m => rfl
          | panic m => rfl
          | ok r => obtain ⟨x, s2⟩ := r; exact ih.arg _ s2
      · rw [if_neg (show ¬ (reloc h s).cur.type = TokType.comma from hc), if_neg hc]; rfl

/-- **the parse result depends on the tokens only**: two sources serving the same tokens give the same result -/
theorem parseSrc_sim (nx1 nx2 : TokSrc) (nok : NumOK) (h : Nat → Nat) (hs : SimSrc nx1 nx2 h) (h0 : h 0 = 0) (fuel : Nat) :
    parseSrc nx1 nok fuel = parseSrc nx2 nok fuel := by
  have adv := advance_sim nx1 nx2 h hs
  have hnew : newParser nx1 = mapS h (newParser nx2) := by
    unfold newParser
    simp only [bind, Outcome.bind]
    have e0 : ({ cur := { type := .identifier, lit := [] }, peek := { type := .identifier, lit := [] }, pos := 0 } : PS) =
        reloc h { cur := { type := .identifier, lit := [] }, peek := { type := .identifier, lit := [] }, pos := 0 } := by
      simp [reloc, h0]
    rw [e0, adv]
    simp only [reloc, h0]
    cases advance nx2 { cur := { type := .identifier, lit := [] }, peek := { type := .identifier, lit := [] }, pos := 0 } with
    | err m => rfl
    | panic m => rfl
    | ok s1 =>
      simp only [mapS_ok]
      exact adv s1
  unfold parseSrc
  rw [hnew]
  cases newParser nx2 with
  | err m => rfl
  | panic m => rfl
  | ok s =>
    simp only [mapS_ok]
    rw [(allSim nx1 nx2 nok h hs fuel).or_ s]
    cases parseOr nx2 nok fuel s with
    | err m => rfl
    | panic m => rfl
    | ok r => obtain ⟨e, s1⟩ := r; rfl

end Syzgy.Query
