import Syzgy.Lemmas.Lexer
import Syzgy.Model.Query.Parser
/-! The parser panics only if its token source does; with the real lexer it never does. -/
namespace Syzgy.Query

def NP {α} (x : Outcome α) : Prop := x.isPanic = false

theorem NP_ok {α} (a : α) : NP (Outcome.ok a) := rfl
theorem NP_err {α} (m : String) : NP (Outcome.err m : Outcome α) := rfl

theorem NP_bind {α β} (x : Outcome α) (f : α → Outcome β) (hx : NP x) (hf : ∀ a, NP (f a)) : NP (x >>= f) := by
  cases x with
  | ok a => exact hf a
  | err m => rfl
  | panic m => simp [NP, Outcome.isPanic] at hx

theorem NP_ite {α} {c : Prop} [Decidable c] {a b : Outcome α} (ha : NP a) (hb : NP b) : NP (if c then a else b) := by
  split <;> assumption

section
variable (nx : TokSrc) (nok : NumOK) (hnx : ∀ p, NP (nx p))
include hnx

theorem advance_NP (s : PS) : NP (advance nx s) := by
  unfold advance
  have := hnx s.pos
  cases h : nx s.pos with
  | ok r => obtain ⟨t, p⟩ := r; rfl
  | err m => rfl
  | panic m => rw [h] at this; simp [NP, Outcome.isPanic] at this

theorem newParser_NP : NP (newParser nx) := by
  unfold newParser
  exact NP_bind _ _ (advance_NP nx hnx _) (fun a => advance_NP nx hnx _)

theorem expect_NP (s : PS) (t : TokType) (msg : String) : NP (expect nx s t msg) := by
  unfold expect
  exact NP_ite (advance_NP nx hnx _) (NP_err _)

theorem parseNumber_NP (s : PS) : NP (parseNumber nx nok s) := by
  unfold parseNumber
  exact NP_ite (NP_bind _ _ (advance_NP nx hnx _) (fun a => NP_ok _)) (NP_err _)

theorem parseArrayElems_NP (fuel : Nat) (s : PS) (acc : List Value) : NP (parseArrayElems nx nok fuel s acc) := by
  induction fuel generalizing s acc with
  | zero => rfl
  | succ f ih =>
    unfold parseArrayElems
    simp only
    have hone : NP (if s.cur.type = .number then
        (if nok s.cur.lit then (do let s' ← advance nx s; pure (Value.num s.cur.lit, s')) else .err "could not parse number")
      else if s.cur.type = .string then (do let s' ← advance nx s; pure (Value.str s.cur.lit, s'))
      else (.err "expected number or string in array" : Outcome (Value × PS))) := by
      apply NP_ite
      · exact NP_ite (NP_bind _ _ (advance_NP nx hnx _) (fun a => NP_ok _)) (NP_err _)
      · exact NP_ite (NP_bind _ _ (advance_NP nx hnx _) (fun a => NP_ok _)) (NP_err _)
    revert hone
    generalize (if s.cur.type = .number then
        (if nok s.cur.lit then (do let s' ← advance nx s; pure (Value.num s.cur.lit, s')) else .err "could not parse number")
      else if s.cur.type = .string then (do let s' ← advance nx s; pure (Value.str s.cur.lit, s'))
      else (.err "expected number or string in array" : Outcome (Value × PS))) = one
    intro hone
    cases one with
    | err m => rfl
    | panic m => simp [NP, Outcome.isPanic] at hone
    | ok r =>
      obtain ⟨v, s1⟩ := r
      simp only
      split
      · have := advance_NP nx hnx s1
        cases h : advance nx s1 with
        | ok s2 => exact ih _ _
        | err m => rfl
        | panic m => rw [h] at this; simp [NP, Outcome.isPanic] at this
      · rfl

theorem parseArrayLiteral_NP (fuel : Nat) (s : PS) : NP (parseArrayLiteral nx nok fuel s) := by
  unfold parseArrayLiteral
  refine NP_bind _ _ (advance_NP nx hnx _) (fun s1 => ?_)
  refine NP_bind _ _ (NP_ite (parseArrayElems_NP nx nok hnx _ _ _) (NP_ok _)) (fun r => ?_)
  exact NP_bind _ _ (expect_NP nx hnx _ _ _) (fun _ => NP_ok _)

theorem parseIn_NP (fuel : Nat) (e : Node) (s : PS) : NP (parseIn nx nok fuel e s) := by
  unfold parseIn
  refine NP_bind _ _ (advance_NP nx hnx _) (fun s1 => ?_)
  refine NP_bind _ _ (NP_ite (NP_bind _ _ (advance_NP nx hnx _) (fun _ => NP_ok _)) (NP_ok _)) (fun r => ?_)
  refine NP_ite (NP_err _) ?_
  exact NP_bind _ _ (parseArrayLiteral_NP nx nok hnx _ _) (fun _ => NP_ok _)

end

/-- a result that is not a panic, scrutinised by the `match … | .ok … | e => e` idiom -/
theorem NP_cases {α} {x : Outcome α} (h : NP x) : (∃ a, x = .ok a) ∨ (∃ m, x = .err m) := by
  cases x with
  | ok a => exact Or.inl ⟨a, rfl⟩
  | err m => exact Or.inr ⟨m, rfl⟩
  | panic m => simp [NP, Outcome.isPanic] at h

end Syzgy.Query

namespace Syzgy.Query

theorem NP_absurd {α} {x : Outcome α} {m : String} (hx : NP x) (h : x = .panic m) : False := by
  subst h; simp [NP, Outcome.isPanic] at hx

/-- all eleven mutually recursive parser functions are panic-free at a given fuel -/
structure AllNP (nx : TokSrc) (nok : NumOK) (fuel : Nat) : Prop where
  or_ : ∀ s, NP (parseOr nx nok fuel s)
  orL : ∀ l s, NP (orLoop nx nok fuel l s)
  and_ : ∀ s, NP (parseAnd nx nok fuel s)
  andL : ∀ l s, NP (andLoop nx nok fuel l s)
  cmp : ∀ s, NP (parseComparison nx nok fuel s)
  not_ : ∀ s, NP (parseNot nx nok fuel s)
  prim : ∀ s, NP (parsePrimary nx nok fuel s)
  idf : ∀ s, NP (parseIdentifierOrFunction nx nok fuel s)
  acc : ∀ e s, NP (accessLoop nx nok fuel e s)
  fn : ∀ e s, NP (parseFunction nx nok fuel e s)
  arg : ∀ a s, NP (argLoop nx nok fuel a s)

syntax "np_leaf" ident ident ident ident : tactic
macro_rules
  | `(tactic| np_leaf $ih $hadv $nx $hnx) => `(tactic| first
    | rfl
    | exact ($ih).or_ _ | exact ($ih).orL _ _ | exact ($ih).and_ _ | exact ($ih).andL _ _
    | exact ($ih).cmp _ | exact ($ih).not_ _ | exact ($ih).prim _ | exact ($ih).idf _
    | exact ($ih).acc _ _ | exact ($ih).fn _ _ | exact ($ih).arg _ _
    | exact parseNumber_NP $nx _ $hnx _ | exact parseArrayLiteral_NP $nx _ $hnx _ _ | exact parseIn_NP $nx _ $hnx _ _ _
    | (exfalso; exact NP_absurd ($hadv _) ‹_›)
    | (exfalso; exact NP_absurd (expect_NP $nx $hnx _ _ _) ‹_›)
    | (exfalso; exact NP_absurd (($ih).or_ _) ‹_›)
    | (exfalso; exact NP_absurd (($ih).arg _ _) ‹_›))

theorem allNP (nx : TokSrc) (nok : NumOK) (hnx : ∀ p, NP (nx p)) : ∀ fuel, AllNP nx nok fuel := by
  intro fuel
  induction fuel with
  | zero =>
    constructor <;> intros
    all_goals first
      | (unfold parseOr; rfl) | (unfold orLoop; rfl) | (unfold parseAnd; rfl) | (unfold andLoop; rfl)
      | (unfold parseComparison; rfl) | (unfold parseNot; rfl) | (unfold parsePrimary; rfl)
      | (unfold parseIdentifierOrFunction; rfl) | (unfold accessLoop; rfl) | (unfold parseFunction; rfl)
      | (unfold argLoop; rfl)
  | succ f ih =>
    have hadv := advance_NP nx hnx
    constructor
    · intro s; unfold parseOr; repeat' split
      all_goals np_leaf ih hadv nx hnx
    · intro l s; unfold orLoop; repeat' split
      all_goals np_leaf ih hadv nx hnx
    · intro s; unfold parseAnd; repeat' split
      all_goals np_leaf ih hadv nx hnx
    · intro l s; unfold andLoop; repeat' split
      all_goals np_leaf ih hadv nx hnx
    · intro s; unfold parseComparison; repeat' split
      all_goals np_leaf ih hadv nx hnx
    · intro s; unfold parseNot; repeat' split
      all_goals np_leaf ih hadv nx hnx
    · intro s; unfold parsePrimary; repeat' split
      all_goals np_leaf ih hadv nx hnx
    · intro s; unfold parseIdentifierOrFunction; repeat' split
      all_goals np_leaf ih hadv nx hnx
    · intro e s; unfold accessLoop; repeat' split
      all_goals np_leaf ih hadv nx hnx
    · intro e s; unfold parseFunction; repeat' split
      all_goals np_leaf ih hadv nx hnx
    · intro a s; unfold argLoop; repeat' split
      all_goals np_leaf ih hadv nx hnx

/-- **`BuildFilter` never panics while parsing**, for every input text and number-literal oracle -/
theorem parse_NP (inp : ByteArray) (nok : NumOK) : NP (parse inp nok) := by
  have hnx : ∀ p, NP (nextToken inp p) := fun p => by
    obtain ⟨r, hr⟩ := nextToken_ok inp p
    rw [hr]; rfl
  unfold parse parseSrc
  have h1 := newParser_NP (nextToken inp) hnx
  have h2 := (allNP (nextToken inp) nok hnx (parseFuel inp.size)).or_
  cases h : newParser (nextToken inp) with
  | panic m => exact (NP_absurd h1 h).elim
  | err m => rfl
  | ok s =>
    simp only
    cases h' : parseOr (nextToken inp) nok (parseFuel inp.size) s with
    | panic m => exact (NP_absurd (h2 s) h').elim
    | err m => rfl
    | ok r => obtain ⟨e, s1⟩ := r; simp only; split <;> rfl

end Syzgy.Query
