import Syzgy.Lemmas.Runs
/-!
# The byte-level store refines the segment-level store

`Lay file free segs`: the file is the rendering of a list of well-formed segments and the free map is
the list of its maximal FREE runs. `retireSpan` and `placeSpan` (the two halves of `WriteRecord`, the
first also being `RemoveRecord`) take such a layout to such a layout, and what they do to the segment
list is stated exactly.
-/
namespace Syzgy

theorem render_append (a b : List Seg) : render (a ++ b) = render a ++ render b := by
  simp [render]

theorem render_cons (s : Seg) (ss : List Seg) : render (s :: ss) = s.bytes ++ render ss := by
  simp [render]

theorem render_nil : render [] = [] := rfl

theorem segsSize_append (a b : List Seg) : segsSize (a ++ b) = segsSize a + segsSize b := by
  simp [segsSize]

theorem segsSize_nil : segsSize [] = 0 := rfl

theorem splice_at (x y z data : Bytes) (h : data.length = y.length) :
    splice (x ++ y ++ z) x.length data = x ++ data ++ z := by
  unfold splice
  rw [List.append_assoc x y z, List.take_left' rfl, h]
  congr 1
  rw [← List.append_assoc, List.drop_left' (by simp)]

/-- layout invariant of a data file and its free map -/
structure Lay (file : Bytes) (free : List Sp) (segs : List Seg) : Prop where
  file : file = render segs
  ok : ∀ x ∈ segs, x.OK
  free : free = runsOf segs

theorem ok_append {a b : List Seg} (h : ∀ x ∈ a ++ b, x.OK) : (∀ x ∈ a, x.OK) ∧ (∀ x ∈ b, x.OK) :=
  ⟨fun x hx => h x (by simp [hx]), fun x hx => h x (by simp [hx])⟩

/-- a region none of whose bytes is covered is disjoint from every region of a canonical map -/
theorem disj_of_not_covers (fm : List Sp) (hg : Good fm) (start len : Nat) (hlen : 0 < len)
    (h : ∀ p, start ≤ p → p < start + len → ¬ covers fm p) :
    ∀ s ∈ fm, s.disj ({ start := start, len := len } : Sp) := by
  intro s hs
  have hpos := hg.1 s hs
  simp only [Sp.disj, Sp.stop]
  by_cases h1 : s.start + s.len ≤ start
  · exact Or.inl h1
  · by_cases h2 : start + len ≤ s.start
    · exact Or.inr h2
    · exfalso
      by_cases h3 : s.start ≤ start
      · exact h start (Nat.le_refl _) (by omega) ⟨s, hs, by simp only [Sp.has, Sp.stop]; omega⟩
      · exact h s.start (by omega) (by omega) ⟨s, hs, by simp only [Sp.has, Sp.stop]; omega⟩

theorem freeAt_act_cons (off : Nat) (seq : Nat) (rid : Bytes) (st : List Stream) (pad : Nat) (ss : List Seg) (p : Nat) :
    freeAt off (.act seq rid st pad :: ss) p ↔ freeAt (off + (Seg.act seq rid st pad).size) ss p := by
  simp [freeAt, Seg.isFree]

theorem freeAt_free_cons (off : Nat) (junk : Bytes) (ss : List Seg) (p : Nat) :
    freeAt off (.free junk :: ss) p ↔ (off ≤ p ∧ p < off + (Seg.free junk).size) ∨ freeAt (off + (Seg.free junk).size) ss p := by
  simp [freeAt, Seg.isFree]

/-- the length field of the segment that starts at `segsSize A` -/
theorem rd_len_at (A B : List Seg) (s : Seg) (hA : ∀ x ∈ A, x.OK) (hs : s.OK) :
    rd32At (render (A ++ s :: B)) (segsSize A + 4) = some s.size := by
  unfold rd32At
  rw [render_append, render_cons, ← List.drop_drop, List.drop_left' (render_length A hA)]
  exact Seg.rd_len s hs _

/-- what is left of an active span behind its 8-byte header -/
def actJunk (seq : Nat) (rid : Bytes) (st : List Stream) (pad : Nat) : Bytes :=
  spanBody seq rid st ++ zeros pad ++ be32 (checksum (actPre seq rid st pad))

theorem actJunk_length (seq : Nat) (rid : Bytes) (st : List Stream) (pad : Nat) :
    8 + (actJunk seq rid st pad).length = (Seg.act seq rid st pad).size := by
  simp [actJunk, Seg.size, zeros_length, be32_length]; omega

theorem actBytes_eq (seq : Nat) (rid : Bytes) (st : List Stream) (pad : Nat) (h : (Seg.act seq rid st pad).OK) :
    actBytes seq rid st pad =
      be32 activeMagic ++ (be32 ((Seg.act seq rid st pad).size) ++ (actJunk seq rid st pad)) := by
  have hL := h.2.2.2.2.2
  simp only [actBytes, actPre, actJunk, Seg.size, List.append_assoc, Nat.mod_eq_of_lt hL]

theorem free_of_act_ok (seq : Nat) (rid : Bytes) (st : List Stream) (pad : Nat) (h : (Seg.act seq rid st pad).OK) :
    (Seg.free (actJunk seq rid st pad)).OK := by
  have h1 := Seg.size_ge _ h
  have h2 := Seg.size_lt _ h
  have := actJunk_length seq rid st pad
  exact ⟨by omega, by omega⟩

/-- **retiring a span** (`RemoveRecord`, and the last step of an overwriting `WriteRecord`): the active
    segment at `segsSize A` becomes a FREE segment of the same size, nothing else in the file changes,
    and the free map is again the list of maximal FREE runs -/
theorem retire_spec (file : Bytes) (free : List Sp) (A B : List Seg) (seq : Nat) (rid : Bytes) (st : List Stream) (pad : Nat)
    (h : Lay file free (A ++ .act seq rid st pad :: B)) :
    retireSpan file free (segsSize A) =
      .ok (render (A ++ .free (actJunk seq rid st pad) :: B), runsOf (A ++ .free (actJunk seq rid st pad) :: B)) ∧
    (∀ x ∈ A ++ .free (actJunk seq rid st pad) :: B, x.OK) := by
  obtain ⟨hfile, hok, hfree⟩ := h
  have hA : ∀ x ∈ A, x.OK := fun x hx => hok x (by simp [hx])
  have hB : ∀ x ∈ B, x.OK := fun x hx => hok x (by simp [hx])
  have hs : (Seg.act seq rid st pad).OK := hok _ (by simp)
  have hok' : ∀ x ∈ A ++ .free (actJunk seq rid st pad) :: B, x.OK := by
    intro x hx
    simp only [List.mem_append, List.mem_cons] at hx
    rcases hx with hx | rfl | hx
    · exact hA x hx
    · exact free_of_act_ok seq rid st pad hs
    · exact hB x hx
  refine ⟨?_, hok'⟩
  have hsz := Seg.size_ge _ hs
  simp only [minSpanLength] at hsz
  have hlen : rd32At file (segsSize A + 4) = some (Seg.act seq rid st pad).size := by
    rw [hfile]; exact rd_len_at A B _ hA hs
  have hfl : file.length = segsSize A + (Seg.act seq rid st pad).size + segsSize B := by
    rw [hfile, render_length _ hok, segsSize_append, segsSize_cons]; omega
  unfold retireSpan
  rw [hlen]
  simp only
  rw [if_neg (by omega)]
  -- the file
  have hf2 : splice file (segsSize A) (be32 freeMagic) = render (A ++ .free (actJunk seq rid st pad) :: B) := by
    rw [hfile, render_append, render_cons, render_append, render_cons]
    simp only [Seg.bytes]
    rw [actBytes_eq seq rid st pad hs]
    have := splice_at (render A) (be32 activeMagic)
      (be32 (Seg.act seq rid st pad).size ++ actJunk seq rid st pad ++ render B) (be32 freeMagic) rfl
    rw [render_length A hA] at this
    have hj := actJunk_length seq rid st pad
    have hmod : (8 + (actJunk seq rid st pad).length) % 4294967296 = (Seg.act seq rid st pad).size := by
      rw [hj]; exact Nat.mod_eq_of_lt (Seg.size_lt _ hs)
    rw [hmod]
    simpa [List.append_assoc] using this
  -- the free map
  have hgood := runsOf_good _ hok
  have hfm : markFree free (segsSize A) (Seg.act seq rid st pad).size = runsOf (A ++ .free (actJunk seq rid st pad) :: B) := by
    rw [hfree]
    have hnc : ∀ p, segsSize A ≤ p → p < segsSize A + (Seg.act seq rid st pad).size →
        ¬ covers (runsOf (A ++ .act seq rid st pad :: B)) p := by
      intro p h1 h2 hc
      rw [hgood.2 p, freeAt_append, freeAt_act_cons] at hc
      rcases hc with hc | hc
      · have := freeAt_bounds _ _ _ hc; omega
      · have := freeAt_bounds _ _ _ hc; omega
    have hspec := markFree_spec _ (segsSize A) (Seg.act seq rid st pad).size hgood.1 (by omega)
      (disj_of_not_covers _ hgood.1 _ _ (by omega) hnc)
    apply free_eq_runsOf _ hok' _ hspec.1
    intro p
    rw [hspec.2 p, hgood.2 p, freeAt_append, freeAt_append, freeAt_act_cons, freeAt_free_cons]
    have hj := actJunk_length seq rid st pad
    simp only [Seg.size] at hj ⊢
    rw [hj]
    simp only [Nat.zero_add]
    constructor
    · rintro ((h | h) | h)
      · exact Or.inl h
      · exact Or.inr (Or.inr h)
      · exact Or.inr (Or.inl h)
    · rintro (h | h | h)
      · exact Or.inl (Or.inl h)
      · exact Or.inr h
      · exact Or.inl (Or.inr h)
  rw [hf2, hfm]


/-! ## pieces of `placeSpan` -/

theorem flatMap_streamBytes_length (st : List Stream) :
    (st.flatMap streamBytes).length = (st.map streamLen).sum := by
  induction st with
  | nil => rfl
  | cons a r ih => simp [List.flatMap_cons, streamBytes_length, streamLen, ih]

theorem spanBody_length (seq : Nat) (rid : Bytes) (st : List Stream) :
    (spanBody seq rid st).length = len7 seq + len7 rid.length + rid.length + 1 + (st.map streamLen).sum := by
  simp only [spanBody, List.length_append, enc7_length, flatMap_streamBytes_length, List.length_cons, List.length_nil]

theorem spanLength_eq (seq : Nat) (rid : Bytes) (st : List Stream) :
    spanLength seq rid st = (Seg.act seq rid st 0).size := by
  simp [spanLength, Seg.size, spanBody_length]; omega

theorem serializeSpan_eq (seq : Nat) (rid : Bytes) (st : List Stream) :
    serializeSpan seq rid st = actPre seq rid st 0 := by
  simp [serializeSpan, actPre, spanBody, zeros, spanLength_eq, Seg.size, List.append_assoc]

theorem serializeSpan_length (seq : Nat) (rid : Bytes) (st : List Stream) :
    (serializeSpan seq rid st).length + 4 = (Seg.act seq rid st 0).size := by
  simp [serializeSpan, be32_length, Seg.size, spanBody]; omega

theorem size_pad (seq : Nat) (rid : Bytes) (st : List Stream) (pad : Nat) :
    (Seg.act seq rid st pad).size = (Seg.act seq rid st 0).size + pad := by
  simp [Seg.size]; omega

/-- the padded span: zeros appended, length field rewritten -/
theorem padded_eq (seq : Nat) (rid : Bytes) (st : List Stream) (pad : Nat) :
    setLengthField (serializeSpan seq rid st ++ zeros pad) ((serializeSpan seq rid st ++ zeros pad).length + 4) =
      actPre seq rid st pad := by
  have hl : (serializeSpan seq rid st ++ zeros pad).length + 4 = 8 + (spanBody seq rid st).length + pad + 4 := by
    have := serializeSpan_length seq rid st
    simp only [Seg.size] at this
    simp only [List.length_append, zeros_length]; omega
  rw [hl]
  simp only [setLengthField, serializeSpan, actPre, spanBody, List.append_assoc]
  rw [List.take_left' (be32_length _)]
  congr 1

/-- sizes and counts of a record that fit the span format, with room for any padding -/
def NewOK (seq : Nat) (rid : Bytes) (st : List Stream) : Prop :=
  seq < 4294967296 ∧ rid.length < 9223372036854775808 ∧ st.length < 256 ∧ (∀ s ∈ st, StreamOK s) ∧
  (Seg.act seq rid st 0).size + minSpanLength < 4294967296

theorem NewOK.seg {seq : Nat} {rid : Bytes} {st : List Stream} (h : NewOK seq rid st) (pad : Nat) (hp : pad < minSpanLength) :
    (Seg.act seq rid st pad).OK := by
  obtain ⟨h1, h2, h3, h4, h5⟩ := h
  refine ⟨h1, h2, h3, h4, hp, ?_⟩
  simp only [Seg.size] at h5
  omega

theorem freeAt_allFree (off : Nat) (R : List Seg) (hR : ∀ x ∈ R, x.isFree = true) (p : Nat) :
    freeAt off R p ↔ (off ≤ p ∧ p < off + segsSize R) := by
  induction R generalizing off with
  | nil => simp [freeAt, segsSize]
  | cons s ss ih =>
    have hs := hR s (by simp)
    simp only [freeAt, hs, true_and, ih (off + s.size) (fun x hx => hR x (by simp [hx])), segsSize_cons]
    constructor
    · rintro (h | h) <;> constructor <;> omega
    · intro h
      by_cases hp : p < off + s.size
      · exact Or.inl ⟨h.1, hp⟩
      · exact Or.inr ⟨by omega, by omega⟩

theorem good_remove {pre post : List Sp} {s : Sp} (h : Good (pre ++ s :: post)) :
    Good (pre ++ post) ∧ ∀ p, covers (pre ++ post) p ↔ (covers (pre ++ s :: post) p ∧ ¬ s.has p) := by
  obtain ⟨gp, gq, hs, hps, hsq, hpq⟩ := good_append_cons h
  refine ⟨⟨?_, ?_⟩, ?_⟩
  · intro t ht
    rcases List.mem_append.mp ht with h | h
    · exact gp.1 t h
    · exact gq.1 t h
  · rw [List.pairwise_append]; exact ⟨gp.2, gq.2, hpq⟩
  · intro p
    simp only [covers, List.mem_append, List.mem_cons]
    constructor
    · rintro ⟨t, ht | ht, hpt⟩
      · refine ⟨⟨t, Or.inl ht, hpt⟩, ?_⟩
        have := hps t ht
        simp only [Sp.has, Sp.stop] at *; omega
      · refine ⟨⟨t, Or.inr (Or.inr ht), hpt⟩, ?_⟩
        have := hsq t ht
        simp only [Sp.has, Sp.stop] at *; omega
    · rintro ⟨⟨t, ht | rfl | ht, hpt⟩, hn⟩
      · exact ⟨t, Or.inl ht, hpt⟩
      · exact absurd hpt hn
      · exact ⟨t, Or.inr ht, hpt⟩

theorem markUsed_go_exact (pre post acc : List Sp) (s : Sp) (hs : 0 < s.len) (hpre : ∀ t ∈ pre, t.stop < s.start) :
    markUsed.go (pre ++ s :: post) acc s.start s.len = acc.reverse ++ pre ++ post := by
  induction pre generalizing acc with
  | nil =>
    simp [markUsed.go]
  | cons t r ih =>
    have ht := hpre t (by simp)
    simp only [Sp.stop] at ht
    have hc : ¬ (t.start ≤ s.start ∧ s.start + s.len ≤ t.start + t.len) := by omega
    simp only [List.cons_append, markUsed.go, hc, ↓reduceIte]
    rw [ih (t :: acc) (fun x hx => hpre x (by simp [hx]))]
    simp

/-- `markUsed` of exactly one region of a canonical map removes that region -/
theorem markUsed_exact (pre post : List Sp) (s : Sp) (hg : Good (pre ++ s :: post)) :
    markUsed (pre ++ s :: post) s.start s.len = pre ++ post := by
  obtain ⟨_, _, hs, hps, _, _⟩ := good_append_cons hg
  have hne : ¬ s.len = 0 := by omega
  simp only [markUsed, hne, ↓reduceIte]
  rw [markUsed_go_exact pre post [] s hs hps]
  simp


/-- where a region of `runsAux` comes from: a block of FREE segments, possibly continuing `cur` -/
theorem runsAux_mem (segs : List Seg) (off : Nat) (cur : Option Sp) (sp : Sp) (h : sp ∈ runsAux off cur segs) :
    (∃ A R B, segs = A ++ R ++ B ∧ R ≠ [] ∧ (∀ x ∈ R, x.isFree = true) ∧
      sp.start = off + segsSize A ∧ sp.len = segsSize R) ∨
    (∃ r R B, cur = some r ∧ segs = R ++ B ∧ (∀ x ∈ R, x.isFree = true) ∧
      sp.start = r.start ∧ sp.len = r.len + segsSize R) := by
  induction segs generalizing off cur with
  | nil =>
    cases cur with
    | none => simp [runsAux] at h
    | some r =>
      simp only [runsAux, List.mem_singleton] at h
      subst h
      exact Or.inr ⟨sp, [], [], rfl, rfl, by simp, rfl, by simp [segsSize]⟩
  | cons s ss ih =>
    by_cases hf : s.isFree = true
    · cases cur with
      | none =>
        simp only [runsAux, hf, ↓reduceIte] at h
        rcases ih _ _ h with ⟨A, R, B, e, hne, hR, h1, h2⟩ | ⟨r, R, B, hr, e, hR, h1, h2⟩
        · refine Or.inl ⟨s :: A, R, B, by rw [e]; simp, hne, hR, ?_, h2⟩
          rw [h1, segsSize_cons]; omega
        · cases hr
          refine Or.inl ⟨[], s :: R, B, by rw [e]; simp, by simp, ?_, by simpa [segsSize] using h1, ?_⟩
          · intro x hx
            rcases List.mem_cons.mp hx with rfl | hx
            · exact hf
            · exact hR x hx
          · rw [h2, segsSize_cons]
      | some r0 =>
        simp only [runsAux, hf, ↓reduceIte] at h
        rcases ih _ _ h with ⟨A, R, B, e, hne, hR, h1, h2⟩ | ⟨r, R, B, hr, e, hR, h1, h2⟩
        · refine Or.inl ⟨s :: A, R, B, by rw [e]; simp, hne, hR, ?_, h2⟩
          rw [h1, segsSize_cons]; omega
        · cases hr
          refine Or.inr ⟨r0, s :: R, B, rfl, by rw [e]; simp, ?_, h1, ?_⟩
          · intro x hx
            rcases List.mem_cons.mp hx with rfl | hx
            · exact hf
            · exact hR x hx
          · rw [h2, segsSize_cons]; simp only; omega
    · have hf' : s.isFree = false := by simpa using hf
      cases cur with
      | none =>
        simp only [runsAux, hf', Bool.false_eq_true, ↓reduceIte] at h
        rcases ih _ _ h with ⟨A, R, B, e, hne, hR, h1, h2⟩ | ⟨r, R, B, hr, e, hR, h1, h2⟩
        · refine Or.inl ⟨s :: A, R, B, by rw [e]; simp, hne, hR, ?_, h2⟩
          rw [h1, segsSize_cons]; omega
        · cases hr
      | some r0 =>
        simp only [runsAux, hf', Bool.false_eq_true, ↓reduceIte, List.mem_cons] at h
        rcases h with rfl | h
        · exact Or.inr ⟨sp, [], s :: ss, rfl, rfl, by simp, rfl, by simp [segsSize]⟩
        · rcases ih _ _ h with ⟨A, R, B, e, hne, hR, h1, h2⟩ | ⟨r, R, B, hr, e, hR, h1, h2⟩
          · refine Or.inl ⟨s :: A, R, B, by rw [e]; simp, hne, hR, ?_, h2⟩
            rw [h1, segsSize_cons]; omega
          · cases hr

/-- every region of the free map of a layout is a non-empty block of consecutive FREE segments -/
theorem runsOf_mem (segs : List Seg) (sp : Sp) (h : sp ∈ runsOf segs) :
    ∃ A R B, segs = A ++ R ++ B ∧ R ≠ [] ∧ (∀ x ∈ R, x.isFree = true) ∧
      sp.start = segsSize A ∧ sp.len = segsSize R := by
  rcases runsAux_mem segs 0 none sp h with ⟨A, R, B, e, hne, hR, h1, h2⟩ | ⟨r, R, B, hr, _⟩
  · exact ⟨A, R, B, e, hne, hR, by omega, h2⟩
  · cases hr


/-- the bytes stored by `placeSpan`: the span with `pad` bytes of padding, followed by a FREE header
    when the remainder is large enough to be a span of its own -/
def placedBytes (seq : Nat) (rid : Bytes) (st : List Stream) (rem : Nat) : Bytes :=
  if 0 < rem ∧ rem < minSpanLength then actBytes seq rid st rem
  else if rem ≥ minSpanLength then actBytes seq rid st 0 ++ (be32 freeMagic ++ be32 (rem % 4294967296))
  else actBytes seq rid st 0

/-- `placeSpan` in closed form over the result of `allocateSpan` -/
theorem placeSpan_eq (file : Bytes) (free : List Sp) (seq : Nat) (rid : Bytes) (st : List Stream) :
    placeSpan file free seq rid st =
      (let a := allocateSpan file free (Seg.act seq rid st 0).size
       let bytes := placedBytes seq rid st a.remaining
       let free1 := if 0 < a.remaining ∧ a.remaining < minSpanLength
         then markUsed a.free (a.offset + (Seg.act seq rid st 0).size) a.remaining else a.free
       if a.offset + bytes.length > a.file.length then .panic "writeAt: offset out of bounds" else
       .ok { offset := a.offset, file := splice a.file a.offset bytes, free := free1,
             images := (if a.grew then [("grow", a.file)] else []) ++ [("writeAt", splice a.file a.offset bytes)] }) := by
  unfold placeSpan
  have e : ∀ x, x + (serializeSpan seq rid st).length + 4 = x + (Seg.act seq rid st 0).size := by
    intro x; have := serializeSpan_length seq rid st; omega
  simp only [serializeSpan_length, e]
  generalize allocateSpan file free (Seg.act seq rid st 0).size = a
  by_cases hp : 0 < a.remaining ∧ a.remaining < minSpanLength
  · have hge : ¬ a.remaining ≥ minSpanLength := by omega
    simp only [hp, decide_true, Bool.and_self, ↓reduceIte, padded_eq, hge, placedBytes, actBytes, and_self]
  · have hb : (decide (0 < a.remaining) && decide (a.remaining < minSpanLength)) = false := by
      simpa using hp
    simp only [hb, Bool.false_eq_true, ↓reduceIte, serializeSpan_eq, placedBytes, hp, actBytes]
    by_cases hge : a.remaining ≥ minSpanLength
    · simp only [hge, ↓reduceIte, List.append_assoc]
    · simp only [hge, ↓reduceIte]


/-- FREE bytes after a block `R` of FREE segments has been replaced by a block `X` of the same size -/
theorem cover_replace (A R B X : List Seg) (hsz : segsSize X = segsSize R) (hR : ∀ x ∈ R, x.isFree = true) (p : Nat) :
    freeAt 0 (A ++ X ++ B) p ↔
      ((freeAt 0 (A ++ R ++ B) p ∧ ¬ (segsSize A ≤ p ∧ p < segsSize A + segsSize R)) ∨ freeAt (segsSize A) X p) := by
  simp only [freeAt_append, segsSize_append, Nat.zero_add, hsz, freeAt_allFree _ R hR]
  constructor
  · rintro ((h | h) | h)
    · have := freeAt_bounds _ _ _ h
      exact Or.inl ⟨Or.inl (Or.inl h), by omega⟩
    · exact Or.inr h
    · have := freeAt_bounds _ _ _ h
      exact Or.inl ⟨Or.inr h, by omega⟩
  · rintro (⟨(h | h) | h, hn⟩ | h)
    · exact Or.inl (Or.inl h)
    · exact absurd h hn
    · exact Or.inr h
    · exact Or.inl (Or.inr h)

theorem act_bytes_length (seq : Nat) (rid : Bytes) (st : List Stream) (pad : Nat) (h : (Seg.act seq rid st pad).OK) :
    (actBytes seq rid st pad).length = (Seg.act seq rid st pad).size :=
  Seg.bytes_length (.act seq rid st pad) h


/-- overwriting the front of a block `R` with `bytes`: the result renders `X` in its place -/
theorem splice_block (A R B X : List Seg) (bytes : Bytes) (hA : ∀ x ∈ A, x.OK) (hR : ∀ x ∈ R, x.OK)
    (hlen : bytes.length ≤ segsSize R) (hX : render X = bytes ++ (render R).drop bytes.length) :
    splice (render (A ++ R ++ B)) (segsSize A) bytes = render (A ++ X ++ B) := by
  have hRl := render_length R hR
  have hAl := render_length A hA
  rw [render_append, render_append, render_append, render_append, hX]
  have hsplit : render R = (render R).take bytes.length ++ (render R).drop bytes.length :=
    (List.take_append_drop _ _).symm
  have htl : bytes.length = ((render R).take bytes.length).length := by
    rw [List.length_take]; omega
  have := splice_at (render A) ((render R).take bytes.length) ((render R).drop bytes.length ++ render B) bytes htl
  rw [hAl] at this
  have hfe : render A ++ render R ++ render B =
      render A ++ (render R).take bytes.length ++ ((render R).drop bytes.length ++ render B) := by
    rw [List.append_assoc, List.append_assoc, ← List.append_assoc ((render R).take bytes.length),
      List.take_append_drop]
  rw [hfe, this]
  simp [List.append_assoc]

theorem mem_three {A B : List Seg} {X : List Seg} (hA : ∀ x ∈ A, x.OK) (hX : ∀ x ∈ X, x.OK) (hB : ∀ x ∈ B, x.OK) :
    ∀ x ∈ A ++ X ++ B, x.OK := by
  intro x hx
  simp only [List.mem_append] at hx
  rcases hx with (hx | hx) | hx
  · exact hA x hx
  · exact hX x hx
  · exact hB x hx

/-- **placing a span into free space**: first fit among the maximal FREE runs; the run `R` is replaced by
    the new active segment (padded when the remainder is too small for a span) and, when the remainder
    is large enough, a FREE segment for the rest; nothing else in the file changes -/
theorem place_fit (file : Bytes) (free : List Sp) (segs : List Seg) (seq : Nat) (rid : Bytes) (st : List Stream)
    (h : Lay file free segs) (hnew : NewOK seq rid st) (hbig : file.length < 4294967296)
    (start rem : Nat) (free' : List Sp)
    (hget : getFreeRange free (Seg.act seq rid st 0).size = some (start, rem, free')) :
    ∃ A R B pad F, segs = A ++ R ++ B ∧ (∀ x ∈ R, x.isFree = true) ∧ (∀ x ∈ F, x.isFree = true) ∧
      pad < minSpanLength ∧
      placeSpan file free seq rid st = .ok
        { offset := segsSize A, file := render (A ++ (.act seq rid st pad :: F) ++ B),
          free := runsOf (A ++ (.act seq rid st pad :: F) ++ B),
          images := [("writeAt", render (A ++ (.act seq rid st pad :: F) ++ B))] } ∧
      (∀ x ∈ A ++ (.act seq rid st pad :: F) ++ B, x.OK) ∧
      segsSize (.act seq rid st pad :: F) = segsSize R := by
  obtain ⟨hfile, hok, hfree⟩ := h
  have hs0 := hnew.seg 0 (by decide)
  have hn15 := Seg.size_ge _ hs0
  simp only [minSpanLength] at hn15
  have hgood := runsOf_good segs hok
  have hget0 := hget
  have hspec := getFreeRange_spec free _ _ _ _ (by omega) (hfree ▸ hgood.1) hget0
  unfold getFreeRange at hget
  rw [if_neg (by omega)] at hget
  rcases getFreeRange_go free [] (Seg.act seq rid st 0).size with ⟨h1, _⟩ | ⟨pre, sp, post, e, _, hfit, h4⟩
  · rw [h1] at hget; cases hget
  rw [h4] at hget
  simp only [List.reverse_nil, List.nil_append, Option.some.injEq, Prod.mk.injEq] at hget
  obtain ⟨rfl, rfl, hfree'⟩ := hget
  have hsp_mem : sp ∈ runsOf segs := by rw [← hfree, e]; simp
  obtain ⟨A, R, B, hsegs, _, hR, hsA, hsR⟩ := runsOf_mem segs sp hsp_mem
  subst hsegs
  have hA : ∀ x ∈ A, x.OK := fun x hx => hok x (by simp [hx])
  have hRok : ∀ x ∈ R, x.OK := fun x hx => hok x (by simp [hx])
  have hB : ∀ x ∈ B, x.OK := fun x hx => hok x (by simp [hx])
  have hfl : file.length = segsSize A + segsSize R + segsSize B := by
    rw [hfile, render_length _ hok, segsSize_append, segsSize_append]
  obtain ⟨_, hg', hcov'⟩ := hspec
  rw [placeSpan_eq]
  simp only [allocateSpan, hget0]
  by_cases hpad : 0 < sp.len - (Seg.act seq rid st 0).size ∧ sp.len - (Seg.act seq rid st 0).size < minSpanLength
  · -- the remainder becomes padding
    have hsp := hnew.seg (sp.len - (Seg.act seq rid st 0).size) hpad.2
    have hbl : (placedBytes seq rid st (sp.len - (Seg.act seq rid st 0).size)).length = segsSize R := by
      simp only [placedBytes, hpad, and_self, ↓reduceIte]
      rw [act_bytes_length _ _ _ _ hsp, size_pad]; omega
    have hX : ∀ x ∈ [Seg.act seq rid st (sp.len - (Seg.act seq rid st 0).size)], x.OK := by
      intro x hx; simp at hx; subst hx; exact hsp
    have hokN := mem_three hA hX hB
    have hsz : segsSize [Seg.act seq rid st (sp.len - (Seg.act seq rid st 0).size)] = segsSize R := by
      simp only [segsSize_cons, segsSize_nil]; rw [size_pad]; omega
    have hf : splice file sp.start (placedBytes seq rid st (sp.len - (Seg.act seq rid st 0).size)) =
        render (A ++ [Seg.act seq rid st (sp.len - (Seg.act seq rid st 0).size)] ++ B) := by
      rw [hfile, hsA]
      apply splice_block A R B _ _ hA hRok (by omega)
      rw [hbl, ← render_length R hRok, List.drop_length]
      simp [render, Seg.bytes, placedBytes, hpad]
    have hm : markUsed free' (sp.start + (Seg.act seq rid st 0).size) (sp.len - (Seg.act seq rid st 0).size) =
        runsOf (A ++ [Seg.act seq rid st (sp.len - (Seg.act seq rid st 0).size)] ++ B) := by
      -- free' holds the remainder as a region of its own; `markUsed` removes exactly that region
      have hrem : ¬ (sp.len - (Seg.act seq rid st 0).size = 0) := by omega
      rw [if_neg hrem] at hfree'
      have hgf' : Good (pre ++ ({ start := sp.start + (Seg.act seq rid st 0).size, len := sp.len - (Seg.act seq rid st 0).size } : Sp) :: post) := by
        rw [hfree']; exact hg'
      have hmu := markUsed_exact pre post _ hgf'
      simp only at hmu
      rw [← hfree', hmu]
      obtain ⟨hg2, hc2⟩ := good_remove hgf'
      apply free_eq_runsOf _ hokN _ hg2
      intro p
      rw [hc2 p, hfree', hcov' p, hfree, hgood.2 p, cover_replace A R B _ hsz hR p]
      simp only [freeAt, Seg.isFree, Bool.false_eq_true, false_and, false_or, or_false, Sp.has, Sp.stop]
      constructor
      · rintro ⟨⟨h1, h2⟩, h3⟩
        exact ⟨h1, by omega⟩
      · rintro ⟨h1, h2⟩
        exact ⟨⟨h1, by omega⟩, by omega⟩
    refine ⟨A, R, B, sp.len - (Seg.act seq rid st 0).size, [], rfl, hR, by simp, hpad.2, ?_, hokN, hsz⟩
    rw [if_neg (by rw [hbl]; omega)]
    rw [hsA] at hf hm
    simp only [hpad, and_self, ↓reduceIte, hf, hm, hsA, Bool.false_eq_true, List.nil_append]
  · have hRC : ∀ p, segsSize A ≤ p → p < segsSize A + segsSize R → freeAt 0 (A ++ R ++ B) p := by
      intro p h1 h2
      rw [freeAt_append, freeAt_append, freeAt_allFree _ R hR]
      exact Or.inl (Or.inr ⟨by omega, by omega⟩)
    by_cases hge : sp.len - (Seg.act seq rid st 0).size ≥ minSpanLength
    · -- the remainder becomes a FREE segment whose body is whatever was there before
      have hjl : ((render R).drop ((Seg.act seq rid st 0).size + 8)).length = segsSize R - ((Seg.act seq rid st 0).size + 8) := by
        rw [List.length_drop, render_length R hRok]
      have hbl : (placedBytes seq rid st (sp.len - (Seg.act seq rid st 0).size)).length = (Seg.act seq rid st 0).size + 8 := by
        simp only [placedBytes, hpad, ↓reduceIte, hge, List.length_append, be32_length]
        rw [act_bytes_length _ _ _ _ hs0]
      have hfo : (Seg.free ((render R).drop ((Seg.act seq rid st 0).size + 8))).OK := by
        simp only [Seg.OK, hjl, minSpanLength] at hge ⊢
        constructor <;> omega
      have hX : ∀ x ∈ [Seg.act seq rid st 0, Seg.free ((render R).drop ((Seg.act seq rid st 0).size + 8))], x.OK := by
        intro x hx; simp at hx; rcases hx with rfl | rfl
        · exact hs0
        · exact hfo
      have hokN := mem_three hA hX hB
      have hsz : segsSize [Seg.act seq rid st 0, Seg.free ((render R).drop ((Seg.act seq rid st 0).size + 8))] = segsSize R := by
        have hfs : (Seg.free ((render R).drop ((Seg.act seq rid st 0).size + 8))).size =
            8 + ((render R).drop ((Seg.act seq rid st 0).size + 8)).length := rfl
        simp only [segsSize_cons, segsSize_nil, hfs, hjl]
        simp only [minSpanLength] at hge
        omega
      have hf : splice file (segsSize A) (placedBytes seq rid st (sp.len - (Seg.act seq rid st 0).size)) =
          render (A ++ [Seg.act seq rid st 0, Seg.free ((render R).drop ((Seg.act seq rid st 0).size + 8))] ++ B) := by
        rw [hfile]
        apply splice_block A R B _ _ hA hRok (by rw [hbl]; simp only [minSpanLength] at hge; omega)
        rw [hbl]
        have hmod : (8 + ((render R).drop ((Seg.act seq rid st 0).size + 8)).length) % 4294967296 =
            (sp.len - (Seg.act seq rid st 0).size) % 4294967296 := by
          rw [hjl]; simp only [minSpanLength] at hge; congr 1; omega
        simp only [render_cons, render_nil, Seg.bytes, placedBytes, hpad, ↓reduceIte, hge, hmod,
          List.append_assoc, List.append_nil]
      have hm : free' = runsOf (A ++ [Seg.act seq rid st 0, Seg.free ((render R).drop ((Seg.act seq rid st 0).size + 8))] ++ B) := by
        apply free_eq_runsOf _ hokN _ hg'
        intro p
        rw [hcov' p, hfree, hgood.2 p, cover_replace A R B _ hsz hR p]
        have hfs : (Seg.free ((render R).drop ((Seg.act seq rid st 0).size + 8))).size =
            8 + ((render R).drop ((Seg.act seq rid st 0).size + 8)).length := rfl
        simp only [freeAt, Seg.isFree, Bool.false_eq_true, false_and, false_or, or_false, true_and, hfs, hjl]
        simp only [minSpanLength] at hge
        constructor
        · rintro ⟨h1, h2⟩
          by_cases hp : segsSize A ≤ p ∧ p < segsSize A + segsSize R
          · exact Or.inr ⟨by omega, by omega⟩
          · exact Or.inl ⟨h1, hp⟩
        · rintro (⟨h1, h2⟩ | ⟨h1, h2⟩)
          · exact ⟨h1, by omega⟩
          · exact ⟨hRC p (by omega) (by omega), by omega⟩
      refine ⟨A, R, B, 0, [Seg.free ((render R).drop ((Seg.act seq rid st 0).size + 8))], rfl, hR, by simp [Seg.isFree],
        by decide, ?_, hokN, hsz⟩
      rw [if_neg (by rw [hbl]; simp only [minSpanLength] at hge; omega)]
      simp only [hpad, ↓reduceIte, hf, hm, hsA, Bool.false_eq_true, List.nil_append]
    · -- exact fit
      have hrem0 : sp.len - (Seg.act seq rid st 0).size = 0 := by omega
      have hbl : (placedBytes seq rid st (sp.len - (Seg.act seq rid st 0).size)).length = segsSize R := by
        simp only [placedBytes, hpad, ↓reduceIte, hge]
        rw [act_bytes_length _ _ _ _ hs0]; omega
      have hX : ∀ x ∈ [Seg.act seq rid st 0], x.OK := by
        intro x hx; simp at hx; subst hx; exact hs0
      have hokN := mem_three hA hX hB
      have hsz : segsSize [Seg.act seq rid st 0] = segsSize R := by
        simp only [segsSize_cons, segsSize_nil]; omega
      have hf : splice file (segsSize A) (placedBytes seq rid st (sp.len - (Seg.act seq rid st 0).size)) =
          render (A ++ [Seg.act seq rid st 0] ++ B) := by
        rw [hfile]
        apply splice_block A R B _ _ hA hRok (by omega)
        rw [hbl, ← render_length R hRok, List.drop_length]
        simp [render, Seg.bytes, placedBytes, hpad, hge]
      have hm : free' = runsOf (A ++ [Seg.act seq rid st 0] ++ B) := by
        apply free_eq_runsOf _ hokN _ hg'
        intro p
        rw [hcov' p, hfree, hgood.2 p, cover_replace A R B _ hsz hR p]
        simp only [freeAt, Seg.isFree, Bool.false_eq_true, false_and, or_false]
        constructor
        · rintro ⟨h1, h2⟩
          exact ⟨h1, fun h => h2 ⟨by omega, by omega⟩⟩
        · rintro ⟨h1, h2⟩
          exact ⟨h1, fun h => h2 ⟨by omega, by omega⟩⟩
      refine ⟨A, R, B, 0, [], rfl, hR, by simp, by decide, ?_, hokN, hsz⟩
      rw [if_neg (by rw [hbl]; omega)]
      simp only [hpad, ↓reduceIte, hf, hm, hsA, Bool.false_eq_true, List.nil_append]


theorem runsOf_stop_le (segs : List Seg) (hok : ∀ s ∈ segs, s.OK) : ∀ s ∈ runsOf segs, s.stop ≤ segsSize segs := by
  obtain ⟨_, _, h3, _, _⟩ := runsAux_spec segs hok 0 none (by intro r hr; cases hr)
  intro s hs
  have := (h3 s hs).2
  omega

theorem zeros_append (a b : Nat) : zeros (a + b) = zeros a ++ zeros b := by
  simp [zeros, List.replicate_append_replicate]

theorem expandBy_ge (cur n : Nat) : n ≤ expandBy cur n := by
  unfold expandBy; omega

/-- **placing a span when nothing fits**: the file grows by `expandBy` bytes of zeros, the span goes to
    the old end of the file, and the rest of the growth becomes padding or a FREE segment -/
theorem place_grow (file : Bytes) (free : List Sp) (segs : List Seg) (seq : Nat) (rid : Bytes) (st : List Stream)
    (h : Lay file free segs) (hnew : NewOK seq rid st)
    (hbig : file.length + expandBy file.length (Seg.act seq rid st 0).size < 4294967296)
    (hget : getFreeRange free (Seg.act seq rid st 0).size = none) :
    ∃ pad F, (∀ x ∈ F, x.isFree = true) ∧ pad < minSpanLength ∧
      placeSpan file free seq rid st = .ok
        { offset := segsSize segs, file := render (segs ++ (.act seq rid st pad :: F)),
          free := runsOf (segs ++ (.act seq rid st pad :: F)),
          images := [("grow", file ++ zeros (expandBy file.length (Seg.act seq rid st 0).size)),
                     ("writeAt", render (segs ++ (.act seq rid st pad :: F)))] } ∧
      (∀ x ∈ segs ++ (.act seq rid st pad :: F), x.OK) := by
  obtain ⟨hfile, hok, hfree⟩ := h
  have hs0 := hnew.seg 0 (by decide)
  have hn15 := Seg.size_ge _ hs0
  simp only [minSpanLength] at hn15
  have hgood := runsOf_good segs hok
  have hfl : file.length = segsSize segs := by rw [hfile, render_length _ hok]
  have hge := expandBy_ge file.length (Seg.act seq rid st 0).size
  have hstop := runsOf_stop_le segs hok
  have hnc : ∀ p, segsSize segs ≤ p → ¬ covers (runsOf segs) p := by
    intro p hp hc
    rw [hgood.2 p] at hc
    have := freeAt_bounds _ _ _ hc
    omega
  rw [placeSpan_eq]
  simp only [allocateSpan, hget]
  generalize hE : expandBy file.length (Seg.act seq rid st 0).size = E at *
  have hokX : ∀ X : List Seg, (∀ x ∈ X, x.OK) → ∀ x ∈ segs ++ X, x.OK := by
    intro X hX x hx
    rcases List.mem_append.mp hx with h | h
    · exact hok x h
    · exact hX x h
  by_cases hpad : 0 < E - (Seg.act seq rid st 0).size ∧ E - (Seg.act seq rid st 0).size < minSpanLength
  · -- the rest of the growth becomes padding
    have hsp := hnew.seg (E - (Seg.act seq rid st 0).size) hpad.2
    have hbl : (placedBytes seq rid st (E - (Seg.act seq rid st 0).size)).length = E := by
      simp only [placedBytes, hpad, and_self, ↓reduceIte]
      rw [act_bytes_length _ _ _ _ hsp, size_pad]; omega
    have hokN := hokX [Seg.act seq rid st (E - (Seg.act seq rid st 0).size)] (by intro x hx; simp at hx; subst hx; exact hsp)
    have hf : splice (file ++ zeros E) file.length (placedBytes seq rid st (E - (Seg.act seq rid st 0).size)) =
        render (segs ++ [Seg.act seq rid st (E - (Seg.act seq rid st 0).size)]) := by
      have := splice_at file (zeros E) [] (placedBytes seq rid st (E - (Seg.act seq rid st 0).size)) (by rw [hbl, zeros_length])
      simp only [List.append_nil] at this
      rw [this, render_append, hfile]
      simp [render_cons, render_nil, Seg.bytes, placedBytes, hpad]
    have hm : markUsed (markFree free (file.length + (Seg.act seq rid st 0).size) (E - (Seg.act seq rid st 0).size))
        (file.length + (Seg.act seq rid st 0).size) (E - (Seg.act seq rid st 0).size) =
        runsOf (segs ++ [Seg.act seq rid st (E - (Seg.act seq rid st 0).size)]) := by
      rw [hfree]
      have hdis := disj_of_not_covers _ hgood.1 (file.length + (Seg.act seq rid st 0).size) (E - (Seg.act seq rid st 0).size)
        hpad.1 (fun p hp _ => hnc p (by omega))
      obtain ⟨hg1, hc1⟩ := markFree_spec _ _ _ hgood.1 hpad.1 hdis
      have hg2 : Good (runsOf segs ++ [(⟨file.length + (Seg.act seq rid st 0).size, E - (Seg.act seq rid st 0).size⟩ : Sp)]) := by
        refine ⟨?_, ?_⟩
        · intro s hs
          rcases List.mem_append.mp hs with h | h
          · exact hgood.1.1 s h
          · simp at h; subst h; exact hpad.1
        · rw [List.pairwise_append]
          refine ⟨hgood.1.2, by simp, ?_⟩
          intro a ha b hb
          simp at hb; subst hb
          have := hstop a ha
          simp only [Sp.stop] at this ⊢
          omega
      have heq : markFree (runsOf segs) (file.length + (Seg.act seq rid st 0).size) (E - (Seg.act seq rid st 0).size) =
          runsOf segs ++ [(⟨file.length + (Seg.act seq rid st 0).size, E - (Seg.act seq rid st 0).size⟩ : Sp)] := by
        apply good_unique _ _ hg1 hg2
        intro p
        rw [hc1 p]
        simp only [covers, List.mem_append, List.mem_singleton, Sp.has, Sp.stop]
        constructor
        · rintro (⟨s, hs, hp⟩ | hp)
          · exact ⟨s, Or.inl hs, hp⟩
          · exact ⟨_, Or.inr rfl, hp⟩
        · rintro ⟨s, hs | rfl, hp⟩
          · exact Or.inl ⟨s, hs, hp⟩
          · exact Or.inr hp
      rw [heq]
      have hmu := markUsed_exact (runsOf segs) [] _ hg2
      simp only [List.append_nil] at hmu
      rw [hmu]
      apply free_eq_runsOf _ hokN _ hgood.1
      intro p
      rw [hgood.2 p, freeAt_append]
      simp [freeAt, Seg.isFree]
    refine ⟨E - (Seg.act seq rid st 0).size, [], by simp, hpad.2, ?_, hokN⟩
    rw [if_neg (by rw [hbl]; simp only [List.length_append, zeros_length]; omega)]
    simp only [hpad, and_self, ↓reduceIte, hf, hm, List.cons_append, List.nil_append]
    rw [hfl]
  · by_cases hge15 : E - (Seg.act seq rid st 0).size ≥ minSpanLength
    · -- the rest of the growth becomes a FREE segment of zeros
      have h15 : 15 ≤ E - (Seg.act seq rid st 0).size := by simpa [minSpanLength] using hge15
      have hbl : (placedBytes seq rid st (E - (Seg.act seq rid st 0).size)).length = (Seg.act seq rid st 0).size + 8 := by
        simp only [placedBytes, hpad, ↓reduceIte, hge15, List.length_append, be32_length]
        rw [act_bytes_length _ _ _ _ hs0]
      have hfo : (Seg.free (zeros (E - (Seg.act seq rid st 0).size - 8))).OK := by
        simp only [Seg.OK, zeros_length, minSpanLength]
        constructor <;> omega
      have hokN := hokX [Seg.act seq rid st 0, Seg.free (zeros (E - (Seg.act seq rid st 0).size - 8))] (by
        intro x hx; simp at hx; rcases hx with rfl | rfl
        · exact hs0
        · exact hfo)
      have hf : splice (file ++ zeros E) file.length (placedBytes seq rid st (E - (Seg.act seq rid st 0).size)) =
          render (segs ++ [Seg.act seq rid st 0, Seg.free (zeros (E - (Seg.act seq rid st 0).size - 8))]) := by
        have hz : zeros E = zeros ((Seg.act seq rid st 0).size + 8) ++ zeros (E - (Seg.act seq rid st 0).size - 8) := by
          rw [← zeros_append]; congr 1; omega
        have := splice_at file (zeros ((Seg.act seq rid st 0).size + 8)) (zeros (E - (Seg.act seq rid st 0).size - 8))
          (placedBytes seq rid st (E - (Seg.act seq rid st 0).size)) (by rw [hbl, zeros_length])
        rw [hz, ← List.append_assoc, this, render_append, hfile]
        have hmod : (8 + (zeros (E - (Seg.act seq rid st 0).size - 8)).length) % 4294967296 =
            (E - (Seg.act seq rid st 0).size) % 4294967296 := by
          rw [zeros_length]; congr 1; omega
        simp only [render_cons, render_nil, Seg.bytes, placedBytes, hpad, ↓reduceIte, hge15, hmod,
          List.append_assoc, List.append_nil]
      have hm : markFree free (file.length + (Seg.act seq rid st 0).size) (E - (Seg.act seq rid st 0).size) =
          runsOf (segs ++ [Seg.act seq rid st 0, Seg.free (zeros (E - (Seg.act seq rid st 0).size - 8))]) := by
        rw [hfree]
        have hdis := disj_of_not_covers _ hgood.1 (file.length + (Seg.act seq rid st 0).size) (E - (Seg.act seq rid st 0).size)
          (by omega) (fun p hp _ => hnc p (by omega))
        obtain ⟨hg1, hc1⟩ := markFree_spec _ _ _ hgood.1 (by omega) hdis
        apply free_eq_runsOf _ hokN _ hg1
        intro p
        rw [hc1 p, hgood.2 p, freeAt_append]
        have hfs : (Seg.free (zeros (E - (Seg.act seq rid st 0).size - 8))).size = 8 + (E - (Seg.act seq rid st 0).size - 8) := by
          simp [Seg.size, zeros_length]
        simp only [freeAt, Seg.isFree, Bool.false_eq_true, false_and, false_or, or_false, true_and, hfs, Nat.zero_add, hfl]
        constructor
        · rintro (h | ⟨h1, h2⟩)
          · exact Or.inl h
          · exact Or.inr ⟨by omega, by omega⟩
        · rintro (h | ⟨h1, h2⟩)
          · exact Or.inl h
          · exact Or.inr ⟨by omega, by omega⟩
      refine ⟨0, [Seg.free (zeros (E - (Seg.act seq rid st 0).size - 8))], by simp [Seg.isFree], by decide, ?_, hokN⟩
      rw [if_neg (by rw [hbl]; simp only [List.length_append, zeros_length]; omega)]
      simp only [hpad, ↓reduceIte, hf, hm, List.cons_append, List.nil_append]
      rw [hfl]
    · -- the growth is exactly the span
      have hrem0 : E - (Seg.act seq rid st 0).size = 0 := by omega
      have hbl : (placedBytes seq rid st (E - (Seg.act seq rid st 0).size)).length = E := by
        simp only [placedBytes, hpad, ↓reduceIte, hge15]
        rw [act_bytes_length _ _ _ _ hs0]; omega
      have hokN := hokX [Seg.act seq rid st 0] (by intro x hx; simp at hx; subst hx; exact hs0)
      have hf : splice (file ++ zeros E) file.length (placedBytes seq rid st (E - (Seg.act seq rid st 0).size)) =
          render (segs ++ [Seg.act seq rid st 0]) := by
        have := splice_at file (zeros E) [] (placedBytes seq rid st (E - (Seg.act seq rid st 0).size)) (by rw [hbl, zeros_length])
        simp only [List.append_nil] at this
        rw [this, render_append, hfile]
        simp [render_cons, render_nil, Seg.bytes, placedBytes, hpad, hge15]
      have hm : markFree free (file.length + (Seg.act seq rid st 0).size) (E - (Seg.act seq rid st 0).size) =
          runsOf (segs ++ [Seg.act seq rid st 0]) := by
        rw [hrem0, markFree_zero, hfree]
        apply free_eq_runsOf _ hokN _ hgood.1
        intro p
        rw [hgood.2 p, freeAt_append]
        simp [freeAt, Seg.isFree]
      refine ⟨0, [], by simp, by decide, ?_, hokN⟩
      rw [if_neg (by rw [hbl]; simp only [List.length_append, zeros_length]; omega)]
      simp only [hpad, ↓reduceIte, hf, hm, List.cons_append, List.nil_append]
      rw [hfl]


/-- a growth step: at least 4096 bytes, and the grown file still fits 32-bit offsets -/
def GrowOK (fileLen z : Nat) : Prop := 4096 ≤ z ∧ fileLen + z < 4294967296

theorem expandBy_ge_4096 (cur n : Nat) : 4096 ≤ expandBy cur n := by
  unfold expandBy; omega

/-- `placeSpan` on any layout: a block `R` of FREE segments (empty, at the end of the file, when the file
    grows) is replaced by the new active segment and at most one FREE segment -/
theorem place_spec (file : Bytes) (free : List Sp) (segs : List Seg) (seq : Nat) (rid : Bytes) (st : List Stream)
    (h : Lay file free segs) (hnew : NewOK seq rid st)
    (hbig : file.length + expandBy file.length (Seg.act seq rid st 0).size < 4294967296) :
    ∃ A R B pad F imgs, segs = A ++ R ++ B ∧ (∀ x ∈ R, x.isFree = true) ∧ (∀ x ∈ F, x.isFree = true) ∧
      pad < minSpanLength ∧
      placeSpan file free seq rid st = .ok
        { offset := segsSize A, file := render (A ++ (.act seq rid st pad :: F) ++ B),
          free := runsOf (A ++ (.act seq rid st pad :: F) ++ B), images := imgs } ∧
      (∀ x ∈ A ++ (.act seq rid st pad :: F) ++ B, x.OK) ∧
      (segsSize (.act seq rid st pad :: F) = segsSize R ∨ B = []) ∧
      (imgs = [("writeAt", render (A ++ (.act seq rid st pad :: F) ++ B))] ∨
       ∃ z, GrowOK file.length z ∧
        imgs = [("grow", file ++ zeros z), ("writeAt", render (A ++ (.act seq rid st pad :: F) ++ B))]) := by
  cases hget : getFreeRange free (Seg.act seq rid st 0).size with
  | some r =>
    obtain ⟨start, rem, free'⟩ := r
    obtain ⟨A, R, B, pad, F, e, hR, hF, hp, hpl, hok, hsz⟩ :=
      place_fit file free segs seq rid st h hnew (by omega) start rem free' hget
    exact ⟨A, R, B, pad, F, [("writeAt", render (A ++ (.act seq rid st pad :: F) ++ B))], e, hR, hF, hp, hpl, hok,
      Or.inl hsz, Or.inl rfl⟩
  | none =>
    obtain ⟨pad, F, hF, hp, hpl, hok⟩ := place_grow file free segs seq rid st h hnew hbig hget
    refine ⟨segs, [], [], pad, F,
      [("grow", file ++ zeros (expandBy file.length (Seg.act seq rid st 0).size)),
       ("writeAt", render (segs ++ (.act seq rid st pad :: F) ++ []))],
      by simp, by simp, hF, hp, ?_, ?_, Or.inr rfl, Or.inr ⟨_, ⟨expandBy_ge_4096 _ _, hbig⟩, rfl⟩⟩
    · simpa using hpl
    · simpa using hok

/-! ## the index -/

/-- offset of the active segment that holds `rid` (the first one, should there be several) -/
def findAct (rid : Bytes) : Nat → List Seg → Option Nat
  | _, [] => none
  | off, .act seq r st pad :: ss =>
    if r = rid then some off else findAct rid (off + (Seg.act seq r st pad).size) ss
  | off, .free junk :: ss => findAct rid (off + (Seg.free junk).size) ss

/-- the data streams stored under `rid`: the abstract store a file stands for -/
def docOf (rid : Bytes) : List Seg → Option (List Stream)
  | [] => none
  | .act _ r st _ :: ss => if r = rid then some st else docOf rid ss
  | .free _ :: ss => docOf rid ss

theorem findAct_append (rid : Bytes) (off : Nat) (A B : List Seg) :
    findAct rid off (A ++ B) = (findAct rid off A).or (findAct rid (off + segsSize A) B) := by
  induction A generalizing off with
  | nil => simp [findAct, segsSize]
  | cons s ss ih =>
    cases s with
    | act seq r st pad =>
      simp only [List.cons_append, findAct, segsSize_cons]
      split
      · simp
      · rw [ih]; congr 2; omega
    | free junk =>
      simp only [List.cons_append, findAct, segsSize_cons]
      rw [ih]; congr 2; omega

theorem docOf_append (rid : Bytes) (A B : List Seg) :
    docOf rid (A ++ B) = (docOf rid A).or (docOf rid B) := by
  induction A with
  | nil => simp [docOf]
  | cons s ss ih =>
    cases s with
    | act seq r st pad =>
      simp only [List.cons_append, docOf]
      split
      · simp
      · exact ih
    | free junk => simpa [docOf] using ih

theorem actRids_append (A B : List Seg) : actRids (A ++ B) = actRids A ++ actRids B := by
  induction A with
  | nil => rfl
  | cons s ss ih => cases s <;> simp [actRids, ih]

theorem findAct_allFree (rid : Bytes) (off : Nat) (R : List Seg) (hR : ∀ x ∈ R, x.isFree = true) :
    findAct rid off R = none := by
  induction R generalizing off with
  | nil => rfl
  | cons s ss ih =>
    cases s with
    | act seq r st pad => have := hR _ (List.mem_cons_self ..); simp [Seg.isFree] at this
    | free junk => simpa [findAct] using ih _ (fun x hx => hR x (by simp [hx]))

theorem docOf_allFree (rid : Bytes) (R : List Seg) (hR : ∀ x ∈ R, x.isFree = true) : docOf rid R = none := by
  induction R with
  | nil => rfl
  | cons s ss ih =>
    cases s with
    | act seq r st pad => have := hR _ (List.mem_cons_self ..); simp [Seg.isFree] at this
    | free junk => simpa [docOf] using ih (fun x hx => hR x (by simp [hx]))

theorem actRids_allFree (R : List Seg) (hR : ∀ x ∈ R, x.isFree = true) : actRids R = [] := by
  induction R with
  | nil => rfl
  | cons s ss ih =>
    cases s with
    | act seq r st pad => have := hR _ (List.mem_cons_self ..); simp [Seg.isFree] at this
    | free junk => simpa [actRids] using ih (fun x hx => hR x (by simp [hx]))

theorem findAct_none_iff (rid : Bytes) (off : Nat) (segs : List Seg) :
    findAct rid off segs = none ↔ rid ∉ actRids segs := by
  induction segs generalizing off with
  | nil => simp [findAct, actRids]
  | cons s ss ih =>
    cases s with
    | act seq r st pad =>
      simp only [findAct, actRids, List.mem_cons, not_or]
      split
      · rename_i h; simp [h]
      · rename_i h; rw [ih]; exact ⟨fun h2 => ⟨fun e => h e.symm, h2⟩, fun h2 => h2.2⟩
    | free junk => simpa [findAct, actRids] using ih _

theorem docOf_none_iff (rid : Bytes) (segs : List Seg) : docOf rid segs = none ↔ rid ∉ actRids segs := by
  induction segs with
  | nil => simp [docOf, actRids]
  | cons s ss ih =>
    cases s with
    | act seq r st pad =>
      simp only [docOf, actRids, List.mem_cons, not_or]
      split
      · rename_i h; simp [h]
      · rename_i h; rw [ih]; exact ⟨fun h2 => ⟨fun e => h e.symm, h2⟩, fun h2 => h2.2⟩
    | free junk => simpa [docOf, actRids] using ih

/-- where the indexed segment is -/
theorem findAct_some (rid : Bytes) (off o : Nat) (segs : List Seg) (h : findAct rid off segs = some o) :
    ∃ A seq st pad B, segs = A ++ .act seq rid st pad :: B ∧ o = off + segsSize A ∧ rid ∉ actRids A := by
  induction segs generalizing off with
  | nil => simp [findAct] at h
  | cons s ss ih =>
    cases s with
    | act seq r st pad =>
      simp only [findAct] at h
      split at h
      · rename_i hr; subst hr
        cases h
        exact ⟨[], seq, st, pad, ss, rfl, by simp [segsSize], by simp [actRids]⟩
      · rename_i hr
        obtain ⟨A, seq', st', pad', B, e, ho, hn⟩ := ih _ h
        refine ⟨.act seq r st pad :: A, seq', st', pad', B, by rw [e]; rfl, ?_, ?_⟩
        · rw [ho, segsSize_cons]; omega
        · simp only [actRids, List.mem_cons, not_or]; exact ⟨fun e => hr e.symm, hn⟩
    | free junk =>
      simp only [findAct] at h
      obtain ⟨A, seq', st', pad', B, e, ho, hn⟩ := ih _ h
      refine ⟨.free junk :: A, seq', st', pad', B, by rw [e]; rfl, ?_, by simpa [actRids] using hn⟩
      rw [ho, segsSize_cons]; omega

theorem idxGet_idxSet (ix : List (Bytes × Nat)) (k k' : Bytes) (v : Nat) :
    idxGet (idxSet ix k v) k' = if k' = k then some v else idxGet ix k' := by
  unfold idxGet idxSet idxDel
  by_cases h : k' = k
  · subst h; simp
  · have hne : (k == k') = false := by simpa using fun e => h e.symm
    simp only [List.find?_cons, hne, h, ↓reduceIte]
    congr 1
    induction ix with
    | nil => rfl
    | cons e es ih =>
      by_cases he : e.1 == k
      · have : (e.1 == k') = false := by
          have : e.1 = k := by simpa using he
          simpa [this] using fun e' => h e'.symm
        simp [List.filter_cons, he, List.find?_cons, this, ih]
      · simp only [List.filter_cons, he, Bool.not_false, ↓reduceIte, List.find?_cons]
        split
        · rfl
        · exact ih

theorem idxGet_idxDel (ix : List (Bytes × Nat)) (k k' : Bytes) :
    idxGet (idxDel ix k) k' = if k' = k then none else idxGet ix k' := by
  unfold idxGet idxDel
  by_cases h : k' = k
  · subst h
    simp only [↓reduceIte]
    have : List.find? (fun e => e.1 == k') (List.filter (fun e => !(e.1 == k')) ix) = none := by
      rw [List.find?_eq_none]
      intro e he
      have := (List.mem_filter.mp he).2
      simpa using this
    rw [this]
  · simp only [h, ↓reduceIte]
    congr 1
    induction ix with
    | nil => rfl
    | cons e es ih =>
      by_cases he : e.1 == k
      · have : (e.1 == k') = false := by
          have : e.1 = k := by simpa using he
          simpa [this] using fun e' => h e'.symm
        simp [List.filter_cons, he, List.find?_cons, this, ih]
      · simp only [List.filter_cons, he, Bool.not_false, ↓reduceIte, List.find?_cons]
        split
        · rfl
        · exact ih


/-- **representation invariant** of an open span file: the bytes are a gap-free chain of well-formed
    segments, every record id is active at most once, the index maps exactly the active ids to the
    offsets of their segments, and the free map is the list of maximal FREE runs -/
structure Rep (s : SF) (segs : List Seg) : Prop where
  lay : Lay s.file s.free segs
  nodup : (actRids segs).Nodup
  index : ∀ rid, idxGet s.index rid = findAct rid 0 segs
  seq : s.seq < 4294967296

theorem findAct_cons_act (r rid : Bytes) (off seq : Nat) (st : List Stream) (pad : Nat) (ss : List Seg) :
    findAct r off (.act seq rid st pad :: ss) =
      if rid = r then some off else findAct r (off + (Seg.act seq rid st pad).size) ss := rfl

theorem findAct_cons_free (r : Bytes) (off : Nat) (junk : Bytes) (ss : List Seg) :
    findAct r off (.free junk :: ss) = findAct r (off + (Seg.free junk).size) ss := rfl

theorem docOf_cons_act (r rid : Bytes) (seq : Nat) (st : List Stream) (pad : Nat) (ss : List Seg) :
    docOf r (.act seq rid st pad :: ss) = if rid = r then some st else docOf r ss := rfl

theorem docOf_cons_free (r : Bytes) (junk : Bytes) (ss : List Seg) : docOf r (.free junk :: ss) = docOf r ss := rfl

/-- the decomposition of a layout at the (unique) active segment of `rid` -/
theorem Rep.at {s : SF} {segs : List Seg} (h : Rep s segs) (rid : Bytes) (off : Nat)
    (hi : idxGet s.index rid = some off) :
    ∃ A seq st pad B, segs = A ++ .act seq rid st pad :: B ∧ off = segsSize A ∧ rid ∉ actRids A ∧ rid ∉ actRids B ∧
      docOf rid segs = some st := by
  rw [h.index] at hi
  obtain ⟨A, seq, st, pad, B, e, ho, hA⟩ := findAct_some rid 0 off segs hi
  have hnd := h.nodup
  rw [e, actRids_append] at hnd
  simp only [actRids, List.nodup_append, List.nodup_cons] at hnd
  refine ⟨A, seq, st, pad, B, e, by omega, hA, hnd.2.1.1, ?_⟩
  rw [e, docOf_append, (docOf_none_iff rid A).mpr hA, docOf_cons_act]
  simp

/-- **ReadRecord** returns exactly the streams stored under the id, or "not found" -/
theorem read_refines (s : SF) (segs : List Seg) (h : Rep s segs) (rid : Bytes) :
    (docOf rid segs = none → readRecord s rid = .err "record not found") ∧
    (∀ st, docOf rid segs = some st → ∃ sp, readRecord s rid = .ok sp ∧ sp.rid = rid ∧ sp.streams = st) := by
  constructor
  · intro hd
    have : idxGet s.index rid = none := by
      rw [h.index, findAct_none_iff, ← docOf_none_iff]; exact hd
    simp [readRecord, this]
  · intro st hd
    cases hi : idxGet s.index rid with
    | none =>
      rw [h.index, findAct_none_iff, ← docOf_none_iff] at hi
      rw [hi] at hd; cases hd
    | some off =>
      obtain ⟨A, seq, st', pad, B, e, ho, _, _, hd'⟩ := h.at rid off hi
      rw [hd] at hd'; cases hd'
      obtain ⟨hfile, hok, _⟩ := h.lay
      have hA : ∀ x ∈ A, x.OK := fun x hx => hok x (by rw [e]; simp [hx])
      have hs : (Seg.act seq rid st pad).OK := hok _ (by rw [e]; simp)
      have hsz := Seg.size_ge _ hs
      have hfl : s.file.length = segsSize A + (Seg.act seq rid st pad).size + segsSize B := by
        rw [hfile, render_length _ hok, e, segsSize_append, segsSize_cons]; omega
      have hdrop : s.file.drop off = actBytes seq rid st pad ++ render B := by
        rw [hfile, e, render_append, render_cons, ho, List.drop_left' (render_length A hA)]
        rfl
      simp only [readRecord, hi]
      rw [if_neg (by simp only [minSpanLength] at hsz; omega), hdrop, parseSpan_actBytes seq rid st pad _ hs]
      exact ⟨_, rfl, rfl, rfl⟩

theorem nodup_remove_mid {A B : List Seg} {x : Seg} (h : (actRids (A ++ x :: B)).Nodup) (junk : Bytes) :
    (actRids (A ++ .free junk :: B)).Nodup := by
  rw [actRids_append] at h ⊢
  simp only [actRids]
  cases x with
  | act seq rid st pad =>
    simp only [actRids, List.nodup_append, List.nodup_cons, List.mem_cons] at h ⊢
    refine ⟨h.1, h.2.1.2, ?_⟩
    intro a ha b hb
    exact h.2.2 a ha b (Or.inr hb)
  | free j => simpa [actRids] using h

/-- **RemoveRecord** refines deletion in the abstract store -/
theorem remove_refines (s : SF) (segs : List Seg) (h : Rep s segs) (rid : Bytes) :
    (docOf rid segs = none → removeRecord s rid = .err "record not found") ∧
    (docOf rid segs ≠ none → ∃ m segs', removeRecord s rid = .ok m ∧ Rep m.st segs' ∧
      (∀ r, docOf r segs' = if r = rid then none else docOf r segs) ∧
      m.images = [("markFreed", m.st.file)] ∧ m.st.seq = s.seq ∧
      (∀ q r' t p, Seg.act q r' t p ∈ segs' → Seg.act q r' t p ∈ segs)) := by
  constructor
  · intro hd
    have : idxGet s.index rid = none := by
      rw [h.index, findAct_none_iff, ← docOf_none_iff]; exact hd
    simp [removeRecord, this]
  · intro hd
    cases hi : idxGet s.index rid with
    | none =>
      rw [h.index, findAct_none_iff, ← docOf_none_iff] at hi
      exact absurd hi hd
    | some off =>
      obtain ⟨A, seq, st, pad, B, e, ho, hnA, hnB, _⟩ := h.at rid off hi
      subst e
      obtain ⟨hret, hok'⟩ := retire_spec s.file s.free A B seq rid st pad h.lay
      have hjl := actJunk_length seq rid st pad
      refine ⟨{ st := { s with file := render (A ++ .free (actJunk seq rid st pad) :: B),
                               free := runsOf (A ++ .free (actJunk seq rid st pad) :: B),
                               index := idxDel s.index rid },
                images := [("markFreed", render (A ++ .free (actJunk seq rid st pad) :: B))] },
        A ++ .free (actJunk seq rid st pad) :: B, ?_, ?_, ?_, rfl, rfl, ?_⟩
      rotate_right
      · intro q r' t p hm
        simp only [List.mem_append, List.mem_cons, reduceCtorEq, false_or] at hm ⊢
        rcases hm with hm | hm
        · exact Or.inl hm
        · exact Or.inr (Or.inr hm)
      · simp only [removeRecord, hi, ho, hret]
      · refine ⟨⟨rfl, hok', rfl⟩, nodup_remove_mid h.nodup _, ?_, h.seq⟩
        intro r
        simp only [idxGet_idxDel]
        rw [findAct_append, findAct_cons_free]
        have hsize : (Seg.free (actJunk seq rid st pad)).size = (Seg.act seq rid st pad).size := by
          rw [← hjl]; rfl
        by_cases hr : r = rid
        · subst hr
          simp [(findAct_none_iff r 0 A).mpr hnA, (findAct_none_iff r _ B).mpr hnB]
        · rw [if_neg hr, h.index, findAct_append, findAct_cons_act, if_neg (fun e => hr e.symm), hsize]
      · intro r
        rw [docOf_append, docOf_cons_free, docOf_append, docOf_cons_act]
        by_cases hr : r = rid
        · subst hr
          simp [(docOf_none_iff r A).mpr hnA, (docOf_none_iff r B).mpr hnB]
        · rw [if_neg hr, if_neg (fun e => hr e.symm)]


theorem findAct_block (r : Bytes) (off : Nat) (seq : Nat) (rid : Bytes) (st : List Stream) (pad : Nat) (F : List Seg)
    (hF : ∀ x ∈ F, x.isFree = true) :
    findAct r off (.act seq rid st pad :: F) = if rid = r then some off else none := by
  rw [findAct_cons_act, findAct_allFree r _ F hF]

theorem docOf_block (r : Bytes) (seq : Nat) (rid : Bytes) (st : List Stream) (pad : Nat) (F : List Seg)
    (hF : ∀ x ∈ F, x.isFree = true) :
    docOf r (.act seq rid st pad :: F) = if rid = r then some st else none := by
  rw [docOf_cons_act, docOf_allFree r F hF]

theorem actRids_block (seq : Nat) (rid : Bytes) (st : List Stream) (pad : Nat) (F : List Seg)
    (hF : ∀ x ∈ F, x.isFree = true) : actRids (.act seq rid st pad :: F) = [rid] := by
  simp [actRids, actRids_allFree F hF]

/-- **WriteRecord on a fresh id** refines insertion in the abstract store -/
theorem write_fresh (s : SF) (segs : List Seg) (h : Rep s segs) (rid : Bytes) (st : List Stream)
    (hnew : NewOK s.seq rid st)
    (hbig : s.file.length + expandBy s.file.length (Seg.act s.seq rid st 0).size < 4294967296)
    (hfresh : docOf rid segs = none) :
    ∃ m segs', writeRecord s rid st = .ok m ∧ Rep m.st segs' ∧
      (∀ r, docOf r segs' = if r = rid then some st else docOf r segs) ∧
      m.st.seq = (s.seq + 1) % 4294967296 ∧
      (m.images = [("writeAt", m.st.file)] ∨
       ∃ z, GrowOK s.file.length z ∧ m.images = [("grow", s.file ++ zeros z), ("writeAt", m.st.file)]) ∧
      (∀ q r' t p, Seg.act q r' t p ∈ segs' → Seg.act q r' t p ∈ segs ∨ q = s.seq) := by
  obtain ⟨A, R, B, pad, F, imgs, e, hR, hF, _, hpl, hok1, hsz, himgs⟩ :=
    place_spec s.file s.free segs s.seq rid st h.lay hnew hbig
  have hnot : rid ∉ actRids segs := (docOf_none_iff rid segs).mp hfresh
  have hi : idxGet s.index rid = none := by rw [h.index, findAct_none_iff]; exact hnot
  subst e
  have hnd := h.nodup
  simp only [actRids_append, actRids_allFree R hR, List.append_nil, List.mem_append, not_or] at hnot hnd
  refine ⟨{ st := { file := render (A ++ (.act s.seq rid st pad :: F) ++ B), index := idxSet s.index rid (segsSize A),
                    free := runsOf (A ++ (.act s.seq rid st pad :: F) ++ B), seq := (s.seq + 1) % 4294967296 },
            images := imgs }, A ++ (.act s.seq rid st pad :: F) ++ B, ?_, ?_, ?_, rfl, himgs, ?_⟩
  rotate_right
  · intro q r' t p hm
    simp only [List.mem_append, List.mem_cons] at hm ⊢
    rcases hm with (hm | hm | hm) | hm
    · exact Or.inl (Or.inl (Or.inl hm))
    · cases hm; exact Or.inr rfl
    · have := hF _ hm; simp [Seg.isFree] at this
    · exact Or.inl (Or.inr hm)
  · simp only [writeRecord, hpl, hi]
  · refine ⟨⟨rfl, hok1, rfl⟩, ?_, ?_, Nat.mod_lt _ (by decide)⟩
    · simp only [actRids_append, actRids_block _ _ _ _ F hF]
      rw [List.append_assoc, List.nodup_append] at *
      refine ⟨hnd.1, ?_, ?_⟩
      · simp only [List.singleton_append, List.nodup_cons]
        exact ⟨hnot.2, hnd.2.1⟩
      · intro a ha b hb
        simp only [List.singleton_append, List.mem_cons] at hb
        rcases hb with rfl | hb
        · intro e; subst e; exact hnot.1 ha
        · exact hnd.2.2 a ha b hb
    · intro r
      simp only [idxGet_idxSet, h.index, findAct_append, findAct_block r _ _ _ _ _ F hF, findAct_allFree r _ R hR,
        segsSize_append, Nat.zero_add, Option.or_none]
      by_cases hr : r = rid
      · subst hr
        simp [(findAct_none_iff r 0 A).mpr hnot.1]
      · have hr' : ¬ rid = r := fun e => hr e.symm
        simp only [hr, hr', ↓reduceIte, Option.or_none]
        rcases hsz with hsz | hB
        · rw [hsz]
        · subst hB; simp [findAct]
  · intro r
    simp only [docOf_append, docOf_block r _ _ _ _ F hF, docOf_allFree r R hR, Option.or_none]
    by_cases hr : r = rid
    · subst hr
      simp [(docOf_none_iff r A).mpr hnot.1]
    · have hr' : ¬ rid = r := fun e => hr e.symm
      simp only [hr, hr', ↓reduceIte, Option.or_none]


theorem free_junk_size (seq : Nat) (rid : Bytes) (st : List Stream) (pad : Nat) :
    (Seg.free (actJunk seq rid st pad)).size = (Seg.act seq rid st pad).size := by
  rw [← actJunk_length]; rfl

theorem nodup_move {α : Type} (l1 l2 l3 : List α) (a : α) :
    (l1 ++ a :: (l2 ++ l3)).Nodup ↔ (l1 ++ (l2 ++ a :: l3)).Nodup := by
  apply List.Perm.nodup_iff
  have h1 : (l1 ++ a :: (l2 ++ l3)).Perm (a :: (l1 ++ (l2 ++ l3))) := List.perm_middle
  have h2 : (l1 ++ (l2 ++ a :: l3)).Perm (a :: (l1 ++ (l2 ++ l3))) := by
    rw [← List.append_assoc, ← List.append_assoc]
    exact List.perm_middle
  exact h1.trans h2.symm

/-- **WriteRecord on an existing id** refines replacement in the abstract store: the new version is
    placed first, the old version is retired afterwards -/
theorem write_over (s : SF) (segs : List Seg) (h : Rep s segs) (rid : Bytes) (st : List Stream)
    (hnew : NewOK s.seq rid st)
    (hbig : s.file.length + expandBy s.file.length (Seg.act s.seq rid st 0).size < 4294967296)
    (hold : docOf rid segs ≠ none) :
    ∃ m segs' mid, writeRecord s rid st = .ok m ∧ Rep m.st segs' ∧
      (∀ r, docOf r segs' = if r = rid then some st else docOf r segs) ∧
      m.st.seq = (s.seq + 1) % 4294967296 ∧
      (m.images = [("writeAt", mid), ("markFreed", m.st.file)] ∨
       ∃ z, GrowOK s.file.length z ∧ m.images = [("grow", s.file ++ zeros z), ("writeAt", mid), ("markFreed", m.st.file)]) ∧
      (∀ q r' t p, Seg.act q r' t p ∈ segs' → Seg.act q r' t p ∈ segs ∨ q = s.seq) := by
  obtain ⟨A, R, B, pad, F, imgs, e, hR, hF, _, hpl, hok1, hsz, himgs⟩ :=
    place_spec s.file s.free segs s.seq rid st h.lay hnew hbig
  cases hi : idxGet s.index rid with
  | none =>
    rw [h.index, findAct_none_iff, ← docOf_none_iff] at hi
    exact absurd hi hold
  | some old =>
  subst e
  have hfind := hi
  rw [h.index] at hfind
  simp only [findAct_append, findAct_allFree rid _ R hR, Option.or_none, Nat.zero_add, segsSize_append] at hfind
  have hnd := h.nodup
  simp only [actRids_append, actRids_allFree R hR, List.append_nil] at hnd
  have hlay1 : Lay (render (A ++ (.act s.seq rid st pad :: F) ++ B)) (runsOf (A ++ (.act s.seq rid st pad :: F) ++ B))
      (A ++ (.act s.seq rid st pad :: F) ++ B) := ⟨rfl, hok1, rfl⟩
  cases hfa : findAct rid 0 A with
  | some o =>
    -- the old version lies before the place of the new one
    rw [hfa] at hfind
    simp only [Option.some_or, Option.some.injEq] at hfind
    subst hfind
    obtain ⟨A1, seq0, st0, pad0, A2, eA, ho, hnA1⟩ := findAct_some rid 0 o A hfa
    subst eA
    simp only [actRids_append, actRids, List.append_assoc, List.cons_append] at hnd
    have hshape : A1 ++ .act seq0 rid st0 pad0 :: A2 ++ (.act s.seq rid st pad :: F) ++ B =
        A1 ++ .act seq0 rid st0 pad0 :: (A2 ++ (.act s.seq rid st pad :: F) ++ B) := by simp [List.append_assoc]
    rw [hshape] at hlay1 hpl
    obtain ⟨hret, hok2⟩ := retire_spec _ _ A1 _ seq0 rid st0 pad0 hlay1
    have hmem := hnd
    simp only [List.nodup_append, List.nodup_cons, List.mem_append, List.mem_cons, not_or] at hmem
    have hnA2 : rid ∉ actRids A2 := hmem.2.1.1.1
    have hnB : rid ∉ actRids B := hmem.2.1.1.2
    refine ⟨{ st := { file := render (A1 ++ .free (actJunk seq0 rid st0 pad0) :: (A2 ++ (.act s.seq rid st pad :: F) ++ B)),
                      index := idxSet s.index rid (segsSize (A1 ++ .act seq0 rid st0 pad0 :: A2)),
                      free := runsOf (A1 ++ .free (actJunk seq0 rid st0 pad0) :: (A2 ++ (.act s.seq rid st pad :: F) ++ B)),
                      seq := (s.seq + 1) % 4294967296 },
              images := imgs ++ [("markFreed", render (A1 ++ .free (actJunk seq0 rid st0 pad0) :: (A2 ++ (.act s.seq rid st pad :: F) ++ B)))] },
      A1 ++ .free (actJunk seq0 rid st0 pad0) :: (A2 ++ (.act s.seq rid st pad :: F) ++ B),
      render (A1 ++ .act seq0 rid st0 pad0 :: (A2 ++ (.act s.seq rid st pad :: F) ++ B)), ?_, ?_, ?_, rfl, ?_, ?_⟩
    rotate_right
    · intro q r' t p hm
      simp only [List.mem_append, List.mem_cons, reduceCtorEq, false_or] at hm ⊢
      rcases hm with hm | (hm | hm | hm) | hm
      · exact Or.inl (Or.inl (Or.inl (Or.inl hm)))
      · exact Or.inl (Or.inl (Or.inl (Or.inr (Or.inr hm))))
      · cases hm; exact Or.inr rfl
      · have := hF _ hm; simp [Seg.isFree] at this
      · exact Or.inl (Or.inr hm)
    · simp only [writeRecord, hpl, hi]
      have : o = segsSize A1 := by omega
      rw [this, hret]
    · refine ⟨⟨rfl, hok2, rfl⟩, ?_, ?_, Nat.mod_lt _ (by decide)⟩
      · simp only [actRids_append, actRids, actRids_allFree F hF, List.append_assoc, List.cons_append, List.nil_append]
        exact (nodup_move _ _ _ _).mp hnd
      · intro r
        simp only [idxGet_idxSet, h.index, findAct_append, findAct_cons_act, findAct_cons_free, free_junk_size,
          findAct_block r _ _ _ _ _ F hF, findAct_allFree r _ R hR, segsSize_append, Nat.zero_add,
          Option.or_none, Option.or_assoc]
        by_cases hr : r = rid
        · subst hr
          simp [(findAct_none_iff r 0 A1).mpr hnA1, (findAct_none_iff r _ A2).mpr hnA2, segsSize_cons, Nat.add_assoc]
        · have hr' : ¬ rid = r := fun e => hr e.symm
          simp only [hr, hr', ↓reduceIte, Option.or_none, Option.none_or, segsSize_cons (Seg.act seq0 rid st0 pad0)]
          rcases hsz with hsz | hB
          · rw [← hsz]
            simp only [Nat.add_assoc]
          · subst hB; simp [findAct]
    · intro r
      simp only [docOf_append, docOf_cons_act, docOf_cons_free, docOf_block r _ _ _ _ F hF, docOf_allFree r R hR,
        Option.or_none, Option.or_assoc]
      by_cases hr : r = rid
      · subst hr
        simp [(docOf_none_iff r A1).mpr hnA1, (docOf_none_iff r A2).mpr hnA2]
      · have hr' : ¬ rid = r := fun e => hr e.symm
        simp only [hr, hr', ↓reduceIte, Option.or_none, Option.none_or]
    · rcases himgs with rfl | ⟨z, hz, rfl⟩
      · exact Or.inl (by simp [List.append_assoc])
      · exact Or.inr ⟨z, hz, by simp [List.append_assoc]⟩
  | none =>
    -- the old version lies behind the place of the new one
    rw [hfa] at hfind
    simp only [Option.none_or] at hfind
    obtain ⟨B1, seq0, st0, pad0, B2, eB, ho, hnB1⟩ := findAct_some rid _ old B hfind
    subst eB
    have hszR : segsSize (Seg.act s.seq rid st pad :: F) = segsSize R := by
      rcases hsz with h | h
      · exact h
      · simp at h
    have hnA : rid ∉ actRids A := (findAct_none_iff rid 0 A).mp hfa
    simp only [actRids_append, actRids, List.append_assoc, List.cons_append] at hnd
    have hshape : A ++ (.act s.seq rid st pad :: F) ++ (B1 ++ .act seq0 rid st0 pad0 :: B2) =
        (A ++ (.act s.seq rid st pad :: F) ++ B1) ++ .act seq0 rid st0 pad0 :: B2 := by simp [List.append_assoc]
    rw [hshape] at hlay1 hpl
    obtain ⟨hret, hok2⟩ := retire_spec _ _ (A ++ (.act s.seq rid st pad :: F) ++ B1) B2 seq0 rid st0 pad0 hlay1
    have hmem := hnd
    simp only [List.nodup_append, List.nodup_cons, List.mem_append, List.mem_cons, not_or] at hmem
    have hnB2 : rid ∉ actRids B2 := hmem.2.1.2.1.1
    have hold_off : old = segsSize (A ++ (.act s.seq rid st pad :: F) ++ B1) := by
      rw [segsSize_append, segsSize_append, hszR]; omega
    refine ⟨{ st := { file := render ((A ++ (.act s.seq rid st pad :: F) ++ B1) ++ .free (actJunk seq0 rid st0 pad0) :: B2),
                      index := idxSet s.index rid (segsSize A),
                      free := runsOf ((A ++ (.act s.seq rid st pad :: F) ++ B1) ++ .free (actJunk seq0 rid st0 pad0) :: B2),
                      seq := (s.seq + 1) % 4294967296 },
              images := imgs ++ [("markFreed", render ((A ++ (.act s.seq rid st pad :: F) ++ B1) ++ .free (actJunk seq0 rid st0 pad0) :: B2))] },
      (A ++ (.act s.seq rid st pad :: F) ++ B1) ++ .free (actJunk seq0 rid st0 pad0) :: B2,
      render ((A ++ (.act s.seq rid st pad :: F) ++ B1) ++ .act seq0 rid st0 pad0 :: B2), ?_, ?_, ?_, rfl, ?_, ?_⟩
    rotate_right
    · intro q r' t p hm
      simp only [List.mem_append, List.mem_cons, reduceCtorEq, false_or] at hm ⊢
      rcases hm with ((hm | hm | hm) | hm) | hm
      · exact Or.inl (Or.inl (Or.inl hm))
      · cases hm; exact Or.inr rfl
      · have := hF _ hm; simp [Seg.isFree] at this
      · exact Or.inl (Or.inr (Or.inl hm))
      · exact Or.inl (Or.inr (Or.inr (Or.inr hm)))
    · simp only [writeRecord, hpl, hi]
      rw [hold_off, hret]
    · refine ⟨⟨rfl, hok2, rfl⟩, ?_, ?_, Nat.mod_lt _ (by decide)⟩
      · simp only [actRids_append, actRids, actRids_allFree F hF, List.append_assoc, List.cons_append, List.nil_append]
        exact (nodup_move _ _ _ _).mpr hnd
      · intro r
        simp only [idxGet_idxSet, h.index, findAct_append, findAct_cons_act, findAct_cons_free, free_junk_size,
          findAct_block r _ _ _ _ _ F hF, findAct_allFree r _ R hR, segsSize_append, Nat.zero_add,
          Option.or_none, Option.or_assoc, hszR]
        by_cases hr : r = rid
        · subst hr
          simp [(findAct_none_iff r 0 A).mpr hnA]
        · have hr' : ¬ rid = r := fun e => hr e.symm
          simp only [hr, hr', ↓reduceIte, Option.or_none, Option.none_or]
    · intro r
      simp only [docOf_append, docOf_cons_act, docOf_cons_free, docOf_block r _ _ _ _ F hF, docOf_allFree r R hR,
        Option.or_none, Option.or_assoc]
      by_cases hr : r = rid
      · subst hr
        simp [(docOf_none_iff r A).mpr hnA]
      · have hr' : ¬ rid = r := fun e => hr e.symm
        simp only [hr, hr', ↓reduceIte, Option.or_none, Option.none_or]
    · rcases himgs with rfl | ⟨z, hz, rfl⟩
      · exact Or.inl (by simp [List.append_assoc])
      · exact Or.inr ⟨z, hz, by simp [List.append_assoc]⟩


/-! ## operation sequences -/

/-- the mutating operations of a span file -/
inductive Op where
  | write (rid : Bytes) (st : List Stream)
  | remove (rid : Bytes)

/-- the abstract store: record id ↦ data streams -/
abbrev Store := Bytes → Option (List Stream)

def specStep (m : Store) : Op → Store
  | .write rid st => fun r => if r = rid then some st else m r
  | .remove rid => fun r => if r = rid then none else m r

def stepSF (s : SF) : Op → Outcome Mut
  | .write rid st => writeRecord s rid st
  | .remove rid => removeRecord s rid

/-- the state after an operation; an operation that returns an error leaves the state as it was -/
def applyOp (s : SF) (op : Op) : SF :=
  match stepSF s op with
  | .ok m => m.st
  | _ => s

/-- what the span format can hold: the record fits the 32-bit length field, and so does the file after
    the growth this write may cause (the format has no representation for a span beyond 4 GiB) -/
def Fits (s : SF) : Op → Prop
  | .write rid st => NewOK s.seq rid st ∧
      s.file.length + expandBy s.file.length (Seg.act s.seq rid st 0).size < 4294967296
  | .remove _ => True

def FitsAll : SF → List Op → Prop
  | _, [] => True
  | s, op :: ops => Fits s op ∧ FitsAll (applyOp s op) ops

/-- **one operation**: never a panic; either it succeeds, the representation invariant is kept and the
    abstract store moves as the specification says, or it is the removal of an id that is not stored,
    which is refused and changes nothing -/
theorem step_refines (s : SF) (segs : List Seg) (h : Rep s segs) (op : Op) (hf : Fits s op) :
    (∃ m segs', stepSF s op = .ok m ∧ Rep m.st segs' ∧
      (∀ r, docOf r segs' = specStep (fun r => docOf r segs) op r)) ∨
    (∃ rid, op = .remove rid ∧ docOf rid segs = none ∧ stepSF s op = .err "record not found") := by
  cases op with
  | write rid st =>
    obtain ⟨hnew, hbig⟩ := hf
    left
    by_cases hd : docOf rid segs = none
    · obtain ⟨m, segs', h1, h2, h3, _⟩ := write_fresh s segs h rid st hnew hbig hd
      exact ⟨m, segs', h1, h2, h3⟩
    · obtain ⟨m, segs', _, h1, h2, h3, _⟩ := write_over s segs h rid st hnew hbig hd
      exact ⟨m, segs', h1, h2, h3⟩
  | remove rid =>
    by_cases hd : docOf rid segs = none
    · right
      exact ⟨rid, rfl, hd, (remove_refines s segs h rid).1 hd⟩
    · left
      obtain ⟨m, segs', h1, h2, h3, _⟩ := (remove_refines s segs h rid).2 hd
      exact ⟨m, segs', h1, h2, h3⟩

/-- **every operation sequence**: the file stays a well-formed chain with a correct index and free map,
    and the store it stands for is the fold of the specification over the operations -/
theorem run_refines (ops : List Op) (s : SF) (segs : List Seg) (h : Rep s segs) (hf : FitsAll s ops) :
    ∃ segs', Rep (ops.foldl applyOp s) segs' ∧
      ∀ r, docOf r segs' = ops.foldl specStep (fun r => docOf r segs) r := by
  induction ops generalizing s segs with
  | nil => exact ⟨segs, h, fun _ => rfl⟩
  | cons op ops ih =>
    obtain ⟨hf1, hf2⟩ := hf
    simp only [List.foldl_cons]
    rcases step_refines s segs h op hf1 with ⟨m, segs', h1, h2, h3⟩ | ⟨rid, hop, hd, herr⟩
    · have ha : applyOp s op = m.st := by simp [applyOp, h1]
      rw [ha] at hf2 ⊢
      obtain ⟨segs'', h4, h5⟩ := ih m.st segs' h2 hf2
      refine ⟨segs'', h4, fun r => ?_⟩
      rw [h5 r]
      have : (fun r => docOf r segs') = specStep (fun r => docOf r segs) op := funext h3
      rw [this]
    · have ha : applyOp s op = s := by simp [applyOp, herr]
      rw [ha] at hf2 ⊢
      obtain ⟨segs'', h4, h5⟩ := ih s segs h hf2
      refine ⟨segs'', h4, fun r => ?_⟩
      rw [h5 r]
      have : (fun r => docOf r segs) = specStep (fun r => docOf r segs) op := by
        funext r'
        subst hop
        simp only [specStep]
        split
        · rename_i e; subst e; exact hd
        · rfl
      rw [← this]

/-- what `ReadRecord` answers in any reachable state is what the specification holds -/
theorem read_after_run (ops : List Op) (s : SF) (segs : List Seg) (h : Rep s segs) (hf : FitsAll s ops) (rid : Bytes) :
    match ops.foldl specStep (fun r => docOf r segs) rid with
    | none => readRecord (ops.foldl applyOp s) rid = .err "record not found"
    | some st => ∃ sp, readRecord (ops.foldl applyOp s) rid = .ok sp ∧ sp.rid = rid ∧ sp.streams = st := by
  obtain ⟨segs', h1, h2⟩ := run_refines ops s segs h hf
  have hr := read_refines _ segs' h1 rid
  rw [← h2 rid]
  cases hd : docOf rid segs' with
  | none => exact hr.1 hd
  | some st => exact hr.2 st hd


/-! ## open and reopen -/

theorem idxGet_cons (k k' : Bytes) (v : Nat) (ix : List (Bytes × Nat)) :
    idxGet ((k, v) :: ix) k' = if k = k' then some v else idxGet ix k' := by
  unfold idxGet
  by_cases h : k = k'
  · subst h; simp
  · have : (k == k') = false := by simpa using h
    simp [List.find?_cons, this, h]

/-- the index `scanFile` builds for a chain without duplicate ids is the offset of each active id -/
theorem idxGet_indexRev (rid : Bytes) (segs : List Seg) (off : Nat) (acc : List (Bytes × Nat))
    (hnd : (actRids segs).Nodup) :
    idxGet (indexRev off segs acc) rid = (findAct rid off segs).or (idxGet acc rid) := by
  induction segs generalizing off acc with
  | nil => simp [indexRev, findAct]
  | cons s ss ih =>
    cases s with
    | free junk =>
      simp only [indexRev, findAct_cons_free]
      exact ih _ _ (by simpa [actRids] using hnd)
    | act seq r st pad =>
      simp only [actRids, List.nodup_cons] at hnd
      simp only [indexRev, findAct_cons_act]
      rw [ih _ _ hnd.2, idxGet_cons]
      by_cases hr : r = rid
      · subst hr
        simp [(findAct_none_iff r _ ss).mpr hnd.1]
      · simp [hr]

theorem stops_le_of_covers (fm : List Sp) (hg : Good fm) (b : Nat) (h : ∀ p, covers fm p → p < b) :
    ∀ s ∈ fm, s.stop ≤ b := by
  intro s hs
  have hpos := hg.1 s hs
  have := h (s.stop - 1) ⟨s, hs, by simp only [Sp.has, Sp.stop]; omega⟩
  simp only [Sp.stop] at this ⊢
  omega

/-- the free map `scanFile` builds for a chain is canonical and covers exactly the FREE segments -/
theorem freeFold_spec (segs : List Seg) (hok : ∀ s ∈ segs, s.OK) (off : Nat) (fm : List Sp) (hg : Good fm)
    (hb : ∀ s ∈ fm, s.stop ≤ off) :
    Good (freeFold off segs fm) ∧ ∀ p, covers (freeFold off segs fm) p ↔ (covers fm p ∨ freeAt off segs p) := by
  induction segs generalizing off fm with
  | nil => simp [freeFold, freeAt, hg]
  | cons s ss ih =>
    have hss : ∀ x ∈ ss, x.OK := fun x hx => hok x (by simp [hx])
    have hs := hok s (by simp)
    have hsz := Seg.size_ge s hs
    simp only [minSpanLength] at hsz
    cases s with
    | act seq r st pad =>
      simp only [freeFold]
      obtain ⟨g, c⟩ := ih hss (off + (Seg.act seq r st pad).size) fm hg (fun x hx => by have := hb x hx; omega)
      refine ⟨g, fun p => ?_⟩
      rw [c p, freeAt_act_cons]
    | free junk =>
      simp only [freeFold]
      have hsize : 8 + junk.length = (Seg.free junk).size := rfl
      have hdis : ∀ x ∈ fm, x.disj ({ start := off, len := 8 + junk.length } : Sp) := by
        intro x hx
        exact Or.inl (hb x hx)
      obtain ⟨g1, c1⟩ := markFree_spec fm off (8 + junk.length) hg (by omega) hdis
      have hb1 : ∀ x ∈ markFree fm off (8 + junk.length), x.stop ≤ off + (Seg.free junk).size := by
        apply stops_le_of_covers _ g1
        intro p hp
        rw [c1 p] at hp
        rcases hp with ⟨x, hx, hxp⟩ | hp
        · have := hb x hx
          simp only [Sp.has] at hxp
          omega
        · rw [← hsize]; omega
      obtain ⟨g, c⟩ := ih hss (off + (Seg.free junk).size) _ g1 hb1
      refine ⟨g, fun p => ?_⟩
      rw [c p, c1 p, freeAt_free_cons, ← hsize]
      constructor
      · rintro ((h | h) | h)
        · exact Or.inl h
        · exact Or.inr (Or.inl h)
        · exact Or.inr (Or.inr h)
      · rintro (h | h | h)
        · exact Or.inl (Or.inl h)
        · exact Or.inl (Or.inr h)
        · exact Or.inr h

/-- **reopening** a file in a state that satisfies the invariant: no byte changes, and the rebuilt
    index and free map satisfy the invariant for the same segments — so the reopened file stands for
    the same store, in read-only and writable modes alike -/
theorem reopen_refines (s : SF) (segs : List Seg) (h : Rep s segs) (ro : Bool) :
    ∃ s', scanFile s.file ro = .ok s' ∧ s'.file = s.file ∧ Rep s' segs := by
  obtain ⟨hfile, hok, _⟩ := h.lay
  refine ⟨_, by rw [hfile]; exact scanFile_quiescent segs hok h.nodup ro, hfile.symm, ?_⟩
  refine ⟨⟨rfl, hok, ?_⟩, h.nodup, ?_, Nat.mod_lt _ (by decide)⟩
  · obtain ⟨g, c⟩ := freeFold_spec segs hok 0 [] ⟨by simp, by simp⟩ (by simp)
    apply free_eq_runsOf segs hok _ g
    intro p
    rw [c p]
    simp [covers]
  · intro rid
    simp only
    rw [idxGet_indexRev rid segs 0 [] h.nodup]
    simp [idxGet]

/-- a new file: the 15-byte initial span under the empty record id -/
theorem init_refines :
    ∃ s0, openFile none .createIfNotExists = .ok s0 ∧ Rep s0 [.act 0 [] [] 0] ∧
      ∀ r, docOf r [.act 0 [] [] 0] = if r = [] then some [] else none := by
  have hok : ∀ x ∈ [Seg.act 0 [] [] 0], x.OK := by
    intro x hx
    simp at hx; subst hx
    refine ⟨by decide, by decide, by decide, by simp, by decide, by decide⟩
  have hinit : initialSpan = render [Seg.act 0 [] [] 0] := by
    simp [initialSpan, render, Seg.bytes, actBytes, serializeSpan_eq]
  have hq := scanFile_quiescent [Seg.act 0 [] [] 0] hok (by simp [actRids]) false
  refine ⟨{ file := render [Seg.act 0 [] [] 0], index := indexRev 0 [Seg.act 0 [] [] 0] [],
            free := freeFold 0 [Seg.act 0 [] [] 0] [], seq := (maxSeq [Seg.act 0 [] [] 0] 0 + 1) % 4294967296 }, ?_, ?_, ?_⟩
  · have : openFile none .createIfNotExists = scanFile initialSpan false := by
      unfold openFile
      simp only [Option.getD_none, List.isEmpty_nil, Bool.not_true, Bool.false_eq_true, false_and, true_and, ↓reduceIte,
        reduceCtorEq, decide_false]
    rw [this, hinit]
    exact hq
  · refine ⟨⟨rfl, hok, ?_⟩, by simp [actRids], ?_, by decide⟩
    · rfl
    · intro rid
      simp only [indexRev, findAct]
      rw [idxGet_cons]
      simp [idxGet]
  · intro r
    simp only [docOf]
    by_cases hr : r = []
    · simp [hr]
    · have : ¬ ([] : Bytes) = r := fun e => hr e.symm
      simp [hr, this]

end Syzgy
