import Syzgy.Model.Rest
/-! The REST handlers never panic, rejected requests change nothing, a request touches one collection. -/
namespace Syzgy.Rest

theorem lookup_put_ne (s : Server) (name n : Bytes) (c : RColl) (h : n ≠ name) : lookup (put s name c) n = lookup s n := by
  unfold lookup put remove
  have h1 : ((name, c).1 == n) = false := by simpa using fun e => h e.symm
  rw [List.find?_cons_of_neg (by simpa using h1)]
  congr 1
  induction s with
  | nil => rfl
  | cons e es ih =>
    by_cases he : e.1 == name
    · have hne : (e.1 == n) = false := by
        have : e.1 = name := by simpa using he
        simpa [this] using fun e' => h e'.symm
      simp [List.filter_cons, he, List.find?_cons, hne, ih]
    · simp only [List.filter_cons, he, Bool.not_false, ↓reduceIte, List.find?_cons]
      split
      · rfl
      · exact ih

theorem lookup_remove_ne (s : Server) (name n : Bytes) (h : n ≠ name) : lookup (remove s name) n = lookup s n := by
  unfold lookup remove
  congr 1
  induction s with
  | nil => rfl
  | cons e es ih =>
    by_cases he : e.1 == name
    · have hne : (e.1 == n) = false := by
        have : e.1 = name := by simpa using he
        simpa [this] using fun e' => h e'.symm
      simp [List.filter_cons, he, List.find?_cons, hne, ih]
    · simp only [List.filter_cons, he, Bool.not_false, ↓reduceIte, List.find?_cons]
      split
      · rfl
      · exact ih

/-- the insert loop cannot reach `AddDocument`'s panic once the batch has been validated -/
theorem insert_fold_ok (dim : Nat) (recs : List InsRec) (docs : List (Nat × Bytes))
    (h : recs.any (fun r => r.vecLen != some dim) = false) :
    ∃ docs', recs.foldl (insertStep dim) (.ok docs) = .ok docs' := by
  induction recs generalizing docs with
  | nil => exact ⟨docs, rfl⟩
  | cons r rs ih =>
    simp only [List.any_cons, Bool.or_eq_false_iff, bne_eq_false_iff_eq] at h
    simp only [List.foldl_cons, insertStep, h.1, ↓reduceIte]
    exact ih _ h.2

/-- what a handler may do to the state: nothing, replace/insert one collection, or drop one -/
inductive Effect (s : Server) : Server → Prop
  | same : Effect s s
  | put (name : Bytes) (c : RColl) : Effect s (put s name c)
  | drop (name : Bytes) : Effect s (remove s name)

/-- **every handler returns a response** (no panic, no error outcome), its effect on the state is at
    most one collection, and a status ≥ 300 means the state is untouched -/
theorem handle_spec (s : Server) (method path : Bytes) (body : Body) :
    ∃ s' r, handle s method path body = .ok (s', r) ∧ Effect s s' ∧ (r.status ≥ 300 → s' = s) := by
  unfold handle
  split
  · exact ⟨s, _, rfl, .same, fun _ => rfl⟩
  split
  · -- /api/v1/collections
    unfold handleCollections
    repeat' split
    all_goals first
      | exact ⟨s, _, rfl, .same, fun _ => rfl⟩
      | exact ⟨_, _, rfl, .put _ _, fun h => by simp at h⟩
  split
  · simp only
    split
    · -- insert
      unfold handleInsert
      split
      · exact ⟨s, _, rfl, .same, fun _ => rfl⟩
      · rename_i name _
        split
        · exact ⟨s, _, rfl, .same, fun _ => rfl⟩
        · rename_i c _
          split
          · rename_i recs
            split
            · exact ⟨s, _, rfl, .same, fun _ => rfl⟩
            · split
              · exact ⟨s, _, rfl, .same, fun _ => rfl⟩
              · split
                · exact ⟨s, _, rfl, .same, fun _ => rfl⟩
                · rename_i hv
                  obtain ⟨docs', hd⟩ := insert_fold_ok c.cfg.dim recs c.docs (by simpa using hv)
                  rw [hd]
                  exact ⟨_, _, rfl, .put _ _, fun h => by simp at h⟩
          · exact ⟨s, _, rfl, .same, fun _ => rfl⟩
    · split
      · -- update
        unfold handleUpdate
        repeat' split
        all_goals first
          | exact ⟨s, _, rfl, .same, fun _ => rfl⟩
          | exact ⟨_, _, rfl, .put _ _, fun h => by simp at h⟩
      · split
        · unfold handleDeleteRecord
          repeat' split
          all_goals first
            | exact ⟨s, _, rfl, .same, fun _ => rfl⟩
            | exact ⟨_, _, rfl, .put _ _, fun h => by simp at h⟩
        · split
          · unfold handleSearch
            repeat' split
            all_goals first
              | exact ⟨s, _, rfl, .same, fun _ => rfl⟩
              | (rename_i hk hv; exact absurd hv (by
                  rename_i hne
                  intro hcontra
                  exact hne ⟨hk, hcontra⟩))
              | skip
          · unfold handleCollection
            repeat' split
            all_goals first
              | exact ⟨s, _, rfl, .same, fun _ => rfl⟩
              | exact ⟨_, _, rfl, .drop _, fun h => by simp at h⟩
  · exact ⟨s, _, rfl, .same, fun _ => rfl⟩

end Syzgy.Rest

namespace Syzgy.Rest

theorem splitOn_no_sep (sep : UInt8) (b : Bytes) (h : ∀ c ∈ b, c ≠ sep) : splitOn sep b = [b] := by
  induction b with
  | nil => rfl
  | cons c r ih =>
    have hr := ih (fun x hx => h x (by simp [hx]))
    have hc : (c == sep) = false := by simpa using h c (by simp)
    simp [splitOn, hr, hc]

/-- a proper path component: not empty, not `.`, not `..` -/
def Proper (c : Bytes) : Prop := c.isEmpty = false ∧ c ≠ b!"." ∧ c ≠ b!".."

theorem cleanComponents_proper (comps acc : List Bytes) (h : ∀ c ∈ comps, Proper c) :
    cleanComponents comps acc = acc.reverse ++ comps := by
  induction comps generalizing acc with
  | nil => simp [cleanComponents]
  | cons c r ih =>
    obtain ⟨h1, h2, h3⟩ := h c (by simp)
    have e1 : (c.isEmpty || c == b!".") = false := by simp [h1, h2]
    have e2 : (c == b!"..") = false := by simpa using h3
    simp only [cleanComponents, e1, e2, Bool.false_eq_true, ↓reduceIte]
    rw [ih (c :: acc) (fun x hx => h x (by simp [hx]))]
    simp

/-- **confinement**: for every accepted name the collection file `Join(folder, name+".dat")` is the
    direct child `name.dat` of the (cleaned) data folder — no accepted name can create, open or
    delete anything outside it. `folder` is the data folder as a list of proper components. -/
theorem confined (folder : List Bytes) (hf : ∀ c ∈ folder, Proper c) (name : Bytes) (hv : validName name = true) :
    cleanComponents (folder ++ splitOn 47 (name ++ b!".dat")) [] = folder ++ [name ++ b!".dat"] := by
  unfold validName at hv
  simp only [Bool.and_eq_true, Bool.not_eq_true', Bool.or_eq_false_iff, List.any_eq_false, beq_iff_eq] at hv
  obtain ⟨⟨⟨hne, _⟩, _⟩, hchars⟩ := hv
  have hnosep : ∀ c ∈ name ++ b!".dat", c ≠ 47 := by
    intro c hc
    rcases List.mem_append.mp hc with h | h
    · intro he; subst he
      have := hchars 47 h
      simp at this
    · simp at h
      rcases h with rfl | rfl | rfl | rfl <;> decide
  rw [splitOn_no_sep 47 _ hnosep]
  have hprop : Proper (name ++ b!".dat") := by
    refine ⟨by simp, ?_, ?_⟩
    · intro h
      have := congrArg List.length h
      simp at this
    · intro h
      have := congrArg List.length h
      simp at this
  rw [cleanComponents_proper _ [] (by
    intro c hc
    rcases List.mem_append.mp hc with h | h
    · exact hf c h
    · simp at h; subst h; exact hprop)]
  simp

/-- names with a separator, `..`, `.`, the empty name and names containing NUL are rejected -/
theorem rejected_names :
    validName b!"../x" = false ∧ validName b!"a/b" = false ∧ validName b!".." = false ∧ validName b!"." = false ∧
    validName [] = false ∧ validName b!"/etc/passwd" = false ∧ validName b!"a\\b" = false ∧ validName [97, 0, 98] = false := by
  decide

end Syzgy.Rest
