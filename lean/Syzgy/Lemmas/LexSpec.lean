import Syzgy.Lemmas.LexProg
import Syzgy.Lemmas.ParseSpec
import Syzgy.Lemmas.ParseSim
/-!
# The lexer on spelled-out token sequences
-/
namespace Syzgy.Query

/-- a text as the byte array the lexer works on -/
def ofList (l : Bytes) : ByteArray := ⟨l.toArray⟩

@[simp] theorem size_ofList (l : Bytes) : (ofList l).size = l.length := by
  simp [ofList, ByteArray.size]

theorem getElem_ofList (l : Bytes) (i : Nat) (h : i < (ofList l).size) :
    (ofList l)[i] = l[i]'(by simpa using h) := by
  simp [ofList, ByteArray.getElem_eq_getElem_data]

theorem chAt_ofList (l : Bytes) (p : Nat) : chAt (ofList l) p = (l[p]?).getD 0 := by
  unfold chAt
  split
  · rename_i h
    rw [getElem_ofList l p h]
    have : p < l.length := by simpa using h
    simp [this]
  · rename_i h
    have : l.length ≤ p := by simpa using h
    simp [this]

theorem chAt_append_right (a b : Bytes) (i : Nat) : chAt (ofList (a ++ b)) (a.length + i) = chAt (ofList b) i := by
  simp [chAt_ofList, List.getElem?_append_right]

theorem chAt_append_left (a b : Bytes) (i : Nat) (h : i < a.length) : chAt (ofList (a ++ b)) i = chAt (ofList a) i := by
  simp [chAt_ofList, List.getElem?_append_left h]

theorem chAt_cons_zero (c : UInt8) (r : Bytes) : chAt (ofList (c :: r)) 0 = c := by simp [chAt_ofList]
theorem chAt_cons_succ (c : UInt8) (r : Bytes) (i : Nat) : chAt (ofList (c :: r)) (i + 1) = chAt (ofList r) i := by
  simp [chAt_ofList]
theorem chAt_nil (i : Nat) : chAt (ofList []) i = 0 := by simp [chAt_ofList]

theorem get!_eq (bs : ByteArray) (i : Nat) (h : i < bs.data.size) : bs.get! i = bs.data[i] := by
  cases bs with
  | mk d => simp only [ByteArray.get!]; exact getElem!_pos d i h

theorem toList_loop (bs : ByteArray) (i : Nat) (r : List UInt8) :
    ByteArray.toList.loop bs i r = r.reverse ++ bs.data.toList.drop i := by
  fun_induction ByteArray.toList.loop bs i r with
  | case1 i r h ih =>
    rw [ih]
    have hlt : i < bs.data.size := h
    have hlt' : i < bs.data.toList.length := by rw [Array.length_toList]; exact hlt
    rw [List.drop_eq_getElem_cons hlt', get!_eq bs i hlt, List.reverse_cons, List.append_assoc]
    simp
  | case2 i r h =>
    have : bs.data.toList.length ≤ i := by rw [Array.length_toList]; exact Nat.le_of_not_lt h
    rw [List.drop_eq_nil_of_le this, List.append_nil]

theorem toList_eq_data (bs : ByteArray) : bs.toList = bs.data.toList := by
  unfold ByteArray.toList
  rw [toList_loop]; simp

theorem slice_ofList (l : Bytes) (a b : Nat) (h1 : a ≤ b) (h2 : b ≤ l.length) :
    slice (ofList l) a b = .ok ((l.drop a).take (b - a)) := by
  unfold slice
  rw [if_pos ⟨h1, by simpa using h2⟩, toList_eq_data, ByteArray.data_extract]
  simp only [ofList, Array.toList_extract, List.toList_toArray]

theorem skipWhile_ofList (l : Bytes) (f : UInt8 → Bool) (p : Nat) :
    skipWhile (ofList l) f p = p + ((l.drop p).takeWhile f).length := by
  fun_induction skipWhile (ofList l) f p with
  | case1 p h hf ih =>
    rw [ih]
    have hlt : p < l.length := by simpa using h
    rw [List.drop_eq_getElem_cons hlt]
    rw [getElem_ofList l p h] at hf
    simp only [List.takeWhile_cons, hf, ↓reduceIte, List.length_cons]
    omega
  | case2 p h hf =>
    have hlt : p < l.length := by simpa using h
    rw [getElem_ofList l p h] at hf
    have hf' : f l[p] = false := by simpa using hf
    rw [List.drop_eq_getElem_cons hlt, List.takeWhile_cons, hf']
    simp
  | case3 p h =>
    have : l.length ≤ p := by simpa using h
    simp [List.drop_eq_nil_of_le this]

/-! ## reading at a position described by what remains of the text -/

theorem chAt_drop (L : Bytes) (p i : Nat) : chAt (ofList L) (p + i) = (((L.drop p)[i]?).getD 0) := by
  rw [chAt_ofList, List.getElem?_drop]

theorem chAt_of_drop {L : Bytes} {p : Nat} {c : UInt8} {r : Bytes} (h : L.drop p = c :: r) : chAt (ofList L) p = c := by
  have := chAt_drop L p 0
  rw [Nat.add_zero, h] at this; simpa using this

theorem chAt_of_drop1 {L : Bytes} {p : Nat} {c d : UInt8} {r : Bytes} (h : L.drop p = c :: d :: r) : chAt (ofList L) (p + 1) = d := by
  have := chAt_drop L p 1
  rw [h] at this; simpa using this

theorem chAt_of_drop_nil {L : Bytes} {p : Nat} (h : L.drop p = []) (i : Nat) : chAt (ofList L) (p + i) = 0 := by
  rw [chAt_drop, h]; simp

theorem drop_add_of {L : Bytes} {p : Nat} (a b : Bytes) (h : L.drop p = a ++ b) : L.drop (p + a.length) = b := by
  rw [← List.drop_drop, h, List.drop_left]

theorem length_ge_of_drop {L : Bytes} {p : Nat} {a b : Bytes} (h : L.drop p = a ++ b) : p + a.length ≤ L.length ∨ a = [] := by
  by_cases hp : p ≤ L.length
  · have : (L.drop p).length = (a ++ b).length := by rw [h]
    simp only [List.length_drop, List.length_append] at this
    left; omega
  · have h0 : L.drop p = [] := List.drop_eq_nil_of_le (by omega)
    rw [h0] at h
    exact Or.inr (List.append_eq_nil_iff.mp h.symm).1

theorem slice_of_drop {L : Bytes} {p : Nat} (w r : Bytes) (hne : w ≠ []) (h : L.drop p = w ++ r) :
    slice (ofList L) p (p + w.length) = .ok w := by
  rcases length_ge_of_drop h with hl | hl
  · rw [slice_ofList L p (p + w.length) (by omega) hl, h]
    simp
  · exact absurd hl hne

def isWsList (ws : Bytes) : Prop := ∀ c ∈ ws, isWs c = true

/-- the byte that follows a token (0 at the end of the text, which is how the lexer sees the end) -/
def nextCh (rest : Bytes) : UInt8 := rest.headD 0

theorem takeWhile_append_stop (f : UInt8 → Bool) (a rest : Bytes) (ha : ∀ c ∈ a, f c = true)
    (hr : rest = [] ∨ ∃ c r, rest = c :: r ∧ f c = false) : (a ++ rest).takeWhile f = a := by
  induction a with
  | nil =>
    rcases hr with rfl | ⟨c, r, rfl, hc⟩
    · rfl
    · simp [hc]
  | cons x xs ih =>
    simp only [List.cons_append, List.takeWhile_cons, ha x (by simp), ↓reduceIte]
    rw [ih (fun c hc => ha c (by simp [hc]))]

/-- skipping the white space in front of a token -/
theorem skipWs_of_drop {L : Bytes} {p : Nat} (ws body : Bytes) (h : L.drop p = ws ++ body) (hws : isWsList ws)
    (hb : body = [] ∨ ∃ c r, body = c :: r ∧ isWs c = false) :
    skipWhile (ofList L) isWs p = p + ws.length := by
  rw [skipWhile_ofList, h, takeWhile_append_stop isWs ws body hws hb]

/-- `NextToken` once the white space has been skipped -/
def lexAt (inp : ByteArray) (pos : Nat) : Outcome (Token × Nat) :=
  let c := chAt inp pos
  let one (t : TokType) : Outcome (Token × Nat) := .ok ({ type := t, lit := runeBytes c }, pos + 1)
  let two (t : TokType) : Outcome (Token × Nat) := .ok ({ type := t, lit := runeBytes c ++ runeBytes (chAt inp (pos + 1)) }, pos + 2)
  if c == 0 then .ok ({ type := .eof, lit := [] }, pos)
  else if c == 40 then one .leftParen
  else if c == 41 then one .rightParen
  else if c == 44 then one .comma
  else if c == 61 then (if chAt inp (pos + 1) == 61 then two .equal else one .operator)
  else if c == 33 then (if chAt inp (pos + 1) == 61 then two .notEqual else .ok ({ type := .identifier, lit := [] }, pos + 1))
  else if c == 62 then (if chAt inp (pos + 1) == 61 then two .greaterEqual else one .greater)
  else if c == 60 then (if chAt inp (pos + 1) == 61 then two .lessEqual else one .less)
  else if c == 91 then
    (if chAt inp (pos + 1) == 42 && chAt inp (pos + 2) == 93 then .ok ({ type := .arrayStar, lit := b!"[*]" }, pos + 3)
     else one .leftBracket)
  else if c == 93 then one .rightBracket
  else if c == 58 then one .colon
  else if c == 46 then one .dot
  else if c == 34 || c == 39 then
    let (s, p) := readString inp c pos
    .ok ({ type := .string, lit := s }, p)
  else if isLetter c then
    match readIdentifierOrKeyword inp pos with
    | .ok (w, p) => .ok ({ type := lookupIdentifier w, lit := w }, p)
    | .err m => .err m
    | .panic m => .panic m
  else if isDigit c then
    match readNumber inp pos with
    | .ok (w, p) => .ok ({ type := .number, lit := w }, p)
    | .err m => .err m
    | .panic m => .panic m
  else one .operator

theorem nextToken_eq_lexAt (inp : ByteArray) (pos : Nat) : nextToken inp pos = lexAt inp (skipWhile inp isWs pos) := rfl

theorem ws_cases {c : UInt8} (h : isWs c = true) : c = 32 ∨ c = 9 ∨ c = 10 ∨ c = 13 := by
  have : ((c = 32 ∨ c = 9) ∨ c = 10) ∨ c = 13 := by simpa [isWs] using h
  rcases this with ((h | h) | h) | h
  · exact Or.inl h
  · exact Or.inr (Or.inl h)
  · exact Or.inr (Or.inr (Or.inl h))
  · exact Or.inr (Or.inr (Or.inr h))

/-- the character at a position is the first byte of what remains (0 at the end) -/
theorem chAt_next {L : Bytes} {p : Nat} {rest : Bytes} (h : L.drop p = rest) : chAt (ofList L) p = nextCh rest := by
  cases rest with
  | nil => have := chAt_of_drop_nil h 0; simpa [nextCh] using this
  | cons c r => rw [chAt_of_drop h]; rfl

theorem stop_of_next (f : UInt8 → Bool) (rest : Bytes) (h0 : f 0 = false) (h : f (nextCh rest) = false) :
    rest = [] ∨ ∃ c r, rest = c :: r ∧ f c = false := by
  cases rest with
  | nil => exact Or.inl rfl
  | cons c r => exact Or.inr ⟨c, r, rfl, h⟩

theorem nextCh_ws (ws rest : Bytes) (hws : isWsList ws) (hne : ws ≠ []) : isWs (nextCh (ws ++ rest)) = true := by
  obtain ⟨c, r, rfl⟩ := List.exists_cons_of_ne_nil hne
  exact hws c (by simp)

/-- end of the text -/
theorem lexAt_eof {L : Bytes} {q : Nat} (h : L.drop q = []) : lexAt (ofList L) q = .ok (eofTok, q) := by
  have hc : chAt (ofList L) q = 0 := by have := chAt_of_drop_nil h 0; simpa using this
  simp [lexAt, hc, eofTok]

/-- the one-character tokens `( ) , ] .` -/
theorem lexAt_one {L : Bytes} {q : Nat} (c : UInt8) (t : TokType) (r : Bytes) (h : L.drop q = c :: r)
    (hc : (c = 40 ∧ t = .leftParen) ∨ (c = 41 ∧ t = .rightParen) ∨ (c = 44 ∧ t = .comma) ∨ (c = 93 ∧ t = .rightBracket) ∨
          (c = 46 ∧ t = .dot)) :
    lexAt (ofList L) q = .ok ({ type := t, lit := [c] }, q + 1) := by
  have hch := chAt_of_drop h
  rcases hc with ⟨rfl, rfl⟩ | ⟨rfl, rfl⟩ | ⟨rfl, rfl⟩ | ⟨rfl, rfl⟩ | ⟨rfl, rfl⟩ <;> simp [lexAt, hch, runeBytes]

/-- the two-character comparison operators `== != >= <=` -/
theorem lexAt_two {L : Bytes} {q : Nat} (c : UInt8) (t : TokType) (r : Bytes) (h : L.drop q = c :: 61 :: r)
    (hc : (c = 61 ∧ t = .equal) ∨ (c = 33 ∧ t = .notEqual) ∨ (c = 62 ∧ t = .greaterEqual) ∨ (c = 60 ∧ t = .lessEqual)) :
    lexAt (ofList L) q = .ok ({ type := t, lit := [c, 61] }, q + 2) := by
  have hch := chAt_of_drop h
  have hch1 := chAt_of_drop1 h
  rcases hc with ⟨rfl, rfl⟩ | ⟨rfl, rfl⟩ | ⟨rfl, rfl⟩ | ⟨rfl, rfl⟩ <;> simp [lexAt, hch, hch1, runeBytes]

/-- `<` and `>` not followed by `=`, `[` not followed by `*` -/
theorem lexAt_one_delim {L : Bytes} {q : Nat} (c : UInt8) (t : TokType) (rest : Bytes) (h : L.drop q = c :: rest)
    (hc : (c = 62 ∧ t = .greater ∧ nextCh rest ≠ 61) ∨ (c = 60 ∧ t = .less ∧ nextCh rest ≠ 61) ∨
          (c = 91 ∧ t = .leftBracket ∧ nextCh rest ≠ 42)) :
    lexAt (ofList L) q = .ok ({ type := t, lit := [c] }, q + 1) := by
  have hch := chAt_of_drop h
  have hr : L.drop (q + 1) = rest := by
    have := drop_add_of [c] rest (by simpa using h); simpa using this
  have h1 := chAt_next hr
  rcases hc with ⟨rfl, rfl, hn⟩ | ⟨rfl, rfl, hn⟩ | ⟨rfl, rfl, hn⟩ <;> simp [lexAt, hch, h1, hn, runeBytes]

/-! ## words: identifiers, keywords, `true` / `false` / `null` -/

def idc (c : UInt8) : Bool := isLetter c || isDigit c

/-- a word: a letter or underscore followed by letters, digits, underscores -/
def Word (w : Bytes) : Prop := (∃ c r, w = c :: r ∧ isLetter c = true) ∧ ∀ c ∈ w, idc c = true

theorem letter_toNat {c : UInt8} (h : isLetter c = true) :
    (97 ≤ c.toNat ∧ c.toNat ≤ 122) ∨ (65 ≤ c.toNat ∧ c.toNat ≤ 90) ∨ c.toNat = 95 := by
  simp only [isLetter, Bool.or_eq_true, Bool.and_eq_true, decide_eq_true_eq, beq_iff_eq, UInt8.le_iff_toNat_le] at h
  rcases h with (h | h) | h
  · exact Or.inl (by simpa using h)
  · exact Or.inr (Or.inl (by simpa using h))
  · exact Or.inr (Or.inr (by rw [h]; rfl))

theorem digit_toNat {c : UInt8} (h : isDigit c = true) : 48 ≤ c.toNat ∧ c.toNat ≤ 57 := by
  simp only [isDigit, Bool.and_eq_true, decide_eq_true_eq, UInt8.le_iff_toNat_le] at h
  simpa using h

theorem ne_of_toNat {c k : UInt8} (h : c.toNat ≠ k.toNat) : (c == k) = false := by
  simp only [beq_eq_false_iff_ne, ne_eq]
  intro e; exact h (by rw [e])

theorem idc_of_ws_false {c : UInt8} (h : isWs c = true) : idc c = false := by
  rcases ws_cases h with rfl | rfl | rfl | rfl <;> decide

theorem isLetter_of_ws_false {c : UInt8} (h : isWs c = true) : isLetter c = false := by
  rcases ws_cases h with rfl | rfl | rfl | rfl <;> decide

theorem isDigit_of_ws_false {c : UInt8} (h : isWs c = true) : isDigit c = false := by
  rcases ws_cases h with rfl | rfl | rfl | rfl <;> decide

/-- `readIdentifierOrKeyword` on a word that is not `DOES`, followed by a delimiter -/
theorem readIdent_word {L : Bytes} {q : Nat} (w rest : Bytes) (h : L.drop q = w ++ rest) (hw : Word w)
    (hd : idc (nextCh rest) = false) (hdoes : w ≠ b!"DOES") :
    readIdentifierOrKeyword (ofList L) q = .ok (w, q + w.length) := by
  have hne : w ≠ [] := by obtain ⟨⟨c, r, e, _⟩, _⟩ := hw; rw [e]; simp
  have hp1 : skipWhile (ofList L) (fun c => isLetter c || isDigit c) q = q + w.length := by
    rw [skipWhile_ofList, h]
    have := takeWhile_append_stop idc w rest hw.2 (stop_of_next idc rest (by decide) hd)
    unfold idc at this
    rw [this]
  have hsl := slice_of_drop w rest hne h
  unfold readIdentifierOrKeyword
  simp only [hp1, hsl]
  rw [if_neg (fun hh => hdoes hh.1)]

theorem letter_dispatch {c : UInt8} (h : isLetter c = true) :
    (c == 0) = false ∧ (c == 40) = false ∧ (c == 41) = false ∧ (c == 44) = false ∧ (c == 61) = false ∧ (c == 33) = false ∧
    (c == 62) = false ∧ (c == 60) = false ∧ (c == 91) = false ∧ (c == 93) = false ∧ (c == 58) = false ∧ (c == 46) = false ∧
    (c == 34) = false ∧ (c == 39) = false := by
  have := letter_toNat h
  refine ⟨?_, ?_, ?_, ?_, ?_, ?_, ?_, ?_, ?_, ?_, ?_, ?_, ?_, ?_⟩ <;> apply ne_of_toNat <;> simp <;> omega

/-- a word that is not `DOES`, followed by a delimiter, is one token whose type the keyword table decides -/
theorem lexAt_word {L : Bytes} {q : Nat} (w rest : Bytes) (h : L.drop q = w ++ rest) (hw : Word w)
    (hd : idc (nextCh rest) = false) (hdoes : w ≠ b!"DOES") :
    lexAt (ofList L) q = .ok ({ type := lookupIdentifier w, lit := w }, q + w.length) := by
  have hr := readIdent_word w rest h hw hd hdoes
  obtain ⟨⟨c, r, e, hc⟩, _⟩ := hw
  have hch : chAt (ofList L) q = c := chAt_of_drop (by rw [h, e]; rfl)
  obtain ⟨d0, d1, d2, d3, d4, d5, d6, d7, d8, d9, d10, d11, d12, d13⟩ := letter_dispatch hc
  simp only [lexAt, hch, d0, d1, d2, d3, d4, d5, d6, d7, d8, d9, d10, d11, d12, d13, hc, hr, Bool.false_eq_true, ↓reduceIte,
    Bool.or_self]

theorem drop_drop_of {L : Bytes} {q : Nat} (a b : Bytes) (h : L.drop q = a ++ b) (k : Nat) (hk : k = a.length) :
    L.drop (q + k) = b := by subst hk; exact drop_add_of a b h

/-- the three-word keyword `DOES NOT EXIST` -/
theorem readIdent_doesNotExist {L : Bytes} {q : Nat} (rest : Bytes)
    (h : L.drop q = [68, 79, 69, 83, 32, 78, 79, 84, 32, 69, 88, 73, 83, 84] ++ rest) (hd : isLetter (nextCh rest) = false) :
    readIdentifierOrKeyword (ofList L) q = .ok ([68, 79, 69, 83, 32, 78, 79, 84, 32, 69, 88, 73, 83, 84], q + 14) := by
  have h0 : L.drop q = [68, 79, 69, 83] ++ (32 :: ([78, 79, 84, 32, 69, 88, 73, 83, 84] ++ rest)) := by rw [h]; rfl
  have h4 : L.drop (q + 4) = 32 :: ([78, 79, 84, 32, 69, 88, 73, 83, 84] ++ rest) := drop_drop_of _ _ h0 4 rfl
  have h5 : L.drop (q + 4 + 1) = [78, 79, 84] ++ (32 :: ([69, 88, 73, 83, 84] ++ rest)) := by
    have := drop_drop_of [32] _ (by simpa using h4) 1 rfl; rw [this]; rfl
  have h8 : L.drop (q + 4 + 1 + 3) = 32 :: ([69, 88, 73, 83, 84] ++ rest) := drop_drop_of _ _ h5 3 rfl
  have h9 : L.drop (q + 4 + 1 + 3 + 1) = [69, 88, 73, 83, 84] ++ rest := by
    have := drop_drop_of [32] _ (by simpa using h8) 1 rfl; rw [this]; rfl
  have hp1 : skipWhile (ofList L) (fun c => isLetter c || isDigit c) q = q + 4 := by
    rw [skipWhile_ofList, h0]
    have := takeWhile_append_stop idc [68, 79, 69, 83] (32 :: ([78, 79, 84, 32, 69, 88, 73, 83, 84] ++ rest))
      (by decide) (Or.inr ⟨32, _, rfl, by decide⟩)
    unfold idc at this
    rw [this]; rfl
  have hs1 : slice (ofList L) q (q + 4) = .ok [68, 79, 69, 83] := slice_of_drop [68, 79, 69, 83] _ (by simp) h0
  have hc4 : chAt (ofList L) (q + 4) = 32 := chAt_of_drop h4
  have hc5 : chAt (ofList L) (q + 4 + 1) = 78 := chAt_of_drop (by rw [h5]; rfl)
  have hp3 : skipWhile (ofList L) isLetter (q + 4 + 1) = q + 4 + 1 + 3 := by
    rw [skipWhile_ofList, h5, takeWhile_append_stop isLetter [78, 79, 84] _ (by decide) (Or.inr ⟨32, _, rfl, by decide⟩)]; rfl
  have hs2 : slice (ofList L) (q + 4 + 1) (q + 4 + 1 + 3) = .ok [78, 79, 84] := slice_of_drop [78, 79, 84] _ (by simp) h5
  have hc8 : chAt (ofList L) (q + 4 + 1 + 3) = 32 := chAt_of_drop h8
  have hp5 : skipWhile (ofList L) isLetter (q + 4 + 1 + 3 + 1) = q + 4 + 1 + 3 + 1 + 5 := by
    rw [skipWhile_ofList, h9, takeWhile_append_stop isLetter [69, 88, 73, 83, 84] rest (by decide)
      (stop_of_next isLetter rest (by decide) hd)]; rfl
  have hs3 : slice (ofList L) (q + 4 + 1 + 3 + 1) (q + 4 + 1 + 3 + 1 + 5) = .ok [69, 88, 73, 83, 84] :=
    slice_of_drop [69, 88, 73, 83, 84] rest (by simp) h9
  unfold readIdentifierOrKeyword
  simp only [hp1, hs1, hc4, hc5, hp3, hs2, hc8, hp5, hs3, and_self, ↓reduceIte]

theorem lexAt_doesNotExist {L : Bytes} {q : Nat} (rest : Bytes)
    (h : L.drop q = [68, 79, 69, 83, 32, 78, 79, 84, 32, 69, 88, 73, 83, 84] ++ rest) (hd : isLetter (nextCh rest) = false) :
    lexAt (ofList L) q = .ok ({ type := .doesNotExist, lit := [68, 79, 69, 83, 32, 78, 79, 84, 32, 69, 88, 73, 83, 84] }, q + 14) := by
  have hch : chAt (ofList L) q = 68 := chAt_of_drop (by rw [h]; rfl)
  have hr := readIdent_doesNotExist rest h hd
  simp [lexAt, hch, hr, isLetter, lookupIdentifier]

/-! ## numbers -/

theorem numLoop_step_digit {L : Bytes} {p : Nat} {c : UInt8} {r : Bytes} (h : L.drop p = c :: r) (hc : isDigit c = true)
    (fl : Bool) : numLoop (ofList L) p fl = numLoop (ofList L) (p + 1) fl := by
  have hlt : p < (ofList L).size := by
    have : (L.drop p).length = (c :: r).length := by rw [h]
    simp only [List.length_drop, List.length_cons] at this; simp; omega
  have hg : (ofList L)[p] = c := by
    have := chAt_of_drop h
    unfold chAt at this; rw [dif_pos hlt] at this; exact this
  rw [numLoop]
  simp only [hlt, ↓reduceDIte, hg, hc, ↓reduceIte]

theorem numLoop_step_dot {L : Bytes} {p : Nat} {r : Bytes} (h : L.drop p = 46 :: r) :
    numLoop (ofList L) p false = numLoop (ofList L) (p + 1) true := by
  have hlt : p < (ofList L).size := by
    have : (L.drop p).length = ((46 : UInt8) :: r).length := by rw [h]
    simp only [List.length_drop, List.length_cons] at this; simp; omega
  have hg : (ofList L)[p] = 46 := by
    have := chAt_of_drop h
    unfold chAt at this; rw [dif_pos hlt] at this; exact this
  rw [numLoop]
  simp only [hlt, ↓reduceDIte, hg]
  have : isDigit 46 = false := by decide
  simp [this]

/-- what may follow a decimal literal: not a digit, a point, an exponent marker or `x` -/
def NumFollow (c : UInt8) : Prop :=
  isDigit c = false ∧ c ≠ 46 ∧ c ≠ 101 ∧ c ≠ 69 ∧ c ≠ 120 ∧ c ≠ 88

theorem numLoop_stop {L : Bytes} {p : Nat} {rest : Bytes} (h : L.drop p = rest) (hd : NumFollow (nextCh rest)) (fl : Bool) :
    numLoop (ofList L) p fl = p := by
  rw [numLoop]
  split
  · rename_i hlt
    have hg : chAt (ofList L) p = (ofList L)[p] := by unfold chAt; rw [dif_pos hlt]
    have hn := chAt_next h
    rw [hg] at hn
    obtain ⟨h1, h2, _⟩ := hd
    simp [hn, h1, h2]
  · rfl

theorem numLoop_digits {L : Bytes} (ds : Bytes) (hds : ∀ c ∈ ds, isDigit c = true) (p : Nat) (tail : Bytes)
    (h : L.drop p = ds ++ tail) (fl : Bool) : numLoop (ofList L) p fl = numLoop (ofList L) (p + ds.length) fl := by
  induction ds generalizing p with
  | nil => rfl
  | cons c r ih =>
    rw [numLoop_step_digit (by rw [h]; rfl) (hds c (by simp)) fl]
    have h1 : L.drop (p + 1) = r ++ tail := by
      have := drop_drop_of [c] (r ++ tail) (by simpa using h) 1 rfl; exact this
    rw [ih (fun c hc => hds c (by simp [hc])) (p + 1) h1]
    simp only [List.length_cons]
    congr 1; omega

/-- decimal literals: digits, optionally a point and more digits -/
def NumLit (lit : Bytes) : Prop :=
  ∃ ds1 ds2, ds1 ≠ [] ∧ (∀ c ∈ ds1, isDigit c = true) ∧ (∀ c ∈ ds2, isDigit c = true) ∧ (lit = ds1 ∨ lit = ds1 ++ 46 :: ds2)

theorem numLoop_lit {L : Bytes} {q : Nat} (lit rest : Bytes) (hn : NumLit lit) (h : L.drop q = lit ++ rest) (hd : NumFollow (nextCh rest)) :
    numLoop (ofList L) q false = q + lit.length := by
  obtain ⟨ds1, ds2, _, h1, h2, e | e⟩ := hn
  · subst e
    rw [numLoop_digits lit h1 q rest h, numLoop_stop (drop_add_of lit rest h) hd]
  · subst e
    have h' : L.drop q = ds1 ++ (46 :: (ds2 ++ rest)) := by rw [h]; simp
    rw [numLoop_digits ds1 h1 q _ h']
    have hdot : L.drop (q + ds1.length) = 46 :: (ds2 ++ rest) := drop_add_of ds1 _ h'
    rw [numLoop_step_dot hdot]
    have h2' : L.drop (q + ds1.length + 1) = ds2 ++ rest := by
      have := drop_drop_of [46] (ds2 ++ rest) (by simpa using hdot) 1 rfl; exact this
    rw [numLoop_digits ds2 h2 _ rest h2', numLoop_stop (drop_add_of ds2 rest h2') hd]
    simp only [List.length_append, List.length_cons]; omega

theorem digit_dispatch {c : UInt8} (h : isDigit c = true) :
    (c == 0) = false ∧ (c == 40) = false ∧ (c == 41) = false ∧ (c == 44) = false ∧ (c == 61) = false ∧ (c == 33) = false ∧
    (c == 62) = false ∧ (c == 60) = false ∧ (c == 91) = false ∧ (c == 93) = false ∧ (c == 58) = false ∧ (c == 46) = false ∧
    (c == 34) = false ∧ (c == 39) = false ∧ isLetter c = false ∧ (c == 120) = false ∧ (c == 88) = false := by
  have := digit_toNat h
  refine ⟨?_, ?_, ?_, ?_, ?_, ?_, ?_, ?_, ?_, ?_, ?_, ?_, ?_, ?_, ?_, ?_, ?_⟩
  case refine_15 =>
    cases hl : isLetter c with
    | false => rfl
    | true => have := letter_toNat hl; omega
  all_goals (apply ne_of_toNat; simp; omega)

/-- the second character of a number literal (or what follows a one-digit literal) is not `x` / `X` -/
theorem numLit_second {L : Bytes} {q : Nat} (lit rest : Bytes) (hn : NumLit lit) (h : L.drop q = lit ++ rest) (hd : NumFollow (nextCh rest)) :
    (chAt (ofList L) (q + 1) == 120) = false ∧ (chAt (ofList L) (q + 1) == 88) = false := by
  obtain ⟨ds1, ds2, hne, h1, h2, e⟩ := hn
  obtain ⟨d, ds1', rfl⟩ := List.exists_cons_of_ne_nil hne
  cases ds1' with
  | cons x xs =>
    have hx : isDigit x = true := h1 x (by simp)
    have hc : chAt (ofList L) (q + 1) = x := by
      rcases e with e | e <;> subst e <;> exact chAt_of_drop1 (by rw [h]; rfl)
    obtain ⟨_, _, _, _, _, _, _, _, _, _, _, _, _, _, _, a, b⟩ := digit_dispatch hx
    rw [hc]; exact ⟨a, b⟩
  | nil =>
    rcases e with e | e
    · subst e
      have hr : L.drop (q + 1) = rest := drop_drop_of [d] rest (by simpa using h) 1 rfl
      rw [chAt_next hr]
      obtain ⟨_, _, _, _, h5, h6⟩ := hd
      exact ⟨by simpa using h5, by simpa using h6⟩
    · subst e
      have hc : chAt (ofList L) (q + 1) = 46 := chAt_of_drop1 (by rw [h]; rfl)
      rw [hc]; exact ⟨by decide, by decide⟩

theorem readNumber_lit {L : Bytes} {q : Nat} (lit rest : Bytes) (hn : NumLit lit) (h : L.drop q = lit ++ rest) (hd : NumFollow (nextCh rest)) :
    readNumber (ofList L) q = .ok (lit, q + lit.length) := by
  have hne : lit ≠ [] := by
    obtain ⟨ds1, ds2, hne, _, _, e | e⟩ := hn <;> subst e
    · exact hne
    · simp
  obtain ⟨x1, x2⟩ := numLit_second lit rest hn h hd
  have hp1 := numLoop_lit lit rest hn h hd
  have hend : L.drop (q + lit.length) = rest := drop_add_of lit rest h
  have he : (chAt (ofList L) (q + lit.length) == 101 || chAt (ofList L) (q + lit.length) == 69) = false := by
    rw [chAt_next hend]
    obtain ⟨_, _, h3, h4, _, _⟩ := hd
    simp [h3, h4]
  have hsl := slice_of_drop lit rest hne h
  unfold readNumber
  simp only [x1, x2, Bool.or_self, Bool.and_false, Bool.false_eq_true, ↓reduceIte, hp1, Bool.not_false, he, hsl]

theorem lexAt_number {L : Bytes} {q : Nat} (lit rest : Bytes) (hn : NumLit lit) (h : L.drop q = lit ++ rest) (hd : NumFollow (nextCh rest)) :
    lexAt (ofList L) q = .ok ({ type := .number, lit := lit }, q + lit.length) := by
  have hr := readNumber_lit lit rest hn h hd
  obtain ⟨ds1, ds2, hne, h1, _, e⟩ := hn
  obtain ⟨d, ds1', rfl⟩ := List.exists_cons_of_ne_nil hne
  have hd' : isDigit d = true := h1 d (by simp)
  have hch : chAt (ofList L) q = d := by
    rcases e with e | e <;> subst e <;> exact chAt_of_drop (by rw [h]; rfl)
  obtain ⟨d0, d1, d2, d3, d4, d5, d6, d7, d8, d9, d10, d11, d12, d13, d14, _, _⟩ := digit_dispatch hd'
  simp only [lexAt, hch, d0, d1, d2, d3, d4, d5, d6, d7, d8, d9, d10, d11, d12, d13, d14, hd', hr, Bool.false_eq_true, ↓reduceIte,
    Bool.or_self]

/-! ## string literals -/

/-- how a byte is written inside a double-quoted literal -/
def escByte (c : UInt8) : Bytes :=
  if c = 10 then [92, 110] else if c = 9 then [92, 116] else if c = 13 then [92, 114]
  else if c = 92 then [92, 92] else if c = 34 then [92, 34] else [c]

def esc (s : Bytes) : Bytes := s.flatMap escByte

theorem lt_size_of_drop {L : Bytes} {p : Nat} {c : UInt8} {r : Bytes} (h : L.drop p = c :: r) : p < (ofList L).size := by
  have : (L.drop p).length = (c :: r).length := by rw [h]
  simp only [List.length_drop, List.length_cons] at this; simp; omega

theorem getElem_of_drop {L : Bytes} {p : Nat} {c : UInt8} {r : Bytes} (h : L.drop p = c :: r) :
    (ofList L)[p]'(lt_size_of_drop h) = c := by
  have := chAt_of_drop h
  unfold chAt at this; rw [dif_pos (lt_size_of_drop h)] at this; exact this

theorem strLoop_plain {L : Bytes} {p : Nat} {c : UInt8} {r : Bytes} (h : L.drop p = c :: r) (acc : Bytes)
    (h1 : c ≠ 34) (h2 : c ≠ 0) (h3 : c ≠ 92) :
    strLoop (ofList L) 34 p acc = strLoop (ofList L) 34 (p + 1) (c :: acc) := by
  rw [strLoop]
  simp only [lt_size_of_drop h, ↓reduceDIte, getElem_of_drop h]
  simp [h1, h2, h3]

theorem strLoop_escape {L : Bytes} {p : Nat} {e : UInt8} {r : Bytes} (h : L.drop p = 92 :: e :: r) (acc : Bytes) :
    strLoop (ofList L) 34 p acc = strLoop (ofList L) 34 (p + 2)
      (if e == 110 then 10 :: acc else if e == 116 then 9 :: acc else if e == 114 then 13 :: acc
       else if e == 92 then 92 :: acc else if e == 34 then 34 :: acc else if e == 0 then acc else e :: 92 :: acc) := by
  have h1 : L.drop (p + 1) = e :: r := drop_drop_of [92] (e :: r) (by simpa using h) 1 rfl
  have hlt1 : p + 1 < (ofList L).size := lt_size_of_drop h1
  rw [strLoop]
  simp only [lt_size_of_drop h, ↓reduceDIte, getElem_of_drop h, chAt_of_drop1 h, hlt1]
  simp

theorem strLoop_close {L : Bytes} {p : Nat} {r : Bytes} (h : L.drop p = 34 :: r) (acc : Bytes) :
    strLoop (ofList L) 34 p acc = (acc.reverse, p) := by
  rw [strLoop]
  simp only [lt_size_of_drop h, ↓reduceDIte, getElem_of_drop h]
  simp

theorem strLoop_esc {L : Bytes} (s : Bytes) (hs : ∀ c ∈ s, c ≠ 0) (p : Nat) (rest acc : Bytes)
    (h : L.drop p = esc s ++ 34 :: rest) :
    strLoop (ofList L) 34 p acc = (acc.reverse ++ s, p + (esc s).length) := by
  induction s generalizing p acc with
  | nil =>
    simp only [esc, List.flatMap_nil, List.nil_append] at h
    rw [strLoop_close h]; simp [esc]
  | cons c s' ih =>
    have hs' : ∀ c ∈ s', c ≠ 0 := fun x hx => hs x (by simp [hx])
    have hc0 : c ≠ 0 := hs c (by simp)
    have hesc : esc (c :: s') = escByte c ++ esc s' := by simp [esc]
    rw [hesc, List.append_assoc] at h
    have two : ∀ (e v : UInt8), escByte c = [92, e] →
        (if e == 110 then 10 :: acc else if e == 116 then 9 :: acc else if e == 114 then 13 :: acc
         else if e == 92 then 92 :: acc else if e == 34 then 34 :: acc else if e == 0 then acc else e :: 92 :: acc) = v :: acc →
        v = c → strLoop (ofList L) 34 p acc = (acc.reverse ++ c :: s', p + (esc (c :: s')).length) := by
      intro e v he hv hvc
      rw [he] at h
      rw [strLoop_escape (by rw [h]; rfl), hv]
      have h2 : L.drop (p + 2) = esc s' ++ 34 :: rest := drop_drop_of [92, e] _ (by rw [h]) 2 rfl
      rw [ih hs' (p + 2) (v :: acc) h2, hesc, he, hvc]
      simp only [List.reverse_cons, List.append_assoc, List.singleton_append, List.length_append, List.length_cons, List.length_nil]
      congr 1; omega
    by_cases c10 : c = 10
    · exact two 110 10 (by simp [escByte, c10]) (by simp) c10.symm
    by_cases c9 : c = 9
    · exact two 116 9 (by simp [escByte, c9]) (by simp) c9.symm
    by_cases c13 : c = 13
    · exact two 114 13 (by simp [escByte, c13]) (by simp) c13.symm
    by_cases c92 : c = 92
    · exact two 92 92 (by simp [escByte, c92]) (by simp) c92.symm
    by_cases c34 : c = 34
    · exact two 34 34 (by simp [escByte, c34]) (by simp) c34.symm
    · have he : escByte c = [c] := by simp [escByte, c10, c9, c13, c92, c34]
      rw [he] at h
      rw [strLoop_plain (by rw [h]; rfl) acc c34 hc0 c92]
      have h1 : L.drop (p + 1) = esc s' ++ 34 :: rest := drop_drop_of [c] _ (by rw [h]) 1 rfl
      rw [ih hs' (p + 1) (c :: acc) h1, hesc, he]
      simp only [List.reverse_cons, List.append_assoc, List.singleton_append, List.length_append, List.length_cons, List.length_nil]
      congr 1; omega

/-- the spelling of a string literal: the escaped bytes between double quotes -/
def strText (s : Bytes) : Bytes := 34 :: (esc s ++ [34])

theorem lexAt_string {L : Bytes} {q : Nat} (s rest : Bytes) (hs : ∀ c ∈ s, c ≠ 0) (h : L.drop q = strText s ++ rest) :
    lexAt (ofList L) q = .ok ({ type := .string, lit := s }, q + (strText s).length) := by
  have h' : L.drop q = 34 :: (esc s ++ 34 :: rest) := by rw [h]; simp [strText]
  have hch : chAt (ofList L) q = 34 := chAt_of_drop h'
  have h1 : L.drop (q + 1) = esc s ++ 34 :: rest := drop_drop_of [34] _ (by rw [h']; rfl) 1 rfl
  have hl := strLoop_esc s hs (q + 1) rest [] h1
  have hq : chAt (ofList L) (q + 1 + (esc s).length) = 34 := chAt_of_drop (drop_add_of (esc s) _ h1)
  simp only [lexAt, hch, readString, hl, hq]
  simp [strText]
  omega

/-! ### the same with either quote character -/

theorem strLoop_plainQ {L : Bytes} {p : Nat} {c : UInt8} {r : Bytes} (qc : UInt8) (h : L.drop p = c :: r) (acc : Bytes)
    (h1 : c ≠ qc) (h2 : c ≠ 0) (h3 : c ≠ 92) :
    strLoop (ofList L) qc p acc = strLoop (ofList L) qc (p + 1) (c :: acc) := by
  rw [strLoop]
  simp only [lt_size_of_drop h, ↓reduceDIte, getElem_of_drop h]
  simp [h1, h2, h3]

theorem strLoop_escapeQ {L : Bytes} {p : Nat} {e : UInt8} {r : Bytes} (qc : UInt8) (hq : qc ≠ 92) (h : L.drop p = 92 :: e :: r) (acc : Bytes) :
    strLoop (ofList L) qc p acc = strLoop (ofList L) qc (p + 2)
      (if e == 110 then 10 :: acc else if e == 116 then 9 :: acc else if e == 114 then 13 :: acc
       else if e == 92 then 92 :: acc else if e == 34 then 34 :: acc else if e == 0 then acc else e :: 92 :: acc) := by
  have h1 : L.drop (p + 1) = e :: r := drop_drop_of [92] (e :: r) (by simpa using h) 1 rfl
  have hlt1 : p + 1 < (ofList L).size := lt_size_of_drop h1
  have hq' : ¬ (92 : UInt8) = qc := fun e => hq e.symm
  rw [strLoop]
  simp only [lt_size_of_drop h, ↓reduceDIte, getElem_of_drop h, chAt_of_drop1 h, hlt1]
  simp [hq']

theorem strLoop_closeQ {L : Bytes} {p : Nat} {r : Bytes} (qc : UInt8) (h : L.drop p = qc :: r) (acc : Bytes) :
    strLoop (ofList L) qc p acc = (acc.reverse, p) := by
  rw [strLoop]
  simp only [lt_size_of_drop h, ↓reduceDIte, getElem_of_drop h]
  simp

theorem strLoop_escQ {L : Bytes} (qc : UInt8) (hqc : qc = 34 ∨ qc = 39) (s : Bytes) (hs : ∀ c ∈ s, c ≠ 0)
    (hsq : qc = 39 → ∀ c ∈ s, c ≠ 39) (p : Nat) (rest acc : Bytes) (h : L.drop p = esc s ++ qc :: rest) :
    strLoop (ofList L) qc p acc = (acc.reverse ++ s, p + (esc s).length) := by
  have hq92 : qc ≠ 92 := by rcases hqc with e | e <;> rw [e] <;> decide
  induction s generalizing p acc with
  | nil =>
    simp only [esc, List.flatMap_nil, List.nil_append] at h
    rw [strLoop_closeQ qc h]; simp [esc]
  | cons c s' ih =>
    have hs' : ∀ c ∈ s', c ≠ 0 := fun x hx => hs x (by simp [hx])
    have hsq' : qc = 39 → ∀ c ∈ s', c ≠ 39 := fun e x hx => hsq e x (by simp [hx])
    have hc0 : c ≠ 0 := hs c (by simp)
    have hesc : esc (c :: s') = escByte c ++ esc s' := by simp [esc]
    rw [hesc, List.append_assoc] at h
    have two : ∀ (e v : UInt8), escByte c = [92, e] →
        (if e == 110 then 10 :: acc else if e == 116 then 9 :: acc else if e == 114 then 13 :: acc
         else if e == 92 then 92 :: acc else if e == 34 then 34 :: acc else if e == 0 then acc else e :: 92 :: acc) = v :: acc →
        v = c → strLoop (ofList L) qc p acc = (acc.reverse ++ c :: s', p + (esc (c :: s')).length) := by
      intro e v he hv hvc
      rw [he] at h
      rw [strLoop_escapeQ qc hq92 (by rw [h]; rfl), hv]
      have h2 : L.drop (p + 2) = esc s' ++ qc :: rest := drop_drop_of [92, e] _ (by rw [h]) 2 rfl
      rw [ih hs' hsq' (p + 2) (v :: acc) h2, hesc, he, hvc]
      simp only [List.reverse_cons, List.append_assoc, List.singleton_append, List.length_append, List.length_cons, List.length_nil]
      congr 1; omega
    by_cases c10 : c = 10
    · exact two 110 10 (by simp [escByte, c10]) (by simp) c10.symm
    by_cases c9 : c = 9
    · exact two 116 9 (by simp [escByte, c9]) (by simp) c9.symm
    by_cases c13 : c = 13
    · exact two 114 13 (by simp [escByte, c13]) (by simp) c13.symm
    by_cases c92 : c = 92
    · exact two 92 92 (by simp [escByte, c92]) (by simp) c92.symm
    by_cases c34 : c = 34
    · exact two 34 34 (by simp [escByte, c34]) (by simp) c34.symm
    · have he : escByte c = [c] := by simp [escByte, c10, c9, c13, c92, c34]
      rw [he] at h
      have hcq : c ≠ qc := by
        rcases hqc with e | e
        · rw [e]; exact c34
        · rw [e]; exact hsq e c (by simp)
      rw [strLoop_plainQ qc (by rw [h]; rfl) acc hcq hc0 c92]
      have h1 : L.drop (p + 1) = esc s' ++ qc :: rest := drop_drop_of [c] _ (by rw [h]) 1 rfl
      rw [ih hs' hsq' (p + 1) (c :: acc) h1, hesc, he]
      simp only [List.reverse_cons, List.append_assoc, List.singleton_append, List.length_append, List.length_cons, List.length_nil]
      congr 1; omega

/-- a string literal between single quotes (for strings without `'`) -/
def strTextSQ (s : Bytes) : Bytes := 39 :: (esc s ++ [39])

theorem strTextSQ_length (s : Bytes) : (strTextSQ s).length = (strText s).length := by simp [strTextSQ, strText]

theorem lexAt_stringSQ {L : Bytes} {q : Nat} (s rest : Bytes) (hs : ∀ c ∈ s, c ≠ 0) (hsq : ∀ c ∈ s, c ≠ 39)
    (h : L.drop q = strTextSQ s ++ rest) :
    lexAt (ofList L) q = .ok ({ type := .string, lit := s }, q + (strTextSQ s).length) := by
  have h' : L.drop q = 39 :: (esc s ++ 39 :: rest) := by rw [h]; simp [strTextSQ]
  have hch : chAt (ofList L) q = 39 := chAt_of_drop h'
  have h1 : L.drop (q + 1) = esc s ++ 39 :: rest := drop_drop_of [39] _ (by rw [h']; rfl) 1 rfl
  have hl := strLoop_escQ 39 (Or.inr rfl) s hs (fun _ => hsq) (q + 1) rest [] h1
  have hq : chAt (ofList L) (q + 1 + (esc s).length) = 39 := chAt_of_drop (drop_add_of (esc s) _ h1)
  simp only [lexAt, hch, readString, hl, hq]
  simp [strTextSQ]
  omega

/-! ## every token of the language from its spelling -/

def tokText (t : Token) : Bytes := if t.type = .string then strText t.lit else t.lit

/-- tokens whose spelling the lexer reads back: word-like tokens whose type is what the keyword table says,
    decimal literals, string literals without NUL, the punctuation of the language -/
def Lexable (t : Token) : Prop :=
  match t.type with
  | .string => ∀ c ∈ t.lit, c ≠ 0
  | .number => NumLit t.lit
  | .doesNotExist => t.lit = [68, 79, 69, 83, 32, 78, 79, 84, 32, 69, 88, 73, 83, 84]
  | .leftParen => t.lit = [40]
  | .rightParen => t.lit = [41]
  | .comma => t.lit = [44]
  | .rightBracket => t.lit = [93]
  | .dot => t.lit = [46]
  | .leftBracket => t.lit = [91]
  | .greater => t.lit = [62]
  | .less => t.lit = [60]
  | .equal => t.lit = [61, 61]
  | .notEqual => t.lit = [33, 61]
  | .greaterEqual => t.lit = [62, 61]
  | .lessEqual => t.lit = [60, 61]
  | .identifier | .and | .or | .not | .in | .exists | .contains | .startsWith | .endsWith | .matches | .boolean | .null =>
    Word t.lit ∧ t.lit ≠ [68, 79, 69, 83] ∧ lookupIdentifier t.lit = t.type
  | _ => False

/-- what may directly follow a token without changing how it is read: a word needs a non-word character, a
    number none of the characters that continue a number, `<` and `>` anything but `=`, `[` anything but `*`,
    `DOES NOT EXIST` a non-letter; everything else may be followed by anything -/
def FollowOK (t : Token) (c : UInt8) : Prop :=
  match t.type with
  | .number => NumFollow c
  | .doesNotExist => isLetter c = false
  | .greater => c ≠ 61
  | .less => c ≠ 61
  | .leftBracket => c ≠ 42
  | .identifier | .and | .or | .not | .in | .exists | .contains | .startsWith | .endsWith | .matches | .boolean | .null =>
    idc c = false
  | _ => True

theorem lex_token {L : Bytes} {q : Nat} (t : Token) (rest : Bytes) (hl : Lexable t) (h : L.drop q = tokText t ++ rest)
    (hd : FollowOK t (nextCh rest)) : lexAt (ofList L) q = .ok (t, q + (tokText t).length) := by
  obtain ⟨ty, lit⟩ := t
  have word : Word lit ∧ lit ≠ [68, 79, 69, 83] ∧ lookupIdentifier lit = ty → tokText ⟨ty, lit⟩ = lit →
      idc (nextCh rest) = false → lexAt (ofList L) q = .ok (⟨ty, lit⟩, q + (tokText ⟨ty, lit⟩).length) := by
    intro ⟨hw, hdoes, hty⟩ ht hf
    rw [ht] at h ⊢
    rw [lexAt_word lit rest h hw hf hdoes, hty]
  cases ty <;> simp only [Lexable] at hl <;> simp only [FollowOK] at hd
  case string =>
    have ht : tokText ⟨.string, lit⟩ = strText lit := by simp [tokText]
    rw [ht] at h ⊢
    exact lexAt_string lit rest hl h
  case number =>
    have ht : tokText ⟨.number, lit⟩ = lit := by simp [tokText]
    rw [ht] at h ⊢
    exact lexAt_number lit rest hl h hd
  case doesNotExist =>
    subst hl
    have ht : tokText ⟨.doesNotExist, [68, 79, 69, 83, 32, 78, 79, 84, 32, 69, 88, 73, 83, 84]⟩ = [68, 79, 69, 83, 32, 78, 79, 84, 32, 69, 88, 73, 83, 84] := by simp [tokText]
    rw [ht] at h ⊢
    exact lexAt_doesNotExist rest h hd
  case leftParen => subst hl; exact lexAt_one 40 .leftParen rest (by simpa [tokText] using h) (by simp)
  case rightParen => subst hl; exact lexAt_one 41 .rightParen rest (by simpa [tokText] using h) (by simp)
  case comma => subst hl; exact lexAt_one 44 .comma rest (by simpa [tokText] using h) (by simp)
  case rightBracket => subst hl; exact lexAt_one 93 .rightBracket rest (by simpa [tokText] using h) (by simp)
  case dot => subst hl; exact lexAt_one 46 .dot rest (by simpa [tokText] using h) (by simp)
  case leftBracket => subst hl; exact lexAt_one_delim 91 .leftBracket rest (by simpa [tokText] using h) (by simp [hd])
  case greater => subst hl; exact lexAt_one_delim 62 .greater rest (by simpa [tokText] using h) (by simp [hd])
  case less => subst hl; exact lexAt_one_delim 60 .less rest (by simpa [tokText] using h) (by simp [hd])
  case equal => subst hl; exact lexAt_two 61 .equal rest (by simpa [tokText] using h) (by simp)
  case notEqual => subst hl; exact lexAt_two 33 .notEqual rest (by simpa [tokText] using h) (by simp)
  case greaterEqual => subst hl; exact lexAt_two 62 .greaterEqual rest (by simpa [tokText] using h) (by simp)
  case lessEqual => subst hl; exact lexAt_two 60 .lessEqual rest (by simpa [tokText] using h) (by simp)
  all_goals exact word hl (by simp [tokText]) hd

/-- white space and the end of the text may follow every token -/
theorem followOK_ws (t : Token) (c : UInt8) (hc : c = 0 ∨ isWs c = true) : FollowOK t c := by
  have hcases : c = 0 ∨ c = 32 ∨ c = 9 ∨ c = 10 ∨ c = 13 := by
    rcases hc with h | h
    · exact Or.inl h
    · exact Or.inr (ws_cases h)
  obtain ⟨ty, lit⟩ := t
  cases ty <;> simp only [FollowOK] <;> rcases hcases with rfl | rfl | rfl | rfl | rfl <;>
    first | trivial | decide | (refine ⟨?_, ?_, ?_, ?_, ?_, ?_⟩ <;> decide)

theorem lexable_head (t : Token) (hl : Lexable t) : ∃ c r, tokText t = c :: r ∧ isWs c = false := by
  obtain ⟨ty, lit⟩ := t
  have word : Word lit → tokText ⟨ty, lit⟩ = lit → ∃ c r, tokText ⟨ty, lit⟩ = c :: r ∧ isWs c = false := by
    intro ⟨⟨c, r, e, hc⟩, _⟩ ht
    refine ⟨c, r, by rw [ht, e], ?_⟩
    cases hw : isWs c with
    | false => rfl
    | true => rw [isLetter_of_ws_false hw] at hc; cases hc
  cases ty <;> simp only [Lexable] at hl
  case string => exact ⟨34, esc lit ++ [34], by simp [tokText, strText], by decide⟩
  case number =>
    obtain ⟨ds1, ds2, hne, h1, _, e⟩ := hl
    obtain ⟨d, ds1', rfl⟩ := List.exists_cons_of_ne_nil hne
    have hd : isDigit d = true := h1 d (by simp)
    have hws : isWs d = false := by
      cases hw : isWs d with
      | false => rfl
      | true => rw [isDigit_of_ws_false hw] at hd; cases hd
    rcases e with e | e <;> subst e
    · exact ⟨d, ds1', by simp [tokText], hws⟩
    · exact ⟨d, ds1' ++ 46 :: ds2, by simp [tokText], hws⟩
  case doesNotExist => subst hl; exact ⟨68, [79, 69, 83, 32, 78, 79, 84, 32, 69, 88, 73, 83, 84], rfl, by decide⟩
  case leftParen => subst hl; exact ⟨40, [], rfl, by decide⟩
  case rightParen => subst hl; exact ⟨41, [], rfl, by decide⟩
  case comma => subst hl; exact ⟨44, [], rfl, by decide⟩
  case rightBracket => subst hl; exact ⟨93, [], rfl, by decide⟩
  case dot => subst hl; exact ⟨46, [], rfl, by decide⟩
  case leftBracket => subst hl; exact ⟨91, [], rfl, by decide⟩
  case greater => subst hl; exact ⟨62, [], rfl, by decide⟩
  case less => subst hl; exact ⟨60, [], rfl, by decide⟩
  case equal => subst hl; exact ⟨61, [61], rfl, by decide⟩
  case notEqual => subst hl; exact ⟨33, [61], rfl, by decide⟩
  case greaterEqual => subst hl; exact ⟨62, [61], rfl, by decide⟩
  case lessEqual => subst hl; exact ⟨60, [61], rfl, by decide⟩
  all_goals exact word hl.1 (by simp [tokText])

/-! ## either quote character for string literals -/

/-- the spelling of a token when the strings selected by `sq` are written between single quotes -/
def tokTextQ (sq : Token → Bool) (t : Token) : Bytes :=
  if t.type = .string ∧ sq t = true then strTextSQ t.lit else tokText t

/-- lexable under that choice: a string written between single quotes contains no `'` -/
def LexableQ (sq : Token → Bool) (t : Token) : Prop :=
  Lexable t ∧ (t.type = .string → sq t = true → ∀ c ∈ t.lit, c ≠ 39)

theorem tokTextQ_length (sq : Token → Bool) (t : Token) : (tokTextQ sq t).length = (tokText t).length := by
  unfold tokTextQ
  split
  · rename_i h; simp [tokText, h.1, strTextSQ_length]
  · rfl

theorem tokTextQ_false (t : Token) : tokTextQ (fun _ => false) t = tokText t := by simp [tokTextQ]

theorem lexableQ_false (t : Token) (h : Lexable t) : LexableQ (fun _ => false) t := ⟨h, fun _ h => by cases h⟩

theorem lex_tokenQ (sq : Token → Bool) {L : Bytes} {q : Nat} (t : Token) (rest : Bytes) (hl : LexableQ sq t)
    (h : L.drop q = tokTextQ sq t ++ rest) (hd : FollowOK t (nextCh rest)) :
    lexAt (ofList L) q = .ok (t, q + (tokTextQ sq t).length) := by
  by_cases hs : t.type = .string ∧ sq t = true
  · obtain ⟨ty, lit⟩ := t
    have hty : ty = .string := hs.1
    subst hty
    have ht : tokTextQ sq ⟨.string, lit⟩ = strTextSQ lit := by simp [tokTextQ, hs.2]
    rw [ht] at h ⊢
    have h0 : ∀ c ∈ lit, c ≠ 0 := by have := hl.1; simpa [Lexable] using this
    exact lexAt_stringSQ lit rest h0 (hl.2 rfl hs.2) h
  · have ht : tokTextQ sq t = tokText t := by simp only [tokTextQ]; rw [if_neg hs]
    rw [ht] at h ⊢
    exact lex_token t rest hl.1 h hd

theorem lexable_headQ (sq : Token → Bool) (t : Token) (hl : LexableQ sq t) :
    ∃ c r, tokTextQ sq t = c :: r ∧ isWs c = false := by
  by_cases hs : t.type = .string ∧ sq t = true
  · exact ⟨39, esc t.lit ++ [39], by simp only [tokTextQ]; rw [if_pos hs]; rfl, by decide⟩
  · have ht : tokTextQ sq t = tokText t := by simp only [tokTextQ]; rw [if_neg hs]
    rw [ht]; exact lexable_head t hl.1

/-! ## a whole text -/

/-- a spelled-out token sequence: every token preceded by white space -/
def spell (sq : Token → Bool) : List (Bytes × Token) → Bytes
  | [] => []
  | (ws, t) :: r => ws ++ tokTextQ sq t ++ spell sq r

theorem spell_append (sq : Token → Bool) (a b : List (Bytes × Token)) : spell sq (a ++ b) = spell sq a ++ spell sq b := by
  induction a with
  | nil => rfl
  | cons x xs ih => obtain ⟨ws, t⟩ := x; simp [spell, ih]

/-- white space is white space, tokens are lexable, and two neighbouring tokens are either separated by white
    space or the first byte of the second may directly follow the first (`user.name`, `tags[0]`, `a==1`) -/
def SpellOK (sq : Token → Bool) (items : List (Bytes × Token)) : Prop :=
  (∀ pre ws t post, items = pre ++ (ws, t) :: post → isWsList ws ∧ LexableQ sq t) ∧
  (∀ pre ws1 t1 ws2 t2 post, items = pre ++ (ws1, t1) :: (ws2, t2) :: post →
    ws2 ≠ [] ∨ FollowOK t1 (nextCh (tokTextQ sq t2)))

/-- lexer position in front of the white space that precedes token `i` (= right behind token `i - 1`); behind the
    last token: the end of the text -/
def posOf (sq : Token → Bool) (items : List (Bytes × Token)) (trail : Bytes) (i : Nat) : Nat :=
  if i ≤ items.length then (spell sq (items.take i)).length else (spell sq items ++ trail).length

/-- **the lexer on a spelled-out token sequence** serves exactly those tokens, then end-of-input for ever -/
theorem lexes (sq : Token → Bool) (items : List (Bytes × Token)) (trail : Bytes) (hok : SpellOK sq items) (htrail : isWsList trail) :
    SimSrc (nextToken (ofList (spell sq items ++ trail))) (listSrc (items.map (·.2))) (posOf sq items trail) := by
  intro p
  simp only [listSrc]
  rw [nextToken_eq_lexAt]
  by_cases hp : p < items.length
  · -- token p
    obtain ⟨pre, x, post, hsplit, hlen⟩ : ∃ pre x post, items = pre ++ x :: post ∧ pre.length = p :=
      ⟨items.take p, items[p], items.drop (p + 1), by simp, by simp; omega⟩
    obtain ⟨ws, t⟩ := x
    obtain ⟨hws, hlex⟩ := hok.1 pre ws t post hsplit
    have htake : items.take p = pre := by rw [hsplit, ← hlen]; simp
    have htake1 : items.take (p + 1) = pre ++ [(ws, t)] := by
      rw [hsplit, ← hlen]; simp [List.take_append, List.take_of_length_le]
    have hpos : posOf sq items trail p = (spell sq pre).length := by simp [posOf, Nat.le_of_lt hp, htake]
    have hpos1 : posOf sq items trail (p + 1) = (spell sq pre).length + ws.length + (tokTextQ sq t).length := by
      simp [posOf, Nat.succ_le_of_lt hp, htake1, spell_append, spell]; omega
    have htok : ((items.map (·.2)).drop p).headD eofTok = t := by
      rw [hsplit, ← hlen]; simp
    have hdrop : (spell sq items ++ trail).drop (spell sq pre).length = ws ++ (tokTextQ sq t ++ (spell sq post ++ trail)) := by
      rw [hsplit, spell_append, List.append_assoc, List.drop_left]
      simp [spell, List.append_assoc]
    obtain ⟨c, r, hc, hcws⟩ := lexable_headQ sq t hlex
    have hskip := skipWs_of_drop ws (tokTextQ sq t ++ (spell sq post ++ trail)) hdrop hws
      (Or.inr ⟨c, r ++ (spell sq post ++ trail), by rw [hc]; rfl, hcws⟩)
    have hdrop2 : (spell sq items ++ trail).drop ((spell sq pre).length + ws.length) = tokTextQ sq t ++ (spell sq post ++ trail) :=
      drop_add_of ws _ hdrop
    have hfollow : FollowOK t (nextCh (spell sq post ++ trail)) := by
      cases post with
      | nil =>
        simp only [spell, List.nil_append]
        cases trail with
        | nil => exact followOK_ws t _ (Or.inl rfl)
        | cons c r => exact followOK_ws t _ (Or.inr (htrail c (by simp)))
      | cons y ys =>
        obtain ⟨ws2, t2⟩ := y
        obtain ⟨hws2, hlex2⟩ := hok.1 (pre ++ [(ws, t)]) ws2 t2 ys (by rw [hsplit]; simp)
        have hshape : spell sq ((ws2, t2) :: ys) ++ trail = ws2 ++ (tokTextQ sq t2 ++ (spell sq ys ++ trail)) := by
          simp [spell, List.append_assoc]
        rw [hshape]
        cases hw2 : ws2 with
        | cons c r =>
          exact followOK_ws t _ (Or.inr (hws2 c (by rw [hw2]; simp)))
        | nil =>
          rcases hok.2 pre ws t ws2 t2 ys hsplit with h | h
          · exact absurd hw2 h
          · obtain ⟨c2, r2, hc2, _⟩ := lexable_headQ sq t2 hlex2
            simp only [List.nil_append]
            rw [hc2] at h ⊢
            exact h
    rw [hpos, hskip, lex_tokenQ sq t _ hlex hdrop2 hfollow, htok, hpos1]
  · -- end of input
    have hge : items.length ≤ p := Nat.le_of_not_lt hp
    have htok : ((items.map (·.2)).drop p).headD eofTok = eofTok := by
      rw [List.drop_eq_nil_of_le (by simpa using hge)]; rfl
    have hpos1 : posOf sq items trail (p + 1) = (spell sq items ++ trail).length := by
      simp only [posOf]; rw [if_neg (by omega)]
    rw [htok, hpos1]
    by_cases hpe : p = items.length
    · have hpos : posOf sq items trail p = (spell sq items).length := by simp [posOf, hpe]
      have hdrop : (spell sq items ++ trail).drop (spell sq items).length = trail ++ [] := by simp
      have hskip := skipWs_of_drop trail [] hdrop htrail (Or.inl rfl)
      have hend : (spell sq items ++ trail).drop ((spell sq items).length + trail.length) = [] := by
        rw [List.drop_eq_nil_of_le (by simp)]
      rw [hpos, hskip, lexAt_eof hend]
      simp
    · have hpos : posOf sq items trail p = (spell sq items ++ trail).length := by
        simp only [posOf]; rw [if_neg (by omega)]
      have hdrop : (spell sq items ++ trail).drop (spell sq items ++ trail).length = [] ++ [] := by simp
      have hskip := skipWs_of_drop [] [] hdrop (by intro c hc; cases hc) (Or.inl rfl)
      have hend : (spell sq items ++ trail).drop ((spell sq items ++ trail).length + ([] : Bytes).length) = [] := by
        rw [List.drop_eq_nil_of_le (by simp)]
      rw [hpos, hskip, lexAt_eof hend]
      simp

/-! ## from the text of an expression to its tree -/

theorem posOf_zero (sq : Token → Bool) (items : List (Bytes × Token)) (trail : Bytes) : posOf sq items trail 0 = 0 := by
  simp [posOf, spell]

/-- the parser on a spelled-out token sequence = the parser on the tokens -/
theorem parse_spelled (sq : Token → Bool) (items : List (Bytes × Token)) (trail : Bytes) (hok : SpellOK sq items) (htrail : isWsList trail)
    (nok : NumOK) :
    parse (ofList (spell sq items ++ trail)) nok =
      parseSrc (listSrc (items.map (·.2))) nok (parseFuel (spell sq items ++ trail).length) := by
  unfold parse
  rw [size_ofList]
  exact parseSrc_sim _ _ nok (posOf sq items trail) (lexes sq items trail hok htrail) (posOf_zero sq items trail) _

theorem tokText_ne_nil (t : Token) (hl : Lexable t) : 1 ≤ (tokText t).length := by
  obtain ⟨c, r, e, _⟩ := lexable_head t hl
  rw [e]; simp

/-- bytes the tokens themselves take -/
def textLen (toks : List Token) : Nat := (toks.map (fun t => (tokText t).length)).sum

theorem textLen_append (a b : List Token) : textLen (a ++ b) = textLen a + textLen b := by
  simp [textLen]

theorem textLen_cons (t : Token) (r : List Token) : textLen (t :: r) = (tokText t).length + textLen r := by
  simp [textLen]

theorem textLen_nil : textLen [] = 0 := rfl

theorem itemsToks_length (items : List Lit) : items.length ≤ (itemsToks items).length + 1 := by
  induction items with
  | nil => simp
  | cons x xs ih =>
    cases xs with
    | nil => simp [itemsToks]
    | cons y ys => simp only [itemsToks, List.length_cons] at ih ⊢; omega

theorem textLen_le_spell (sq : Token → Bool) (items : List (Bytes × Token)) : textLen (items.map (·.2)) ≤ (spell sq items).length := by
  induction items with
  | nil => simp [textLen, spell]
  | cons x xs ih =>
    obtain ⟨ws, t⟩ := x
    simp only [List.map_cons, textLen_cons, spell, List.length_append, tokTextQ_length]
    omega

theorem textLen_ge (toks : List Token) (h : ∀ t ∈ toks, Lexable t) : toks.length ≤ textLen toks := by
  induction toks with
  | nil => simp [textLen]
  | cons t r ih =>
    have := tokText_ne_nil t (h t (by simp))
    have := ih (fun x hx => h x (by simp [hx]))
    simp only [List.length_cons, textLen_cons]; omega

theorem Path.steps_length (p : Path) : 2 * p.nsteps ≤ p.steps.length := by
  induction p <;> simp [Path.nsteps, Path.steps] <;> omega

theorem tk_len (ty : TokType) (w : Bytes) (h : ty ≠ .string) : (tokText (tk ty w)).length = w.length := by
  simp [tokText, tk, h]

/-- the fuel an expression needs is covered by 16 units per byte of its tokens -/
theorem Expr.need_le_text (e : Expr) (prec : Nat) (hl : ∀ t ∈ e.toks prec, Lexable t) : e.need ≤ 16 * textLen (e.toks prec) := by
  have pathB : ∀ (p : Path) (rest : List Token), (∀ t ∈ p.toks ++ rest, Lexable t) →
      1 + 2 * p.nsteps + rest.length ≤ textLen (p.toks ++ rest) := by
    intro p rest h
    have h1 := textLen_ge (p.toks ++ rest) h
    have h2 := p.steps_length
    have h3 : (p.toks ++ rest).length = 1 + p.steps.length + rest.length := by simp [Path.toks]; omega
    omega
  induction e generalizing prec with
  | cmp op p l =>
    have := pathB p [op.tok, l.tok] (by simpa [Expr.toks] using hl)
    simp only [Expr.need, Expr.toks, List.length_cons, List.length_nil] at this ⊢; omega
  | strop op p s =>
    have := pathB p [op.tok, tk .string s] (by simpa [Expr.toks] using hl)
    simp only [Expr.need, Expr.toks, List.length_cons, List.length_nil] at this ⊢; omega
  | inList p items =>
    have hi := itemsToks_length items
    have := pathB p ([tk .in b!"IN", tk .leftBracket b!"["] ++ itemsToks items ++ [tk .rightBracket b!"]"])
      (by simpa [Expr.toks, List.append_assoc] using hl)
    simp only [Expr.need, Expr.toks, List.length_cons, List.length_nil, List.length_append, List.append_assoc] at this ⊢; omega
  | notInList p items =>
    have hi := itemsToks_length items
    have := pathB p ([tk .not b!"NOT", tk .in b!"IN", tk .leftBracket b!"["] ++ itemsToks items ++ [tk .rightBracket b!"]"])
      (by simpa [Expr.toks, List.append_assoc] using hl)
    simp only [Expr.need, Expr.toks, List.length_cons, List.length_nil, List.length_append, List.append_assoc] at this ⊢; omega
  | «exists» p =>
    have := pathB p [tk .exists b!"EXISTS"] (by simpa [Expr.toks] using hl)
    simp only [Expr.need, Expr.toks, List.length_cons, List.length_nil] at this ⊢; omega
  | notExists p =>
    have := pathB p [tk .doesNotExist b!"DOES NOT EXIST"] (by simpa [Expr.toks] using hl)
    simp only [Expr.need, Expr.toks, List.length_cons, List.length_nil] at this ⊢; omega
  | and a b iha ihb =>
    have hAND : (tokText (tk .and b!"AND")).length = 3 := by decide
    have hlp : (tokText lp).length = 1 := by decide
    have hrp : (tokText rp).length = 1 := by decide
    simp only [Expr.toks, paren] at hl ⊢
    split at hl <;> rename_i hc <;> simp only [hc, ↓reduceIte, Bool.false_eq_true]
    · have ha := iha 1 (fun t ht => hl t (by simp [ht]))
      have hb := ihb 2 (fun t ht => hl t (by simp [ht]))
      simp only [Expr.need, textLen_cons, textLen_append, textLen_nil, hAND, hlp, hrp] at *
      omega
    · have ha := iha 1 (fun t ht => hl t (by simp [ht]))
      have hb := ihb 2 (fun t ht => hl t (by simp [ht]))
      simp only [Expr.need, textLen_cons, textLen_append, textLen_nil, hAND] at *
      omega
  | or a b iha ihb =>
    have hOR : (tokText (tk .or b!"OR")).length = 2 := by decide
    have hlp : (tokText lp).length = 1 := by decide
    have hrp : (tokText rp).length = 1 := by decide
    simp only [Expr.toks, paren] at hl ⊢
    split at hl <;> rename_i hc <;> simp only [hc, ↓reduceIte, Bool.false_eq_true]
    · have ha := iha 0 (fun t ht => hl t (by simp [ht]))
      have hb := ihb 1 (fun t ht => hl t (by simp [ht]))
      simp only [Expr.need, textLen_cons, textLen_append, textLen_nil, hOR, hlp, hrp] at *
      omega
    · have ha := iha 0 (fun t ht => hl t (by simp [ht]))
      have hb := ihb 1 (fun t ht => hl t (by simp [ht]))
      simp only [Expr.need, textLen_cons, textLen_append, textLen_nil, hOR] at *
      omega
  | not a ih =>
    have hNOT : (tokText (tk .not b!"NOT")).length = 3 := by decide
    have hlp : (tokText lp).length = 1 := by decide
    have hrp : (tokText rp).length = 1 := by decide
    simp only [Expr.toks] at hl ⊢
    have ha := ih 0 (fun t ht => hl t (by simp [ht]))
    simp only [Expr.need, textLen_cons, textLen_append, textLen_nil, hNOT, hlp, hrp, List.cons_append, List.nil_append] at *
    omega
  | group a ih =>
    have hlp : (tokText lp).length = 1 := by decide
    have hrp : (tokText rp).length = 1 := by decide
    simp only [Expr.toks] at hl ⊢
    have ha := ih 0 (fun t ht => hl t (by simp [ht]))
    simp only [Expr.need, textLen_cons, textLen_append, textLen_nil, hlp, hrp, List.cons_append, List.nil_append] at *
    omega

/-- **text → tree**: any spelling of the canonical token sequence of an expression — arbitrary white space
    (spaces, tabs, newlines) between the tokens, before the first and behind the last — parses to the
    documented tree `e.ast`; lexer, lazy token pulling, parser and the final end-of-input check included -/
theorem parse_text (sq : Token → Bool) (nok : NumOK) (e : Expr) (he : e.OK nok) (items : List (Bytes × Token)) (trail : Bytes)
    (htoks : items.map (·.2) = e.toks 0) (hok : SpellOK sq items) (htrail : isWsList trail) :
    parse (ofList (spell sq items ++ trail)) nok = .ok e.ast := by
  rw [parse_spelled sq items trail hok htrail nok, htoks]
  apply parse_canonical nok e he
  have hlex : ∀ t ∈ e.toks 0, Lexable t := by
    intro t ht
    rw [← htoks] at ht
    obtain ⟨x, hx, rfl⟩ := List.mem_map.mp ht
    obtain ⟨a, b, e⟩ := List.append_of_mem hx
    exact (hok.1 a x.1 x.2 b e).2.1
  have h1 := e.need_le_text 0 hlex
  have h2 := textLen_le_spell sq items
  rw [htoks] at h2
  simp only [parseFuel, List.length_append]
  omega

/-! ## which expressions can be spelled -/

/-- a field name: a word that is neither a keyword nor `DOES` -/
def IsName (n : Bytes) : Prop := Word n ∧ n ≠ [68, 79, 69, 83] ∧ lookupIdentifier n = .identifier

def Path.Lex : Path → Prop
  | .field n => IsName n
  | .dot p n => p.Lex ∧ IsName n
  | .index p lit => p.Lex ∧ NumLit lit
  | .length p => p.Lex

def Lit.Lex : Lit → Prop
  | .num lit => NumLit lit
  | .str s => ∀ c ∈ s, c ≠ 0
  | .bool _ => True
  | .null => True

/-- field names are names, number literals are decimal literals, strings contain no NUL byte -/
def Expr.Lex : Expr → Prop
  | .cmp _ p l => p.Lex ∧ l.Lex
  | .strop _ p s => p.Lex ∧ ∀ c ∈ s, c ≠ 0
  | .inList p items => p.Lex ∧ ∀ l ∈ items, l.Lex
  | .notInList p items => p.Lex ∧ ∀ l ∈ items, l.Lex
  | .exists p => p.Lex
  | .notExists p => p.Lex
  | .and a b => a.Lex ∧ b.Lex
  | .or a b => a.Lex ∧ b.Lex
  | .not a => a.Lex
  | .group a => a.Lex

theorem word_of_list (w : Bytes) (h : (match w with | c :: _ => isLetter c | [] => false) = true) (h2 : w.all idc = true) : Word w := by
  cases w with
  | nil => simp at h
  | cons c r => exact ⟨⟨c, r, rfl, h⟩, fun x hx => List.all_eq_true.mp h2 x hx⟩

theorem lexable_kw (ty : TokType) (w : Bytes) (hw : (match w with | c :: _ => isLetter c | [] => false) = true)
    (h2 : w.all idc = true) (hd : w ≠ [68, 79, 69, 83]) (hl : lookupIdentifier w = ty)
    (hty : ty = .identifier ∨ ty = .and ∨ ty = .or ∨ ty = .not ∨ ty = .in ∨ ty = .exists ∨ ty = .contains ∨ ty = .startsWith ∨
      ty = .endsWith ∨ ty = .matches ∨ ty = .boolean ∨ ty = .null) : Lexable (tk ty w) := by
  have hword := word_of_list w hw h2
  rcases hty with e | e | e | e | e | e | e | e | e | e | e | e <;> subst e <;> exact ⟨hword, hd, hl⟩

theorem lexable_name (n : Bytes) (h : IsName n) : Lexable (tk .identifier n) := h

theorem Path.steps_lexable (p : Path) (h : p.Lex) : ∀ t ∈ p.steps, Lexable t := by
  induction p with
  | field n => intro t ht; simp [Path.steps] at ht
  | dot p n ih =>
    intro t ht
    simp only [Path.steps, List.mem_append, List.mem_cons, List.not_mem_nil, or_false] at ht
    rcases ht with ht | rfl | rfl
    · exact ih h.1 t ht
    · show Lexable (tk .dot [46]); simp [Lexable, tk]
    · exact lexable_name n h.2
  | index p lit ih =>
    intro t ht
    simp only [Path.steps, List.mem_append, List.mem_cons, List.not_mem_nil, or_false] at ht
    rcases ht with ht | rfl | rfl | rfl
    · exact ih h.1 t ht
    · show Lexable (tk .leftBracket [91]); simp [Lexable, tk]
    · show Lexable (tk .number lit); simp only [Lexable, tk]; exact h.2
    · show Lexable (tk .rightBracket [93]); simp [Lexable, tk]
  | length p ih =>
    intro t ht
    simp only [Path.steps, List.mem_append, List.mem_cons, List.not_mem_nil, or_false] at ht
    rcases ht with ht | rfl | rfl
    · exact ih h t ht
    · show Lexable (tk .dot [46]); simp [Lexable, tk]
    · exact lexable_kw .identifier _ (by decide) (by decide) (by decide) (by decide) (by simp)

theorem Path.root_name (p : Path) (h : p.Lex) : IsName p.root := by
  induction p with
  | field n => exact h
  | dot p n ih => exact ih h.1
  | index p lit ih => exact ih h.1
  | length p ih => exact ih h

theorem Path.toks_lexable (p : Path) (h : p.Lex) : ∀ t ∈ p.toks, Lexable t := by
  intro t ht
  simp only [Path.toks, List.mem_cons] at ht
  rcases ht with rfl | ht
  · exact lexable_name _ (p.root_name h)
  · exact p.steps_lexable h t ht

theorem Lit.tok_lexable (l : Lit) (h : l.Lex) : Lexable l.tok := by
  cases l with
  | num lit => show Lexable (tk .number lit); simp only [Lexable, tk]; exact h
  | str s => show Lexable (tk .string s); simp only [Lexable, tk]; exact h
  | bool b =>
    cases b
    · exact lexable_kw .boolean _ (by decide) (by decide) (by decide) (by decide) (by simp)
    · exact lexable_kw .boolean _ (by decide) (by decide) (by decide) (by decide) (by simp)
  | null => exact lexable_kw .null _ (by decide) (by decide) (by decide) (by decide) (by simp)

theorem Cmp.tok_lexable (op : Cmp) : Lexable op.tok := by
  cases op <;> simp [Cmp.tok, Lexable, tk]

theorem StrOp.tok_lexable (op : StrOp) : Lexable op.tok := by
  cases op
  · exact lexable_kw .contains _ (by decide) (by decide) (by decide) (by decide) (by simp)
  · exact lexable_kw .startsWith _ (by decide) (by decide) (by decide) (by decide) (by simp)
  · exact lexable_kw .endsWith _ (by decide) (by decide) (by decide) (by decide) (by simp)
  · exact lexable_kw .matches _ (by decide) (by decide) (by decide) (by decide) (by simp)

theorem itemsToks_lexable (items : List Lit) (h : ∀ l ∈ items, l.Lex) : ∀ t ∈ itemsToks items, Lexable t := by
  induction items with
  | nil => intro t ht; simp [itemsToks] at ht
  | cons x xs ih =>
    intro t ht
    cases xs with
    | nil =>
      simp only [itemsToks, List.mem_cons, List.not_mem_nil, or_false] at ht
      subst ht; exact x.tok_lexable (h x (by simp))
    | cons y ys =>
      simp only [itemsToks, List.mem_cons] at ht
      rcases ht with rfl | rfl | ht
      · exact x.tok_lexable (h x (by simp))
      · show Lexable (tk .comma [44]); simp [Lexable, tk]
      · exact ih (fun l hl => h l (by simp [hl])) t ht

theorem Expr.toks_lexable (e : Expr) (h : e.Lex) (prec : Nat) : ∀ t ∈ e.toks prec, Lexable t := by
  have hlp : Lexable lp := by simp [lp, Lexable, tk]
  have hrp : Lexable rp := by simp [rp, Lexable, tk]
  have kAND : Lexable (tk .and b!"AND") := lexable_kw .and _ (by decide) (by decide) (by decide) (by decide) (by simp)
  have kOR : Lexable (tk .or b!"OR") := lexable_kw .or _ (by decide) (by decide) (by decide) (by decide) (by simp)
  have kNOT : Lexable (tk .not b!"NOT") := lexable_kw .not _ (by decide) (by decide) (by decide) (by decide) (by simp)
  have kIN : Lexable (tk .in b!"IN") := lexable_kw .in _ (by decide) (by decide) (by decide) (by decide) (by simp)
  have kEX : Lexable (tk .exists b!"EXISTS") := lexable_kw .exists _ (by decide) (by decide) (by decide) (by decide) (by simp)
  have kDNE : Lexable (tk .doesNotExist b!"DOES NOT EXIST") := by simp [Lexable, tk]
  have kLB : Lexable (tk .leftBracket b!"[") := by simp [Lexable, tk]
  have kRB : Lexable (tk .rightBracket b!"]") := by simp [Lexable, tk]
  induction e generalizing prec with
  | cmp op p l =>
    intro t ht
    simp only [Expr.toks, List.mem_append, List.mem_cons, List.not_mem_nil, or_false] at ht
    rcases ht with ht | rfl | rfl
    · exact p.toks_lexable h.1 t ht
    · exact op.tok_lexable
    · exact l.tok_lexable h.2
  | strop op p s =>
    intro t ht
    simp only [Expr.toks, List.mem_append, List.mem_cons, List.not_mem_nil, or_false] at ht
    rcases ht with ht | rfl | rfl
    · exact p.toks_lexable h.1 t ht
    · exact op.tok_lexable
    · show Lexable (tk .string s); simp only [Lexable, tk]; exact h.2
  | inList p items =>
    intro t ht
    simp only [Expr.toks, List.mem_append, List.mem_cons, List.not_mem_nil, or_false] at ht
    rcases ht with ((ht | rfl | rfl) | ht) | rfl
    · exact p.toks_lexable h.1 t ht
    · exact kIN
    · exact kLB
    · exact itemsToks_lexable items h.2 t ht
    · exact kRB
  | notInList p items =>
    intro t ht
    simp only [Expr.toks, List.mem_append, List.mem_cons, List.not_mem_nil, or_false] at ht
    rcases ht with ((ht | rfl | rfl | rfl) | ht) | rfl
    · exact p.toks_lexable h.1 t ht
    · exact kNOT
    · exact kIN
    · exact kLB
    · exact itemsToks_lexable items h.2 t ht
    · exact kRB
  | «exists» p =>
    intro t ht
    simp only [Expr.toks, List.mem_append, List.mem_cons, List.not_mem_nil, or_false] at ht
    rcases ht with ht | rfl
    · exact p.toks_lexable h t ht
    · exact kEX
  | notExists p =>
    intro t ht
    simp only [Expr.toks, List.mem_append, List.mem_cons, List.not_mem_nil, or_false] at ht
    rcases ht with ht | rfl
    · exact p.toks_lexable h t ht
    · exact kDNE
  | and a b iha ihb =>
    intro t ht
    simp only [Expr.toks, paren] at ht
    split at ht
    · simp only [List.mem_cons, List.mem_append, List.not_mem_nil, or_false] at ht
      rcases ht with rfl | ((ht | rfl) | ht) | rfl
      · exact hlp
      · exact iha h.1 1 t ht
      · exact kAND
      · exact ihb h.2 2 t ht
      · exact hrp
    · simp only [List.mem_cons, List.mem_append, List.not_mem_nil, or_false] at ht
      rcases ht with (ht | rfl) | ht
      · exact iha h.1 1 t ht
      · exact kAND
      · exact ihb h.2 2 t ht
  | or a b iha ihb =>
    intro t ht
    simp only [Expr.toks, paren] at ht
    split at ht
    · simp only [List.mem_cons, List.mem_append, List.not_mem_nil, or_false] at ht
      rcases ht with rfl | ((ht | rfl) | ht) | rfl
      · exact hlp
      · exact iha h.1 0 t ht
      · exact kOR
      · exact ihb h.2 1 t ht
      · exact hrp
    · simp only [List.mem_cons, List.mem_append, List.not_mem_nil, or_false] at ht
      rcases ht with (ht | rfl) | ht
      · exact iha h.1 0 t ht
      · exact kOR
      · exact ihb h.2 1 t ht
  | not a ih =>
    intro t ht
    simp only [Expr.toks, List.mem_append, List.mem_cons, List.not_mem_nil, or_false] at ht
    rcases ht with ((rfl | rfl) | ht) | rfl
    · exact kNOT
    · exact hlp
    · exact ih h 0 t ht
    · exact hrp
  | group a ih =>
    intro t ht
    simp only [Expr.toks, List.mem_append, List.mem_cons, List.not_mem_nil, or_false] at ht
    rcases ht with rfl | ht | rfl
    · exact hlp
    · exact ih h 0 t ht
    · exact hrp

/-- the canonical spelling: tokens separated by single spaces -/
def sepItems : List Token → List (Bytes × Token)
  | [] => []
  | t :: r => ([], t) :: r.map (fun t => ([32], t))

theorem sepItems_toks (l : List Token) : (sepItems l).map (·.2) = l := by
  cases l with
  | nil => rfl
  | cons t r => simp [sepItems, Function.comp_def]

theorem sepItems_mem (l : List Token) (ws : Bytes) (t : Token) (h : (ws, t) ∈ sepItems l) :
    (ws = [] ∨ ws = [32]) ∧ t ∈ l := by
  cases l with
  | nil => simp [sepItems] at h
  | cons t0 r =>
    simp only [sepItems, List.mem_cons, List.mem_map, Prod.mk.injEq] at h
    rcases h with ⟨rfl, rfl⟩ | ⟨t', ht', rfl, rfl⟩
    · exact ⟨Or.inl rfl, by simp⟩
    · exact ⟨Or.inr rfl, by simp [ht']⟩

theorem sepItems_ok (sq : Token → Bool) (l : List Token) (h : ∀ t ∈ l, LexableQ sq t) : SpellOK sq (sepItems l) := by
  constructor
  · intro pre ws t post e
    have hm : (ws, t) ∈ sepItems l := by rw [e]; simp
    obtain ⟨hws, ht⟩ := sepItems_mem l ws t hm
    refine ⟨?_, h t ht⟩
    rcases hws with rfl | rfl
    · intro c hc; cases hc
    · intro c hc; simp at hc; subst hc; decide
  · intro pre ws1 t1 ws2 t2 post e
    left
    cases l with
    | nil => simp [sepItems] at e
    | cons t0 r =>
      simp only [sepItems] at e
      have hm : (ws2, t2) ∈ r.map (fun t => (([32] : Bytes), t)) := by
        cases pre with
        | nil =>
          simp only [List.nil_append, List.cons.injEq] at e
          rw [e.2]; simp
        | cons p0 ps =>
          simp only [List.cons_append, List.cons.injEq] at e
          rw [e.2]; simp
      obtain ⟨t', _, e3⟩ := List.mem_map.mp hm
      simp only [Prod.mk.injEq] at e3
      rw [← e3.1]; simp

/-- the canonical text of an expression: its canonical tokens separated by single spaces -/
def Expr.textQ (sq : Token → Bool) (e : Expr) : Bytes := spell sq (sepItems (e.toks 0))

/-- the canonical text with double quotes throughout -/
def Expr.text (e : Expr) : Bytes := e.textQ (fun _ => false)

/-- the single-quoted strings of an expression contain no `'` -/
def Expr.QuotesOK (sq : Token → Bool) (e : Expr) : Prop :=
  ∀ t ∈ e.toks 0, t.type = .string → sq t = true → ∀ c ∈ t.lit, c ≠ 39

theorem Expr.toks_lexableQ (sq : Token → Bool) (e : Expr) (h : e.Lex) (hq : e.QuotesOK sq) : ∀ t ∈ e.toks 0, LexableQ sq t :=
  fun t ht => ⟨e.toks_lexable h 0 t ht, hq t ht⟩

theorem Expr.quotesOK_false (e : Expr) : e.QuotesOK (fun _ => false) := fun _ _ _ h => by cases h

/-- **`BuildFilter`'s parse of the canonical text of any spellable expression is the documented tree**, whichever
    strings are written between single quotes -/
theorem parse_canonical_textQ (sq : Token → Bool) (nok : NumOK) (e : Expr) (he : e.OK nok) (hl : e.Lex) (hq : e.QuotesOK sq) :
    parse (ofList (e.textQ sq)) nok = .ok e.ast := by
  have := parse_text sq nok e he (sepItems (e.toks 0)) [] (sepItems_toks _) (sepItems_ok sq _ (e.toks_lexableQ sq hl hq))
    (by intro c hc; cases hc)
  simpa [Expr.textQ] using this

/-- **`BuildFilter`'s parse of the canonical text of any spellable expression is the documented tree** -/
theorem parse_canonical_text (nok : NumOK) (e : Expr) (he : e.OK nok) (hl : e.Lex) :
    parse (ofList e.text) nok = .ok e.ast :=
  parse_canonical_textQ _ nok e he hl e.quotesOK_false

/-! ## the tight spelling: a space only where two tokens would otherwise run together -/

/-- executable form of `FollowOK` -/
def followb (t : Token) (c : UInt8) : Bool :=
  match t.type with
  | .number => !isDigit c && c != 46 && c != 101 && c != 69 && c != 120 && c != 88
  | .doesNotExist => !isLetter c
  | .greater => c != 61
  | .less => c != 61
  | .leftBracket => c != 42
  | .identifier | .and | .or | .not | .in | .exists | .contains | .startsWith | .endsWith | .matches | .boolean | .null => !idc c
  | _ => true

theorem followb_sound (t : Token) (c : UInt8) (h : followb t c = true) : FollowOK t c := by
  obtain ⟨ty, lit⟩ := t
  cases ty <;> simp only [followb, FollowOK, NumFollow] at h ⊢
  case number =>
    simp only [Bool.and_eq_true, Bool.not_eq_true', bne_iff_ne, ne_eq] at h
    obtain ⟨⟨⟨⟨⟨h1, h2⟩, h3⟩, h4⟩, h5⟩, h6⟩ := h
    exact ⟨h1, h2, h3, h4, h5, h6⟩
  all_goals first | trivial | simpa using h

def tightFrom (sq : Token → Bool) (prev : Token) : List Token → List (Bytes × Token)
  | [] => []
  | t :: r => ((if followb prev (nextCh (tokTextQ sq t)) then [] else [32]), t) :: tightFrom sq t r

/-- tokens written next to each other wherever the lexer still separates them, one space elsewhere -/
def tightItems (sq : Token → Bool) : List Token → List (Bytes × Token)
  | [] => []
  | t :: r => ([], t) :: tightFrom sq t r

theorem tightFrom_toks (sq : Token → Bool) (prev : Token) (l : List Token) : (tightFrom sq prev l).map (·.2) = l := by
  induction l generalizing prev with
  | nil => rfl
  | cons t r ih => simp [tightFrom, ih]

theorem tightItems_toks (sq : Token → Bool) (l : List Token) : (tightItems sq l).map (·.2) = l := by
  cases l with
  | nil => rfl
  | cons t r => simp [tightItems, tightFrom_toks]

theorem tightFrom_ws (sq : Token → Bool) (prev : Token) (l : List Token) : ∀ x ∈ tightFrom sq prev l, (x.1 = [] ∨ x.1 = [32]) ∧ x.2 ∈ l := by
  induction l generalizing prev with
  | nil => intro x hx; simp [tightFrom] at hx
  | cons t r ih =>
    intro x hx
    simp only [tightFrom, List.mem_cons] at hx
    rcases hx with rfl | hx
    · refine ⟨?_, by simp⟩
      simp only
      split
      · exact Or.inl rfl
      · exact Or.inr rfl
    · obtain ⟨h1, h2⟩ := ih t x hx
      exact ⟨h1, by simp [h2]⟩

/-- adjacency in `tightFrom`: every item's white space is empty only if its token may follow the previous one -/
theorem tightFrom_adj (sq : Token → Bool) (prev : Token) (l : List Token) :
    ∀ pre ws1 t1 ws2 t2 post, (([] : Bytes), prev) :: tightFrom sq prev l = pre ++ (ws1, t1) :: (ws2, t2) :: post →
      ws2 ≠ [] ∨ FollowOK t1 (nextCh (tokTextQ sq t2)) := by
  induction l generalizing prev with
  | nil =>
    intro pre ws1 t1 ws2 t2 post e
    have := congrArg List.length e
    simp [tightFrom] at this
    omega
  | cons t r ih =>
    intro pre ws1 t1 ws2 t2 post e
    cases pre with
    | nil =>
      simp only [tightFrom, List.nil_append, List.cons.injEq, Prod.mk.injEq] at e
      obtain ⟨⟨_, rfl⟩, ⟨hws, rfl⟩, _⟩ := e
      by_cases hf : followb prev (nextCh (tokTextQ sq t)) = true
      · exact Or.inr (followb_sound _ _ hf)
      · left; rw [← hws]; simp [hf]
    | cons p0 ps =>
      simp only [tightFrom, List.cons_append, List.cons.injEq] at e
      obtain ⟨_, e2⟩ := e
      -- the tail `(ws, t) :: tightFrom sq t r` has the same shape with `prev := t`, up to the first component
      cases ps with
      | nil =>
        simp only [List.nil_append, List.cons.injEq, Prod.mk.injEq] at e2
        obtain ⟨⟨_, rfl⟩, e3⟩ := e2
        exact ih t [] [] t ws2 t2 post (by simp [e3])
      | cons p1 ps' =>
        simp only [List.cons_append, List.cons.injEq] at e2
        obtain ⟨_, e3⟩ := e2
        exact ih t (([], t) :: ps') ws1 t1 ws2 t2 post (by simp [e3])

theorem tightItems_ok (sq : Token → Bool) (l : List Token) (h : ∀ t ∈ l, LexableQ sq t) : SpellOK sq (tightItems sq l) := by
  cases l with
  | nil => exact ⟨by intro pre ws t post e; simp [tightItems] at e, by intro pre ws1 t1 ws2 t2 post e; simp [tightItems] at e⟩
  | cons t0 r =>
    constructor
    · intro pre ws t post e
      have hm : (ws, t) ∈ tightItems sq (t0 :: r) := by rw [e]; simp
      simp only [tightItems, List.mem_cons, Prod.mk.injEq] at hm
      rcases hm with ⟨rfl, rfl⟩ | hm
      · exact ⟨(by intro c hc; cases hc), h _ (by simp)⟩
      · obtain ⟨h1, h2⟩ := tightFrom_ws sq t0 r (ws, t) hm
        refine ⟨?_, h t (by simp [h2])⟩
        rcases h1 with h1 | h1 <;> simp only at h1 <;> subst h1
        · intro c hc; cases hc
        · intro c hc; simp at hc; subst hc; decide
    · intro pre ws1 t1 ws2 t2 post e
      exact tightFrom_adj sq t0 r pre ws1 t1 ws2 t2 post e

/-- the tight text of an expression -/
def Expr.tightTextQ (sq : Token → Bool) (e : Expr) : Bytes := spell sq (tightItems sq (e.toks 0))

def Expr.tightText (e : Expr) : Bytes := e.tightTextQ (fun _ => false)

theorem parse_tight_textQ (sq : Token → Bool) (nok : NumOK) (e : Expr) (he : e.OK nok) (hl : e.Lex) (hq : e.QuotesOK sq) :
    parse (ofList (e.tightTextQ sq)) nok = .ok e.ast := by
  have := parse_text sq nok e he (tightItems sq (e.toks 0)) [] (tightItems_toks sq _) (tightItems_ok sq _ (e.toks_lexableQ sq hl hq))
    (by intro c hc; cases hc)
  simpa [Expr.tightTextQ] using this

theorem parse_tight_text (nok : NumOK) (e : Expr) (he : e.OK nok) (hl : e.Lex) :
    parse (ofList e.tightText) nok = .ok e.ast :=
  parse_tight_textQ _ nok e he hl e.quotesOK_false

end Syzgy.Query
