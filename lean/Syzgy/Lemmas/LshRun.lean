import Syzgy.Lemmas.LshInv
namespace Syzgy.Lsh
variable {V : Type}

/-- the operations of a collection as one tree of its index sees them -/
inductive IOp (V : Type)
  | add (id : Nat) (v : V)      -- AddDocument (new id or overwrite), `v` = the vector as stored
  | remove (id : Nat)           -- removal
  | touch (id : Nat)            -- UpdateDocument (metadata only)

structure IState (V : Type) where
  store : Nat → Option V        -- the stored vector of every live document
  live : List Nat
  tree : Tree

def setv (store : Nat → Option V) (id : Nat) (v : Option V) : Nat → Option V :=
  fun i => if i = id then v else store i

/-- what `AddDocument` / `removeDocument` / `UpdateDocument` do to a tree: an overwrite first takes the
    old point out, routed by its stored vector; the record is written; the point is inserted, routed
    by the new stored vector (splits look other documents up in the updated store). A removal takes
    the point out by its stored vector, then removes the record; removing an unknown id and a metadata
    update leave the tree alone. -/
def istep (threshold : Nat) (side : H → V → Bool) (choose : List Nat → Option H) (s : IState V) :
    IOp V → Outcome (IState V)
  | .add id v =>
    let t0 := match s.store id with
      | some vOld => remove side id vOld s.tree
      | none => s.tree
    let live0 := match s.store id with
      | some _ => s.live.erase id
      | none => s.live
    match insert threshold side choose (setv s.store id (some v)) id v t0 with
    | .ok t' => .ok { store := setv s.store id (some v), live := live0 ++ [id], tree := t' }
    | .err m => .err m
    | .panic m => .panic m
  | .remove id =>
    match s.store id with
    | some v => .ok { store := setv s.store id none, live := s.live.erase id, tree := remove side id v s.tree }
    | none => .ok s
  | .touch _ => .ok s

def irun (threshold : Nat) (side : H → V → Bool) (choose : List Nat → Option H) :
    IState V → List (IOp V) → Outcome (IState V)
  | s, [] => .ok s
  | s, op :: ops =>
    match istep threshold side choose s op with
    | .ok s' => irun threshold side choose s' ops
    | .err m => .err m
    | .panic m => .panic m

/-- the abstract effect on the stored vectors -/
def ispec (store : Nat → Option V) : IOp V → Nat → Option V
  | .add id v => setv store id (some v)
  | .remove id => setv store id none
  | .touch _ => store

structure IInv (side : H → V → Bool) (s : IState V) : Prop where
  inv : TreeInv side s.store s.live s.tree
  nodup : s.live.Nodup
  exact : ∀ i, i ∈ s.live ↔ s.store i ≠ none


/-- inserting a fresh id (see `C05.add_fresh`) -/
theorem add_fresh' (threshold : Nat) (side : H → V → Bool) (choose : List Nat → Option H)
    (store : Nat → Option V) (live : List Nat) (id : Nat) (v : V) (t : Tree)
    (inv : TreeInv side store live t) (hfresh : id ∉ live) :
    ∃ t', insert threshold side choose (setv store id (some v)) id v t = .ok t' ∧
      TreeInv side (setv store id (some v)) (live ++ [id]) t' := by
  have hne : ∀ i ∈ t.ids, i ≠ id := fun i hi h => hfresh (h ▸ inv.perm.mem_iff.mp hi)
  have hsame : ∀ i ∈ t.ids, store i = setv store id (some v) i := fun i hi => by simp [setv, hne i hi]
  have hr := routed_congr side store (setv store id (some v)) t hsame inv.routed
  have hst : ∀ i ∈ t.ids, (setv store id (some v) i).isSome = true := fun i hi => by
    rw [← hsame i hi]; exact inv.stored i (inv.perm.mem_iff.mp hi)
  obtain ⟨t', e, p, r⟩ := insert_inv threshold side choose (setv store id (some v)) id v t (by simp [setv]) hst hr
  refine ⟨t', e, ⟨p.trans (inv.perm.append_right _), r, ?_⟩⟩
  intro i hi
  rcases List.mem_append.mp hi with h | h
  · by_cases hi' : i = id
    · simp [setv, hi']
    · simp only [setv, hi', ↓reduceIte]; exact inv.stored i h
  · simp at h; simp [setv, h]

theorem treeInv_congr (side : H → V → Bool) (s1 s2 : Nat → Option V) (live : List Nat) (t : Tree)
    (h : ∀ i ∈ live, s1 i = s2 i) (inv : TreeInv side s1 live t) : TreeInv side s2 live t :=
  ⟨inv.perm, routed_congr side s1 s2 t (fun i hi => h i (inv.perm.mem_iff.mp hi)) inv.routed,
   fun i hi => by rw [← h i hi]; exact inv.stored i hi⟩

theorem istep_inv (threshold : Nat) (side : H → V → Bool) (choose : List Nat → Option H) (s : IState V)
    (h : IInv side s) (op : IOp V) :
    ∃ s', istep threshold side choose s op = .ok s' ∧ IInv side s' ∧ s'.store = ispec s.store op := by
  cases op with
  | touch id => exact ⟨s, rfl, h, rfl⟩
  | remove id =>
    cases hs : s.store id with
    | none =>
      refine ⟨s, by simp [istep, hs], h, ?_⟩
      funext i
      simp only [ispec, setv]
      split
      · rename_i e; subst e; exact hs
      · rfl
    | some v =>
      refine ⟨{ store := setv s.store id none, live := s.live.erase id, tree := remove side id v s.tree },
        by simp only [istep, hs], ⟨?_, h.nodup.erase id, ?_⟩, rfl⟩
      · have r := remove_inv side s.store s.live id v s.tree hs h.inv
        apply treeInv_congr side s.store _ _ _ _ r
        intro i hi
        have : i ≠ id := fun e => by subst e; exact (h.nodup.not_mem_erase) hi
        simp [setv, this]
      · intro i
        simp only [setv]
        by_cases hi : i = id
        · subst hi
          simp only [↓reduceIte, ne_eq, not_true_eq_false, iff_false]
          exact h.nodup.not_mem_erase
        · simp only [hi, ↓reduceIte]
          rw [← h.exact i]
          exact ⟨List.mem_of_mem_erase, fun hm => (List.mem_erase_of_ne hi).mpr hm⟩
  | add id v =>
    have hex : ∀ (live0 : List Nat) (t0 : Tree), TreeInv side s.store live0 t0 → live0.Nodup → id ∉ live0 →
        (∀ i, i ≠ id → (i ∈ live0 ↔ s.store i ≠ none)) →
        ∃ t', insert threshold side choose (setv s.store id (some v)) id v t0 = .ok t' ∧
          IInv side { store := setv s.store id (some v), live := live0 ++ [id], tree := t' } := by
      intro live0 t0 inv0 hnd hni hexact
      obtain ⟨t', e, inv'⟩ := add_fresh' threshold side choose s.store live0 id v t0 inv0 hni
      refine ⟨t', e, ⟨inv', ?_, ?_⟩⟩
      · rw [List.nodup_append]
        refine ⟨hnd, by simp, ?_⟩
        intro a ha b hb
        simp at hb; subst hb
        exact fun e => hni (e ▸ ha)
      · intro i
        simp only [List.mem_append, List.mem_singleton, setv]
        by_cases hi : i = id
        · subst hi; simp
        · simp only [hi, or_false, ↓reduceIte]; exact hexact i hi
    cases hs : s.store id with
    | none =>
      have hni : id ∉ s.live := fun hm => (h.exact id).mp hm hs
      obtain ⟨t', e, inv'⟩ := hex s.live s.tree h.inv h.nodup hni (fun i _ => h.exact i)
      exact ⟨{ store := setv s.store id (some v), live := s.live ++ [id], tree := t' }, by simp only [istep, hs, e], inv', rfl⟩
    | some vOld =>
      have r := remove_inv side s.store s.live id vOld s.tree hs h.inv
      obtain ⟨t', e, inv'⟩ := hex (s.live.erase id) (remove side id vOld s.tree) r (h.nodup.erase id) h.nodup.not_mem_erase
        (fun i hi => by
          rw [← h.exact i]
          exact ⟨List.mem_of_mem_erase, fun hm => (List.mem_erase_of_ne hi).mpr hm⟩)
      exact ⟨{ store := setv s.store id (some v), live := s.live.erase id ++ [id], tree := t' },
        by simp only [istep, hs, e], inv', rfl⟩

/-- **after any history** the tree refers to exactly the live documents -/
theorem irun_inv (threshold : Nat) (side : H → V → Bool) (choose : List Nat → Option H) (ops : List (IOp V))
    (s : IState V) (h : IInv side s) :
    ∃ s', irun threshold side choose s ops = .ok s' ∧ IInv side s' ∧ s'.store = ops.foldl ispec s.store := by
  induction ops generalizing s with
  | nil => exact ⟨s, rfl, h, rfl⟩
  | cons op ops ih =>
    obtain ⟨s1, e1, h1, hs1⟩ := istep_inv threshold side choose s h op
    obtain ⟨s2, e2, h2, hs2⟩ := ih s1 h1
    exact ⟨s2, by simp only [irun, e1, e2], h2, by rw [hs2, hs1]; rfl⟩


/-- the collection never holds more than `threshold` documents during the run -/
def SmallRun (threshold : Nat) (side : H → V → Bool) (choose : List Nat → Option H) : IState V → List (IOp V) → Prop
  | _, [] => True
  | s, op :: ops =>
    match istep threshold side choose s op with
    | .ok s' => s'.live.length ≤ threshold ∧ SmallRun threshold side choose s' ops
    | _ => True

theorem insert_leaf_small (threshold : Nat) (side : H → V → Bool) (choose : List Nat → Option H) (store : Nat → Option V)
    (id : Nat) (v : V) (ids : List Nat) (t' : Tree) (h : insert threshold side choose store id v (.leaf ids) = .ok t')
    (hsmall : t'.ids.length ≤ threshold) (hid : store id = some v) (hst : ∀ i ∈ ids, (store i).isSome = true) :
    t' = .leaf (ids ++ [id]) := by
  obtain ⟨t'', e, p, _⟩ := insert_inv threshold side choose store id v (.leaf ids) hid hst trivial
  rw [h] at e; cases e
  have hlen : t'.ids.length = (ids ++ [id]).length := p.length_eq
  unfold insert at h
  simp only at h
  rw [if_neg (by omega)] at h
  cases h; rfl

theorem istep_leaf (threshold : Nat) (side : H → V → Bool) (choose : List Nat → Option H) (s : IState V)
    (h : IInv side s) (ids : List Nat) (hleaf : s.tree = .leaf ids) (op : IOp V) (s' : IState V)
    (hs : istep threshold side choose s op = .ok s') (hsmall : s'.live.length ≤ threshold) :
    ∃ ids', s'.tree = .leaf ids' := by
  obtain ⟨s1, e1, h1, _⟩ := istep_inv threshold side choose s h op
  rw [hs] at e1; cases e1
  have hlen : s'.tree.ids.length ≤ threshold := by rw [h1.inv.perm.length_eq]; exact hsmall
  cases op with
  | touch id => simp only [istep] at hs; cases hs; exact ⟨ids, hleaf⟩
  | remove id =>
    simp only [istep] at hs
    cases hst : s.store id with
    | none => rw [hst] at hs; cases hs; exact ⟨ids, hleaf⟩
    | some v => rw [hst] at hs; cases hs; exact ⟨ids.erase id, by simp [hleaf, remove]⟩
  | add id v =>
    simp only [istep] at hs
    have key : ∀ (ids0 : List Nat), (∀ i ∈ ids0, (setv s.store id (some v) i).isSome = true) →
        ∀ t', insert threshold side choose (setv s.store id (some v)) id v (.leaf ids0) = .ok t' → t'.ids.length ≤ threshold →
        ∃ ids', t' = .leaf ids' := by
      intro ids0 hst t' ht hl
      exact ⟨_, insert_leaf_small threshold side choose _ id v ids0 t' ht hl (by simp [setv]) hst⟩
    have hstore : ∀ i ∈ s.live, (setv s.store id (some v) i).isSome = true := by
      intro i hi
      by_cases e : i = id
      · simp [setv, e]
      · simp only [setv, e, ↓reduceIte]; exact h.inv.stored i hi
    have hids : ∀ i ∈ ids, i ∈ s.live := by
      intro i hi
      have := h.inv.perm
      rw [hleaf] at this
      exact this.mem_iff.mp hi
    cases hst : s.store id with
    | none =>
      simp only [hst, hleaf] at hs
      cases hi : insert threshold side choose (setv s.store id (some v)) id v (.leaf ids) with
      | ok t' =>
        rw [hi] at hs; cases hs
        exact key ids (fun i hm => hstore i (hids i hm)) t' hi hlen
      | err m => rw [hi] at hs; cases hs
      | panic m => rw [hi] at hs; cases hs
    | some vOld =>
      simp only [hst, hleaf, remove] at hs
      cases hi : insert threshold side choose (setv s.store id (some v)) id v (.leaf (ids.erase id)) with
      | ok t' =>
        rw [hi] at hs; cases hs
        exact key (ids.erase id) (fun i hm => hstore i (hids i (List.mem_of_mem_erase hm))) t' hi hlen
      | err m => rw [hi] at hs; cases hs
      | panic m => rw [hi] at hs; cases hs

/-- **a collection that never holds more than `threshold` documents keeps a single leaf** -/
theorem small_run_single_leaf (threshold : Nat) (side : H → V → Bool) (choose : List Nat → Option H) (ops : List (IOp V))
    (s : IState V) (h : IInv side s) (ids : List Nat) (hleaf : s.tree = .leaf ids)
    (hsm : SmallRun threshold side choose s ops) :
    ∃ s' ids', irun threshold side choose s ops = .ok s' ∧ IInv side s' ∧ s'.tree = .leaf ids' ∧ ids'.Perm s'.live := by
  induction ops generalizing s ids with
  | nil =>
    refine ⟨s, ids, rfl, h, hleaf, ?_⟩
    have := h.inv.perm; rw [hleaf] at this; exact this
  | cons op ops ih =>
    obtain ⟨s1, e1, h1, _⟩ := istep_inv threshold side choose s h op
    simp only [SmallRun, e1] at hsm
    obtain ⟨ids1, hl1⟩ := istep_leaf threshold side choose s h ids hleaf op s1 e1 hsm.1
    obtain ⟨s2, ids2, e2, h2, hl2, hp2⟩ := ih s1 h1 ids1 hl1 hsm.2
    exact ⟨s2, ids2, by simp only [irun, e1, e2], h2, hl2, hp2⟩

end Syzgy.Lsh
