import Syzgy.Lemmas.Crash
namespace Syzgy

theorem pairwise_trichotomy {α : Type} (R : α → α → Prop) (l : List α) (h : l.Pairwise R) (a b : α) (ha : a ∈ l) (hb : b ∈ l) :
    a = b ∨ R a b ∨ R b a := by
  induction l with
  | nil => cases ha
  | cons x xs ih =>
    rw [List.pairwise_cons] at h
    rcases List.mem_cons.mp ha with rfl | ha' <;> rcases List.mem_cons.mp hb with rfl | hb'
    · exact Or.inl rfl
    · exact Or.inr (Or.inl (h.1 b hb'))
    · exact Or.inr (Or.inr (h.1 a ha'))
    · exact ih h.2 ha' hb'

/-- in a canonical free map an interval of covered bytes lies inside one region -/
theorem covers_interval_one_run (fm : List Sp) (hg : Good fm) (o n : Nat) (hn : 0 < n)
    (hc : ∀ p, o ≤ p → p < o + n → covers fm p) : ∃ r ∈ fm, r.start ≤ o ∧ o + n ≤ r.start + r.len := by
  induction n with
  | zero => omega
  | succ k ih =>
    by_cases hk : k = 0
    · subst hk
      obtain ⟨r, hr, h1, h2⟩ := hc o (Nat.le_refl _) (by omega)
      exact ⟨r, hr, h1, by simp only [Sp.stop] at h2; omega⟩
    · obtain ⟨r, hr, h1, h2⟩ := ih (by omega) (fun p hp1 hp2 => hc p hp1 (by omega))
      obtain ⟨r', hr', h3, h4⟩ := hc (o + k) (by omega) (by omega)
      simp only [Sp.stop] at h4
      rcases pairwise_trichotomy _ fm hg.2 r r' hr hr' with e | e | e
      · subst e; exact ⟨r, hr, h1, by omega⟩
      · simp only [Sp.stop] at e; omega
      · simp only [Sp.stop] at e; omega

/-- a FREE segment lies inside one region of the free map, which is therefore at least as long -/
theorem free_seg_in_a_run (P Q : List Seg) (j : Bytes) (hok : ∀ x ∈ P ++ .free j :: Q, x.OK) :
    ∃ r ∈ runsOf (P ++ .free j :: Q), (Seg.free j).size ≤ r.len := by
  obtain ⟨hg, hcov⟩ := runsOf_good _ hok
  have hpos : 0 < (Seg.free j).size := by
    have := Seg.size_ge _ (hok (.free j) (by simp)); simp only [minSpanLength] at this; omega
  obtain ⟨r, hr, h1, h2⟩ := covers_interval_one_run _ hg (segsSize P) (Seg.free j).size hpos (by
    intro p hp1 hp2
    rw [hcov p, freeAt_append]
    right
    simp only [freeAt, Nat.zero_add]
    exact Or.inl ⟨rfl, hp1, hp2⟩)
  exact ⟨r, hr, by omega⟩

theorem splice_length (f : Bytes) (off : Nat) (d : Bytes) (h : off + d.length ≤ f.length) :
    (splice f off d).length = f.length := by
  simp only [splice, List.length_append, List.length_take, List.length_drop]
  omega

theorem placeSpan_length (file : Bytes) (free : List Sp) (seq : Nat) (rid : Bytes) (st : List Stream) (p : Placed)
    (h : placeSpan file free seq rid st = .ok p) :
    p.file.length = (allocateSpan file free (Seg.act seq rid st 0).size).file.length := by
  rw [placeSpan_eq] at h
  generalize allocateSpan file free (Seg.act seq rid st 0).size = a at h ⊢
  by_cases hb : a.offset + (placedBytes seq rid st a.remaining).length > a.file.length
  · simp only [hb, ↓reduceIte] at h; cases h
  · simp only [hb, ↓reduceIte] at h
    injection h with h
    subst h
    exact splice_length _ _ _ (by omega)

theorem retireSpan_length (file : Bytes) (free : List Sp) (off : Nat) (f2 : Bytes) (fr2 : List Sp)
    (h : retireSpan file free off = .ok (f2, fr2)) : f2.length = file.length := by
  unfold retireSpan at h
  split at h
  · cases h
  · split at h
    · cases h
    · rename_i hb
      injection h with h; injection h with h1 _; subst h1
      exact splice_length _ _ _ (by simp only [be32_length]; omega)

/-- the file after `WriteRecord` is as long as the file after its allocation step -/
theorem writeRecord_length (s : SF) (rid : Bytes) (st : List Stream) (m : Mut) (h : writeRecord s rid st = .ok m) :
    m.st.file.length = (allocateSpan s.file s.free (Seg.act s.seq rid st 0).size).file.length := by
  unfold writeRecord at h
  simp only at h
  cases hp : placeSpan s.file s.free s.seq rid st with
  | panic e => rw [hp] at h; cases h
  | err e => rw [hp] at h; cases h
  | ok p =>
    rw [hp] at h
    have hl := placeSpan_length _ _ _ _ _ p hp
    simp only at h
    cases hi : idxGet s.index rid with
    | none =>
      rw [hi] at h; simp only at h
      injection h with h; subst h; exact hl
    | some old =>
      rw [hi] at h; simp only at h
      cases hr : retireSpan p.file p.free old with
      | panic e => rw [hr] at h; cases h
      | err e => rw [hr] at h; cases h
      | ok r =>
        obtain ⟨f2, fr2⟩ := r
        rw [hr] at h; simp only at h
        injection h with h; subst h
        simp only
        rw [retireSpan_length _ _ _ _ _ hr, hl]

/-- **a write that fits into some free region does not grow the file** -/
theorem write_no_growth (s : SF) (rid : Bytes) (st : List Stream) (m : Mut) (h : writeRecord s rid st = .ok m)
    (r : Sp) (hr : r ∈ s.free) (hfit : (Seg.act s.seq rid st 0).size ≤ r.len) :
    m.st.file.length = s.file.length := by
  rw [writeRecord_length s rid st m h]
  have hpos : 0 < (Seg.act s.seq rid st 0).size := by simp only [Seg.size]; omega
  unfold allocateSpan
  cases hg : getFreeRange s.free (Seg.act s.seq rid st 0).size with
  | some x => rfl
  | none =>
    have := (getFreeRange_none_iff s.free _ hpos).mp hg r hr
    omega

/-- **the space of a superseded version is available to the next write**: after an overwrite, any
    following write whose record is no longer than the span the overwrite released does not grow the file -/
theorem superseded_space_is_reused (s : SF) (segs : List Seg) (h : Rep s segs) (rid : Bytes) (st : List Stream)
    (hnew : NewOK s.seq rid st)
    (hbig : s.file.length + expandBy s.file.length (Seg.act s.seq rid st 0).size < 4294967296)
    (hold : docOf rid segs ≠ none) :
    ∃ m q t p, writeRecord s rid st = .ok m ∧ Seg.act q rid t p ∈ segs ∧
      ∀ rid2 st2 m2, writeRecord m.st rid2 st2 = .ok m2 →
        (Seg.act m.st.seq rid2 st2 0).size ≤ (Seg.act q rid t p).size →
        m2.st.file.length = m.st.file.length := by
  obtain ⟨m, P, Q, T, sa, sta, pa, sb, stb, pb, h1, _, _, _, hcase, _⟩ :=
    write_over_shape s segs h rid st hnew hbig hold
  rcases hcase with ⟨_, hmem, hRep⟩ | ⟨_, hmem, hRep⟩
  · refine ⟨m, sa, sta, pa, h1, hmem, ?_⟩
    intro rid2 st2 m2 hw hsz
    obtain ⟨hfile, hok, hfree⟩ := hRep.lay
    have hshape : P ++ .free (actJunk sa rid sta pa) :: Q ++ .act sb rid stb pb :: T =
        P ++ .free (actJunk sa rid sta pa) :: (Q ++ .act sb rid stb pb :: T) := by simp
    rw [hshape] at hok hfree
    obtain ⟨r, hr, hlen⟩ := free_seg_in_a_run P (Q ++ .act sb rid stb pb :: T) (actJunk sa rid sta pa) hok
    rw [free_junk_size] at hlen
    exact write_no_growth m.st rid2 st2 m2 hw r (by rw [hfree]; exact hr) (by omega)
  · refine ⟨m, sb, stb, pb, h1, hmem, ?_⟩
    intro rid2 st2 m2 hw hsz
    obtain ⟨hfile, hok, hfree⟩ := hRep.lay
    have hshape : P ++ .act sa rid sta pa :: Q ++ .free (actJunk sb rid stb pb) :: T =
        (P ++ .act sa rid sta pa :: Q) ++ .free (actJunk sb rid stb pb) :: T := by simp
    rw [hshape] at hok hfree
    obtain ⟨r, hr, hlen⟩ := free_seg_in_a_run (P ++ .act sa rid sta pa :: Q) T (actJunk sb rid stb pb) hok
    rw [free_junk_size] at hlen
    exact write_no_growth m.st rid2 st2 m2 hw r (by rw [hfree]; exact hr) (by omega)

/-- the same for the space of a removed record -/
theorem removed_space_is_reused (s : SF) (segs : List Seg) (h : Rep s segs) (rid : Bytes) (hd : docOf rid segs ≠ none) :
    ∃ m q t p, removeRecord s rid = .ok m ∧ Seg.act q rid t p ∈ segs ∧
      ∀ rid2 st2 m2, writeRecord m.st rid2 st2 = .ok m2 →
        (Seg.act m.st.seq rid2 st2 0).size ≤ (Seg.act q rid t p).size →
        m2.st.file.length = m.st.file.length := by
  cases hi : idxGet s.index rid with
  | none =>
    rw [h.index, findAct_none_iff, ← docOf_none_iff] at hi
    exact absurd hi hd
  | some off =>
    obtain ⟨A, seq, st, pad, B, e, ho, _, _, _⟩ := h.at rid off hi
    subst e
    obtain ⟨hret, hok'⟩ := retire_spec s.file s.free A B seq rid st pad h.lay
    refine ⟨{ st := { s with file := render (A ++ .free (actJunk seq rid st pad) :: B), free := runsOf (A ++ .free (actJunk seq rid st pad) :: B), index := idxDel s.index rid }, images := [("markFreed", render (A ++ .free (actJunk seq rid st pad) :: B))] },
      seq, st, pad, ?_, by simp, ?_⟩
    · simp only [removeRecord, hi, ho, hret]
    · intro rid2 st2 m2 hw hsz
      obtain ⟨r, hr, hlen⟩ := free_seg_in_a_run A B (actJunk seq rid st pad) hok'
      rw [free_junk_size] at hlen
      exact write_no_growth _ rid2 st2 m2 hw r hr (by simp only at hsz ⊢; omega)

end Syzgy
