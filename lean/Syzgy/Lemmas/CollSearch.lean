import Syzgy.Lemmas.CollIds
import Syzgy.Lemmas.Knn
import Syzgy.Lemmas.Reopen
/-!
# Search over a collection: the candidates seen by the exact scan and by the listing are exactly the
live documents of the abstract store, whatever order the index map is visited in
-/
namespace Syzgy

/-- what `consider` makes of one index entry during the exact scan: ids that do not parse are skipped
    (`strconv.ParseUint` fails), a failing `getDocument` stops (`StopSearch`), otherwise the candidate
    carries the distance to the *stored* codes and the filter's verdict on the *stored* metadata -/
def candOfEntry (c : Coll) (dist : List Nat → Nat) (flt : Nat → Bytes → Bool) (e : Bytes × Nat) : Option Cand :=
  match idOfEntry e with
  | none => none
  | some id =>
    match getDocument c id with
    | .ok d => some ⟨id, dist d.codes, flt id d.md⟩
    | _ => none

/-- the candidates of an exact scan that visits the index in order `vis` -/
def exactCands (c : Coll) (dist : List Nat → Nat) (flt : Nat → Bytes → Bool) (vis : List (Bytes × Nat)) : List Cand :=
  vis.filterMap (candOfEntry c dist flt)

/-- the same in the abstract store -/
def specCand (docs : DocStore) (dist : List Nat → Nat) (flt : Nat → Bytes → Bool) (id : Nat) : Option Cand :=
  (docs id).map fun d => ⟨id, dist d.codes, flt id d.md⟩

def specCands (docs : DocStore) (dist : List Nat → Nat) (flt : Nat → Bytes → Bool) (ids : List Nat) : List Cand :=
  ids.filterMap (specCand docs dist flt)

theorem candOfEntry_spec (c : Coll) (segs : List Seg) (docs : DocStore) (h : CRep2 c segs docs)
    (dist : List Nat → Nat) (flt : Nat → Bytes → Bool) (e : Bytes × Nat) :
    candOfEntry c dist flt e = (idOfEntry e).bind (specCand docs dist flt) := by
  unfold candOfEntry
  cases hid : idOfEntry e with
  | none => rfl
  | some id =>
    simp only [Option.bind_some, specCand]
    rw [get_refines c segs docs h.base id]
    cases hd : docs id with
    | none => rfl
    | some d => rfl

theorem filterMap_bind {α β γ : Type} (f : α → Option β) (g : β → Option γ) (l : List α) :
    l.filterMap (fun a => (f a).bind g) = (l.filterMap f).filterMap g := by
  induction l with
  | nil => rfl
  | cons a r ih =>
    simp only [List.filterMap_cons]
    cases f a with
    | none => simpa using ih
    | some b =>
      simp only [Option.bind_some, List.filterMap_cons]
      cases g b <;> simp [ih]

/-- **the exact scan sees exactly the live documents**: in whatever order the index map is visited,
    the candidates are a permutation of one candidate per live id, each with the distance to its stored
    vector and the filter's verdict on its stored metadata -/
theorem exactCands_spec (c : Coll) (segs : List Seg) (docs : DocStore) (h : CRep2 c segs docs)
    (dist : List Nat → Nat) (flt : Nat → Bytes → Bool) (vis : List (Bytes × Nat)) (hv : vis.Perm c.sf.index) :
    (exactCands c dist flt vis).Perm (specCands docs dist flt (getAllIDs c)) := by
  unfold exactCands specCands
  have h1 : vis.filterMap (candOfEntry c dist flt) = vis.filterMap (fun e => (idOfEntry e).bind (specCand docs dist flt)) := by
    congr 1
    funext e
    exact candOfEntry_spec c segs docs h dist flt e
  rw [h1, filterMap_bind, getAllIDs_eq]
  exact ((hv.filterMap idOfEntry).trans (sortNat_perm _).symm).filterMap _

/-- every candidate of the abstract list is a live document with its own distance and verdict -/
theorem specCands_mem (docs : DocStore) (dist : List Nat → Nat) (flt : Nat → Bytes → Bool) (ids : List Nat) (x : Cand) :
    x ∈ specCands docs dist flt ids ↔ x.id ∈ ids ∧ ∃ d, docs x.id = some d ∧ x.dist = dist d.codes ∧ x.acc = flt x.id d.md := by
  unfold specCands specCand
  simp only [List.mem_filterMap, Option.map_eq_some_iff]
  constructor
  · rintro ⟨id, hid, d, hd, rfl⟩
    exact ⟨hid, d, hd, rfl, rfl⟩
  · rintro ⟨hid, d, hd, h1, h2⟩
    refine ⟨x.id, hid, d, hd, ?_⟩
    cases x; simp only at h1 h2 ⊢; subst h1 h2; rfl

theorem specCands_ids (docs : DocStore) (dist : List Nat → Nat) (flt : Nat → Bytes → Bool) (ids : List Nat)
    (hall : ∀ id ∈ ids, docs id ≠ none) : (specCands docs dist flt ids).map (·.id) = ids := by
  induction ids with
  | nil => rfl
  | cons a r ih =>
    have ha := hall a (by simp)
    cases hd : docs a with
    | none => exact absurd hd ha
    | some d =>
      simp only [specCands, List.filterMap_cons, specCand, hd, Option.map_some, List.map_cons]
      congr 1
      exact ih (fun id hid => hall id (by simp [hid]))

/-- the record an index entry points at: for a document id it is that document's record, and stream 0 read
    from the mapped bytes at the entry's offset is the document's metadata -/
theorem entry_metadata (c : Coll) (segs : List Seg) (docs : DocStore) (h : CRep2 c segs docs) (e : Bytes × Nat)
    (he : e ∈ c.sf.index) (id : Nat) (hid : idOfEntry e = some id) :
    ∃ d, docs id = some d ∧ getStream (c.sf.file.drop e.2) 0 = .ok d.md := by
  rcases idOfEntry_spec c segs docs h e he with ⟨_, h0⟩ | ⟨id', hid', hr, h1⟩
  · rw [h0] at hid; cases hid
  · rw [h1] at hid
    injection hid with hid
    subst hid
    have hi := idxGet_of_mem c.sf.index h.keys e he
    rw [hr] at hi
    obtain ⟨A, seq, st, pad, B, hsegs, hoff, _, _, hdoc⟩ := h.base.rep.at (ridOf id') e.2 hi
    have hst := h.base.stored id'
    rw [hdoc] at hst
    cases hd : docs id' with
    | none => rw [hd] at hst; cases hst
    | some d =>
      rw [hd] at hst
      simp only [Option.map_some, Option.some.injEq] at hst
      subst hst
      obtain ⟨hfile, hok, _⟩ := h.base.rep.lay
      have hA : ∀ x ∈ A, x.OK := fun x hx => hok x (by rw [hsegs]; simp [hx])
      have hs : (Seg.act seq (ridOf id') (docStreams c.cfg.quant d) pad).OK := hok _ (by rw [hsegs]; simp)
      have hdrop : c.sf.file.drop e.2 = actBytes seq (ridOf id') (docStreams c.cfg.quant d) pad ++ render B := by
        rw [hfile, hsegs, render_append, render_cons, hoff, List.drop_left' (render_length A hA)]
        rfl
      obtain ⟨g0, _⟩ := getStream_doc seq (ridOf id') c.cfg.quant d pad (render B) hs
      exact ⟨d, rfl, by rw [hdrop, g0]⟩

/-- one callback of the listing's `IterateSortedRecords`: the header record is skipped, the id is
    `ParseUint` with the error ignored (0), the metadata is stream 0 with the error ignored (nil) -/
def listItem (c : Coll) (flt : Nat → Bytes → Bool) (e : Bytes × Nat) : Option (Nat × Bool) :=
  if e.1.isEmpty then none else
    let id := (parseUint e.1).getD 0
    let md := match getStream (c.sf.file.drop e.2) 0 with | .ok m => m | _ => []
    some (id, flt id md)

/-- the listing's items when the non-empty keys are visited in the order of `vis` (`sort.Strings`) -/
def listItems (c : Coll) (flt : Nat → Bytes → Bool) (vis : List (Bytes × Nat)) : List (Nat × Bool) :=
  vis.filterMap (listItem c flt)

def specItem (docs : DocStore) (flt : Nat → Bytes → Bool) (id : Nat) : Option (Nat × Bool) :=
  (docs id).map fun d => (id, flt id d.md)

theorem listItem_spec (c : Coll) (segs : List Seg) (docs : DocStore) (h : CRep2 c segs docs)
    (flt : Nat → Bytes → Bool) (e : Bytes × Nat) (he : e ∈ c.sf.index) :
    listItem c flt e = (idOfEntry e).bind (specItem docs flt) := by
  rcases idOfEntry_spec c segs docs h e he with ⟨h0, h1⟩ | ⟨id, hid, hr, h1⟩
  · rw [h1]; simp [listItem, h0]
  · obtain ⟨d, hd, hg⟩ := entry_metadata c segs docs h e he id h1
    have hne : e.1.isEmpty = false := by rw [hr]; cases hx : ridOf id <;> simp_all [ridOf_ne_nil]
    simp only [listItem, hne, Bool.false_eq_true, ↓reduceIte, h1, Option.bind_some, specItem, hd, Option.map_some, hg]
    rw [hr, parseUint_ridOf id hid]
    rfl

theorem filterMap_congr' {α β : Type} (f g : α → Option β) (l : List α) (h : ∀ a ∈ l, f a = g a) :
    l.filterMap f = l.filterMap g := by
  induction l with
  | nil => rfl
  | cons a r ih =>
    simp only [List.filterMap_cons, h a (by simp)]
    rw [ih (fun x hx => h x (by simp [hx]))]

/-- **the listing sees exactly the live documents**: one item per live id, with the filter's verdict on
    the stored metadata, in the order the keys are visited in -/
theorem listItems_spec (c : Coll) (segs : List Seg) (docs : DocStore) (h : CRep2 c segs docs)
    (flt : Nat → Bytes → Bool) (vis : List (Bytes × Nat)) (hv : vis.Perm c.sf.index) :
    listItems c flt vis = (vis.filterMap idOfEntry).filterMap (specItem docs flt) := by
  unfold listItems
  rw [← filterMap_bind]
  exact filterMap_congr' _ _ _ (fun e he => listItem_spec c segs docs h flt e (hv.mem_iff.mp he))

/-- the ids visited are the live ids, each once -/
theorem visited_ids (c : Coll) (segs : List Seg) (docs : DocStore) (h : CRep2 c segs docs)
    (vis : List (Bytes × Nat)) (hv : vis.Perm c.sf.index) :
    (vis.filterMap idOfEntry).Perm (getAllIDs c) ∧ (vis.filterMap idOfEntry).Nodup := by
  have hp : (vis.filterMap idOfEntry).Perm (getAllIDs c) := by
    rw [getAllIDs_eq]; exact (hv.filterMap idOfEntry).trans (sortNat_perm _).symm
  exact ⟨hp, hp.nodup_iff.mpr (allIDs_sorted_nodup c segs docs h).2⟩

end Syzgy
