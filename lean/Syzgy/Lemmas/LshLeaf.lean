import Syzgy.Lemmas.LshComplete
import Syzgy.Lemmas.Knn
/-!
# A forest of single leaves: the approximate search is the exact scan

When no tree has split yet, the traversal pops one leaf, considers every id in it, and meets only
visited ids afterwards; the result is the exact K-nearest scan over that leaf's order, and the distances
of an exact K-nearest result do not depend on the visiting order.
-/
namespace Syzgy.Lsh

/-- the `n` smallest elements of a multiset, in ascending order, are unique -/
theorem smallest_unique (D L1 R1 L2 R2 : List Nat) (h1 : (L1 ++ R1).Perm D) (h2 : (L2 ++ R2).Perm D)
    (a1 : L1.Pairwise (· ≤ ·)) (a2 : L2.Pairwise (· ≤ ·))
    (c1 : ∀ x ∈ L1, ∀ y ∈ R1, x ≤ y) (c2 : ∀ x ∈ L2, ∀ y ∈ R2, x ≤ y) (hl : L1.length = L2.length) : L1 = L2 := by
  let le : Nat → Nat → Bool := fun a b => decide (a ≤ b)
  have htrans : ∀ a b c : Nat, le a b → le b c → le a c := by
    intro a b c h1 h2; simp only [le, decide_eq_true_eq] at *; omega
  have htotal : ∀ a b : Nat, le a b || le b a := by
    intro a b; simp only [le, Bool.or_eq_true, decide_eq_true_eq]; omega
  have sorted : ∀ (L R : List Nat), L.Pairwise (· ≤ ·) → (∀ x ∈ L, ∀ y ∈ R, x ≤ y) →
      (L ++ R.mergeSort le).Pairwise (fun a b => le a b) := by
    intro L R aL cL
    rw [List.pairwise_append]
    refine ⟨?_, List.pairwise_mergeSort htrans htotal R, ?_⟩
    · exact aL.imp (by intro a b h; simpa [le] using h)
    · intro x hx y hy
      have := cL x hx y (List.mem_mergeSort.mp hy)
      simpa [le] using this
  have p1 : (L1 ++ R1.mergeSort le).Perm D := ((List.mergeSort_perm R1 le).append_left L1).trans h1
  have p2 : (L2 ++ R2.mergeSort le).Perm D := ((List.mergeSort_perm R2 le).append_left L2).trans h2
  have heq : L1 ++ R1.mergeSort le = L2 ++ R2.mergeSort le := by
    apply List.Perm.eq_of_pairwise (le := fun a b => le a b) _ (sorted L1 R1 a1 c1) (sorted L2 R2 a2 c2) (p1.trans p2.symm)
    intro a b _ _ hab hba
    simp only [le, decide_eq_true_eq] at hab hba
    omega
  have := congrArg (List.take L1.length) heq
  rw [List.take_left' rfl, hl, List.take_left' rfl] at this
  exact this

/-- the distances of an exact K-nearest result depend only on the multiset of candidates -/
theorem knn_dists_unique (K : Nat) (c1 c2 : List Cand) (hp : c1.Perm c2) :
    (exactKnn K c1).map (·.dist) = (exactKnn K c2).map (·.dist) := by
  obtain ⟨r1, i1⟩ := exact_knn_heap K c1
  obtain ⟨r2, i2⟩ := exact_knn_heap K c2
  have hD : ((c1.filter (·.acc)).map (·.dist)).Perm ((c2.filter (·.acc)).map (·.dist)) := (hp.filter _).map _
  have asc : ∀ h : List Cand, Desc h → (h.reverse.map (·.dist)).Pairwise (· ≤ ·) := by
    intro h hd
    rw [List.pairwise_map, List.pairwise_reverse]
    exact hd
  have key := smallest_unique ((c2.filter (·.acc)).map (·.dist))
    ((c1.foldl (considerK K) []).reverse.map (·.dist)) (r1.map (·.dist))
    ((c2.foldl (considerK K) []).reverse.map (·.dist)) (r2.map (·.dist))
    (by
      rw [← List.map_append]
      exact ((((List.reverse_perm _).append_right r1).trans i1.perm).map _).trans hD)
    (by
      rw [← List.map_append]
      exact (((List.reverse_perm _).append_right r2).trans i2.perm).map _)
    (asc _ i1.desc) (asc _ i2.desc)
    (by
      intro x hx y hy
      simp only [List.mem_map, List.mem_reverse] at hx hy
      obtain ⟨a, ha, rfl⟩ := hx
      obtain ⟨b, hb, rfl⟩ := hy
      exact i1.low a ha b hb)
    (by
      intro x hx y hy
      simp only [List.mem_map, List.mem_reverse] at hx hy
      obtain ⟨a, ha, rfl⟩ := hx
      obtain ⟨b, hb, rfl⟩ := hy
      exact i2.low a ha b hb)
    (by
      simp only [List.length_map, List.length_reverse, i1.len, i2.len]
      have := (hp.filter (·.acc)).length_eq
      rw [this])
  simpa [exactKnn] using key


/-- in K mode `consider` on a live document is the exact scan's step on the result heap, and never stops -/
theorem consider_heap (K : Nat) (hK : 0 < K) (lookup : Nat → Option Cand) (st : SState) (id radius : Nat) (c : Cand)
    (hc : lookup id = some c) :
    (consider K 0 lookup st id radius).2.2.heap = considerK K st.heap c ∧ (consider K 0 lookup st id radius).1 ≠ .stop := by
  unfold consider considerK
  simp only [hc, Nat.lt_irrefl, ↓reduceIte, hK]
  by_cases hacc : c.acc = true
  · simp only [hacc, Bool.not_true, Bool.false_eq_true, ↓reduceIte]
    by_cases hcond : st.heap.length ≤ K ∧ (decide (st.heap.length < K) || topGt st.heap c.dist) = true
    · simp only [hcond, and_self, ↓reduceIte, hcond.1]
      simp
    · simp only [hcond, ↓reduceIte]
      refine ⟨?_, by simp⟩
      by_cases hl : st.heap.length ≤ K
      · have : ¬ ((decide (st.heap.length < K) || topGt st.heap c.dist) = true) := fun h => hcond ⟨hl, h⟩
        simp [hl, this]
      · simp [hl]
  · have hacc' : c.acc = false := by simpa using hacc
    simp [hacc']

theorem visitLeaf_fold (K : Nat) (hK : 0 < K) (lookup : Nat → Option Cand) (cand : Nat → Cand) (ids : List Nat) (s : LoopSt)
    (hlk : ∀ id ∈ ids, lookup id = some (cand id)) (hnd : ids.Nodup) (hdisj : ∀ id ∈ ids, id ∉ s.visited)
    (hns : s.stopped = false) :
    (visitLeaf K 0 lookup ids s).st.heap = ids.foldl (fun h id => considerK K h (cand id)) s.st.heap ∧
    (visitLeaf K 0 lookup ids s).stopped = false ∧ (visitLeaf K 0 lookup ids s).pq = s.pq ∧
    (∀ id, id ∈ (visitLeaf K 0 lookup ids s).visited ↔ (id ∈ ids ∨ id ∈ s.visited)) := by
  induction ids generalizing s with
  | nil => simp [visitLeaf, hns]
  | cons id rest ih =>
    simp only [List.nodup_cons] at hnd
    have hnv : s.visited.contains id = false := by
      have := hdisj id (by simp)
      simpa using this
    unfold visitLeaf
    simp only [hnv, Bool.false_eq_true, ↓reduceIte]
    obtain ⟨hh, hstop⟩ := consider_heap K hK lookup s.st id s.radius (cand id) (hlk id (by simp))
    rcases hcons : consider K 0 lookup s.st id s.radius with ⟨sig, rad, st'⟩
    rw [hcons] at hh hstop
    simp only at hh hstop
    have hrest : ∀ x ∈ rest, lookup x = some (cand x) := fun x hx => hlk x (by simp [hx])
    have hdisj' : ∀ (v : List Nat), v = id :: s.visited → ∀ x ∈ rest, x ∉ v := by
      intro v hv x hx
      subst hv
      simp only [List.mem_cons, not_or]
      exact ⟨fun e => hnd.1 (e ▸ hx), hdisj x (by simp [hx])⟩
    cases sig with
    | stop => exact absurd rfl hstop
    | accepted =>
      obtain ⟨h1, h2, h3, h4⟩ := ih { s with visited := id :: s.visited, kCounter := 0, accepted := true, radius := rad, st := st' }
        hrest hnd.2 (hdisj' _ rfl) hns
      refine ⟨by rw [h1]; simp [hh], h2, h3, fun x => ?_⟩
      rw [h4 x]; simp only [List.mem_cons]
      constructor
      · rintro (h | h | h)
        · exact Or.inl (Or.inr h)
        · exact Or.inl (Or.inl h)
        · exact Or.inr h
      · rintro ((h | h) | h)
        · exact Or.inr (Or.inl h)
        · exact Or.inl h
        · exact Or.inr (Or.inr h)
    | checked =>
      obtain ⟨h1, h2, h3, h4⟩ := ih { s with visited := id :: s.visited, kCounter := (if s.accepted then s.kCounter + 1 else s.kCounter), radius := rad, st := st' }
        hrest hnd.2 (hdisj' _ rfl) hns
      refine ⟨by rw [h1]; simp [hh], h2, h3, fun x => ?_⟩
      rw [h4 x]; simp only [List.mem_cons]
      constructor
      · rintro (h | h | h)
        · exact Or.inl (Or.inr h)
        · exact Or.inl (Or.inl h)
        · exact Or.inr h
      · rintro ((h | h) | h)
        · exact Or.inr (Or.inl h)
        · exact Or.inl h
        · exact Or.inr (Or.inr h)
    | ignored =>
      obtain ⟨h1, h2, h3, h4⟩ := ih { s with visited := id :: s.visited, radius := rad, st := st' }
        hrest hnd.2 (hdisj' _ rfl) hns
      refine ⟨by rw [h1]; simp [hh], h2, h3, fun x => ?_⟩
      rw [h4 x]; simp only [List.mem_cons]
      constructor
      · rintro (h | h | h)
        · exact Or.inl (Or.inr h)
        · exact Or.inl (Or.inl h)
        · exact Or.inr h
      · rintro ((h | h) | h)
        · exact Or.inr (Or.inl h)
        · exact Or.inl h
        · exact Or.inr (Or.inr h)

/-- a leaf all of whose ids have been visited changes nothing -/
theorem visitLeaf_visited (K R : Nat) (lookup : Nat → Option Cand) (ids : List Nat) (s : LoopSt)
    (h : ∀ id ∈ ids, id ∈ s.visited) : visitLeaf K R lookup ids s = s := by
  induction ids with
  | nil => rfl
  | cons id rest ih =>
    unfold visitLeaf
    have : s.visited.contains id = true := by simpa using h id (by simp)
    simp only [this, ↓reduceIte]
    exact ih (fun x hx => h x (by simp [hx]))

/-- once every queued node is a leaf of visited ids, the result no longer changes -/
theorem searchLoop_done (searchK K R : Nat) (lookup : Nat → Option Cand) (hpDist : H → Nat) (hpRight : H → Bool)
    (fuel : Nat) (s : LoopSt)
    (hdone : ∀ x ∈ s.pq.toList, ∃ ids, x.node = .leaf ids ∧ ∀ id ∈ ids, id ∈ s.visited) :
    (searchLoop searchK K R lookup hpDist hpRight fuel s).st.heap = s.st.heap := by
  induction fuel generalizing s with
  | zero => rfl
  | succ f ih =>
    unfold searchLoop
    split
    · rfl
    · rcases hpop_spec s.pq with ⟨_, hnone⟩ | ⟨item, pq', hsome, hperm⟩
      · rw [hnone]
      · rw [hsome]
        simp only
        have hitem : item ∈ s.pq.toList := (mem_perm_toList hperm item).mpr (by simp)
        obtain ⟨ids, hleaf, hvis⟩ := hdone item hitem
        have hdone' : ∀ x ∈ pq'.toList, ∃ ids, x.node = .leaf ids ∧ ∀ id ∈ ids, id ∈ s.visited := by
          intro x hx
          exact hdone x ((mem_perm_toList hperm x).mpr (by simp [hx]))
        rw [hleaf]
        simp only
        split
        · exact ih { s with pq := pq' } hdone'
        · split
          · rfl
          · rw [visitLeaf_visited K R lookup ids { s with pq := pq' } hvis]
            exact ih { s with pq := pq' } hdone'


theorem foldl_considerK_map (K : Nat) (cand : Nat → Cand) (ids : List Nat) (h : List Cand) :
    ids.foldl (fun h id => considerK K h (cand id)) h = (ids.map cand).foldl (considerK K) h := by
  induction ids generalizing h with
  | nil => rfl
  | cons a r ih => simp [ih]

/-- **no tree has split**: every tree is one leaf listing the live ids (in its own order). The
    default-precision K-nearest search returns exactly the exact scan over one of these orders. -/
theorem single_leaf_scan (searchK K maxRadius : Nat) (hK : 0 < K) (hsK : 0 < searchK) (leaves : List (List Nat))
    (hne : leaves ≠ []) (live : List Nat) (hnd : live.Nodup) (hperm : ∀ l ∈ leaves, l.Perm live)
    (lookup : Nat → Option Cand) (cand : Nat → Cand) (hlk : ∀ id ∈ live, lookup id = some (cand id))
    (hpDist : H → Nat) (hpRight : H → Bool) :
    ∃ l ∈ leaves, (search searchK K 0 maxRadius (leaves.map Tree.leaf) lookup hpDist hpRight).1 = exactKnn K (l.map cand) := by
  let s0 : LoopSt :=
    { pq := (leaves.map Tree.leaf).foldl (fun a t => hpush a { node := t, prio := 0 }) #[], visited := [], kCounter := 0,
      accepted := false, radius := maxRadius, st := { heap := [], searched := 0 } }
  have hperm0 := initPq_perm (leaves.map Tree.leaf) #[]
  simp only [Array.empty_append] at hperm0
  have hitems : ∀ x ∈ s0.pq.toList, ∃ l ∈ leaves, x = { node := .leaf l, prio := 0 } := by
    intro x hx
    rw [mem_perm_toList hperm0] at hx
    simp only [List.map_map, List.mem_map, Function.comp] at hx
    obtain ⟨l, hl, rfl⟩ := hx
    exact ⟨l, hl, rfl⟩
  have hsize : s0.pq.size ≠ 0 := by
    have hsz := hperm0.size_eq
    simp only [List.size_toArray, List.length_map] at hsz
    have hpos : 0 < leaves.length := List.length_pos_iff.mpr hne
    show (List.foldl (fun a t => hpush a { node := t, prio := 0 }) #[] (List.map Tree.leaf leaves)).size ≠ 0
    omega
  have hres : (search searchK K 0 maxRadius (leaves.map Tree.leaf) lookup hpDist hpRight).1 =
      (searchLoop searchK K 0 lookup hpDist hpRight (((leaves.map Tree.leaf).map Tree.size).sum + 1) s0).st.heap.reverse := by
    simp [search, s0]
  rw [hres]
  unfold searchLoop
  rw [if_neg (by simp [s0])]
  rcases hpop_spec s0.pq with ⟨h0, _⟩ | ⟨item, pq', hsome, hpm⟩
  · exact absurd h0 hsize
  rw [hsome]
  simp only
  have hitem : item ∈ s0.pq.toList := (mem_perm_toList hpm item).mpr (by simp)
  obtain ⟨l, hl, rfl⟩ := hitems item hitem
  refine ⟨l, hl, ?_⟩
  simp only
  rw [if_neg (by simp), if_neg (by simp [s0]; omega)]
  have hlp := hperm l hl
  have hfold := visitLeaf_fold K hK lookup cand l { s0 with pq := pq' }
    (fun id hid => hlk id (hlp.mem_iff.mp hid)) (hlp.nodup_iff.mpr hnd) (by simp [s0]) rfl
  obtain ⟨h1, _, h3, h4⟩ := hfold
  rw [searchLoop_done]
  · rw [h1, foldl_considerK_map]
    rfl
  · intro x hx
    rw [h3] at hx
    have hx' : x ∈ s0.pq.toList := (mem_perm_toList hpm x).mpr (by simp [hx])
    obtain ⟨l', hl', rfl⟩ := hitems x hx'
    refine ⟨l', rfl, fun id hid => ?_⟩
    rw [h4 id]
    left
    exact hlp.mem_iff.mpr ((hperm l' hl').mem_iff.mp hid)

/-- **up to 100 documents (one leaf per tree): the default-precision K-nearest search answers as the
    exact search does** — the same distances in the same order, whatever order the exact scan visits
    the documents in -/
theorem single_leaf_exact (searchK K maxRadius : Nat) (hK : 0 < K) (hsK : 0 < searchK) (leaves : List (List Nat))
    (hne : leaves ≠ []) (live : List Nat) (hnd : live.Nodup) (hperm : ∀ l ∈ leaves, l.Perm live)
    (lookup : Nat → Option Cand) (cand : Nat → Cand) (hlk : ∀ id ∈ live, lookup id = some (cand id))
    (hpDist : H → Nat) (hpRight : H → Bool) (order : List Nat) (ho : order.Perm live) :
    (search searchK K 0 maxRadius (leaves.map Tree.leaf) lookup hpDist hpRight).1.map (·.dist) =
      (exactKnn K (order.map cand)).map (·.dist) := by
  obtain ⟨l, hl, he⟩ := single_leaf_scan searchK K maxRadius hK hsK leaves hne live hnd hperm lookup cand hlk hpDist hpRight
  rw [he]
  exact knn_dists_unique K _ _ (((hperm l hl).trans ho.symm).map cand)

end Syzgy.Lsh
