import Syzgy.Spec.Filter
/-! `eval (ast e) doc = denote e doc` on well-typed inputs; `resolvePath (ast p) = lookup p`. -/
namespace Syzgy.Query

variable {N : Type} (ops : NumOps N) (rx : RegexOracle)

/-- evaluating a path expression yields the value found by `lookup`, when the path is present -/
theorem eval_path (doc : J N) (p : Path) (v : J N) (h : lookup ops doc p = some v) :
    eval ops rx doc p.ast = .ok v := by
  induction p generalizing v with
  | field name =>
    cases doc <;> simp_all [lookup, Path.ast, eval]
  | dot p name ih =>
    simp only [lookup] at h
    cases hp : lookup ops doc p with
    | none => simp [hp] at h
    | some lv =>
      rw [hp] at h
      cases lv <;> simp at h
      · rename_i items
        simp [Path.ast, eval, ih _ hp, evaluateOperation, dotName, h]
      · rename_i kvs
        simp [Path.ast, eval, ih _ hp, evaluateOperation, dotName, h]
  | index p lit ih =>
    simp only [lookup] at h
    cases hp : lookup ops doc p with
    | none => simp [hp] at h
    | some lv =>
      rw [hp] at h
      cases lv <;> simp at h
      rename_i items
      obtain ⟨hr, hv⟩ := h
      rw [List.getElem?_eq_some_iff] at hv
      obtain ⟨hlt, hv⟩ := hv
      have hnot : ¬ (ops.roundToInt (ops.parse lit) < 0 ∨ (items.length : Int) ≤ ops.roundToInt (ops.parse lit)) := by omega
      simp [Path.ast, eval, ih _ hp, evaluateOperation, valueOf, toFloat, hnot, List.getElem?_eq_getElem hlt, hv]
  | length p ih =>
    simp only [lookup] at h
    cases hp : lookup ops doc p with
    | none => simp [hp] at h
    | some lv =>
      rw [hp] at h
      cases lv <;> simp at h
      · rename_i items
        simp [Path.ast, eval, ih _ hp, evaluateOperation, dotName, h]
      · rename_i kvs
        simp [Path.ast, eval, ih _ hp, evaluateOperation, dotName, h]

/-- `resolvePath` on a path expression is exactly `lookup` (presence and value) -/
theorem resolve_path (doc : J N) (p : Path) : resolvePath ops rx doc p.ast = lookup ops doc p := by
  induction p with
  | field name => cases doc <;> simp [lookup, Path.ast, resolvePath, dotName]
  | dot p name ih =>
    simp only [Path.ast, resolvePath, lookup, ih, dotName]
    cases lookup ops doc p with
    | none => simp
    | some lv => cases lv <;> simp [dotName]
  | index p lit ih =>
    simp only [Path.ast, resolvePath, lookup, ih, dotName]
    cases lookup ops doc p with
    | none => simp
    | some lv => cases lv <;> simp [eval, valueOf, toFloat]
  | length p ih =>
    simp only [Path.ast, resolvePath, lookup, ih, dotName]
    cases lookup ops doc p with
    | none => simp
    | some lv => cases lv <;> simp [dotName]

theorem valueOf_litVal (l : Lit) : valueOf ops l.value = litVal ops l := by
  cases l <;> rfl

theorem any_map_lit (v : J N) (items : List Lit) :
    items.any (deepEq ops v ∘ valueOf ops ∘ Lit.value) = items.any (fun l => deepEq ops v (litVal ops l)) := by
  congr 1
  funext l
  simp [valueOf_litVal]

/-- **evaluator = documented semantics** on every well-typed (expression, document) pair -/
theorem eval_denote (doc : J N) (e : Expr) (hw : wellTyped ops rx doc e = true) :
    eval ops rx doc e.ast = .ok (.bool (denote ops rx doc e)) := by
  induction e with
  | cmp op p l =>
    simp only [wellTyped] at hw
    cases hp : lookup ops doc p with
    | none => simp [hp] at hw
    | some v =>
      rw [hp] at hw
      simp only [Expr.ast, eval, eval_path ops rx doc p v hp, denote, hp, valueOf_litVal]
      cases op <;> simp [Cmp.text, evaluateOperation]
      all_goals
        cases v <;> cases l <;> simp_all [litVal, compareValues, cmpOp, ordered]
  | strop op p s =>
    simp only [wellTyped] at hw
    cases hp : lookup ops doc p with
    | none => simp [hp] at hw
    | some v =>
      rw [hp] at hw
      cases v <;> simp at hw
      rename_i sv
      simp only [Expr.ast, eval, eval_path ops rx doc p _ hp, denote, hp, valueOf]
      cases op <;> simp [StrOp.text, evaluateOperation, strOp]
      -- MATCHES: the pattern is valid by well-typedness
      cases hr : rx s sv <;> simp_all
  | inList p items =>
    simp only [wellTyped, Bool.and_eq_true] at hw
    cases hp : lookup ops doc p with
    | none => simp [hp] at hw
    | some v =>
      simp [Expr.ast, eval, eval_path ops rx doc p v hp, denote, hp, evaluateOperation, any_map_lit]
  | notInList p items =>
    simp only [wellTyped, Bool.and_eq_true] at hw
    cases hp : lookup ops doc p with
    | none => simp [hp] at hw
    | some v =>
      simp [Expr.ast, eval, eval_path ops rx doc p v hp, denote, hp, evaluateOperation, any_map_lit]
  | «exists» p => simp [Expr.ast, eval, denote, resolve_path]
  | notExists p => simp [Expr.ast, eval, denote, resolve_path]
  | and a b iha ihb =>
    simp only [wellTyped, Bool.and_eq_true] at hw
    simp [Expr.ast, eval, iha hw.1, ihb hw.2, evaluateOperation, denote]
  | or a b iha ihb =>
    simp only [wellTyped, Bool.and_eq_true] at hw
    simp only [Expr.ast, eval, iha hw.1, ihb hw.2, denote]
    cases denote ops rx doc a <;> simp [evaluateOperation]
  | not a ih =>
    simp only [wellTyped] at hw
    simp [Expr.ast, eval, ih hw, evaluateOperation, denote]
  | group a ih =>
    simp only [wellTyped] at hw
    simp only [Expr.ast, denote]
    exact ih hw

end Syzgy.Query
