import Syzgy.Lemmas.Crash
import Syzgy.Lemmas.Crc
/-!
# A span whose payload or checksum is damaged

`scanFile` steps over a span with intact magic and length whose checksum fails; everything before and
after it is scanned as if the damaged span were not there.
-/
namespace Syzgy

/-- scanning a prefix of well-formed segments, whatever follows -/
theorem scanLoop_prefix (file : Bytes) (ro : Bool) (segs : List Seg) (hok : ∀ s ∈ segs, s.OK) (tail : Bytes)
    (off fileSize fuel : Nat) (acc : ScanAcc) (hsize : off + segsSize segs ≤ fileSize) :
    scanLoop file ro fileSize (fuel + segs.length) off (render segs ++ tail) acc =
      scanLoop file ro fileSize fuel (off + segsSize segs) tail (scanSegs file ro off segs acc) := by
  induction segs generalizing off acc with
  | nil => simp [render, segsSize, scanSegs]
  | cons s ss ih =>
    have hs := hok s (by simp)
    have hss : ∀ x ∈ ss, x.OK := fun x hx => hok x (by simp [hx])
    have hsz : segsSize (s :: ss) = s.size + segsSize ss := by simp [segsSize]
    have hge := Seg.size_ge s hs
    have hlt := Seg.size_lt s hs
    have hrender : render (s :: ss) ++ tail = s.bytes ++ (render ss ++ tail) := by simp [render]
    have hfuel : fuel + (s :: ss).length = (fuel + ss.length) + 1 := by simp; omega
    rw [hfuel]
    conv => lhs; unfold scanLoop
    have h0 : ¬ (off ≥ fileSize) := by simp only [minSpanLength] at hge; omega
    have h15 : ¬ (off + minSpanLength > fileSize) := by omega
    simp only [h0, h15, ↓reduceIte, hrender]
    rw [Seg.rd_magic, Seg.rd_len s hs]
    have htake : (s.bytes ++ (render ss ++ tail)).take s.size = s.bytes := by
      rw [← Seg.bytes_length s hs, List.take_left]
    have hdrop : (s.bytes ++ (render ss ++ tail)).drop s.size = render ss ++ tail := by
      rw [← Seg.bytes_length s hs, List.drop_left]
    have hfit : ¬ (off + s.size > fileSize) := by omega
    have hne : ¬ (s.size = 0) := by simp only [minSpanLength] at hge; omega
    have hrec := ih hss (off + s.size) (scanStep file ro off acc s) (by omega)
    cases s with
    | act seq rid streams pad =>
      have hmz : ¬ (activeMagic = 0) := by decide
      simp only [hmz, ↓reduceIte, hfit, htake, hdrop, hne]
      have hver : verifyChecksum (Seg.bytes (.act seq rid streams pad)) = true := verify_append_crc _
      simp only [hver, Bool.not_true, Bool.false_eq_true, ↓reduceIte]
      have hp := parseSpan_actBytes seq rid streams pad [] hs
      simp only [List.append_nil] at hp
      simp only [Seg.bytes, hp]
      simp only [scanStep] at hrec
      have e : off + (8 + (spanBody seq rid streams).length + pad + 4) = off + (Seg.act seq rid streams pad).size := rfl
      simp only [Seg.size] at hrec ⊢
      rw [hrec]
      simp only [scanSegs, scanStep, hsz, Seg.size]
      congr 1; omega
    | free junk =>
      have hmz : ¬ (freeMagic = 0) := by decide
      have hma : ¬ (freeMagic = activeMagic) := by decide
      simp only [hmz, hma, ↓reduceIte, hfit, hdrop, hne]
      simp only [scanStep] at hrec
      simp only [Seg.size] at hrec ⊢
      rw [hrec]
      simp only [scanSegs, scanStep, hsz, Seg.size]
      congr 1; omega


/-- a span image whose magic and length field are intact and whose checksum fails (damage confined to
    the payload, the padding or the stored checksum, and detected — see `C08.crc_burst`, `crc_field`) -/
structure Damaged (d : Bytes) : Prop where
  magic : rd32 d = some activeMagic
  len : rd32 (d.drop 4) = some d.length
  big : minSpanLength ≤ d.length
  bad : verifyChecksum d = false

/-- one step of the scan over a damaged span: it is skipped -/
theorem scanLoop_damaged (file : Bytes) (ro : Bool) (d tail : Bytes) (hd : Damaged d) (off fileSize fuel : Nat) (acc : ScanAcc)
    (hsize : off + d.length ≤ fileSize) :
    scanLoop file ro fileSize (fuel + 1) off (d ++ tail) acc =
      scanLoop file ro fileSize fuel (off + d.length) tail acc := by
  have hbig := hd.big
  simp only [minSpanLength] at hbig
  conv => lhs; unfold scanLoop
  have h0 : ¬ (off ≥ fileSize) := by omega
  have h15 : ¬ (off + minSpanLength > fileSize) := by simp only [minSpanLength]; omega
  have hm : rd32 (d ++ tail) = some activeMagic := by
    have := hd.magic
    match d, this with
    | a :: b :: c :: e :: r, h => simpa [rd32] using h
  have hl : rd32 ((d ++ tail).drop 4) = some d.length := by
    have h4 : 4 ≤ d.length := by omega
    rw [List.drop_append_of_le_length h4]
    have := hd.len
    match hdd : d.drop 4, this with
    | a :: b :: c :: e :: r, h => simpa [rd32] using h
  simp only [h0, h15, ↓reduceIte, hm, hl]
  have hmz : ¬ (activeMagic = 0) := by decide
  have hfit : ¬ (off + d.length > fileSize) := by omega
  have hne : ¬ (d.length = 0) := by omega
  simp only [hmz, ↓reduceIte, hfit, List.take_left, hd.bad, Bool.not_false, hne, List.drop_left]


theorem length_le_segsSize (segs : List Seg) (hok : ∀ s ∈ segs, s.OK) : segs.length ≤ segsSize segs := by
  induction segs with
  | nil => simp [segsSize]
  | cons s ss ih =>
    have := Seg.size_ge s (hok s (by simp))
    simp only [minSpanLength] at this
    have := ih (fun x hx => hok x (by simp [hx]))
    rw [segsSize_cons]
    simp only [List.length_cons]
    omega

/-- **opening a file in which one span is damaged**: the scan is the scan of what lies before it followed
    by the scan of what lies behind it -/
theorem scanFile_damaged (A B : List Seg) (hA : ∀ s ∈ A, s.OK) (hB : ∀ s ∈ B, s.OK) (d : Bytes) (hd : Damaged d) (ro : Bool) :
    ∃ s', scanFile (render A ++ (d ++ render B)) ro = .ok s' ∧
      s'.index = (scanSegs (render A ++ (d ++ render B)) ro (segsSize A + d.length) B
                    (scanSegs (render A ++ (d ++ render B)) ro 0 A acc0)).index ∧
      s'.file = applyPatches (render A ++ (d ++ render B))
        (scanSegs (render A ++ (d ++ render B)) ro (segsSize A + d.length) B
                    (scanSegs (render A ++ (d ++ render B)) ro 0 A acc0)).patches := by
  have hfl : (render A ++ (d ++ render B)).length = segsSize A + d.length + segsSize B := by
    simp only [List.length_append, render_length A hA, render_length B hB]; omega
  have hlA := length_le_segsSize A hA
  have hlB := length_le_segsSize B hB
  have hbig := hd.big
  simp only [minSpanLength] at hbig
  -- fuel bookkeeping
  have hfuel : (render A ++ (d ++ render B)).length + 1 = ((segsSize A + d.length + segsSize B - A.length) + 1) + A.length := by
    rw [hfl]; omega
  unfold scanFile
  rw [hfuel, scanLoop_prefix _ ro A hA _ 0 _ _ _ (by rw [hfl]; omega)]
  rw [scanLoop_damaged _ ro d _ hd _ _ _ _ (by rw [hfl]; omega)]
  have hz : render B = render B ++ zeros 0 := by simp [zeros]
  rw [hz]
  obtain ⟨acc', off', h1, h2, h3, h4, h5⟩ := scanLoop_render (render A ++ (d ++ (render B ++ zeros 0))) ro B hB 0
    (0 + segsSize A + d.length) ((render A ++ (d ++ (render B ++ zeros 0))).length)
    (segsSize A + d.length + segsSize B - A.length)
    (scanSegs (render A ++ (d ++ (render B ++ zeros 0))) ro 0 A acc0)
    (by simp only [zeros, List.replicate_zero, List.append_nil]; rw [hfl]; omega) (by omega)
  simp only [acc0_eq] at h1 ⊢
  rw [h1]
  refine ⟨_, rfl, ?_, ?_⟩
  · simp only [h2, Nat.zero_add, acc0_eq]
  · simp only [h4, Nat.zero_add, acc0_eq, tailPatch, minSpanLength, Nat.zero_lt_succ, or_true, ↓reduceIte, List.append_nil]


/-- **damage confined to one record's payload or checksum loses at most that document.** A file of
    well-formed segments with distinct ids, in which the bytes of one active span are replaced by a
    damaged image of the same length (magic and length intact, checksum failing): opening succeeds in
    every mode and stores nothing; the damaged record reads as "not found"; every other record reads
    back exactly the streams that were written; an id that was never written reads as "not found" -/
theorem damaged_record_only (A B : List Seg) (seq : Nat) (rid : Bytes) (st : List Stream) (pad : Nat)
    (hok : ∀ s ∈ A ++ .act seq rid st pad :: B, s.OK) (hnd : (actRids (A ++ .act seq rid st pad :: B)).Nodup)
    (d : Bytes) (hd : Damaged d) (hlen : d.length = (Seg.act seq rid st pad).size) (ro : Bool) :
    ∃ s', scanFile (render A ++ (d ++ render B)) ro = .ok s' ∧ s'.file = render A ++ (d ++ render B) ∧
      readRecord s' rid = .err "record not found" ∧
      (∀ r st', r ≠ rid → docOf r (A ++ .act seq rid st pad :: B) = some st' →
        ∃ sp, readRecord s' r = .ok sp ∧ sp.rid = r ∧ sp.streams = st') ∧
      (∀ r, docOf r (A ++ .act seq rid st pad :: B) = none → readRecord s' r = .err "record not found") := by
  have hA : ∀ s ∈ A, s.OK := fun x hx => hok x (by simp [hx])
  have hB : ∀ s ∈ B, s.OK := fun x hx => hok x (by simp [hx])
  obtain ⟨s', h1, h2, h3⟩ := scanFile_damaged A B hA hB d hd ro
  simp only [actRids_append, actRids, List.nodup_append, List.nodup_cons, List.mem_cons] at hnd
  obtain ⟨hndA, ⟨hnB, hndB⟩, hcross⟩ := hnd
  have hnA : rid ∉ actRids A := fun h => hcross rid h rid (Or.inl rfl) rfl
  have hAB : ∀ r ∈ actRids B, r ∉ actRids A := fun r hr ha => hcross r ha r (Or.inr hr) rfl
  -- the two stretches
  have e1 := scanSegs_stretch (render A ++ (d ++ render B)) ro A 0 acc0 hndA (by simp [acc0]) (by simp [acc0])
  rw [e1] at h2 h3
  have e2 := scanSegs_stretch (render A ++ (d ++ render B)) ro B (segsSize A + d.length)
    { index := indexRev 0 A acc0.index, seqs := seqsRev A acc0.seqs, free := freeFold 0 A acc0.free,
      highest := maxSeq A acc0.highest, patches := acc0.patches } hndB
    (by
      intro r hr e he
      rcases mem_seqsRev A _ e he with h | h
      · simp [acc0] at h
      · intro e'; subst e'; exact hAB _ hr h)
    (by
      intro r hr e he
      rcases mem_indexRev A 0 _ e he with h | h
      · simp [acc0] at h
      · intro e'; subst e'; exact hAB _ hr h)
  rw [e2] at h2 h3
  simp only [acc0, applyPatches, List.foldl_nil] at h2 h3
  have hidx : ∀ r, idxGet s'.index r = (findAct r (segsSize A + d.length) B).or (findAct r 0 A) := by
    intro r
    rw [h2, idxGet_indexRev r B _ _ hndB, idxGet_indexRev r A _ _ hndA]
    simp [idxGet]
  have hfl : (render A ++ (d ++ render B)).length = segsSize A + d.length + segsSize B := by
    simp only [List.length_append, render_length A hA, render_length B hB]; omega
  -- reading a record that lies in a stretch of intact segments
  have hreadA : ∀ r o, findAct r 0 A = some o → ∀ st', docOf r A = some st' →
      ∃ sp, readRecord s' r = .ok sp ∧ sp.rid = r ∧ sp.streams = st' := by
    intro r o ho st' hdoc
    obtain ⟨A1, q, t, p, A2, e, hoff, hn1⟩ := findAct_some r 0 o A ho
    subst e
    have hsq : (Seg.act q r t p).OK := hA _ (by simp)
    have hA1 : ∀ x ∈ A1, x.OK := fun x hx => hA x (by simp [hx])
    have hdoc' : docOf r (A1 ++ Seg.act q r t p :: A2) = some t := by
      rw [docOf_append, (docOf_none_iff r A1).mpr hn1, docOf_cons_act]; simp
    rw [hdoc'] at hdoc
    have ht : t = st' := by simpa using hdoc
    subst ht
    have hrA : r ∈ actRids (A1 ++ Seg.act q r t p :: A2) := by
      rw [actRids_append]; simp [actRids]
    have hnb : findAct r (segsSize (A1 ++ Seg.act q r t p :: A2) + d.length) B = none :=
      (findAct_none_iff r _ B).mpr (fun hb => hAB r hb hrA)
    have hi : idxGet s'.index r = some o := by rw [hidx, ho, hnb]; rfl
    have hsz := Seg.size_ge _ hsq
    simp only [minSpanLength] at hsz
    have hdrop : s'.file.drop o = actBytes q r t p ++ (render A2 ++ (d ++ render B)) := by
      rw [h3, hoff, Nat.zero_add, render_append, render_cons, List.append_assoc, List.drop_left' (render_length A1 hA1)]
      simp [Seg.bytes, List.append_assoc]
    simp only [readRecord, hi]
    rw [if_neg (by
      rw [h3, hfl, hoff, segsSize_append, segsSize_cons]; omega), hdrop, parseSpan_actBytes q r t p _ hsq]
    exact ⟨_, rfl, rfl, rfl⟩
  have hreadB : ∀ r o, findAct r 0 A = none → findAct r (segsSize A + d.length) B = some o → ∀ st', docOf r B = some st' →
      ∃ sp, readRecord s' r = .ok sp ∧ sp.rid = r ∧ sp.streams = st' := by
    intro r o hna ho st' hdoc
    obtain ⟨B1, q, t, p, B2, e, hoff, hn1⟩ := findAct_some r _ o B ho
    subst e
    have hsq : (Seg.act q r t p).OK := hB _ (by simp)
    have hB1 : ∀ x ∈ B1, x.OK := fun x hx => hB x (by simp [hx])
    have hdoc' : docOf r (B1 ++ Seg.act q r t p :: B2) = some t := by
      rw [docOf_append, (docOf_none_iff r B1).mpr hn1, docOf_cons_act]; simp
    rw [hdoc'] at hdoc
    have ht : t = st' := by simpa using hdoc
    subst ht
    have hi : idxGet s'.index r = some o := by rw [hidx, ho]; simp
    have hsz := Seg.size_ge _ hsq
    simp only [minSpanLength] at hsz
    have hdrop : s'.file.drop o = actBytes q r t p ++ render B2 := by
      rw [h3, hoff]
      have e3 : render A ++ (d ++ render (B1 ++ Seg.act q r t p :: B2)) =
          (render A ++ d ++ render B1) ++ (actBytes q r t p ++ render B2) := by
        simp [render_append, render_cons, Seg.bytes, List.append_assoc]
      rw [e3, List.drop_left' (by simp [render_length A hA, render_length B1 hB1]; omega)]
    simp only [readRecord, hi]
    rw [if_neg (by
      rw [h3, hfl, hoff, segsSize_append, segsSize_cons]; omega), hdrop, parseSpan_actBytes q r t p _ hsq]
    exact ⟨_, rfl, rfl, rfl⟩
  refine ⟨s', h1, h3, ?_, ?_, ?_⟩
  · have : idxGet s'.index rid = none := by
      rw [hidx, (findAct_none_iff rid _ B).mpr hnB, (findAct_none_iff rid 0 A).mpr hnA]; rfl
    simp [readRecord, this]
  · intro r st' hr hdoc
    rw [docOf_append, docOf_cons_act, if_neg (fun e => hr e.symm)] at hdoc
    cases hfa : findAct r 0 A with
    | some o =>
      have hda : docOf r A ≠ none := by
        rw [Ne, docOf_none_iff, ← findAct_none_iff r 0 A, hfa]; simp
      cases hda' : docOf r A with
      | none => exact absurd hda' hda
      | some t =>
        rw [hda'] at hdoc
        simp only [Option.some_or, Option.some.injEq] at hdoc
        subst hdoc
        exact hreadA r o hfa _ hda'
    | none =>
      have hda : docOf r A = none := by
        rw [docOf_none_iff, ← findAct_none_iff r 0 A]; exact hfa
      rw [hda, Option.none_or] at hdoc
      have hfb : findAct r (segsSize A + d.length) B ≠ none := by
        rw [Ne, findAct_none_iff, ← docOf_none_iff, hdoc]; simp
      cases hfb' : findAct r (segsSize A + d.length) B with
      | none => exact absurd hfb' hfb
      | some o => exact hreadB r o hfa hfb' _ hdoc
  · intro r hdoc
    rw [docOf_none_iff, actRids_append] at hdoc
    simp only [actRids, List.mem_append, List.mem_cons, not_or] at hdoc
    have : idxGet s'.index r = none := by
      rw [hidx, (findAct_none_iff r _ B).mpr hdoc.2.2, (findAct_none_iff r 0 A).mpr hdoc.1]; rfl
    simp [readRecord, this]


open Syzgy.Crc in
/-- **a burst of up to 32 bits anywhere in the payload or padding of a span** (behind the 8-byte
    header, before the stored checksum) leaves a damaged image in the sense of `Damaged`: magic and
    length intact, checksum failing — for every record, every padding and every position of the burst -/
theorem burst_in_payload_damaged (seq : Nat) (rid : Bytes) (st : List Stream) (pad : Nat)
    (hs : (Seg.act seq rid st pad).OK) (e' : Bytes) (hlen : e'.length = (spanBody seq rid st).length + pad)
    (pre post : Nat) (w : List Bool) (hw : w.length ≤ 32) (hne : ∃ b ∈ w, b = true)
    (he : bitsOf (zeros 8 ++ e') = List.replicate pre false ++ w ++ List.replicate post false) :
    Damaged (xorBytes (actPre seq rid st pad) (zeros 8 ++ e') ++ be32 (checksum (actPre seq rid st pad))) ∧
    (xorBytes (actPre seq rid st pad) (zeros 8 ++ e') ++ be32 (checksum (actPre seq rid st pad))).length =
      (Seg.act seq rid st pad).size := by
  have hL := hs.2.2.2.2.2
  have hpre : actPre seq rid st pad =
      (be32 activeMagic ++ be32 (Seg.act seq rid st pad).size) ++ (spanBody seq rid st ++ zeros pad) := by
    simp only [actPre, Seg.size, List.append_assoc, Nat.mod_eq_of_lt hL]
  have hx : xorBytes (actPre seq rid st pad) (zeros 8 ++ e') =
      (be32 activeMagic ++ be32 (Seg.act seq rid st pad).size) ++ xorBytes (spanBody seq rid st ++ zeros pad) e' := by
    rw [hpre, xorBytes_append _ _ _ _ (by simp [be32_length, zeros_length])]
    congr 1
    have := xorBytes_zeros (be32 activeMagic ++ be32 (Seg.act seq rid st pad).size)
    simpa [be32_length] using this
  have hxl : (xorBytes (spanBody seq rid st ++ zeros pad) e').length = (spanBody seq rid st).length + pad := by
    simp [xorBytes, zeros_length, hlen]
  have hmlen : (actPre seq rid st pad).length = (zeros 8 ++ e').length := by
    rw [hpre]; simp [be32_length, zeros_length, hlen]; omega
  have hbad : verifyChecksum (xorBytes (actPre seq rid st pad) (zeros 8 ++ e') ++ be32 (checksum (actPre seq rid st pad))) = false := by
    have h1 := verify_iff (xorBytes (actPre seq rid st pad) (zeros 8 ++ e')) (checksum (actPre seq rid st pad)) (checksum_lt _)
    have h2 := burst_changes_checksum (actPre seq rid st pad) (zeros 8 ++ e') hmlen pre post w hw hne he
    cases hv : verifyChecksum (xorBytes (actPre seq rid st pad) (zeros 8 ++ e') ++ be32 (checksum (actPre seq rid st pad))) with
    | false => rfl
    | true => exact absurd (h1.mp hv).symm h2
  have hdl : (xorBytes (actPre seq rid st pad) (zeros 8 ++ e') ++ be32 (checksum (actPre seq rid st pad))).length =
      (Seg.act seq rid st pad).size := by
    rw [hx]; simp only [List.length_append, be32_length, hxl, Seg.size]; omega
  refine ⟨⟨?_, ?_, ?_, hbad⟩, hdl⟩
  · rw [hx]
    simp only [List.append_assoc]
    exact rd32_be32 _ (by decide) _
  · rw [hdl, hx]
    simp only [List.append_assoc]
    rw [List.drop_left' (be32_length activeMagic)]
    exact rd32_be32 _ (Seg.size_lt _ hs) _
  · rw [hdl]; exact Seg.size_ge _ hs

end Syzgy
