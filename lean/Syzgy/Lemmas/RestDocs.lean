import Syzgy.Lemmas.Rest
namespace Syzgy.Rest

theorem docGet_cons (x : Nat × Bytes) (xs : List (Nat × Bytes)) (i : Nat) :
    docGet (x :: xs) i = if x.1 = i then some x.2 else docGet xs i := by
  unfold docGet
  by_cases h : x.1 = i
  · rw [List.find?_cons_of_pos (by simp [h])]; simp [h]
  · rw [List.find?_cons_of_neg (by simp [h])]; simp [h]

theorem docGet_filter (docs : List (Nat × Bytes)) (id i : Nat) :
    docGet (docs.filter (fun e => e.1 != id)) i = if i = id then none else docGet docs i := by
  induction docs with
  | nil => simp [docGet]
  | cons x xs ih =>
    by_cases hx : x.1 = id
    · have hf : (x :: xs).filter (fun e => e.1 != id) = xs.filter (fun e => e.1 != id) := by
        simp [List.filter_cons, hx]
      rw [hf, ih, docGet_cons]
      by_cases hi : i = id
      · simp [hi]
      · have : ¬ x.1 = i := fun e => hi (e ▸ hx)
        simp [hi, this]
    · have hf : (x :: xs).filter (fun e => e.1 != id) = x :: xs.filter (fun e => e.1 != id) := by
        simp [List.filter_cons, hx]
      rw [hf, docGet_cons, docGet_cons, ih]
      by_cases hxi : x.1 = i
      · have : ¬ i = id := fun e => hx (hxi.trans e)
        simp [hxi, this]
      · simp [hxi]

theorem docGet_docPut (docs : List (Nat × Bytes)) (id i : Nat) (md : Bytes) :
    docGet (docPut docs id md) i = if i = id then some md else docGet docs i := by
  unfold docPut
  rw [docGet_cons, docGet_filter]
  by_cases h : i = id
  · simp [h]
  · have : ¬ id = i := fun e => h e.symm
    simp [h, this]

theorem insert_fold_panic (dim : Nat) (l : List InsRec) (m : String) : l.foldl (insertStep dim) (.panic m) = .panic m := by
  induction l with
  | nil => rfl
  | cons x xs ih => simp [List.foldl_cons, insertStep, ih]

/-- the metadata map of a collection after the insert loop: every record of the batch is bound, later ones win -/
theorem insert_fold_docs (dim : Nat) (recs : List InsRec) (docs docs' : List (Nat × Bytes))
    (h : recs.foldl (insertStep dim) (.ok docs) = .ok docs') (i : Nat) :
    docGet docs' i = recs.foldl (fun m r => if i = r.id then some r.md else m) (docGet docs i) := by
  induction recs generalizing docs with
  | nil => simp at h; cases h; rfl
  | cons r rs ih =>
    simp only [List.foldl_cons, insertStep] at h
    by_cases hv : r.vecLen = some dim
    · simp only [hv, ↓reduceIte] at h
      rw [ih _ h, docGet_docPut]
      rfl
    · simp only [hv, ↓reduceIte] at h
      rw [insert_fold_panic] at h; cases h

theorem lookup_put_same (s : Server) (name : Bytes) (c : RColl) : lookup (put s name c) name = some c := by
  unfold lookup put
  rw [List.find?_cons_of_pos (by simp)]

/-- **insert**: a validated batch is answered 201 and binds every record of the batch (later ones win) in
    that collection's metadata map; nothing else in it changes -/
theorem insert_semantics (s : Server) (parts : List Bytes) (name : Bytes) (c : RColl) (recs : List InsRec)
    (hp : parts[4]? = some name) (hl : lookup s name = some c)
    (hvec : recs.any (fun r => r.vecLen != some c.cfg.dim) = false) :
    ∃ docs', handleInsert s parts (.insert true recs) = .ok (put s name { c with docs := docs' }, { status := 201 }) ∧
      lookup (put s name { c with docs := docs' }) name = some { c with docs := docs' } ∧
      ∀ i, docGet docs' i = recs.foldl (fun m r => if i = r.id then some r.md else m) (docGet c.docs i) := by
  obtain ⟨docs', hf⟩ := insert_fold_ok c.cfg.dim recs c.docs hvec
  have hnone : recs.any (fun r => r.vecLen.isNone) = false := by
    rw [List.any_eq_false] at hvec ⊢
    intro r hr
    have := hvec r hr
    cases hv : r.vecLen with
    | none => rw [hv] at this; simp at this
    | some v => simp
  have htext : recs.any (fun r => r.hasText && r.vecLen.isNone) = false := by
    rw [List.any_eq_false] at hnone ⊢
    intro r hr
    have := hnone r hr
    simp only [Bool.not_eq_true] at this
    simp [this]
  refine ⟨docs', ?_, lookup_put_same _ _ _, insert_fold_docs c.cfg.dim recs c.docs docs' hf⟩
  simp only [handleInsert, hp, hl, htext, hnone, hvec, hf, Bool.false_eq_true, ↓reduceIte]

/-- **metadata update**: 200 and exactly that document's metadata changes; 404 and nothing changes when the id is not live -/
theorem update_semantics (s : Server) (parts : List Bytes) (name idStr : Bytes) (id : Nat) (c : RColl) (md : Bytes)
    (hlen : ¬ parts.length < 6) (hp : parts[4]? = some name) (hi : parts[parts.length - 2]? = some idStr)
    (hid : parseId idStr = some id) (hl : lookup s name = some c) :
    ((docGet c.docs id).isSome = true →
      handleUpdate s parts (.update true md) = .ok (put s name { c with docs := docPut c.docs id md }, { status := 200 }) ∧
      ∀ i, docGet (docPut c.docs id md) i = if i = id then some md else docGet c.docs i) ∧
    ((docGet c.docs id).isSome = false → handleUpdate s parts (.update true md) = .ok (s, { status := 404 })) := by
  constructor
  · intro h
    exact ⟨by simp only [handleUpdate, hlen, hp, hi, hid, hl, h, ↓reduceIte], fun i => docGet_docPut c.docs id i md⟩
  · intro h
    simp only [handleUpdate, hlen, hp, hi, hid, hl, h, ↓reduceIte, Bool.false_eq_true]

/-- **record deletion**: 200 and exactly that document disappears; 404 and nothing changes when the id is not live -/
theorem delete_semantics (s : Server) (parts : List Bytes) (name idStr : Bytes) (id : Nat) (c : RColl)
    (hlen : ¬ parts.length < 7) (hp : parts[4]? = some name) (hi : parts[6]? = some idStr)
    (hid : parseId idStr = some id) (hl : lookup s name = some c) :
    ((docGet c.docs id).isSome = true →
      handleDeleteRecord s parts = .ok (put s name { c with docs := c.docs.filter (fun e => e.1 != id) }, { status := 200 }) ∧
      ∀ i, docGet (c.docs.filter (fun e => e.1 != id)) i = if i = id then none else docGet c.docs i) ∧
    ((docGet c.docs id).isSome = false → handleDeleteRecord s parts = .ok (s, { status := 404 })) := by
  constructor
  · intro h
    exact ⟨by simp only [handleDeleteRecord, hlen, hp, hi, hid, hl, h, ↓reduceIte], fun i => docGet_filter c.docs id i⟩
  · intro h
    simp only [handleDeleteRecord, hlen, hp, hi, hid, hl, h, ↓reduceIte, Bool.false_eq_true]

end Syzgy.Rest
