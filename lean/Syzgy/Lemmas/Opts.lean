import Syzgy.Lemmas.CollIds
namespace Syzgy

theorem findAfter_hit (key b : Bytes) (hne : key ≠ []) (h : key.isPrefixOf b = true) : findAfter key b = some (b.drop key.length) := by
  cases b with
  | nil =>
    cases key with
    | nil => exact absurd rfl hne
    | cons k ks => simp [List.isPrefixOf] at h
  | cons x xs => simp [findAfter, h]

theorem findAfter_miss (key : Bytes) (x : UInt8) (xs : Bytes) (h : key.isPrefixOf (x :: xs) = false) :
    findAfter key (x :: xs) = findAfter key xs := by
  simp [findAfter, h]

/-- a stretch that does not contain the key's first byte is skipped -/
theorem findAfter_skip (k : UInt8) (ks seg rest : Bytes) (h : k ∉ seg) :
    findAfter (k :: ks) (seg ++ rest) = findAfter (k :: ks) rest := by
  induction seg with
  | nil => rfl
  | cons x xs ih =>
    have hx : x ≠ k := fun e => h (by simp [e])
    rw [List.cons_append, findAfter_miss]
    · exact ih (fun hm => h (by simp [hm]))
    · simp only [List.isPrefixOf, Bool.and_eq_false_imp, beq_iff_eq]
      intro e; exact absurd e.symm hx

/-- two decompositions of one list at the first occurrence of `s` coincide -/
theorem first_occurrence_unique (s : UInt8) (l1 l2 r1 r2 : Bytes) (h1 : s ∉ l1) (h2 : s ∉ l2)
    (h : l1 ++ s :: r1 = l2 ++ s :: r2) : l1 = l2 ∧ r1 = r2 := by
  induction l1 generalizing l2 with
  | nil =>
    cases l2 with
    | nil => simp at h; exact ⟨rfl, h⟩
    | cons y ys =>
      simp only [List.nil_append, List.cons_append, List.cons.injEq] at h
      exact absurd (by simp [h.1]) h2
  | cons x xs ih =>
    cases l2 with
    | nil =>
      simp only [List.nil_append, List.cons_append, List.cons.injEq] at h
      exact absurd (by simp [h.1]) h1
    | cons y ys =>
      simp only [List.cons_append, List.cons.injEq] at h
      obtain ⟨e1, e2⟩ := ih ys (fun hm => h1 (by simp [hm])) (fun hm => h2 (by simp [hm])) h.2
      exact ⟨by rw [h.1, e1], e2⟩

/-- a key of the form `"word":` does not start at a quote that is followed by something else -/
theorem key_not_at (word b1 b2 : Bytes) (y : UInt8) (hw : (34 : UInt8) ∉ word) (hb : (34 : UInt8) ∉ b1)
    (hdiff : word ≠ b1 ∨ y ≠ 58) :
    (34 :: (word ++ [34, 58])).isPrefixOf (34 :: (b1 ++ 34 :: y :: b2)) = false := by
  cases hp : (34 :: (word ++ [34, 58])).isPrefixOf (34 :: (b1 ++ 34 :: y :: b2)) with
  | false => rfl
  | true =>
    rw [List.isPrefixOf_iff_prefix] at hp
    obtain ⟨c, hc⟩ := hp
    simp only [List.cons_append, List.cons.injEq, true_and, List.append_assoc] at hc
    have hc' : word ++ 34 :: (58 :: c) = b1 ++ 34 :: (y :: b2) := by simpa using hc
    obtain ⟨e1, e2⟩ := first_occurrence_unique 34 word b1 _ _ hw hb hc'
    simp only [List.cons.injEq] at e2
    rcases hdiff with h | h
    · exact absurd e1 h
    · exact absurd e2.1.symm h

/-- skip a quote-free stretch and the quote behind it, where the key does not start -/
theorem findAfter_step (word seg b1 b2 : Bytes) (y : UInt8) (hw : (34 : UInt8) ∉ word) (hs : (34 : UInt8) ∉ seg)
    (hb : (34 : UInt8) ∉ b1) (hdiff : word ≠ b1 ∨ y ≠ 58) :
    findAfter (34 :: (word ++ [34, 58])) (seg ++ 34 :: (b1 ++ 34 :: y :: b2)) =
      findAfter (34 :: (word ++ [34, 58])) (b1 ++ 34 :: y :: b2) := by
  rw [findAfter_skip 34 _ seg _ hs, findAfter_miss _ _ _ (key_not_at word b1 b2 y hw hb hdiff)]

theorem findAfter_found (word seg rest : Bytes) (hs : (34 : UInt8) ∉ seg) :
    findAfter (34 :: (word ++ [34, 58])) (seg ++ 34 :: (word ++ 34 :: 58 :: rest)) = some rest := by
  rw [findAfter_skip 34 _ seg _ hs, findAfter_hit _ _ (by simp)]
  · simp
  · rw [List.isPrefixOf_iff_prefix]
    exact ⟨rest, by simp⟩

theorem digits_no_quote (n : Nat) : (34 : UInt8) ∉ ridOf n := by
  intro h
  have := digitsAux_digits (n + 1) n [] (by simp) 34 h
  simp at this

theorem leadingNat_ridOf (n : Nat) (c : UInt8) (rest : Bytes) (hc : ¬ (48 ≤ c.toNat ∧ c.toNat ≤ 57)) :
    leadingNat (ridOf n ++ c :: rest) = some n := by
  have hd : ∀ x ∈ ridOf n, 48 ≤ x.toNat ∧ x.toNat ≤ 57 := digitsAux_digits (n + 1) n [] (by simp)
  have htw : (ridOf n ++ c :: rest).takeWhile (fun c => decide (48 ≤ c.toNat ∧ c.toNat ≤ 57)) = ridOf n := by
    have : ∀ (l : Bytes), (∀ x ∈ l, 48 ≤ x.toNat ∧ x.toNat ≤ 57) →
        (l ++ c :: rest).takeWhile (fun c => decide (48 ≤ c.toNat ∧ c.toNat ≤ 57)) = l := by
      intro l hl
      induction l with
      | nil => simp [hc]
      | cons x xs ih =>
        have hx : decide (48 ≤ x.toNat ∧ x.toNat ≤ 57) = true := by simpa using hl x (by simp)
        rw [List.cons_append, List.takeWhile_cons, hx, if_pos rfl, ih (fun y hy => hl y (by simp [hy]))]
    exact this _ hd
  unfold leadingNat
  simp only [htw]
  have hne := ridOf_ne_nil n
  cases hr : ridOf n with
  | nil => exact absurd hr hne
  | cons x xs =>
    simp only [List.isEmpty_cons, Bool.false_eq_true, ↓reduceIte, Option.some.injEq]
    have := decVal_ridOf n
    rw [hr] at this
    exact this

theorem key_not_at_word (word b1 tail : Bytes) (hw : (34 : UInt8) ∉ word) (hb : (34 : UInt8) ∉ b1) (hdiff : word ≠ b1) :
    (34 :: (word ++ [34, 58])).isPrefixOf (34 :: (b1 ++ 34 :: tail)) = false := by
  cases hp : (34 :: (word ++ [34, 58])).isPrefixOf (34 :: (b1 ++ 34 :: tail)) with
  | false => rfl
  | true =>
    rw [List.isPrefixOf_iff_prefix] at hp
    obtain ⟨c, hc⟩ := hp
    have hc' : word ++ 34 :: (58 :: c) = b1 ++ 34 :: tail := by simpa using hc
    exact absurd (first_occurrence_unique 34 word b1 _ _ hw hb hc').1 hdiff

/-- skip a quote-free stretch and the quote behind it: the block behind the quote is not the key's word -/
theorem stepW (word seg b1 tail : Bytes) (hw : (34 : UInt8) ∉ word) (hs : (34 : UInt8) ∉ seg) (hb : (34 : UInt8) ∉ b1)
    (hdiff : word ≠ b1) :
    findAfter (34 :: (word ++ [34, 58])) (seg ++ 34 :: (b1 ++ 34 :: tail)) =
      findAfter (34 :: (word ++ [34, 58])) (b1 ++ 34 :: tail) := by
  rw [findAfter_skip 34 _ seg _ hs, findAfter_miss _ _ _ (key_not_at_word word b1 tail hw hb hdiff)]

/-- … or it is not followed by a colon -/
theorem stepC (word seg b1 b2 : Bytes) (y : UInt8) (hw : (34 : UInt8) ∉ word) (hs : (34 : UInt8) ∉ seg) (hb : (34 : UInt8) ∉ b1)
    (hy : y ≠ 58) :
    findAfter (34 :: (word ++ [34, 58])) (seg ++ 34 :: (b1 ++ 34 :: y :: b2)) =
      findAfter (34 :: (word ++ [34, 58])) (b1 ++ 34 :: y :: b2) :=
  findAfter_step word seg b1 b2 y hw hs hb (Or.inr hy)

def wName : Bytes := [110, 97, 109, 101]
def wMetric : Bytes := [100, 105, 115, 116, 97, 110, 99, 101, 95, 109, 101, 116, 104, 111, 100]
def wDim : Bytes := [100, 105, 109, 101, 110, 115, 105, 111, 110, 95, 99, 111, 117, 110, 116]
def wQuant : Bytes := [113, 117, 97, 110, 116, 105, 122, 97, 116, 105, 111, 110]

/-- the bytes of the options record, as quote-free blocks separated by quotes -/
theorem encodeOpts_shape (name : Bytes) (c : Cfg) :
    encodeOpts name c = [123] ++ 34 :: (wName ++ 34 :: ([58] ++ 34 :: (name ++ 34 :: ([44] ++ 34 :: (wMetric ++ 34 :: 58 ::
      (ridOf c.metric ++ [44] ++ 34 :: (wDim ++ 34 :: 58 :: (ridOf c.dim ++ [44] ++ 34 :: (wQuant ++ 34 :: 58 ::
        (ridOf c.quant ++ [125])))))))))) := by
  simp [encodeOpts, natStr, wName, wMetric, wDim, wQuant]

theorem no_quote_cons (c : UInt8) (l : Bytes) (hc : c ≠ 34) (hl : (34 : UInt8) ∉ l) : (34 : UInt8) ∉ c :: l := by
  intro h; rcases List.mem_cons.mp h with h | h
  · exact hc h.symm
  · exact hl h

theorem no_quote_append (a b : Bytes) (ha : (34 : UInt8) ∉ a) (hb : (34 : UInt8) ∉ b) : (34 : UInt8) ∉ a ++ b := by
  intro h; rcases List.mem_append.mp h with h | h
  · exact ha h
  · exact hb h

/-- **the options record decodes to the options it was written from** (for a name without a double quote) -/
theorem decodeOpts_encodeOpts (name : Bytes) (c : Cfg) (hn : (34 : UInt8) ∉ name) : decodeOpts (encodeOpts name c) = some c := by
  have q1 := digits_no_quote c.metric
  have q2 := digits_no_quote c.dim
  have q3 := digits_no_quote c.quant
  have hM : (34 : UInt8) ∉ (58 : UInt8) :: (ridOf c.metric ++ [44]) :=
    no_quote_cons _ _ (by decide) (no_quote_append _ _ q1 (by decide))
  have hD : (34 : UInt8) ∉ (58 : UInt8) :: (ridOf c.dim ++ [44]) :=
    no_quote_cons _ _ (by decide) (no_quote_append _ _ q2 (by decide))
  -- the common prefix of all three searches: up to the quote in front of `distance_method`
  have pre : ∀ (word tail : Bytes), (34 : UInt8) ∉ word → word ≠ wName → word ≠ [58] → word ≠ [44] →
      findAfter (34 :: (word ++ [34, 58])) ([123] ++ 34 :: (wName ++ 34 :: ([58] ++ 34 :: (name ++ 34 :: ([44] ++ 34 :: tail))))) =
        findAfter (34 :: (word ++ [34, 58])) ([44] ++ 34 :: tail) := by
    intro word tail hw h1 h2 h3
    rw [stepW word [123] wName _ hw (by decide) (by decide) h1,
      stepW word wName [58] _ hw (by decide) (by decide) h2]
    show findAfter (34 :: (word ++ [34, 58])) ([58] ++ 34 :: (name ++ 34 :: 44 :: 34 :: tail)) = _
    rw [stepC word [58] name (34 :: tail) 44 hw (by decide) hn (by decide)]
    show findAfter (34 :: (word ++ [34, 58])) (name ++ 34 :: ([44] ++ 34 :: tail)) = _
    rw [findAfter_skip 34 _ name _ hn, findAfter_miss _ _ _ (key_not_at_word word [44] tail hw (by decide) h3)]
  have f1 : findAfter (b!"\"distance_method\":") (encodeOpts name c) =
      some (ridOf c.metric ++ [44] ++ 34 :: (wDim ++ 34 :: 58 :: (ridOf c.dim ++ [44] ++ 34 :: (wQuant ++ 34 :: 58 :: (ridOf c.quant ++ [125]))))) := by
    rw [encodeOpts_shape]
    show findAfter (34 :: (wMetric ++ [34, 58])) _ = _
    rw [pre wMetric _ (by decide) (by decide) (by decide) (by decide), findAfter_found wMetric [44] _ (by decide)]
  have f2 : findAfter (b!"\"dimension_count\":") (encodeOpts name c) =
      some (ridOf c.dim ++ [44] ++ 34 :: (wQuant ++ 34 :: 58 :: (ridOf c.quant ++ [125]))) := by
    rw [encodeOpts_shape]
    show findAfter (34 :: (wDim ++ [34, 58])) _ = _
    rw [pre wDim _ (by decide) (by decide) (by decide) (by decide)]
    have e1 : wMetric ++ 34 :: 58 :: (ridOf c.metric ++ [44] ++ 34 :: (wDim ++ 34 :: 58 :: (ridOf c.dim ++ [44] ++ 34 :: (wQuant ++ 34 :: 58 :: (ridOf c.quant ++ [125]))))) =
        wMetric ++ 34 :: ((58 :: (ridOf c.metric ++ [44])) ++ 34 :: (wDim ++ 34 :: 58 :: (ridOf c.dim ++ [44] ++ 34 :: (wQuant ++ 34 :: 58 :: (ridOf c.quant ++ [125]))))) := by simp
    rw [e1, stepW wDim [44] wMetric _ (by decide) (by decide) (by decide) (by decide),
      stepW wDim wMetric (58 :: (ridOf c.metric ++ [44])) _ (by decide) (by decide) hM (by
        intro e; have := congrArg List.head? e; simp [wDim] at this),
      findAfter_found wDim _ _ hM]
  have f3 : findAfter (b!"\"quantization\":") (encodeOpts name c) = some (ridOf c.quant ++ [125]) := by
    rw [encodeOpts_shape]
    show findAfter (34 :: (wQuant ++ [34, 58])) _ = _
    rw [pre wQuant _ (by decide) (by decide) (by decide) (by decide)]
    have e1 : wMetric ++ 34 :: 58 :: (ridOf c.metric ++ [44] ++ 34 :: (wDim ++ 34 :: 58 :: (ridOf c.dim ++ [44] ++ 34 :: (wQuant ++ 34 :: 58 :: (ridOf c.quant ++ [125]))))) =
        wMetric ++ 34 :: ((58 :: (ridOf c.metric ++ [44])) ++ 34 :: (wDim ++ 34 :: ((58 :: (ridOf c.dim ++ [44])) ++ 34 :: (wQuant ++ 34 :: 58 :: (ridOf c.quant ++ [125]))))) := by simp
    rw [e1, stepW wQuant [44] wMetric _ (by decide) (by decide) (by decide) (by decide),
      stepW wQuant wMetric (58 :: (ridOf c.metric ++ [44])) _ (by decide) (by decide) hM (by
        intro e; have := congrArg List.head? e; simp [wQuant] at this),
      stepW wQuant (58 :: (ridOf c.metric ++ [44])) wDim _ (by decide) hM (by decide) (by decide),
      stepW wQuant wDim (58 :: (ridOf c.dim ++ [44])) _ (by decide) (by decide) hD (by
        intro e; have := congrArg List.head? e; simp [wQuant] at this),
      findAfter_found wQuant _ _ hD]
  unfold decodeOpts
  rw [f1, f2, f3]
  simp only [List.append_assoc, List.singleton_append]
  rw [leadingNat_ridOf c.metric 44 _ (by decide), leadingNat_ridOf c.dim 44 _ (by decide),
    leadingNat_ridOf c.quant 125 _ (by decide)]

theorem openFile_overwrite (existing : Option Bytes) : openFile existing .createAndOverwrite = openFile none .createIfNotExists := by
  cases existing <;> rfl

/-- **create-and-overwrite discards whatever the file held**: the result is the newly created collection, independent of the old bytes -/
theorem overwrite_discards (existing : Option Bytes) (name : Bytes) (opts : Cfg) (dec : Bytes → Cfg → Option Cfg) :
    newCollection existing name opts .createAndOverwrite dec = newCollection none name opts .createIfNotExists dec := by
  unfold newCollection
  rw [openFile_overwrite existing]
  simp only [ne_eq, not_true_eq_false, decide_false, Bool.false_and, reduceCtorEq, not_false_eq_true, decide_true, Bool.true_and,
    Bool.false_eq_true, ↓reduceIte]

end Syzgy
