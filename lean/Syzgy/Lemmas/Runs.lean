import Syzgy.Lemmas.FreeMap
import Syzgy.Lemmas.Scan
/-!
Maximal free runs of a segment list (`runsOf`), their canonical form, their coverage (`freeAt`), and
the decomposition of the segment list at a run.
-/
namespace Syzgy

def Seg.isFree : Seg → Bool
  | .free _ => true
  | .act .. => false

/-- byte `p` lies inside a FREE segment of `segs` laid out from offset `off` -/
def freeAt : Nat → List Seg → Nat → Prop
  | _, [], _ => False
  | off, s :: ss, p => (s.isFree = true ∧ off ≤ p ∧ p < off + s.size) ∨ freeAt (off + s.size) ss p

/-- maximal runs of consecutive FREE segments, as regions; `cur` is the run being extended -/
def runsAux : Nat → Option Sp → List Seg → List Sp
  | _, none, [] => []
  | _, some r, [] => [r]
  | off, cur, s :: ss =>
    if s.isFree then
      match cur with
      | none => runsAux (off + s.size) (some { start := off, len := s.size }) ss
      | some r => runsAux (off + s.size) (some { start := r.start, len := r.len + s.size }) ss
    else
      match cur with
      | none => runsAux (off + s.size) none ss
      | some r => r :: runsAux (off + s.size) none ss

def runsOf (segs : List Seg) : List Sp := runsAux 0 none segs

theorem segsSize_cons (s : Seg) (ss : List Seg) : segsSize (s :: ss) = s.size + segsSize ss := by
  simp [segsSize]

theorem freeAt_append (off : Nat) (a b : List Seg) (p : Nat) :
    freeAt off (a ++ b) p ↔ freeAt off a p ∨ freeAt (off + segsSize a) b p := by
  induction a generalizing off with
  | nil => simp [freeAt, segsSize]
  | cons s ss ih =>
    simp only [List.cons_append, freeAt, ih, segsSize_cons]
    rw [show off + s.size + segsSize ss = off + (s.size + segsSize ss) by omega]
    constructor
    · rintro (h | h | h)
      · exact Or.inl (Or.inl h)
      · exact Or.inl (Or.inr h)
      · exact Or.inr h
    · rintro ((h | h) | h)
      · exact Or.inl h
      · exact Or.inr (Or.inl h)
      · exact Or.inr (Or.inr h)

theorem freeAt_bounds (off : Nat) (segs : List Seg) (p : Nat) (h : freeAt off segs p) :
    off ≤ p ∧ p < off + segsSize segs := by
  induction segs generalizing off with
  | nil => exact absurd h (by simp [freeAt])
  | cons s ss ih =>
    simp only [freeAt] at h
    rw [segsSize_cons]
    rcases h with ⟨_, h1, h2⟩ | h
    · constructor <;> omega
    · have := ih _ h
      constructor <;> omega

/-- start of the run being extended, or the current offset when there is none -/
def curStart (cur : Option Sp) (off : Nat) : Nat :=
  match cur with
  | some r => r.start
  | none => off

/-- coverage and shape of `runsAux`: with a current run `cur` that ends exactly at `off` -/
theorem runsAux_spec (segs : List Seg) (hok : ∀ s ∈ segs, s.OK) (off : Nat) (cur : Option Sp)
    (hcur : ∀ r, cur = some r → 0 < r.len ∧ r.stop = off) :
    (∀ s ∈ runsAux off cur segs, 0 < s.len) ∧
    (runsAux off cur segs).Pairwise (fun a b => a.stop < b.start) ∧
    (∀ s ∈ runsAux off cur segs, curStart cur off ≤ s.start ∧ s.stop ≤ off + segsSize segs) ∧
    (cur = none → ∀ s ∈ runsAux off cur segs, off ≤ s.start) ∧
    (∀ p, covers (runsAux off cur segs) p ↔ ((∃ r, cur = some r ∧ r.has p) ∨ freeAt off segs p)) := by
  induction segs generalizing off cur with
  | nil =>
    cases cur with
    | none => simp [runsAux, covers, freeAt]
    | some r =>
      obtain ⟨h1, h2⟩ := hcur r rfl
      refine ⟨by simpa [runsAux] using h1, by simp [runsAux], ?_, by simp, ?_⟩
      · intro s hs; simp [runsAux] at hs; subst hs; simp [segsSize, h2, curStart]
      · intro p; simp [runsAux, covers, freeAt]
  | cons s ss ih =>
    have hs := hok s (by simp)
    have hss : ∀ x ∈ ss, x.OK := fun x hx => hok x (by simp [hx])
    have hsz := Seg.size_ge s hs
    simp only [minSpanLength] at hsz
    rw [segsSize_cons]
    by_cases hf : s.isFree = true
    · cases cur with
      | none =>
        simp only [runsAux, hf, ↓reduceIte]
        obtain ⟨i1, i2, i3, _, i5⟩ := ih hss (off + s.size) (some { start := off, len := s.size })
          (by intro r hr; cases hr; exact ⟨by show 0 < s.size; omega, rfl⟩)
        refine ⟨i1, i2, ?_, ?_, ?_⟩
        · intro x hx
          have := i3 x hx
          simp only [curStart] at this ⊢
          constructor <;> omega
        · intro _ x hx
          have := i3 x hx
          simp only [curStart] at this
          omega
        · intro p
          rw [i5 p]
          simp only [freeAt, hf, true_and, Option.some.injEq, exists_eq_left', Sp.has, Sp.stop, reduceCtorEq, false_and, exists_false, false_or]
      | some r =>
        obtain ⟨hr1, hr2⟩ := hcur r rfl
        simp only [runsAux, hf, ↓reduceIte]
        obtain ⟨i1, i2, i3, _, i5⟩ := ih hss (off + s.size) (some { start := r.start, len := r.len + s.size })
          (by intro r' hr'; cases hr'; simp only [Sp.stop] at hr2 ⊢; exact ⟨by omega, by omega⟩)
        refine ⟨i1, i2, ?_, (fun h => by cases h), ?_⟩
        · intro x hx
          have := i3 x hx
          simp only [curStart] at this ⊢
          constructor <;> omega
        · intro p
          rw [i5 p]
          simp only [freeAt, hf, true_and, Option.some.injEq, exists_eq_left', Sp.has, Sp.stop] at hr2 ⊢
          constructor
          · rintro (⟨h1, h2⟩ | h)
            · by_cases hp : p < off
              · exact Or.inl ⟨h1, by omega⟩
              · exact Or.inr (Or.inl ⟨by omega, by omega⟩)
            · exact Or.inr (Or.inr h)
          · rintro (⟨h1, h2⟩ | ⟨h1, h2⟩ | h)
            · exact Or.inl ⟨h1, by omega⟩
            · exact Or.inl ⟨by omega, by omega⟩
            · exact Or.inr h
    · have hf' : s.isFree = false := by simpa using hf
      cases cur with
      | none =>
        simp only [runsAux, hf', Bool.false_eq_true, ↓reduceIte]
        obtain ⟨i1, i2, i3, i4, i5⟩ := ih hss (off + s.size) none (by intro r hr; cases hr)
        refine ⟨i1, i2, ?_, ?_, ?_⟩
        · intro x hx
          have := i3 x hx
          simp only [curStart] at this ⊢
          constructor <;> omega
        · intro _ x hx
          have := i4 rfl x hx
          omega
        · intro p
          rw [i5 p]
          simp [freeAt, hf']
      | some r =>
        obtain ⟨hr1, hr2⟩ := hcur r rfl
        simp only [runsAux, hf', Bool.false_eq_true, ↓reduceIte]
        obtain ⟨i1, i2, i3, i4, i5⟩ := ih hss (off + s.size) none (by intro r' hr'; cases hr')
        refine ⟨?_, ?_, ?_, (fun h => by cases h), ?_⟩
        · intro x hx
          rcases List.mem_cons.mp hx with rfl | hx
          · exact hr1
          · exact i1 x hx
        · rw [List.pairwise_cons]
          refine ⟨?_, i2⟩
          intro x hx
          have := i4 rfl x hx
          simp only [Sp.stop] at hr2 ⊢
          omega
        · intro x hx
          rcases List.mem_cons.mp hx with rfl | hx
          · simp only [Sp.stop, curStart] at hr2 ⊢; constructor <;> omega
          · have := i3 x hx
            have h4 := i4 rfl x hx
            simp only [Sp.stop, curStart] at hr2 this ⊢
            constructor <;> omega
        · intro p
          simp only [covers, List.mem_cons, exists_eq_or_imp, Option.some.injEq, exists_eq_left', freeAt, hf',
            Bool.false_eq_true, false_and, false_or]
          have := i5 p
          simp only [covers, reduceCtorEq, false_and, exists_false, false_or] at this
          rw [this]

/-- the maximal free runs are in canonical form and cover exactly the bytes of FREE segments -/
theorem runsOf_good (segs : List Seg) (hok : ∀ s ∈ segs, s.OK) :
    Good (runsOf segs) ∧ ∀ p, covers (runsOf segs) p ↔ freeAt 0 segs p := by
  obtain ⟨h1, h2, _, _, h5⟩ := runsAux_spec segs hok 0 none (by intro r hr; cases hr)
  exact ⟨⟨h1, h2⟩, fun p => by rw [runsOf, h5 p]; simp⟩

/-- a canonical free map that covers exactly the FREE bytes *is* the list of maximal runs -/
theorem free_eq_runsOf (segs : List Seg) (hok : ∀ s ∈ segs, s.OK) (fm : List Sp) (hg : Good fm)
    (hc : ∀ p, covers fm p ↔ freeAt 0 segs p) : fm = runsOf segs := by
  obtain ⟨g, c⟩ := runsOf_good segs hok
  exact good_unique fm (runsOf segs) hg g (fun p => (hc p).trans (c p).symm)

end Syzgy
