import Syzgy.Spec.Filter
/-!
# The parser builds the documented tree

`Expr.toks prec e` is the canonical token sequence of an expression of the documented language, with
parentheses only where precedence needs them (OR < AND < comparison). The parser, run on that token
sequence, returns `e.ast` — so AND binds tighter than OR, both associate to the left, NOT applies to a
parenthesised expression, IN / NOT IN take a bracketed literal list, paths are folded left to right.
-/
namespace Syzgy.Query

def eofTok : Token := { type := .eof, lit := [] }

/-- a token source that serves a fixed token list, then end-of-input for ever -/
def listSrc (toks : List Token) : TokSrc := fun pos => .ok ((toks.drop pos).headD eofTok, pos + 1)

/-- parser state whose current token is the `i`-th token of the list -/
def psAt (toks : List Token) (i : Nat) : PS :=
  { cur := (toks.drop i).headD eofTok, peek := (toks.drop (i + 1)).headD eofTok, pos := i + 2 }

theorem advance_psAt (toks : List Token) (i : Nat) : advance (listSrc toks) (psAt toks i) = .ok (psAt toks (i + 1)) := by
  simp [advance, listSrc, psAt]

theorem cur_of_drop {toks : List Token} {i : Nat} {t : Token} {more : List Token} (h : toks.drop i = t :: more) :
    (psAt toks i).cur = t := by simp [psAt, h]

theorem drop_succ_of_drop {toks : List Token} {i : Nat} {t : Token} {more : List Token} (h : toks.drop i = t :: more) :
    toks.drop (i + 1) = more := by
  rw [← List.tail_drop, h]; rfl

theorem drop_add_of_drop {toks : List Token} {i : Nat} (seg more : List Token) (h : toks.drop i = seg ++ more) :
    toks.drop (i + seg.length) = more := by
  rw [← List.drop_drop, h, List.drop_left]

theorem newParser_listSrc (toks : List Token) : newParser (listSrc toks) = .ok (psAt toks 0) := by
  simp [newParser, advance, listSrc, psAt, bind, Outcome.bind]

/-! ## canonical tokens -/

def tk (t : TokType) (lit : Bytes) : Token := { type := t, lit := lit }

def Cmp.tok : Cmp → Token
  | .eq => tk .equal b!"==" | .ne => tk .notEqual b!"!=" | .lt => tk .less b!"<"
  | .le => tk .lessEqual b!"<=" | .gt => tk .greater b!">" | .ge => tk .greaterEqual b!">="

def StrOp.tok : StrOp → Token
  | .contains => tk .contains b!"CONTAINS" | .startsWith => tk .startsWith b!"STARTS_WITH"
  | .endsWith => tk .endsWith b!"ENDS_WITH" | .matches => tk .matches b!"MATCHES"

def Lit.tok : Lit → Token
  | .num lit => tk .number lit
  | .str s => tk .string s
  | .bool b => tk .boolean (if b then b!"true" else b!"false")
  | .null => tk .null b!"null"

/-- the field name a path starts with -/
def Path.root : Path → Bytes
  | .field name => name
  | .dot p _ => p.root
  | .index p _ => p.root
  | .length p => p.root

/-- the access steps behind the root identifier -/
def Path.steps : Path → List Token
  | .field _ => []
  | .dot p name => p.steps ++ [tk .dot b!".", tk .identifier name]
  | .index p lit => p.steps ++ [tk .leftBracket b!"[", tk .number lit, tk .rightBracket b!"]"]
  | .length p => p.steps ++ [tk .dot b!".", tk .identifier b!"length"]

def Path.toks (p : Path) : List Token := tk .identifier p.root :: p.steps

def itemsToks : List Lit → List Token
  | [] => []
  | [x] => [x.tok]
  | x :: y :: r => x.tok :: tk .comma b!"," :: itemsToks (y :: r)

def lp : Token := tk .leftParen b!"("
def rp : Token := tk .rightParen b!")"

def paren (b : Bool) (l : List Token) : List Token := if b then lp :: (l ++ [rp]) else l

/-- canonical tokens of an expression in a context of precedence `prec` (0 = operand of nothing or of
    OR on the left, 1 = operand of AND on the left / OR on the right, 2 = operand of AND on the right) -/
def Expr.toks : Nat → Expr → List Token
  | _, .cmp op p l => p.toks ++ [op.tok, l.tok]
  | _, .strop op p s => p.toks ++ [op.tok, tk .string s]
  | _, .inList p items => p.toks ++ [tk .in b!"IN", tk .leftBracket b!"["] ++ itemsToks items ++ [tk .rightBracket b!"]"]
  | _, .notInList p items =>
    p.toks ++ [tk .not b!"NOT", tk .in b!"IN", tk .leftBracket b!"["] ++ itemsToks items ++ [tk .rightBracket b!"]"]
  | _, .exists p => p.toks ++ [tk .exists b!"EXISTS"]
  | _, .notExists p => p.toks ++ [tk .doesNotExist b!"DOES NOT EXIST"]
  | prec, .and a b => paren (decide (prec > 1)) (a.toks 1 ++ [tk .and b!"AND"] ++ b.toks 2)
  | prec, .or a b => paren (decide (prec > 0)) (a.toks 0 ++ [tk .or b!"OR"] ++ b.toks 1)
  | _, .not a => [tk .not b!"NOT", lp] ++ a.toks 0 ++ [rp]
  | _, .group a => lp :: (a.toks 0 ++ [rp])


variable (nok : NumOK)

/-- a number literal followed by `]` parsed as a whole expression (the index of `p[lit]`) -/
theorem parseOr_number (toks : List Token) (i : Nat) (lit : Bytes) (more : List Token) (fuel : Nat)
    (h : toks.drop i = tk .number lit :: tk .rightBracket b!"]" :: more) (hn : nok lit = true) :
    parseOr (listSrc toks) nok (fuel + 5) (psAt toks i) = .ok (.value (.num lit), psAt toks (i + 1)) := by
  have hc := cur_of_drop h
  have h1 := drop_succ_of_drop h
  have hc1 := cur_of_drop h1
  simp only [parseOr, parseAnd, parseComparison, parseNot, parsePrimary, hc, tk, parseNumber, hn, ↓reduceIte,
    advance_psAt, bind, Outcome.bind, pure, reduceCtorEq]
  simp [orLoop, andLoop, hc1, tk, isComparisonOperator]


def Path.nsteps : Path → Nat
  | .field _ => 0
  | .dot p _ => p.nsteps + 1
  | .index p _ => p.nsteps + 1
  | .length p => p.nsteps + 1

/-- every index literal of the path is a valid number (`strconv.ParseFloat` accepts it) -/
def Path.numsOK (nok : NumOK) : Path → Prop
  | .field _ => True
  | .dot p _ => p.numsOK nok
  | .index p lit => p.numsOK nok ∧ nok lit = true
  | .length p => p.numsOK nok

/-- the access loop folds the steps of a path, left to right, into `p.ast` -/
theorem accessLoop_path (p : Path) (hp : p.numsOK nok) (toks : List Token) (i : Nat) (rest : List Token) (g : Nat)
    (h : toks.drop i = p.steps ++ rest) :
    accessLoop (listSrc toks) nok (g + 5 + p.nsteps) (.ident p.root) (psAt toks i) =
      accessLoop (listSrc toks) nok (g + 5) p.ast (psAt toks (i + p.steps.length)) := by
  induction p generalizing rest g with
  | field name => simp [Path.nsteps, Path.steps, Path.root, Path.ast]
  | dot p name ih =>
    simp only [Path.steps, List.append_assoc] at h
    have e := ih hp _ (g + 1) h
    have hj := drop_add_of_drop _ _ h
    have hc := cur_of_drop hj
    have hj1 := drop_succ_of_drop hj
    have hc1 := cur_of_drop hj1
    have : g + 5 + (Path.dot p name).nsteps = g + 1 + 5 + p.nsteps := by simp [Path.nsteps]; omega
    rw [this]
    simp only [Path.root]
    rw [e]
    have : g + 1 + 5 = (g + 5) + 1 := by omega
    rw [this]
    conv => lhs; unfold accessLoop
    simp only [hc, tk, reduceCtorEq, ↓reduceIte, advance_psAt, hc1, List.singleton_append, List.cons_append, List.nil_append]
    simp only [Path.ast, Path.steps, List.length_append, List.length_cons, List.length_nil, Path.root]
    congr 2
  | index p lit ih =>
    simp only [Path.steps, List.append_assoc] at h
    obtain ⟨hp1, hlit⟩ := hp
    have e := ih hp1 _ (g + 1) h
    have hj := drop_add_of_drop _ _ h
    have hc := cur_of_drop hj
    have hj1 := drop_succ_of_drop hj
    have hj2 := drop_succ_of_drop hj1
    have hc2 := cur_of_drop hj2
    have : g + 5 + (Path.index p lit).nsteps = g + 1 + 5 + p.nsteps := by simp [Path.nsteps]; omega
    rw [this]
    simp only [Path.root]
    rw [e]
    have : g + 1 + 5 = (g + 5) + 1 := by omega
    rw [this]
    conv => lhs; unfold accessLoop
    simp only [hc, tk, ↓reduceIte, advance_psAt]
    have hnum := parseOr_number nok toks (i + p.steps.length + 1) lit rest g (by simpa [tk] using hj1) hlit
    rw [hnum]
    simp only [expect, hc2, tk, ↓reduceIte, advance_psAt]
    simp only [Path.ast, Path.steps, List.length_append, List.length_cons, List.length_nil, Path.root]
    congr 2
  | length p ih =>
    simp only [Path.steps, List.append_assoc] at h
    have e := ih hp _ (g + 1) h
    have hj := drop_add_of_drop _ _ h
    have hc := cur_of_drop hj
    have hj1 := drop_succ_of_drop hj
    have hc1 := cur_of_drop hj1
    have : g + 5 + (Path.length p).nsteps = g + 1 + 5 + p.nsteps := by simp [Path.nsteps]; omega
    rw [this]
    simp only [Path.root]
    rw [e]
    have : g + 1 + 5 = (g + 5) + 1 := by omega
    rw [this]
    conv => lhs; unfold accessLoop
    simp only [hc, tk, reduceCtorEq, ↓reduceIte, advance_psAt, hc1, List.singleton_append, List.cons_append, List.nil_append]
    simp only [Path.ast, Path.steps, List.length_append, List.length_cons, List.length_nil, Path.root]
    congr 2


/-- at the end of a path (next token neither `[` nor `.`) the access loop returns -/
theorem accessLoop_end (toks : List Token) (j : Nat) (e : Node) (f : Nat)
    (h1 : (psAt toks j).cur.type ≠ .leftBracket) (h2 : (psAt toks j).cur.type ≠ .dot) :
    accessLoop (listSrc toks) nok (f + 1) e (psAt toks j) = .ok (e, psAt toks j) := by
  conv => lhs; unfold accessLoop
  simp [h1, h2]

/-- identifier-led primary: the path is folded, then the token behind it decides -/
theorem ident_path (p : Path) (hp : p.numsOK nok) (toks : List Token) (i : Nat) (rest : List Token) (g : Nat)
    (h : toks.drop i = p.toks ++ rest)
    (h1 : (psAt toks (i + p.toks.length)).cur.type ≠ .leftBracket) (h2 : (psAt toks (i + p.toks.length)).cur.type ≠ .dot) :
    parseIdentifierOrFunction (listSrc toks) nok (g + 6 + p.nsteps) (psAt toks i) =
      (let s2 := psAt toks (i + p.toks.length)
       let f := g + 5 + p.nsteps
       if s2.cur.type = .in ∨ s2.cur.type = .not then parseIn (listSrc toks) nok f p.ast s2
       else if s2.cur.type = .leftParen then parseFunction (listSrc toks) nok f p.ast s2
       else if s2.cur.type = .exists then
         match advance (listSrc toks) s2 with
         | .ok s3 => .ok (.func b!"EXISTS" (.cons p.ast .nil), s3)
         | .err m => .err m
         | .panic m => .panic m
       else if s2.cur.type = .doesNotExist then
         match advance (listSrc toks) s2 with
         | .ok s3 => .ok (.func b!"DOES_NOT_EXIST" (.cons p.ast .nil), s3)
         | .err m => .err m
         | .panic m => .panic m
       else .ok (p.ast, s2)) := by
  have hc := cur_of_drop (t := tk .identifier p.root) (more := p.steps ++ rest) (by simpa [Path.toks] using h)
  have h' : toks.drop (i + 1) = p.steps ++ rest := drop_succ_of_drop (t := tk .identifier p.root) (by simpa [Path.toks] using h)
  have e1 := accessLoop_path nok p hp toks (i + 1) rest g h'
  have hlen : i + p.toks.length = i + 1 + p.steps.length := by simp [Path.toks]; omega
  rw [hlen] at h1 h2 ⊢
  have e2 := accessLoop_end nok toks (i + 1 + p.steps.length) p.ast (g + 4) h1 h2
  have hf : g + 6 + p.nsteps = (g + 5 + p.nsteps) + 1 := by omega
  rw [hf]
  conv => lhs; unfold parseIdentifierOrFunction
  simp only [advance_psAt, hc, tk, e1]
  have e2' : accessLoop (listSrc toks) nok (g + 5) p.ast (psAt toks (i + 1 + p.steps.length)) =
      .ok (p.ast, psAt toks (i + 1 + p.steps.length)) := e2
  rw [e2']
  rfl


theorem parseNot_ident (toks : List Token) (i : Nat) (F : Nat) (h : (psAt toks i).cur.type = .identifier) :
    parseNot (listSrc toks) nok (F + 2) (psAt toks i) = parseIdentifierOrFunction (listSrc toks) nok F (psAt toks i) := by
  conv => lhs; unfold parseNot
  simp only [h, reduceCtorEq, ↓reduceIte]
  conv => lhs; unfold parsePrimary
  simp only [h]

/-- a literal as the right operand of a comparison -/
theorem parseNot_lit (l : Lit) (hl : ∀ lit, l = .num lit → nok lit = true) (toks : List Token) (i : Nat) (more : List Token) (F : Nat)
    (h : toks.drop i = l.tok :: more) :
    parseNot (listSrc toks) nok (F + 2) (psAt toks i) = .ok (.value l.value, psAt toks (i + 1)) := by
  have hc := cur_of_drop h
  conv => lhs; unfold parseNot
  cases l with
  | num lit =>
    simp only [hc, Lit.tok, tk, reduceCtorEq, ↓reduceIte]
    conv => lhs; unfold parsePrimary
    simp [hc, Lit.tok, tk, parseNumber, hl lit rfl, advance_psAt, bind, Outcome.bind, pure, Lit.value]
  | str s =>
    simp only [hc, Lit.tok, tk, reduceCtorEq, ↓reduceIte]
    conv => lhs; unfold parsePrimary
    simp [hc, Lit.tok, tk, advance_psAt, Lit.value]
  | bool b =>
    simp only [hc, Lit.tok, tk, reduceCtorEq, ↓reduceIte]
    conv => lhs; unfold parsePrimary
    cases b <;> simp [hc, Lit.tok, tk, advance_psAt, Lit.value] <;> decide
  | null =>
    simp only [hc, Lit.tok, tk, reduceCtorEq, ↓reduceIte]
    conv => lhs; unfold parsePrimary
    simp [hc, Lit.tok, tk, advance_psAt, Lit.value]


/-- list items the parser accepts: numbers (valid literals) and strings -/
def ItemOK (nok : NumOK) : Lit → Prop
  | .num lit => nok lit = true
  | .str _ => True
  | _ => False

theorem parseArrayElems_items (items : List Lit) (hne : items ≠ []) (hok : ∀ l ∈ items, ItemOK nok l)
    (toks : List Token) (i : Nat) (more : List Token) (acc : List Value) (F : Nat)
    (h : toks.drop i = itemsToks items ++ (tk .rightBracket b!"]" :: more)) :
    parseArrayElems (listSrc toks) nok (F + items.length) (psAt toks i) acc =
      .ok (acc.reverse ++ items.map Lit.value, psAt toks (i + (itemsToks items).length)) := by
  induction items generalizing i acc with
  | nil => exact absurd rfl hne
  | cons x r ih =>
    have hx := hok x (by simp)
    cases r with
    | nil =>
      simp only [itemsToks, List.singleton_append] at h
      have hc := cur_of_drop h
      have h1 := drop_succ_of_drop h
      have hc1 := cur_of_drop h1
      simp only [List.length_singleton]
      conv => lhs; unfold parseArrayElems
      cases x with
      | num lit =>
        have hn : nok lit = true := hx
        simp [hc, Lit.tok, tk, hn, advance_psAt, bind, Outcome.bind, pure, hc1, itemsToks, Lit.value]
      | str s =>
        simp [hc, Lit.tok, tk, advance_psAt, bind, Outcome.bind, pure, hc1, itemsToks, Lit.value]
      | bool b => exact absurd hx (by simp [ItemOK])
      | null => exact absurd hx (by simp [ItemOK])
    | cons y r' =>
      simp only [itemsToks, List.cons_append] at h
      have hc := cur_of_drop h
      have h1 := drop_succ_of_drop h
      have hc1 := cur_of_drop h1
      have h2 := drop_succ_of_drop h1
      have hrec := fun v => ih (by simp) (fun l hl => hok l (by simp [hl])) (i + 1 + 1) (v :: acc) h2
      have hf : F + (x :: y :: r').length = (F + (y :: r').length) + 1 := by simp; omega
      rw [hf]
      conv => lhs; unfold parseArrayElems
      cases x with
      | num lit =>
        have hn : nok lit = true := hx
        simp only [hc, Lit.tok, tk, hn, ↓reduceIte, advance_psAt, bind, Outcome.bind, pure, hc1]
        rw [hrec]
        simp [itemsToks, Lit.value]
        congr 1; omega
      | str s =>
        simp only [hc, Lit.tok, tk, reduceCtorEq, ↓reduceIte, advance_psAt, bind, Outcome.bind, pure, hc1]
        rw [hrec]
        simp [itemsToks, Lit.value]
        congr 1; omega
      | bool b => exact absurd hx (by simp [ItemOK])
      | null => exact absurd hx (by simp [ItemOK])


theorem ptoks_ident (p : Path) (toks : List Token) (i : Nat) (rest : List Token) (h : toks.drop i = p.toks ++ rest) :
    (psAt toks i).cur.type = .identifier := by
  have := cur_of_drop (t := tk .identifier p.root) (more := p.steps ++ rest) (by simpa [Path.toks] using h)
  rw [this]; rfl

/-- `p EXISTS` and `p DOES NOT EXIST` -/
theorem unit_exists (p : Path) (hp : p.numsOK nok) (toks : List Token) (i : Nat) (rest : List Token) (g : Nat) (neg : Bool)
    (h : toks.drop i = p.toks ++ ((if neg then tk .doesNotExist b!"DOES NOT EXIST" else tk .exists b!"EXISTS") :: rest))
    (hf : isComparisonOperator (psAt toks (i + p.toks.length + 1)).cur.type = false) :
    parseComparison (listSrc toks) nok (g + 9 + p.nsteps) (psAt toks i) =
      .ok ((if neg then Expr.notExists p else Expr.exists p).ast, psAt toks (i + p.toks.length + 1)) := by
  have hid := ptoks_ident p toks i _ h
  have hj := drop_add_of_drop _ _ h
  have hc := cur_of_drop hj
  have e := ident_path nok p hp toks i _ g h (by rw [hc]; cases neg <;> simp [tk]) (by rw [hc]; cases neg <;> simp [tk])
  have hfu : g + 9 + p.nsteps = (g + 6 + p.nsteps + 2) + 1 := by omega
  rw [hfu]
  conv => lhs; unfold parseComparison
  rw [parseNot_ident nok toks i _ hid, e]
  cases neg
  · simp only [hc, tk, Bool.false_eq_true, ↓reduceIte, reduceCtorEq, or_self, advance_psAt, hf, Expr.ast]
  · simp only [hc, tk, ↓reduceIte, reduceCtorEq, or_self, advance_psAt, hf, Expr.ast]

/-- `p op literal` for the six comparison operators and the four string operators -/
theorem unit_cmp (p : Path) (hp : p.numsOK nok) (opTok : Token) (hop : isComparisonOperator opTok.type = true)
    (hop1 : opTok.type ≠ .in ∧ opTok.type ≠ .not ∧ opTok.type ≠ .leftParen ∧ opTok.type ≠ .exists ∧
      opTok.type ≠ .doesNotExist ∧ opTok.type ≠ .leftBracket ∧ opTok.type ≠ .dot)
    (l : Lit) (hl : ∀ lit, l = .num lit → nok lit = true)
    (toks : List Token) (i : Nat) (rest : List Token) (g : Nat)
    (h : toks.drop i = p.toks ++ (opTok :: l.tok :: rest)) :
    parseComparison (listSrc toks) nok (g + 9 + p.nsteps) (psAt toks i) =
      .ok (.expr p.ast opTok.lit (.value l.value), psAt toks (i + p.toks.length + 2)) := by
  have hid := ptoks_ident p toks i _ h
  have hj := drop_add_of_drop _ _ h
  have hc := cur_of_drop hj
  have hj1 := drop_succ_of_drop hj
  obtain ⟨n1, n2, n3, n4, n5, n6, n7⟩ := hop1
  have e := ident_path nok p hp toks i _ g h (by rw [hc]; exact n6) (by rw [hc]; exact n7)
  have hfu : g + 9 + p.nsteps = (g + 6 + p.nsteps + 2) + 1 := by omega
  rw [hfu]
  conv => lhs; unfold parseComparison
  rw [parseNot_ident nok toks i _ hid, e]
  simp only [hc, n1, n2, n3, n4, n5, or_self, ↓reduceIte, hop, advance_psAt]
  have hlit := parseNot_lit nok l hl toks (i + p.toks.length + 1) rest (g + 6 + p.nsteps) hj1
  rw [hlit]


/-- the bracketed literal list behind IN / NOT IN -/
theorem parseArrayLiteral_items (items : List Lit) (hok : ∀ l ∈ items, ItemOK nok l)
    (toks : List Token) (j : Nat) (rest : List Token) (F : Nat)
    (h : toks.drop j = tk .leftBracket b!"[" :: (itemsToks items ++ (tk .rightBracket b!"]" :: rest))) :
    parseArrayLiteral (listSrc toks) nok (F + items.length) (psAt toks j) =
      .ok (.array (items.map Lit.value), psAt toks (j + 1 + (itemsToks items).length + 1)) := by
  have h1 := drop_succ_of_drop h
  unfold parseArrayLiteral
  simp only [advance_psAt, bind, Outcome.bind, pure]
  by_cases hne : items = []
  · subst hne
    simp only [itemsToks, List.nil_append] at h1
    have hc1 := cur_of_drop h1
    simp [hc1, tk, expect, advance_psAt, itemsToks]
  · have hel := parseArrayElems_items nok items hne hok toks (j + 1) rest [] F h1
    have hc1 : (psAt toks (j + 1)).cur.type ≠ .rightBracket := by
      cases items with
      | nil => exact absurd rfl hne
      | cons x r =>
        have hx := hok x (by simp)
        have : toks.drop (j + 1) = x.tok :: (itemsToks (x :: r)).tail ++ (tk .rightBracket b!"]" :: rest) := by
          rw [h1]; cases r <;> simp [itemsToks]
        rw [cur_of_drop (by simpa using this)]
        cases x <;> simp [Lit.tok, tk, ItemOK] at hx ⊢
    have h2 := drop_add_of_drop _ _ h1
    have hc2 := cur_of_drop h2
    simp only [hc1, ne_eq, not_false_eq_true, ↓reduceIte, hel, List.reverse_nil, List.nil_append, expect, hc2, tk,
      advance_psAt]

/-- `p IN [..]` and `p NOT IN [..]` -/
theorem unit_in (p : Path) (hp : p.numsOK nok) (items : List Lit) (hok : ∀ l ∈ items, ItemOK nok l)
    (toks : List Token) (i : Nat) (rest : List Token) (g : Nat) (neg : Bool)
    (h : toks.drop i = p.toks ++ ((if neg then [tk .not b!"NOT", tk .in b!"IN"] else [tk .in b!"IN"]) ++
      (tk .leftBracket b!"[" :: (itemsToks items ++ (tk .rightBracket b!"]" :: rest)))))
    (hf : isComparisonOperator (psAt toks (i + p.toks.length + (if neg then 2 else 1) + 1 + (itemsToks items).length + 1)).cur.type = false) :
    parseComparison (listSrc toks) nok (g + items.length + 9 + p.nsteps) (psAt toks i) =
      .ok ((if neg then Expr.notInList p items else Expr.inList p items).ast,
        psAt toks (i + p.toks.length + (if neg then 2 else 1) + 1 + (itemsToks items).length + 1)) := by
  have hid := ptoks_ident p toks i _ h
  have hj := drop_add_of_drop _ _ h
  have hfu : g + items.length + 9 + p.nsteps = ((g + items.length) + 6 + p.nsteps + 2) + 1 := by omega
  rw [hfu]
  conv => lhs; unfold parseComparison
  cases neg
  · simp only [Bool.false_eq_true, ↓reduceIte, List.singleton_append] at h hj hf ⊢
    have hc := cur_of_drop hj
    have hj1 := drop_succ_of_drop hj
    have hc1 := cur_of_drop hj1
    have e := ident_path nok p hp toks i _ (g + items.length) h (by rw [hc]; simp [tk]) (by rw [hc]; simp [tk])
    rw [parseNot_ident nok toks i _ hid, e]
    simp only [hc, tk, true_or, ↓reduceIte]
    have harr := parseArrayLiteral_items nok items hok toks (i + p.toks.length + 1) rest (g + 5 + p.nsteps) hj1
    have hfa : g + items.length + 5 + p.nsteps = g + 5 + p.nsteps + items.length := by omega
    simp only [parseIn, hc, tk, advance_psAt, bind, Outcome.bind, pure, reduceCtorEq, false_and, ↓reduceIte, hc1,
      ne_eq, not_true_eq_false, hfa, harr, Bool.false_eq_true, hf, Expr.ast]
  · simp only [↓reduceIte, List.cons_append, List.nil_append] at h hj hf ⊢
    have hc := cur_of_drop hj
    have hj1 := drop_succ_of_drop hj
    have hc1 := cur_of_drop hj1
    have hj2 := drop_succ_of_drop hj1
    have hc2 := cur_of_drop hj2
    have e := ident_path nok p hp toks i _ (g + items.length) h (by rw [hc]; simp [tk]) (by rw [hc]; simp [tk])
    rw [parseNot_ident nok toks i _ hid, e]
    simp only [hc, tk, or_true, ↓reduceIte]
    have harr := parseArrayLiteral_items nok items hok toks (i + p.toks.length + 1 + 1) rest (g + 5 + p.nsteps) hj2
    have hfa : g + items.length + 5 + p.nsteps = g + 5 + p.nsteps + items.length := by omega
    have hpos : i + p.toks.length + 2 + 1 + (itemsToks items).length + 1 =
        i + p.toks.length + 1 + 1 + 1 + (itemsToks items).length + 1 := by omega
    rw [hpos] at hf ⊢
    simp only [parseIn, hc, tk, advance_psAt, bind, Outcome.bind, pure, true_and, ↓reduceIte, hc1, hc2,
      ne_eq, not_true_eq_false, hfa, harr, hf, Expr.ast, Bool.false_eq_true]


/-! ## expressions -/

/-- number literals are valid, list items are numbers or strings -/
def Expr.OK (nok : NumOK) : Expr → Prop
  | .cmp _ p l => p.numsOK nok ∧ (∀ lit, l = .num lit → nok lit = true)
  | .strop _ p _ => p.numsOK nok
  | .inList p items => p.numsOK nok ∧ ∀ l ∈ items, ItemOK nok l
  | .notInList p items => p.numsOK nok ∧ ∀ l ∈ items, ItemOK nok l
  | .exists p => p.numsOK nok
  | .notExists p => p.numsOK nok
  | .and a b => a.OK nok ∧ b.OK nok
  | .or a b => a.OK nok ∧ b.OK nok
  | .not a => a.OK nok
  | .group a => a.OK nok

/-- fuel that suffices to parse the canonical tokens of an expression -/
def Expr.need : Expr → Nat
  | .cmp _ p _ => p.nsteps + 10
  | .strop _ p _ => p.nsteps + 10
  | .inList p items => p.nsteps + items.length + 10
  | .notInList p items => p.nsteps + items.length + 10
  | .exists p => p.nsteps + 10
  | .notExists p => p.nsteps + 10
  | .and a b => a.need + b.need + 20
  | .or a b => a.need + b.need + 20
  | .not a => a.need + 12
  | .group a => a.need + 12

/-- fuel for the expression as a comparison-level operand (AND and OR chains stand in parentheses there) -/
def Expr.tU : Expr → Nat
  | .and a b => (Expr.and a b).need + 5
  | .or a b => (Expr.or a b).need + 5
  | e => e.need

/-- fuel for the expression as the left spine of an AND chain (an OR chain stands in parentheses there) -/
def Expr.tA : Expr → Nat
  | .or a b => (Expr.or a b).need + 5
  | e => e.need

theorem Expr.tU_le (e : Expr) : e.tU ≤ e.need + 5 := by cases e <;> simp [Expr.tU]
theorem Expr.tA_le (e : Expr) : e.tA ≤ e.need + 5 := by cases e <;> simp [Expr.tA]

def Expr.andDepth : Expr → Nat
  | .and a _ => a.andDepth + 1
  | _ => 0

def Expr.orDepth : Expr → Nat
  | .or a _ => a.orDepth + 1
  | _ => 0

theorem Expr.andDepth_le (e : Expr) : e.andDepth + 10 ≤ e.need := by
  induction e <;> simp [Expr.andDepth, Expr.need] <;> omega

theorem Expr.orDepth_le (e : Expr) : e.orDepth + 10 ≤ e.need := by
  induction e <;> simp [Expr.orDepth, Expr.need] <;> omega

theorem andLoop_stop (toks : List Token) (j : Nat) (l : Node) (f : Nat) (h : (psAt toks j).cur.type ≠ .and) :
    andLoop (listSrc toks) nok (f + 1) l (psAt toks j) = .ok (l, psAt toks j) := by
  conv => lhs; unfold andLoop
  simp [h]

theorem orLoop_stop (toks : List Token) (j : Nat) (l : Node) (f : Nat) (h : (psAt toks j).cur.type ≠ .or) :
    orLoop (listSrc toks) nok (f + 1) l (psAt toks j) = .ok (l, psAt toks j) := by
  conv => lhs; unfold orLoop
  simp [h]

/-- the three levels of the grammar, for one expression and one token list:
    `U` a comparison-level operand, `A` the left spine of an AND chain, `O` the left spine of an OR chain -/
structure Levels (nok : NumOK) (toks : List Token) (e : Expr) : Prop where
  U : ∀ i rest F, toks.drop i = e.toks 2 ++ rest →
      isComparisonOperator (psAt toks (i + (e.toks 2).length)).cur.type = false → e.tU ≤ F →
      parseComparison (listSrc toks) nok F (psAt toks i) = .ok (e.ast, psAt toks (i + (e.toks 2).length))
  A : ∀ i rest F, toks.drop i = e.toks 1 ++ rest →
      isComparisonOperator (psAt toks (i + (e.toks 1).length)).cur.type = false → e.tA ≤ F →
      parseAnd (listSrc toks) nok (F + 1) (psAt toks i) =
        andLoop (listSrc toks) nok (F - e.andDepth) e.ast (psAt toks (i + (e.toks 1).length))
  O : ∀ i rest F, toks.drop i = e.toks 0 ++ rest →
      isComparisonOperator (psAt toks (i + (e.toks 0).length)).cur.type = false →
      (psAt toks (i + (e.toks 0).length)).cur.type ≠ .and → e.need ≤ F →
      parseOr (listSrc toks) nok (F + 2) (psAt toks i) =
        orLoop (listSrc toks) nok (F + 1 - e.orDepth) e.ast (psAt toks (i + (e.toks 0).length))

/-- an operand that is not an AND chain: the AND level is the comparison level -/
theorem A_of_U (toks : List Token) (e : Expr) (h12 : e.toks 1 = e.toks 2) (hd : e.andDepth = 0) (ht : e.tU = e.tA)
    (hU : ∀ i rest F, toks.drop i = e.toks 2 ++ rest →
      isComparisonOperator (psAt toks (i + (e.toks 2).length)).cur.type = false → e.tU ≤ F →
      parseComparison (listSrc toks) nok F (psAt toks i) = .ok (e.ast, psAt toks (i + (e.toks 2).length))) :
    ∀ i rest F, toks.drop i = e.toks 1 ++ rest →
      isComparisonOperator (psAt toks (i + (e.toks 1).length)).cur.type = false → e.tA ≤ F →
      parseAnd (listSrc toks) nok (F + 1) (psAt toks i) =
        andLoop (listSrc toks) nok (F - e.andDepth) e.ast (psAt toks (i + (e.toks 1).length)) := by
  intro i rest F h hf hF
  rw [h12] at h hf ⊢
  conv => lhs; unfold parseAnd
  rw [hU i rest F h hf (by rw [ht]; exact hF), hd]
  rfl

/-- an operand that is not an OR chain: the OR level is the AND level -/
theorem O_of_A (toks : List Token) (e : Expr) (h01 : e.toks 0 = e.toks 1) (hd : e.orDepth = 0) (ht : e.tA = e.need)
    (hA : ∀ i rest F, toks.drop i = e.toks 1 ++ rest →
      isComparisonOperator (psAt toks (i + (e.toks 1).length)).cur.type = false → e.tA ≤ F →
      parseAnd (listSrc toks) nok (F + 1) (psAt toks i) =
        andLoop (listSrc toks) nok (F - e.andDepth) e.ast (psAt toks (i + (e.toks 1).length))) :
    ∀ i rest F, toks.drop i = e.toks 0 ++ rest →
      isComparisonOperator (psAt toks (i + (e.toks 0).length)).cur.type = false →
      (psAt toks (i + (e.toks 0).length)).cur.type ≠ .and → e.need ≤ F →
      parseOr (listSrc toks) nok (F + 2) (psAt toks i) =
        orLoop (listSrc toks) nok (F + 1 - e.orDepth) e.ast (psAt toks (i + (e.toks 0).length)) := by
  intro i rest F h hf hna hF
  rw [h01] at h hf hna ⊢
  conv => lhs; unfold parseOr
  rw [hA i rest F h hf (by rw [ht]; exact hF)]
  have hdl := e.andDepth_le
  obtain ⟨x, hx⟩ : ∃ x, F - e.andDepth = x + 1 := ⟨F - e.andDepth - 1, by omega⟩
  rw [hx, andLoop_stop nok toks _ _ x hna, hd]
  rfl


/-- a parenthesised expression as a primary -/
theorem primary_paren (toks : List Token) (e : Expr)
    (hO : ∀ i rest F, toks.drop i = e.toks 0 ++ rest →
      isComparisonOperator (psAt toks (i + (e.toks 0).length)).cur.type = false →
      (psAt toks (i + (e.toks 0).length)).cur.type ≠ .and → e.need ≤ F →
      parseOr (listSrc toks) nok (F + 2) (psAt toks i) =
        orLoop (listSrc toks) nok (F + 1 - e.orDepth) e.ast (psAt toks (i + (e.toks 0).length)))
    (i : Nat) (rest : List Token) (F : Nat) (h : toks.drop i = lp :: (e.toks 0 ++ (rp :: rest))) (hF : e.need ≤ F) :
    parsePrimary (listSrc toks) nok (F + 3) (psAt toks i) = .ok (e.ast, psAt toks (i + 1 + (e.toks 0).length + 1)) := by
  have hc := cur_of_drop h
  have h1 := drop_succ_of_drop h
  have hj := drop_add_of_drop _ _ h1
  have hcj := cur_of_drop hj
  conv => lhs; unfold parsePrimary
  simp only [hc, lp, tk, advance_psAt]
  rw [hO (i + 1) _ F h1 (by rw [hcj]; rfl) (by rw [hcj]; simp [rp, tk]) hF]
  have hdl := e.orDepth_le
  obtain ⟨x, hx⟩ : ∃ x, F + 1 - e.orDepth = x + 1 := ⟨F - e.orDepth, by omega⟩
  rw [hx, orLoop_stop nok toks _ _ x (by rw [hcj]; simp [rp, tk])]
  simp only [expect, hcj, rp, tk, ↓reduceIte, advance_psAt]

theorem unit_paren (toks : List Token) (e : Expr)
    (hO : ∀ i rest F, toks.drop i = e.toks 0 ++ rest →
      isComparisonOperator (psAt toks (i + (e.toks 0).length)).cur.type = false →
      (psAt toks (i + (e.toks 0).length)).cur.type ≠ .and → e.need ≤ F →
      parseOr (listSrc toks) nok (F + 2) (psAt toks i) =
        orLoop (listSrc toks) nok (F + 1 - e.orDepth) e.ast (psAt toks (i + (e.toks 0).length)))
    (i : Nat) (rest : List Token) (F : Nat) (h : toks.drop i = lp :: (e.toks 0 ++ (rp :: rest))) (hF : e.need ≤ F)
    (hf : isComparisonOperator (psAt toks (i + 1 + (e.toks 0).length + 1)).cur.type = false) :
    parseComparison (listSrc toks) nok (F + 5) (psAt toks i) = .ok (e.ast, psAt toks (i + 1 + (e.toks 0).length + 1)) := by
  have hc := cur_of_drop h
  conv => lhs; unfold parseComparison
  conv => lhs; unfold parseNot
  simp only [hc, lp, tk, reduceCtorEq, ↓reduceIte]
  rw [primary_paren nok toks e hO i rest F h hF]
  simp only [hf, Bool.false_eq_true, ↓reduceIte]

theorem unit_not (toks : List Token) (e : Expr)
    (hO : ∀ i rest F, toks.drop i = e.toks 0 ++ rest →
      isComparisonOperator (psAt toks (i + (e.toks 0).length)).cur.type = false →
      (psAt toks (i + (e.toks 0).length)).cur.type ≠ .and → e.need ≤ F →
      parseOr (listSrc toks) nok (F + 2) (psAt toks i) =
        orLoop (listSrc toks) nok (F + 1 - e.orDepth) e.ast (psAt toks (i + (e.toks 0).length)))
    (i : Nat) (rest : List Token) (F : Nat) (h : toks.drop i = tk .not b!"NOT" :: lp :: (e.toks 0 ++ (rp :: rest))) (hF : e.need ≤ F)
    (hf : isComparisonOperator (psAt toks (i + 1 + 1 + (e.toks 0).length + 1)).cur.type = false) :
    parseComparison (listSrc toks) nok (F + 5) (psAt toks i) = .ok (.not e.ast, psAt toks (i + 1 + 1 + (e.toks 0).length + 1)) := by
  have hc := cur_of_drop h
  have h1 := drop_succ_of_drop h
  conv => lhs; unfold parseComparison
  conv => lhs; unfold parseNot
  simp only [hc, tk, ↓reduceIte, advance_psAt]
  rw [primary_paren nok toks e hO (i + 1) rest F h1 hF]
  simp only [hf, Bool.false_eq_true, ↓reduceIte]


theorem Cmp.tok_isCmp (op : Cmp) : isComparisonOperator op.tok.type = true ∧
    (op.tok.type ≠ .in ∧ op.tok.type ≠ .not ∧ op.tok.type ≠ .leftParen ∧ op.tok.type ≠ .exists ∧
      op.tok.type ≠ .doesNotExist ∧ op.tok.type ≠ .leftBracket ∧ op.tok.type ≠ .dot) ∧ op.tok.lit = op.text := by
  cases op <;> simp [Cmp.tok, tk, isComparisonOperator, Cmp.text]

theorem StrOp.tok_isCmp (op : StrOp) : isComparisonOperator op.tok.type = true ∧
    (op.tok.type ≠ .in ∧ op.tok.type ≠ .not ∧ op.tok.type ≠ .leftParen ∧ op.tok.type ≠ .exists ∧
      op.tok.type ≠ .doesNotExist ∧ op.tok.type ≠ .leftBracket ∧ op.tok.type ≠ .dot) ∧ op.tok.lit = op.text := by
  cases op <;> simp [StrOp.tok, tk, isComparisonOperator, StrOp.text]

/-- lifting a comparison-level result to the three levels for an operand that is neither an AND nor an OR chain -/
theorem levels_of_unit (toks : List Token) (e : Expr) (h12 : e.toks 1 = e.toks 2) (h01 : e.toks 0 = e.toks 1)
    (hda : e.andDepth = 0) (hdo : e.orDepth = 0) (ht1 : e.tU = e.tA) (ht2 : e.tA = e.need)
    (hU : ∀ i rest F, toks.drop i = e.toks 2 ++ rest →
      isComparisonOperator (psAt toks (i + (e.toks 2).length)).cur.type = false → e.tU ≤ F →
      parseComparison (listSrc toks) nok F (psAt toks i) = .ok (e.ast, psAt toks (i + (e.toks 2).length))) :
    Levels nok toks e :=
  ⟨hU, A_of_U nok toks e h12 hda ht1 hU, O_of_A nok toks e h01 hdo ht2 (A_of_U nok toks e h12 hda ht1 hU)⟩

/-- **the parser builds `e.ast` from the canonical tokens of `e`**, at each of the three precedence levels -/
theorem levels (toks : List Token) (e : Expr) (he : e.OK nok) : Levels nok toks e := by
  induction e with
  | cmp op p l =>
    obtain ⟨hp, hl⟩ := he
    obtain ⟨h1, h2, h3⟩ := op.tok_isCmp
    apply levels_of_unit nok toks _ rfl rfl rfl rfl rfl rfl
    intro i rest F h _ hF
    simp only [Expr.toks, List.append_assoc, List.cons_append, List.nil_append] at h
    simp only [Expr.tU, Expr.need] at hF
    obtain ⟨g, rfl⟩ : ∃ g, F = g + 9 + p.nsteps := ⟨F - 9 - p.nsteps, by omega⟩
    rw [unit_cmp nok p hp op.tok h1 h2 l hl toks i rest g h, h3]
    have hlen : i + (Expr.toks 2 (Expr.cmp op p l)).length = i + p.toks.length + 2 := by simp [Expr.toks]; omega
    rw [hlen]; rfl
  | strop op p s =>
    obtain ⟨h1, h2, h3⟩ := op.tok_isCmp
    apply levels_of_unit nok toks _ rfl rfl rfl rfl rfl rfl
    intro i rest F h _ hF
    simp only [Expr.toks, List.append_assoc, List.cons_append, List.nil_append] at h
    simp only [Expr.tU, Expr.need] at hF
    obtain ⟨g, rfl⟩ : ∃ g, F = g + 9 + p.nsteps := ⟨F - 9 - p.nsteps, by omega⟩
    rw [unit_cmp nok p he op.tok h1 h2 (.str s) (by intro lit h; cases h) toks i rest g (by simpa [Lit.tok] using h), h3]
    have hlen : i + (Expr.toks 2 (Expr.strop op p s)).length = i + p.toks.length + 2 := by simp [Expr.toks]; omega
    rw [hlen]; rfl
  | inList p items =>
    obtain ⟨hp, hi⟩ := he
    apply levels_of_unit nok toks _ rfl rfl rfl rfl rfl rfl
    intro i rest F h hf hF
    simp only [Expr.toks, List.append_assoc, List.cons_append, List.nil_append] at h
    simp only [Expr.tU, Expr.need] at hF
    obtain ⟨g, rfl⟩ : ∃ g, F = g + items.length + 9 + p.nsteps := ⟨F - items.length - 9 - p.nsteps, by omega⟩
    have hlen : i + (Expr.toks 2 (Expr.inList p items)).length =
        i + p.toks.length + 1 + 1 + (itemsToks items).length + 1 := by
      simp [Expr.toks]; omega
    rw [hlen] at hf ⊢
    exact unit_in nok p hp items hi toks i rest g false (by simpa using h) (by simpa using hf)
  | notInList p items =>
    obtain ⟨hp, hi⟩ := he
    apply levels_of_unit nok toks _ rfl rfl rfl rfl rfl rfl
    intro i rest F h hf hF
    simp only [Expr.toks, List.append_assoc, List.cons_append, List.nil_append] at h
    simp only [Expr.tU, Expr.need] at hF
    obtain ⟨g, rfl⟩ : ∃ g, F = g + items.length + 9 + p.nsteps := ⟨F - items.length - 9 - p.nsteps, by omega⟩
    have hlen : i + (Expr.toks 2 (Expr.notInList p items)).length =
        i + p.toks.length + 2 + 1 + (itemsToks items).length + 1 := by
      simp [Expr.toks]; omega
    rw [hlen] at hf ⊢
    exact unit_in nok p hp items hi toks i rest g true (by simpa using h) (by simpa using hf)
  | «exists» p =>
    apply levels_of_unit nok toks _ rfl rfl rfl rfl rfl rfl
    intro i rest F h hf hF
    simp only [Expr.toks, List.append_assoc, List.cons_append, List.nil_append] at h
    simp only [Expr.tU, Expr.need] at hF
    obtain ⟨g, rfl⟩ : ∃ g, F = g + 9 + p.nsteps := ⟨F - 9 - p.nsteps, by omega⟩
    have hlen : i + (Expr.toks 2 (Expr.exists p)).length = i + p.toks.length + 1 := by simp [Expr.toks]; omega
    rw [hlen] at hf ⊢
    exact unit_exists nok p he toks i rest g false (by simpa using h) hf
  | notExists p =>
    apply levels_of_unit nok toks _ rfl rfl rfl rfl rfl rfl
    intro i rest F h hf hF
    simp only [Expr.toks, List.append_assoc, List.cons_append, List.nil_append] at h
    simp only [Expr.tU, Expr.need] at hF
    obtain ⟨g, rfl⟩ : ∃ g, F = g + 9 + p.nsteps := ⟨F - 9 - p.nsteps, by omega⟩
    have hlen : i + (Expr.toks 2 (Expr.notExists p)).length = i + p.toks.length + 1 := by simp [Expr.toks]; omega
    rw [hlen] at hf ⊢
    exact unit_exists nok p he toks i rest g true (by simpa using h) hf
  | not a ih =>
    have La := ih he
    apply levels_of_unit nok toks _ rfl rfl rfl rfl rfl rfl
    intro i rest F h hf hF
    simp only [Expr.toks, List.append_assoc, List.cons_append, List.nil_append] at h
    simp only [Expr.tU, Expr.need] at hF
    obtain ⟨g, rfl⟩ : ∃ g, F = g + 5 := ⟨F - 5, by omega⟩
    have hlen : i + (Expr.toks 2 (Expr.not a)).length = i + 1 + 1 + (a.toks 0).length + 1 := by simp [Expr.toks]; omega
    rw [hlen] at hf ⊢
    exact unit_not nok toks a La.O i rest g h (by omega) hf
  | group a ih =>
    have La := ih he
    apply levels_of_unit nok toks _ rfl rfl rfl rfl rfl rfl
    intro i rest F h hf hF
    simp only [Expr.toks, List.append_assoc, List.cons_append, List.nil_append] at h
    simp only [Expr.tU, Expr.need] at hF
    obtain ⟨g, rfl⟩ : ∃ g, F = g + 5 := ⟨F - 5, by omega⟩
    have hlen : i + (Expr.toks 2 (Expr.group a)).length = i + 1 + (a.toks 0).length + 1 := by simp [Expr.toks]; omega
    rw [hlen] at hf ⊢
    exact unit_paren nok toks a La.O i rest g h (by omega) hf
  | and a b iha ihb =>
    obtain ⟨ha, hb⟩ := he
    have La := iha ha
    have Lb := ihb hb
    -- the AND chain
    have hA : ∀ i rest F, toks.drop i = (Expr.and a b).toks 1 ++ rest →
        isComparisonOperator (psAt toks (i + ((Expr.and a b).toks 1).length)).cur.type = false → (Expr.and a b).tA ≤ F →
        parseAnd (listSrc toks) nok (F + 1) (psAt toks i) =
          andLoop (listSrc toks) nok (F - (Expr.and a b).andDepth) (Expr.and a b).ast (psAt toks (i + ((Expr.and a b).toks 1).length)) := by
      intro i rest F h hf hF
      have ht : (Expr.and a b).toks 1 = a.toks 1 ++ (tk .and b!"AND" :: b.toks 2) := by simp [Expr.toks, paren]
      rw [ht] at h hf ⊢
      have hpos : i + (a.toks 1 ++ tk TokType.and b!"AND" :: b.toks 2).length = i + (a.toks 1).length + 1 + (b.toks 2).length := by
        simp; omega
      rw [hpos] at hf ⊢
      simp only [List.append_assoc, List.cons_append] at h
      simp only [Expr.tA, Expr.need] at hF
      have hta := a.tA_le
      have htb := b.tU_le
      have hja := drop_add_of_drop _ _ h
      have hca := cur_of_drop hja
      rw [La.A i _ F h (by rw [hca]; rfl) (by omega)]
      have hda := a.andDepth_le
      obtain ⟨x, hx⟩ : ∃ x, F - a.andDepth = x + 1 := ⟨F - a.andDepth - 1, by omega⟩
      rw [hx]
      conv => lhs; unfold andLoop
      simp only [hca, tk, ↓reduceIte, advance_psAt]
      have hjb := drop_succ_of_drop hja
      rw [Lb.U (i + (a.toks 1).length + 1) rest x hjb hf (by omega)]
      simp only [Expr.andDepth, Expr.ast]
      congr 1
      omega
    have h01 : (Expr.and a b).toks 0 = (Expr.and a b).toks 1 := by simp [Expr.toks, paren]
    have hO := O_of_A nok toks (Expr.and a b) h01 rfl rfl hA
    refine ⟨?_, hA, hO⟩
    intro i rest F h hf hF
    have ht : (Expr.and a b).toks 2 = lp :: ((Expr.and a b).toks 0 ++ [rp]) := by simp [Expr.toks, paren]
    rw [ht] at h hf ⊢
    simp only [List.cons_append, List.append_assoc, List.singleton_append] at h
    obtain ⟨g, rfl⟩ : ∃ g, F = g + 5 := ⟨F - 5, by simp only [Expr.tU, Expr.need] at hF; omega⟩
    have hlen : i + (lp :: ((Expr.and a b).toks 0 ++ [rp])).length = i + 1 + ((Expr.and a b).toks 0).length + 1 := by
      simp; omega
    rw [hlen] at hf ⊢
    exact unit_paren nok toks _ hO i rest g h (by simp only [Expr.tU, Expr.need] at hF ⊢; omega) hf
  | or a b iha ihb =>
    obtain ⟨ha, hb⟩ := he
    have La := iha ha
    have Lb := ihb hb
    have hO : ∀ i rest F, toks.drop i = (Expr.or a b).toks 0 ++ rest →
        isComparisonOperator (psAt toks (i + ((Expr.or a b).toks 0).length)).cur.type = false →
        (psAt toks (i + ((Expr.or a b).toks 0).length)).cur.type ≠ .and → (Expr.or a b).need ≤ F →
        parseOr (listSrc toks) nok (F + 2) (psAt toks i) =
          orLoop (listSrc toks) nok (F + 1 - (Expr.or a b).orDepth) (Expr.or a b).ast (psAt toks (i + ((Expr.or a b).toks 0).length)) := by
      intro i rest F h hf hna hF
      have ht : (Expr.or a b).toks 0 = a.toks 0 ++ (tk .or b!"OR" :: b.toks 1) := by simp [Expr.toks, paren]
      rw [ht] at h hf hna ⊢
      have hpos : i + (a.toks 0 ++ tk TokType.or b!"OR" :: b.toks 1).length = i + (a.toks 0).length + 1 + (b.toks 1).length := by
        simp; omega
      rw [hpos] at hf hna ⊢
      simp only [List.append_assoc, List.cons_append] at h
      simp only [Expr.need] at hF
      have htb := b.tA_le
      have hja := drop_add_of_drop _ _ h
      have hca := cur_of_drop hja
      rw [La.O i _ F h (by rw [hca]; rfl) (by rw [hca]; simp [tk]) (by omega)]
      have hda := a.orDepth_le
      obtain ⟨x, hx⟩ : ∃ x, F + 1 - a.orDepth = x + 1 := ⟨F - a.orDepth, by omega⟩
      rw [hx]
      conv => lhs; unfold orLoop
      simp only [hca, tk, ↓reduceIte, advance_psAt]
      have hjb := drop_succ_of_drop hja
      obtain ⟨y, hy⟩ : ∃ y, x = y + 1 := ⟨x - 1, by omega⟩
      rw [hy, Lb.A (i + (a.toks 0).length + 1) rest y hjb hf (by omega)]
      have hdb := b.andDepth_le
      obtain ⟨z, hz⟩ : ∃ z, y - b.andDepth = z + 1 := ⟨y - b.andDepth - 1, by omega⟩
      rw [hz, andLoop_stop nok toks _ _ z hna]
      simp only [Expr.orDepth, Expr.ast]
      congr 1
      omega
    have hU : ∀ i rest F, toks.drop i = (Expr.or a b).toks 2 ++ rest →
        isComparisonOperator (psAt toks (i + ((Expr.or a b).toks 2).length)).cur.type = false → (Expr.or a b).tU ≤ F →
        parseComparison (listSrc toks) nok F (psAt toks i) = .ok ((Expr.or a b).ast, psAt toks (i + ((Expr.or a b).toks 2).length)) := by
      intro i rest F h hf hF
      have ht : (Expr.or a b).toks 2 = lp :: ((Expr.or a b).toks 0 ++ [rp]) := by simp [Expr.toks, paren]
      rw [ht] at h hf ⊢
      simp only [List.cons_append, List.append_assoc, List.singleton_append] at h
      obtain ⟨g, rfl⟩ : ∃ g, F = g + 5 := ⟨F - 5, by simp only [Expr.tU, Expr.need] at hF; omega⟩
      have hlen : i + (lp :: ((Expr.or a b).toks 0 ++ [rp])).length = i + 1 + ((Expr.or a b).toks 0).length + 1 := by
        simp; omega
      rw [hlen] at hf ⊢
      exact unit_paren nok toks _ hO i rest g h (by simp only [Expr.tU, Expr.need] at hF ⊢; omega) hf
    have h12 : (Expr.or a b).toks 1 = (Expr.or a b).toks 2 := by simp [Expr.toks, paren]
    exact ⟨hU, A_of_U nok toks _ h12 rfl rfl hU, hO⟩


theorem psAt_end (toks : List Token) : (psAt toks (0 + toks.length)).cur = eofTok := by
  simp [psAt]

/-- **the parser, run on the canonical tokens of an expression, returns the documented tree** — for every
    expression of the documented language (any nesting, any mix of AND / OR / NOT, any paths and lists),
    with parentheses only where precedence requires them, and the whole token sequence is consumed -/
theorem parse_canonical (e : Expr) (he : e.OK nok) (fuel : Nat) (hf : e.need + 2 ≤ fuel) :
    parseSrc (listSrc (e.toks 0)) nok fuel = .ok e.ast := by
  obtain ⟨F, rfl⟩ : ∃ F, fuel = F + 2 := ⟨fuel - 2, by omega⟩
  have L := levels nok (e.toks 0) e he
  have hend := psAt_end (e.toks 0)
  have hO := L.O 0 [] F (by simp) (by rw [hend]; rfl) (by rw [hend]; simp [eofTok]) (by omega)
  have hdl := e.orDepth_le
  obtain ⟨x, hx⟩ : ∃ x, F + 1 - e.orDepth = x + 1 := ⟨F - e.orDepth, by omega⟩
  rw [hx, orLoop_stop nok _ _ _ x (by rw [hend]; simp [eofTok])] at hO
  unfold parseSrc
  rw [newParser_listSrc]
  simp only [hO, hend, eofTok, ↓reduceIte]

/-- AND binds tighter than OR: `x OR y AND z` (no parentheses) is the canonical text of `x OR (y AND z)`,
    and `(x OR y) AND z` needs its parentheses -/
theorem and_binds_tighter (x y z : Expr) :
    (Expr.or x (Expr.and y z)).toks 0 = x.toks 0 ++ [tk .or b!"OR"] ++ (y.toks 1 ++ [tk .and b!"AND"] ++ z.toks 2) ∧
    (Expr.and (Expr.or x y) z).toks 0 =
      (lp :: ((x.toks 0 ++ [tk .or b!"OR"] ++ y.toks 1) ++ [rp])) ++ [tk .and b!"AND"] ++ z.toks 2 := by
  simp [Expr.toks, paren]

/-- both chains associate to the left: `x AND y AND z` is `(x AND y) AND z`, `x OR y OR z` is `(x OR y) OR z` -/
theorem chains_associate_left (x y z : Expr) :
    (Expr.and (Expr.and x y) z).toks 0 = x.toks 1 ++ [tk .and b!"AND"] ++ y.toks 2 ++ [tk .and b!"AND"] ++ z.toks 2 ∧
    (Expr.or (Expr.or x y) z).toks 0 = x.toks 0 ++ [tk .or b!"OR"] ++ y.toks 1 ++ [tk .or b!"OR"] ++ z.toks 1 := by
  simp [Expr.toks, paren]


/-- **text behind a complete expression is rejected**: the canonical tokens of any expression followed by
    a token that cannot continue it (not AND, OR or a comparison operator — a literal, an identifier, a
    closing bracket, a comma, ...) and anything after that are refused with "unexpected token after
    expression"; nothing is dropped silently -/
theorem trailing_rejected (e : Expr) (he : e.OK nok) (j : Token) (J : List Token)
    (hj : isComparisonOperator j.type = false) (hand : j.type ≠ .and) (hor : j.type ≠ .or) (heof : j.type ≠ .eof)
    (fuel : Nat) (hf : e.need + 2 ≤ fuel) :
    parseSrc (listSrc (e.toks 0 ++ j :: J)) nok fuel = .err "unexpected token after expression" := by
  obtain ⟨F, rfl⟩ : ∃ F, fuel = F + 2 := ⟨fuel - 2, by omega⟩
  have L := levels nok (e.toks 0 ++ j :: J) e he
  have hdrop : (e.toks 0 ++ j :: J).drop (0 + (e.toks 0).length) = j :: J := by simp
  have hc := cur_of_drop hdrop
  have hO := L.O 0 (j :: J) F (by simp) (by rw [hc]; exact hj) (by rw [hc]; exact hand) (by omega)
  have hdl := e.orDepth_le
  obtain ⟨x, hx⟩ : ∃ x, F + 1 - e.orDepth = x + 1 := ⟨F - e.orDepth, by omega⟩
  rw [hx, orLoop_stop nok _ _ _ x (by rw [hc]; exact hor)] at hO
  unfold parseSrc
  rw [newParser_listSrc]
  simp only [hO, hc, heof, ↓reduceIte]

end Syzgy.Query
