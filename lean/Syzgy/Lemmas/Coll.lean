import Syzgy.Lemmas.Refine
import Syzgy.Lemmas.Pack
import Syzgy.Model.Collection
/-!
# The document layer refines a finite map from ids to documents

`AddDocument`, `UpdateDocument`, `removeDocument`, `GetDocument` on top of the span file: record ids are
the decimal renderings of the document ids, a document is two streams (metadata, packed codes).
-/
namespace Syzgy

/-! ## decimal record ids -/

def decVal (b : Bytes) : Nat := b.foldl (fun v c => v * 10 + (c.toNat - 48)) 0

theorem decVal_foldl (l : Bytes) (a : Nat) :
    l.foldl (fun v c => v * 10 + (c.toNat - 48)) a = a * 10 ^ l.length + decVal l := by
  induction l generalizing a with
  | nil => simp [decVal]
  | cons x xs ih =>
    simp only [List.foldl_cons, List.length_cons, decVal]
    rw [ih, ih (0 * 10 + (x.toNat - 48))]
    simp only [Nat.zero_mul, Nat.zero_add, Nat.pow_succ]
    rw [Nat.add_mul, Nat.mul_assoc, Nat.mul_comm 10, Nat.add_assoc]

theorem decVal_cons (x : UInt8) (l : Bytes) : decVal (x :: l) = (x.toNat - 48) * 10 ^ l.length + decVal l := by
  simp only [decVal, List.foldl_cons, Nat.zero_mul, Nat.zero_add]
  exact decVal_foldl l _

theorem digit_val (d : Nat) (h : d < 10) : ((48 + d).toUInt8).toNat - 48 = d := by
  rw [toUInt8_toNat]; omega

theorem digitsAux_val (fuel n : Nat) (acc : Bytes) (h : n < fuel) :
    decVal (digitsAux fuel n acc) = n * 10 ^ acc.length + decVal acc := by
  induction fuel generalizing n acc with
  | zero => omega
  | succ f ih =>
    simp only [digitsAux]
    split
    · rename_i h0
      rw [decVal_cons, digit_val _ (Nat.mod_lt _ (by decide))]
      have : n % 10 = n := by omega
      rw [this]
    · rename_i h0
      have hlt : n / 10 < f := by omega
      rw [ih (n / 10) _ hlt, decVal_cons, digit_val _ (Nat.mod_lt _ (by decide))]
      simp only [List.length_cons, Nat.pow_succ]
      have := Nat.div_add_mod n 10
      calc n / 10 * (10 ^ acc.length * 10) + (n % 10 * 10 ^ acc.length + decVal acc)
          = (10 * (n / 10) + n % 10) * 10 ^ acc.length + decVal acc := by
            rw [Nat.add_mul, Nat.mul_comm 10 (n / 10), Nat.mul_assoc, Nat.mul_comm 10 (10 ^ acc.length), Nat.add_assoc]
        _ = n * 10 ^ acc.length + decVal acc := by rw [this]

theorem decVal_ridOf (id : Nat) : decVal (ridOf id) = id := by
  have := digitsAux_val (id + 1) id [] (by omega)
  simpa [ridOf, decVal] using this

theorem ridOf_inj {a b : Nat} (h : ridOf a = ridOf b) : a = b := by
  have := congrArg decVal h
  rwa [decVal_ridOf, decVal_ridOf] at this

theorem digitsAux_ne_nil (fuel n : Nat) (acc : Bytes) (hf : 0 < fuel) : digitsAux fuel n acc ≠ [] := by
  induction fuel generalizing n acc with
  | zero => omega
  | succ f ih =>
    simp only [digitsAux]
    split
    · simp
    · rename_i h0
      cases f with
      | zero => simp [digitsAux]
      | succ f' => exact ih _ _ (by omega)

theorem ridOf_ne_nil (id : Nat) : ridOf id ≠ [] := digitsAux_ne_nil _ _ _ (by omega)


/-! ## documents -/

/-- the two data streams of a stored document -/
def docStreams (quant : Nat) (d : Doc) : List Stream :=
  [{ id := 0, data := d.md }, { id := 1, data := encodeCodes quant d.codes }]

/-- the abstract document store -/
abbrev DocStore := Nat → Option Doc

def Supported (quant : Nat) : Prop := quant = 4 ∨ quant = 8 ∨ quant = 16 ∨ quant = 32 ∨ quant = 64

/-- a document the collection can hold: right dimension, codes within the quantization width -/
def DocOK (cfg : Cfg) (d : Doc) : Prop := d.codes.length = cfg.dim ∧ ∀ x ∈ d.codes, x < 2 ^ cfg.quant

/-- **representation invariant of a collection**: the span file satisfies its invariant and the record
    stored under the decimal rendering of each id is exactly the two streams of that document -/
structure CRep (c : Coll) (segs : List Seg) (docs : DocStore) : Prop where
  rep : Rep c.sf segs
  supported : Supported c.cfg.quant
  ok : ∀ id d, docs id = some d → DocOK c.cfg d
  stored : ∀ id, docOf (ridOf id) segs = (docs id).map (docStreams c.cfg.quant)

/-- **GetDocument** returns exactly the document stored under the id (metadata bytes and codes), or
    "record not found" -/
theorem get_refines (c : Coll) (segs : List Seg) (docs : DocStore) (h : CRep c segs docs) (id : Nat) :
    getDocument c id = match docs id with
      | none => .err "record not found"
      | some d => .ok d := by
  have hr := read_refines c.sf segs h.rep (ridOf id)
  have hs := h.stored id
  cases hd : docs id with
  | none =>
    rw [hd] at hs
    simp only [getDocument, hr.1 hs]
  | some d =>
    rw [hd] at hs
    obtain ⟨sp, e1, _, e3⟩ := hr.2 _ hs
    obtain ⟨hlen, hcodes⟩ := h.ok id d hd
    simp only [getDocument, e1, e3, Option.map_some, docStreams]
    have := decode_encode c.cfg.quant h.supported d.codes hcodes []
    rw [List.append_nil, hlen] at this
    rw [this]

theorem docStreams_newOK (seq : Nat) (hs : seq < 4294967296) (quant : Nat) (d : Doc) (id : Nat)
    (hsize : (Seg.act seq (ridOf id) (docStreams quant d) 0).size + minSpanLength < 4294967296) :
    NewOK seq (ridOf id) (docStreams quant d) := by
  have hbody : (spanBody seq (ridOf id) (docStreams quant d)).length < 4294967296 := by
    simp only [Seg.size] at hsize; omega
  have hb : (spanBody seq (ridOf id) (docStreams quant d)).length =
      len7 seq + len7 (ridOf id).length + (ridOf id).length + 1 +
        ((1 + len7 d.md.length + d.md.length) +
         ((1 + len7 (encodeCodes quant d.codes).length + (encodeCodes quant d.codes).length) + 0)) := by
    simp [spanBody_length, docStreams, streamLen]
  refine ⟨hs, ?_, by simp [docStreams], ?_, hsize⟩
  · omega
  · intro s hsm
    simp only [docStreams, List.mem_cons, List.not_mem_nil, or_false] at hsm
    rcases hsm with rfl | rfl
    · exact ⟨by simp, by simp only; omega⟩
    · exact ⟨by simp, by simp only; omega⟩

/-- what fits: the record of the document (and the file after the growth it may cause) fits 32-bit lengths -/
def DocFits (c : Coll) (id : Nat) (d : Doc) : Prop :=
  (Seg.act c.sf.seq (ridOf id) (docStreams c.cfg.quant d) 0).size + minSpanLength < 4294967296 ∧
  c.sf.file.length + expandBy c.sf.file.length (Seg.act c.sf.seq (ridOf id) (docStreams c.cfg.quant d) 0).size < 4294967296

theorem getVectorSize_supported (quant dim : Nat) (h : Supported quant) : ∃ n, getVectorSize quant dim = some n := by
  rcases h with rfl | rfl | rfl | rfl | rfl <;> simp [getVectorSize]

/-- **AddDocument** (new id or overwrite) binds the id to exactly the document given and leaves every
    other document as it was -/
theorem add_refines (c : Coll) (segs : List Seg) (docs : DocStore) (h : CRep c segs docs) (id : Nat) (d : Doc)
    (hd : DocOK c.cfg d) (hf : DocFits c id d) :
    ∃ c' m segs', addDocument c id d.codes d.md = .ok (c', m) ∧ c'.cfg = c.cfg ∧
      CRep c' segs' (fun i => if i = id then some d else docs i) := by
  have hnew := docStreams_newOK c.sf.seq h.rep.seq c.cfg.quant d id hf.1
  obtain ⟨n, hn⟩ := getVectorSize_supported c.cfg.quant d.codes.length h.supported
  have hstep : ∃ m segs', writeRecord c.sf (ridOf id) (docStreams c.cfg.quant d) = .ok m ∧ Rep m.st segs' ∧
      (∀ r, docOf r segs' = if r = ridOf id then some (docStreams c.cfg.quant d) else docOf r segs) := by
    by_cases hfresh : docOf (ridOf id) segs = none
    · obtain ⟨m, segs', h1, h2, h3, _⟩ := write_fresh c.sf segs h.rep _ _ hnew hf.2 hfresh
      exact ⟨m, segs', h1, h2, h3⟩
    · obtain ⟨m, segs', _, h1, h2, h3, _⟩ := write_over c.sf segs h.rep _ _ hnew hf.2 hfresh
      exact ⟨m, segs', h1, h2, h3⟩
  obtain ⟨m, segs', h1, h2, h3⟩ := hstep
  refine ⟨{ c with sf := m.st }, m, segs', ?_, rfl, ?_⟩
  · rw [hd.1] at hn
    simp only [addDocument, hd.1, ne_eq, not_true_eq_false, ↓reduceIte, hn]
    simp only [docStreams] at h1
    rw [h1]
  · refine ⟨h2, h.supported, ?_, ?_⟩
    · intro i d' hi
      split at hi
      · cases hi; exact hd
      · exact h.ok i d' hi
    · intro i
      rw [h3 (ridOf i)]
      by_cases hi : i = id
      · subst hi; simp
      · have : ridOf i ≠ ridOf id := fun e => hi (ridOf_inj e)
        simp only [this, hi, ↓reduceIte]
        exact h.stored i

/-- **removeDocument** unbinds the id, or answers "record not found" and changes nothing -/
theorem removeDoc_refines (c : Coll) (segs : List Seg) (docs : DocStore) (h : CRep c segs docs) (id : Nat) :
    (docs id = none → removeDocument c id = .err "record not found") ∧
    (docs id ≠ none → ∃ c' m segs', removeDocument c id = .ok (c', m) ∧ c'.cfg = c.cfg ∧
      CRep c' segs' (fun i => if i = id then none else docs i)) := by
  have hs := h.stored id
  constructor
  · intro hd
    rw [hd] at hs
    simp only [removeDocument, (remove_refines c.sf segs h.rep (ridOf id)).1 hs]
  · intro hd
    have hne : docOf (ridOf id) segs ≠ none := by
      rw [hs]; cases hx : docs id with
      | none => exact absurd hx hd
      | some d => simp
    obtain ⟨m, segs', h1, h2, h3, _⟩ := (remove_refines c.sf segs h.rep (ridOf id)).2 hne
    refine ⟨{ c with sf := m.st }, m, segs', by simp only [removeDocument, h1], rfl, ⟨h2, h.supported, ?_, ?_⟩⟩
    · intro i d' hi
      split at hi
      · cases hi
      · exact h.ok i d' hi
    · intro i
      rw [h3 (ridOf i)]
      by_cases hi : i = id
      · subst hi; simp
      · have : ridOf i ≠ ridOf id := fun e => hi (ridOf_inj e)
        simp only [this, hi, ↓reduceIte]
        exact h.stored i


/-- **UpdateDocument** replaces the metadata and keeps the stored codes, or answers "record not found" -/
theorem update_refines (c : Coll) (segs : List Seg) (docs : DocStore) (h : CRep c segs docs) (id : Nat) (md : Bytes) :
    (docs id = none → updateDocument c id md = .err "record not found") ∧
    (∀ d, docs id = some d → DocFits c id { d with md := md } →
      ∃ c' m segs', updateDocument c id md = .ok (c', m) ∧ c'.cfg = c.cfg ∧
        CRep c' segs' (fun i => if i = id then some { d with md := md } else docs i)) := by
  have hr := read_refines c.sf segs h.rep (ridOf id)
  have hs := h.stored id
  constructor
  · intro hd
    rw [hd] at hs
    simp only [updateDocument, hr.1 hs]
  · intro d hd hf
    rw [hd] at hs
    obtain ⟨sp, e1, _, e3⟩ := hr.2 _ hs
    have hok : DocOK c.cfg { d with md := md } := h.ok id d hd
    obtain ⟨c', m, segs', ha, hcfg, hrep⟩ := add_refines c segs docs h id { d with md := md } hok hf
    refine ⟨c', m, segs', ?_, hcfg, hrep⟩
    simp only [updateDocument, e1, e3, Option.map_some, docStreams]
    simp only [addDocument, hok.1, ne_eq, not_true_eq_false, ↓reduceIte] at ha
    obtain ⟨n, hn⟩ := getVectorSize_supported c.cfg.quant c.cfg.dim h.supported
    simp only [hn] at ha
    cases hw : writeRecord c.sf (ridOf id) [{ id := 0, data := md }, { id := 1, data := encodeCodes c.cfg.quant d.codes }] with
    | ok m' =>
      rw [hw] at ha
      simp only [Outcome.ok.injEq, Prod.mk.injEq] at ha
      obtain ⟨ha1, ha2⟩ := ha
      subst ha2
      rw [← ha1]
    | err e => rw [hw] at ha; cases ha
    | panic e => rw [hw] at ha; cases ha

/-! ## operation sequences on documents -/

inductive DocOp where
  | add (id : Nat) (d : Doc)
  | update (id : Nat) (md : Bytes)
  | remove (id : Nat)

def docSpec (m : DocStore) : DocOp → DocStore
  | .add id d => fun i => if i = id then some d else m i
  | .update id md => fun i => if i = id then (m id).map (fun d => { d with md := md }) else m i
  | .remove id => fun i => if i = id then none else m i

def docStep (c : Coll) : DocOp → Outcome (Coll × Mut)
  | .add id d => addDocument c id d.codes d.md
  | .update id md => updateDocument c id md
  | .remove id => removeDocument c id

def applyDocOp (c : Coll) (op : DocOp) : Coll :=
  match docStep c op with
  | .ok (c', _) => c'
  | _ => c

/-- preconditions of an operation: `AddDocument` is given a vector of the collection's dimension whose
    codes fit the quantization width (the caller-side checks of the API), and the format's size limits -/
def DocOpFits (c : Coll) (m : DocStore) : DocOp → Prop
  | .add id d => DocOK c.cfg d ∧ DocFits c id d
  | .update id md => ∀ d, m id = some d → DocFits c id { d with md := md }
  | .remove _ => True

def DocFitsAll : Coll → DocStore → List DocOp → Prop
  | _, _, [] => True
  | c, m, op :: ops => DocOpFits c m op ∧ DocFitsAll (applyDocOp c op) (docSpec m op) ops

theorem docStep_refines (c : Coll) (segs : List Seg) (docs : DocStore) (h : CRep c segs docs) (op : DocOp)
    (hf : DocOpFits c docs op) :
    ∃ segs', CRep (applyDocOp c op) segs' (docSpec docs op) ∧ (applyDocOp c op).cfg = c.cfg := by
  cases op with
  | add id d =>
    obtain ⟨c', m, segs', h1, h2, h3⟩ := add_refines c segs docs h id d hf.1 hf.2
    exact ⟨segs', by simpa [applyDocOp, docStep, h1, docSpec] using h3, by simp [applyDocOp, docStep, h1, h2]⟩
  | update id md =>
    cases hd : docs id with
    | none =>
      have := (update_refines c segs docs h id md).1 hd
      refine ⟨segs, ?_, by simp [applyDocOp, docStep, this]⟩
      have e : docSpec docs (.update id md) = docs := by
        funext i; simp only [docSpec]; split
        · rename_i hi; subst hi; simp [hd]
        · rfl
      simpa [applyDocOp, docStep, this, e] using h
    | some d =>
      obtain ⟨c', m, segs', h1, h2, h3⟩ := (update_refines c segs docs h id md).2 d hd (hf d hd)
      refine ⟨segs', ?_, by simp [applyDocOp, docStep, h1, h2]⟩
      have e : docSpec docs (.update id md) = fun i => if i = id then some { d with md := md } else docs i := by
        funext i; simp only [docSpec]; split
        · simp [hd]
        · rfl
      simpa [applyDocOp, docStep, h1, e] using h3
  | remove id =>
    cases hd : docs id with
    | none =>
      have := (removeDoc_refines c segs docs h id).1 hd
      refine ⟨segs, ?_, by simp [applyDocOp, docStep, this]⟩
      have e : docSpec docs (.remove id) = docs := by
        funext i; simp only [docSpec]; split
        · rename_i hi; subst hi; simp [hd]
        · rfl
      simpa [applyDocOp, docStep, this, e] using h
    | some d =>
      obtain ⟨c', m, segs', h1, h2, h3⟩ := (removeDoc_refines c segs docs h id).2 (by simp [hd])
      exact ⟨segs', by simpa [applyDocOp, docStep, h1, docSpec] using h3, by simp [applyDocOp, docStep, h1, h2]⟩

/-- **every sequence of document operations**: the collection stands for the fold of the specification -/
theorem doc_run_refines (ops : List DocOp) (c : Coll) (segs : List Seg) (docs : DocStore) (h : CRep c segs docs)
    (hf : DocFitsAll c docs ops) :
    ∃ segs', CRep (ops.foldl applyDocOp c) segs' (ops.foldl docSpec docs) := by
  induction ops generalizing c segs docs with
  | nil => exact ⟨segs, h⟩
  | cons op ops ih =>
    obtain ⟨hf1, hf2⟩ := hf
    obtain ⟨segs', h1, _⟩ := docStep_refines c segs docs h op hf1
    exact ih _ segs' _ h1 hf2

/-- `GetDocument` after any sequence of operations returns the document the specification holds -/
theorem get_after_run (ops : List DocOp) (c : Coll) (segs : List Seg) (docs : DocStore) (h : CRep c segs docs)
    (hf : DocFitsAll c docs ops) (id : Nat) :
    getDocument (ops.foldl applyDocOp c) id = match ops.foldl docSpec docs id with
      | none => .err "record not found"
      | some d => .ok d := by
  obtain ⟨segs', h1⟩ := doc_run_refines ops c segs docs h hf
  exact get_refines _ segs' _ h1 id


/-- **a newly created collection** satisfies the invariant and holds no document -/
theorem new_collection_rep (name : Bytes) (opts : Cfg) (hq : Supported opts.quant)
    (hm : opts.metric = 0 ∨ opts.metric = 1) (hlen : (encodeOpts name opts).length < 1000000000) :
    ∃ c segs, newCollection none name opts .createIfNotExists = .ok c ∧ c.cfg = opts ∧ CRep c segs (fun _ => none) := by
  obtain ⟨s0, h0, hrep0, hdoc0⟩ := init_refines
  have hq0 : ¬ opts.quant = 0 := by rcases hq with h | h | h | h | h <;> omega
  have hseq : s0.seq = 1 := by
    have hq' := scanFile_quiescent [Seg.act 0 [] [] 0] hrep0.lay.ok (by simp [actRids]) false
    have hinit : initialSpan = render [Seg.act 0 [] [] 0] := by
      simp [initialSpan, render, Seg.bytes, actBytes, serializeSpan_eq]
    have : openFile none .createIfNotExists = scanFile initialSpan false := by
      unfold openFile
      simp only [Option.getD_none, List.isEmpty_nil, Bool.not_true, Bool.false_eq_true, false_and, true_and, ↓reduceIte,
        reduceCtorEq, decide_false]
    rw [this, hinit, hq'] at h0
    cases h0
    simp [maxSeq]
  have hfl : s0.file.length = 15 := by
    rw [hrep0.lay.file, render_length _ hrep0.lay.ok]
    simp [segsSize, Seg.size, spanBody, enc7, len7, pick7, bounds7, enc7k]
  have hsz : (Seg.act s0.seq [] [{ id := 0, data := encodeOpts name opts }] 0).size ≤ (encodeOpts name opts).length + 50 := by
    have hb : (spanBody s0.seq [] [{ id := 0, data := encodeOpts name opts }]).length =
        len7 s0.seq + len7 0 + 0 + 1 + (1 + len7 (encodeOpts name opts).length + (encodeOpts name opts).length + 0) := by
      simp [spanBody_length, streamLen]
    have l1 := len7_le s0.seq
    have l2 := len7_le 0
    have l3 := len7_le (encodeOpts name opts).length
    simp only [Seg.size, hb]
    omega
  have hnew : NewOK s0.seq [] [{ id := 0, data := encodeOpts name opts }] := by
    refine ⟨by omega, by simp, by simp, ?_, ?_⟩
    · intro s hs
      simp only [List.mem_cons, List.not_mem_nil, or_false] at hs
      subst hs
      exact ⟨by simp, by simp only; omega⟩
    · simp only [minSpanLength]; omega
  have hbig : s0.file.length + expandBy s0.file.length (Seg.act s0.seq [] [{ id := 0, data := encodeOpts name opts }] 0).size
      < 4294967296 := by
    rw [hfl]
    have h5 : fivePercent 15 = 0 := by decide
    simp only [expandBy, h5]
    omega
  have hold : docOf [] [Seg.act 0 [] [] 0] ≠ none := by simp [hdoc0]
  obtain ⟨m, segs', _, h1, h2, h3, _⟩ := write_over s0 _ hrep0 [] _ hnew hbig hold
  refine ⟨{ sf := m.st, cfg := opts, readOnly := false }, segs', ?_, rfl, ⟨h2, hq, (by intro _ _ h; cases h), ?_⟩⟩
  · simp only [newCollection, h0, hq0, ↓reduceIte, h1]
    rcases hm with hm | hm <;> simp [hm]
  · intro id
    rw [h3 (ridOf id), if_neg (ridOf_ne_nil id), hdoc0, if_neg (ridOf_ne_nil id)]
    rfl

end Syzgy
