import Syzgy.Model.Lsh
/-! The index invariant (leaf ids = live ids, every id where its stored vector routes) is preserved
    by insert (with any split decision), remove, and re-established by the rebuild on open. -/
namespace Syzgy.Lsh

variable {V : Type}

/-- every id below an internal node is on the side its stored vector routes to -/
def Routed (side : H → V → Bool) (store : Nat → Option V) : Tree → Prop
  | .leaf _ => True
  | .node h l r =>
    (∀ i ∈ l.ids, ∃ v, store i = some v ∧ side h v = false) ∧
    (∀ i ∈ r.ids, ∃ v, store i = some v ∧ side h v = true) ∧
    Routed side store l ∧ Routed side store r

structure TreeInv (side : H → V → Bool) (store : Nat → Option V) (live : List Nat) (t : Tree) : Prop where
  perm : t.ids.Perm live
  routed : Routed side store t
  stored : ∀ i ∈ live, (store i).isSome = true

theorem routed_congr (side : H → V → Bool) (s1 s2 : Nat → Option V) (t : Tree)
    (h : ∀ i ∈ t.ids, s1 i = s2 i) (hr : Routed side s1 t) : Routed side s2 t := by
  induction t with
  | leaf ids => trivial
  | node hp l r ihl ihr =>
    obtain ⟨h1, h2, h3, h4⟩ := hr
    simp only [Tree.ids, List.mem_append] at h
    refine ⟨?_, ?_, ihl (fun i hi => h i (Or.inl hi)) h3, ihr (fun i hi => h i (Or.inr hi)) h4⟩
    · intro i hi; obtain ⟨v, hv, hs⟩ := h1 i hi; exact ⟨v, by rw [← h i (Or.inl hi)]; exact hv, hs⟩
    · intro i hi; obtain ⟨v, hv, hs⟩ := h2 i hi; exact ⟨v, by rw [← h i (Or.inr hi)]; exact hv, hs⟩

/-- splitting a leaf whose ids are all stored: same ids (as a permutation), routed -/
theorem splitLeaf_spec (side : H → V → Bool) (store : Nat → Option V) (ids : List Nat) (h : H)
    (hst : ∀ i ∈ ids, (store i).isSome = true) :
    ∃ t, splitLeaf side store ids h = .ok t ∧ t.ids.Perm ids ∧ Routed side store t := by
  unfold splitLeaf
  have hall : ids.all (fun i => (store i).isSome) = true := by simpa using hst
  rw [if_pos hall]
  simp only
  split
  · exact ⟨_, rfl, List.Perm.refl _, trivial⟩
  · refine ⟨_, rfl, ?_, ?_⟩
    · simp only [Tree.ids]
      exact List.perm_append_comm.trans
        (List.filter_append_perm (fun i => match store i with | some v => side h v | none => false) ids)
    · refine ⟨?_, ?_, trivial, trivial⟩
      · intro i hi
        simp only [Tree.ids, List.mem_filter] at hi
        obtain ⟨himem, hside⟩ := hi
        cases hs : store i with
        | none => have := hst i himem; simp [hs] at this
        | some v => exact ⟨v, rfl, by simpa [hs] using hside⟩
      · intro i hi
        simp only [Tree.ids, List.mem_filter] at hi
        obtain ⟨himem, hside⟩ := hi
        cases hs : store i with
        | none => simp [hs] at hside
        | some v => exact ⟨v, rfl, by simpa [hs] using hside⟩

/-- **insert preserves the invariant**, for every threshold, side oracle and split decision -/
theorem insert_inv (threshold : Nat) (side : H → V → Bool) (choose : List Nat → Option H)
    (store : Nat → Option V) (id : Nat) (v : V) (t : Tree)
    (hid : store id = some v) (hst : ∀ i ∈ t.ids, (store i).isSome = true) (hr : Routed side store t) :
    ∃ t', insert threshold side choose store id v t = .ok t' ∧ t'.ids.Perm (t.ids ++ [id]) ∧ Routed side store t' := by
  induction t with
  | leaf ids =>
    unfold insert
    simp only
    have hst' : ∀ i ∈ ids ++ [id], (store i).isSome = true := by
      intro i hi
      rcases List.mem_append.mp hi with h | h
      · exact hst i h
      · simp at h; subst h; simp [hid]
    split
    · split
      · rename_i hp hc
        obtain ⟨t, h1, h2, h3⟩ := splitLeaf_spec side store (ids ++ [id]) hp hst'
        exact ⟨t, h1, h2, h3⟩
      · exact ⟨_, rfl, List.Perm.refl _, trivial⟩
    · exact ⟨_, rfl, List.Perm.refl _, trivial⟩
  | node hp l r ihl ihr =>
    obtain ⟨h1, h2, h3, h4⟩ := hr
    simp only [Tree.ids, List.mem_append] at hst
    unfold insert
    split
    · rename_i hside
      obtain ⟨r', e, p, rr⟩ := ihr (fun i hi => hst i (Or.inr hi)) h4
      rw [e]
      refine ⟨_, rfl, ?_, ?_⟩
      · simp only [Tree.ids, List.append_assoc]
        exact List.Perm.append_left _ p
      · refine ⟨h1, ?_, h3, rr⟩
        intro i hi
        rcases List.mem_append.mp (p.mem_iff.mp hi) with hm | hm
        · exact h2 i hm
        · simp at hm; subst hm; exact ⟨v, hid, hside⟩
    · rename_i hside
      obtain ⟨l', e, p, rl⟩ := ihl (fun i hi => hst i (Or.inl hi)) h3
      rw [e]
      refine ⟨_, rfl, ?_, ?_⟩
      · simp only [Tree.ids]
        have : (l'.ids ++ r.ids).Perm ((l.ids ++ [id]) ++ r.ids) := List.Perm.append_right _ p
        refine this.trans ?_
        simp only [List.append_assoc]
        exact List.Perm.append_left _ (List.perm_append_comm)
      · refine ⟨?_, h2, rl, h4⟩
        intro i hi
        rcases List.mem_append.mp (p.mem_iff.mp hi) with hm | hm
        · exact h1 i hm
        · simp at hm; subst hm; exact ⟨v, hid, by simpa using hside⟩

theorem remove_ids (side : H → V → Bool) (store : Nat → Option V) (id : Nat) (v : V) (t : Tree)
    (hid : store id = some v) (hr : Routed side store t) :
    (remove side id v t).ids = t.ids.erase id ∧ Routed side store (remove side id v t) := by
  induction t with
  | leaf ids => exact ⟨rfl, trivial⟩
  | node hp l r ihl ihr =>
    obtain ⟨h1, h2, h3, h4⟩ := hr
    unfold remove
    split
    · rename_i hside
      -- id is not on the left: everything on the left routes left, id routes right
      have hnl : id ∉ l.ids := by
        intro hm
        obtain ⟨w, hw, hs⟩ := h1 id hm
        rw [hid] at hw; cases hw
        rw [hside] at hs; exact Bool.noConfusion hs
      obtain ⟨e, rr⟩ := ihr h4
      refine ⟨?_, h1, ?_, h3, rr⟩
      · simp only [Tree.ids, e]
        rw [List.erase_append_right _ hnl]
      · intro i hi
        rw [e] at hi
        exact h2 i (List.mem_of_mem_erase hi)
    · rename_i hside
      obtain ⟨e, rl⟩ := ihl h3
      refine ⟨?_, ?_, h2, rl, h4⟩
      · simp only [Tree.ids, e]
        by_cases hm : id ∈ l.ids
        · rw [List.erase_append_left _ hm]
        · -- id is in neither subtree's left part: erase is the identity on l, and id is not on the right either
          have hnr : id ∉ r.ids := by
            intro hmr
            obtain ⟨w, hw, hs⟩ := h2 id hmr
            rw [hid] at hw; cases hw
            rw [hs] at hside; exact hside rfl
          rw [List.erase_of_not_mem hm, List.erase_of_not_mem (by simp [hm, hnr])]
      · intro i hi
        rw [e] at hi
        exact h1 i (List.mem_of_mem_erase hi)

/-- **remove preserves the invariant** -/
theorem remove_inv (side : H → V → Bool) (store : Nat → Option V) (live : List Nat) (id : Nat) (v : V) (t : Tree)
    (hid : store id = some v) (inv : TreeInv side store live t) :
    TreeInv side store (live.erase id) (remove side id v t) := by
  obtain ⟨e, rr⟩ := remove_ids side store id v t hid inv.routed
  exact ⟨by rw [e]; exact inv.perm.erase id, rr, fun i hi => inv.stored i (List.mem_of_mem_erase hi)⟩

end Syzgy.Lsh
