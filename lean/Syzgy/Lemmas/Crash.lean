import Syzgy.Lemmas.Refine
/-!
# Recovery from crash images

A crash between the storage steps of an operation leaves one of: the old file followed by zeros
(after `grow`), the file with both the new and the old version of a record active (after `writeAt`
of an overwrite), or the final file. `scanFile` in a writable mode turns each of them into a state
that satisfies the representation invariant and stands for the store before or after the operation.
-/
namespace Syzgy

theorem scanSegs_append (file : Bytes) (ro : Bool) (off : Nat) (X Y : List Seg) (acc : ScanAcc) :
    scanSegs file ro off (X ++ Y) acc = scanSegs file ro (off + segsSize X) Y (scanSegs file ro off X acc) := by
  induction X generalizing off acc with
  | nil => simp [scanSegs, segsSize]
  | cons s ss ih =>
    simp only [List.cons_append, scanSegs, segsSize_cons]
    rw [ih]; congr 1; omega

/-- (rid, seq) of the active segments, last one first (the order `scanFile` builds) -/
def seqsRev : List Seg → List (Bytes × Nat) → List (Bytes × Nat)
  | [], acc => acc
  | .act seq rid _ _ :: r, acc => seqsRev r ((rid, seq) :: acc)
  | .free _ :: r, acc => seqsRev r acc

theorem mem_seqsRev (segs : List Seg) (acc : List (Bytes × Nat)) (e : Bytes × Nat) (h : e ∈ seqsRev segs acc) :
    e ∈ acc ∨ e.1 ∈ actRids segs := by
  induction segs generalizing acc with
  | nil => exact Or.inl h
  | cons s ss ih =>
    cases s with
    | free junk => simpa [actRids] using ih acc h
    | act seq rid st pad =>
      rcases ih _ h with h | h
      · rcases List.mem_cons.mp h with rfl | h
        · exact Or.inr (by simp [actRids])
        · exact Or.inl h
      · exact Or.inr (by simp [actRids, h])

theorem mem_indexRev (segs : List Seg) (off : Nat) (acc : List (Bytes × Nat)) (e : Bytes × Nat)
    (h : e ∈ indexRev off segs acc) : e ∈ acc ∨ e.1 ∈ actRids segs := by
  induction segs generalizing off acc with
  | nil => exact Or.inl h
  | cons s ss ih =>
    cases s with
    | free junk => simpa [actRids] using ih _ acc h
    | act seq rid st pad =>
      rcases ih _ _ h with h | h
      · rcases List.mem_cons.mp h with rfl | h
        · exact Or.inr (by simp [actRids])
        · exact Or.inl h
      · exact Or.inr (by simp [actRids, h])

/-- a stretch of segments with pairwise distinct ids, none of them seen before: the scan indexes each -/
theorem scanSegs_stretch (file : Bytes) (ro : Bool) (segs : List Seg) (off : Nat) (acc : ScanAcc)
    (hnd : (actRids segs).Nodup) (hfresh : ∀ r ∈ actRids segs, ∀ e ∈ acc.seqs, e.1 ≠ r)
    (hix : ∀ r ∈ actRids segs, ∀ e ∈ acc.index, e.1 ≠ r) :
    scanSegs file ro off segs acc =
      { index := indexRev off segs acc.index, seqs := seqsRev segs acc.seqs, free := freeFold off segs acc.free,
        highest := maxSeq segs acc.highest, patches := acc.patches } := by
  induction segs generalizing off acc with
  | nil => rfl
  | cons s ss ih =>
    cases s with
    | free junk =>
      simp only [scanSegs, scanStep, indexRev, maxSeq, freeFold, seqsRev]
      rw [ih _ _ (by simpa [actRids] using hnd) (by simpa [actRids] using hfresh) (by simpa [actRids] using hix)]
    | act seq rid st pad =>
      simp only [actRids, List.nodup_cons] at hnd
      have hf : idxGet acc.seqs rid = none := (idxGet_none_iff _ _).mpr (fun e he => hfresh rid (by simp [actRids]) e he)
      have hdel : idxDel acc.index rid = acc.index := idxDel_fresh _ _ (fun e he => hix rid (by simp [actRids]) e he)
      have hdel2 : idxDel acc.seqs rid = acc.seqs := idxDel_fresh _ _ (fun e he => hfresh rid (by simp [actRids]) e he)
      simp only [scanSegs, scanStep, scanActive_fresh file ro acc off seq rid hf, indexRev, maxSeq, freeFold, seqsRev]
      rw [ih (off + (Seg.act seq rid st pad).size) _ hnd.2
        (by
          intro r hr e he
          simp only [idxSet, List.mem_cons] at he
          rcases he with rfl | he
          · intro h; simp only at h; subst h; exact hnd.1 hr
          · exact hfresh r (by simp [actRids, hr]) e (List.mem_filter.mp he).1)
        (by
          intro r hr e he
          simp only [idxSet, List.mem_cons] at he
          rcases he with rfl | he
          · intro h; simp only at h; subst h; exact hnd.1 hr
          · exact hix r (by simp [actRids, hr]) e (List.mem_filter.mp he).1)]
      simp [idxSet, hdel, hdel2]

/-- sequence number of the (first) active segment that holds `rid` -/
def seqOf (rid : Bytes) : List Seg → Option Nat
  | [] => none
  | .act seq r _ _ :: ss => if r = rid then some seq else seqOf rid ss
  | .free _ :: ss => seqOf rid ss

theorem seqOf_none_iff (rid : Bytes) (segs : List Seg) : seqOf rid segs = none ↔ rid ∉ actRids segs := by
  induction segs with
  | nil => simp [seqOf, actRids]
  | cons s ss ih =>
    cases s with
    | act seq r st pad =>
      simp only [seqOf, actRids, List.mem_cons, not_or]
      split
      · rename_i h; simp [h]
      · rename_i h; rw [ih]; exact ⟨fun h2 => ⟨fun e => h e.symm, h2⟩, fun h2 => h2.2⟩
    | free junk => simpa [seqOf, actRids] using ih

theorem idxGet_seqsRev (rid : Bytes) (segs : List Seg) (acc : List (Bytes × Nat)) (hnd : (actRids segs).Nodup) :
    idxGet (seqsRev segs acc) rid = (seqOf rid segs).or (idxGet acc rid) := by
  induction segs generalizing acc with
  | nil => simp [seqsRev, seqOf]
  | cons s ss ih =>
    cases s with
    | free junk =>
      simp only [seqsRev, seqOf]
      exact ih _ (by simpa [actRids] using hnd)
    | act seq r st pad =>
      simp only [actRids, List.nodup_cons] at hnd
      simp only [seqsRev, seqOf]
      rw [ih _ hnd.2, idxGet_cons]
      by_cases hr : r = rid
      · subst hr
        simp [(seqOf_none_iff r ss).mpr hnd.1]
      · simp [hr]


theorem splice_retire (A B : List Seg) (seq : Nat) (rid : Bytes) (st : List Stream) (pad : Nat)
    (hA : ∀ x ∈ A, x.OK) (hs : (Seg.act seq rid st pad).OK) :
    splice (render (A ++ .act seq rid st pad :: B)) (segsSize A) (be32 freeMagic) =
      render (A ++ .free (actJunk seq rid st pad) :: B) := by
  rw [render_append, render_cons, render_append, render_cons]
  simp only [Seg.bytes]
  rw [actBytes_eq seq rid st pad hs]
  have := splice_at (render A) (be32 activeMagic)
    (be32 (Seg.act seq rid st pad).size ++ actJunk seq rid st pad ++ render B) (be32 freeMagic) rfl
  rw [render_length A hA] at this
  have hj := actJunk_length seq rid st pad
  have hmod : (8 + (actJunk seq rid st pad).length) % 4294967296 = (Seg.act seq rid st pad).size := by
    rw [hj]; exact Nat.mod_eq_of_lt (Seg.size_lt _ hs)
  rw [hmod]
  simpa [List.append_assoc] using this

/-- the free map of a scanned stretch, relative to what was there before -/
theorem freeFold_cov (segs : List Seg) (hok : ∀ s ∈ segs, s.OK) (off : Nat) (fm : List Sp) (hg : Good fm)
    (hb : ∀ p, covers fm p → p < off) :
    Good (freeFold off segs fm) ∧ (∀ p, covers (freeFold off segs fm) p ↔ (covers fm p ∨ freeAt off segs p)) ∧
    (∀ p, covers (freeFold off segs fm) p → p < off + segsSize segs) := by
  obtain ⟨g, c⟩ := freeFold_spec segs hok off fm hg (stops_le_of_covers fm hg off hb)
  refine ⟨g, c, fun p hp => ?_⟩
  rcases (c p).mp hp with h | h
  · have := hb p h; omega
  · exact (freeAt_bounds _ _ _ h).2

theorem markFree_cov (fm : List Sp) (hg : Good fm) (start len : Nat) (hlen : 0 < len)
    (hnc : ∀ p, start ≤ p → p < start + len → ¬ covers fm p) :
    Good (markFree fm start len) ∧ ∀ p, covers (markFree fm start len) p ↔ (covers fm p ∨ (start ≤ p ∧ p < start + len)) :=
  markFree_spec fm start len hg hlen (disj_of_not_covers fm hg start len hlen hnc)

/-- at most one of three stretches with pairwise distinct ids holds `r` -/
theorem or3_comm (a b c : Option Nat) (h : (a = none ∧ b = none) ∨ (a = none ∧ c = none) ∨ (b = none ∧ c = none)) :
    c.or (b.or a) = a.or (b.or c) := by
  rcases h with ⟨h1, h2⟩ | ⟨h1, h2⟩ | ⟨h1, h2⟩ <;> subst h1 <;> subst h2 <;> simp

theorem findAct_excl (r : Bytes) (P Q T : List Seg) (o1 o2 o3 : Nat) (hnd : (actRids (P ++ Q ++ T)).Nodup) :
    (findAct r o1 P = none ∧ findAct r o2 Q = none) ∨ (findAct r o1 P = none ∧ findAct r o3 T = none) ∨
    (findAct r o2 Q = none ∧ findAct r o3 T = none) := by
  simp only [actRids_append, List.nodup_append, List.mem_append] at hnd
  simp only [findAct_none_iff]
  by_cases hp : r ∈ actRids P
  · right; right
    exact ⟨fun hq => hnd.1.2.2 r hp r hq rfl, fun ht => hnd.2.2 r (Or.inl hp) r ht rfl⟩
  · by_cases hq : r ∈ actRids Q
    · right; left
      exact ⟨hp, fun ht => hnd.2.2 r (Or.inr hq) r ht rfl⟩
    · left; exact ⟨hp, hq⟩


def acc0 : ScanAcc := { index := [], seqs := [], free := [], highest := 0 }

theorem mem_idxSet (ix : List (Bytes × Nat)) (k : Bytes) (v : Nat) (e : Bytes × Nat) (h : e ∈ idxSet ix k v) :
    e.1 = k ∨ e ∈ ix := by
  simp only [idxSet, List.mem_cons] at h
  rcases h with rfl | h
  · exact Or.inl rfl
  · exact Or.inr (List.mem_filter.mp h).1

/-- the scan of `P ++ a :: Q` where all ids are distinct: the state in which the second version `b` of
    `a`'s id is met -/
theorem scan_prefix (file : Bytes) (P Q : List Seg) (sa : Nat) (rid : Bytes) (sta : List Stream) (pa : Nat)
    (hnd : (actRids (P ++ Q)).Nodup) (hrid : rid ∉ actRids (P ++ Q)) :
    scanSegs file false 0 (P ++ .act sa rid sta pa :: Q) acc0 =
      { index := indexRev (segsSize P + (Seg.act sa rid sta pa).size) Q ((rid, segsSize P) :: indexRev 0 P []),
        seqs := seqsRev Q ((rid, sa) :: seqsRev P []),
        free := freeFold (segsSize P + (Seg.act sa rid sta pa).size) Q (freeFold 0 P []),
        highest := maxSeq Q (if sa > maxSeq P 0 then sa else maxSeq P 0), patches := [] } := by
  simp only [actRids_append, List.nodup_append, List.mem_append, not_or] at hnd hrid
  rw [scanSegs_append, scanSegs_stretch file false P 0 acc0 hnd.1 (by simp [acc0]) (by simp [acc0])]
  simp only [scanSegs, scanStep, acc0, Nat.zero_add]
  have hf : idxGet (seqsRev P []) rid = none := by
    rw [idxGet_none_iff]
    intro e he
    rcases mem_seqsRev P [] e he with h | h
    · simp at h
    · intro e'; subst e'; exact hrid.1 h
  rw [scanActive_fresh _ _ _ _ _ _ hf]
  have hdel1 : idxDel (seqsRev P []) rid = seqsRev P [] := by
    apply idxDel_fresh
    intro e he
    rcases mem_seqsRev P [] e he with h | h
    · simp at h
    · intro e'; subst e'; exact hrid.1 h
  have hdel2 : idxDel (indexRev 0 P []) rid = indexRev 0 P [] := by
    apply idxDel_fresh
    intro e he
    rcases mem_indexRev P 0 [] e he with h | h
    · simp at h
    · intro e'; subst e'; exact hrid.1 h
  rw [scanSegs_stretch _ _ Q _ _ hnd.2.1]
  · simp [idxSet, hdel1, hdel2]
  · intro r hr e he
    simp only at he
    rcases mem_idxSet _ _ _ _ he with h | h
    · intro e'; rw [h] at e'; subst e'; exact hrid.2 hr
    · rcases mem_seqsRev P [] e h with h | h
      · simp at h
      · intro e'; subst e'; exact hnd.2.2 _ h _ hr rfl
  · intro r hr e he
    simp only at he
    rcases mem_idxSet _ _ _ _ he with h | h
    · intro e'; rw [h] at e'; subst e'; exact hrid.2 hr
    · rcases mem_indexRev P 0 [] e h with h | h
      · simp at h
      · intro e'; subst e'; exact hnd.2.2 _ h _ hr rfl


/-- the state of the scan just before the second version is met (right-hand side of `scan_prefix`) -/
def preAcc (P Q : List Seg) (sa : Nat) (rid : Bytes) (za : Nat) : ScanAcc :=
  { index := indexRev (segsSize P + za) Q ((rid, segsSize P) :: indexRev 0 P []),
    seqs := seqsRev Q ((rid, sa) :: seqsRev P []),
    free := freeFold (segsSize P + za) Q (freeFold 0 P []),
    highest := maxSeq Q (if sa > maxSeq P 0 then sa else maxSeq P 0), patches := [] }

theorem preAcc_seq (P Q : List Seg) (sa : Nat) (rid : Bytes) (za : Nat) (hndQ : (actRids Q).Nodup) (hq : rid ∉ actRids Q) :
    idxGet (preAcc P Q sa rid za).seqs rid = some sa := by
  simp only [preAcc]
  rw [idxGet_seqsRev rid Q _ hndQ, (seqOf_none_iff rid Q).mpr hq, idxGet_cons]
  simp

theorem preAcc_idx (P Q : List Seg) (sa : Nat) (rid : Bytes) (za : Nat) (hndQ : (actRids Q).Nodup) (hq : rid ∉ actRids Q) :
    idxGet (preAcc P Q sa rid za).index rid = some (segsSize P) := by
  simp only [preAcc]
  rw [idxGet_indexRev rid Q _ _ hndQ, (findAct_none_iff rid _ Q).mpr hq, idxGet_cons]
  simp

theorem preAcc_idx_other (P Q : List Seg) (sa : Nat) (rid : Bytes) (za : Nat) (hndP : (actRids P).Nodup) (hndQ : (actRids Q).Nodup)
    (r : Bytes) (hr : r ≠ rid) :
    idxGet (preAcc P Q sa rid za).index r = (findAct r (segsSize P + za) Q).or (findAct r 0 P) := by
  simp only [preAcc]
  rw [idxGet_indexRev r Q _ _ hndQ, idxGet_cons, if_neg (fun e => hr e.symm), idxGet_indexRev r P _ _ hndP]
  simp [idxGet]

theorem preAcc_keys_seqs (P Q : List Seg) (sa : Nat) (rid : Bytes) (za : Nat) (e : Bytes × Nat)
    (h : e ∈ (preAcc P Q sa rid za).seqs) : e.1 = rid ∨ e.1 ∈ actRids P ∨ e.1 ∈ actRids Q := by
  simp only [preAcc] at h
  rcases mem_seqsRev Q _ e h with h | h
  · rcases List.mem_cons.mp h with rfl | h
    · exact Or.inl rfl
    · rcases mem_seqsRev P [] e h with h | h
      · simp at h
      · exact Or.inr (Or.inl h)
  · exact Or.inr (Or.inr h)

theorem preAcc_keys_idx (P Q : List Seg) (sa : Nat) (rid : Bytes) (za : Nat) (e : Bytes × Nat)
    (h : e ∈ (preAcc P Q sa rid za).index) : e.1 = rid ∨ e.1 ∈ actRids P ∨ e.1 ∈ actRids Q := by
  simp only [preAcc] at h
  rcases mem_indexRev Q _ _ e h with h | h
  · rcases List.mem_cons.mp h with rfl | h
    · exact Or.inl rfl
    · rcases mem_indexRev P 0 [] e h with h | h
      · simp at h
      · exact Or.inr (Or.inl h)
  · exact Or.inr (Or.inr h)

/-- free map of the state before the second version: canonical, covers the FREE segments of `P` and `Q` -/
theorem preAcc_free (P Q : List Seg) (sa : Nat) (rid : Bytes) (za : Nat) (hP : ∀ x ∈ P, x.OK) (hQ : ∀ x ∈ Q, x.OK) :
    Good (preAcc P Q sa rid za).free ∧
    (∀ p, covers (preAcc P Q sa rid za).free p ↔ (freeAt 0 P p ∨ freeAt (segsSize P + za) Q p)) := by
  simp only [preAcc]
  obtain ⟨g1, c1, b1⟩ := freeFold_cov P hP 0 [] ⟨by simp, by simp⟩ (by intro p hp; simp [covers] at hp)
  obtain ⟨g2, c2, _⟩ := freeFold_cov Q hQ (segsSize P + za) _ g1 (by intro p hp; have := b1 p hp; omega)
  refine ⟨g2, fun p => ?_⟩
  rw [c2 p, c1 p]
  simp [covers]


theorem nodup3 {P Q T : List Seg} (h : (actRids (P ++ Q ++ T)).Nodup) :
    (actRids P).Nodup ∧ (actRids Q).Nodup ∧ (actRids T).Nodup ∧ (actRids (P ++ Q)).Nodup ∧
    (∀ r ∈ actRids T, r ∉ actRids P ∧ r ∉ actRids Q) := by
  simp only [actRids_append, List.nodup_append, List.mem_append] at h ⊢
  refine ⟨h.1.1, h.1.2.1, h.2.1, ⟨h.1.1, h.1.2.1, h.1.2.2⟩, ?_⟩
  intro r hr
  exact ⟨fun hp => h.2.2 r (Or.inl hp) r hr rfl, fun hq => h.2.2 r (Or.inr hq) r hr rfl⟩

/-- **two active versions of one id, the later one in the file is the newer**: the scan releases the
    earlier one; the result is the state of the file in which that version is a FREE segment -/
theorem scan_dup_second_wins (P Q T : List Seg) (sa sb : Nat) (rid : Bytes) (sta stb : List Stream) (pa pb : Nat)
    (hok : ∀ x ∈ P ++ .act sa rid sta pa :: Q ++ .act sb rid stb pb :: T, x.OK)
    (hnd : (actRids (P ++ Q ++ T)).Nodup) (hrid : rid ∉ actRids (P ++ Q ++ T)) (hnew : sb > sa) :
    let S1 := P ++ .act sa rid sta pa :: Q ++ .act sb rid stb pb :: T
    let S2 := P ++ .free (actJunk sa rid sta pa) :: Q ++ .act sb rid stb pb :: T
    let A := scanSegs (render S1) false 0 S1 acc0
    A.patches = [(segsSize P, be32 freeMagic)] ∧ (∀ r, idxGet A.index r = findAct r 0 S2) ∧
    Good A.free ∧ (∀ p, covers A.free p ↔ freeAt 0 S2 p) := by
  intro S1 S2 A
  obtain ⟨hndP, hndQ, hndT, hndPQ, hT⟩ := nodup3 hnd
  have hrid' := hrid
  simp only [actRids_append, List.mem_append, not_or] at hrid'
  have hP : ∀ x ∈ P, x.OK := fun x hx => hok x (by simp [hx])
  have hQ : ∀ x ∈ Q, x.OK := fun x hx => hok x (by simp [hx])
  have hTok : ∀ x ∈ T, x.OK := fun x hx => hok x (by simp [hx])
  have ha : (Seg.act sa rid sta pa).OK := hok _ (by simp)
  have hb : (Seg.act sb rid stb pb).OK := hok _ (by simp)
  have hza := Seg.size_ge _ ha
  have hzb := Seg.size_ge _ hb
  simp only [minSpanLength] at hza hzb
  -- the scan up to the second version
  have hpre : scanSegs (render S1) false 0 (P ++ .act sa rid sta pa :: Q) acc0 =
      preAcc P Q sa rid (Seg.act sa rid sta pa).size :=
    scan_prefix _ P Q sa rid sta pa hndPQ (by simp only [actRids_append, List.mem_append, not_or]; exact hrid'.1)
  have hlen : rd32At (render S1) (segsSize P + 4) = some (Seg.act sa rid sta pa).size := by
    have : S1 = P ++ .act sa rid sta pa :: (Q ++ .act sb rid stb pb :: T) := by simp [S1]
    rw [this]; exact rd_len_at P _ _ hP ha
  have hA : A = scanSegs (render S1) false (segsSize (P ++ .act sa rid sta pa :: Q) + (Seg.act sb rid stb pb).size) T
      { index := idxSet (preAcc P Q sa rid (Seg.act sa rid sta pa).size).index rid (segsSize (P ++ .act sa rid sta pa :: Q)),
        seqs := idxSet (preAcc P Q sa rid (Seg.act sa rid sta pa).size).seqs rid sb,
        free := markFree (preAcc P Q sa rid (Seg.act sa rid sta pa).size).free (segsSize P) (Seg.act sa rid sta pa).size,
        highest := (if sb > (preAcc P Q sa rid (Seg.act sa rid sta pa).size).highest then sb
                    else (preAcc P Q sa rid (Seg.act sa rid sta pa).size).highest),
        patches := [(segsSize P, be32 freeMagic)] } := by
    show scanSegs (render S1) false 0 S1 acc0 = _
    have : S1 = (P ++ .act sa rid sta pa :: Q) ++ .act sb rid stb pb :: T := by simp [S1]
    rw [this, scanSegs_append, hpre]
    simp only [scanSegs, scanStep, scanActive, Nat.zero_add, preAcc_seq P Q sa rid _ hndQ hrid'.1.2,
      preAcc_idx P Q sa rid _ hndQ hrid'.1.2, hnew, ↓reduceIte, freeSuperseded, Bool.false_eq_true]
    rw [← this, hlen]
    simp [preAcc]
  have hoT : segsSize (P ++ .act sa rid sta pa :: Q) + (Seg.act sb rid stb pb).size =
      segsSize P + (Seg.act sa rid sta pa).size + segsSize Q + (Seg.act sb rid stb pb).size := by
    rw [segsSize_append, segsSize_cons]; omega
  rw [scanSegs_stretch _ _ T _ _ hndT] at hA
  rotate_left
  · intro r hr e he
    simp only at he
    rcases mem_idxSet _ _ _ _ he with h | h
    · intro e'; rw [h] at e'; subst e'; exact hrid'.2 hr
    · rcases preAcc_keys_seqs _ _ _ _ _ _ h with h | h | h
      · intro e'; rw [h] at e'; subst e'; exact hrid'.2 hr
      · intro e'; subst e'; exact (hT _ hr).1 h
      · intro e'; subst e'; exact (hT _ hr).2 h
  · intro r hr e he
    simp only at he
    rcases mem_idxSet _ _ _ _ he with h | h
    · intro e'; rw [h] at e'; subst e'; exact hrid'.2 hr
    · rcases preAcc_keys_idx _ _ _ _ _ _ h with h | h | h
      · intro e'; rw [h] at e'; subst e'; exact hrid'.2 hr
      · intro e'; subst e'; exact (hT _ hr).1 h
      · intro e'; subst e'; exact (hT _ hr).2 h
  rw [hA]
  refine ⟨rfl, ?_, ?_⟩
  · -- the index
    intro r
    simp only
    rw [idxGet_indexRev r T _ _ hndT, idxGet_idxSet]
    have hS2 : findAct r 0 S2 = (findAct r 0 P).or ((findAct r (segsSize P + (Seg.act sa rid sta pa).size) Q).or
        (if rid = r then some (segsSize P + (Seg.act sa rid sta pa).size + segsSize Q)
         else findAct r (segsSize P + (Seg.act sa rid sta pa).size + segsSize Q + (Seg.act sb rid stb pb).size) T)) := by
      have : S2 = P ++ (.free (actJunk sa rid sta pa) :: (Q ++ .act sb rid stb pb :: T)) := by simp [S2]
      rw [this, findAct_append, findAct_cons_free, findAct_append, findAct_cons_act, free_junk_size]
      simp only [Nat.zero_add]
    rw [hS2, hoT]
    by_cases hr : r = rid
    · subst hr
      simp [(findAct_none_iff r _ P).mpr hrid'.1.1, (findAct_none_iff r _ Q).mpr hrid'.1.2,
        (findAct_none_iff r _ T).mpr hrid'.2, segsSize_append, segsSize_cons, Nat.add_assoc]
    · rw [if_neg hr, if_neg (fun e => hr e.symm), preAcc_idx_other P Q sa rid _ hndP hndQ r hr]
      exact or3_comm _ _ _ (findAct_excl r P Q T _ _ _ hnd)
  · -- the free map
    obtain ⟨g3, c3⟩ := preAcc_free P Q sa rid (Seg.act sa rid sta pa).size hP hQ
    have hnc : ∀ p, segsSize P ≤ p → p < segsSize P + (Seg.act sa rid sta pa).size →
        ¬ covers (preAcc P Q sa rid (Seg.act sa rid sta pa).size).free p := by
      intro p h1 h2 hc
      rcases (c3 p).mp hc with h | h
      · have := freeAt_bounds _ _ _ h; omega
      · have := freeAt_bounds _ _ _ h; omega
    obtain ⟨g4, c4⟩ := markFree_cov _ g3 (segsSize P) (Seg.act sa rid sta pa).size (by omega) hnc
    obtain ⟨g5, c5, _⟩ := freeFold_cov T hTok
      (segsSize (P ++ .act sa rid sta pa :: Q) + (Seg.act sb rid stb pb).size) _ g4 (by
        intro p hp
        rw [hoT]
        rcases (c4 p).mp hp with h | h
        · rcases (c3 p).mp h with h | h
          · have := freeAt_bounds _ _ _ h; omega
          · have := freeAt_bounds _ _ _ h; omega
        · omega)
    refine ⟨g5, fun p => ?_⟩
    rw [c5 p, c4 p, c3 p, hoT]
    have : S2 = P ++ (.free (actJunk sa rid sta pa) :: (Q ++ .act sb rid stb pb :: T)) := by simp [S2]
    rw [this, freeAt_append, freeAt_free_cons, freeAt_append, freeAt_act_cons, free_junk_size]
    simp only [Nat.zero_add]
    constructor
    · rintro (((h | h) | h) | h)
      · exact Or.inl h
      · exact Or.inr (Or.inr (Or.inl h))
      · exact Or.inr (Or.inl h)
      · exact Or.inr (Or.inr (Or.inr h))
    · rintro (h | h | h | h)
      · exact Or.inl (Or.inl (Or.inl h))
      · exact Or.inl (Or.inr h)
      · exact Or.inl (Or.inl (Or.inr h))
      · exact Or.inr h


/-- **two active versions of one id, the earlier one in the file is the newer**: the scan releases the
    later one as soon as it meets it -/
theorem scan_dup_first_wins (P Q T : List Seg) (sa sb : Nat) (rid : Bytes) (sta stb : List Stream) (pa pb : Nat)
    (hok : ∀ x ∈ P ++ .act sa rid sta pa :: Q ++ .act sb rid stb pb :: T, x.OK)
    (hnd : (actRids (P ++ Q ++ T)).Nodup) (hrid : rid ∉ actRids (P ++ Q ++ T)) (hold : ¬ sb > sa) :
    let S1 := P ++ .act sa rid sta pa :: Q ++ .act sb rid stb pb :: T
    let S2 := P ++ .act sa rid sta pa :: Q ++ .free (actJunk sb rid stb pb) :: T
    let A := scanSegs (render S1) false 0 S1 acc0
    A.patches = [(segsSize (P ++ .act sa rid sta pa :: Q), be32 freeMagic)] ∧ (∀ r, idxGet A.index r = findAct r 0 S2) ∧
    Good A.free ∧ (∀ p, covers A.free p ↔ freeAt 0 S2 p) := by
  intro S1 S2 A
  obtain ⟨hndP, hndQ, hndT, hndPQ, hT⟩ := nodup3 hnd
  have hrid' := hrid
  simp only [actRids_append, List.mem_append, not_or] at hrid'
  have hP : ∀ x ∈ P, x.OK := fun x hx => hok x (by simp [hx])
  have hQ : ∀ x ∈ Q, x.OK := fun x hx => hok x (by simp [hx])
  have hTok : ∀ x ∈ T, x.OK := fun x hx => hok x (by simp [hx])
  have ha : (Seg.act sa rid sta pa).OK := hok _ (by simp)
  have hb : (Seg.act sb rid stb pb).OK := hok _ (by simp)
  have hza := Seg.size_ge _ ha
  have hzb := Seg.size_ge _ hb
  simp only [minSpanLength] at hza hzb
  have hpre : scanSegs (render S1) false 0 (P ++ .act sa rid sta pa :: Q) acc0 =
      preAcc P Q sa rid (Seg.act sa rid sta pa).size :=
    scan_prefix _ P Q sa rid sta pa hndPQ (by simp only [actRids_append, List.mem_append, not_or]; exact hrid'.1)
  have hPaQ : ∀ x ∈ P ++ .act sa rid sta pa :: Q, x.OK := fun x hx => hok x (by
    simp only [List.mem_append, List.mem_cons] at hx ⊢; rcases hx with h | h | h
    · exact Or.inl (Or.inl h)
    · exact Or.inl (Or.inr (Or.inl h))
    · exact Or.inl (Or.inr (Or.inr h)))
  have hshape : S1 = (P ++ .act sa rid sta pa :: Q) ++ .act sb rid stb pb :: T := by simp [S1]
  have hlen : rd32At (render S1) (segsSize (P ++ .act sa rid sta pa :: Q) + 4) = some (Seg.act sb rid stb pb).size := by
    rw [hshape]; exact rd_len_at _ _ _ hPaQ hb
  have hoT : segsSize (P ++ .act sa rid sta pa :: Q) =
      segsSize P + (Seg.act sa rid sta pa).size + segsSize Q := by
    rw [segsSize_append, segsSize_cons]; omega
  have hA : A = scanSegs (render S1) false (segsSize (P ++ .act sa rid sta pa :: Q) + (Seg.act sb rid stb pb).size) T
      { index := (preAcc P Q sa rid (Seg.act sa rid sta pa).size).index,
        seqs := (preAcc P Q sa rid (Seg.act sa rid sta pa).size).seqs,
        free := markFree (preAcc P Q sa rid (Seg.act sa rid sta pa).size).free
          (segsSize (P ++ .act sa rid sta pa :: Q)) (Seg.act sb rid stb pb).size,
        highest := (if sb > (preAcc P Q sa rid (Seg.act sa rid sta pa).size).highest then sb
                    else (preAcc P Q sa rid (Seg.act sa rid sta pa).size).highest),
        patches := [(segsSize (P ++ .act sa rid sta pa :: Q), be32 freeMagic)] } := by
    show scanSegs (render S1) false 0 S1 acc0 = _
    rw [hshape, scanSegs_append, hpre]
    simp only [scanSegs, scanStep, scanActive, Nat.zero_add, preAcc_seq P Q sa rid _ hndQ hrid'.1.2,
      hold, ↓reduceIte, freeSuperseded, Bool.false_eq_true]
    rw [← hshape, hlen]
    simp [preAcc]
  rw [scanSegs_stretch _ _ T _ _ hndT] at hA
  rotate_left
  · intro r hr e he
    simp only at he
    rcases preAcc_keys_seqs _ _ _ _ _ _ he with h | h | h
    · intro e'; rw [h] at e'; subst e'; exact hrid'.2 hr
    · intro e'; subst e'; exact (hT _ hr).1 h
    · intro e'; subst e'; exact (hT _ hr).2 h
  · intro r hr e he
    simp only at he
    rcases preAcc_keys_idx _ _ _ _ _ _ he with h | h | h
    · intro e'; rw [h] at e'; subst e'; exact hrid'.2 hr
    · intro e'; subst e'; exact (hT _ hr).1 h
    · intro e'; subst e'; exact (hT _ hr).2 h
  rw [hA]
  refine ⟨rfl, ?_, ?_⟩
  · intro r
    simp only
    rw [idxGet_indexRev r T _ _ hndT]
    have hS2 : findAct r 0 S2 = (findAct r 0 P).or ((if rid = r then some (segsSize P) else
        findAct r (segsSize P + (Seg.act sa rid sta pa).size) Q).or
        (findAct r (segsSize P + (Seg.act sa rid sta pa).size + segsSize Q + (Seg.act sb rid stb pb).size) T)) := by
      have : S2 = P ++ (.act sa rid sta pa :: (Q ++ .free (actJunk sb rid stb pb) :: T)) := by simp [S2]
      rw [this, findAct_append, findAct_cons_act]
      simp only [Nat.zero_add]
      by_cases hr : rid = r
      · simp [hr]
      · simp only [hr, ↓reduceIte]
        rw [findAct_append, findAct_cons_free, free_junk_size]
    rw [hS2, hoT]
    by_cases hr : r = rid
    · subst hr
      rw [preAcc_idx P Q sa r _ hndQ hrid'.1.2]
      simp [(findAct_none_iff r _ P).mpr hrid'.1.1, (findAct_none_iff r _ T).mpr hrid'.2]
    · rw [if_neg (fun e => hr e.symm), preAcc_idx_other P Q sa rid _ hndP hndQ r hr]
      exact or3_comm _ _ _ (findAct_excl r P Q T _ _ _ hnd)
  · obtain ⟨g3, c3⟩ := preAcc_free P Q sa rid (Seg.act sa rid sta pa).size hP hQ
    have hnc : ∀ p, segsSize (P ++ .act sa rid sta pa :: Q) ≤ p →
        p < segsSize (P ++ .act sa rid sta pa :: Q) + (Seg.act sb rid stb pb).size →
        ¬ covers (preAcc P Q sa rid (Seg.act sa rid sta pa).size).free p := by
      intro p h1 h2 hc
      rw [hoT] at h1
      rcases (c3 p).mp hc with h | h
      · have := freeAt_bounds _ _ _ h; omega
      · have := freeAt_bounds _ _ _ h; omega
    obtain ⟨g4, c4⟩ := markFree_cov _ g3 _ (Seg.act sb rid stb pb).size (by omega) hnc
    obtain ⟨g5, c5, _⟩ := freeFold_cov T hTok
      (segsSize (P ++ .act sa rid sta pa :: Q) + (Seg.act sb rid stb pb).size) _ g4 (by
        intro p hp
        rcases (c4 p).mp hp with h | h
        · rw [hoT]
          rcases (c3 p).mp h with h | h
          · have := freeAt_bounds _ _ _ h; omega
          · have := freeAt_bounds _ _ _ h; omega
        · omega)
    refine ⟨g5, fun p => ?_⟩
    rw [c5 p, c4 p, c3 p, hoT]
    have : S2 = P ++ (.act sa rid sta pa :: (Q ++ .free (actJunk sb rid stb pb) :: T)) := by simp [S2]
    rw [this, freeAt_append, freeAt_act_cons, freeAt_append, freeAt_free_cons, free_junk_size]
    simp only [Nat.zero_add]
    constructor
    · rintro (((h | h) | h) | h)
      · exact Or.inl h
      · exact Or.inr (Or.inl h)
      · exact Or.inr (Or.inr (Or.inl h))
      · exact Or.inr (Or.inr (Or.inr h))
    · rintro (h | h | h | h)
      · exact Or.inl (Or.inl (Or.inl h))
      · exact Or.inl (Or.inl (Or.inr h))
      · exact Or.inl (Or.inr h)
      · exact Or.inr h


/-- **WriteRecord on an existing id**, with the shape of the intermediate file: after `writeAt` both
    versions are active (`a` before `b` in the file, one of them the new one), after `markFreed` the old
    one is a FREE segment -/
theorem write_over_shape (s : SF) (segs : List Seg) (h : Rep s segs) (rid : Bytes) (st : List Stream)
    (hnew : NewOK s.seq rid st)
    (hbig : s.file.length + expandBy s.file.length (Seg.act s.seq rid st 0).size < 4294967296)
    (hold : docOf rid segs ≠ none) :
    ∃ m P Q T sa sta pa sb stb pb, writeRecord s rid st = .ok m ∧
      (∀ x ∈ P ++ .act sa rid sta pa :: Q ++ .act sb rid stb pb :: T, x.OK) ∧
      (actRids (P ++ Q ++ T)).Nodup ∧ rid ∉ actRids (P ++ Q ++ T) ∧
      ((sb = s.seq ∧ Seg.act sa rid sta pa ∈ segs ∧
          Rep m.st (P ++ .free (actJunk sa rid sta pa) :: Q ++ .act sb rid stb pb :: T)) ∨
       (sa = s.seq ∧ Seg.act sb rid stb pb ∈ segs ∧
          Rep m.st (P ++ .act sa rid sta pa :: Q ++ .free (actJunk sb rid stb pb) :: T))) ∧
      (m.images = [("writeAt", render (P ++ .act sa rid sta pa :: Q ++ .act sb rid stb pb :: T)), ("markFreed", m.st.file)] ∨
       ∃ z, GrowOK s.file.length z ∧ m.images = [("grow", s.file ++ zeros z),
          ("writeAt", render (P ++ .act sa rid sta pa :: Q ++ .act sb rid stb pb :: T)), ("markFreed", m.st.file)]) := by
  obtain ⟨A, R, B, pad, F, imgs, e, hR, hF, _, hpl, hok1, hsz, himgs⟩ :=
    place_spec s.file s.free segs s.seq rid st h.lay hnew hbig
  cases hi : idxGet s.index rid with
  | none =>
    rw [h.index, findAct_none_iff, ← docOf_none_iff] at hi
    exact absurd hi hold
  | some old =>
  subst e
  have hfind := hi
  rw [h.index] at hfind
  simp only [findAct_append, findAct_allFree rid _ R hR, Option.or_none, Nat.zero_add, segsSize_append] at hfind
  have hnd := h.nodup
  simp only [actRids_append, actRids_allFree R hR, List.append_nil] at hnd
  have hlay1 : Lay (render (A ++ (.act s.seq rid st pad :: F) ++ B)) (runsOf (A ++ (.act s.seq rid st pad :: F) ++ B))
      (A ++ (.act s.seq rid st pad :: F) ++ B) := ⟨rfl, hok1, rfl⟩
  cases hfa : findAct rid 0 A with
  | some o =>
    -- the old version lies before the place of the new one
    rw [hfa] at hfind
    simp only [Option.some_or, Option.some.injEq] at hfind
    subst hfind
    obtain ⟨A1, seq0, st0, pad0, A2, eA, ho, hnA1⟩ := findAct_some rid 0 o A hfa
    subst eA
    simp only [actRids_append, actRids, List.append_assoc, List.cons_append] at hnd
    have hshape : A1 ++ .act seq0 rid st0 pad0 :: A2 ++ (.act s.seq rid st pad :: F) ++ B =
        A1 ++ .act seq0 rid st0 pad0 :: (A2 ++ (.act s.seq rid st pad :: F) ++ B) := by simp [List.append_assoc]
    rw [hshape] at hlay1 hpl
    obtain ⟨hret, hok2⟩ := retire_spec _ _ A1 _ seq0 rid st0 pad0 hlay1
    have hmem := hnd
    simp only [List.nodup_append, List.nodup_cons, List.mem_append, List.mem_cons, not_or] at hmem
    have hnA2 : rid ∉ actRids A2 := hmem.2.1.1.1
    have hnB : rid ∉ actRids B := hmem.2.1.1.2
    have hlistA : A1 ++ .free (actJunk seq0 rid st0 pad0) :: (A2 ++ (.act s.seq rid st pad :: F) ++ B) =
        A1 ++ .free (actJunk seq0 rid st0 pad0) :: A2 ++ .act s.seq rid st pad :: (F ++ B) := by simp [List.append_assoc]
    have hlistA1 : A1 ++ .act seq0 rid st0 pad0 :: (A2 ++ (.act s.seq rid st pad :: F) ++ B) =
        A1 ++ .act seq0 rid st0 pad0 :: A2 ++ .act s.seq rid st pad :: (F ++ B) := by simp [List.append_assoc]
    have hrF : actRids (F ++ B) = actRids B := by rw [actRids_append, actRids_allFree F hF]; rfl
    refine ⟨{ st := { file := render (A1 ++ .free (actJunk seq0 rid st0 pad0) :: (A2 ++ (.act s.seq rid st pad :: F) ++ B)),
                      index := idxSet s.index rid (segsSize (A1 ++ .act seq0 rid st0 pad0 :: A2)),
                      free := runsOf (A1 ++ .free (actJunk seq0 rid st0 pad0) :: (A2 ++ (.act s.seq rid st pad :: F) ++ B)),
                      seq := (s.seq + 1) % 4294967296 },
              images := imgs ++ [("markFreed", render (A1 ++ .free (actJunk seq0 rid st0 pad0) :: (A2 ++ (.act s.seq rid st pad :: F) ++ B)))] },
      A1, A2, F ++ B, seq0, st0, pad0, s.seq, st, pad, ?_, ?_, ?_, ?_, Or.inl ⟨rfl, by simp, ?_⟩, ?_⟩
    rotate_left
    · rw [← hlistA1]; exact hlay1.ok
    · simp only [actRids_append, hrF, List.append_assoc]
      simp only [List.nodup_append, List.nodup_cons, List.mem_append, List.mem_cons, not_or] at hmem ⊢
      exact ⟨hmem.1, ⟨hmem.2.1.2.1, hmem.2.1.2.2.1, hmem.2.1.2.2.2⟩, fun a ha b hb => hmem.2.2 a ha b (by
        rcases hb with hb | hb
        · exact Or.inr (Or.inl hb)
        · exact Or.inr (Or.inr hb))⟩
    · simp only [actRids_append, hrF, List.mem_append, not_or]
      exact ⟨⟨hnA1, hnA2⟩, hnB⟩
    · rw [← hlistA]
      refine ⟨⟨rfl, hok2, rfl⟩, ?_, ?_, Nat.mod_lt _ (by decide)⟩
      · simp only [actRids_append, actRids, actRids_allFree F hF, List.append_assoc, List.cons_append, List.nil_append]
        exact (nodup_move _ _ _ _).mp hnd
      · intro r
        simp only [idxGet_idxSet, h.index, findAct_append, findAct_cons_act, findAct_cons_free, free_junk_size,
          findAct_block r _ _ _ _ _ F hF, findAct_allFree r _ R hR, segsSize_append, Nat.zero_add,
          Option.or_none, Option.or_assoc]
        by_cases hr : r = rid
        · subst hr
          simp [(findAct_none_iff r 0 A1).mpr hnA1, (findAct_none_iff r _ A2).mpr hnA2, segsSize_cons, Nat.add_assoc]
        · have hr' : ¬ rid = r := fun e => hr e.symm
          simp only [hr, hr', ↓reduceIte, Option.or_none, Option.none_or, segsSize_cons (Seg.act seq0 rid st0 pad0)]
          rcases hsz with hsz | hB
          · rw [← hsz]
            simp only [Nat.add_assoc]
          · subst hB; simp [findAct]
    · rw [← hlistA1]
      rcases himgs with rfl | ⟨z, hz, rfl⟩
      · exact Or.inl (by simp [List.append_assoc])
      · exact Or.inr ⟨z, hz, by simp [List.append_assoc]⟩
    · simp only [writeRecord, hpl, hi]
      have : o = segsSize A1 := by omega
      rw [this, hret]
  | none =>
    -- the old version lies behind the place of the new one
    rw [hfa] at hfind
    simp only [Option.none_or] at hfind
    obtain ⟨B1, seq0, st0, pad0, B2, eB, ho, hnB1⟩ := findAct_some rid _ old B hfind
    subst eB
    have hszR : segsSize (Seg.act s.seq rid st pad :: F) = segsSize R := by
      rcases hsz with h | h
      · exact h
      · simp at h
    have hnA : rid ∉ actRids A := (findAct_none_iff rid 0 A).mp hfa
    simp only [actRids_append, actRids, List.append_assoc, List.cons_append] at hnd
    have hshape : A ++ (.act s.seq rid st pad :: F) ++ (B1 ++ .act seq0 rid st0 pad0 :: B2) =
        (A ++ (.act s.seq rid st pad :: F) ++ B1) ++ .act seq0 rid st0 pad0 :: B2 := by simp [List.append_assoc]
    rw [hshape] at hlay1 hpl
    obtain ⟨hret, hok2⟩ := retire_spec _ _ (A ++ (.act s.seq rid st pad :: F) ++ B1) B2 seq0 rid st0 pad0 hlay1
    have hmem := hnd
    simp only [List.nodup_append, List.nodup_cons, List.mem_append, List.mem_cons, not_or] at hmem
    have hnB2 : rid ∉ actRids B2 := hmem.2.1.2.1.1
    have hold_off : old = segsSize (A ++ (.act s.seq rid st pad :: F) ++ B1) := by
      rw [segsSize_append, segsSize_append, hszR]; omega
    have hlistB : (A ++ (.act s.seq rid st pad :: F) ++ B1) ++ .free (actJunk seq0 rid st0 pad0) :: B2 =
        A ++ .act s.seq rid st pad :: (F ++ B1) ++ .free (actJunk seq0 rid st0 pad0) :: B2 := by simp [List.append_assoc]
    have hlistB1 : (A ++ (.act s.seq rid st pad :: F) ++ B1) ++ .act seq0 rid st0 pad0 :: B2 =
        A ++ .act s.seq rid st pad :: (F ++ B1) ++ .act seq0 rid st0 pad0 :: B2 := by simp [List.append_assoc]
    have hrF : actRids (F ++ B1) = actRids B1 := by rw [actRids_append, actRids_allFree F hF]; rfl
    refine ⟨{ st := { file := render ((A ++ (.act s.seq rid st pad :: F) ++ B1) ++ .free (actJunk seq0 rid st0 pad0) :: B2),
                      index := idxSet s.index rid (segsSize A),
                      free := runsOf ((A ++ (.act s.seq rid st pad :: F) ++ B1) ++ .free (actJunk seq0 rid st0 pad0) :: B2),
                      seq := (s.seq + 1) % 4294967296 },
              images := imgs ++ [("markFreed", render ((A ++ (.act s.seq rid st pad :: F) ++ B1) ++ .free (actJunk seq0 rid st0 pad0) :: B2))] },
      A, F ++ B1, B2, s.seq, st, pad, seq0, st0, pad0, ?_, ?_, ?_, ?_, Or.inr ⟨rfl, by simp, ?_⟩, ?_⟩
    rotate_left
    · rw [← hlistB1]; exact hlay1.ok
    · have e : actRids (A ++ (F ++ B1) ++ B2) = actRids A ++ (actRids B1 ++ actRids B2) := by
        simp [actRids_append, actRids_allFree F hF]
      rw [e]
      have hsub : (actRids A ++ (actRids B1 ++ actRids B2)).Sublist (actRids A ++ (actRids B1 ++ rid :: actRids B2)) :=
        ((List.sublist_cons_self rid _).append_left _).append_left _
      exact List.Nodup.sublist hsub hnd
    · simp only [actRids_append, hrF, List.mem_append, not_or]
      exact ⟨⟨hnA, hnB1⟩, hnB2⟩
    · rw [← hlistB]
      refine ⟨⟨rfl, hok2, rfl⟩, ?_, ?_, Nat.mod_lt _ (by decide)⟩
      · simp only [actRids_append, actRids, actRids_allFree F hF, List.append_assoc, List.cons_append, List.nil_append]
        exact (nodup_move _ _ _ _).mpr hnd
      · intro r
        simp only [idxGet_idxSet, h.index, findAct_append, findAct_cons_act, findAct_cons_free, free_junk_size,
          findAct_block r _ _ _ _ _ F hF, findAct_allFree r _ R hR, segsSize_append, Nat.zero_add,
          Option.or_none, Option.or_assoc, hszR]
        by_cases hr : r = rid
        · subst hr
          simp [(findAct_none_iff r 0 A).mpr hnA]
        · have hr' : ¬ rid = r := fun e => hr e.symm
          simp only [hr, hr', ↓reduceIte, Option.or_none, Option.none_or]
    · rw [← hlistB1]
      rcases himgs with rfl | ⟨z, hz, rfl⟩
      · exact Or.inl (by simp [List.append_assoc])
      · exact Or.inr ⟨z, hz, by simp [List.append_assoc]⟩
    · simp only [writeRecord, hpl, hi]
      rw [hold_off, hret]


theorem acc0_eq : acc0 = { index := [], seqs := [], free := [], highest := 0 } := rfl

/-- two states that satisfy the invariant for the same bytes and index stand for the same store -/
theorem rep_docOf_unique (s : SF) (X Y : List Seg) (hX : Rep s X) (hY : Rep s Y) (r : Bytes) : docOf r X = docOf r Y := by
  have h1 := read_refines s X hX r
  have h2 := read_refines s Y hY r
  cases hx : docOf r X with
  | none =>
    cases hy : docOf r Y with
    | none => rfl
    | some st =>
      obtain ⟨sp, e, _⟩ := h2.2 st hy
      rw [h1.1 hx] at e; cases e
  | some st =>
    cases hy : docOf r Y with
    | none =>
      obtain ⟨sp, e, _⟩ := h1.2 st hx
      rw [h2.1 hy] at e; cases e
    | some st' =>
      obtain ⟨sp, e, _, e1⟩ := h1.2 st hx
      obtain ⟨sp', e', _, e2⟩ := h2.2 st' hy
      rw [e] at e'
      cases e'
      rw [← e1, ← e2]

/-- **recovery, newer version later in the file** -/
theorem recover_second_wins (P Q T : List Seg) (sa sb : Nat) (rid : Bytes) (sta stb : List Stream) (pa pb : Nat)
    (hok : ∀ x ∈ P ++ .act sa rid sta pa :: Q ++ .act sb rid stb pb :: T, x.OK)
    (hnd : (actRids (P ++ Q ++ T)).Nodup) (hrid : rid ∉ actRids (P ++ Q ++ T)) (hnew : sb > sa) :
    ∃ s', scanFile (render (P ++ .act sa rid sta pa :: Q ++ .act sb rid stb pb :: T)) false = .ok s' ∧
      s'.file = render (P ++ .free (actJunk sa rid sta pa) :: Q ++ .act sb rid stb pb :: T) ∧
      Rep s' (P ++ .free (actJunk sa rid sta pa) :: Q ++ .act sb rid stb pb :: T) := by
  obtain ⟨h1, h2, h3, h4⟩ := scan_dup_second_wins P Q T sa sb rid sta stb pa pb hok hnd hrid hnew
  have hsf := scanFile_render _ hok 0 false
  simp only [zeros, List.replicate_zero, List.append_nil, ← acc0_eq] at hsf
  have hP : ∀ x ∈ P, x.OK := fun x hx => hok x (by simp [hx])
  have ha : (Seg.act sa rid sta pa).OK := hok _ (by simp)
  have hok2 : ∀ x ∈ P ++ .free (actJunk sa rid sta pa) :: Q ++ .act sb rid stb pb :: T, x.OK := by
    intro x hx
    simp only [List.mem_append, List.mem_cons] at hx
    rcases hx with (hx | rfl | hx) | rfl | hx
    · exact hok x (by simp [hx])
    · exact free_of_act_ok _ _ _ _ ha
    · exact hok x (by simp [hx])
    · exact hok _ (by simp)
    · exact hok x (by simp [hx])
  have hfile : applyPatches (render (P ++ .act sa rid sta pa :: Q ++ .act sb rid stb pb :: T))
      ([(segsSize P, be32 freeMagic)] ++ tailPatch false (segsSize (P ++ .act sa rid sta pa :: Q ++ .act sb rid stb pb :: T)) 0) =
      render (P ++ .free (actJunk sa rid sta pa) :: Q ++ .act sb rid stb pb :: T) := by
    have e1 : P ++ .act sa rid sta pa :: Q ++ .act sb rid stb pb :: T = P ++ .act sa rid sta pa :: (Q ++ .act sb rid stb pb :: T) := by simp
    have e2 : P ++ .free (actJunk sa rid sta pa) :: Q ++ .act sb rid stb pb :: T =
        P ++ .free (actJunk sa rid sta pa) :: (Q ++ .act sb rid stb pb :: T) := by simp
    simp only [tailPatch, minSpanLength, Nat.zero_lt_succ, or_true, ↓reduceIte, List.append_nil, applyPatches, List.foldl_cons,
      List.foldl_nil]
    rw [e1, e2]
    exact splice_retire P _ sa rid sta pa hP ha
  refine ⟨_, hsf, ?_, ?_⟩
  · simp only [h1]; exact hfile
  · refine ⟨⟨by simp only [h1]; exact hfile, hok2, ?_⟩, ?_, ?_, Nat.mod_lt _ (by decide)⟩
    · simp only [markFree_zero]
      exact free_eq_runsOf _ hok2 _ h3 h4
    · have : actRids (P ++ .free (actJunk sa rid sta pa) :: Q ++ .act sb rid stb pb :: T) =
          actRids P ++ (actRids Q ++ rid :: actRids T) := by simp [actRids_append, actRids]
      rw [this]
      have h0 : (rid :: (actRids P ++ (actRids Q ++ actRids T))).Nodup := by
        rw [List.nodup_cons]
        refine ⟨by simpa [actRids_append] using hrid, by simpa [actRids_append] using hnd⟩
      have hp : (actRids P ++ (actRids Q ++ rid :: actRids T)).Perm (rid :: (actRids P ++ (actRids Q ++ actRids T))) := by
        rw [← List.append_assoc, ← List.append_assoc]
        exact List.perm_middle
      exact hp.symm.nodup h0
    · exact h2

/-- **recovery, newer version earlier in the file** -/
theorem recover_first_wins (P Q T : List Seg) (sa sb : Nat) (rid : Bytes) (sta stb : List Stream) (pa pb : Nat)
    (hok : ∀ x ∈ P ++ .act sa rid sta pa :: Q ++ .act sb rid stb pb :: T, x.OK)
    (hnd : (actRids (P ++ Q ++ T)).Nodup) (hrid : rid ∉ actRids (P ++ Q ++ T)) (hold : ¬ sb > sa) :
    ∃ s', scanFile (render (P ++ .act sa rid sta pa :: Q ++ .act sb rid stb pb :: T)) false = .ok s' ∧
      s'.file = render (P ++ .act sa rid sta pa :: Q ++ .free (actJunk sb rid stb pb) :: T) ∧
      Rep s' (P ++ .act sa rid sta pa :: Q ++ .free (actJunk sb rid stb pb) :: T) := by
  obtain ⟨h1, h2, h3, h4⟩ := scan_dup_first_wins P Q T sa sb rid sta stb pa pb hok hnd hrid hold
  have hsf := scanFile_render _ hok 0 false
  simp only [zeros, List.replicate_zero, List.append_nil, ← acc0_eq] at hsf
  have hPaQ : ∀ x ∈ P ++ .act sa rid sta pa :: Q, x.OK := fun x hx => hok x (by
    simp only [List.mem_append, List.mem_cons] at hx ⊢; rcases hx with h | h | h
    · exact Or.inl (Or.inl h)
    · exact Or.inl (Or.inr (Or.inl h))
    · exact Or.inl (Or.inr (Or.inr h)))
  have hb : (Seg.act sb rid stb pb).OK := hok _ (by simp)
  have hok2 : ∀ x ∈ P ++ .act sa rid sta pa :: Q ++ .free (actJunk sb rid stb pb) :: T, x.OK := by
    intro x hx
    simp only [List.mem_append, List.mem_cons] at hx
    rcases hx with (hx | rfl | hx) | rfl | hx
    · exact hok x (by simp [hx])
    · exact hok _ (by simp)
    · exact hok x (by simp [hx])
    · exact free_of_act_ok _ _ _ _ hb
    · exact hok x (by simp [hx])
  have hfile : applyPatches (render (P ++ .act sa rid sta pa :: Q ++ .act sb rid stb pb :: T))
      ([(segsSize (P ++ .act sa rid sta pa :: Q), be32 freeMagic)] ++
        tailPatch false (segsSize (P ++ .act sa rid sta pa :: Q ++ .act sb rid stb pb :: T)) 0) =
      render (P ++ .act sa rid sta pa :: Q ++ .free (actJunk sb rid stb pb) :: T) := by
    simp only [tailPatch, minSpanLength, Nat.zero_lt_succ, or_true, ↓reduceIte, List.append_nil, applyPatches, List.foldl_cons,
      List.foldl_nil]
    exact splice_retire (P ++ .act sa rid sta pa :: Q) T sb rid stb pb hPaQ hb
  refine ⟨_, hsf, ?_, ?_⟩
  · simp only [h1]; exact hfile
  · refine ⟨⟨by simp only [h1]; exact hfile, hok2, ?_⟩, ?_, ?_, Nat.mod_lt _ (by decide)⟩
    · simp only [markFree_zero]
      exact free_eq_runsOf _ hok2 _ h3 h4
    · have : actRids (P ++ .act sa rid sta pa :: Q ++ .free (actJunk sb rid stb pb) :: T) =
          actRids P ++ rid :: (actRids Q ++ actRids T) := by simp [actRids_append, actRids]
      rw [this]
      have h0 : (rid :: (actRids P ++ (actRids Q ++ actRids T))).Nodup := by
        rw [List.nodup_cons]
        refine ⟨by simpa [actRids_append] using hrid, by simpa [actRids_append] using hnd⟩
      exact (List.perm_middle).symm.nodup h0
    · exact h2


/-- **recovery after a crash right after the file was grown**: the zero tail becomes one FREE segment;
    the store is the one before the operation -/
theorem recover_grow (s : SF) (segs : List Seg) (h : Rep s segs) (z : Nat) (hz : GrowOK s.file.length z) :
    ∃ s', scanFile (s.file ++ zeros z) false = .ok s' ∧ Rep s' (segs ++ [.free (zeros (z - 8))]) ∧
      ∀ r, docOf r (segs ++ [.free (zeros (z - 8))]) = docOf r segs := by
  obtain ⟨hfile, hok, _⟩ := h.lay
  obtain ⟨hz1, hz2⟩ := hz
  have hsf := scanFile_render segs hok z false
  simp only [← acc0_eq] at hsf
  rw [scanSegs_stretch _ _ segs 0 acc0 h.nodup (by simp [acc0]) (by simp [acc0])] at hsf
  simp only [acc0, List.nil_append] at hsf
  have hfo : (Seg.free (zeros (z - 8))).OK := by
    rw [hfile, render_length _ hok] at hz2
    simp only [Seg.OK, zeros_length, minSpanLength]
    constructor <;> omega
  have hok2 : ∀ x ∈ segs ++ [Seg.free (zeros (z - 8))], x.OK := by
    intro x hx
    rcases List.mem_append.mp hx with hx | hx
    · exact hok x hx
    · simp at hx; subst hx; exact hfo
  have htp : tailPatch false (segsSize segs) z = [(segsSize segs, be32 freeMagic ++ be32 (z % 4294967296))] := by
    have : ¬ z < minSpanLength := by simp only [minSpanLength]; omega
    simp [tailPatch, this]
  have hfile2 : applyPatches (render segs ++ zeros z) (tailPatch false (segsSize segs) z) =
      render (segs ++ [Seg.free (zeros (z - 8))]) := by
    rw [htp]
    simp only [applyPatches, List.foldl_cons, List.foldl_nil]
    have hzs : zeros z = zeros 8 ++ zeros (z - 8) := by rw [← zeros_append]; congr 1; omega
    have := splice_at (render segs) (zeros 8) (zeros (z - 8)) (be32 freeMagic ++ be32 (z % 4294967296)) (by simp [be32_length, zeros_length])
    rw [render_length _ hok] at this
    rw [hzs, ← List.append_assoc, this, render_append]
    have hmod : (8 + (zeros (z - 8)).length) % 4294967296 = z % 4294967296 := by
      rw [zeros_length]; congr 1; omega
    simp only [render_cons, render_nil, Seg.bytes, hmod, List.append_assoc, List.append_nil]
  refine ⟨_, by rw [hfile]; exact hsf, ?_, ?_⟩
  · refine ⟨⟨hfile2, hok2, ?_⟩, ?_, ?_, Nat.mod_lt _ (by decide)⟩
    · simp only
      obtain ⟨g1, c1, b1⟩ := freeFold_cov segs hok 0 [] ⟨by simp, by simp⟩ (by intro p hp; simp [covers] at hp)
      obtain ⟨g2, c2⟩ := markFree_cov _ g1 (segsSize segs) z (by omega) (by
        intro p h1 _ hc
        have := b1 p hc
        omega)
      apply free_eq_runsOf _ hok2 _ g2
      intro p
      rw [c2 p, c1 p, freeAt_append, freeAt_free_cons]
      have hfs : (Seg.free (zeros (z - 8))).size = z := by
        simp only [Seg.size, zeros_length]; omega
      simp only [hfs, Nat.zero_add, freeAt, or_false]
      simp [covers]
    · rw [actRids_append]
      simpa [actRids] using h.nodup
    · intro r
      simp only
      rw [idxGet_indexRev r segs 0 [] h.nodup, findAct_append, findAct_cons_free]
      simp [idxGet, findAct]
  · intro r
    rw [docOf_append, docOf_cons_free]
    simp [docOf]


/-- every stored version carries a sequence number below the counter -/
def SeqBelow (n : Nat) (segs : List Seg) : Prop := ∀ q r t p, Seg.act q r t p ∈ segs → q < n

/-- **a crash at any storage step of `WriteRecord`**: recovery (a writable open of the crash image)
    succeeds, re-establishes the representation invariant — so the file is a well-formed chain, no id
    is active twice and the free map is exact — and the recovered store is the store before the write or
    the store after it: the written document has its old or its new content, every other document is
    unchanged -/
theorem write_crash_safe (s : SF) (segs : List Seg) (h : Rep s segs) (hseq : SeqBelow s.seq segs)
    (rid : Bytes) (st : List Stream) (hnew : NewOK s.seq rid st)
    (hbig : s.file.length + expandBy s.file.length (Seg.act s.seq rid st 0).size < 4294967296) :
    ∃ m, writeRecord s rid st = .ok m ∧
      ∀ img ∈ m.images, ∃ s' segs', scanFile img.2 false = .ok s' ∧ Rep s' segs' ∧
        ((∀ r, docOf r segs' = docOf r segs) ∨ (∀ r, docOf r segs' = if r = rid then some st else docOf r segs)) := by
  by_cases hd : docOf rid segs = none
  · obtain ⟨m, segs', h1, h2, h3, _, himgs, _⟩ := write_fresh s segs h rid st hnew hbig hd
    refine ⟨m, h1, ?_⟩
    have hfinal : ∃ s' segs'', scanFile m.st.file false = .ok s' ∧ Rep s' segs'' ∧
        ((∀ r, docOf r segs'' = docOf r segs) ∨ (∀ r, docOf r segs'' = if r = rid then some st else docOf r segs)) := by
      obtain ⟨s', e1, _, e3⟩ := reopen_refines m.st segs' h2 false
      exact ⟨s', segs', e1, e3, Or.inr h3⟩
    intro img himg
    rcases himgs with e | ⟨z, hz, e⟩
    · rw [e] at himg; simp at himg; subst himg; exact hfinal
    · rw [e] at himg; simp at himg
      rcases himg with rfl | rfl
      · obtain ⟨s', e1, e2, e3⟩ := recover_grow s segs h z hz
        exact ⟨s', _, e1, e2, Or.inl e3⟩
      · exact hfinal
  · obtain ⟨m, segs', mid, h1, h2, h3, _⟩ := write_over s segs h rid st hnew hbig hd
    obtain ⟨m', P, Q, T, sa, sta, pa, sb, stb, pb, h1', hokS1, hnd, hrid, hcase, himgs⟩ :=
      write_over_shape s segs h rid st hnew hbig hd
    rw [h1] at h1'
    cases h1'
    refine ⟨m, h1, ?_⟩
    -- the final file and the file with both versions recover to the same segments
    have hboth : ∃ S2, Rep m.st S2 ∧
        (∃ s', scanFile (render (P ++ .act sa rid sta pa :: Q ++ .act sb rid stb pb :: T)) false = .ok s' ∧ Rep s' S2) := by
      rcases hcase with ⟨hsb, hmem, hRep⟩ | ⟨hsa, hmem, hRep⟩
      · have hlt : sb > sa := by rw [hsb]; exact hseq _ _ _ _ hmem
        obtain ⟨s', e1, _, e3⟩ := recover_second_wins P Q T sa sb rid sta stb pa pb hokS1 hnd hrid hlt
        exact ⟨_, hRep, s', e1, e3⟩
      · have hlt : ¬ sb > sa := by rw [hsa]; have := hseq _ _ _ _ hmem; omega
        obtain ⟨s', e1, _, e3⟩ := recover_first_wins P Q T sa sb rid sta stb pa pb hokS1 hnd hrid hlt
        exact ⟨_, hRep, s', e1, e3⟩
    obtain ⟨S2, hRep2, s1, hs1, hRep1⟩ := hboth
    have hdoc : ∀ r, docOf r S2 = if r = rid then some st else docOf r segs := by
      intro r; rw [rep_docOf_unique m.st S2 segs' hRep2 h2 r]; exact h3 r
    have hfinal : ∃ s' segs'', scanFile m.st.file false = .ok s' ∧ Rep s' segs'' ∧
        ((∀ r, docOf r segs'' = docOf r segs) ∨ (∀ r, docOf r segs'' = if r = rid then some st else docOf r segs)) := by
      obtain ⟨s', e1, _, e3⟩ := reopen_refines m.st S2 hRep2 false
      exact ⟨s', S2, e1, e3, Or.inr hdoc⟩
    intro img himg
    rcases himgs with e | ⟨z, hz, e⟩
    · rw [e] at himg; simp at himg
      rcases himg with rfl | rfl
      · exact ⟨s1, S2, by simpa using hs1, hRep1, Or.inr hdoc⟩
      · exact hfinal
    · rw [e] at himg; simp at himg
      rcases himg with rfl | rfl | rfl
      · obtain ⟨s', e1, e2, e3⟩ := recover_grow s segs h z hz
        exact ⟨s', _, e1, e2, Or.inl e3⟩
      · exact ⟨s1, S2, by simpa using hs1, hRep1, Or.inr hdoc⟩
      · exact hfinal

/-- **a crash at the storage step of `RemoveRecord`**: the only step is the final one -/
theorem remove_crash_safe (s : SF) (segs : List Seg) (h : Rep s segs) (rid : Bytes) (hd : docOf rid segs ≠ none) :
    ∃ m, removeRecord s rid = .ok m ∧
      ∀ img ∈ m.images, ∃ s' segs', scanFile img.2 false = .ok s' ∧ Rep s' segs' ∧
        (∀ r, docOf r segs' = if r = rid then none else docOf r segs) := by
  obtain ⟨m, segs', h1, h2, h3, himgs, _⟩ := (remove_refines s segs h rid).2 hd
  refine ⟨m, h1, ?_⟩
  intro img himg
  rw [himgs] at himg; simp at himg; subst himg
  obtain ⟨s', e1, _, e3⟩ := reopen_refines m.st segs' h2 false
  exact ⟨s', segs', e1, e3, h3⟩

/-- the sequence-number invariant is kept by every operation, as long as the 32-bit counter does not wrap -/
theorem seqBelow_step (s : SF) (segs : List Seg) (h : Rep s segs) (hseq : SeqBelow s.seq segs) (op : Op) (hf : Fits s op)
    (hw : s.seq + 1 < 4294967296) :
    (∃ m segs', stepSF s op = .ok m ∧ Rep m.st segs' ∧ SeqBelow m.st.seq segs' ∧
      (∀ r, docOf r segs' = specStep (fun r => docOf r segs) op r)) ∨
    (∃ rid, op = .remove rid ∧ docOf rid segs = none ∧ stepSF s op = .err "record not found") := by
  cases op with
  | write rid st =>
    obtain ⟨hnew, hbig⟩ := hf
    left
    by_cases hd : docOf rid segs = none
    · obtain ⟨m, segs', h1, h2, h3, h4, _, h6⟩ := write_fresh s segs h rid st hnew hbig hd
      refine ⟨m, segs', h1, h2, ?_, h3⟩
      intro q r t p hm
      rw [h4, Nat.mod_eq_of_lt hw]
      rcases h6 q r t p hm with h | h
      · have := hseq q r t p h; omega
      · omega
    · obtain ⟨m, segs', _, h1, h2, h3, h4, _, h6⟩ := write_over s segs h rid st hnew hbig hd
      refine ⟨m, segs', h1, h2, ?_, h3⟩
      intro q r t p hm
      rw [h4, Nat.mod_eq_of_lt hw]
      rcases h6 q r t p hm with h | h
      · have := hseq q r t p h; omega
      · omega
  | remove rid =>
    by_cases hd : docOf rid segs = none
    · right
      exact ⟨rid, rfl, hd, (remove_refines s segs h rid).1 hd⟩
    · left
      obtain ⟨m, segs', h1, h2, h3, _, h5, h6⟩ := (remove_refines s segs h rid).2 hd
      refine ⟨m, segs', h1, h2, ?_, h3⟩
      intro q r t p hm
      rw [h5]
      exact hseq q r t p (h6 q r t p hm)


/-- `FitsAll` plus: the 32-bit sequence counter does not wrap during the run (2^32 - 1 writes) -/
def FitsAllW : SF → List Op → Prop
  | _, [] => True
  | s, op :: ops => Fits s op ∧ s.seq + 1 < 4294967296 ∧ FitsAllW (applyOp s op) ops

/-- the invariants of every reachable state: representation invariant and sequence numbers below the counter -/
theorem run_inv (ops : List Op) (s : SF) (segs : List Seg) (h : Rep s segs) (hseq : SeqBelow s.seq segs)
    (hf : FitsAllW s ops) :
    ∃ segs', Rep (ops.foldl applyOp s) segs' ∧ SeqBelow (ops.foldl applyOp s).seq segs' ∧
      ∀ r, docOf r segs' = ops.foldl specStep (fun r => docOf r segs) r := by
  induction ops generalizing s segs with
  | nil => exact ⟨segs, h, hseq, fun _ => rfl⟩
  | cons op ops ih =>
    obtain ⟨hf1, hw, hf2⟩ := hf
    simp only [List.foldl_cons]
    rcases seqBelow_step s segs h hseq op hf1 hw with ⟨m, segs', h1, h2, h2', h3⟩ | ⟨rid, hop, hd, herr⟩
    · have ha : applyOp s op = m.st := by simp [applyOp, h1]
      rw [ha] at hf2 ⊢
      obtain ⟨segs'', h4, h4', h5⟩ := ih m.st segs' h2 h2' hf2
      refine ⟨segs'', h4, h4', fun r => ?_⟩
      rw [h5 r]
      have : (fun r => docOf r segs') = specStep (fun r => docOf r segs) op := funext h3
      rw [this]
    · have ha : applyOp s op = s := by simp [applyOp, herr]
      rw [ha] at hf2 ⊢
      obtain ⟨segs'', h4, h4', h5⟩ := ih s segs h hseq hf2
      refine ⟨segs'', h4, h4', fun r => ?_⟩
      rw [h5 r]
      have : (fun r => docOf r segs) = specStep (fun r => docOf r segs) op := by
        funext r'
        subst hop
        simp only [specStep]
        split
        · rename_i e; subst e; exact hd
        · rfl
      rw [← this]

/-- **a crash during a write in any reachable state**: whatever history led to the state, a writable
    open of any crash image of the next `WriteRecord` yields a state that satisfies the representation
    invariant and stands for the store before or after that write -/
theorem crash_after_any_history (ops : List Op) (s : SF) (segs : List Seg) (h : Rep s segs) (hseq : SeqBelow s.seq segs)
    (hf : FitsAllW s ops) (rid : Bytes) (st : List Stream) (hfit : Fits (ops.foldl applyOp s) (.write rid st)) :
    ∃ m, writeRecord (ops.foldl applyOp s) rid st = .ok m ∧
      ∀ img ∈ m.images, ∃ s' segs', scanFile img.2 false = .ok s' ∧ Rep s' segs' ∧
        ((∀ r, docOf r segs' = ops.foldl specStep (fun r => docOf r segs) r) ∨
         (∀ r, docOf r segs' = (ops ++ [Op.write rid st]).foldl specStep (fun r => docOf r segs) r)) := by
  obtain ⟨segs1, h1, h1', h2⟩ := run_inv ops s segs h hseq hf
  obtain ⟨m, hm, himg⟩ := write_crash_safe _ segs1 h1 h1' rid st hfit.1 hfit.2
  refine ⟨m, hm, fun img hi => ?_⟩
  obtain ⟨s', segs', e1, e2, e3⟩ := himg img hi
  refine ⟨s', segs', e1, e2, ?_⟩
  rcases e3 with e3 | e3
  · exact Or.inl (fun r => by rw [e3 r, h2 r])
  · refine Or.inr (fun r => ?_)
    rw [e3 r, List.foldl_append]
    simp only [List.foldl_cons, List.foldl_nil, specStep]
    split
    · rfl
    · exact h2 r

/-- the initial state of a new file satisfies the sequence-number invariant -/
theorem init_seqBelow : ∃ s0, openFile none .createIfNotExists = .ok s0 ∧ Rep s0 [.act 0 [] [] 0] ∧
    SeqBelow s0.seq [.act 0 [] [] 0] := by
  obtain ⟨s0, h1, h2, _⟩ := init_refines
  refine ⟨s0, h1, h2, ?_⟩
  have hq := scanFile_quiescent [Seg.act 0 [] [] 0] h2.lay.ok (by simp [actRids]) false
  have hinit : initialSpan = render [Seg.act 0 [] [] 0] := by
    simp [initialSpan, render, Seg.bytes, actBytes, serializeSpan_eq]
  have : openFile none .createIfNotExists = scanFile initialSpan false := by
    unfold openFile
    simp only [Option.getD_none, List.isEmpty_nil, Bool.not_true, Bool.false_eq_true, false_and, true_and, ↓reduceIte,
      reduceCtorEq, decide_false]
  rw [this, hinit, hq] at h1
  cases h1
  intro q r t p hm
  simp at hm
  obtain ⟨rfl, _⟩ := hm
  simp [maxSeq]

end Syzgy
