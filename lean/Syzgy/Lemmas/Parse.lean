import Syzgy.Lemmas.Codec
import Syzgy.Model.Segments
/-! `parseSpan` inverts `actBytes` (serialize + padding + checksum), with arbitrary bytes following. -/
namespace Syzgy

theorem zeros_length (n : Nat) : (zeros n).length = n := by simp [zeros]

theorem checksum_lt (b : Bytes) : checksum b < 4294967296 := by
  unfold checksum; exact BitVec.isLt _

theorem streamBytes_length (s : Stream) : (streamBytes s).length = 1 + len7 s.data.length + s.data.length := by
  simp [streamBytes, enc7_length]; omega

theorem verify_append_crc (pre : Bytes) : verifyChecksum (pre ++ be32 (checksum pre)) = true := by
  unfold verifyChecksum
  have hl : (pre ++ be32 (checksum pre)).length = pre.length + 4 := by simp [be32_length]
  simp only [hl]
  have h4 : ¬ (pre.length + 4 < 4) := by omega
  simp only [h4, ↓reduceIte, Nat.add_sub_cancel, rd32At]
  rw [List.drop_left, List.take_left]
  have := rd32_be32 (checksum pre) (checksum_lt pre) []
  simp only [List.append_nil] at this
  rw [this]
  simp

theorem parseStreams_flatMap (streams : List Stream) (hs : ∀ s ∈ streams, StreamOK s)
    (tail : Bytes) (acc : List Stream) :
    parseStreams streams.length (streams.flatMap streamBytes ++ tail) acc = .ok (acc.reverse ++ streams, tail) := by
  induction streams generalizing acc with
  | nil => simp [parseStreams]
  | cons s ss ih =>
    obtain ⟨hid, hlen⟩ := hs s (by simp)
    simp only [List.length_cons, List.flatMap_cons, streamBytes, List.cons_append, List.append_assoc, parseStreams]
    rw [dec7_enc7 _ hlen]
    simp only
    have hd : (enc7 s.data.length ++ (s.data ++ (ss.flatMap streamBytes ++ tail))).drop (len7 s.data.length)
        = s.data ++ (ss.flatMap streamBytes ++ tail) := by
      rw [← enc7_length, List.drop_left]
    rw [hd]
    have h1 : ¬ (s.data.length ≥ 9223372036854775808) := by omega
    have h2 : ¬ (s.data.length > (s.data ++ (ss.flatMap streamBytes ++ tail)).length) := by simp
    simp only [h1, h2, ↓reduceIte, List.take_left, List.drop_left]
    rw [ih (fun x hx => hs x (by simp [hx]))]
    have : (s.id % 256).toUInt8.toNat = s.id := by rw [toUInt8_toNat]; omega
    simp [this]

theorem spanBody_drop1 (seq : Nat) (rid : Bytes) (streams : List Stream) (t : Bytes) :
    (spanBody seq rid streams ++ t).drop (len7 seq) =
      enc7 rid.length ++ rid ++ [(streams.length % 256).toUInt8] ++ streams.flatMap streamBytes ++ t := by
  unfold spanBody
  simp only [List.append_assoc]
  rw [← enc7_length, List.drop_left]

/-- the parse of an active span's bytes followed by anything -/
theorem parseSpan_actBytes (seq : Nat) (rid : Bytes) (streams : List Stream) (pad : Nat) (rest : Bytes)
    (hok : Seg.OK (.act seq rid streams pad)) :
    parseSpan (actBytes seq rid streams pad ++ rest) =
      .ok { length := 8 + (spanBody seq rid streams).length + pad + 4, seq := seq, rid := rid, streams := streams } := by
  obtain ⟨hseq, hrid, hns, hstreams, hpad, hL⟩ := hok
  generalize hLdef : 8 + (spanBody seq rid streams).length + pad + 4 = L at *
  have hpre_len : (actPre seq rid streams pad).length = L - 4 := by
    simp [actPre, be32_length, zeros_length]; omega
  have hact_len : (actBytes seq rid streams pad).length = L := by
    simp only [actBytes, List.length_append, hpre_len, be32_length]; omega
  have hbody_len : 3 ≤ (spanBody seq rid streams).length := by
    have := len7_pos seq; have := len7_pos rid.length
    simp [spanBody, enc7_length]; omega
  unfold parseSpan
  have hlen : ¬ ((actBytes seq rid streams pad ++ rest).length < minSpanLength) := by
    simp only [List.length_append, hact_len, minSpanLength]; omega
  rw [if_neg hlen]
  -- header reads
  have hLmod : L % 4294967296 = L := Nat.mod_eq_of_lt hL
  have hshape : actBytes seq rid streams pad ++ rest =
      be32 activeMagic ++ (be32 L ++ (spanBody seq rid streams ++ (zeros pad ++ (be32 (checksum (actPre seq rid streams pad)) ++ rest)))) := by
    simp only [actBytes, actPre, hLdef, hLmod, List.append_assoc]
  rw [hshape]
  rw [rd32_be32 activeMagic (by decide)]
  have hd4 : (be32 activeMagic ++ (be32 L ++ (spanBody seq rid streams ++ (zeros pad ++ (be32 (checksum (actPre seq rid streams pad)) ++ rest))))).drop 4
      = be32 L ++ (spanBody seq rid streams ++ (zeros pad ++ (be32 (checksum (actPre seq rid streams pad)) ++ rest))) := by
    rw [← be32_length activeMagic, List.drop_left]
  rw [hd4, rd32_be32 L hL]
  simp only [ne_eq, not_true_eq_false, ↓reduceIte]
  rw [← hshape]
  have hle : ¬ (L > (actBytes seq rid streams pad ++ rest).length) := by
    simp only [List.length_append, hact_len]; omega
  rw [if_neg hle]
  have htake : (actBytes seq rid streams pad ++ rest).take L = actBytes seq rid streams pad := by
    rw [← hact_len, List.take_left]
  rw [htake]
  have hver : verifyChecksum (actBytes seq rid streams pad) = true := verify_append_crc _
  simp only [hver, Bool.not_true, Bool.false_eq_true, ↓reduceIte]
  -- sequence number
  have hd8 : (actBytes seq rid streams pad ++ rest).drop 8 =
      spanBody seq rid streams ++ (zeros pad ++ (be32 (checksum (actPre seq rid streams pad)) ++ rest)) := by
    rw [hshape]
    have : (be32 activeMagic ++ be32 L).length = 8 := rfl
    rw [← List.append_assoc (be32 activeMagic), ← this, List.drop_left]
  generalize htail : zeros pad ++ (be32 (checksum (actPre seq rid streams pad)) ++ rest) = tail at *
  have htail_len : 4 ≤ tail.length := by
    rw [← htail]; simp [be32_length]; omega
  rw [hd8]
  have hseq1 : dec7 (spanBody seq rid streams ++ tail) = some (seq, len7 seq) := by
    unfold spanBody; simp only [List.append_assoc]; exact dec7_enc7 seq (by omega) _
  rw [hseq1]
  simp only
  have hdrop1 : (actBytes seq rid streams pad ++ rest).drop (8 + len7 seq) =
      enc7 rid.length ++ rid ++ [(streams.length % 256).toUInt8] ++ streams.flatMap streamBytes ++ tail := by
    rw [← List.drop_drop, hd8, spanBody_drop1]
  rw [hdrop1]
  simp only [List.append_assoc]
  rw [dec7_enc7 _ hrid]
  simp only
  have hdrop2 : (enc7 rid.length ++ (rid ++ ([(streams.length % 256).toUInt8] ++ (streams.flatMap streamBytes ++ tail)))).drop (len7 rid.length)
      = rid ++ ([(streams.length % 256).toUInt8] ++ (streams.flatMap streamBytes ++ tail)) := by
    rw [← enc7_length, List.drop_left]
  rw [hdrop2]
  have hc : ¬ (rid.length ≥ 9223372036854775808 ∨ rid.length > (rid ++ ([(streams.length % 256).toUInt8] ++ (streams.flatMap streamBytes ++ tail))).length) := by
    simp; omega
  rw [if_neg hc]
  simp only [List.take_left, List.drop_left, List.cons_append, List.nil_append]
  have hnsb : (streams.length % 256).toUInt8.toNat = streams.length := by rw [toUInt8_toNat]; omega
  rw [hnsb, parseStreams_flatMap streams hstreams tail []]
  simp only [List.reverse_nil, List.nil_append]
  have : ¬ (tail.length < 4) := by omega
  rw [if_neg this, Nat.mod_eq_of_lt hseq]

end Syzgy
