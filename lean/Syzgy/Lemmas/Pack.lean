import Syzgy.Lemmas.Codec
import Syzgy.Model.Collection
/-! Bit packing of quantization codes: `decodeCodes ∘ encodeCodes = id` for every dimension. -/
namespace Syzgy

theorem beN_length (w n : Nat) : (beN w n).length = w := by
  induction w with
  | zero => rfl
  | succ k ih => simp [beN, ih]

theorem rdN_beN (w : Nat) (n : Nat) (rest : Bytes) (acc : Nat) :
    rdN w (beN w n ++ rest) acc = some (acc * 256 ^ w + n % 256 ^ w) := by
  induction w generalizing acc with
  | zero => simp [rdN, beN, Nat.mod_one]
  | succ k ih =>
    simp only [beN, List.cons_append, rdN, toUInt8_toNat]
    generalize hx : n / 256 ^ k % 256 = x
    have hx256 : x < 256 := by rw [← hx]; exact Nat.mod_lt _ (by omega)
    rw [Nat.mod_eq_of_lt hx256, ih]
    congr 1
    have hsplit : n % (256 ^ k * 256) = n % 256 ^ k + 256 ^ k * x := by rw [← hx, Nat.mod_mul]
    rw [Nat.pow_succ, hsplit]
    generalize (256:Nat) ^ k = P
    generalize n % P = r
    rw [Nat.add_mul, Nat.mul_assoc, Nat.mul_comm 256 P, Nat.mul_comm x P]
    omega

theorem unpackN_flatMap (w : Nat) (hw : 0 < w) (codes : List Nat) (hc : ∀ c ∈ codes, c < 256 ^ w) (tail : Bytes) :
    unpackN w codes.length (codes.flatMap (beN w) ++ tail) = .ok codes := by
  induction codes with
  | nil => simp [unpackN]
  | cons c cs ih =>
    simp only [List.length_cons, List.flatMap_cons, List.append_assoc, unpackN]
    rw [rdN_beN, Nat.zero_mul, Nat.zero_add, Nat.mod_eq_of_lt (hc c (by simp))]
    simp only
    rw [List.drop_left' (beN_length w c), ih (fun x hx => hc x (by simp [hx]))]

theorem unpack4_pack4 (codes : List Nat) (hc : ∀ c ∈ codes, c < 16) (tail : Bytes) :
    unpack4 codes.length (pack4 codes ++ tail) = .ok codes := by
  induction codes using pack4.induct with
  | case1 => simp [unpack4]
  | case2 a =>
    have ha := hc a (by simp)
    simp only [List.length_singleton, pack4, List.cons_append, unpack4, toUInt8_toNat]
    congr 2; omega
  | case3 a b r ih =>
    have ha := hc a (by simp)
    have hb := hc b (by simp)
    simp only [List.length_cons, pack4, List.cons_append, unpack4, toUInt8_toNat]
    rw [ih (fun x hx => hc x (by simp [hx]))]
    have hor : (a * 16 % 256 ||| b % 16) = a * 16 + b := by
      have h1 : a * 16 % 256 = a * 16 := by omega
      have h2 : b % 16 = b := by omega
      rw [h1, h2]
      have : a * 16 = a <<< 4 := by rw [Nat.shiftLeft_eq]
      rw [this]
      exact (Nat.shiftLeft_add_eq_or_of_lt hb a).symm
    rw [hor]
    have h3 : (a * 16 + b) % 256 / 16 = a := by omega
    have h4 : (a * 16 + b) % 256 % 16 = b := by omega
    simp [h3, h4]

/-- **bit-packing round trip**: for every supported width, every dimension (odd ones under 4-bit
    packing included) and every list of in-range codes, decoding the encoded vector returns the
    codes, whatever bytes follow -/
theorem decode_encode (quant : Nat) (hq : quant = 4 ∨ quant = 8 ∨ quant = 16 ∨ quant = 32 ∨ quant = 64)
    (codes : List Nat) (hc : ∀ c ∈ codes, c < 2 ^ quant) (tail : Bytes) :
    decodeCodes quant codes.length (encodeCodes quant codes ++ tail) = .ok codes := by
  rcases hq with rfl | rfl | rfl | rfl | rfl
  · simp only [decodeCodes, encodeCodes, ↓reduceIte]
    exact unpack4_pack4 codes (by simpa using hc) tail
  · have : codes.map (fun c => (c % 256).toUInt8) = codes.flatMap (beN 1) := by
      induction codes with
      | nil => rfl
      | cons c cs ih => simp [beN, ih (fun x hx => hc x (by simp [hx]))]
    simp only [decodeCodes, encodeCodes, Nat.reduceEqDiff, ↓reduceIte, this]
    exact unpackN_flatMap 1 (by omega) codes (by simpa using hc) tail
  · simp only [decodeCodes, encodeCodes, Nat.reduceEqDiff, ↓reduceIte]
    exact unpackN_flatMap 2 (by omega) codes (by simpa using hc) tail
  · simp only [decodeCodes, encodeCodes, Nat.reduceEqDiff, ↓reduceIte]
    exact unpackN_flatMap 4 (by omega) codes (by simpa using hc) tail
  · simp only [decodeCodes, encodeCodes, Nat.reduceEqDiff, ↓reduceIte]
    exact unpackN_flatMap 8 (by omega) codes (by simpa using hc) tail

theorem pack4_length (codes : List Nat) : (pack4 codes).length = (codes.length + 1) / 2 := by
  induction codes using pack4.induct with
  | case1 => rfl
  | case2 a => simp [pack4]
  | case3 a b r ih => simp [pack4, ih]; omega

theorem flatMap_beN_length (w : Nat) (codes : List Nat) : (codes.flatMap (beN w)).length = codes.length * w := by
  induction codes with
  | nil => simp
  | cons c cs ih => simp [beN_length, ih, Nat.add_mul]; omega

/-- `getVectorSize` is the length of the encoding -/
theorem encode_length (quant : Nat) (codes : List Nat) (n : Nat) (h : getVectorSize quant codes.length = some n) :
    (encodeCodes quant codes).length = n := by
  unfold getVectorSize at h
  unfold encodeCodes
  split at h
  · rename_i h4; cases h; simp [h4, pack4_length]
  · split at h
    · rename_i h4 h8; cases h; simp [h4, h8]
    · split at h
      · rename_i h4 h8 h16; cases h
        simp only [h4, h8, h16, ↓reduceIte]
        exact flatMap_beN_length _ codes
      · split at h
        · rename_i h4 h8 h16 h32; cases h
          simp only [h4, h8, h16, h32, ↓reduceIte]
          exact flatMap_beN_length _ codes
        · split at h
          · rename_i h4 h8 h16 h32 h64; cases h
            simp only [h4, h8, h16, h32, ↓reduceIte]
            exact flatMap_beN_length _ codes
          · cases h

end Syzgy
