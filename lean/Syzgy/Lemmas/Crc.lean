import Syzgy.Lemmas.Parse
/-!
CRC-32 (IEEE, reflected) as a GF(2)-linear register: linearity, injectivity of the zero-input step,
burst detection, the byte-wise evaluation used by the driver, and the big-endian straddle anomaly.
-/
namespace Syzgy.Crc

theorem mask_xor (x y : Bool) : mask (x ^^ y) = mask x ^^^ mask y := by
  cases x <;> cases y <;> simp [mask]

theorem step0_xor (a b : BitVec 32) : step0 (a ^^^ b) = step0 a ^^^ step0 b := by
  unfold step0
  rw [BitVec.getLsbD_xor, mask_xor, BitVec.ushiftRight_xor_distrib]
  ac_rfl

theorem step0_zero : step0 0#32 = 0#32 := by decide

theorem step0_eq_zero (c : BitVec 32) (h : step0 c = 0#32) : c = 0#32 := by
  unfold step0 mask at h
  by_cases hc : c.getLsbD 0
  · rw [if_pos hc] at h
    have := congrArg (fun v => v.getLsbD 31) h
    simp [poly] at this
  · rw [if_neg hc] at h
    simp at h
    ext i hi
    by_cases h0 : i = 0
    · subst h0; simpa using hc
    · have := congrArg (fun v => v.getLsbD (i-1)) h
      simp at this
      have e : 1 + (i - 1) = i := by omega
      rw [e] at this
      simpa [hi] using this

theorem bit_xor (a b : Bool) : bit (a ^^ b) = bit a ^^^ bit b := by
  cases a <;> cases b <;> decide

theorem step_xor (s t : BitVec 32) (a b : Bool) :
    step (s ^^^ t) (a ^^ b) = step s a ^^^ step t b := by
  unfold step
  rw [← step0_xor, bit_xor]
  congr 1
  ac_rfl

/-- **linearity** of the whole register run -/
theorem feed_xor (s t : BitVec 32) (as bs : List Bool) (h : as.length = bs.length) :
    feed (s ^^^ t) (List.zipWith (· ^^ ·) as bs) = feed s as ^^^ feed t bs := by
  induction as generalizing s t bs with
  | nil => cases bs <;> simp_all [feed]
  | cons a as ih =>
    cases bs with
    | nil => simp at h
    | cons b bs =>
      simp only [List.zipWith_cons_cons, feed, List.foldl_cons]
      rw [step_xor]
      exact ih _ _ _ (by simpa using h)

theorem feed_append (s : BitVec 32) (a b : List Bool) : feed s (a ++ b) = feed (feed s a) b := by
  simp [feed, List.foldl_append]

theorem feed_zero_zeros (n : Nat) : feed 0#32 (List.replicate n false) = 0#32 := by
  induction n with
  | zero => rfl
  | succ n ih =>
    simp only [List.replicate_succ, feed, List.foldl_cons]
    have : step 0#32 false = 0#32 := by decide
    rw [this]; exact ih

theorem feed_zeros_ne (s : BitVec 32) (hs : s ≠ 0#32) (n : Nat) :
    feed s (List.replicate n false) ≠ 0#32 := by
  induction n generalizing s with
  | zero => simpa [feed]
  | succ n ih =>
    simp only [List.replicate_succ, feed, List.foldl_cons]
    apply ih
    intro h
    apply hs
    have : step s false = step0 s := by simp [step, bit]
    rw [this] at h
    exact step0_eq_zero _ h

def iter : Nat → BitVec 32 → BitVec 32
  | 0, s => s
  | n+1, s => iter n (step0 s)

theorem iter_ne_zero (n : Nat) (s : BitVec 32) (h : s ≠ 0#32) : iter n s ≠ 0#32 := by
  induction n generalizing s with
  | zero => exact h
  | succ n ih => exact ih _ (fun h' => h (step0_eq_zero _ h'))

/-- first fed bit in bit 0, next in bit 1, ... -/
def pack : List Bool → BitVec 32
  | [] => 0#32
  | b :: bs => bit b ^^^ (pack bs <<< 1)

theorem bit_getLsbD (b : Bool) (i : Nat) : (bit b).getLsbD i = (b && i == 0) := by
  cases b <;> simp [bit] <;> (cases i <;> simp)

theorem pack_high (bs : List Bool) (i : Nat) (h : bs.length ≤ i) : (pack bs).getLsbD i = false := by
  induction bs generalizing i with
  | nil => simp [pack]
  | cons b bs ih =>
    simp only [List.length_cons] at h
    simp only [pack, BitVec.getLsbD_xor, bit_getLsbD, BitVec.getLsbD_shiftLeft]
    have hi : i ≠ 0 := by omega
    have := ih (i - 1) (by omega)
    simp [hi, this]

theorem step0_shl (p : BitVec 32) (h : p.getLsbD 31 = false) : step0 (p <<< 1) = p := by
  unfold step0 mask
  have h0 : (p <<< 1).getLsbD 0 = false := by simp
  rw [h0]
  simp only [Bool.false_eq_true, ↓reduceIte, BitVec.xor_zero]
  ext i hi
  simp only [BitVec.getElem_ushiftRight, BitVec.getLsbD_shiftLeft]
  by_cases h31 : i = 31
  · subst h31; simp [← BitVec.getLsbD_eq_getElem, h]
  · have : 1 + i < 32 := by omega
    simp [this, BitVec.getLsbD_eq_getElem hi]

theorem feed_pack (bs : List Bool) (s : BitVec 32) (h : bs.length ≤ 32) :
    feed s bs = iter bs.length (s ^^^ pack bs) := by
  induction bs generalizing s with
  | nil => simp [feed, iter, pack]
  | cons b bs ih =>
    simp only [List.length_cons] at h
    have hl : bs.length ≤ 32 := by omega
    show feed (step s b) bs = iter bs.length (step0 (s ^^^ pack (b :: bs)))
    rw [ih _ hl]
    congr 1
    simp only [pack, step]
    rw [← BitVec.xor_assoc, step0_xor (s ^^^ bit b), step0_shl _ (pack_high bs 31 (by omega))]

theorem pack_eq_zero (bs : List Bool) (h : bs.length ≤ 32) (hz : pack bs = 0#32) : ∀ b ∈ bs, b = false := by
  induction bs with
  | nil => simp
  | cons b bs ih =>
    simp only [List.length_cons] at h
    have h0 := congrArg (fun v => v.getLsbD 0) hz
    simp only [pack, BitVec.getLsbD_xor, bit_getLsbD, BitVec.getLsbD_shiftLeft] at h0
    have hb : b = false := by cases b <;> simp_all
    subst hb
    have hs : pack bs <<< 1 = 0#32 := by simpa [pack, bit] using hz
    have hp : pack bs = 0#32 := by
      have := step0_shl (pack bs) (pack_high bs 31 (by omega))
      rw [hs, step0_zero] at this
      exact this.symm
    intro x hx
    rcases List.mem_cons.mp hx with rfl | hx
    · rfl
    · exact ih (by omega) hp x hx

/-- a non-zero error pattern confined to a window of at most 32 consecutive bits, anywhere in a
    message of any length, leaves a non-zero syndrome -/
theorem burst_syndrome_ne_zero (pre post : Nat) (e : List Bool) (hl : e.length ≤ 32)
    (hne : ∃ b ∈ e, b = true) :
    feed 0#32 (List.replicate pre false ++ e ++ List.replicate post false) ≠ 0#32 := by
  rw [feed_append, feed_append, feed_zero_zeros, feed_pack e _ hl]
  apply feed_zeros_ne
  apply iter_ne_zero
  intro hz
  obtain ⟨b, hb, hbt⟩ := hne
  have := pack_eq_zero e hl (by simpa using hz) b hb
  simp [hbt] at this

/-- with linearity: xoring such a pattern into ANY message changes the register -/
theorem burst_detected (init : BitVec 32) (m E : List Bool) (hlen : m.length = E.length)
    (hE : feed 0#32 E ≠ 0#32) :
    feed init (List.zipWith (· ^^ ·) m E) ≠ feed init m := by
  have := feed_xor init 0#32 m E hlen
  simp only [BitVec.xor_zero] at this
  rw [this]
  intro h
  apply hE
  have h2 := congrArg (· ^^^ feed init m) h
  simpa [BitVec.xor_comm, ← BitVec.xor_assoc] using h2

/-! ## byte-wise evaluation -/

theorem pack_byteBits (x : UInt8) : pack (byteBits x) = BitVec.ofNat 32 x.toNat := by
  have h : ∀ n : Fin 256, pack (byteBits (UInt8.ofNat n.val)) = BitVec.ofNat 32 (UInt8.ofNat n.val).toNat := by decide +kernel
  have := h ⟨x.toNat, x.toNat_lt⟩
  simpa using this

theorem byteBits_length (x : UInt8) : (byteBits x).length = 8 := by simp [byteBits]

/-- the driver's byte step is eight bit steps -/
theorem crcByte_eq_feed (s : BitVec 32) (x : UInt8) : crcByte s x = feed s (byteBits x) := by
  rw [feed_pack _ _ (by rw [byteBits_length]; omega), byteBits_length, pack_byteBits]
  rfl

theorem foldl_crcByte (b : Bytes) (s : BitVec 32) : b.foldl crcByte s = feed s (bitsOf b) := by
  induction b generalizing s with
  | nil => rfl
  | cons x xs ih =>
    simp only [List.foldl_cons, bitsOf, List.flatMap_cons]
    rw [ih, crcByte_eq_feed, feed_append]
    rfl

/-- `checksum` (what the model and driver compute byte-wise) is the bit-serial CRC-32 -/
theorem checksum_eq_crc32 (b : Bytes) : checksum b = crc32 b := by
  unfold checksum crc32 reg
  rw [foldl_crcByte]

end Syzgy.Crc

namespace Syzgy.Crc

/-- byte-wise xor of two equally long byte strings -/
def xorBytes (a b : Bytes) : Bytes := List.zipWith (· ^^^ ·) a b

theorem byteBits_xor (x y : UInt8) : byteBits (x ^^^ y) = List.zipWith (· ^^ ·) (byteBits x) (byteBits y) := by
  simp only [byteBits, UInt8.toNat_xor, Nat.testBit_xor]
  apply List.ext_getElem
  · simp
  · intro i h1 h2; simp

theorem bitsOf_length (b : Bytes) : (bitsOf b).length = 8 * b.length := by
  induction b with
  | nil => rfl
  | cons x xs ih => simp [bitsOf, List.flatMap_cons, byteBits_length] at *; omega

theorem bitsOf_xor (a b : Bytes) (h : a.length = b.length) :
    bitsOf (xorBytes a b) = List.zipWith (· ^^ ·) (bitsOf a) (bitsOf b) := by
  induction a generalizing b with
  | nil => cases b <;> simp_all [xorBytes, bitsOf]
  | cons x xs ih =>
    cases b with
    | nil => simp at h
    | cons y ys =>
      simp only [xorBytes, List.zipWith_cons_cons, bitsOf, List.flatMap_cons]
      have := ih ys (by simpa using h)
      simp only [xorBytes, bitsOf] at this
      rw [this, byteBits_xor, List.zipWith_append (by simp [byteBits_length])]

/-- xoring an error pattern into a message xors its zero-register syndrome into the CRC value -/
theorem crc32_xor (m e : Bytes) (h : m.length = e.length) :
    crc32 (xorBytes m e) = (BitVec.ofNat 32 (crc32 m) ^^^ feed 0#32 (bitsOf e)).toNat := by
  unfold crc32 reg
  rw [bitsOf_xor m e h]
  have := feed_xor allOnes 0#32 (bitsOf m) (bitsOf e) (by rw [bitsOf_length, bitsOf_length, h])
  simp only [BitVec.xor_zero] at this
  rw [this]
  simp only [BitVec.ofNat_toNat, BitVec.setWidth_eq]
  congr 1
  ac_rfl

/-- **burst detection**: an error pattern whose set bits lie in a window of at most 32 consecutive
    bits (CRC bit order: least significant bit of each byte first) changes the checksum of every
    message of that length. Covers every single-bit flip and every byte-aligned burst of ≤ 4 bytes. -/
theorem burst_changes_checksum (m e : Bytes) (h : m.length = e.length) (pre post : Nat) (w : List Bool)
    (hw : w.length ≤ 32) (hne : ∃ b ∈ w, b = true)
    (he : bitsOf e = List.replicate pre false ++ w ++ List.replicate post false) :
    checksum (xorBytes m e) ≠ checksum m := by
  rw [checksum_eq_crc32, checksum_eq_crc32, crc32_xor m e h, he]
  have hs := burst_syndrome_ne_zero pre post w hw hne
  intro heq
  apply hs
  have hlt : crc32 m < 2 ^ 32 := by unfold crc32; exact BitVec.isLt _
  have h1 : (BitVec.ofNat 32 (crc32 m) ^^^ feed 0#32 (List.replicate pre false ++ w ++ List.replicate post false))
      = BitVec.ofNat 32 (crc32 m) := by
    apply BitVec.eq_of_toNat_eq
    rw [heq]
    simp [Nat.mod_eq_of_lt hlt]
  have h2 := congrArg (BitVec.ofNat 32 (crc32 m) ^^^ ·) h1
  simpa [← BitVec.xor_assoc] using h2

/-- the stored checksum field: a span image verifies exactly when the stored value is the checksum
    of the bytes before it — any change confined to the field is detected -/
theorem verify_iff (pre : Bytes) (c : Nat) (hc : c < 4294967296) :
    verifyChecksum (pre ++ be32 c) = true ↔ c = checksum pre := by
  unfold verifyChecksum
  have hl : (pre ++ be32 c).length = pre.length + 4 := by simp [be32_length]
  simp only [hl]
  have h4 : ¬ (pre.length + 4 < 4) := by omega
  simp only [h4, ↓reduceIte, Nat.add_sub_cancel, rd32At]
  rw [List.drop_left, List.take_left]
  have := rd32_be32 c hc []
  simp only [List.append_nil] at this
  rw [this]
  simp only [beq_iff_eq]
  exact eq_comm

/-- syndrome of flipping `61 d8` in the last two covered bytes, for a message of any length -/
theorem straddle_syndrome (pre : Nat) :
    feed 0#32 (List.replicate pre false ++ (byteBits 0x61 ++ byteBits 0xd8)) = 0xF4EE0000#32 := by
  rw [feed_append, feed_zero_zeros]
  decide

end Syzgy.Crc

namespace Syzgy.Crc

theorem toUInt8_xor (x y : Nat) : (x ^^^ y).toUInt8 = x.toUInt8 ^^^ y.toUInt8 := by
  apply UInt8.toNat_inj.mp
  rw [UInt8.toNat_xor, toUInt8_toNat, toUInt8_toNat, toUInt8_toNat]
  exact Nat.xor_mod_two_pow (n := 8)

/-- big-endian bytes of an xor are the xor of the big-endian bytes -/
theorem be32_xor (x y : Nat) : be32 (x ^^^ y) = xorBytes (be32 x) (be32 y) := by
  have h24 : (x ^^^ y) / 16777216 % 256 = (x / 16777216 % 256) ^^^ (y / 16777216 % 256) := by
    have := @Nat.shiftRight_xor_distrib 24 x y
    simp only [Nat.shiftRight_eq_div_pow] at this
    rw [show (16777216:Nat) = 2 ^ 24 by rfl, show (256:Nat) = 2 ^ 8 by rfl, this, Nat.xor_mod_two_pow]
  have h16 : (x ^^^ y) / 65536 % 256 = (x / 65536 % 256) ^^^ (y / 65536 % 256) := by
    have := @Nat.shiftRight_xor_distrib 16 x y
    simp only [Nat.shiftRight_eq_div_pow] at this
    rw [show (65536:Nat) = 2 ^ 16 by rfl, show (256:Nat) = 2 ^ 8 by rfl, this, Nat.xor_mod_two_pow]
  have h8 : (x ^^^ y) / 256 % 256 = (x / 256 % 256) ^^^ (y / 256 % 256) := by
    have := @Nat.shiftRight_xor_distrib 8 x y
    simp only [Nat.shiftRight_eq_div_pow] at this
    rw [show (256:Nat) = 2 ^ 8 by rfl, this, Nat.xor_mod_two_pow]
  have h0 : (x ^^^ y) % 256 = (x % 256) ^^^ (y % 256) := by
    rw [show (256:Nat) = 2 ^ 8 by rfl, Nat.xor_mod_two_pow]
  simp only [be32, xorBytes, List.zipWith_cons_cons, List.zipWith_nil_right, h24, h16, h8, h0, toUInt8_xor]

theorem xorBytes_append (a b c d : Bytes) (h : a.length = c.length) :
    xorBytes (a ++ b) (c ++ d) = xorBytes a c ++ xorBytes b d := by
  unfold xorBytes
  exact List.zipWith_append h

theorem xorBytes_zeros (a : Bytes) : xorBytes a (zeros a.length) = a := by
  induction a with
  | nil => rfl
  | cons x xs ih =>
    simp only [xorBytes, zeros, List.length_cons, List.replicate_succ, List.zipWith_cons_cons] at *
    rw [ih]; simp

theorem bitsOf_zeros (n : Nat) : bitsOf (zeros n) = List.replicate (8 * n) false := by
  induction n with
  | zero => rfl
  | succ k ih =>
    simp only [zeros, List.replicate_succ, bitsOf, List.flatMap_cons] at *
    rw [ih]
    have : byteBits 0 = List.replicate 8 false := by decide
    rw [this, List.replicate_append_replicate]
    congr 1; omega

/-- **the big-endian straddle anomaly**: for every active span — whatever precedes the last two
    covered bytes `a b` — xoring the four consecutive bytes `61 d8 | f4 ee` over the last two covered
    bytes and the first two bytes of the stored checksum yields an image that still verifies. A
    contiguous 32-bit burst is therefore *not* always detected: the reflected CRC is stored
    big-endian, so the bytes adjacent to the data are the ones the end-of-message syndrome reaches. -/
theorem straddle_undetected (pre : Bytes) (a b : UInt8) :
    verifyChecksum (xorBytes (pre ++ [a, b] ++ be32 (checksum (pre ++ [a, b])))
      (zeros pre.length ++ [0x61, 0xd8] ++ [0xf4, 0xee, 0, 0])) = true := by
  have hc : checksum (pre ++ [a, b]) < 4294967296 := checksum_lt _
  rw [xorBytes_append _ _ _ _ (by simp [zeros]), xorBytes_append _ _ _ _ (by simp [zeros]), xorBytes_zeros]
  have hbe : ([0xf4, 0xee, 0, 0] : Bytes) = be32 0xF4EE0000 := by decide
  rw [hbe, ← be32_xor]
  rw [verify_iff _ _ (by
    have : checksum (pre ++ [a, b]) ^^^ 0xF4EE0000 < 2 ^ 32 := Nat.xor_lt_two_pow hc (by decide)
    exact this)]
  -- the checksum of the altered data
  have hx : pre ++ xorBytes [a, b] [0x61, 0xd8] = xorBytes (pre ++ [a, b]) (zeros pre.length ++ [0x61, 0xd8]) := by
    rw [xorBytes_append _ _ _ _ (by simp [zeros]), xorBytes_zeros]
  rw [hx, checksum_eq_crc32, checksum_eq_crc32, crc32_xor _ _ (by simp [zeros])]
  have hbits : bitsOf (zeros pre.length ++ [0x61, 0xd8]) =
      List.replicate (8 * pre.length) false ++ (byteBits 0x61 ++ byteBits 0xd8) := by
    simp only [bitsOf, List.flatMap_append, List.flatMap_cons, List.flatMap_nil, List.append_nil]
    have := bitsOf_zeros pre.length
    simp only [bitsOf] at this
    rw [this]
  rw [hbits, straddle_syndrome, BitVec.toNat_xor]
  have hlt : crc32 (pre ++ [a, b]) < 2 ^ 32 := by unfold crc32; exact BitVec.isLt _
  simp [Nat.mod_eq_of_lt hlt]

end Syzgy.Crc
