import Syzgy.Lemmas.Lexer
import Syzgy.Lemmas.ParseTerm
namespace Syzgy.Query

theorem skipWhile_gt (inp : ByteArray) (p : UInt8 → Bool) (pos : Nat) (h : pos < inp.size) (hp : p inp[pos] = true) :
    pos < skipWhile inp p pos := by
  rw [skipWhile]
  simp only [h, dite_true, hp, if_true]
  have := skipWhile_ge inp p (pos + 1)
  omega

theorem numLoop_gt (inp : ByteArray) (pos : Nat) (f : Bool) (h : pos < inp.size) (hd : isDigit inp[pos] = true) :
    pos < numLoop inp pos f := by
  rw [numLoop]
  simp only [h, dite_true, hd, if_true]
  have := numLoop_ge inp (pos + 1) f
  omega

theorem strLoop_ge (inp : ByteArray) (q : UInt8) (pos : Nat) (acc : Bytes) : pos ≤ (strLoop inp q pos acc).2 := by
  fun_induction strLoop inp q pos acc <;> (try simp only) <;> omega

theorem chAt_eq (inp : ByteArray) (pos : Nat) (h : pos < inp.size) : chAt inp pos = inp[pos] := by
  simp [chAt, h]

theorem readIdent_ge (inp : ByteArray) (pos : Nat) (w : Bytes) (p : Nat)
    (h : readIdentifierOrKeyword inp pos = .ok (w, p)) :
    skipWhile inp (fun c => isLetter c || isDigit c) pos ≤ p := by
  unfold readIdentifierOrKeyword at h
  simp only at h
  have g1 := skipWhile_ge inp isLetter (skipWhile inp (fun c => isLetter c || isDigit c) pos + 1)
  have g2 := skipWhile_ge inp isLetter (skipWhile inp isLetter (skipWhile inp (fun c => isLetter c || isDigit c) pos + 1) + 1)
  repeat' split at h
  all_goals first
    | (cases h; done)
    | (injection h with h; injection h with _ h; omega)

theorem readNumber_gt (inp : ByteArray) (pos : Nat) (w : Bytes) (p : Nat) (hlt : pos < inp.size)
    (hd : isDigit inp[pos] = true) (h : readNumber inp pos = .ok (w, p)) : pos < p := by
  unfold readNumber at h
  simp only at h
  have g1 := skipWhile_ge inp isHexDigit (pos + 2)
  have g2 := numLoop_gt inp pos false hlt hd
  have hp1 : pos < (if (chAt inp pos == 48 && (chAt inp (pos + 1) == 120 || chAt inp (pos + 1) == 88)) = true then skipWhile inp isHexDigit (pos + 2)
      else numLoop inp pos false) := by split <;> omega
  generalize (if (chAt inp pos == 48 && (chAt inp (pos + 1) == 120 || chAt inp (pos + 1) == 88)) = true then skipWhile inp isHexDigit (pos + 2)
      else numLoop inp pos false) = p1 at h hp1
  have hq : p1 + 1 ≤ (if (chAt inp (p1 + 1) == 43 || chAt inp (p1 + 1) == 45) = true then p1 + 1 + 1 else p1 + 1) := by
    split <;> omega
  have hs := skipWhile_ge inp isDigit (if (chAt inp (p1 + 1) == 43 || chAt inp (p1 + 1) == 45) = true then p1 + 1 + 1 else p1 + 1)
  generalize (if (chAt inp (p1 + 1) == 43 || chAt inp (p1 + 1) == 45) = true then p1 + 1 + 1 else p1 + 1) = q at h hq hs
  have hp2 : p1 ≤ (if (!(chAt inp pos == 48 && (chAt inp (pos + 1) == 120 || chAt inp (pos + 1) == 88)) &&
      (chAt inp p1 == 101 || chAt inp p1 == 69)) = true then skipWhile inp isDigit q else p1) := by
    split <;> omega
  generalize (if (!(chAt inp pos == 48 && (chAt inp (pos + 1) == 120 || chAt inp (pos + 1) == 88)) &&
      (chAt inp p1 == 101 || chAt inp p1 == 69)) = true then skipWhile inp isDigit q else p1) = p2 at h hp2
  split at h
  · injection h with h; injection h with _ h; omega
  · cases h
  · cases h

def Adv (q : Nat) (x : Outcome (Token × Nat)) : Prop := ∀ t p', x = .ok (t, p') → q < p'

theorem Adv_ite {q : Nat} {c : Prop} [Decidable c] {a b : Outcome (Token × Nat)}
    (ha : c → Adv q a) (hb : ¬ c → Adv q b) : Adv q (if c then a else b) := by
  split
  · exact ha ‹_›
  · exact hb ‹_›

theorem Adv_ok {q : Nat} (t : Token) (p : Nat) (h : q < p) : Adv q (.ok (t, p)) := by
  intro t' p' e; injection e with e; injection e with _ e; omega

theorem readString_gt (inp : ByteArray) (c : UInt8) (q : Nat) : q < (readString inp c q).2 := by
  unfold readString
  have hs := strLoop_ge inp c (q + 1) []
  generalize strLoop inp c (q + 1) [] = r at hs
  obtain ⟨s, p⟩ := r
  simp only at hs ⊢
  split <;> simp only <;> omega

/-- **the lexer makes progress**: every token other than EOF ends strictly behind the position the
    lexer started from, and no token ends before it -/
theorem nextToken_progress (inp : ByteArray) (pos : Nat) (t : Token) (p' : Nat)
    (h : nextToken inp pos = .ok (t, p')) : pos ≤ p' ∧ (t.type ≠ .eof → pos < p' ∧ pos < inp.size) := by
  unfold nextToken at h
  simp only at h
  have hq := skipWhile_ge inp isWs pos
  generalize skipWhile inp isWs pos = q at h hq
  by_cases h0 : chAt inp q = 0
  · simp only [h0, beq_self_eq_true, if_true] at h
    injection h with h; injection h with h1 h2
    subst h1 h2
    exact ⟨hq, fun hne => absurd rfl hne⟩
  · have hlt := chAt_ne_zero_lt inp q h0
    have hch := chAt_eq inp q hlt
    suffices q < p' by omega
    rw [if_neg (by simpa using h0)] at h
    revert t p'
    show Adv q _
    repeat' (apply Adv_ite <;> intro _)
    all_goals first
      | (apply Adv_ok; omega)
      | (apply Adv_ok; exact readString_gt inp _ q)
      | skip
    · rename_i hl
      rw [hch] at hl
      intro t p' e
      cases hr : readIdentifierOrKeyword inp q with
      | ok r =>
        obtain ⟨w, p⟩ := r
        rw [hr] at e
        injection e with e; injection e with _ e
        have h1 := readIdent_ge inp q w p hr
        have h2 := skipWhile_gt inp (fun c => isLetter c || isDigit c) q hlt (by simp [hl])
        omega
      | err m => rw [hr] at e; cases e
      | panic m => rw [hr] at e; cases e
    · rename_i hd
      rw [hch] at hd
      intro t p' e
      cases hr : readNumber inp q with
      | ok r =>
        obtain ⟨w, p⟩ := r
        rw [hr] at e
        injection e with e; injection e with _ e
        have h1 := readNumber_gt inp q w p hlt hd hr
        omega
      | err m => rw [hr] at e; cases e
      | panic m => rw [hr] at e; cases e

theorem nextToken_prog (inp : ByteArray) : Prog (nextToken inp) (fun p => inp.size - p) := by
  intro p
  obtain ⟨⟨t, p'⟩, h⟩ := nextToken_ok inp p
  obtain ⟨h1, h2⟩ := nextToken_progress inp p t p' h
  refine ⟨t, p', h, ?_, ?_⟩
  · intro hne; have := h2 hne; simp only; omega
  · simp only; omega

/-- over a progressing token source, fuel `6 + 8 * (2 + μ 0)` is never exhausted -/
theorem parseSrc_fuel (nx : TokSrc) (nok : NumOK) (μ : Nat → Nat) (hp : Prog nx μ) (fuel : Nat)
    (hf : 22 + 8 * μ 0 ≤ fuel) : parseSrc nx nok fuel ≠ .err "fuel" := by
  unfold parseSrc newParser
  simp only [bind, Outcome.bind]
  obtain ⟨s1, h1, _, hr1⟩ := advance_le nx μ hp { cur := { type := .identifier, lit := [] }, peek := { type := .identifier, lit := [] }, pos := 0 }
  obtain ⟨s2, h2, _, hr2⟩ := advance_le nx μ hp s1
  rw [h1]
  simp only
  rw [h2]
  simp only
  have hrem : rem μ s2 ≤ 2 + μ 0 := by
    have : rem μ { cur := { type := .identifier, lit := [] }, peek := { type := .identifier, lit := [] }, pos := 0 } = 2 + μ 0 := by
      simp [rem]
    omega
  have ha := (allT nx nok μ hp fuel).or_ s2 (by omega)
  cases hx : parseOr nx nok fuel s2 with
  | err m => simp only; intro e; injection e with e; exact ha.msg hx e
  | panic m => simp only; intro e; cases e
  | ok r =>
    obtain ⟨e, s3⟩ := r
    simp only
    split
    · intro e; cases e
    · intro e; injection e with e; revert e; decide

/-- **the parser terminates on every input**: with the fuel the model gives it (`16 * size + 64`) the
    recursion never runs out, so the result is a tree or one of the parser's own error messages -/
theorem parse_fuel (inp : ByteArray) (nok : NumOK) : parse inp nok ≠ .err "fuel" := by
  unfold parse parseFuel
  exact parseSrc_fuel (nextToken inp) nok (fun p => inp.size - p) (nextToken_prog inp) _ (by omega)

end Syzgy.Query
