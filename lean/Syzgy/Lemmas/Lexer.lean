import Syzgy.Model.Query.Lexer
/-! The lexer never slices out of range: `nextToken` is panic-free for every input and position. -/
namespace Syzgy.Query

theorem chAt_ne_zero_lt (inp : ByteArray) (p : Nat) (h : chAt inp p ≠ 0) : p < inp.size := by
  unfold chAt at h
  split at h
  · assumption
  · simp at h

theorem skipWhile_ge (inp : ByteArray) (p : UInt8 → Bool) (pos : Nat) : pos ≤ skipWhile inp p pos := by
  fun_induction skipWhile inp p pos with
  | case1 pos h hp ih => omega
  | case2 => omega
  | case3 => omega

theorem skipWhile_le (inp : ByteArray) (p : UInt8 → Bool) (pos : Nat) (h : pos ≤ inp.size) :
    skipWhile inp p pos ≤ inp.size := by
  fun_induction skipWhile inp p pos with
  | case1 pos hlt hp ih => exact ih (by omega)
  | case2 => exact h
  | case3 => exact h

theorem numLoop_ge (inp : ByteArray) (pos : Nat) (f : Bool) : pos ≤ numLoop inp pos f := by
  fun_induction numLoop inp pos f <;> omega

theorem numLoop_le (inp : ByteArray) (pos : Nat) (f : Bool) (h : pos ≤ inp.size) : numLoop inp pos f ≤ inp.size := by
  fun_induction numLoop inp pos f with
  | case1 pos f hlt c hd ih => exact ih (by omega)
  | case2 pos f hlt c hd hdot ih => exact ih (by omega)
  | case3 => exact h
  | case4 => exact h

theorem slice_ok (inp : ByteArray) (a b : Nat) (h1 : a ≤ b) (h2 : b ≤ inp.size) :
    ∃ w, slice inp a b = .ok w := by
  unfold slice
  rw [if_pos ⟨h1, h2⟩]
  exact ⟨_, rfl⟩

theorem eq_ne_zero {c : UInt8} {k : UInt8} (h : c = k) (hk : k ≠ 0) : c ≠ 0 := by subst h; exact hk

theorem readIdentifierOrKeyword_ok (inp : ByteArray) (pos : Nat) (hpos : pos < inp.size) :
    ∃ r, readIdentifierOrKeyword inp pos = .ok r := by
  unfold readIdentifierOrKeyword
  simp only
  generalize hidc : (fun c => isLetter c || isDigit c) = idc
  have hp1ge := skipWhile_ge inp idc pos
  have hp1le := skipWhile_le inp idc pos (by omega)
  obtain ⟨first, hfirst⟩ := slice_ok inp pos (skipWhile inp idc pos) hp1ge hp1le
  rw [hfirst]
  simp only
  -- the fallback never panics
  have hfb : ∃ r, (match slice inp pos (skipWhile inp idc pos) with
      | .ok w => Outcome.ok (w, skipWhile inp idc pos)
      | .err m => .err m
      | .panic m => .panic m) = .ok r := by
    rw [hfirst]; exact ⟨_, rfl⟩
  split
  · rename_i hdoes
    have hp1lt : skipWhile inp idc pos < inp.size := chAt_ne_zero_lt _ _ (eq_ne_zero hdoes.2 (by decide))
    split
    · rename_i hN
      have hp2lt : skipWhile inp idc pos + 1 < inp.size := chAt_ne_zero_lt _ _ (eq_ne_zero hN (by decide))
      have hp3ge := skipWhile_ge inp isLetter (skipWhile inp idc pos + 1)
      have hp3le := skipWhile_le inp isLetter (skipWhile inp idc pos + 1) (by omega)
      obtain ⟨w, hw⟩ := slice_ok inp _ _ hp3ge hp3le
      rw [hw]
      simp only
      split
      · rename_i hnot
        have hp3lt := chAt_ne_zero_lt _ _ (eq_ne_zero hnot.2 (by decide))
        have hp5ge := skipWhile_ge inp isLetter (skipWhile inp isLetter (skipWhile inp idc pos + 1) + 1)
        have hp5le := skipWhile_le inp isLetter (skipWhile inp isLetter (skipWhile inp idc pos + 1) + 1) (by omega)
        obtain ⟨w2, hw2⟩ := slice_ok inp _ _ hp5ge hp5le
        rw [hw2]
        simp only
        split
        · exact ⟨_, rfl⟩
        · exact ⟨_, rfl⟩
      · exact ⟨_, rfl⟩
    · exact ⟨_, rfl⟩
  · exact ⟨_, rfl⟩

theorem readNumber_ok (inp : ByteArray) (pos : Nat) (hpos : pos < inp.size) :
    ∃ r, readNumber inp pos = .ok r := by
  unfold readNumber
  simp only
  generalize hhex : (chAt inp pos == 48 && (chAt inp (pos + 1) == 120 || chAt inp (pos + 1) == 88)) = isHex
  -- p1 bounds
  have hp1 : pos ≤ (if isHex = true then skipWhile inp isHexDigit (pos + 2) else numLoop inp pos false) ∧
      (if isHex = true then skipWhile inp isHexDigit (pos + 2) else numLoop inp pos false) ≤ inp.size := by
    split
    · rename_i hh
      have hx : chAt inp (pos + 1) ≠ 0 := by
        rw [hh] at hhex
        simp only [Bool.and_eq_true, Bool.or_eq_true, beq_iff_eq] at hhex
        rcases hhex.2 with h | h
        · exact eq_ne_zero h (by decide)
        · exact eq_ne_zero h (by decide)
      have := chAt_ne_zero_lt _ _ hx
      have h1 := skipWhile_ge inp isHexDigit (pos + 2)
      have h2 := skipWhile_le inp isHexDigit (pos + 2) (by omega)
      omega
    · exact ⟨numLoop_ge _ _ _, numLoop_le _ _ _ (by omega)⟩
  generalize (if isHex = true then skipWhile inp isHexDigit (pos + 2) else numLoop inp pos false) = p1 at hp1
  have hp2 : p1 ≤ (if (!isHex && (chAt inp p1 == 101 || chAt inp p1 == 69)) = true then
        skipWhile inp isDigit (if (chAt inp (p1 + 1) == 43 || chAt inp (p1 + 1) == 45) = true then p1 + 1 + 1 else p1 + 1)
      else p1) ∧
      (if (!isHex && (chAt inp p1 == 101 || chAt inp p1 == 69)) = true then
        skipWhile inp isDigit (if (chAt inp (p1 + 1) == 43 || chAt inp (p1 + 1) == 45) = true then p1 + 1 + 1 else p1 + 1)
      else p1) ≤ inp.size := by
    split
    · rename_i he
      simp only [Bool.and_eq_true, Bool.or_eq_true, beq_iff_eq] at he
      have hlt : p1 < inp.size := by
        rcases he.2 with h | h
        · exact chAt_ne_zero_lt _ _ (eq_ne_zero h (by decide))
        · exact chAt_ne_zero_lt _ _ (eq_ne_zero h (by decide))
      split
      · rename_i hs
        simp only [Bool.or_eq_true, beq_iff_eq] at hs
        have hlt2 : p1 + 1 < inp.size := by
          rcases hs with h | h
          · exact chAt_ne_zero_lt _ _ (eq_ne_zero h (by decide))
          · exact chAt_ne_zero_lt _ _ (eq_ne_zero h (by decide))
        have h1 := skipWhile_ge inp isDigit (p1 + 1 + 1)
        have h2 := skipWhile_le inp isDigit (p1 + 1 + 1) (by omega)
        omega
      · have h1 := skipWhile_ge inp isDigit (p1 + 1)
        have h2 := skipWhile_le inp isDigit (p1 + 1) (by omega)
        omega
    · exact ⟨Nat.le_refl _, hp1.2⟩
  obtain ⟨w, hw⟩ := slice_ok inp pos _ (Nat.le_trans hp1.1 hp2.1) hp2.2
  rw [hw]
  exact ⟨_, rfl⟩

theorem isLetter_ne_zero {c : UInt8} (h : isLetter c = true) : c ≠ 0 := by
  intro hc; subst hc; simp [isLetter] at h

theorem isDigit_ne_zero {c : UInt8} (h : isDigit c = true) : c ≠ 0 := by
  intro hc; subst hc; simp [isDigit] at h

theorem isOk_of_eq_ok {α} {x : Outcome α} {r : α} (h : x = .ok r) : x.isOk = true := by subst h; rfl

theorem exists_of_isOk {α} {x : Outcome α} (h : x.isOk = true) : ∃ r, x = .ok r := by
  cases x with
  | ok a => exact ⟨a, rfl⟩
  | err m => simp [Outcome.isOk] at h
  | panic m => simp [Outcome.isOk] at h

theorem isOk_ite {α} {c : Prop} [Decidable c] {a b : Outcome α}
    (ha : c → a.isOk = true) (hb : ¬ c → b.isOk = true) : (if c then a else b).isOk = true := by
  split
  · exact ha ‹_›
  · exact hb ‹_›

/-- **the lexer is panic-free**: for every input and every position `NextToken` returns a token -/
theorem nextToken_isOk (inp : ByteArray) (pos : Nat) : (nextToken inp pos).isOk = true := by
  unfold nextToken
  simp only
  generalize skipWhile inp isWs pos = p
  repeat' (apply isOk_ite <;> intro _)
  all_goals first
    | rfl
    | (rename_i hl; obtain ⟨r, hr⟩ := readIdentifierOrKeyword_ok inp p (chAt_ne_zero_lt _ _ (isLetter_ne_zero hl)); rw [hr]; rfl)
    | (rename_i hd; obtain ⟨r, hr⟩ := readNumber_ok inp p (chAt_ne_zero_lt _ _ (isDigit_ne_zero hd)); rw [hr]; rfl)

theorem nextToken_ok (inp : ByteArray) (pos : Nat) : ∃ r, nextToken inp pos = .ok r :=
  exists_of_isOk (nextToken_isOk inp pos)

end Syzgy.Query
