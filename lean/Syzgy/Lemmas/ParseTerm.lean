import Syzgy.Lemmas.Parser
/-!
# The parser's recursion is bounded by the input: fuel never runs out

`Prog nx μ`: the token source is total and every token other than EOF makes the measure `μ` of the
lexer position drop. Over such a source each parser function, given fuel `c + 8 * rem s`, returns
without exhausting it, and leaves a state with no more remaining input than it started with.
-/
namespace Syzgy.Query

def Prog (nx : TokSrc) (μ : Nat → Nat) : Prop :=
  ∀ p, ∃ t p', nx p = .ok (t, p') ∧ (t.type ≠ .eof → μ p' < μ p) ∧ μ p' ≤ μ p

/-- tokens not yet consumed: the two buffered ones that are not EOF plus what the lexer has left -/
def rem (μ : Nat → Nat) (s : PS) : Nat :=
  (if s.cur.type = .eof then 0 else 1) + (if s.peek.type = .eof then 0 else 1) + μ s.pos

def Fine {α} (μ : Nat → Nat) (x : Outcome (α × PS)) (b : Nat) : Prop :=
  x ≠ .err "fuel" ∧ ∀ r s', x = .ok (r, s') → rem μ s' ≤ b

theorem Fine.mono {α} {μ : Nat → Nat} {x : Outcome (α × PS)} {b b' : Nat} (h : Fine μ x b) (hb : b ≤ b') : Fine μ x b' :=
  ⟨h.1, fun r s' e => Nat.le_trans (h.2 r s' e) hb⟩

theorem fine_err {α} (μ : Nat → Nat) (m : String) (hm : m ≠ "fuel") (b : Nat) : Fine μ (.err m : Outcome (α × PS)) b :=
  ⟨(by intro h; injection h with h; exact hm h), by intro _ _ h; cases h⟩

theorem fine_panic {α} (μ : Nat → Nat) (m : String) (b : Nat) : Fine μ (.panic m : Outcome (α × PS)) b :=
  ⟨(by intro h; cases h), by intro _ _ h; cases h⟩

theorem fine_ok {α} (μ : Nat → Nat) (r : α) (s : PS) (b : Nat) (h : rem μ s ≤ b) : Fine μ (.ok (r, s)) b :=
  ⟨(by intro h; cases h), by intro _ _ e; injection e with e; injection e with _ e2; subst e2; exact h⟩

theorem Fine.msg {α} {μ : Nat → Nat} {x : Outcome (α × PS)} {b : Nat} {m : String} (h : Fine μ x b) (hx : x = .err m) :
    m ≠ "fuel" := by
  intro e; subst e; exact h.1 hx

theorem Fine.le {α} {μ : Nat → Nat} {x : Outcome (α × PS)} {b : Nat} {r : α} {s' : PS} (h : Fine μ x b)
    (hx : x = .ok (r, s')) : rem μ s' ≤ b := h.2 r s' hx

section
variable (nx : TokSrc) (nok : NumOK) (μ : Nat → Nat) (hp : Prog nx μ)
include hp

theorem advance_prog (s : PS) :
    ∃ s', advance nx s = .ok s' ∧ s'.cur = s.peek ∧
      rem μ s' + (if s.cur.type = .eof then 0 else 1) ≤ rem μ s := by
  obtain ⟨t, p', hn, h1, h2⟩ := hp s.pos
  refine ⟨{ cur := s.peek, peek := t, pos := p' }, by simp [advance, hn], rfl, ?_⟩
  simp only [rem]
  by_cases ht : t.type = .eof
  · simp only [ht, if_true]; omega
  · have := h1 ht
    simp only [ht, if_false]; omega

theorem advance_lt (s : PS) (hne : s.cur.type ≠ .eof) :
    ∃ s', advance nx s = .ok s' ∧ s'.cur = s.peek ∧ rem μ s' + 1 ≤ rem μ s := by
  obtain ⟨s', h, hc, hr⟩ := advance_prog nx μ hp s
  rw [if_neg hne] at hr
  exact ⟨s', h, hc, hr⟩

theorem advance_le (s : PS) : ∃ s', advance nx s = .ok s' ∧ s'.cur = s.peek ∧ rem μ s' ≤ rem μ s := by
  obtain ⟨s', h, hc, hr⟩ := advance_prog nx μ hp s
  exact ⟨s', h, hc, by omega⟩

theorem expect_fine (s : PS) (t : TokType) (msg : String) :
    (∀ s', expect nx s t msg = .ok s' → rem μ s' ≤ rem μ s) ∧ (∀ m, expect nx s t msg = .err m → m = msg) ∧
    (∀ m, expect nx s t msg ≠ .panic m) := by
  unfold expect
  obtain ⟨s1, h1, _, hr⟩ := advance_le nx μ hp s
  split
  · rw [h1]
    refine ⟨?_, ?_, ?_⟩
    · intro s' e; injection e with e; subst e; exact hr
    · intro m e; cases e
    · intro m e; cases e
  · refine ⟨?_, ?_, ?_⟩
    · intro s' e; cases e
    · intro m e; injection e with e; exact e.symm
    · intro m e; cases e

theorem parseNumber_fine (s : PS) (hn : s.cur.type = .number) :
    parseNumber nx nok s ≠ .err "fuel" ∧ ∀ r s', parseNumber nx nok s = .ok (r, s') → rem μ s' + 1 ≤ rem μ s := by
  unfold parseNumber
  obtain ⟨s1, h1, _, hr⟩ := advance_lt nx μ hp s (by rw [hn]; decide)
  split
  · rw [h1]
    exact ⟨(by intro h; cases h), by intro r s' e; injection e with e; injection e with _ e2; subst e2; exact hr⟩
  · exact ⟨(by intro h; injection h with h; revert h; decide), by intro _ _ e; cases e⟩

theorem parseArrayElems_fine (fuel : Nat) (s : PS) (acc : List Value) (hf : 1 + rem μ s ≤ fuel) :
    Fine μ (parseArrayElems nx nok fuel s acc) (rem μ s) := by
  induction fuel generalizing s acc with
  | zero => omega
  | succ f ih =>
    unfold parseArrayElems
    simp only
    have hone : (if s.cur.type = .number then
        (if nok s.cur.lit then (do let s' ← advance nx s; pure (Value.num s.cur.lit, s')) else .err "could not parse number")
      else if s.cur.type = .string then (do let s' ← advance nx s; pure (Value.str s.cur.lit, s'))
      else (.err "expected number or string in array" : Outcome (Value × PS))) ≠ .err "fuel" ∧
      ∀ v s1, (if s.cur.type = .number then
        (if nok s.cur.lit then (do let s' ← advance nx s; pure (Value.num s.cur.lit, s')) else .err "could not parse number")
      else if s.cur.type = .string then (do let s' ← advance nx s; pure (Value.str s.cur.lit, s'))
      else (.err "expected number or string in array" : Outcome (Value × PS))) = .ok (v, s1) → rem μ s1 + 1 ≤ rem μ s := by
      by_cases hnum : s.cur.type = .number
      · obtain ⟨s1, h1, _, hr⟩ := advance_lt nx μ hp s (by rw [hnum]; decide)
        rw [if_pos hnum]
        split
        · rw [h1]
          exact ⟨(by intro h; cases h), by intro v s' e; injection e with e; injection e with _ e2; subst e2; exact hr⟩
        · exact ⟨(by intro h; injection h with h; revert h; decide), by intro _ _ e; cases e⟩
      · rw [if_neg hnum]
        by_cases hstr : s.cur.type = .string
        · obtain ⟨s1, h1, _, hr⟩ := advance_lt nx μ hp s (by rw [hstr]; decide)
          rw [if_pos hstr, h1]
          exact ⟨(by intro h; cases h), by intro v s' e; injection e with e; injection e with _ e2; subst e2; exact hr⟩
        · rw [if_neg hstr]
          exact ⟨(by intro h; injection h with h; revert h; decide), by intro _ _ e; cases e⟩
    revert hone
    generalize (if s.cur.type = .number then
        (if nok s.cur.lit then (do let s' ← advance nx s; pure (Value.num s.cur.lit, s')) else .err "could not parse number")
      else if s.cur.type = .string then (do let s' ← advance nx s; pure (Value.str s.cur.lit, s'))
      else (.err "expected number or string in array" : Outcome (Value × PS))) = one
    intro hone
    cases one with
    | err m => exact fine_err μ m (by intro e; subst e; exact hone.1 rfl) _
    | panic m => exact fine_panic μ m _
    | ok r =>
      obtain ⟨v, s1⟩ := r
      have hr1 := hone.2 v s1 rfl
      simp only
      split
      · rename_i hcomma
        obtain ⟨s2, h2, _, hr2⟩ := advance_lt nx μ hp s1 (by rw [hcomma]; decide)
        rw [h2]
        exact (ih s2 (v :: acc) (by omega)).mono (by omega)
      · exact fine_ok μ _ _ _ (by omega)

theorem parseArrayLiteral_fine (fuel : Nat) (s : PS) (hf : 1 + rem μ s ≤ fuel) :
    Fine μ (parseArrayLiteral nx nok fuel s) (rem μ s) := by
  unfold parseArrayLiteral
  obtain ⟨s1, h1, _, hr1⟩ := advance_le nx μ hp s
  rw [h1]
  simp only [bind, Outcome.bind]
  by_cases hrb : s1.cur.type ≠ .rightBracket
  · rw [if_pos hrb]
    have he := parseArrayElems_fine nx nok μ hp fuel s1 [] (by omega)
    cases hx : parseArrayElems nx nok fuel s1 [] with
    | err m => exact fine_err μ m (he.msg hx) _
    | panic m => exact fine_panic μ m _
    | ok r =>
      obtain ⟨elems, s2⟩ := r
      have hr2 := he.le hx
      obtain ⟨e1, e2, e3⟩ := expect_fine nx μ hp s2 .rightBracket "expected ']'"
      simp only
      cases hy : expect nx s2 .rightBracket "expected ']'" with
      | err m => exact fine_err μ m (by rw [e2 m hy]; decide) _
      | panic m => exact fine_panic μ m _
      | ok s3 => exact fine_ok μ _ _ _ (by have := e1 s3 hy; omega)
  · rw [if_neg hrb]
    obtain ⟨e1, e2, e3⟩ := expect_fine nx μ hp s1 .rightBracket "expected ']'"
    simp only [pure]
    cases hy : expect nx s1 .rightBracket "expected ']'" with
    | err m => exact fine_err μ m (by rw [e2 m hy]; decide) _
    | panic m => exact fine_panic μ m _
    | ok s3 => exact fine_ok μ _ _ _ (by have := e1 s3 hy; omega)

theorem parseIn_fine (fuel : Nat) (e : Node) (s : PS) (hf : 1 + rem μ s ≤ fuel) :
    Fine μ (parseIn nx nok fuel e s) (rem μ s) := by
  unfold parseIn
  obtain ⟨s1, h1, _, hr1⟩ := advance_le nx μ hp s
  rw [h1]
  simp only [bind, Outcome.bind]
  have key : ∀ (s2 : PS), rem μ s2 ≤ rem μ s → Fine μ (parseArrayLiteral nx nok fuel s2) (rem μ s) := by
    intro s2 h2
    exact (parseArrayLiteral_fine nx nok μ hp fuel s2 (by omega)).mono h2
  by_cases hc : s.cur.type = .not ∧ s1.cur.type = .in
  · rw [if_pos hc]
    obtain ⟨s2, h2, _, hr2⟩ := advance_le nx μ hp s1
    rw [h2]
    simp only [pure]
    split
    · exact fine_err μ _ (by decide) _
    · have ha := key s2 (by omega)
      cases hx : parseArrayLiteral nx nok fuel s2 with
      | err m => exact fine_err μ m (ha.msg hx) _
      | panic m => exact fine_panic μ m _
      | ok r => obtain ⟨arr, s3⟩ := r; exact fine_ok μ _ _ _ (ha.le hx)
  · rw [if_neg hc]
    simp only [pure]
    split
    · exact fine_err μ _ (by decide) _
    · have ha := key s1 hr1
      cases hx : parseArrayLiteral nx nok fuel s1 with
      | err m => exact fine_err μ m (ha.msg hx) _
      | panic m => exact fine_panic μ m _
      | ok r => obtain ⟨arr, s3⟩ := r; exact fine_ok μ _ _ _ (ha.le hx)

end

/-- all eleven mutually recursive parser functions have fuel to spare -/
structure AllT (nx : TokSrc) (nok : NumOK) (μ : Nat → Nat) (f : Nat) : Prop where
  or_ : ∀ s, 6 + 8 * rem μ s ≤ f → Fine μ (parseOr nx nok f s) (rem μ s)
  orL : ∀ l s, 1 + 8 * rem μ s ≤ f → Fine μ (orLoop nx nok f l s) (rem μ s)
  and_ : ∀ s, 5 + 8 * rem μ s ≤ f → Fine μ (parseAnd nx nok f s) (rem μ s)
  andL : ∀ l s, 1 + 8 * rem μ s ≤ f → Fine μ (andLoop nx nok f l s) (rem μ s)
  cmp : ∀ s, 4 + 8 * rem μ s ≤ f → Fine μ (parseComparison nx nok f s) (rem μ s)
  not_ : ∀ s, 3 + 8 * rem μ s ≤ f → Fine μ (parseNot nx nok f s) (rem μ s)
  prim : ∀ s, 2 + 8 * rem μ s ≤ f → Fine μ (parsePrimary nx nok f s) (rem μ s)
  idf : ∀ s, s.cur.type ≠ .eof → 1 + 8 * rem μ s ≤ f → Fine μ (parseIdentifierOrFunction nx nok f s) (rem μ s)
  acc : ∀ e s, 1 + 8 * rem μ s ≤ f → Fine μ (accessLoop nx nok f e s) (rem μ s)
  fn : ∀ e s, s.cur.type ≠ .eof → 1 + 8 * rem μ s ≤ f → Fine μ (parseFunction nx nok f e s) (rem μ s)
  arg : ∀ a s, 1 + 8 * rem μ s ≤ f → Fine μ (argLoop nx nok f a s) (rem μ s)

theorem cmpop_ne_eof {t : TokType} (h : isComparisonOperator t = true) : t ≠ .eof := by
  intro e; subst e; revert h; decide

theorem allT (nx : TokSrc) (nok : NumOK) (μ : Nat → Nat) (hp : Prog nx μ) : ∀ f, AllT nx nok μ f := by
  intro f
  induction f with
  | zero => constructor <;> intros <;> omega
  | succ f ih =>
    constructor
    · -- parseOr
      intro s hf
      unfold parseOr
      have ha := ih.and_ s (by omega)
      cases hx : parseAnd nx nok f s with
      | err m => exact fine_err μ m (ha.msg hx) _
      | panic m => exact fine_panic μ m _
      | ok r =>
        obtain ⟨l, s1⟩ := r
        have h1 := ha.le hx
        exact (ih.orL l s1 (by omega)).mono h1
    · -- orLoop
      intro l s hf
      unfold orLoop
      split
      · rename_i hc
        obtain ⟨s1, h1, _, hr1⟩ := advance_lt nx μ hp s (by rw [hc]; decide)
        rw [h1]
        simp only
        have ha := ih.and_ s1 (by omega)
        cases hx : parseAnd nx nok f s1 with
        | err m => exact fine_err μ m (ha.msg hx) _
        | panic m => exact fine_panic μ m _
        | ok r =>
          obtain ⟨r, s2⟩ := r
          have h2 := ha.le hx
          exact (ih.orL _ s2 (by omega)).mono (by omega)
      · exact fine_ok μ _ _ _ (Nat.le_refl _)
    · -- parseAnd
      intro s hf
      unfold parseAnd
      have ha := ih.cmp s (by omega)
      cases hx : parseComparison nx nok f s with
      | err m => exact fine_err μ m (ha.msg hx) _
      | panic m => exact fine_panic μ m _
      | ok r =>
        obtain ⟨l, s1⟩ := r
        have h1 := ha.le hx
        exact (ih.andL l s1 (by omega)).mono h1
    · -- andLoop
      intro l s hf
      unfold andLoop
      split
      · rename_i hc
        obtain ⟨s1, h1, _, hr1⟩ := advance_lt nx μ hp s (by rw [hc]; decide)
        rw [h1]
        simp only
        have ha := ih.cmp s1 (by omega)
        cases hx : parseComparison nx nok f s1 with
        | err m => exact fine_err μ m (ha.msg hx) _
        | panic m => exact fine_panic μ m _
        | ok r =>
          obtain ⟨r, s2⟩ := r
          have h2 := ha.le hx
          exact (ih.andL _ s2 (by omega)).mono (by omega)
      · exact fine_ok μ _ _ _ (Nat.le_refl _)
    · -- parseComparison
      intro s hf
      unfold parseComparison
      have ha := ih.not_ s (by omega)
      cases hx : parseNot nx nok f s with
      | err m => exact fine_err μ m (ha.msg hx) _
      | panic m => exact fine_panic μ m _
      | ok r =>
        obtain ⟨l, s1⟩ := r
        have h1 := ha.le hx
        simp only
        split
        · rename_i hc
          obtain ⟨s2, h2, _, hr2⟩ := advance_lt nx μ hp s1 (cmpop_ne_eof hc)
          rw [h2]
          simp only
          have hb := ih.not_ s2 (by omega)
          cases hy : parseNot nx nok f s2 with
          | err m => exact fine_err μ m (hb.msg hy) _
          | panic m => exact fine_panic μ m _
          | ok r =>
            obtain ⟨r, s3⟩ := r
            exact fine_ok μ _ _ _ (by have := hb.le hy; omega)
        · exact fine_ok μ _ _ _ h1
    · -- parseNot
      intro s hf
      unfold parseNot
      split
      · rename_i hc
        obtain ⟨s1, h1, _, hr1⟩ := advance_lt nx μ hp s (by rw [hc]; decide)
        rw [h1]
        simp only
        have ha := ih.prim s1 (by omega)
        cases hx : parsePrimary nx nok f s1 with
        | err m => exact fine_err μ m (ha.msg hx) _
        | panic m => exact fine_panic μ m _
        | ok r =>
          obtain ⟨e, s2⟩ := r
          exact fine_ok μ _ _ _ (by have := ha.le hx; omega)
      · exact ih.prim s (by omega)
    · -- parsePrimary
      intro s hf
      unfold parsePrimary
      obtain ⟨sa, hadv, _, hra⟩ := advance_le nx μ hp s
      split
      · rename_i hc
        exact ih.idf s (by rw [hc]; decide) (by omega)
      · rename_i hc
        have hn := parseNumber_fine nx nok μ hp s hc
        exact ⟨hn.1, fun r s' e => by have := hn.2 r s' e; omega⟩
      · rw [hadv]; exact fine_ok μ _ _ _ hra
      · rw [hadv]; exact fine_ok μ _ _ _ hra
      · rw [hadv]; exact fine_ok μ _ _ _ hra
      · rename_i hc
        obtain ⟨s1, h1, _, hr1⟩ := advance_lt nx μ hp s (by rw [hc]; decide)
        rw [h1]
        simp only
        have ha := ih.or_ s1 (by omega)
        cases hx : parseOr nx nok f s1 with
        | err m => exact fine_err μ m (ha.msg hx) _
        | panic m => exact fine_panic μ m _
        | ok r =>
          obtain ⟨e, s2⟩ := r
          have h2 := ha.le hx
          obtain ⟨e1, e2, e3⟩ := expect_fine nx μ hp s2 .rightParen "expected ')'"
          simp only
          cases hy : expect nx s2 .rightParen "expected ')'" with
          | err m => exact fine_err μ m (by rw [e2 m hy]; decide) _
          | panic m => exact fine_panic μ m _
          | ok s3 => exact fine_ok μ _ _ _ (by have := e1 s3 hy; omega)
      · exact parseArrayLiteral_fine nx nok μ hp f s (by omega)
      · rw [hadv]
        simp only
        split
        · obtain ⟨s2, h2, _, hr2⟩ := advance_le nx μ hp sa
          rw [h2]
          exact fine_ok μ _ _ _ (by omega)
        · exact fine_err μ _ (by decide) _
      · exact fine_err μ _ (by decide) _
    · -- parseIdentifierOrFunction
      intro s hne hf
      unfold parseIdentifierOrFunction
      obtain ⟨s1, h1, _, hr1⟩ := advance_lt nx μ hp s hne
      rw [h1]
      simp only
      have ha := ih.acc (.ident s.cur.lit) s1 (by omega)
      cases hx : accessLoop nx nok f (.ident s.cur.lit) s1 with
      | err m => exact fine_err μ m (ha.msg hx) _
      | panic m => exact fine_panic μ m _
      | ok r =>
        obtain ⟨e, s2⟩ := r
        have h2 := ha.le hx
        obtain ⟨s3, h3, _, hr3⟩ := advance_le nx μ hp s2
        simp only
        split
        · exact (parseIn_fine nx nok μ hp f e s2 (by omega)).mono (by omega)
        · split
          · rename_i hc
            exact (ih.fn e s2 (by rw [hc]; decide) (by omega)).mono (by omega)
          · split
            · rw [h3]; exact fine_ok μ _ _ _ (by omega)
            · split
              · rw [h3]; exact fine_ok μ _ _ _ (by omega)
              · exact fine_ok μ _ _ _ (by omega)
    · -- accessLoop
      intro e s hf
      unfold accessLoop
      split
      · rename_i hc
        obtain ⟨s1, h1, _, hr1⟩ := advance_lt nx μ hp s (by rw [hc]; decide)
        rw [h1]
        simp only
        have ha := ih.or_ s1 (by omega)
        cases hx : parseOr nx nok f s1 with
        | err m => exact fine_err μ m (ha.msg hx) _
        | panic m => exact fine_panic μ m _
        | ok r =>
          obtain ⟨ix, s2⟩ := r
          have h2 := ha.le hx
          obtain ⟨e1, e2, e3⟩ := expect_fine nx μ hp s2 .rightBracket "expected ']'"
          simp only
          cases hy : expect nx s2 .rightBracket "expected ']'" with
          | err m => exact fine_err μ m (by rw [e2 m hy]; decide) _
          | panic m => exact fine_panic μ m _
          | ok s3 =>
            have h3 := e1 s3 hy
            exact (ih.acc _ s3 (by omega)).mono (by omega)
      · split
        · rename_i hc
          obtain ⟨s1, h1, _, hr1⟩ := advance_lt nx μ hp s (by rw [hc]; decide)
          rw [h1]
          simp only
          split
          · obtain ⟨s2, h2, _, hr2⟩ := advance_le nx μ hp s1
            rw [h2]
            exact (ih.acc _ s2 (by omega)).mono (by omega)
          · exact fine_err μ _ (by decide) _
        · exact fine_ok μ _ _ _ (Nat.le_refl _)
    · -- parseFunction
      intro e s hne hf
      unfold parseFunction
      obtain ⟨s1, h1, _, hr1⟩ := advance_lt nx μ hp s hne
      rw [h1]
      simp only
      split
      · split
        · have ha := ih.or_ s1 (by omega)
          cases hx : parseOr nx nok f s1 with
          | err m => exact fine_err μ m (ha.msg hx) _
          | panic m => exact fine_panic μ m _
          | ok r =>
            obtain ⟨a, s2⟩ := r
            have h2 := ha.le hx
            simp only
            have hb := ih.arg [a] s2 (by omega)
            cases hy : argLoop nx nok f [a] s2 with
            | err m => exact fine_err μ m (hb.msg hy) _
            | panic m => exact fine_panic μ m _
            | ok r =>
              obtain ⟨args, s3⟩ := r
              have h3 := hb.le hy
              obtain ⟨e1, e2, e3⟩ := expect_fine nx μ hp s3 .rightParen "expected ')' after function arguments"
              simp only
              cases hz : expect nx s3 .rightParen "expected ')' after function arguments" with
              | err m => exact fine_err μ m (by rw [e2 m hz]; decide) _
              | panic m => exact fine_panic μ m _
              | ok s4 => exact fine_ok μ _ _ _ (by have := e1 s4 hz; omega)
        · obtain ⟨s2, h2, _, hr2⟩ := advance_le nx μ hp s1
          rw [h2]
          exact fine_ok μ _ _ _ (by omega)
      · exact fine_err μ _ (by decide) _
    · -- argLoop
      intro a s hf
      unfold argLoop
      split
      · rename_i hc
        obtain ⟨s1, h1, _, hr1⟩ := advance_lt nx μ hp s (by rw [hc]; decide)
        rw [h1]
        simp only
        have ha := ih.or_ s1 (by omega)
        cases hx : parseOr nx nok f s1 with
        | err m => exact fine_err μ m (ha.msg hx) _
        | panic m => exact fine_panic μ m _
        | ok r =>
          obtain ⟨x, s2⟩ := r
          have h2 := ha.le hx
          exact (ih.arg _ s2 (by omega)).mono (by omega)
      · exact fine_ok μ _ _ _ (Nat.le_refl _)

end Syzgy.Query
